(* RxCost.v — the matcher of Rx.v with a step counter: every character test costs one step, failed alternatives
   included.  Same control structure as [m]; Proofs/RxCostProofs.v shows the results coincide, so the count is the
   work of the very engine the theorems are about.  Used to measure backtracking deterministically (C07). *)
From Coq Require Import ZArith List Bool Lia.
From Verif Require Import PyStr Rx.
Import ListNotations.
Open Scope Z_scope.

Section Cost.
Variable U : uni.
Context {A : Type}.

Definition KC := zip -> caps -> nat -> option A * nat.

Definition onec (p : Z -> bool) (z : zip) (c : caps) (n : nat) (k : KC) : option A * nat :=
  match zstep z with
  | Some (ch, z') => if p ch then k z' c (S n) else (None, S n)
  | None => (None, S n)
  end.

Fixpoint litsc (s : list Z) (z : zip) (c : caps) (n : nat) (k : KC) : option A * nat :=
  match s with
  | [] => k z c n
  | ch :: s' => onec (fun x => x =? ch) z c n (fun z' c' n' => litsc s' z' c' n' k)
  end.
End Cost.

Fixpoint rep_loopc {A : Type} (mr : zip -> caps -> nat -> (zip -> caps -> nat -> option A * nat) -> option A * nat)
         (greedy : bool) (lo : nat) (hi : option nat) (k : zip -> caps -> nat -> option A * nat)
         (budget : nat) (i : nat) (z : zip) (c : caps) (n : nat) {struct budget} : option A * nat :=
  let can_stop := Nat.leb lo i in
  let can_more := match hi with Some h => Nat.ltb i h | None => true end in
  match budget with
  | O => if can_stop then k z c n else (None, n)
  | S b' =>
    let more := fun n0 => if can_more
                then mr z c n0 (fun z' c' n' => if Nat.ltb (z_idx z) (z_idx z') then rep_loopc mr greedy lo hi k b' (S i) z' c' n' else (None, n'))
                else (None, n0) in
    let stop := fun n0 => if can_stop then k z c n0 else (None, n0) in
    if greedy then match more n with (Some x, n1) => (Some x, n1) | (None, n1) => stop n1 end
    else match stop n with (Some x, n1) => (Some x, n1) | (None, n1) => more n1 end
  end.

Fixpoint mc (U : uni) {A : Type} (r : rx) (z : zip) (c : caps) (n : nat) (k : zip -> caps -> nat -> option A * nat) {struct r} : option A * nat :=
  match r with
  | REps => k z c n
  | RLit ch => onec (fun x => x =? ch) z c n k
  | RNotLit ch => onec (fun x => negb (x =? ch)) z c n k
  | RIn neg items => onec (in_class U neg items) z c n k
  | RAny dotall => onec (fun x => dotall || negb (x =? 10)) z c n k
  | RSeq a b => mc U a z c n (fun z' c' n' => mc U b z' c' n' k)
  | RAlt a b => match mc U a z c n k with (Some x, n1) => (Some x, n1) | (None, n1) => mc U b z c n1 k end
  | RFail => (None, n)
  | RRep greedy lo hi r1 =>
    rep_loopc (fun z0 c0 n0 k0 => mc U r1 z0 c0 n0 k0) greedy lo hi k (S (length (z_rest z))) O z c n
  | RGroup g r1 => mc U r1 z c n (fun z' c' n' => k z' ((g, (z_idx z, z_idx z')) :: c') n')
  | RBackref g =>
    match cap_get c g with
    | Some (a, b) => litsc (zslice z a b) z c n k
    | None => (None, n)
    end
  | RLook ahead neg r1 =>
    match look_start ahead (width r1) z with
    | None => if neg then k z c n else (None, n)
    | Some z0 =>
      match mc U r1 z0 c n (fun z' c' n' => (look_k ahead z z' c', n')) with
      | (Some c', n1) => if neg then (None, n1) else k z c' n1
      | (None, n1) => if neg then k z c n1 else (None, n1)
      end
    end
  | RAt a => if at_ok U a z then k z c n else (None, n)
  end.

(* Pattern.match at a position, and Pattern.search from a position, with the number of character tests *)
Definition match_at_cost (U : uni) (r : rx) (z : zip) (n : nat) : option mresult * nat :=
  mc U r z [] n (fun z' c' n' => (Some (z_idx z, z_idx z', c'), n')).

Fixpoint search_from_cost (U : uni) (r : rx) (fuel : nat) (z : zip) (n : nat) : option mresult * nat :=
  match match_at_cost U r z n with
  | (Some x, n1) => (Some x, n1)
  | (None, n1) =>
    match fuel with
    | O => (None, n1)
    | S f => match zstep z with Some (_, z') => search_from_cost U r f z' n1 | None => (None, n1) end
    end
  end.

Definition re_search_cost (U : uni) (r : rx) (s : list Z) (pos : nat) : option mresult * nat :=
  let z := zip_at s pos (length s) in search_from_cost U r (length (z_rest z)) z 0.
