(* Rx.v — regular expressions as CPython's sre_parse sees them, and an executable
   backtracking matcher (continuation passing, ordered alternatives, greedy / lazy
   bounded repeats, capture groups, back-references, look-ahead / look-behind, anchors).
   Definitions only; the declarative semantics and the soundness/completeness theorem
   are in Proofs/RxSpec.v.  The engine is compared with CPython's `re` on every pattern
   of the repository by tools/corr_rx.py (engine conformance). *)
From Coq Require Import ZArith List Bool Lia.
From Verif Require Import PyStr.
Import ListNotations.
Open Scope Z_scope.

(* ---------- character classes ---------- *)
Inductive category := CatSpace | CatNotSpace | CatDigit | CatNotDigit | CatWord | CatNotWord.

Inductive citem :=
| CLit (c : Z)
| CRange (lo hi : Z)
| CCat (cat : category).

(* Unicode tables of the running interpreter: sorted, disjoint inclusive ranges *)
Record uni := { u_space : list (Z * Z); u_digit : list (Z * Z); u_word : list (Z * Z) }.

Fixpoint in_ranges (c : Z) (l : list (Z * Z)) : bool :=
  match l with
  | [] => false
  | (lo, hi) :: l' => if c <? lo then false else if c <=? hi then true else in_ranges c l'
  end.

Definition in_cat (U : uni) (cat : category) (c : Z) : bool :=
  match cat with
  | CatSpace => in_ranges c (u_space U)
  | CatNotSpace => negb (in_ranges c (u_space U))
  | CatDigit => in_ranges c (u_digit U)
  | CatNotDigit => negb (in_ranges c (u_digit U))
  | CatWord => in_ranges c (u_word U)
  | CatNotWord => negb (in_ranges c (u_word U))
  end.

Definition in_item (U : uni) (it : citem) (c : Z) : bool :=
  match it with
  | CLit x => c =? x
  | CRange lo hi => (lo <=? c) && (c <=? hi)
  | CCat cat => in_cat U cat c
  end.

Definition in_class (U : uni) (neg : bool) (items : list citem) (c : Z) : bool :=
  xorb neg (existsb (fun it => in_item U it c) items).

(* ---------- syntax ---------- *)
Inductive atcode :=
| AtBeginning        (* ^  without MULTILINE, \A *)
| AtBeginningLine    (* ^  with MULTILINE *)
| AtEnd              (* $  without MULTILINE: at the end, or before a final newline *)
| AtEndLine          (* $  with MULTILINE *)
| AtEndString        (* \Z *)
| AtBoundary         (* \b *)
| AtNonBoundary.     (* \B *)

Inductive rx :=
| REps
| RLit (c : Z)
| RNotLit (c : Z)
| RIn (neg : bool) (items : list citem)
| RAny (dotall : bool)
| RSeq (a b : rx)
| RAlt (a b : rx)
| RFail                                         (* empty alternation *)
| RRep (greedy : bool) (lo : nat) (hi : option nat) (r : rx)
| RGroup (idx : nat) (r : rx)                   (* capturing group *)
| RBackref (idx : nat)
| RLook (ahead : bool) (neg : bool) (r : rx)    (* behind: [r] has fixed width *)
| RAt (a : atcode).

(* ---------- subject: a zipper ---------- *)
Record zip := { z_pre : list Z;    (* characters before the position, nearest first *)
                z_rest : list Z;   (* characters from the position on (up to endpos) *)
                z_idx : nat }.

Definition caps := list (nat * (nat * nat)).

Fixpoint cap_get (c : caps) (g : nat) : option (nat * nat) :=
  match c with [] => None | (g', se) :: c' => if Nat.eqb g g' then Some se else cap_get c' g end.

Definition zstep (z : zip) : option (Z * zip) :=
  match z_rest z with
  | [] => None
  | ch :: r => Some (ch, {| z_pre := ch :: z_pre z; z_rest := r; z_idx := S (z_idx z) |})
  end.

(* move back w characters (for look-behind) *)
Fixpoint zback (w : nat) (z : zip) : option zip :=
  match w with
  | O => Some z
  | S w' =>
    match z_pre z with
    | [] => None
    | ch :: p => zback w' {| z_pre := p; z_rest := ch :: z_rest z; z_idx := pred (z_idx z) |}
    end
  end.

Definition is_word (U : uni) (o : option Z) : bool :=
  match o with Some c => in_ranges c (u_word U) | None => false end.

Definition at_ok (U : uni) (a : atcode) (z : zip) : bool :=
  match a with
  | AtBeginning => match z_pre z with [] => true | _ => false end
  | AtBeginningLine => match z_pre z with [] => true | c :: _ => c =? 10 end
  | AtEnd => match z_rest z with [] => true | [c] => c =? 10 | _ => false end
  | AtEndLine => match z_rest z with [] => true | c :: _ => c =? 10 end
  | AtEndString => match z_rest z with [] => true | _ => false end
  | AtBoundary => xorb (is_word U (hd_error (z_pre z))) (is_word U (hd_error (z_rest z)))
  | AtNonBoundary => negb (xorb (is_word U (hd_error (z_pre z))) (is_word U (hd_error (z_rest z))))
  end.

(* fixed width of a look-behind body (None = not fixed) *)
Fixpoint width (r : rx) : option nat :=
  match r with
  | REps | RAt _ | RLook _ _ _ => Some O
  | RLit _ | RNotLit _ | RIn _ _ | RAny _ => Some 1%nat
  | RSeq a b => match width a, width b with Some x, Some y => Some (x + y)%nat | _, _ => None end
  | RAlt a b => match width a, width b with Some x, Some y => if Nat.eqb x y then Some x else None | _, _ => None end
  | RFail => Some O
  | RRep _ lo hi r => match hi, width r with Some h, Some w => if Nat.eqb lo h then Some (lo * w)%nat else None | _, _ => None end
  | RGroup _ r => width r
  | RBackref _ => None
  end.

(* text of a capture: characters [a, b) of the whole subject, recovered from the zipper *)
Definition subject (z : zip) : list Z := rev (z_pre z) ++ z_rest z.
Definition zslice (z : zip) (a b : nat) : list Z := firstn (b - a) (skipn a (subject z)).

Section Engine.
Variable U : uni.
Context {A : Type}.

Definition K := zip -> caps -> option A.

Definition one (p : Z -> bool) (z : zip) (c : caps) (k : K) : option A :=
  match zstep z with
  | Some (ch, z') => if p ch then k z' c else None
  | None => None
  end.

(* match a literal string (back-reference) *)
Fixpoint lits (s : list Z) (z : zip) (c : caps) (k : K) : option A :=
  match s with
  | [] => k z c
  | ch :: s' => one (fun x => x =? ch) z c (fun z' c' => lits s' z' c' k)
  end.

End Engine.

(* the repeat loop, parameterised by the matcher of the body.  [n] = iterations done; every
   iteration must consume (CPython's empty-iteration guard; bodies of the repository's
   patterns are never nullable, checked by the translator) *)
Fixpoint rep_loop {A : Type} (mr : zip -> caps -> (zip -> caps -> option A) -> option A)
         (greedy : bool) (lo : nat) (hi : option nat) (k : zip -> caps -> option A)
         (budget : nat) (n : nat) (z : zip) (c : caps) {struct budget} : option A :=
  let can_stop := Nat.leb lo n in
  let can_more := match hi with Some h => Nat.ltb n h | None => true end in
  match budget with
  | O => if can_stop then k z c else None
  | S b' =>
    let more := if can_more
                then mr z c (fun z' c' => if Nat.ltb (z_idx z) (z_idx z') then rep_loop mr greedy lo hi k b' (S n) z' c' else None)
                else None in
    let stop := if can_stop then k z c else None in
    if greedy then match more with Some x => Some x | None => stop end
    else match stop with Some x => Some x | None => more end
  end.

Definition look_start (ahead : bool) (w : option nat) (z : zip) : option zip :=
  if ahead then Some z else match w with Some n => zback n z | None => None end.

Definition look_k (ahead : bool) (z : zip) : zip -> caps -> option caps :=
  fun z' c' => if ahead then Some c' else if Nat.eqb (z_idx z') (z_idx z) then Some c' else None.

Fixpoint m (U : uni) {A : Type} (r : rx) (z : zip) (c : caps) (k : zip -> caps -> option A) {struct r} : option A :=
  match r with
  | REps => k z c
  | RLit ch => one (fun x => x =? ch) z c k
  | RNotLit ch => one (fun x => negb (x =? ch)) z c k
  | RIn neg items => one (in_class U neg items) z c k
  | RAny dotall => one (fun x => dotall || negb (x =? 10)) z c k
  | RSeq a b => m U a z c (fun z' c' => m U b z' c' k)
  | RAlt a b => match m U a z c k with Some x => Some x | None => m U b z c k end
  | RFail => None
  | RRep greedy lo hi r1 =>
    rep_loop (fun z0 c0 k0 => m U r1 z0 c0 k0) greedy lo hi k (S (length (z_rest z))) O z c
  | RGroup g r1 => m U r1 z c (fun z' c' => k z' ((g, (z_idx z, z_idx z')) :: c'))
  | RBackref g =>
    match cap_get c g with
    | Some (a, b) => lits (zslice z a b) z c k
    | None => None
    end
  | RLook ahead neg r1 =>
    match look_start ahead (width r1) z with
    | None => if neg then k z c else None
    | Some z0 =>
      match m U r1 z0 c (look_k ahead z) with
      | Some c' => if neg then None else k z c'
      | None => if neg then k z c else None
      end
    end
  | RAt a => if at_ok U a z then k z c else None
  end.

(* ---------- the re module's entry points ---------- *)
(* subject s, pos, endpos as in Pattern.match(s, pos, endpos) *)
Definition zip_at (s : list Z) (pos endpos : nat) : zip :=
  let e := Nat.min endpos (length s) in
  let p := Nat.min pos e in
  {| z_pre := rev (firstn p s); z_rest := firstn (e - p) (skipn p s); z_idx := p |}.

(* result: (start, end, captures) *)
Definition mresult := (nat * nat * caps)%type.

Definition match_at (U : uni) (r : rx) (z : zip) : option mresult :=
  m U r z [] (fun z' c' => Some (z_idx z, z_idx z', c')).

Definition re_match (U : uni) (r : rx) (s : list Z) (pos endpos : nat) : option mresult :=
  if Nat.ltb (Nat.min endpos (length s)) pos then None else match_at U r (zip_at s pos endpos).

Definition re_fullmatch (U : uni) (r : rx) (s : list Z) (pos endpos : nat) : option mresult :=
  if Nat.ltb (Nat.min endpos (length s)) pos then None
  else let z := zip_at s pos endpos in
       m U r z [] (fun z' c' => match z_rest z' with [] => Some (z_idx z, z_idx z', c') | _ => None end).

(* leftmost match at or after the position *)
Fixpoint search_from (U : uni) (r : rx) (fuel : nat) (z : zip) : option mresult :=
  match match_at U r z with
  | Some x => Some x
  | None =>
    match fuel with
    | O => None
    | S f => match zstep z with Some (_, z') => search_from U r f z' | None => None end
    end
  end.

Definition re_search (U : uni) (r : rx) (s : list Z) (pos endpos : nat) : option mresult :=
  if Nat.ltb (Nat.min endpos (length s)) pos then None
  else let z := zip_at s pos endpos in search_from U r (length (z_rest z)) z.

Definition group_span (res : mresult) (g : nat) : option (nat * nat) :=
  match g with O => Some (fst (fst res), snd (fst res)) | _ => cap_get (snd res) g end.

(* name of the last matched top-level group (Match.lastgroup): the capture closed last *)
Definition lastindex (res : mresult) : option nat :=
  match snd res with [] => None | (g, _) :: _ => Some g end.
