(* PyStr.v — Python str modelled as a list of code points (Z), with the builtins
   mistune relies on.  Definitions only (executable); lemmas live in Proofs/.
   Every function here is in the correspondence with CPython (tools/corr_pystr.py). *)
From Coq Require Import ZArith List Bool Lia.
Import ListNotations.
Open Scope Z_scope.

Definition char := Z.
Definition str := list Z.

(* value universe used by the extracted driver (ocaml/driver.ml) *)
Inductive pval : Type :=
| VInt (z : Z)
| VStr (s : str)
| VList (l : list pval)
| VNone
| VBool (b : bool).

Fixpoint str_eqb (a b : str) : bool :=
  match a, b with
  | [], [] => true
  | x :: a', y :: b' => (x =? y) && str_eqb a' b'
  | _, _ => false
  end.

Fixpoint prefixb (p s : str) : bool :=
  match p, s with
  | [], _ => true
  | x :: p', y :: s' => (x =? y) && prefixb p' s'
  | _ :: _, [] => false
  end.

Definition startswith (s p : str) : bool := prefixb p s.
Definition endswith (s p : str) : bool := prefixb (rev p) (rev s).

Fixpoint memc (c : Z) (l : list Z) : bool :=
  match l with [] => false | x :: l' => (c =? x) || memc c l' end.

(* s.replace(old, new) for non-empty [old]: left-to-right, non-overlapping.
   [skip] counts characters of an already-replaced occurrence still to drop. *)
Fixpoint replace_aux (old new : str) (skip : nat) (s : str) : str :=
  match s with
  | [] => []
  | c :: s' =>
    match skip with
    | S k => replace_aux old new k s'
    | O => if prefixb old s
           then new ++ replace_aux old new (length old - 1) s'
           else c :: replace_aux old new 0 s'
    end
  end.

Definition replace (old new s : str) : str :=
  match old with
  | [] => s   (* never used by mistune; the translator rejects an empty pattern *)
  | _ => replace_aux old new 0 s
  end.

(* s.replace(old, new, 1) *)
Fixpoint replace1 (old new s : str) : str :=
  match s with
  | [] => match old with [] => new | _ => [] end
  | c :: s' => if prefixb old s then new ++ skipn (length old) s else c :: replace1 old new s'
  end.

(* s.find(sub, start) >= 0, as an option of the index *)
Fixpoint find_from (sub : str) (s : str) (i : nat) : option nat :=
  match s with
  | [] => match sub with [] => Some i | _ => None end
  | _ :: s' => if prefixb sub s then Some i else find_from sub s' (S i)
  end.
Definition find (s sub : str) (start : nat) : option nat :=
  find_from sub (skipn start s) start.

(* strip family with an explicit character predicate *)
Fixpoint lstrip_p (p : Z -> bool) (s : str) : str :=
  match s with
  | [] => []
  | c :: s' => if p c then lstrip_p p s' else s
  end.
Definition rstrip_p (p : Z -> bool) (s : str) : str := rev (lstrip_p p (rev s)).
Definition strip_p (p : Z -> bool) (s : str) : str := rstrip_p p (lstrip_p p s).
Definition strip_chars (chars s : str) : str := strip_p (fun c => memc c chars) s.
Definition rstrip_chars (chars s : str) : str := rstrip_p (fun c => memc c chars) s.

(* s.split() with a white-space predicate: maximal runs of non-space.
   [cur] is the word being collected (in order). *)
Fixpoint split_ws_aux (ws : Z -> bool) (cur : str) (s : str) : list str :=
  match s with
  | [] => match cur with [] => [] | _ => [cur] end
  | c :: s' =>
    if ws c then
      match cur with
      | [] => split_ws_aux ws [] s'
      | _ => cur :: split_ws_aux ws [] s'
      end
    else split_ws_aux ws (cur ++ [c]) s'
  end.
Definition split_ws (ws : Z -> bool) (s : str) : list str := split_ws_aux ws [] s.

(* sep.join(l) *)
Fixpoint join (sep : str) (l : list str) : str :=
  match l with
  | [] => []
  | [x] => x
  | x :: l' => x ++ sep ++ join sep l'
  end.

(* s.split(sep) for single-character sep *)
Fixpoint split_char_aux (sep : Z) (cur : str) (s : str) : list str :=
  match s with
  | [] => [rev cur]
  | c :: s' => if c =? sep then rev cur :: split_char_aux sep [] s'
               else split_char_aux sep (c :: cur) s'
  end.
Definition split_char (sep : Z) (s : str) : list str := split_char_aux sep [] s.

(* Python slicing s[a:b] with non-negative indices *)
Definition slice (s : str) (a b : nat) : str := firstn (b - a) (skipn a s).

Fixpoint repeat_str (s : str) (n : nat) : str :=
  match n with O => [] | S k => s ++ repeat_str s k end.

(* decimal rendering of a non-negative integer (Python str(int)), by fuel *)
Fixpoint digits_aux (fuel : nat) (n : Z) (acc : str) : str :=
  match fuel with
  | O => acc
  | S k => let acc' := (48 + n mod 10) :: acc in
           if n / 10 =? 0 then acc' else digits_aux k (n / 10) acc'
  end.
(* decimal digits of z <= binary digits of z = log2 z + 1 *)
Definition digit_fuel (z : Z) : nat := S (Z.to_nat (Z.log2 z)).
Definition str_of_Z (z : Z) : str :=
  if z <? 0 then 45 :: digits_aux (digit_fuel (- z)) (- z) []
  else digits_aux (digit_fuel z) z [].
Definition str_of_nat (n : nat) : str := str_of_Z (Z.of_nat n).

Definition is_ascii_digit (c : Z) : bool := (48 <=? c) && (c <=? 57).

(* common code points *)
Definition cLF : Z := 10.
Definition cCR : Z := 13.
Definition cSP : Z := 32.
Definition cTAB : Z := 9.
Definition cAMP : Z := 38.
Definition cLT : Z := 60.
Definition cGT : Z := 62.
Definition cQUOT : Z := 34.
Global Arguments cLF : simpl never.
Global Arguments cCR : simpl never.
Global Arguments cSP : simpl never.
Global Arguments cTAB : simpl never.
Global Arguments cAMP : simpl never.
Global Arguments cLT : simpl never.
Global Arguments cGT : simpl never.
Global Arguments cQUOT : simpl never.

(* str.splitlines(): the line boundaries of CPython (LF, CR, CRLF, VT, FF, FS, GS, RS, NEL, LS, PS); no empty
   piece after a final boundary *)
Definition is_linesep (c : Z) : bool :=
  ((c =? 10) || (c =? 13) || (c =? 11) || (c =? 12) || (c =? 28) || (c =? 29) || (c =? 30) || (c =? 133) || (c =? 8232) || (c =? 8233))%Z.
Fixpoint splitlines_aux (s : str) (cur : str) : list str :=
  match s with
  | [] => match cur with [] => [] | _ => [rev cur] end
  | c :: r =>
    if (c =? 13)%Z then
      match r with
      | c2 :: r' => if (c2 =? 10)%Z then rev cur :: splitlines_aux r' [] else rev cur :: splitlines_aux r []
      | [] => [rev cur]
      end
    else if is_linesep c then rev cur :: splitlines_aux r [] else splitlines_aux r (c :: cur)
  end.
Definition splitlines (s : str) : list str := splitlines_aux s [].
