(* RxSub.v — Pattern.sub as CPython's pattern_subx runs it: leftmost matches from left to right; after an empty
   match the next search must advance (state.must_advance: at the same position only a non-empty match counts,
   the engine backtracks into the alternatives to find one; later positions accept empty matches again).
   The replacement is a function of the matched text, the captures and the subject. Definitions only. *)
From Coq Require Import ZArith List Bool Lia.
From Verif Require Import PyStr Rx.
Import ListNotations.

(* one match attempt at z returning the end zipper; [must]: an empty match does not count *)
Definition match_zip (U : uni) (r : rx) (must : bool) (z : zip) : option (zip * caps) :=
  m U r z [] (fun z' c' => if must && Nat.eqb (z_idx z') (z_idx z) then None else Some (z', c')).

Definition matched (z z' : zip) : list Z := firstn (z_idx z' - z_idx z) (z_rest z).

Fixpoint sub_loop (U : uni) (r : rx) (rep : list Z -> caps -> zip -> list Z) (fuel : nat) (must : bool) (z : zip) : list Z :=
  match fuel with
  | O => z_rest z
  | S f =>
    match match_zip U r must z with
    | Some (z', c') => rep (matched z z') c' z ++ sub_loop U r rep f (Nat.eqb (z_idx z') (z_idx z)) z'
    | None =>
      match zstep z with
      | None => []
      | Some (ch, z1) => ch :: sub_loop U r rep f false z1
      end
    end
  end.

Definition re_sub (U : uni) (r : rx) (rep : list Z -> caps -> zip -> list Z) (s : list Z) : list Z :=
  sub_loop U r rep (2 * length s + 2) false (zip_at s 0 (length s)).

(* pattern.sub('', s) *)
Definition re_sub_del (U : uni) (r : rx) (s : list Z) : list Z := re_sub U r (fun _ _ _ => []) s.

(* replacements *)
Definition group_text (g : nat) (c : caps) (z : zip) : list Z :=
  match cap_get c g with Some (a, b) => zslice z a b | None => [] end.

Inductive repl :=
| RConst (s : list Z)                  (* a literal without escapes or group references *)
| RGroupThen (g : nat) (s : list Z)    (* the template \g followed by a literal *)
| RGroupPad (g : nat) (width : nat).   (* lambda m: m.group(g) + ' ' * (width - len(m.group(g))) *)

Definition rep_of (k : repl) (w : list Z) (c : caps) (z : zip) : list Z :=
  match k with
  | RConst s => s
  | RGroupThen g s => group_text g c z ++ s
  | RGroupPad g width => let t := group_text g c z in t ++ repeat 32%Z (width - length t)
  end.

(* re.compile("^ {0," + str(n) + "}", re.M): the dynamic indentation trim of fenced code *)
Definition indent_trim (n : nat) : rx := RSeq (RAt AtBeginningLine) (RRep true 0 (Some n) (RLit 32%Z)).

(* Pattern.split(s) for a pattern without capture groups, as CPython's pattern_split runs it: leftmost matches from
   left to right (after an empty match the next one must advance); the pieces are the texts between the matches,
   the one after the last match included even when empty *)
Fixpoint split_loop (U : uni) (r : rx) (fuel : nat) (must : bool) (z : zip) (cur : list Z) : list (list Z) :=
  match fuel with
  | O => [rev cur ++ z_rest z]
  | S f =>
    match match_zip U r must z with
    | Some (z', _) => rev cur :: split_loop U r f (Nat.eqb (z_idx z') (z_idx z)) z' []
    | None =>
      match zstep z with
      | None => [rev cur]
      | Some (ch, z1) => split_loop U r f false z1 (ch :: cur)
      end
    end
  end.

Definition re_split (U : uni) (r : rx) (s : list Z) : list (list Z) :=
  split_loop U r (2 * length s + 2) false (zip_at s 0 (length s)) [].
