(* RxNest.v — repeats that end where they begin.  A repeat whose body can END in an unbounded repeat of a class and BEGIN with a
   character of the same class, `(x+)+` and `(?:[^\s()]+|\(...\))+`, lets the matcher cut one run of such characters into
   iterations in exponentially many ways; it does so as soon as what follows the repeat fails.  [nest] is a decidable
   syntactic condition that excludes the shape: under every repeat that can iterate more than once, every unbounded repeat
   that can end an iteration has a first set disjoint from the first set of the body.  Disjointness of two character classes
   is decided soundly ([disjoint2_sound]) against the class semantics of the engine; the sweep in Props/C07.v applies
   [nest] to every regenerated pattern. *)
From Coq Require Import ZArith List Bool Lia.
From Verif Require Import PyStr Rx RxSpec RxAnalysis RxExcl.
Import ListNotations.
Local Open Scope nat_scope.

Section Nest.
Variable U : uni.

Definition cat_eqb (a b : category) : bool :=
  match a, b with
  | CatSpace, CatSpace | CatNotSpace, CatNotSpace | CatDigit, CatDigit | CatNotDigit, CatNotDigit | CatWord, CatWord | CatNotWord, CatNotWord => true
  | _, _ => false
  end.
Definition citem_eqb (a b : citem) : bool :=
  match a, b with
  | CLit x, CLit y => (x =? y)%Z
  | CRange a1 a2, CRange b1 b2 => (a1 =? b1)%Z && (a2 =? b2)%Z
  | CCat x, CCat y => cat_eqb x y
  | _, _ => false
  end.
Lemma cat_eqb_eq a b : cat_eqb a b = true -> a = b.
Proof. destruct a, b; cbn; intros H; try discriminate; reflexivity. Qed.
Lemma citem_eqb_eq a b : citem_eqb a b = true -> a = b.
Proof.
  destruct a, b; cbn; intros H; try discriminate.
  - apply Z.eqb_eq in H. subst. reflexivity.
  - apply andb_true_iff in H. destruct H as [H1 H2]. apply Z.eqb_eq in H1. apply Z.eqb_eq in H2. subst. reflexivity.
  - apply cat_eqb_eq in H. subst. reflexivity.
Qed.

(* a positive class all of whose items are written in a negated class lies outside it *)
Definition inside_negation (pos neg : cset) : bool :=
  negb (cs_neg pos) && cs_neg neg && forallb (fun it => existsb (citem_eqb it) (cs_items neg)) (cs_items pos).

Definition disjoint2 (a b : cset) : bool := disjoint_cs U a b || inside_negation a b || inside_negation b a.

Lemma inside_negation_sound p n ch : inside_negation p n = true -> cs_mem U p ch = true -> cs_mem U n ch = true -> False.
Proof.
  unfold inside_negation, cs_mem, in_class. intros H Hp Hn. apply andb_true_iff in H. destruct H as [H Hall].
  apply andb_true_iff in H. destruct H as [Hpn Hnn]. apply negb_true_iff in Hpn. rewrite Hpn in Hp. rewrite Hnn in Hn.
  rewrite xorb_false_l in Hp. rewrite xorb_true_l in Hn. apply negb_true_iff in Hn.
  apply existsb_exists in Hp. destruct Hp as (it & Iit & Hit). rewrite forallb_forall in Hall. specialize (Hall it Iit).
  apply existsb_exists in Hall. destruct Hall as (it' & Iit' & He). apply citem_eqb_eq in He. subst it'.
  assert (existsb (fun i => in_item U i ch) (cs_items n) = true) by (apply existsb_exists; exists it; split; assumption).
  congruence.
Qed.

Theorem disjoint2_sound a b ch : disjoint2 a b = true -> cs_mem U a ch = true -> cs_mem U b ch = true -> False.
Proof.
  unfold disjoint2. intros H Ha Hb. apply orb_true_iff in H. destruct H as [H|H]; [apply orb_true_iff in H; destruct H as [H|H]|].
  - exact (disjoint_cs_sound U a b ch H Ha Hb).
  - exact (inside_negation_sound a b ch H Ha Hb).
  - exact (inside_negation_sound b a ch H Hb Ha).
Qed.

(* the first sets of the unbounded repeats in which a match of r can end *)
Fixpoint ends_open (r : rx) : list (list cset) :=
  match r with
  | RSeq a b => ends_open b ++ (if nullable b then ends_open a else [])
  | RAlt a b => ends_open a ++ ends_open b
  | RRep _ _ hi r1 => (match hi with None => [first r1] | Some _ => [] end) ++ ends_open r1
  | RGroup _ r1 => ends_open r1
  | _ => []
  end.

Definition sets_disjoint (fa fb : list cset) : bool := forallb (fun sa => forallb (fun sb => disjoint2 sa sb) fb) fa.

Lemma sets_disjoint_sound fa fb ch : sets_disjoint fa fb = true ->
  existsb (fun s => cs_mem U s ch) fa = true -> existsb (fun s => cs_mem U s ch) fb = true -> False.
Proof.
  unfold sets_disjoint. intros H Ha Hb. apply existsb_exists in Ha. destruct Ha as (sa & Ia & Ma). apply existsb_exists in Hb. destruct Hb as (sb & Ib & Mb).
  rewrite forallb_forall in H. specialize (H sa Ia). rewrite forallb_forall in H. exact (disjoint2_sound sa sb ch (H sb Ib) Ma Mb).
Qed.

Fixpoint nest (r : rx) : bool :=
  match r with
  | RSeq a b | RAlt a b => nest a && nest b
  | RRep _ _ hi r1 => (negb (multi hi) || forallb (fun fs => sets_disjoint fs (first r1)) (ends_open r1)) && nest r1
  | RGroup _ r1 | RLook _ _ r1 => nest r1
  | _ => true
  end.

(* what [nest] gives for a repeat that can iterate more than once: no character can both continue an unbounded repeat that
   ends an iteration and begin the next iteration *)
Theorem nest_rep_sound g lo hi r1 : nest (RRep g lo hi r1) = true -> multi hi = true ->
  forall fs ch, In fs (ends_open r1) -> existsb (fun s => cs_mem U s ch) fs = true -> in_first U r1 ch = true -> False.
Proof.
  intros H Hm fs ch Ifs Hfs Hfirst. cbn [nest] in H. apply andb_true_iff in H. destruct H as [H _]. rewrite Hm in H. cbn [negb orb] in H.
  rewrite forallb_forall in H. exact (sets_disjoint_sound fs (first r1) ch (H fs Ifs) Hfs Hfirst).
Qed.
End Nest.
