(* ReplaceProofs.v — str.replace(old, new[, 1]) keeps every character of [keep] when neither old nor new contains one *)
From Coq Require Import ZArith List Bool Lia.
From Verif Require Import PyStr.
Import ListNotations.
Local Open Scope nat_scope.

Section Replace.
Variable keep : list Z.
Definition kproj (s : list Z) : list Z := List.filter (fun ch => memc ch keep) s.
Definition nokeep (s : list Z) : Prop := Forall (fun ch => memc ch keep = false) s.

Lemma kproj_app a b : kproj (a ++ b) = kproj a ++ kproj b.
Proof. apply filter_app. Qed.

Lemma kproj_cons ch l : kproj (ch :: l) = (if memc ch keep then [ch] else []) ++ kproj l.
Proof. unfold kproj. cbn. destruct (memc ch keep); reflexivity. Qed.

Lemma kproj_none w : nokeep w -> kproj w = [].
Proof. induction 1 as [|x l Hx _ IH]; cbn; [reflexivity|]. rewrite Hx. exact IH. Qed.

Lemma prefixb_split p : forall s, prefixb p s = true -> s = p ++ skipn (length p) s.
Proof.
  induction p as [|x p IH]; intros s H; [reflexivity|]. destruct s as [|y s]; cbn in H; [discriminate|].
  apply andb_true_iff in H. destruct H as [E H]. apply Z.eqb_eq in E. subst. cbn. f_equal. apply IH. exact H.
Qed.

Lemma replace_aux_keeps o old' new : nokeep (o :: old') -> nokeep new ->
  forall s skip, nokeep (firstn skip s) -> kproj (replace_aux (o :: old') new skip s) = kproj s.
Proof.
  intros Ho Hn. induction s as [|c s IH]; intros skip Hs; [reflexivity|]. cbn [replace_aux]. destruct skip as [|k].
  - destruct (prefixb (o :: old') (c :: s)) eqn:E.
    + pose proof (prefixb_split _ _ E) as Sp. cbn in Sp.
      injection Sp as Hc Hs'. inversion Ho as [|o1 l1 Hoc Ho' [E1 E2]].
      rewrite kproj_app, (kproj_none _ Hn). cbn [app]. change (length (o :: old') - 1) with (length old' - 0). rewrite Nat.sub_0_r.
      rewrite (IH (length old')).
      * rewrite kproj_cons, Hc, Hoc. reflexivity.
      * rewrite Hs'. rewrite firstn_app, Nat.sub_diag, firstn_all. cbn. rewrite app_nil_r. exact Ho'.
    + rewrite !kproj_cons, (IH 0); [reflexivity|constructor].
  - cbn in Hs. inversion Hs as [|? ? Hc Hk]; subst. rewrite (IH k Hk), kproj_cons, Hc. reflexivity.
Qed.

(* s.replace(old, new) *)
Theorem replace_keeps old new s : old <> [] -> nokeep old -> nokeep new -> kproj (replace old new s) = kproj s.
Proof.
  intros Hne Ho Hn. unfold replace. destruct old as [|o old']; [contradiction|].
  apply replace_aux_keeps; auto. constructor.
Qed.

(* s.replace(old, new, 1) *)
Theorem replace1_keeps old new s : old <> [] -> nokeep old -> nokeep new -> kproj (replace1 old new s) = kproj s.
Proof.
  intros Hne Ho Hn. induction s as [|c s IH]; cbn [replace1].
  - destruct old; [contradiction|reflexivity].
  - destruct (prefixb old (c :: s)) eqn:E.
    + rewrite (prefixb_split _ _ E) at 2. rewrite !kproj_app, (kproj_none _ Hn), (kproj_none _ Ho). reflexivity.
    + rewrite !kproj_cons, IH. reflexivity.
Qed.

Lemma nokeep_forallb s : forallb (fun ch => negb (memc ch keep)) s = true -> nokeep s.
Proof. intros H. apply Forall_forall. intros x Hx. rewrite forallb_forall in H. apply negb_true_iff. apply H. exact Hx. Qed.
End Replace.
