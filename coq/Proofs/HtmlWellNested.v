(* HtmlWellNested.v — the HTML produced from every AST of the core model belongs to a balanced-tag grammar:
   text without < > double-quote, elements  <name attrs> body </name>  whose body is again in the grammar, void elements
   <name attrs />, attributes  name="value"  with a value free of the three characters; elements whose content model is
   phrasing (p, h1..h6, a, em, strong, code, pre) contain phrasing elements only - no block element is ever emitted
   inside a paragraph, a heading or a link.  Proved by induction over the token tree from the regenerated templates. *)
From Coq Require Import ZArith List Bool Lia.
From Verif Require Import PyStr Util UtilGen UtilProofs Tmpl HtmlRender TmplCheck TmplGen Inline Block Doc HtmlDoc HtmlDocProofs.
Import ListNotations.
Open Scope Z_scope.

Definition s_a : str := [97].
Definition s_em : str := [101; 109].
Definition s_strong : str := [115; 116; 114; 111; 110; 103].
Definition s_code : str := [99; 111; 100; 101].
Definition s_p : str := [112].
Definition s_pre : str := [112; 114; 101].
Definition s_blockquote : str := [98; 108; 111; 99; 107; 113; 117; 111; 116; 101].
Definition s_ul : str := [117; 108].
Definition s_ol : str := [111; 108].
Definition s_li : str := [108; 105].
Definition s_img : str := [105; 109; 103].
Definition s_br : str := [98; 114].
Definition s_hr : str := [104; 114].

Definition s_del : str := [100; 101; 108].
Definition s_mark : str := [109; 97; 114; 107].
Definition s_ins : str := [105; 110; 115].
Definition s_sup : str := [115; 117; 112].
Definition s_sub : str := [115; 117; 98].
Definition ext_tags : list str := [s_del; s_mark; s_ins; s_sup; s_sub; s_em].
Definition phrasing_names : list str := [s_a; s_em; s_strong; s_code; s_del; s_mark; s_ins; s_sup; s_sub].
Definition is_heading (n : str) : Prop := exists z : Z, n = 104 :: str_of_Z z.
(* elements allowed where only phrasing content may occur / anywhere *)
Definition elem_ok (ph : bool) (n : str) : Prop :=
  In n phrasing_names \/ (ph = false /\ (In n [s_p; s_pre; s_blockquote; s_ul; s_ol; s_li] \/ is_heading n)).
Definition void_ok (ph : bool) (n : str) : Prop := In n [s_img; s_br] \/ (ph = false /\ n = s_hr).
(* content model: does the element take phrasing content only? *)
Definition inner_ph (n : str) : bool := negb (existsb (str_eqb n) [s_blockquote; s_ul; s_ol; s_li]).

Inductive attrs : str -> Prop :=
| A_nil : attrs []
| A_cons name v rest : special_free name -> special_free v -> attrs rest -> attrs ([32] ++ name ++ [61; 34] ++ v ++ [34] ++ rest).

Inductive html : bool -> str -> Prop :=
| H_text ph s : special_free s -> html ph s
| H_app ph a b : html ph a -> html ph b -> html ph (a ++ b)
| H_elem ph name at_ body : elem_ok ph name -> attrs at_ -> html (inner_ph name) body ->
                           html ph ([60] ++ name ++ at_ ++ [62] ++ body ++ [60; 47] ++ name ++ [62])
| H_void ph name at_ : void_ok ph name -> attrs at_ -> html ph ([60] ++ name ++ at_ ++ [32; 47; 62]).

Lemma html_weaken s : html true s -> html false s.
Proof.
  intros H. remember true as ph eqn:E. induction H as [ph s Hs|ph a b _ IHa _ IHb|ph name at_ body He Ha Hb _|ph name at_ Hv Ha]; subst.
  - apply H_text; exact Hs.
  - apply H_app; [apply IHa|apply IHb]; reflexivity.
  - apply H_elem; [|exact Ha|exact Hb]. destruct He as [He|[Hf _]]; [left; exact He|discriminate].
  - apply H_void; [|exact Ha]. destruct Hv as [Hv|[Hf _]]; [left; exact Hv|discriminate].
Qed.

Lemma html_any ph s : html true s -> html ph s.
Proof. destruct ph; [intros H; exact H|apply html_weaken]. Qed.

Lemma html_nil ph : html ph [].
Proof. apply H_text. constructor. Qed.

Lemma html_flat_map {A} ph (f : A -> str) l : (forall x, In x l -> html ph (f x)) -> html ph (flat_map f l).
Proof. induction l as [|x l IH]; intros H; [apply html_nil|]. cbn. apply H_app; [apply H; left; reflexivity|apply IH; intros y Hy; apply H; right; exact Hy]. Qed.

(* every string of the grammar brings the three-state reader back to character data: the grammar is not trivial *)
Lemma names_free ph n : elem_ok ph n \/ void_ok ph n -> special_free n.
Proof.
  assert (L : forall l : list str, forallb (fun x => forallb (fun c => negb ((c =? 60) || (c =? 62) || (c =? 34))) x) l = true -> forall x, In x l -> special_free x).
  { intros l Hl x Hx. rewrite forallb_forall in Hl. specialize (Hl x Hx). apply Forall_forall. intros c Hc. rewrite forallb_forall in Hl.
    specialize (Hl c Hc). apply negb_true_iff in Hl. apply orb_false_iff in Hl. destruct Hl as [Hl H3]. apply orb_false_iff in Hl. destruct Hl as [H1 H2].
    repeat split; intros ->; discriminate. }
  intros [[H|[_ [H|(z & ->)]]]|[H|[_ ->]]].
  - exact (L phrasing_names eq_refl n H).
  - exact (L [s_p; s_pre; s_blockquote; s_ul; s_ol; s_li] eq_refl n H).
  - constructor; [lia|]. apply str_of_Z_free.
  - exact (L [s_img; s_br] eq_refl n H).
  - exact (L [s_hr] eq_refl s_hr (or_introl eq_refl)).
Qed.

Lemma hrun_tag_free s : special_free s -> hrun Tag s = Tag.
Proof. apply hrun_special_free. Qed.

Lemma attrs_hrun a : attrs a -> hrun Tag a = Tag.
Proof.
  induction 1 as [|name v rest Hn Hv _ IH]; [reflexivity|].
  rewrite !hrun_app. replace (hrun Tag [32]) with Tag by reflexivity. rewrite (hrun_special_free Tag name Hn).
  replace (hrun Tag [61; 34]) with AttrDQ by reflexivity. rewrite (hrun_special_free AttrDQ v Hv).
  replace (hrun AttrDQ [34]) with Tag by reflexivity. exact IH.
Qed.

Theorem html_returns_to_data ph s : html ph s -> hrun Data s = Data.
Proof.
  induction 1 as [ph s Hs|ph a b _ IHa _ IHb|ph name at_ body He Ha _ IHb|ph name at_ Hv Ha].
  - apply hrun_special_free. exact Hs.
  - rewrite hrun_app, IHa. exact IHb.
  - pose proof (names_free ph name (or_introl He)) as Hn.
    rewrite !hrun_app. replace (hrun Data [60]) with Tag by reflexivity. rewrite (hrun_special_free Tag name Hn), (attrs_hrun at_ Ha).
    replace (hrun Tag [62]) with Data by reflexivity. rewrite IHb.
    replace (hrun Data [60; 47]) with Tag by reflexivity. rewrite (hrun_special_free Tag name Hn). reflexivity.
  - pose proof (names_free ph name (or_intror Hv)) as Hn.
    rewrite !hrun_app. replace (hrun Data [60]) with Tag by reflexivity. rewrite (hrun_special_free Tag name Hn), (attrs_hrun at_ Ha). reflexivity.
Qed.

Corollary grammar_rejects_lt ph : ~ html ph [60].
Proof. intros H. apply html_returns_to_data in H. discriminate. Qed.
Corollary grammar_rejects_open_attr ph : ~ html ph [60; 97; 32; 98; 61; 34; 62].
Proof. intros H. apply html_returns_to_data in H. discriminate. Qed.

Lemma free_nl : special_free [10].
Proof. repeat constructor; lia. Qed.

Local Arguments striptags_model : simpl never.
Local Arguments run_escape : simpl never.
Local Arguments safe_entity : simpl never.
Local Arguments str_of_Z : simpl never.
Local Arguments first_word : simpl never.
Local Arguments strip_p : simpl never.

Section WN.
Variable E : renv.
Variable ops : list esc_op.
Variable xt : str -> template.
Hypothesis Hesc : r_escape E = true.
(* a plugin render function wraps its children in one phrasing element *)
Hypothesis xt_render : forall name ch, exists tag, In tag ext_tags /\ render E ops (xt name) [PStr ch] = [60] ++ tag ++ [62] ++ ch ++ [60; 47] ++ tag ++ [62].
Hypothesis esc_free : forall s, special_free (run_escape ops true s).
Hypothesis url_free : forall u, special_free (r_safe_url E u).
Hypothesis ent_free : forall s, special_free (safe_entity (r_tables E) ops s).

(* smart constructors: the output of a template, as cbn prints it, against the grammar *)
Lemma mk_elem ph name at_ body tail s : s = [60] ++ name ++ at_ ++ [62] ++ body ++ [60; 47] ++ name ++ [62] ++ tail ->
  elem_ok ph name -> attrs at_ -> html (inner_ph name) body -> special_free tail -> html ph s.
Proof.
  intros -> He Ha Hb Ht.
  replace ([60] ++ name ++ at_ ++ [62] ++ body ++ [60; 47] ++ name ++ [62] ++ tail)
    with (([60] ++ name ++ at_ ++ [62] ++ body ++ [60; 47] ++ name ++ [62]) ++ tail) by (repeat rewrite <- app_assoc; reflexivity).
  apply H_app; [apply H_elem; assumption|apply H_text; exact Ht].
Qed.

Lemma mk_void ph name at_ tail s : s = [60] ++ name ++ at_ ++ [32; 47; 62] ++ tail -> void_ok ph name -> attrs at_ -> special_free tail -> html ph s.
Proof.
  intros -> Hv Ha Ht.
  replace ([60] ++ name ++ at_ ++ [32; 47; 62] ++ tail) with (([60] ++ name ++ at_ ++ [32; 47; 62]) ++ tail) by (repeat rewrite <- app_assoc; reflexivity).
  apply H_app; [apply H_void; assumption|apply H_text; exact Ht].
Qed.

Lemma free_lit (s : str) : forallb (fun c => negb ((c =? 60) || (c =? 62) || (c =? 34))) s = true -> special_free s.
Proof.
  intros H. apply Forall_forall. intros c Hc. rewrite forallb_forall in H. specialize (H c Hc). apply negb_true_iff in H.
  apply orb_false_iff in H. destruct H as [H H3]. apply orb_false_iff in H. destruct H as [H1 H2]. repeat split; intros ->; discriminate.
Qed.

Ltac lit_free := apply free_lit; reflexivity.
Ltac norm_eq := cbn; repeat (first [rewrite <- app_assoc | progress cbn]); rewrite ?app_nil_r; reflexivity.

Lemma render_text raw : render E ops tmpl_html_text [PStr raw] = run_escape ops true raw.
Proof. unfold render. cbn. rewrite Hesc. cbn. apply app_nil_r. Qed.
Lemma render_inline_html raw : render E ops tmpl_html_inline_html [PStr raw] = run_escape ops true raw.
Proof. unfold render. cbn. rewrite Hesc. cbn. apply app_nil_r. Qed.

(* ---- inline tokens: phrasing content ---- *)
Lemma tok_html_n : forall n t, (tsize t <= n)%nat -> html true (html_tok E ops xt t).
Proof.
  induction n as [|n IH]; intros t Hn; [destruct t; cbn in Hn; lia|].
  assert (Hch : forall c, In c (tok_children t) -> html true (html_tok E ops xt c)).
  { intros c Hin. apply IH. pose proof (in_tsize _ _ Hin) as Hs. destruct t; cbn [tok_children] in *; try contradiction; cbn [tsize] in Hn; lia. }
  assert (Hinner : html true (flat_map (html_tok E ops xt) (tok_children t))) by (apply html_flat_map; exact Hch).
  rewrite html_tok_unfold. destruct t as [raw|raw|raw| | |ch|ch|img ch url title tk ref|name ch]; cbn [tok_args tok_children fst snd] in *.
  - (* text *) rewrite render_text. apply H_text. apply esc_free.
  - (* codespan *) apply (mk_elem true s_code [] (run_escape ops true raw) []); [norm_eq|left; cbn; tauto|constructor|apply H_text; apply esc_free|constructor].
  - (* inline_html *) rewrite render_inline_html. apply H_text. apply esc_free.
  - (* linebreak *) apply (mk_void true s_br [] [10]); [reflexivity|left; cbn; tauto|constructor|apply free_nl].
  - (* softbreak *) apply H_text. apply free_nl.
  - (* emphasis *) apply (mk_elem true s_em [] (flat_map (html_tok E ops xt) ch) []); [norm_eq|left; cbn; tauto|constructor|exact Hinner|constructor].
  - (* strong *) apply (mk_elem true s_strong [] (flat_map (html_tok E ops xt) ch) []); [norm_eq|left; cbn; tauto|constructor|exact Hinner|constructor].
  - (* link / image *)
    destruct img.
    + destruct title as [[|c0 tl]|].
      * apply (mk_void true s_img ([32] ++ [115; 114; 99] ++ [61; 34] ++ r_safe_url E url ++ [34] ++ ([32] ++ [97; 108; 116] ++ [61; 34] ++ run_escape ops true (striptags_model (flat_map (html_tok E ops xt) ch)) ++ [34] ++ [])) []);
          [norm_eq|left; cbn; tauto| |constructor].
        apply A_cons; [lit_free|apply url_free|]. apply A_cons; [lit_free|apply esc_free|constructor].
      * apply (mk_void true s_img ([32] ++ [115; 114; 99] ++ [61; 34] ++ r_safe_url E url ++ [34] ++ ([32] ++ [97; 108; 116] ++ [61; 34] ++ run_escape ops true (striptags_model (flat_map (html_tok E ops xt) ch)) ++ [34] ++ ([32] ++ [116; 105; 116; 108; 101] ++ [61; 34] ++ safe_entity (r_tables E) ops (c0 :: tl) ++ [34] ++ []))) []);
          [norm_eq|left; cbn; tauto| |constructor].
        apply A_cons; [lit_free|apply url_free|]. apply A_cons; [lit_free|apply esc_free|]. apply A_cons; [lit_free|apply ent_free|constructor].
      * apply (mk_void true s_img ([32] ++ [115; 114; 99] ++ [61; 34] ++ r_safe_url E url ++ [34] ++ ([32] ++ [97; 108; 116] ++ [61; 34] ++ run_escape ops true (striptags_model (flat_map (html_tok E ops xt) ch)) ++ [34] ++ [])) []);
          [norm_eq|left; cbn; tauto| |constructor].
        apply A_cons; [lit_free|apply url_free|]. apply A_cons; [lit_free|apply esc_free|constructor].
    + destruct title as [[|c0 tl]|].
      * apply (mk_elem true s_a ([32] ++ [104; 114; 101; 102] ++ [61; 34] ++ r_safe_url E url ++ [34] ++ []) (flat_map (html_tok E ops xt) ch) []);
          [norm_eq|left; cbn; tauto| |exact Hinner|constructor].
        apply A_cons; [lit_free|apply url_free|constructor].
      * apply (mk_elem true s_a ([32] ++ [104; 114; 101; 102] ++ [61; 34] ++ r_safe_url E url ++ [34] ++ ([32] ++ [116; 105; 116; 108; 101] ++ [61; 34] ++ safe_entity (r_tables E) ops (c0 :: tl) ++ [34] ++ [])) (flat_map (html_tok E ops xt) ch) []);
          [norm_eq|left; cbn; tauto| |exact Hinner|constructor].
        apply A_cons; [lit_free|apply url_free|]. apply A_cons; [lit_free|apply ent_free|constructor].
      * apply (mk_elem true s_a ([32] ++ [104; 114; 101; 102] ++ [61; 34] ++ r_safe_url E url ++ [34] ++ []) (flat_map (html_tok E ops xt) ch) []);
          [norm_eq|left; cbn; tauto| |exact Hinner|constructor].
        apply A_cons; [lit_free|apply url_free|constructor].
  - (* plugin token *)
    destruct (xt_render name (flat_map (html_tok E ops xt) ch)) as (tag & Hin & ->).
    apply (H_elem true tag [] (flat_map (html_tok E ops xt) ch)); [|constructor|].
    + left. unfold ext_tags in Hin. unfold phrasing_names. cbn in Hin |- *. intuition.
    + assert (Hi : inner_ph tag = true) by (cbn in Hin; destruct Hin as [<-|[<-|[<-|[<-|[<-|[<-|[]]]]]]]; reflexivity).
      rewrite Hi. exact Hinner.
Qed.

Theorem tok_html t : html true (html_tok E ops xt t).
Proof. apply (tok_html_n (tsize t)). lia. Qed.

Lemma toks_html l : html true (html_toks E ops xt l).
Proof. apply html_flat_map. intros t _. apply tok_html. Qed.

(* ---- block nodes: flow content ---- *)
Lemma first_word_free s : special_free s -> special_free (first_word (r_tables E) s).
Proof. intros H. exact (free_incl _ _ (first_word_incl (r_tables E) s) H). Qed.

Lemma node_html_n : forall k n, (nsize n <= k)%nat -> html false (html_node E ops xt n).
Proof.
  induction k as [|k IH]; intros n Hk; [destruct n; cbn in Hk; lia|].
  assert (Hch : forall c, In c (node_children n) -> html false (html_node E ops xt c)).
  { intros c Hin. apply IH. pose proof (in_nsize _ _ Hin) as Hs. destruct n; cbn [node_children] in *; try contradiction; cbn [nsize] in Hk; lia. }
  rewrite (html_node_unfold E ops xt).
  destruct n as [| |raw fenced marker info|ch level setext|ch|ch|ch|items tight bullet depth ordered start|ch|raw]; cbn [node_args node_inner node_children fst snd] in *.
  - (* blank line *) apply H_text. constructor.
  - (* thematic break *) apply (mk_void false s_hr [] [10]); [reflexivity|right; split; reflexivity|constructor|apply free_nl].
  - (* code block *)
    destruct info as [i|].
    + unfold render. cbn. destruct (strip_p (is_ws (r_tables E)) (safe_entity (r_tables E) ops (strip_p (is_ws (r_tables E)) i))) as [|c0 lang] eqn:Ei.
      * cbn. destruct i; cbn;
          (apply (mk_elem false s_pre [] ([60] ++ s_code ++ [] ++ [62] ++ run_escape ops true raw ++ [60; 47] ++ s_code ++ [62]) [10]);
           [norm_eq|right; split; [reflexivity|left; cbn; tauto]|constructor| |apply free_nl];
           apply (H_elem true s_code [] (run_escape ops true raw)); [left; cbn; tauto|constructor|apply H_text; apply esc_free]).
      * cbn. destruct i; cbn;
          (apply (mk_elem false s_pre [] ([60] ++ s_code ++ ([32] ++ [99; 108; 97; 115; 115] ++ [61; 34] ++ ([108; 97; 110; 103; 117; 97; 103; 101; 45] ++ first_word (r_tables E) (c0 :: lang)) ++ [34] ++ []) ++ [62] ++ run_escape ops true raw ++ [60; 47] ++ s_code ++ [62]) [10]);
           [rewrite ?Ei; norm_eq|right; split; [reflexivity|left; cbn; tauto]|constructor| |apply free_nl];
           apply (H_elem true s_code _ (run_escape ops true raw)); [left; cbn; tauto| |apply H_text; apply esc_free];
           apply A_cons; [lit_free| |constructor];
           apply Forall_app; split; [lit_free|apply first_word_free; rewrite <- Ei; apply (free_incl _ _ (strip_incl _ _)); apply ent_free]).
    + apply (mk_elem false s_pre [] ([60] ++ s_code ++ [] ++ [62] ++ run_escape ops true raw ++ [60; 47] ++ s_code ++ [62]) [10]);
        [norm_eq|right; split; [reflexivity|left; cbn; tauto]|constructor| |apply free_nl].
      apply (H_elem true s_code [] (run_escape ops true raw)); [left; cbn; tauto|constructor|apply H_text; apply esc_free].
  - (* heading *)
    apply (mk_elem false (104 :: str_of_Z (Z.of_nat level)) [] (html_toks E ops xt ch) [10]);
      [norm_eq|right; split; [reflexivity|right; eexists; reflexivity]|constructor|apply toks_html|apply free_nl].
  - (* paragraph *)
    apply (mk_elem false s_p [] (html_toks E ops xt ch) [10]); [norm_eq|right; split; [reflexivity|left; cbn; tauto]|constructor|apply toks_html|apply free_nl].
  - (* block text *)
    unfold render. cbn. rewrite app_nil_r. apply html_weaken. apply toks_html.
  - (* block quote *)
    apply (mk_elem false s_blockquote [] ([10] ++ flat_map (html_node E ops xt) ch) [10]);
      [norm_eq|right; split; [reflexivity|left; cbn; tauto]|constructor| |apply free_nl].
    apply H_app; [apply H_text; apply free_nl|apply html_flat_map; exact Hch].
  - (* list *)
    destruct ordered.
    + destruct start as [z|].
      * apply (mk_elem false s_ol ([32] ++ [115; 116; 97; 114; 116] ++ [61; 34] ++ str_of_Z z ++ [34] ++ []) ([10] ++ flat_map (html_node E ops xt) items) [10]);
          [norm_eq|right; split; [reflexivity|left; cbn; tauto]| | |apply free_nl].
        -- apply A_cons; [lit_free|apply str_of_Z_free|constructor].
        -- apply H_app; [apply H_text; apply free_nl|apply html_flat_map; exact Hch].
      * apply (mk_elem false s_ol [] ([10] ++ flat_map (html_node E ops xt) items) [10]);
          [norm_eq|right; split; [reflexivity|left; cbn; tauto]|constructor| |apply free_nl].
        apply H_app; [apply H_text; apply free_nl|apply html_flat_map; exact Hch].
    + destruct start as [z|];
        (apply (mk_elem false s_ul [] ([10] ++ flat_map (html_node E ops xt) items) [10]);
         [norm_eq|right; split; [reflexivity|left; cbn; tauto]|constructor| |apply free_nl];
         apply H_app; [apply H_text; apply free_nl|apply html_flat_map; exact Hch]).
  - (* list item *)
    apply (mk_elem false s_li [] (flat_map (html_node E ops xt) ch) [10]);
      [norm_eq|right; split; [reflexivity|left; cbn; tauto]|constructor|apply html_flat_map; exact Hch|apply free_nl].
  - (* html block, escaped *)
    unfold render. cbn. rewrite Hesc. cbn.
    apply (mk_elem false s_p [] (run_escape ops true (strip_p (is_ws (r_tables E)) raw)) [10]);
      [norm_eq|right; split; [reflexivity|left; cbn; tauto]|constructor|apply H_text; apply esc_free|apply free_nl].
Qed.

Theorem node_html n : html false (html_node E ops xt n).
Proof. apply (node_html_n (nsize n)). lia. Qed.

(* every document of the core model renders to a string of the balanced grammar *)
Theorem doc_html ns : html false (html_doc E ops xt ns).
Proof. apply html_flat_map. intros n _. apply node_html. Qed.
End WN.
