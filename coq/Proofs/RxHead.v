(* RxHead.v — "head form" analysis: every match of r consumes some characters of a set S, then the character c
   (then anything).  Two patterns with head forms (S1, c1) and (S2, c2) such that c1 is not in S2 or c2, and c2 is
   not in S1 or c1 ... can never both match from the same position (used: a line on which an HTML rule matched is
   not a blank line). *)
From Coq Require Import ZArith List Bool Lia.
From Verif Require Import PyStr Rx RxSpec RxAnalysis.
Import ListNotations.
Local Open Scope nat_scope.

Section Head.
Variable U : uni.
Variable S : list Z.

(* every consumed character is in S *)
Definition item_only (it : citem) : bool :=
  match it with CLit c => memc c S | _ => false end.

Fixpoint only (r : rx) : bool :=
  match r with
  | REps | RAt _ | RLook _ _ _ | RFail => true
  | RLit c => memc c S
  | RIn false items => forallb item_only items
  | RSeq a b | RAlt a b => only a && only b
  | RRep _ _ _ r1 | RGroup _ r1 => only r1
  | _ => false
  end.

Lemma only_sound r : only r = true -> forall z c z' c', M U r z c z' c' ->
  exists w, adv z z' w /\ Forall (fun ch => memc ch S = true) w.
Proof.
  induction r as [|ch|ch|ineg items|dotall|ra IHa rb IHb|ra IHa rb IHb| |greedy lo hi r1 IH1|g r1 IH1|g|ahead neg r1 IH1|a];
    cbn [only M]; intros Ho z c z' c' H; try discriminate.
  - destruct H as [-> _]. exists []. split; [apply adv_refl|constructor].
  - destruct H as (ch0 & Hs & Hp & _). apply Z.eqb_eq in Hp. subst ch0. exists [ch]. split; [apply zstep_adv; exact Hs|].
    constructor; [exact Ho|constructor].
  - destruct ineg; [discriminate|]. destruct H as (ch0 & Hs & Hp & _). unfold in_class in Hp. rewrite xorb_false_l in Hp.
    apply existsb_exists in Hp. destruct Hp as (it & Hin & Hi). rewrite forallb_forall in Ho. specialize (Ho it Hin).
    destruct it as [c0| |]; cbn in Ho; try discriminate. cbn in Hi. apply Z.eqb_eq in Hi. subst c0.
    exists [ch0]. split; [apply zstep_adv; exact Hs|]. constructor; [exact Ho|constructor].
  - apply andb_true_iff in Ho. destruct Ho as [H1 H2]. destruct H as (z1 & c1 & Hma & Hmb).
    destruct (IHa H1 _ _ _ _ Hma) as (w1 & A1 & F1). destruct (IHb H2 _ _ _ _ Hmb) as (w2 & A2 & F2).
    exists (w1 ++ w2). split; [eapply adv_trans; eassumption|apply Forall_app; split; assumption].
  - apply andb_true_iff in Ho. destruct Ho as [H1 H2]. destruct H as [H|H]; eauto.
  - contradiction.
  - destruct H as (n & _ & _ & Hi). induction Hi as [z c|n z c z1 c1 z2 c2 HR _ _ IH].
    + exists []. split; [apply adv_refl|constructor].
    + destruct (IH1 Ho _ _ _ _ HR) as (w1 & A1 & F1). destruct IH as (w2 & A2 & F2).
      exists (w1 ++ w2). split; [eapply adv_trans; eassumption|apply Forall_app; split; assumption].
  - destruct H as (c1 & H & _). eauto.
  - destruct neg; destruct H as [-> _]; exists []; (split; [apply adv_refl|constructor]).
  - destruct H as [-> _]. exists []. split; [apply adv_refl|constructor].
Qed.

Variable c : Z.

Fixpoint hf (r : rx) : bool :=
  match r with
  | RLit c' => (c' =? c)%Z
  | RIn false [CLit c'] => (c' =? c)%Z
  | RSeq a b => hf a || (only a && hf b)
  | RAlt a b => hf a && hf b
  | RGroup _ r1 => hf r1
  | RRep _ lo _ r1 => negb (Nat.eqb lo 0) && hf r1
  | _ => false
  end.

Definition headed (w : list Z) : Prop := exists u v, w = u ++ c :: v /\ Forall (fun ch => memc ch S = true) u.

Lemma headed_app_r w w2 : headed w -> headed (w ++ w2).
Proof. intros (u & v & -> & F). exists u, (v ++ w2). split; [rewrite <- app_assoc; reflexivity|exact F]. Qed.

Lemma headed_app_l w1 w : Forall (fun ch => memc ch S = true) w1 -> headed w -> headed (w1 ++ w).
Proof. intros F1 (u & v & -> & F). exists (w1 ++ u), v. split; [rewrite <- app_assoc; reflexivity|apply Forall_app; split; assumption]. Qed.

Lemma adv_unique z z' w1 w2 : adv z z' w1 -> adv z z' w2 -> w1 = w2.
Proof.
  intros (A1 & _ & C1) (A2 & _ & C2). rewrite A1 in A2. assert (L : length w1 = length w2) by lia.
  clear - A2 L. revert w2 A2 L. induction w1 as [|x w1 IH]; intros [|y w2] A L; cbn in *; try lia; [reflexivity|].
  inversion A. f_equal. apply IH; [assumption|lia].
Qed.

Lemma hf_sound r : hf r = true -> forall z c0 z' c', M U r z c0 z' c' -> exists w, adv z z' w /\ headed w.
Proof.
  induction r as [|ch|ch|ineg items|dotall|ra IHa rb IHb|ra IHa rb IHb| |greedy lo hi r1 IH1|g r1 IH1|g|ahead neg r1 IH1|a];
    cbn [hf M]; intros Hh z c0 z' c' H; try discriminate.
  - destruct H as (ch0 & Hs & Hp & _). apply Z.eqb_eq in Hp. subst ch0. apply Z.eqb_eq in Hh. subst ch.
    exists [c]. split; [apply zstep_adv; exact Hs|]. exists [], []. split; [reflexivity|constructor].
  - destruct ineg; [discriminate|]. destruct items as [|[c1| |] [|? ?]]; try discriminate. apply Z.eqb_eq in Hh. subst c1.
    destruct H as (ch0 & Hs & Hp & _). unfold in_class in Hp. cbn in Hp. destruct (Z.eqb_spec ch0 c) as [->|]; [|discriminate].
    exists [c]. split; [apply zstep_adv; exact Hs|]. exists [], []. split; [reflexivity|constructor].
  - destruct H as (z1 & c1 & Hma & Hmb). apply orb_true_iff in Hh. destruct Hh as [Hh|Hh].
    + destruct (IHa Hh _ _ _ _ Hma) as (w1 & A1 & H1). destruct (M_adv U rb _ _ _ _ Hmb) as [w2 A2].
      exists (w1 ++ w2). split; [eapply adv_trans; eassumption|apply headed_app_r; exact H1].
    + apply andb_true_iff in Hh. destruct Hh as [Ho Hb]. destruct (only_sound ra Ho _ _ _ _ Hma) as (w1 & A1 & F1).
      destruct (IHb Hb _ _ _ _ Hmb) as (w2 & A2 & H2).
      exists (w1 ++ w2). split; [eapply adv_trans; eassumption|apply headed_app_l; assumption].
  - apply andb_true_iff in Hh. destruct Hh as [H1 H2]. destruct H as [H|H]; eauto.
  - apply andb_true_iff in Hh. destruct Hh as [Hlo Hr]. destruct H as (n & Hn & _ & Hi).
    destruct n as [|n]; [destruct lo; [discriminate|lia]|].
    inversion Hi as [|n0 z0 c1 z1 c2 z2 c3 HR Hlt Hrest]; subst.
    destruct (IH1 Hr _ _ _ _ HR) as (w1 & A1 & H1).
    assert (Hadv : exists w2, adv z1 z' w2).
    { clear - Hrest. induction Hrest as [z c|n z c z1 c1 z2 c2 HR _ _ IH]; [exists []; apply adv_refl|].
      destruct (M_adv U r1 _ _ _ _ HR) as [wa Ha]. destruct IH as [wb Hb]. exists (wa ++ wb). eapply adv_trans; eassumption. }
    destruct Hadv as [w2 A2]. exists (w1 ++ w2). split; [eapply adv_trans; eassumption|apply headed_app_r; exact H1].
  - destruct H as (c1 & H & _). eauto.
Qed.
End Head.

(* two head forms that exclude each other *)
Lemma heads_exclusive (S1 S2 : list Z) (c1 c2 : Z) (w1 w2 rest1 rest2 : list Z) :
  headed S1 c1 w1 -> headed S2 c2 w2 -> w1 ++ rest1 = w2 ++ rest2 ->
  memc c1 S2 = false -> memc c2 S1 = false -> c1 <> c2 -> False.
Proof.
  intros (u1 & v1 & -> & F1) (u2 & v2 & -> & F2) E N1 N2 Nc. rewrite <- !app_assoc in E. cbn in E.
  revert u2 F2 E. induction u1 as [|x u1 IH]; intros u2 F2 E.
  - destruct u2 as [|y u2]; cbn in E; inversion E; subst.
    + contradiction.
    + inversion F2; subst. rewrite N1 in *. discriminate.
  - destruct u2 as [|y u2]; cbn in E; inversion E; subst.
    + inversion F1; subst. rewrite N2 in *. discriminate.
    + inversion F1; inversion F2; subst. eapply IH; eauto.
Qed.

Theorem never_both (U : uni) (S1 S2 : list Z) (c1 c2 : Z) (r1 r2 : rx) :
  hf S1 c1 r1 = true -> hf S2 c2 r2 = true -> memc c1 S2 = false -> memc c2 S1 = false -> c1 <> c2 ->
  forall z ca za ca' cb zb cb', M U r1 z ca za ca' -> M U r2 z cb zb cb' -> False.
Proof.
  intros H1 H2 N1 N2 Nc z ca za ca' cb zb cb' Ma Mb.
  destruct (hf_sound U S1 c1 r1 H1 _ _ _ _ Ma) as (w1 & (A1 & _ & _) & Hd1).
  destruct (hf_sound U S2 c2 r2 H2 _ _ _ _ Mb) as (w2 & (A2 & _ & _) & Hd2).
  rewrite A1 in A2. exact (heads_exclusive S1 S2 c1 c2 w1 w2 _ _ Hd1 Hd2 A2 N1 N2 Nc).
Qed.
