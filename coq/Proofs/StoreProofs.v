(* Proofs about the store model (C08). *)
From Coq Require Import List Bool Arith Lia.
From Verif Require Import Store.
Import ListNotations.

Section Proofs.
Variables key cfg doc out value : Type.
Variable keqb : key -> key -> bool.
Hypothesis keqb_spec : forall a b, keqb a b = true <-> a = b.
Variable compile : cfg -> key -> value.
Variable convert : cfg -> (key -> value) -> doc -> out.
Variable keys_used : cfg -> doc -> list key.

Notation cache := (cache key value).
Notation lookup := (lookup key value keqb).
Notation access := (access key cfg value keqb compile).
Notation view := (view key cfg value keqb compile).
Notation call := (call key cfg doc out value keqb compile convert keys_used).
Notation fresh := (fresh key cfg doc out value keqb compile convert keys_used).
Notation history := (history key cfg doc out value keqb compile convert keys_used).

(* every cache entry is what compiling its key under the current configuration gives *)
Definition Inv (g : cfg) (c : cache) : Prop := forall k v, lookup k c = Some v -> v = compile g k.

Lemma Inv_nil g : Inv g [].
Proof. intros k v H. discriminate. Qed.

Lemma Inv_access g c k : Inv g c -> Inv g (access g c k).
Proof.
  intros H. unfold Store.access. destruct (lookup k c) eqn:E; [exact H|].
  intros k' v'. cbn. destruct (keqb k' k) eqn:Ek.
  - apply keqb_spec in Ek. subst. intros [= <-]. reflexivity.
  - apply H.
Qed.

Lemma Inv_fold g ks : forall c, Inv g c -> Inv g (fold_left (access g) ks c).
Proof. induction ks as [|k ks IH]; intros c H; cbn; [exact H|]. apply IH, Inv_access, H. Qed.

Lemma view_pure g c : Inv g c -> forall k, view g c k = compile g k.
Proof. intros H k. unfold Store.view. destruct (lookup k c) eqn:E; [apply H; assumption|reflexivity]. Qed.

(* conversions that differ only in an extensionally equal cache view are equal: [convert] uses the
   view as a function *)
Hypothesis convert_ext : forall g f1 f2 d, (forall k, f1 k = f2 k) -> convert g f1 d = convert g f2 d.

Definition pure (g : cfg) (d : doc) : out := convert g (compile g) d.

Theorem call_pure g c d : Inv g c -> fst (call g c d) = pure g d /\ Inv g (snd (call g c d)).
Proof.
  intros H. unfold Store.call. cbn [fst snd]. split.
  - apply convert_ext. apply view_pure. apply Inv_fold. assumption.
  - apply Inv_fold. assumption.
Qed.

Theorem fresh_pure g d : fresh g d = pure g d.
Proof. unfold Store.fresh. apply call_pure. apply Inv_nil. Qed.

(* history independence: whatever was converted before, each result is the fresh result *)
Theorem history_independent g : forall ds c, Inv g c ->
  fst (history g c ds) = map (fresh g) ds /\ Inv g (snd (history g c ds)).
Proof.
  induction ds as [|d ds IH]; intros c H; cbn [Store.history map].
  - split; [reflexivity|exact H].
  - destruct (call_pure g c d H) as [Ho Hi].
    destruct (call g c d) as [o c1] eqn:Ec. cbn [fst snd] in *.
    destruct (IH c1 Hi) as [Hos Hi2].
    destruct (history g c1 ds) as [os c2]. cbn [fst snd] in *.
    split; [|exact Hi2]. rewrite Ho, Hos, fresh_pure. reflexivity.
Qed.

Corollary history_from_new_converter g ds : fst (history g [] ds) = map (fresh g) ds.
Proof. apply history_independent, Inv_nil. Qed.

(* configuration change: clearing the cache re-establishes the invariant for the new configuration *)
Theorem register_keeps_inv update g c : Inv (fst (register key cfg value update g c)) (snd (register key cfg value update g c)).
Proof. cbn. apply Inv_nil. Qed.

(* threads: any interleaving of the atomic cache accesses preserves the invariant, hence every
   thread's output is the fresh output of its document *)
Notation step := (step key cfg doc value keqb compile).
Notation run_schedule := (run_schedule key cfg doc value keqb compile).
Notation output := (output key cfg doc out value keqb compile convert).

Lemma step_inv g c ts i : Inv g c -> Inv g (fst (step g c ts i)).
Proof.
  intros H. unfold Store.step. destruct (nth_error ts i) as [t|]; [|exact H].
  destruct (t_todo _ _ t); [exact H|]. cbn. apply Inv_access. exact H.
Qed.

Lemma nth_update_docs {A} (f : A -> A) (g0 : A -> doc) (Hf : forall x, g0 (f x) = g0 x) :
  forall n l, map g0 (nth_update n f l) = map g0 l.
Proof.
  induction n as [|n IH]; intros [|x l]; cbn; try reflexivity.
  - rewrite Hf. reflexivity.
  - rewrite IH. reflexivity.
Qed.

Lemma step_docs g c ts i : map (t_doc key doc) (snd (step g c ts i)) = map (t_doc key doc) ts.
Proof.
  unfold Store.step. destruct (nth_error ts i) as [t|]; [|reflexivity].
  destruct (t_todo _ _ t); [reflexivity|]. cbn [snd]. apply nth_update_docs. reflexivity.
Qed.

Theorem schedule_independent g : forall sched c ts, Inv g c ->
  let (c', ts') := run_schedule g c ts sched in
  Inv g c' /\ map (output g c') ts' = map (fun t => fresh g (t_doc key doc t)) ts.
Proof.
  induction sched as [|i s IH]; intros c ts H; cbn [Store.run_schedule].
  - split; [exact H|]. apply map_ext. intros t. unfold Store.output. rewrite fresh_pure.
    apply convert_ext. apply view_pure. exact H.
  - pose proof (step_inv g c ts i H) as Hs. pose proof (step_docs g c ts i) as Hd.
    destruct (step g c ts i) as [c1 ts1]. cbn [fst snd] in *.
    specialize (IH c1 ts1 Hs). destruct (run_schedule g c1 ts1 s) as [c2 ts2].
    destruct IH as [Hi Ho]. split; [exact Hi|]. rewrite Ho.
    rewrite <- (map_map (t_doc key doc) (fresh g)), Hd, map_map. reflexivity.
Qed.
End Proofs.
