(* Proofs about line-ending normalisation (C16). *)
From Coq Require Import ZArith List Bool Lia.
From Verif Require Import PyStr Normalize.
Import ListNotations.
Open Scope Z_scope.

(* character-level specification of the two replaces *)
Fixpoint nspec (s : str) : str :=
  match s with
  | [] => []
  | c :: s' =>
    if c =? cCR then
      match s' with
      | d :: s'' => if d =? cLF then cLF :: nspec s'' else cLF :: nspec s'
      | [] => [cLF]
      end
    else c :: nspec s'
  end.

Lemma replace_single c n s :
  replace [c] [n] s = map (fun x => if x =? c then n else x) s.
Proof.
  unfold replace. induction s as [|x s IH]; cbn [replace_aux map]; [reflexivity|].
  cbn [prefixb length]. rewrite andb_true_r. simpl Nat.sub. rewrite (Z.eqb_sym c x).
  destruct (x =? c) eqn:E; cbn [app]; rewrite IH; reflexivity.
Qed.

Definition crmap (s : str) : str := map (fun x => if x =? cCR then cLF else x) s.

Lemma pass12_len n : forall s, (length s <= n)%nat ->
  crmap (replace_aux [cCR; cLF] [cLF] 0 s) = nspec s.
Proof.
  induction n as [|n IH]; intros s Hl.
  - destruct s; [reflexivity| simpl in Hl; lia].
  - destruct s as [|c s]; [reflexivity|].
    cbn [replace_aux prefixb length nspec]. simpl Nat.sub. rewrite (Z.eqb_sym cCR c).
    destruct (c =? cCR) eqn:Ec.
    + destruct s as [|d s'].
      * cbn [andb app replace_aux crmap map]. rewrite Ec. reflexivity.
      * rewrite andb_true_r. cbn [andb]. rewrite (Z.eqb_sym cLF d).
        destruct (d =? cLF) eqn:Ed.
        -- cbn [app replace_aux crmap map]. change (cLF =? cCR) with false. cbn iota.
           f_equal. apply IH. simpl in Hl |- *. lia.
        -- cbn [crmap map]. rewrite Ec. f_equal.
           apply IH. simpl in Hl |- *. lia.
    + cbn [andb crmap map]. rewrite Ec. f_equal. apply IH. simpl in Hl. lia.
Qed.

Lemma two_replaces_spec s :
  replace [cCR] [cLF] (replace [cCR; cLF] [cLF] s) = nspec s.
Proof.
  rewrite replace_single. unfold replace.
  exact (pass12_len (length s) s (le_n _)).
Qed.

(* ---- documents as lines with endings ---- *)
Inductive ending := LF | CRLF | CR.
Definition show_end (e : ending) : str :=
  match e with LF => [cLF] | CRLF => [cCR; cLF] | CR => [cCR] end.

Definition line_ok (l : str) : Prop := Forall (fun c => c <> cCR /\ c <> cLF) l.

Definition doc := list (str * ending).
Fixpoint show (d : doc) : str :=
  match d with [] => [] | (l, e) :: d' => l ++ show_end e ++ show d' end.
Definition to_LF (d : doc) : doc := map (fun le => (fst le, LF)) d.

(* ambiguity: a CR-terminated line directly followed by an empty LF-terminated line
   is indistinguishable from one CRLF-terminated line *)
Fixpoint unambiguous (d : doc) : Prop :=
  match d with
  | [] => True
  | (_, e) :: d' =>
    (e = CR -> match d' with ([], LF) :: _ => False | _ => True end) /\ unambiguous d'
  end.

Definition lines_ok (d : doc) : Prop := Forall (fun le => line_ok (fst le)) d.

Lemma nspec_line l rest : line_ok l -> nspec (l ++ rest) = l ++ nspec rest.
Proof.
  induction 1 as [|c l [Hc _] _ IH]; [reflexivity|].
  cbn [app nspec]. destruct (c =? cCR) eqn:E; [apply Z.eqb_eq in E; contradiction|].
  rewrite IH. reflexivity.
Qed.

Lemma nspec_id s : Forall (fun c => c <> cCR) s -> nspec s = s.
Proof.
  induction 1 as [|c l Hc _ IH]; [reflexivity|].
  cbn [nspec]. destruct (c =? cCR) eqn:E; [apply Z.eqb_eq in E; contradiction|].
  rewrite IH. reflexivity.
Qed.

(* the tail after a CR must not start with LF *)
Definition starts_LF (s : str) : bool := match s with c :: _ => c =? cLF | [] => false end.

Lemma show_starts_LF d :
  lines_ok d -> starts_LF (show d) = true ->
  exists e d', d = ([], e) :: d' /\ e = LF.
Proof.
  destruct d as [|[l e] d']; cbn [show starts_LF]; [discriminate|].
  intros Hok Hs. inversion Hok as [|? ? Hl _]; subst. cbn [fst] in Hl.
  destruct l as [|c l].
  - cbn [app] in Hs. destruct e; cbn in Hs; try discriminate.
    exists LF, d'. split; reflexivity.
  - cbn [app starts_LF] in Hs. inversion Hl as [|? ? [_ Hc] _]; subst.
    apply Z.eqb_eq in Hs. contradiction.
Qed.

Lemma starts_LF_show_tail d tail :
  lines_ok d -> starts_LF tail = false -> starts_LF (show d ++ tail) = true ->
  exists d', d = ([], LF) :: d'.
Proof.
  destruct d as [|[l e] d']; cbn [show app]; intros Hok Ht Hs; [congruence|].
  inversion Hok as [|? ? Hl _]; subst. cbn [fst] in Hl.
  destruct l as [|c l].
  - destruct e; cbn in Hs; try discriminate. exists d'. reflexivity.
  - cbn [app starts_LF] in Hs. inversion Hl as [|? ? [_ Hc] _]; subst.
    apply Z.eqb_eq in Hs. contradiction.
Qed.

Theorem nspec_show_app d tail :
  lines_ok d -> unambiguous d -> starts_LF tail = false ->
  nspec (show d ++ tail) = show (to_LF d) ++ nspec tail.
Proof.
  intros Hok Hun Ht. induction d as [|[l e] d IH]; [reflexivity|].
  inversion Hok as [|? ? Hl Hok']; subst. cbn [fst] in Hl.
  destruct Hun as [Hcr Hun].
  cbn [show to_LF map fst]. fold (to_LF d). rewrite <- !app_assoc.
  rewrite nspec_line by assumption. f_equal.
  destruct e; cbn [show_end app nspec].
  - change (cLF =? cCR) with false. cbn iota. rewrite IH by assumption. reflexivity.
  - change (cCR =? cCR) with true. cbn iota. change (cLF =? cLF) with true. cbn iota.
    rewrite IH by assumption. reflexivity.
  - change (cCR =? cCR) with true. cbn iota.
    specialize (IH Hok' Hun).
    pose proof (starts_LF_show_tail d tail Hok' Ht) as Hst.
    destruct (show d ++ tail) as [|c rest] eqn:Es.
    + rewrite <- IH. reflexivity.
    + destruct (c =? cLF) eqn:Ec.
      * exfalso. destruct Hst as [d' Hd']; [exact Ec|]. subst. apply Hcr. reflexivity.
      * f_equal. exact IH.
Qed.

Theorem nspec_show d :
  lines_ok d -> unambiguous d -> nspec (show d) = show (to_LF d).
Proof.
  intros Hok Hun. pose proof (nspec_show_app d [] Hok Hun eq_refl) as H.
  rewrite !app_nil_r in H. exact H.
Qed.

Lemma show_LF_noCR d : lines_ok d -> Forall (fun c => c <> cCR) (show (to_LF d)).
Proof.
  induction d as [|[l e] d IH]; intros Hok; [constructor|].
  inversion Hok as [|? ? Hl Hok']; subst. cbn [fst] in Hl.
  cbn [to_LF map show fst show_end]. fold (to_LF d).
  apply Forall_app. split.
  - eapply Forall_impl; [|exact Hl]. intros a [H _]. exact H.
  - cbn [app]. constructor; [discriminate|]. apply IH. assumption.
Qed.

Lemma endswith_app_single s c : endswith (s ++ [c]) [c] = true.
Proof. unfold endswith. rewrite rev_app_distr. cbn. rewrite Z.eqb_refl. reflexivity. Qed.

Lemma show_LF_ends d : d <> [] -> exists s, show (to_LF d) = s ++ [cLF].
Proof.
  induction d as [|[l e] d IH]; intros Hne; [contradiction|].
  cbn [to_LF map show fst show_end]. fold (to_LF d).
  destruct d as [|p d'].
  - exists l. cbn. reflexivity.
  - destruct IH as [s Hs]; [discriminate|]. rewrite Hs.
    exists (l ++ [cLF] ++ s). rewrite <- !app_assoc. reflexivity.
Qed.

(* main statements on [norm] *)
Theorem norm_spec s :
  norm s = let t := nspec s in if endswith t [cLF] then t else t ++ [cLF].
Proof.
  unfold norm, run_ops, canonical_ops. cbn [fold_left run_op].
  rewrite two_replaces_spec. reflexivity.
Qed.

Theorem norm_complete_doc d :
  lines_ok d -> unambiguous d -> d <> [] ->
  norm (show d) = show (to_LF d).
Proof.
  intros Hok Hun Hne. rewrite norm_spec. cbv zeta.
  rewrite nspec_show by assumption.
  destruct (show_LF_ends d Hne) as [s Hs]. rewrite Hs.
  rewrite endswith_app_single. reflexivity.
Qed.

(* the LF form is a fixed point, so any ending style of the same lines normalises alike *)
Corollary norm_ending_invariant d :
  lines_ok d -> unambiguous d -> d <> [] ->
  norm (show d) = norm (show (to_LF d)).
Proof.
  intros Hok Hun Hne. rewrite (norm_complete_doc d Hok Hun Hne).
  rewrite norm_spec. cbv zeta.
  rewrite nspec_id by (apply show_LF_noCR; assumption).
  destruct (show_LF_ends d Hne) as [s Hs]. rewrite Hs.
  rewrite endswith_app_single. reflexivity.
Qed.

Lemma endswith_last_ne s c x : c <> x -> endswith (s ++ [c]) [x] = false.
Proof.
  intros H. unfold endswith. rewrite rev_app_distr. cbn.
  destruct (x =? c) eqn:E; [apply Z.eqb_eq in E; congruence|reflexivity].
Qed.

(* missing final newline: a last unterminated non-empty line gets exactly one LF *)
Theorem norm_missing_final_newline d l c :
  lines_ok d -> unambiguous d -> line_ok (l ++ [c]) ->
  norm (show d ++ l ++ [c]) = show (to_LF d) ++ l ++ [c] ++ [cLF] /\
  norm (show d ++ l ++ [c]) = norm (show d ++ l ++ [c] ++ [cLF]).
Proof.
  intros Hok Hun Hl.
  assert (Hlc : Forall (fun x => x <> cCR) (l ++ [c])).
  { eapply Forall_impl; [|exact Hl]. intros a [H _]. exact H. }
  assert (Hc : c <> cLF).
  { apply Forall_app in Hl. destruct Hl as [_ Hl]. inversion Hl as [|? ? [_ H] _]. exact H. }
  assert (Hst : forall tail, starts_LF ((l ++ [c]) ++ tail) = false).
  { intros tail. destruct l as [|a l']; cbn.
    - apply Z.eqb_neq. exact Hc.
    - inversion Hl as [|? ? [_ Ha] _]; subst. apply Z.eqb_neq. exact Ha. }
  rewrite !norm_spec. cbv zeta.
  replace (show d ++ l ++ [c]) with (show d ++ ((l ++ [c]) ++ [])) by (rewrite app_nil_r; reflexivity).
  replace (show d ++ l ++ [c] ++ [cLF]) with (show d ++ ((l ++ [c]) ++ [cLF])) by (rewrite <- app_assoc; reflexivity).
  rewrite !nspec_show_app by (try assumption; apply Hst).
  rewrite app_nil_r.
  rewrite (nspec_id (l ++ [c])) by assumption.
  assert (Hn2 : nspec ((l ++ [c]) ++ [cLF]) = (l ++ [c]) ++ [cLF]).
  { apply nspec_id. apply Forall_app. split; [assumption|]. constructor; [discriminate|constructor]. }
  rewrite Hn2.
  rewrite !app_assoc. rewrite endswith_app_single.
  rewrite endswith_last_ne by assumption. split; reflexivity.
Qed.

(* None is the empty document: both normalise to a single newline *)
Theorem norm_none_is_empty : norm (call_input [cLF] None) = norm [] /\ norm [] = [cLF].
Proof. split; reflexivity. Qed.

(* non-vacuity *)
Example doc_example :
  let d := ([97], CRLF) :: ([], CR) :: ([98; 99], LF) :: ([100], CR) :: nil in
  lines_ok d /\ unambiguous d /\ d <> [] /\ norm (show d) = [97;10;10;98;99;10;100;10].
Proof.
  cbv zeta. split; [|split; [|split]].
  - repeat constructor; discriminate.
  - cbn. repeat split; intros; try discriminate; exact I.
  - discriminate.
  - reflexivity.
Qed.
