(* BlockCons.v — text conservation through the block parser model (C03).
   For an arbitrary character x of a set [keep] (instantiated with the ASCII letters), [mu s] counts the occurrences of x in s.
   Every handler and every loop of Model/Block.v is shown to keep the books balanced:
       mu(tokens after) + mu(reference table after) + dropped  =  mu(tokens before) + mu(table before) + mu(consumed span)
   where [dropped] is non-zero only when a reference definition was discarded because its label was already defined.
   Hence (block_parse_conserves): for every text, the letters of the source are the letters of the token tree plus those
   of the reference table (pre-image of the destination under escape_url) plus the discarded duplicates; nothing is
   emitted twice, and when no definition was accepted nothing is lost either.
   Positional facts come from BlockProofs (mok / hspec); facts about the regenerated patterns from RxCov (kept
   characters only inside the capture that the handler keeps), RxAnalysis.avoids and the end-of-line analysis below. *)
From Coq Require Import ZArith List Bool Lia Arith.
From Verif Require Import PyStr Rx RxSpec RxAnalysis RxSub RxSubProofs ReplaceProofs RxHead RxCov Scanner Inline InlineProofs Block BlockProofs BlockTyping.
Import ListNotations.
Local Open Scope nat_scope.

(* ---------- every match ends in front of a line end ---------- *)
Fixpoint eol (r : rx) : bool :=
  match r with
  | RSeq _ b => eol b
  | RAlt a b => eol a && eol b
  | RGroup _ r1 => eol r1
  | RAt AtEndLine | RAt AtEnd | RAt AtEndString => true
  | _ => false
  end.

Definition at_eol (z : zip) : Prop := match z_rest z with [] => True | c :: _ => c = 10%Z end.

Lemma eol_sound U r : eol r = true -> forall z c z' c', M U r z c z' c' -> at_eol z'.
Proof.
  induction r as [|ch|ch|ineg items|dotall|ra IHa rb IHb|ra IHa rb IHb| |greedy lo hi r1 IH1|g' r1 IH1|g'|ahead neg r1 IH1|a];
    cbn [eol M]; intros G z c z' c' HM; try discriminate.
  - destruct HM as (z1 & c1 & _ & Hb). eauto.
  - apply andb_true_iff in G. destruct G as [G1 G2]. destruct HM as [H|H]; eauto.
  - destruct HM as (c1 & Hm & _). eauto.
  - destruct HM as (-> & _ & Hat). unfold at_eol. destruct a; try discriminate; cbn [at_ok] in Hat.
    + destruct (z_rest z) as [|x [|y l]]; [exact I| |discriminate]. apply Z.eqb_eq in Hat. exact Hat.
    + destruct (z_rest z) as [|x l]; [exact I|]. apply Z.eqb_eq in Hat. exact Hat.
    + destruct (z_rest z); [exact I|discriminate].
Qed.

(* ---------- every match ends with a newline ---------- *)
Fixpoint endsnl (r : rx) : bool :=
  match r with
  | RLit a => (a =? 10)%Z
  | RSeq _ b => endsnl b
  | RAlt a b => endsnl a && endsnl b
  | RGroup _ r1 => endsnl r1
  | RRep _ lo _ r1 => Nat.leb 1 lo && endsnl r1
  | _ => false
  end.

Lemma endsnl_sound U r : endsnl r = true -> forall z c z' c' w, M U r z c z' c' -> adv z z' w -> exists w', w = w' ++ [10%Z].
Proof.
  induction r as [|ch|ch|ineg items|dotall|ra IHa rb IHb|ra IHa rb IHb| |greedy lo hi r1 IH1|g' r1 IH1|g'|ahead neg r1 IH1|a];
    cbn [endsnl M]; intros G z c z' c' w HM Hadv; try discriminate.
  - destruct HM as (ch0 & Hs & Hp & _). apply Z.eqb_eq in Hp. subst ch0. apply Z.eqb_eq in G. subst ch.
    rewrite (adv_unique _ _ _ _ Hadv (zstep_adv _ _ _ Hs)). exists []. reflexivity.
  - destruct HM as (z1 & c1 & Ha & Hb). destruct (M_adv U _ _ _ _ _ Ha) as [w1 A1]. destruct (M_adv U _ _ _ _ _ Hb) as [w2 A2].
    rewrite (adv_unique _ _ _ _ Hadv (adv_trans _ _ _ _ _ A1 A2)).
    destruct (IHb G _ _ _ _ _ Hb A2) as (w' & ->). exists (w1 ++ w'). rewrite app_assoc. reflexivity.
  - apply andb_true_iff in G. destruct G as [G1 G2]. destruct HM as [H|H]; eauto.
  - apply andb_true_iff in G. destruct G as [Gl Gr]. apply Nat.leb_le in Gl. destruct HM as (n & Hn & _ & Hi).
    assert (Hn1 : 1 <= n) by lia. clear Hn Gl lo hi greedy. revert w Hadv Hn1.
    induction Hi as [z c|n z c z1 c1 z2 c2 HR Hlt Hit IH]; intros w Hadv Hn1; [lia|].
    destruct (M_adv U _ _ _ _ _ HR) as [w1 A1].
    assert (Hrest : exists w2, adv z1 z2 w2).
    { clear - Hit IH1. induction Hit as [z c|n z c z1 c1 z2 c2 HR _ _ IHi]; [exists []; apply adv_refl|].
      destruct (M_adv U _ _ _ _ _ HR) as [wa Aa]. destruct IHi as [wb Ab]. exists (wa ++ wb). eapply adv_trans; eassumption. }
    destruct Hrest as [w2 A2]. rewrite (adv_unique _ _ _ _ Hadv (adv_trans _ _ _ _ _ A1 A2)).
    destruct n as [|n].
    + inversion Hit; subst. rewrite (adv_unique _ _ _ _ A2 (adv_refl _)), app_nil_r. exact (IH1 Gr _ _ _ _ _ HR A1).
    + destruct (IH w2 A2 ltac:(lia)) as (w' & ->). exists (w1 ++ w'). rewrite app_assoc. reflexivity.
  - destruct HM as (c1 & Hm & _). eauto.
Qed.

(* ---------- BlockState.find_line_end: no newline strictly inside the line ---------- *)
Lemma line_end_from_chars U : forall rest pre idx fuel, length rest <= fuel ->
  exists m k, search_from U line_end_rx fuel {| z_pre := pre; z_rest := rest; z_idx := idx |} = Some m /\
              snd (fst m) = idx + k /\ k <= length rest /\ Forall (fun ch => ch <> 10%Z) (firstn (k - 1) rest).
Proof.
  induction rest as [|ch rest IH]; intros pre idx fuel Hf.
  - exists (idx, idx, []), 0. destruct fuel; cbn; (split; [reflexivity|split; [lia|split; [lia|constructor]]]).
  - destruct fuel as [|f]; [cbn in Hf; lia|]. cbn [search_from].
    unfold match_at, line_end_rx. cbn [m one zstep z_rest z_pre z_idx].
    destruct (ch =? 10)%Z eqn:E.
    + eexists. exists 1. split; [reflexivity|]. cbn. split; [lia|split; [lia|constructor]].
    + assert (Hne : ch <> 10%Z) by (apply Z.eqb_neq; exact E).
      assert (Hgo : exists m k, search_from U line_end_rx f {| z_pre := ch :: pre; z_rest := rest; z_idx := S idx |} = Some m /\
                       snd (fst m) = idx + k /\ k <= length (ch :: rest) /\ Forall (fun c0 => c0 <> 10%Z) (firstn (k - 1) (ch :: rest))).
      { destruct (IH (ch :: pre) (S idx) f ltac:(cbn in *; lia)) as (m0 & k & Hs & H1 & H2 & H3).
        exists m0, (S k). split; [exact Hs|]. split; [lia|]. split; [cbn; lia|].
        destruct k as [|k]; [cbn; constructor|]. replace (S (S k) - 1) with (S k) by lia. replace (S k - 1) with k in H3 by lia. cbn [firstn]. constructor; assumption. }
      cbn [at_ok z_rest]. destruct rest as [|c2 rest2].
      * rewrite E. cbn [zstep z_rest]. exact Hgo.
      * cbn [zstep z_rest]. exact Hgo.
Qed.

(* ---------- list facts ---------- *)
Lemma firstn_add {A} : forall n m (l : list A), firstn (n + m) l = firstn n l ++ firstn m (skipn n l).
Proof. induction n as [|n IH]; intros m l; [reflexivity|]. destruct l as [|a l]; cbn; [rewrite firstn_nil; reflexivity|]. rewrite IH. reflexivity. Qed.
Lemma skipn_add {A} : forall m n (l : list A), skipn n (skipn m l) = skipn (m + n) l.
Proof. induction m as [|m IH]; intros n l; [reflexivity|]. destruct l as [|a l]; cbn; [apply skipn_nil|]. apply IH. Qed.

Lemma slice_split (s : str) a b c : a <= b -> b <= c -> slice s a c = slice s a b ++ slice s b c.
Proof.
  intros H1 H2. unfold slice. replace (c - a) with ((b - a) + (c - b)) by lia.
  rewrite firstn_add, skipn_add. replace (a + (b - a)) with b by lia. reflexivity.
Qed.

Lemma slice_nil_ge (s : str) a b : b <= a -> slice s a b = [].
Proof. intros H. unfold slice. replace (b - a) with 0 by lia. reflexivity. Qed.

Lemma slice_app_mid (a w b : str) : slice (a ++ w ++ b) (length a) (length a + length w) = w.
Proof.
  unfold slice. rewrite skipn_app, skipn_all, Nat.sub_diag. cbn [skipn app].
  replace (length a + length w - length a) with (length w) by lia. rewrite firstn_app, firstn_all, Nat.sub_diag. cbn. apply app_nil_r.
Qed.

Lemma slice_to_end (s : str) a b : length s <= b -> slice s a b = skipn a s.
Proof. intros H. unfold slice. apply firstn_all2. rewrite skipn_length. lia. Qed.

Lemma zof_decomp s z z' w : zof s z -> adv z z' w -> s = rev (z_pre z) ++ w ++ z_rest z' /\ length (rev (z_pre z)) = z_idx z.
Proof.
  intros [Hs Hi] (A & _ & _). split; [|rewrite rev_length; lia]. rewrite <- Hs. unfold subject. rewrite A. reflexivity.
Qed.

Lemma zof_slice s z z' w : zof s z -> adv z z' w -> slice s (z_idx z) (z_idx z') = w.
Proof.
  intros Hz Ha. destruct (zof_decomp _ _ _ _ Hz Ha) as [E L]. destruct Ha as (_ & _ & I). rewrite I, <- L. rewrite E at 1. apply slice_app_mid.
Qed.

Lemma zof_rest s z : zof s z -> z_rest z = skipn (z_idx z) s.
Proof.
  intros [Hs Hi]. rewrite <- Hs. unfold subject. rewrite skipn_app, skipn_all2 by (rewrite rev_length; lia).
  rewrite rev_length. replace (z_idx z - length (z_pre z)) with 0 by lia. reflexivity.
Qed.

(* list_parser._LINE_HAS_TEXT: white space (group 1), then one character that is not white space *)
Definition lht_rx : rx := RSeq (RGroup 1 (RRep true 0 None (RIn false [CCat CatSpace]))) (RIn false [CCat CatNotSpace]).

Section BC.
Variable C : bcfg.
Let U := b_uni C.
Variable keep : list Z.
Variable x : Z.
Hypothesis OK : bcfg_ok C.

Local Notation P := (proj keep).
Definition anyb (r : rx) : bool := true.

Definition mu (s : str) : nat := count_occ Z.eq_dec (P s) x.

Lemma mu_app a b : mu (a ++ b) = mu a + mu b.
Proof. unfold mu. rewrite proj_app, count_occ_app. reflexivity. Qed.
Lemma mu_nil : mu [] = 0.
Proof. reflexivity. Qed.
Lemma mu_P a b : P a = P b -> mu a = mu b.
Proof. unfold mu. intros ->. reflexivity. Qed.
Lemma mu_P0 a : P a = [] -> mu a = 0.
Proof. unfold mu. intros ->. reflexivity. Qed.
Lemma mu_single c : memc c keep = false -> mu [c] = 0.
Proof. intros H. apply mu_P0. rewrite proj_cons, H. reflexivity. Qed.
Lemma mu_slice_split (s : str) a b c : a <= b -> b <= c -> mu (slice s a c) = mu (slice s a b) + mu (slice s b c).
Proof. intros H1 H2. rewrite (slice_split s a b c H1 H2). apply mu_app. Qed.

(* ---------- what the conservation proof needs from the configuration (checked on the regenerated data) ---------- *)
Record bcfg_cons : Prop := {
  ck_nl : memc 10%Z keep = false;
  ck_sp : memc 32%Z keep = false;
  ck_ws : forall c, b_is_ws C c = true -> memc c keep = false;
  ck_tab : memc 9%Z keep = false;
  ck_zero : memc 0%Z keep = false;
  ck_fence_marker : forall r, rule_of C RFenced r -> gav U keep 2 r = true;
  ck_fenced : forall r, rule_of C RFenced r -> cov U keep 3 anyb r = true /\ eol r = true;
  ck_atx : forall r, rule_of C RAtx r -> cov U keep 2 anyb r = true /\ eol r = true;
  ck_setex : forall r, rule_of C RSetex r -> avoids U keep r = true /\ eol r = true;
  ck_thematic : forall r, rule_of C RThematic r -> avoids U keep r = true /\ eol r = true;
  ck_blank : forall r, rule_of C RBlankLine r -> avoids U keep r = true;
  ck_blank_rx : avoids U keep (b_blank_line C) = true /\ endsnl (b_blank_line C) = true;
  ck_lht : b_line_has_text C = lht_rx;
  ck_space : forall c, in_ranges c (u_space U) = true -> memc c keep = false;
  ck_lb_noitem : forall w r, ~ In (RListItem, r) (b_lb_rules C w);
  ck_quote : forall r, rule_of C RQuote r -> cov U keep 1 anyb r = true /\ eol r = true;
  ck_list : forall r, rule_of C RList r -> cov U keep 3 anyb r = true /\ eol r = true;
  ck_item : forall b w, cov U keep 3 anyb (b_item_rx C b w) = true /\ eol (b_item_rx C b w) = true;
  ck_ref : forall r, rule_of C RRefLink r -> cov U keep 1 anyb r = true;
  ck_bstart : avoids U keep (b_bracket_start C) = true;
  ck_bracket : cov U keep 1 anyb (b_bracket C) = true;
  ck_href : cov U keep 1 anyb (b_href_block C) = true;
  ck_title : cov U keep 1 (quoted keep) (b_title C) = true;
  ck_btl : avoids U keep (b_blank_to_line C) = true;
  ck_sub_quote_trim : wf (b_quote_trim C) = true /\ avoids U keep (b_quote_trim C) = true;
  ck_sub_quote_leading : wf (b_quote_leading C) = true /\ avoids U keep (b_quote_leading C) = true;
  ck_sub_expand_tab : wf (b_expand_tab C) = true /\ avoids U keep (b_expand_tab C) = true;
  ck_sub_strip_end : wf (b_strip_end C) = true /\ avoids U keep (b_strip_end C) = true;
  ck_sub_escape : wf (b_escape_char C) = true /\ avoids U keep (b_escape_char C) = true;
  ck_sub_indent : wf (b_indent_code_trim C) = true /\ avoids U keep (b_indent_code_trim C) = true;
  ck_sub_atx : wf (b_atx_trim C) = true /\ avoids U keep (b_atx_trim C) = true
}.
Hypothesis CK : bcfg_cons.

(* ---------- substitutions and strips ---------- *)
Lemma mu_sub_del r s : wf r = true /\ avoids U keep r = true -> mu (sub_del C r s) = mu s.
Proof. intros [W A]. apply mu_P. unfold sub_del. apply re_sub_keeps; [exact W|exact A|reflexivity]. Qed.

Lemma mu_expand_leading_tab s w : mu (expand_leading_tab C s w) = mu s.
Proof.
  apply mu_P. unfold expand_leading_tab. destruct (ck_sub_expand_tab CK) as [W A]. apply re_sub_keeps; [exact W|exact A|].
  cbn. rewrite (ck_sp CK). reflexivity.
Qed.

Lemma mu_expand_tab s : mu (expand_tab C s) = mu s.
Proof.
  apply mu_P. unfold expand_tab. destruct (ck_sub_expand_tab CK) as [W A]. apply re_sub_keeps; [exact W|exact A|].
  cbn. rewrite (ck_sp CK). reflexivity.
Qed.

Lemma mu_strip_end s : mu (strip_end C s) = mu s.
Proof.
  apply mu_P. unfold strip_end. destruct (ck_sub_strip_end CK) as [W A]. apply re_sub_keeps; [exact W|exact A|].
  cbn. rewrite (ck_nl CK). reflexivity.
Qed.

Lemma mu_unescape_char s : mu (unescape_char C s) = mu s.
Proof.
  apply mu_P. unfold unescape_char. destruct (ck_sub_escape CK) as [W A]. apply re_sub_keeps; [exact W|exact A|reflexivity].
Qed.

Lemma P_lstrip p s : (forall c, p c = true -> memc c keep = false) -> P (lstrip_p p s) = P s.
Proof.
  intros Hp. induction s as [|c s IH]; cbn [lstrip_p]; [reflexivity|]. destruct (p c) eqn:E; [|reflexivity].
  rewrite IH, (proj_cons keep c s), (Hp c E). reflexivity.
Qed.

Lemma P_rev s : P (rev s) = rev (P s).
Proof.
  induction s as [|c s IH]; cbn [rev]; [reflexivity|]. rewrite proj_app, IH, (proj_cons keep c s), (proj_cons keep c []).
  destruct (memc c keep); cbn; [reflexivity|rewrite app_nil_r; reflexivity].
Qed.

Lemma P_strip p s : (forall c, p c = true -> memc c keep = false) -> P (strip_p p s) = P s.
Proof.
  intros Hp. unfold strip_p, rstrip_p. rewrite P_rev, (P_lstrip p _ Hp), P_rev, rev_involutive. apply P_lstrip. exact Hp.
Qed.

Lemma mu_strip_ws s : mu (strip_ws C s) = mu s.
Proof. apply mu_P. unfold strip_ws. apply P_strip. exact (ck_ws CK). Qed.

Lemma mu_strip_nl s : mu (strip_chars [10%Z] s) = mu s.
Proof.
  apply mu_P. unfold strip_chars. apply P_strip. intros c H. cbn in H. rewrite orb_false_r in H. apply Z.eqb_eq in H. subst. exact (ck_nl CK).
Qed.

Lemma mu_repeat_sp n : mu (repeat 32%Z n) = 0.
Proof. apply mu_P0. apply proj_spaces. exact (ck_sp CK). Qed.

(* ---------- token weights ---------- *)
Fixpoint tw (t : btok) : nat :=
  match t with
  | BBlank | BThematic => 0
  | BCode raw _ _ info => mu raw + match info with Some i => mu i | None => 0 end
  | BHeading text _ _ | BParagraph text | BBlockText text | BHtml text => mu text
  | BQuote ch | BListItem ch => fold_right (fun t n => tw t + n) 0 ch
  | BList items _ _ _ _ _ => fold_right (fun t n => tw t + n) 0 items
  end.
Definition tws (l : list btok) : nat := fold_right (fun t n => tw t + n) 0 l.

Lemma tws_cons t l : tws (t :: l) = tw t + tws l.
Proof. reflexivity. Qed.
Lemma tws_one t : tws [t] = tw t.
Proof. unfold tws. cbn [fold_right]. lia. Qed.
Lemma tws_app a b : tws (a ++ b) = tws a + tws b.
Proof. induction a as [|t a IH]; [reflexivity|]. rewrite <- app_comm_cons, !tws_cons, IH. lia. Qed.
Lemma tws_rev a : tws (rev a) = tws a.
Proof. induction a as [|t a IH]; cbn [rev]; [reflexivity|]. rewrite tws_app, IH, tws_one, tws_cons. lia. Qed.
Lemma tws_append st t : tws (s_tokens (append_token st t)) = tws (s_tokens st) + tw t.
Proof. unfold append_token. cbn [s_tokens set_tokens]. rewrite tws_app, tws_one. reflexivity. Qed.

Lemma last_par_tws st before t : last_is_paragraph st = Some (before, t) -> tws (s_tokens st) = tws before + mu t.
Proof.
  unfold last_is_paragraph. intros H. rewrite <- (rev_involutive (s_tokens st)).
  destruct (rev (s_tokens st)) as [|[] r]; try discriminate. inversion H; subst. cbn [rev]. rewrite tws_app, tws_one. reflexivity.
Qed.

Lemma tws_add_paragraph st text : tws (s_tokens (add_paragraph st text)) = tws (s_tokens st) + mu text.
Proof.
  unfold add_paragraph. destruct (last_is_paragraph st) as [[before t]|] eqn:E.
  - cbn [s_tokens set_tokens]. rewrite tws_app, tws_one, (last_par_tws _ _ _ E). cbn [tw]. rewrite mu_app. lia.
  - rewrite tws_append. reflexivity.
Qed.

Lemma tws_append_paragraph st st' pos : append_paragraph C st = Some (st', pos) ->
  tws (s_tokens st') = tws (s_tokens st) + mu (slice (s_src st) (s_cursor st) pos).
Proof.
  unfold append_paragraph. destruct (last_is_paragraph st) as [[before t]|] eqn:E; [|discriminate]. intros [= <- <-].
  cbn [s_tokens set_tokens]. rewrite tws_app, tws_one, (last_par_tws _ _ _ E). cbn [tw]. rewrite mu_app. unfold get_text. lia.
Qed.

Lemma tws_insert_at l i t : tws (insert_at l i t) = tws l + tw t.
Proof. unfold insert_at. rewrite tws_app, tws_cons. rewrite <- (firstn_skipn i l) at 3. rewrite tws_app. lia. Qed.


Lemma tws_set_cursor st c : s_tokens (set_cursor st c) = s_tokens st.
Proof. reflexivity. Qed.

(* ---------- what a match consumed, and what its captures hold ---------- *)
Definition gtext (s : str) (c : caps) (g : nat) : str := match cap_get c g with Some (a, b) => slice s a b | None => [] end.

Lemma group_n_gtext s m g : Block.group_n s m g = gtext s (snd m) g.
Proof. reflexivity. Qed.

Lemma slice_in (a t r : str) : slice (a ++ t ++ r) (length a) (length a + length t) = t.
Proof. apply slice_app_mid. Qed.

(* the subject is pre ++ w ++ rest with the match w starting at index |pre| *)
Lemma covered_text g gp s pre z c' w rest : s = pre ++ w ++ rest -> length pre = z_idx z -> covered U keep g gp z [] c' w ->
  exists p t q, w = p ++ t ++ q /\ P p = [] /\ P q = [] /\ gtext s c' g = t /\
    (cap_get c' g <> None -> exists r1 zt ct zt' ct', gp r1 = true /\ wf r1 = true /\ M U r1 zt ct zt' ct' /\ adv zt zt' t).
Proof.
  intros Es Hl [[Pw Cg]|(p & t & q & Ew & Pp & Pq & Cg & Hb)].
  - exists w, [], []. rewrite app_nil_r. split; [reflexivity|]. split; [exact Pw|]. split; [reflexivity|].
    unfold gtext. rewrite Cg. cbn. split; [reflexivity|]. intros H. exfalso. apply H. reflexivity.
  - exists p, t, q. split; [exact Ew|]. split; [exact Pp|]. split; [exact Pq|]. split; [|intros _; exact Hb].
    unfold gtext. rewrite Cg, <- Hl. subst s w. 
    replace (pre ++ (p ++ t ++ q) ++ rest) with ((pre ++ p) ++ t ++ (q ++ rest)) by (rewrite <- !app_assoc; reflexivity).
    rewrite <- app_length. apply slice_in.
Qed.

Lemma mu3 p t q : P p = [] -> P q = [] -> mu (p ++ t ++ q) = mu t.
Proof. intros Hp Hq. rewrite !mu_app, (mu_P0 _ Hp), (mu_P0 _ Hq). lia. Qed.

(* a handler's match, unpacked *)
Lemma mok_unpack rk m st : mok C rk m st ->
  exists r z z' w, rule_of C rk r /\ wf r = true /\ zof (s_src st) z /\ zof (s_src st) z' /\ M U r z [] z' (snd m) /\ adv z z' w /\
    Block.mstart m = z_idx z /\ Block.mend m = z_idx z' /\ z_idx z = s_cursor st /\
    s_src st = rev (z_pre z) ++ w ++ z_rest z' /\ length (rev (z_pre z)) = z_idx z /\ Block.group0 (s_src st) m = w.
Proof.
  intros (M1 & M2 & M3 & r & z & Hr & W & Hz & Hi & Hm).
  destruct (m_spec U r W _ z [] (fun z' c' => Some (z_idx z, z_idx z', c'))) as [S1 _].
  unfold match_at in Hm. apply S1 in Hm. destruct Hm as (z' & c' & HM & Hk). inversion Hk; subst m. clear Hk.
  destruct (M_adv U _ _ _ _ _ HM) as [w Hadv]. destruct (zof_decomp _ _ _ _ Hz Hadv) as [E L].
  exists r, z, z', w. split; [exact Hr|]. split; [exact W|]. split; [exact Hz|]. split; [exact (zof_adv _ _ _ _ Hz Hadv)|].
  split; [exact HM|]. split; [exact Hadv|]. split; [reflexivity|]. split; [reflexivity|]. split; [exact Hi|]. split; [exact E|]. split; [exact L|].
  unfold Block.group0, Block.mstart, Block.mend. cbn [fst snd]. exact (zof_slice _ _ _ _ Hz Hadv).
Qed.

(* the match keeps its kept characters inside group g *)
Lemma mok_cov g gp rk m st : (forall r, rule_of C rk r -> cov U keep g gp r = true) -> mok C rk m st ->
  exists p t q, Block.group0 (s_src st) m = p ++ t ++ q /\ P p = [] /\ P q = [] /\ Block.group_n (s_src st) m g = t /\
    (cap_get (snd m) g <> None -> exists r1 zt ct zt' ct', gp r1 = true /\ wf r1 = true /\ M U r1 zt ct zt' ct' /\ adv zt zt' t).
Proof.
  intros Hc Hm. destruct (mok_unpack _ _ _ Hm) as (r & z & z' & w & Hr & W & Hz & Hz' & HM & Hadv & _ & _ & _ & Es & Hl & Eg).
  pose proof (cov_sound U keep g gp r W (Hc r Hr) _ _ _ _ _ HM Hadv) as Hcov.
  rewrite Eg, group_n_gtext. exact (covered_text g gp _ _ _ _ _ _ Es Hl Hcov).
Qed.

Lemma mok_mu_group g rk m st : (forall r, rule_of C rk r -> cov U keep g anyb r = true) -> mok C rk m st ->
  mu (Block.group0 (s_src st) m) = mu (Block.group_n (s_src st) m g).
Proof.
  intros Hc Hm. destruct (mok_cov g anyb rk m st Hc Hm) as (p & t & q & E & Pp & Pq & Eg & _). rewrite E, Eg. apply mu3; assumption.
Qed.

Lemma mok_mu_avoid rk m st : (forall r, rule_of C rk r -> avoids U keep r = true) -> mok C rk m st -> mu (Block.group0 (s_src st) m) = 0.
Proof.
  intros Ha Hm. destruct (mok_unpack _ _ _ Hm) as (r & z & z' & w & Hr & W & Hz & Hz' & HM & Hadv & _ & _ & _ & Es & Hl & Eg).
  destruct (avoids_sound U keep r (Ha r Hr) _ _ _ _ HM) as (w0 & A0 & F0). rewrite Eg, (adv_unique _ _ _ _ Hadv A0).
  apply mu_P0. apply proj_none. exact F0.
Qed.

(* after a match that ends at a line end, the next character (if any) is the newline *)
Lemma eol_next s z' : zof s z' -> at_eol z' -> mu (slice s (z_idx z') (z_idx z' + 1)) = 0.
Proof.
  intros Hz He. unfold slice. replace (z_idx z' + 1 - z_idx z') with 1 by lia. rewrite <- (zof_rest _ _ Hz).
  unfold at_eol in He. destruct (z_rest z') as [|c l]; [reflexivity|]. subst c. cbn [firstn]. apply mu_single. exact (ck_nl CK).
Qed.

Lemma mok_eol rk m st : (forall r, rule_of C rk r -> eol r = true) -> mok C rk m st ->
  mu (slice (s_src st) (Block.mend m) (Block.mend m + 1)) = 0.
Proof.
  intros He Hm. destruct (mok_unpack _ _ _ Hm) as (r & z & z' & w & Hr & W & Hz & Hz' & HM & Hadv & _ & E2 & _).
  rewrite E2. apply (eol_next _ _ Hz'). exact (eol_sound U r (He r Hr) _ _ _ _ HM).
Qed.

(* the span a handler accounts for: from the cursor to p *)
Definition span (st : bstate) (p : nat) : nat := mu (slice (s_src st) (s_cursor st) p).

Lemma span_split st b c : s_cursor st <= b -> b <= c -> span st c = span st b + mu (slice (s_src st) b c).
Proof. intros H1 H2. unfold span. apply mu_slice_split; assumption. Qed.

Lemma mok_span rk m st : mok C rk m st -> span st (Block.mend m) = mu (Block.group0 (s_src st) m).
Proof. intros (M1 & _). unfold span, Block.group0. rewrite M1. reflexivity. Qed.

(* ---------- matches obtained with Pattern.match / Pattern.search (with an end position) ---------- *)
Lemma zof_zip_at_end s pos e : pos <= Nat.min e (length s) -> zof (firstn (Nat.min e (length s)) s) (zip_at s pos e).
Proof.
  intros Hp. unfold zof, subject, zip_at. replace (Nat.min pos (Nat.min e (length s))) with pos by lia. cbn [z_pre z_rest z_idx].
  rewrite rev_involutive, rev_length, firstn_length. split; [|lia].
  set (e' := Nat.min e (length s)). replace e' with (pos + (e' - pos)) at 2 by lia. rewrite firstn_add. reflexivity.
Qed.

Lemma match_at_unpack r s0 z m : wf r = true -> zof s0 z -> match_at U r z = Some m ->
  exists z' w, s0 = rev (z_pre z) ++ w ++ z_rest z' /\ length (rev (z_pre z)) = z_idx z /\ M U r z [] z' (snd m) /\ adv z z' w /\
    Block.mstart m = z_idx z /\ Block.mend m = z_idx z + length w.
Proof.
  intros W Hz Hm. destruct (m_spec U r W _ z [] (fun z' c' => Some (z_idx z, z_idx z', c'))) as [S1 _].
  unfold match_at in Hm. apply S1 in Hm. destruct Hm as (z' & c' & HM & Hk). inversion Hk; subst m. clear Hk.
  destruct (M_adv U _ _ _ _ _ HM) as [w Hadv]. destruct (zof_decomp _ _ _ _ Hz Hadv) as [E L].
  exists z', w. split; [exact E|]. split; [exact L|]. split; [exact HM|]. split; [exact Hadv|]. split; [reflexivity|].
  destruct Hadv as (_ & _ & I). exact I.
Qed.

(* Pattern.match(s, pos, endpos) *)
Lemma re_match_unpack r s pos e m : wf r = true -> re_match U r s pos e = Some m ->
  exists z z' w pre rest, s = pre ++ w ++ rest /\ length pre = pos /\ z_idx z = pos /\ M U r z [] z' (snd m) /\ adv z z' w /\
    Block.mstart m = pos /\ Block.mend m = pos + length w /\ pos + length w <= Nat.min e (length s).
Proof.
  intros W H. unfold re_match in H. destruct (Nat.ltb_spec (Nat.min e (length s)) pos) as [|Hle]; [discriminate|].
  pose proof (zof_zip_at_end s pos e Hle) as Hz.
  destruct (match_at_unpack r _ _ _ W Hz H) as (z' & w & E & L & HM & Hadv & A & B).
  rewrite (zip_at_idx s pos e Hle) in *.
  exists (zip_at s pos e), z', w, (rev (z_pre (zip_at s pos e))), (z_rest z' ++ skipn (Nat.min e (length s)) s).
  split. { rewrite <- (firstn_skipn (Nat.min e (length s)) s) at 1. rewrite E, <- !app_assoc. reflexivity. }
  split; [exact L|]. split; [apply zip_at_idx; exact Hle|]. split; [exact HM|]. split; [exact Hadv|]. split; [exact A|]. split; [exact B|].
  assert (Hlen : length (firstn (Nat.min e (length s)) s) = Nat.min e (length s)) by (rewrite firstn_length; lia).
  rewrite E, !app_length, L in Hlen. lia.
Qed.

Lemma rmatch_unpack r s pos m : wf r = true -> rmatch C r s pos = Some m ->
  exists z z' w pre rest, s = pre ++ w ++ rest /\ length pre = Nat.min pos (length s) /\ M U r z [] z' (snd m) /\ adv z z' w /\
    z_idx z = Nat.min pos (length s) /\
    Block.mstart m = Nat.min pos (length s) /\ Block.mend m = Nat.min pos (length s) + length w /\ Block.mend m <= length s.
Proof.
  intros W H. unfold rmatch in H. destruct (re_match_unpack r s _ _ m W H) as (z & z' & w & pre & rest & E & L & I & HM & Hadv & A & B & D).
  exists z, z', w, pre, rest. rewrite Nat.min_id in D. repeat (split; [assumption|]). lia.
Qed.

Lemma slice_of_decomp (pre w rest : str) : slice (pre ++ w ++ rest) (length pre) (length pre + length w) = w.
Proof. apply slice_app_mid. Qed.

Lemma rmatch_text r s pos m : wf r = true -> rmatch C r s pos = Some m -> 
  exists z z' w pre rest, s = pre ++ w ++ rest /\ length pre = Block.mstart m /\ z_idx z = Block.mstart m /\ M U r z [] z' (snd m) /\ adv z z' w /\
    Block.mstart m = Nat.min pos (length s) /\ Block.mend m = Block.mstart m + length w /\ Block.mend m <= length s /\
    slice s (Block.mstart m) (Block.mend m) = w.
Proof.
  intros W H. destruct (rmatch_unpack r s pos m W H) as (z & z' & w & pre & rest & E & L & HM & Hadv & I & A & B & D).
  exists z, z', w, pre, rest. rewrite A. split; [exact E|]. split; [exact L|]. split; [exact I|]. split; [exact HM|]. split; [exact Hadv|].
  split; [reflexivity|]. split; [exact B|]. split; [exact D|].
  rewrite B, <- L. rewrite E at 1. apply slice_app_mid.
Qed.

Lemma rmatch_avoid r s pos m : wf r = true -> avoids U keep r = true -> rmatch C r s pos = Some m ->
  mu (slice s (Block.mstart m) (Block.mend m)) = 0.
Proof.
  intros W A H. destruct (rmatch_text r s pos m W H) as (z & z' & w & pre & rest & E & L & I & HM & Hadv & _ & _ & _ & Es).
  destruct (avoids_sound U keep r A _ _ _ _ HM) as (w0 & A0 & F0). rewrite Es, (adv_unique _ _ _ _ Hadv A0).
  apply mu_P0. apply proj_none. exact F0.
Qed.

Lemma rmatch_cov g gp r s pos m : wf r = true -> cov U keep g gp r = true -> rmatch C r s pos = Some m ->
  exists p t q, slice s (Block.mstart m) (Block.mend m) = p ++ t ++ q /\ P p = [] /\ P q = [] /\ Block.group_n s m g = t /\
    (cap_get (snd m) g <> None -> exists r1 zt ct zt' ct', gp r1 = true /\ wf r1 = true /\ M U r1 zt ct zt' ct' /\ adv zt zt' t).
Proof.
  intros W Hc H. destruct (rmatch_text r s pos m W H) as (z & z' & w & pre & rest & E & L & I & HM & Hadv & _ & _ & _ & Es).
  pose proof (cov_sound U keep g gp r W Hc _ _ _ _ _ HM Hadv) as Hcov. rewrite Es, group_n_gtext.
  apply (covered_text g gp s pre z (snd m) w rest E); [lia|exact Hcov].
Qed.

(* Pattern.search *)
Lemma rsearch_text r s pos m : wf r = true -> rsearch C r s pos = Some m ->
  exists z z' w, M U r z [] z' (snd m) /\ adv z z' w /\ slice s (Block.mstart m) (Block.mend m) = w.
Proof.
  intros W H. unfold rsearch, re_search in H. fold U in H. rewrite Nat.min_id in H.
  destruct (Nat.ltb_spec (length s) (Nat.min pos (length s))) as [|Hle]; [discriminate|].
  assert (Hz : zof s (zip_at s (Nat.min pos (length s)) (length s))) by (apply zof_zip_at; lia).
  revert Hz H. generalize (length (z_rest (zip_at s (Nat.min pos (length s)) (length s)))). generalize (zip_at s (Nat.min pos (length s)) (length s)).
  intros z0 n. revert z0. induction n as [|f IH]; intros z Hz H; cbn [search_from] in H.
  - destruct (match_at U r z) as [mx|] eqn:Em; [|discriminate]. inversion H; subst mx.
    destruct (match_at_unpack r _ _ _ W Hz Em) as (z' & w & E & L & HM & Hadv & A & B). exists z, z', w. split; [exact HM|]. split; [exact Hadv|].
    rewrite A, B, <- L. rewrite E at 1. apply slice_app_mid.
  - destruct (match_at U r z) as [mx|] eqn:Em.
    + inversion H; subst mx. destruct (match_at_unpack r _ _ _ W Hz Em) as (z' & w & E & L & HM & Hadv & A & B). exists z, z', w. split; [exact HM|]. split; [exact Hadv|].
      rewrite A, B, <- L. rewrite E at 1. apply slice_app_mid.
    + destruct (zstep z) as [[ch z1]|] eqn:Es; [|discriminate]. apply (IH z1); [|exact H]. exact (zof_adv _ _ _ _ Hz (zstep_adv _ _ _ Es)).
Qed.

Lemma rsearch_avoid r s pos m : wf r = true -> avoids U keep r = true -> rsearch C r s pos = Some m ->
  mu (slice s (Block.mstart m) (Block.mend m)) = 0.
Proof.
  intros W A H. destruct (rsearch_text r s pos m W H) as (z & z' & w & HM & Hadv & Es).
  destruct (avoids_sound U keep r A _ _ _ _ HM) as (w0 & A0 & F0). rewrite Es, (adv_unique _ _ _ _ Hadv A0).
  apply mu_P0. apply proj_none. exact F0.
Qed.

(* ---------- the reference table ---------- *)
Definition ref_w (label : str) (title : option str) (h : str) : nat :=
  mu h + mu label + match title with Some t => mu t | None => 0 end.

(* RW rf n: n is the weight of the table, the destination of every entry counted by a pre-image under escape_url *)
Inductive RW : refs -> nat -> Prop :=
| RW_nil : RW [] 0
| RW_snoc rf n key url label title h : RW rf n -> b_escape_url C h = Some url -> RW (rf ++ [(key, (url, label, title))]) (n + ref_w label title h).

(* the books of one step: t / rf before, t2 / rf2 after, k = weight of the consumed text.
   d is what was discarded; it is 0 unless a reference definition was dropped as a duplicate (then the table is not empty) *)
Definition bal (t : nat) (rf : refs) (t2 : nat) (rf2 : refs) (k : nat) : Prop :=
  forall n, RW rf n -> exists n2 d, RW rf2 n2 /\ t2 + n2 + d = t + n + k /\ (rf2 = [] -> d = 0 /\ rf = []).

Lemma bal_same t rf t2 k : t2 = t + k -> bal t rf t2 rf k.
Proof. intros -> n Hn. exists n, 0. split; [exact Hn|]. split; [lia|]. intros ->. split; reflexivity. Qed.

Lemma bal_eq t rf t2 rf2 k t' t2' k' : bal t rf t2 rf2 k -> t2' + t + k = t2 + t' + k' -> bal t' rf t2' rf2 k'.
Proof. intros H E n Hn. destruct (H n Hn) as (n2 & d & R & Eq & Z). exists n2, d. split; [exact R|]. split; [lia|exact Z]. Qed.

Lemma bal_trans t rf t1 rf1 t2 rf2 k1 k2 : bal t rf t1 rf1 k1 -> bal t1 rf1 t2 rf2 k2 -> bal t rf t2 rf2 (k1 + k2).
Proof.
  intros H1 H2 n Hn. destruct (H1 n Hn) as (n1 & d1 & R1 & E1 & Z1). destruct (H2 n1 R1) as (n2 & d2 & R2 & E2 & Z2).
  exists n2, (d1 + d2). split; [exact R2|]. split; [lia|]. intros Hrf. destruct (Z2 Hrf) as [-> Hrf1]. destruct (Z1 Hrf1) as [-> Hrf0]. split; [reflexivity|exact Hrf0].
Qed.

(* what a handler must guarantee *)
Definition cres (st : bstate) (rf : refs) (b : bres) : Prop :=
  let '(st2, rf2, np) := b in
  match Block.truthy np with
  | None => st2 = st /\ rf2 = rf
  | Some p => bal (tws (s_tokens st)) rf (tws (s_tokens st2)) rf2 (span st p)
  end.
Definition cspec (h : bhandler) : Prop := forall rk m st rf b, mok C rk m st -> h rk m st rf = Ok b -> cres st rf b.

Lemma cres_none st rf : cres st rf (st, rf, None).
Proof. cbn. split; reflexivity. Qed.

Lemma cres_some st rf st2 p : 0 < p -> tws (s_tokens st2) = tws (s_tokens st) + span st p -> cres st rf (st2, rf, Some p).
Proof. intros Hp H. unfold cres. destruct p; [lia|]. cbn [Block.truthy]. apply bal_same. exact H. Qed.

Lemma cres_append_paragraph st st' pos rf : s_cursor st < cursor_max st -> append_paragraph C st = Some (st', pos) -> cres st rf (st', rf, Some pos).
Proof.
  intros Hc Ea. destruct (append_paragraph_spec C _ _ _ Ea) as (_ & _ & Hpos). destruct (fle_gt C OK st Hc) as [L1 _].
  apply cres_some; [lia|]. exact (tws_append_paragraph _ _ _ Ea).
Qed.

(* ---------- fenced code ---------- *)
Lemma fence_end_avoids c n : memc c keep = false -> avoids U keep (fence_end_rx c n) = true.
Proof. intros Hc. cbn. rewrite Hc, (ck_sp CK), (ck_tab CK), (ck_nl CK). reflexivity. Qed.

Lemma mok_marker_clean m st : mok C RFenced m st -> memc (hd 0%Z (Block.group_n (s_src st) m 2)) keep = false.
Proof.
  intros Hm. destruct (mok_unpack _ _ _ Hm) as (r & z & z' & w & Hr & W & Hz & Hz' & HM & Hadv & _ & _ & _ & Es & Hl & Eg).
  unfold Block.group_n. destruct (cap_get (snd m) 2) as [[a b]|] eqn:Ec; [|exact (ck_zero CK)].
  apply cap_get_In in Ec. destruct (gav_sound U keep 2 r W (ck_fence_marker CK r Hr) _ _ _ _ (proj2 Hz) HM _ Ec) as [[]|Hcl].
  specialize (Hcl eq_refl). cbn [fst snd] in Hcl. rewrite (proj1 Hz) in Hcl. unfold slice.
  destruct (firstn (b - a) (skipn a (s_src st))) as [|c l]; [exact (ck_zero CK)|]. cbn [hd]. rewrite proj_cons in Hcl.
  destruct (memc c keep); [discriminate|reflexivity].
Qed.

Lemma mu_indent_trim n s : mu (sub_del C (indent_trim n) s) = mu s.
Proof. apply mu_sub_del. split; [reflexivity|]. cbn. rewrite (ck_sp CK). reflexivity. Qed.

Lemma handle_fenced_cons m st rf b : mok C RFenced m st -> handle_fenced C m st rf = b -> cres st rf b.
Proof.
  intros Hm H. pose proof Hm as (M1 & M2 & M3 & _). unfold cursor_max in *. unfold handle_fenced in H. cbv zeta in H.
  destruct (_ && memc 96%Z _); [subst b; apply cres_none|].
  pose proof (mok_mu_group 3 RFenced m st (fun r Hr => proj1 (ck_fenced CK r Hr)) Hm) as G3.
  pose proof (mok_eol RFenced m st (fun r Hr => proj2 (ck_fenced CK r Hr)) Hm) as Ge.
  pose proof (mok_span _ _ _ Hm) as Gs. pose proof (mok_marker_clean m st Hm) as Gc.
  set (info := Block.group_n (s_src st) m 3) in *. set (cs := Block.mend m + 1) in *.
  assert (Hinf : match (match info with [] => None | _ => Some (strip_ws C (unescape_char C info)) end) with Some i => mu i | None => 0 end = mu info).
  { destruct info; [reflexivity|]. rewrite mu_strip_ws, mu_unescape_char. reflexivity. }
  assert (Hcode : forall code, mu (if negb (Nat.eqb (length (Block.group_n (s_src st) m 1)) 0) && negb (Nat.eqb (length code) 0)
                                  then sub_del C (indent_trim (length (Block.group_n (s_src st) m 1))) code else code) = mu code).
  { intros code. destruct (_ && _); [apply mu_indent_trim|reflexivity]. }
  destruct (rsearch C (fence_end_rx _ _) (s_src st) cs) as [m2|] eqn:E.
  - pose proof (rsearch_avoid _ _ _ _ (wf_fence_end _ _) (fence_end_avoids _ _ Gc) E) as G2.
    apply (rsearch_spec C _ _ _ _ (wf_fence_end _ _)) in E. destruct E as (A & B & Cc). subst b.
    apply cres_some; [lia|]. rewrite tws_append. cbn [tw]. rewrite Hcode, Hinf.
    destruct (Nat.le_gt_cases cs (length (s_src st))) as [Hle|Hgt].
    + rewrite (span_split st (Block.mend m) (Block.mend m2)) by lia. rewrite Gs, G3.
      rewrite (mu_slice_split (s_src st) (Block.mend m) cs (Block.mend m2)) by lia. fold cs in Ge. rewrite Ge.
      rewrite (mu_slice_split (s_src st) cs (Block.mstart m2) (Block.mend m2)) by lia. rewrite G2. lia.
    + assert (Block.mend m = length (s_src st)) by lia. assert (Block.mend m2 = length (s_src st)) by lia.
      rewrite (slice_nil_ge (s_src st) cs (Block.mstart m2)) by lia. rewrite mu_nil. replace (span st (Block.mend m2)) with (span st (Block.mend m)) by (f_equal; lia). rewrite Gs, G3. lia.
  - subst b. unfold cursor_max. apply cres_some; [lia|]. rewrite tws_append. cbn [tw]. rewrite Hcode, Hinf. 
    destruct (Nat.le_gt_cases cs (length (s_src st))) as [Hle|Hgt].
    + rewrite (span_split st (Block.mend m) (length (s_src st))) by lia. rewrite Gs, G3.
      rewrite (mu_slice_split (s_src st) (Block.mend m) cs (length (s_src st))) by lia. fold cs in Ge. rewrite Ge. lia.
    + assert (Block.mend m = length (s_src st)) by lia. rewrite (slice_nil_ge (s_src st) cs (length (s_src st))) by lia. rewrite mu_nil.
      replace (span st (length (s_src st))) with (span st (Block.mend m)) by (f_equal; lia). rewrite Gs, G3. lia.
Qed.

(* ---------- HTML blocks ---------- *)
Lemma span_all st : span st (cursor_max st) = mu (slice (s_src st) (s_cursor st) (cursor_max st)).
Proof. reflexivity. Qed.

Lemma html_to_end_cons st em sp st' e rf : s_cursor st < cursor_max st -> s_cursor st < sp -> html_to_end C st em sp = (st', e) ->
  cres st rf (st', rf, Some e).
Proof.
  intros Hc Hsp H. destruct (html_to_end_spec C OK _ _ _ _ _ Hc Hsp H) as [_ Hlt].
  unfold html_to_end in H. destruct (find (s_src st) em sp) as [mp|] eqn:Ef.
  - inversion H; subst; clear H. apply cres_some; [lia|]. rewrite tws_append. cbn [tw s_tokens set_cursor]. apply find_ge in Ef.
    pose proof (fle_ge_min C OK (set_cursor st mp)) as L. pose proof (fle_le C OK (set_cursor st mp)) as L2.
    unfold cursor_max in *. cbn [set_cursor s_cursor s_src] in L, L2.
    set (e := find_line_end C (set_cursor st mp)) in *. rewrite mu_app. unfold get_text. cbn [set_cursor s_src s_cursor].
    destruct (Nat.le_gt_cases mp (length (s_src st))) as [Hle|Hgt].
    + rewrite (span_split st mp e) by lia. reflexivity.
    + (* the end marker cannot lie beyond the text; if it did, both slices would be clamped *)
      unfold span. rewrite (slice_to_end (s_src st) (s_cursor st) mp) by lia. rewrite (slice_nil_ge (s_src st) mp e) by lia.
      rewrite mu_nil. assert (He : e = length (s_src st)) by lia. rewrite He. rewrite (slice_to_end (s_src st) (s_cursor st) (length (s_src st))) by lia. lia.
  - inversion H; subst. apply cres_some; [lia|]. rewrite tws_append. reflexivity.
Qed.

Lemma html_to_newline_cons st st' e rf : s_cursor st < e -> html_to_newline C st = (st', e) -> cres st rf (st', rf, Some e).
Proof.
  intros Hlt H. unfold html_to_newline in H. destruct (rsearch C (b_blank_line C) (s_src st) (s_cursor st)) as [mb|].
  - inversion H; subst. apply cres_some; [lia|]. rewrite tws_append. reflexivity.
  - inversion H; subst. apply cres_some; [lia|]. rewrite tws_append. reflexivity.
Qed.

Lemma handle_html_cons rk m st rf b : rk = RRawHtml \/ rk = RBlockHtml -> mok C rk m st -> handle_html C m st rf = b -> cres st rf b.
Proof.
  intros Hk Hm H. pose proof Hm as (M1 & M2 & M3 & M4). destruct M4 as (r & z & Hro & W & Hz & Hi & Hmm). pose proof (rule_of_html C OK rk r Hro Hk) as Hh.
  assert (Hc : s_cursor st < cursor_max st) by lia.
  assert (Hend : forall em st' e, html_to_end C st em (Block.mend m) = (st', e) -> cres st rf (st', rf, Some e)).
  { intros em st' e He. exact (html_to_end_cons _ _ _ _ _ rf Hc M2 He). }
  assert (Hnl : forall st' e, html_to_newline C st = (st', e) -> cres st rf (st', rf, Some e)).
  { intros st' e He. destruct (html_to_newline_spec C OK _ _ _ _ _ _ Hc Hh W Hz Hi Hmm He) as [_ S2]. exact (html_to_newline_cons _ _ _ rf S2 He). }
  unfold handle_html in H. cbv zeta in H.
  destruct (str_eqb _ [60; 33; 45; 45]%Z).
  { destruct (html_to_end C st _ _) as [st' e] eqn:He in H. subst b. exact (Hend _ _ _ He). }
  destruct (str_eqb _ [60; 63]%Z).
  { destruct (html_to_end C st _ _) as [st' e] eqn:He in H. subst b. exact (Hend _ _ _ He). }
  destruct (str_eqb _ [60; 33; 91; 67; 68; 65; 84; 65; 91]%Z).
  { destruct (html_to_end C st _ _) as [st' e] eqn:He in H. subst b. exact (Hend _ _ _ He). }
  destruct (prefixb [60; 33]%Z _).
  { destruct (html_to_end C st _ _) as [st' e] eqn:He in H. subst b. exact (Hend _ _ _ He). }
  destruct (_ && mem_str _ (b_block_tags C)).
  { destruct (html_to_newline C st) as [st' e] eqn:He in H. subst b. exact (Hnl _ _ He). }
  destruct (_ && mem_str _ (b_pre_tags C)).
  { destruct (html_to_end C st _ _) as [st' e] eqn:He in H. subst b. exact (Hend _ _ _ He). }
  destruct (_ && mem_str _ (b_block_tags C)).
  { destruct (html_to_newline C st) as [st' e] eqn:He in H. subst b. exact (Hnl _ _ He). }
  destruct (append_paragraph C st) as [[st' pos]|] eqn:Ea.
  { subst b. exact (cres_append_paragraph _ _ _ rf Hc Ea). }
  destruct (_ && _).
  { destruct (html_to_newline C st) as [st' e] eqn:He in H. subst b. exact (Hnl _ _ He). }
  subst b. apply cres_none.
Qed.

(* ---------- link reference definitions ---------- *)
Lemma P_nil_In l a : P l = [] -> In a l -> memc a keep = false.
Proof.
  induction l as [|c l IH]; intros Hp Hin; [contradiction|]. rewrite proj_cons in Hp. destruct (memc c keep) eqn:E; [discriminate|].
  destruct Hin as [->|Hin]; [exact E|]. apply IH; [exact Hp|exact Hin].
Qed.

Lemma last_In (l : list Z) d : l <> [] -> In (last l d) l.
Proof.
  induction l as [|c l IH]; intros Hn; [contradiction|]. destruct l as [|c2 l]; [left; reflexivity|]. right. apply IH. discriminate.
Qed.

Lemma last_app_ne (a b : list Z) d : b <> [] -> last (a ++ b) d = last b d.
Proof.
  intros Hb. induction a as [|c a IH]; [reflexivity|]. cbn [app]. destruct (a ++ b) eqn:E; [destruct a; [contradiction|discriminate]|]. exact IH.
Qed.

Lemma nth_last (pre w rest : list Z) d : w <> [] -> nth_error (pre ++ w ++ rest) (length pre + length w - 1) = Some (last w d).
Proof.
  intros Hw. rewrite nth_error_app2 by (destruct w; [contradiction|cbn; lia]).
  replace (length pre + length w - 1 - length pre) with (length w - 1) by lia.
  rewrite nth_error_app1 by (destruct w; [contradiction|cbn; lia]).
  clear pre rest. induction w as [|c w IH]; [contradiction|]. destruct w as [|c2 w]; [reflexivity|].
  cbn [length]. replace (S (S (length w)) - 1) with (S (length (c2 :: w) - 1)) by (cbn; lia). cbn [nth_error]. apply IH. discriminate.
Qed.

Lemma len_removelast (w : list Z) : w <> [] -> length (removelast w) = length w - 1.
Proof.
  induction w as [|c w IH]; intros Hw; [contradiction|]. destruct w as [|c2 w]; [reflexivity|].
  cbn [removelast length] in *. rewrite IH by discriminate. lia.
Qed.

Lemma mu_prefix_zero (s : str) a b c : a <= b -> b <= c -> mu (slice s a c) = 0 -> mu (slice s a b) = 0.
Proof. intros H1 H2 H. rewrite (mu_slice_split s a b c H1 H2) in H. lia. Qed.

Lemma parse_link_href_block_cons src sp h e : sp <= length src -> parse_link_href_block C src sp = Some (h, e) ->
  sp <= e /\ e <= length src /\ mu (slice src sp e) = mu h.
Proof.
  intros Hsp H. pose proof (parse_link_href_block_pos C OK _ _ _ _ H) as Hpos. replace (Nat.min sp (length src)) with sp in Hpos by lia.
  unfold parse_link_href_block in H. destruct (rmatch C (b_bracket_start C) src sp) as [mb|] eqn:Eb.
  - pose proof (bk_bstart C OK) as Sb. destruct (rmatch_spec C _ _ _ _ (solid_wf _ Sb) Eb) as (A & B & Cc & D). specialize (D (solid_nn _ Sb)).
    replace (Nat.min sp (length src)) with sp in * by lia.
    pose proof (rmatch_avoid _ _ _ _ (solid_wf _ Sb) (ck_bstart CK) Eb) as G0. rewrite A in G0.
    destruct (rmatch C (b_bracket C) src (Block.mend mb - 1)) as [m2|] eqn:E2; [|discriminate]. inversion H; subst h e; clear H.
    destruct (rmatch_spec C _ _ _ _ (bk_bracket C OK) E2) as (A2 & B2 & C2 & _). replace (Nat.min (Block.mend mb - 1) (length src)) with (Block.mend mb - 1) in * by lia.
    destruct (rmatch_cov 1 anyb _ _ _ _ (bk_bracket C OK) (ck_bracket CK) E2) as (p & t & q & Es & Pp & Pq & Eg & _).
    split; [lia|]. split; [exact C2|]. rewrite (mu_slice_split src sp (Block.mend mb - 1) (Block.mend m2)) by lia.
    rewrite (mu_prefix_zero src sp (Block.mend mb - 1) (Block.mend mb)) by (try lia; exact G0).
    rewrite <- A2, Es, Eg. rewrite (mu3 p t q Pp Pq). lia.
  - destruct (rmatch C (b_href_block C) src sp) as [mh|] eqn:Eh; [|discriminate].
    pose proof (bk_href C OK) as Sh. destruct (rmatch_spec C _ _ _ _ (solid_wf _ Sh) Eh) as (A & B & Cc & D). specialize (D (solid_nn _ Sh)).
    replace (Nat.min sp (length src)) with sp in * by lia.
    destruct (rmatch_text _ _ _ _ (solid_wf _ Sh) Eh) as (z & z' & w & pre & rest & E & L & I & HM & Hadv & _ & Bw & _ & Esl).
    destruct (rmatch_cov 1 anyb _ _ _ _ (solid_wf _ Sh) (ck_href CK) Eh) as (p & t & q & Es & Pp & Pq & Eg & _).
    rewrite A in *. rewrite Esl in Es.
    assert (Hw : w <> []) by (intros ->; cbn in Bw; lia).
    destruct (match nth_error src (Block.mend mh - 1) with Some a => _ | None => false end) eqn:Ec; inversion H; subst h e; clear H.
    + split; [lia|]. split; [exact Cc|]. rewrite Esl, Es, Eg. apply mu3; assumption.
    + split; [lia|]. split; [lia|].
      assert (Hlast : mu (slice src (Block.mend mh - 1) (Block.mend mh)) = 0).
      { rewrite Bw in *. rewrite <- L in Ec |- *.
        assert (Hn : nth_error src (length pre + length w - 1) = Some (last w 0%Z)) by (rewrite E at 1; apply nth_last; exact Hw).
        rewrite Hn in Ec.
        assert (Hk : memc (last w 0%Z) keep = false).
        { rewrite Es in *. destruct q as [|cq q'].
          - rewrite app_nil_r in *. destruct t as [|ct t'].
            + rewrite app_nil_r in *. apply (P_nil_In p); [exact Pp|]. apply last_In. exact Hw.
            + rewrite (last_app_ne p (ct :: t') 0%Z) in Ec by discriminate. rewrite Eg in Ec. rewrite Z.eqb_refl in Ec. discriminate.
          - rewrite app_assoc. rewrite (last_app_ne (p ++ t) (cq :: q') 0%Z) by discriminate. apply (P_nil_In (cq :: q')); [exact Pq|]. apply last_In. discriminate. }
        unfold slice. replace (length pre + length w - (length pre + length w - 1)) with 1 by (destruct w; [contradiction|cbn; lia]).
        rewrite E. replace (pre ++ w ++ rest) with ((pre ++ removelast w) ++ [last w 0%Z] ++ rest).
        2:{ rewrite (app_removelast_last 0%Z Hw) at 3. rewrite <- !app_assoc. reflexivity. }
        rewrite skipn_app. rewrite skipn_all2.
        2:{ rewrite app_length, (len_removelast w Hw). lia. }
        cbn [app]. replace (length pre + length w - 1 - length (pre ++ removelast w)) with 0.
        2:{ rewrite app_length, (len_removelast w Hw). destruct w; [contradiction|cbn; lia]. }
        cbn. apply mu_single. exact Hk. }
      pose proof (mu_slice_split src sp (Block.mend mh - 1) (Block.mend mh) ltac:(lia) ltac:(lia)) as Hs.
      rewrite Esl in Hs. rewrite Es, (mu3 p t q Pp Pq) in Hs. rewrite Eg. lia.
Qed.

Lemma parse_link_title_cons src sp mx ti tp : sp <= length src -> Block.parse_link_title C src sp mx = Some (ti, tp) ->
  sp <= tp /\ tp <= length src /\ mu (slice src sp tp) = mu ti.
Proof.
  intros Hsp H. unfold Block.parse_link_title in H. replace (Nat.min sp (length src)) with sp in H by lia.
  destruct (re_match (b_uni C) (b_title C) src sp mx) as [mt|] eqn:E; [|discriminate]. inversion H; subst ti tp; clear H.
  destruct (re_match_unpack _ _ _ _ _ (bk_title C OK) E) as (z & z' & w & pre & rest & Es & L & I & HM & Hadv & A & B & D).
  pose proof (cov_sound U keep 1 (quoted keep) _ (bk_title C OK) (ck_title CK) _ _ _ _ _ HM Hadv) as Hcov.
  destruct (covered_text 1 (quoted keep) src pre z (snd mt) w rest Es ltac:(lia) Hcov) as (p & t & q & Ew & Pp & Pq & Eg & Hb).
  split; [lia|]. split; [lia|]. rewrite mu_unescape_char, group_n_gtext, Eg.
  rewrite B, <- L. rewrite Es at 1. rewrite slice_app_mid, Ew, (mu3 p t q Pp Pq).
  destruct (cap_get (snd mt) 1) as [ab|] eqn:Ec.
  - destruct (Hb ltac:(discriminate)) as (r1 & zt & ct & zt' & ct' & Q & W1 & M1 & A1).
    destruct (quoted_sound U keep anyb r1 Q _ _ _ _ _ M1 A1) as [Hl Hq]. apply mu_P. unfold slice.
    replace (length t - 1 - 1) with (length t - 2) by lia. symmetry. exact Hq.
  - unfold gtext in Eg. rewrite Ec in Eg. subst t. reflexivity.
Qed.

Lemma handle_ref_link_cons m st rf b : mok C RRefLink m st -> handle_ref_link C m st rf = Ok b -> cres st rf b.
Proof.
  intros Hm H. pose proof Hm as (M1 & M2 & M3 & _). unfold cursor_max in *. assert (Hc : s_cursor st < cursor_max st) by (unfold cursor_max; lia).
  unfold handle_ref_link in H.
  destruct (append_paragraph C st) as [[st' pos]|] eqn:Ea.
  { inversion H; subst b. exact (cres_append_paragraph _ _ _ rf Hc Ea). }
  pose proof (mok_mu_group 1 RRefLink m st (ck_ref CK) Hm) as G1. pose proof (mok_span _ _ _ Hm) as Gs.
  set (label := Block.group_n (s_src st) m 1) in *.
  destruct (b_unikey C label) as [|k0 key'] eqn:Ek; [inversion H; subst b; apply cres_none|]. set (key := k0 :: key') in *.
  destruct (parse_link_href_block C (s_src st) (Block.mend m)) as [[href hp]|] eqn:Eh; [|inversion H; subst b; apply cres_none].
  destruct (parse_link_href_block_cons _ _ _ _ M3 Eh) as (H1 & H2 & H3). cbv zeta in H.
  (* the books for an accepted or a dropped definition that ends at e and keeps title ti *)
  assert (Hfin : forall (ti : option str) e, Block.mend m <= e -> 0 < e ->
             mu (slice (s_src st) (Block.mend m) e) = mu href + match ti with Some t => mu t | None => 0 end ->
             forall b', (if assoc_refs key rf then Ok (st, rf, Some e)
                         else match b_escape_url C (unescape_char C href) with
                              | None => Exn
                              | Some url => Ok (st, rf ++ [(key, (url, label, match ti with Some ((_ :: _) as y) => Some y | _ => None end))], Some e)
                              end) = Ok b' -> cres st rf b').
  { intros ti e He1 He0 Hmu b' Hb. assert (Hk : span st e = mu label + mu href + match ti with Some t => mu t | None => 0 end).
    { rewrite (span_split st (Block.mend m) e) by lia. rewrite Gs, G1, Hmu. lia. }
    destruct (assoc_refs key rf) eqn:Eas.
    - inversion Hb; subst b'. unfold cres. destruct e; [lia|]. cbn [Block.truthy]. intros n Hn. exists n, (span st (S e)). split; [exact Hn|]. split; [lia|].
      intros ->. cbn in Eas. discriminate.
    - destruct (b_escape_url C (unescape_char C href)) as [url|] eqn:Eu; [|discriminate]. inversion Hb; subst b'. unfold cres. destruct e; [lia|]. cbn [Block.truthy].
      intros n Hn. eexists. exists 0. split; [apply (RW_snoc rf n key url label _ (unescape_char C href) Hn Eu)|]. split.
      + unfold ref_w. rewrite mu_unescape_char, Hk. destruct ti as [[|c t]|]; cbn [mu]; try rewrite mu_nil; lia.
      + intros Hnil. apply app_eq_nil in Hnil. destruct Hnil as [_ Hnil]. discriminate. }
  set (mxp := match rsearch C (b_blank_line C) (s_src st) hp with Some bm => Block.mstart bm | None => cursor_max st end) in H.
  destruct (Block.parse_link_title C (s_src st) hp mxp) as [[ti tp]|] eqn:Et.
  - destruct (parse_link_title_cons _ _ _ _ _ H2 Et) as (T1 & T2 & T3).
    destruct (rmatch C (b_blank_to_line C) (s_src st) tp) as [m2|] eqn:E2.
    + destruct (rmatch_spec C _ _ _ _ (bk_btl C OK) E2) as (A2 & B2 & C2 & _). replace (Nat.min tp (length (s_src st))) with tp in * by lia.
      pose proof (rmatch_avoid _ _ _ _ (bk_btl C OK) (ck_btl CK) E2) as G2. rewrite A2 in G2.
      cbn [Block.truthy] in H. destruct (Block.mend m2) as [|e'] eqn:Em2; [lia|]. cbn [Block.truthy] in H.
      apply (Hfin (Some ti) (S e')); [lia|lia| |exact H].
      rewrite (mu_slice_split (s_src st) (Block.mend m) hp (S e')) by lia. rewrite (mu_slice_split (s_src st) hp tp (S e')) by lia. lia.
    + cbn [Block.truthy] in H.
      destruct (rmatch C (b_blank_to_line C) (s_src st) hp) as [m3|] eqn:E3; [|inversion H; subst b; apply cres_none].
      destruct (rmatch_spec C _ _ _ _ (bk_btl C OK) E3) as (A3 & B3 & C3 & _). replace (Nat.min hp (length (s_src st))) with hp in * by lia.
      pose proof (rmatch_avoid _ _ _ _ (bk_btl C OK) (ck_btl CK) E3) as G3. rewrite A3 in G3.
      destruct (Block.mend m3) as [|e'] eqn:Em3; [lia|]. cbn [Block.truthy] in H.
      apply (Hfin None (S e')); [lia|lia| |exact H].
      rewrite (mu_slice_split (s_src st) (Block.mend m) hp (S e')) by lia. lia.
  - cbn [Block.truthy] in H.
    destruct (rmatch C (b_blank_to_line C) (s_src st) hp) as [m3|] eqn:E3; [|inversion H; subst b; apply cres_none].
    destruct (rmatch_spec C _ _ _ _ (bk_btl C OK) E3) as (A3 & B3 & C3 & _). replace (Nat.min hp (length (s_src st))) with hp in * by lia.
    pose proof (rmatch_avoid _ _ _ _ (bk_btl C OK) (ck_btl CK) E3) as G3. rewrite A3 in G3.
    destruct (Block.mend m3) as [|e'] eqn:Em3; [lia|]. cbn [Block.truthy] in H.
    apply (Hfin None (S e')); [lia|lia| |exact H].
    rewrite (mu_slice_split (s_src st) (Block.mend m) hp (S e')) by lia. lia.
Qed.

(* ---------- the scanner loop ---------- *)
Lemma slice_split_end (s : str) a b : a <= b -> slice s a (length s) = slice s a b ++ slice s b (length s).
Proof.
  intros H. destruct (Nat.le_gt_cases b (length s)) as [Hle|Hgt]; [apply slice_split; assumption|].
  rewrite (slice_to_end s a b) by lia. rewrite (slice_nil_ge s b (length s)) by lia. rewrite app_nil_r. apply slice_to_end. lia.
Qed.

Lemma mu_split_end (s : str) a b : a <= b -> mu (slice s a (length s)) = mu (slice s a b) + mu (slice s b (length s)).
Proof. intros H. rewrite (slice_split_end s a b H). apply mu_app. Qed.

Definition rest_w (st : bstate) : nat := mu (slice (s_src st) (s_cursor st) (cursor_max st)).

Lemma parse_loop_cons h : hspec C h -> hnofuel C h -> cspec h ->
  forall iters rules st rf st2 rf2, parse_loop C h iters rules st rf = Ok (st2, rf2) ->
    bal (tws (s_tokens st)) rf (tws (s_tokens st2)) rf2 (rest_w st).
Proof.
  intros Hs Hn Hc. induction iters as [|it IH]; intros rules st rf st2 rf2 H; cbn [parse_loop] in H.
  - destruct (Nat.leb_spec (cursor_max st) (s_cursor st)) as [Hle|Hlt]; [|discriminate]. inversion H; subst; clear H.
    destruct (Nat.ltb_spec (s_cursor st) (cursor_max st)); [lia|]. apply bal_same. unfold rest_w. rewrite slice_nil_ge by lia. rewrite mu_nil. lia.
  - destruct (Nat.leb_spec (cursor_max st) (s_cursor st)) as [Hle|Hlt].
    { inversion H; subst; clear H. destruct (Nat.ltb_spec (s_cursor st) (cursor_max st)); [lia|]. apply bal_same. unfold rest_w. rewrite slice_nil_ge by lia. rewrite mu_nil. lia. }
    destruct (bsearch C rules (s_src st) (s_cursor st)) as [[rk m]|] eqn:Eb.
    2:{ inversion H; subst; clear H. destruct (Nat.ltb_spec (s_cursor st) (cursor_max st)); [|lia]. apply bal_same.
        cbn [s_tokens set_cursor]. rewrite tws_add_paragraph. reflexivity. }
    set (st1 := if Nat.ltb (s_cursor st) (Block.mstart m) then set_cursor (add_paragraph st (get_text st (Block.mstart m))) (Block.mstart m) else st) in *.
    assert (Hp : s_cursor st <= length (s_src st)) by (unfold cursor_max in *; lia).
    assert (Hst1 : s_src st1 = s_src st /\ s_cursor st1 = Block.mstart m /\ s_cursor st <= Block.mstart m /\
                   tws (s_tokens st1) = tws (s_tokens st) + mu (slice (s_src st) (s_cursor st) (Block.mstart m))).
    { destruct (bsearch_spec C OK _ _ _ _ _ Hp Eb (set_cursor st (Block.mstart m)) eq_refl eq_refl) as [L _].
      unfold st1. destruct (Nat.ltb_spec (s_cursor st) (Block.mstart m)); cbn [s_src s_cursor s_tokens set_cursor].
      - split; [apply add_paragraph_src|]. split; [reflexivity|]. split; [lia|]. rewrite tws_add_paragraph. reflexivity.
      - split; [reflexivity|]. split; [lia|]. split; [lia|]. rewrite slice_nil_ge by lia. rewrite mu_nil. lia. }
    destruct Hst1 as (S1 & S2 & S3 & S4).
    destruct (bsearch_spec C OK _ _ _ _ _ Hp Eb st1 S1 S2) as [_ Hm]. pose proof Hm as (Q1 & Q2 & Q3 & _).
    unfold bind in H. destruct (h rk m st1 rf) as [[[st3 rf3] np]| |] eqn:Eh; try discriminate.
    destruct (Hs _ _ _ _ _ _ _ Hm Eh) as (T1 & T2 & T3). pose proof (Hc _ _ _ _ _ Hm Eh) as Hcr. unfold cres in Hcr.
    unfold cursor_max in *. rewrite S1 in *.
    destruct (Block.truthy np) as [p|] eqn:Et.
    + specialize (T2 p eq_refl). specialize (IH _ _ _ _ _ H). unfold rest_w, cursor_max in IH. cbn [s_src s_cursor s_tokens set_cursor] in IH. rewrite T1 in IH.
      pose proof (bal_trans _ _ _ _ _ _ _ _ Hcr IH) as Hb. eapply bal_eq; [exact Hb|]. unfold rest_w, cursor_max, span. rewrite S1, S2.
      rewrite (mu_split_end (s_src st) (s_cursor st) (Block.mstart m)) by lia. rewrite (mu_split_end (s_src st) (Block.mstart m) p) by lia. lia.
    + destruct Hcr as [-> ->]. clear T3 T2.
      assert (Hc2 : s_cursor st1 < cursor_max st1) by (unfold cursor_max; rewrite S1; lia).
      destruct (fle_gt C OK st1 Hc2) as [L1 L2]. unfold cursor_max in L2. rewrite S1 in L2.
      specialize (IH _ _ _ _ _ H). unfold rest_w, cursor_max in IH. cbn [s_src s_cursor s_tokens set_cursor] in IH.
      rewrite (proj1 (add_paragraph_src st1 _)), tws_add_paragraph, S1 in IH. unfold get_text in IH. rewrite S1, S2 in IH.
      eapply bal_eq; [exact IH|]. unfold rest_w, cursor_max.
      rewrite (mu_split_end (s_src st) (s_cursor st) (Block.mstart m)) by lia. rewrite (mu_split_end (s_src st) (Block.mstart m) (find_line_end C st1)) by lia. lia.
Qed.

Lemma parse_child_cons h st text rf ch rf2 : hspec C h -> hnofuel C h -> cspec h -> parse_child C h st text rf = Ok (ch, rf2) ->
  bal 0 rf (tws ch) rf2 (mu text).
Proof.
  intros Hs Hn Hc H. unfold parse_child, bind in H.
  destruct (parse_loop C h (S (length text)) (nested_rules C st) (child_state st text) rf) as [[c2 rf3]| |] eqn:E; try discriminate.
  inversion H; subst. pose proof (parse_loop_cons h Hs Hn Hc _ _ _ _ _ _ E) as Hb.
  unfold rest_w, cursor_max in Hb. cbn [child_state s_src s_cursor s_tokens] in Hb. eapply bal_eq; [exact Hb|].
  unfold slice. rewrite Nat.sub_0_r. cbn [skipn]. rewrite firstn_all. cbn. lia.
Qed.

(* ---------- block quotes ---------- *)
Lemma mu_quote_piece q : mu (quote_piece C q) = mu q.
Proof. unfold quote_piece. rewrite (mu_sub_del _ _ (ck_sub_quote_trim CK)), mu_expand_leading_tab. apply mu_sub_del. exact (ck_sub_quote_leading CK). Qed.

Definition endp (st2 : bstate) (e : option nat) : nat := match Block.truthy e with Some p => p | None => s_cursor st2 end.

(* the lazy-continuation loop: the collected text grows by what the cursor moved over *)
Definition qcons (st : bstate) (rf : refs) (text : str) (x : res (bstate * refs * str * option nat)) : Prop :=
  forall st2 rf2 t2 e, x = Ok (st2, rf2, t2, e) ->
    bal (tws (s_tokens st) + mu text) rf (tws (s_tokens st2) + mu t2) rf2 (mu (slice (s_src st) (s_cursor st) (endp st2 e))).

Lemma quote_lazy_loop_cons h : hspec C h -> hnofuel C h -> cspec h ->
  forall iters st rf text pb, cursor_max st - s_cursor st < iters -> qcons st rf text (quote_lazy_loop C h iters st rf text pb).
Proof.
  intros Hs Hn Hc. induction iters as [|it IH]; intros st rf text pb Hi; [lia|]. cbn [quote_lazy_loop].
  destruct (Nat.leb_spec (cursor_max st) (s_cursor st)).
  { intros st2 rf2 t2 e Heq. inversion Heq; subst. unfold endp. cbn [Block.truthy]. apply bal_same. rewrite slice_nil_ge by lia. rewrite mu_nil. lia. }
  assert (Hp : s_cursor st <= length (s_src st)) by (unfold cursor_max in *; lia).
  destruct (rmatch C (b_strict_quote C) (s_src st) (s_cursor st)) as [m3|] eqn:E3.
  - pose proof (bk_strict C OK) as S. destruct (rmatch_spec C _ _ _ _ (solid_wf _ S) E3) as (A & B & Cc & D). specialize (D (solid_nn _ S)).
    replace (Nat.min (s_cursor st) (length (s_src st))) with (s_cursor st) in * by lia.
    assert (Hi' : cursor_max (set_cursor st (Block.mend m3)) - s_cursor (set_cursor st (Block.mend m3)) < it) by (unfold cursor_max in *; cbn; lia).
    set (pb' := match strip_ws C (quote_piece C (group0 (s_src st) m3)) with [] => true | _ => _ end).
    pose proof (IH (set_cursor st (Block.mend m3)) rf (text ++ quote_piece C (group0 (s_src st) m3)) pb' Hi') as F.
    destruct (quote_lazy_loop_spec C OK h Hs Hn it (set_cursor st (Block.mend m3)) rf (text ++ quote_piece C (group0 (s_src st) m3)) pb' Hi') as [_ F2].
    intros st2 rf2 t2 e Heq. specialize (F _ _ _ _ Heq). destruct (F2 _ _ _ _ Heq) as (G1 & G2 & G3). cbn [s_src s_cursor s_tokens set_cursor] in F, G1, G2, G3.
    eapply bal_eq; [exact F|]. rewrite mu_app, mu_quote_piece. unfold group0. rewrite A.
    assert (Hle : Block.mend m3 <= endp st2 e) by (unfold endp; destruct (Block.truthy e) as [q|]; [specialize (G3 q eq_refl); lia|specialize (G2 eq_refl); lia]).
    rewrite (mu_slice_split (s_src st) (s_cursor st) (Block.mend m3) (endp st2 e)) by lia. lia.
  - destruct pb.
    { intros st2 rf2 t2 e Heq. inversion Heq; subst. unfold endp. cbn [Block.truthy]. apply bal_same. rewrite slice_nil_ge by lia. rewrite mu_nil. lia. }
    assert (Hlazy : qcons st rf text (quote_lazy_loop C h it (set_cursor st (find_line_end C st)) rf (text ++ expand_leading_tab C (get_text st (find_line_end C st)) 3) false)).
    { assert (Hc' : s_cursor st < cursor_max st) by lia. destruct (fle_gt C OK st Hc') as [L1 L2].
      assert (Hi' : cursor_max (set_cursor st (find_line_end C st)) - s_cursor (set_cursor st (find_line_end C st)) < it) by (unfold cursor_max in *; cbn; lia).
      pose proof (IH _ rf (text ++ expand_leading_tab C (get_text st (find_line_end C st)) 3) false Hi') as F.
      destruct (quote_lazy_loop_spec C OK h Hs Hn it _ rf (text ++ expand_leading_tab C (get_text st (find_line_end C st)) 3) false Hi') as [_ F2].
      intros st2 rf2 t2 e Heq. specialize (F _ _ _ _ Heq). destruct (F2 _ _ _ _ Heq) as (G1 & G2 & G3). cbn [s_src s_cursor s_tokens set_cursor] in F, G1, G2, G3.
      eapply bal_eq; [exact F|]. rewrite mu_app, mu_expand_leading_tab. unfold get_text.
      assert (Hle : find_line_end C st <= endp st2 e) by (unfold endp; destruct (Block.truthy e) as [q|]; [specialize (G3 q eq_refl); lia|specialize (G2 eq_refl); lia]).
      rewrite (mu_slice_split (s_src st) (s_cursor st) (find_line_end C st) (endp st2 e)) by lia. lia. }
    destruct (bmatch_rules C (named C QUOTE_BREAKS) (s_src st) (s_cursor st)) as [[rk m4]|] eqn:Eb.
    + destruct (bmatch_rules_spec C _ _ _ _ _ (named_solid C OK _) Hp Eb) as (r & Hin & Hm & A & B & Cc).
      assert (Hmok : mok C rk m4 st).
      { apply (mok_of_bmatch C (named C QUOTE_BREAKS) st rk m4 r (named_solid C OK _) Hp Hin Hm A B Cc).
        right; left. exact (named_in C _ _ _ Hin). }
      unfold bind. destruct (h rk m4 st rf) as [[[st2 rf2] np]| |] eqn:Eh; [|intros ? ? ? ? Heq; discriminate|intros ? ? ? ? Heq; discriminate].
      pose proof (Hc _ _ _ _ _ Hmok Eh) as Hcr. unfold cres in Hcr.
      destruct (Block.truthy np) as [q|] eqn:Et.
      * intros st3 rf3 t3 e Heq. inversion Heq; subst. unfold endp. destruct (btruthy_some _ _ Et) as [_ Hq]. destruct q; [lia|]. cbn [Block.truthy].
        eapply bal_eq; [exact Hcr|]. unfold span. lia.
      * destruct Hcr as [-> ->]. exact Hlazy.
    + exact Hlazy.
Qed.

Lemma extract_block_quote_cons h m st rf st2 rf2 t2 e : hspec C h -> hnofuel C h -> cspec h -> mok C RQuote m st ->
  extract_block_quote C h m st rf = Ok (st2, rf2, t2, e) ->
  bal (tws (s_tokens st)) rf (tws (s_tokens st2) + mu t2) rf2 (span st (endp st2 e)) /\ s_cursor st < endp st2 e.
Proof.
  intros Hs Hn Hc Hm H. pose proof Hm as (M1 & M2 & M3 & _).
  destruct (extract_block_quote_spec C OK h m st rf Hs Hn M2 M3) as [_ F2]. destruct (F2 _ _ _ _ H) as (G1 & G2 & G3).
  assert (Hlt : s_cursor st < endp st2 e) by (unfold endp; destruct (Block.truthy e) as [q|]; [exact (G3 q eq_refl)|exact (G2 eq_refl)]).
  split; [|exact Hlt].
  pose proof (mok_mu_group 1 RQuote m st (fun r Hr => proj1 (ck_quote CK r Hr)) Hm) as Gg.
  pose proof (mok_eol RQuote m st (fun r Hr => proj2 (ck_quote CK r Hr)) Hm) as Ge. pose proof (mok_span _ _ _ Hm) as Gs.
  unfold cursor_max in *. unfold extract_block_quote in H. cbv zeta in H.
  set (text0 := sub_del C (b_quote_trim C) (expand_leading_tab C (Block.group_n (s_src st) m 1 ++ [10%Z]) 3)) in *.
  assert (Ht0 : mu text0 = mu (Block.group_n (s_src st) m 1)).
  { unfold text0. rewrite (mu_sub_del _ _ (ck_sub_quote_trim CK)), mu_expand_leading_tab, mu_app, (mu_single 10%Z (ck_nl CK)). lia. }
  destruct (match bmatch_rules C (named C [RBlankLine; RIndent; RFenced]) text0 0 with Some _ => true | None => false end).
  - destruct (rmatch C (b_strict_quote C) (s_src st) (s_cursor (set_cursor st (Block.mend m + 1)))) as [m2|] eqn:E2.
    + inversion H; subst; clear H. cbn [s_cursor set_cursor] in *. unfold endp in *. cbn [Block.truthy s_cursor set_cursor s_tokens] in *.
      pose proof (bk_strict C OK) as S. destruct (rmatch_spec C _ _ _ _ (solid_wf _ S) E2) as (A & B & Cc & D).
      apply bal_same. rewrite mu_expand_tab, mu_app, mu_quote_piece, Ht0. unfold group0. rewrite A.
      destruct (Nat.le_gt_cases (Block.mend m + 1) (length (s_src st))) as [Hle|Hgt].
      * replace (Nat.min (Block.mend m + 1) (length (s_src st))) with (Block.mend m + 1) in * by lia.
        rewrite (span_split st (Block.mend m) (Block.mend m2)) by lia. rewrite Gs, Gg.
        rewrite (mu_slice_split (s_src st) (Block.mend m) (Block.mend m + 1) (Block.mend m2)) by lia. rewrite Ge. lia.
      * replace (Nat.min (Block.mend m + 1) (length (s_src st))) with (length (s_src st)) in * by lia.
        assert (Block.mend m2 = Block.mend m) by lia. replace (span st (Block.mend m2)) with (span st (Block.mend m)) by (f_equal; lia).
        rewrite Gs, Gg. rewrite slice_nil_ge by lia. rewrite mu_nil. lia.
    + inversion H; subst; clear H. unfold endp in *. cbn [Block.truthy s_cursor set_cursor s_tokens] in *.
      apply bal_same. rewrite mu_expand_tab, Ht0. rewrite (span_split st (Block.mend m) (Block.mend m + 1)) by lia. rewrite Gs, Gg, Ge. lia.
  - unfold bind in H.
    assert (Hi : cursor_max (set_cursor st (Block.mend m + 1)) - s_cursor (set_cursor st (Block.mend m + 1)) < S (length (s_src st))) by (unfold cursor_max; cbn; lia).
    pose proof (quote_lazy_loop_cons h Hs Hn Hc (S (length (s_src st))) (set_cursor st (Block.mend m + 1)) rf text0 false Hi) as F.
    destruct (quote_lazy_loop_spec C OK h Hs Hn (S (length (s_src st))) (set_cursor st (Block.mend m + 1)) rf text0 false Hi) as [_ Q2].
    destruct (quote_lazy_loop C h (S (length (s_src st))) _ rf _ false) as [[[[st3 rf3] t3] e3]| |] eqn:El; try discriminate.
    inversion H; subst; clear H. specialize (F _ _ _ _ eq_refl). destruct (Q2 _ _ _ _ eq_refl) as (K1 & K2 & K3). cbn [s_src s_cursor s_tokens set_cursor] in F, K1, K2, K3.
    eapply bal_eq; [exact F|]. rewrite mu_expand_tab, Ht0.
    assert (Hle : Block.mend m + 1 <= endp st2 e) by (unfold endp; destruct (Block.truthy e) as [q|]; [specialize (K3 q eq_refl); lia|specialize (K2 eq_refl); lia]).
    rewrite (span_split st (Block.mend m) (endp st2 e)) by lia. rewrite Gs, Gg.
    rewrite (mu_slice_split (s_src st) (Block.mend m) (Block.mend m + 1) (endp st2 e)) by lia. rewrite Ge. lia.
Qed.

Lemma handle_quote_cons h m st rf b : hspec C h -> hnofuel C h -> cspec h -> mok C RQuote m st ->
  handle_quote C h m st rf = Ok b -> cres st rf b.
Proof.
  intros Hs Hn Hc Hm H. unfold handle_quote, bind in H.
  destruct (extract_block_quote C h m st rf) as [[[[st2 rf2] text] e]| |] eqn:Ee; try discriminate.
  destruct (extract_block_quote_cons h m st rf _ _ _ _ Hs Hn Hc Hm Ee) as [F Hlt].
  destruct (parse_child C h st2 text rf2) as [[ch rf3]| |] eqn:Ep; try discriminate.
  pose proof (parse_child_cons h _ _ _ _ _ Hs Hn Hc Ep) as G.
  assert (G' : bal (tws (s_tokens st2) + mu text) rf2 (tws (s_tokens st2) + tws ch) rf3 0) by (eapply bal_eq; [exact G|lia]).
  pose proof (bal_trans _ _ _ _ _ _ _ _ F G') as FG.
  unfold endp in *. destruct (Block.truthy e) as [p|] eqn:Et.
  - inversion H; subst b. unfold cres. destruct p; [lia|]. cbn [Block.truthy]. cbn [s_tokens set_tokens]. rewrite tws_insert_at. cbn [tw]. fold (tws ch).
    eapply bal_eq; [exact FG|]. lia.
  - inversion H; subst b. unfold cres. destruct (s_cursor st2) as [|c2] eqn:Ec2; [lia|]. cbn [Block.truthy]. rewrite tws_append. cbn [tw]. fold (tws ch).
    eapply bal_eq; [exact FG|]. lia.
Qed.

(* ---------- lists ---------- *)
Lemma removelast_firstn_k {A} : forall k (l : list A), k <= length l -> removelast (firstn k l) = firstn (k - 1) l.
Proof.
  induction k as [|k IH]; intros l Hk; [reflexivity|]. destruct l as [|a l]; [cbn in Hk; lia|]. cbn [firstn length] in *.
  destruct k as [|k]; [reflexivity|]. replace (S (S k) - 1) with (S k) by lia. cbn [firstn]. 
  destruct l as [|b l]; [cbn in Hk; lia|]. cbn [firstn]. cbn [removelast]. f_equal.
  specialize (IH (b :: l) ltac:(cbn in *; lia)). replace (S k - 1) with k in IH by lia. cbn [firstn] in IH. exact IH.
Qed.

Lemma fle_line st : s_cursor st <= cursor_max st -> Forall (fun ch => ch <> 10%Z) (removelast (get_text st (find_line_end C st))).
Proof.
  intros Hc. unfold find_line_end, get_text, cursor_max in *. rewrite (bk_line_end C OK). unfold re_search. rewrite Nat.min_id.
  destruct (Nat.ltb_spec (length (s_src st)) (s_cursor st)) as [|_]; [lia|].
  unfold zip_at. rewrite Nat.min_id. replace (Nat.min (s_cursor st) (length (s_src st))) with (s_cursor st) by lia. cbn [z_rest].
  set (rest := firstn (length (s_src st) - s_cursor st) (skipn (s_cursor st) (s_src st))).
  assert (Hrest : rest = skipn (s_cursor st) (s_src st)) by (unfold rest; apply firstn_all2; rewrite skipn_length; lia).
  destruct (line_end_from_chars (b_uni C) rest (rev (firstn (s_cursor st) (s_src st))) (s_cursor st) (length rest) (le_n _)) as (m & k & Hs & H1 & H2 & H3).
  rewrite Hs. unfold Block.mend. rewrite H1. unfold slice. replace (s_cursor st + k - s_cursor st) with k by lia. rewrite <- Hrest.
  rewrite removelast_firstn_k by exact H2. exact H3.
Qed.

Lemma blank_line_zero st mb : s_cursor st <= cursor_max st ->
  re_match (b_uni C) (b_blank_line C) (get_text st (find_line_end C st)) 0 (length (get_text st (find_line_end C st))) = Some mb ->
  mu (get_text st (find_line_end C st)) = 0.
Proof.
  intros Hc H. pose proof (fle_line st Hc) as Hf. set (line := get_text st (find_line_end C st)) in *.
  destruct (re_match_unpack _ _ _ _ _ (bk_blank C OK) H) as (z & z' & w & pre & rest & Es & L & I & HM & Hadv & A & B & D).
  destruct pre; [|discriminate]. cbn [app] in Es. destruct (ck_blank_rx CK) as [Av En].
  destruct (endsnl_sound U _ En _ _ _ _ _ HM Hadv) as (w' & Ew).
  destruct (avoids_sound U keep _ Av _ _ _ _ HM) as (w0 & A0 & F0). rewrite <- (adv_unique _ _ _ _ Hadv A0) in F0.
  destruct rest as [|r0 rest].
  - rewrite app_nil_r in Es. rewrite Es. apply mu_P0. apply proj_none. exact F0.
  - exfalso. rewrite Es, Ew in Hf. rewrite <- app_assoc in Hf. cbn [app] in Hf.
    assert (Hin : In 10%Z (removelast (w' ++ 10%Z :: r0 :: rest))).
    { clear. induction w' as [|c w' IH]; cbn [app].
      - cbn [removelast]. destruct rest; left; reflexivity.
      - cbn [removelast]. destruct (w' ++ 10%Z :: r0 :: rest) eqn:E; [destruct w'; discriminate|]. right. exact IH. }
    rewrite Forall_forall in Hf. exact (Hf _ Hin eq_refl).
Qed.

(* ---- _LINE_HAS_TEXT: leading white space, then a character that is not white space ---- *)
Definition is_sp (c : Z) : bool := in_ranges c (u_space U).

Lemma in_class_space ch : in_class U false [CCat CatSpace] ch = is_sp ch.
Proof. unfold in_class, is_sp. cbn. destruct (in_ranges ch (u_space U)); reflexivity. Qed.
Lemma in_class_nospace ch : in_class U false [CCat CatNotSpace] ch = negb (is_sp ch).
Proof. unfold in_class, is_sp. cbn. destruct (in_ranges ch (u_space U)); reflexivity. Qed.

Lemma iter_spaces_adv : forall n z c z1 c1, iter (M U (RIn false [CCat CatSpace])) n z c z1 c1 ->
  exists sp, adv z z1 sp /\ Forall (fun ch => is_sp ch = true) sp /\ c1 = c.
Proof.
  intros n z c z1 c1 Hi. induction Hi as [z c|n z c z1 c1 z2 c2 HR Hlt Hit IH].
  - exists []. split; [apply adv_refl|]. split; [constructor|reflexivity].
  - cbn [M] in HR. destruct HR as (ch & Hs & Hp & ->). rewrite in_class_space in Hp. destruct IH as (sp & A & F & ->).
    exists ([ch] ++ sp). split; [exact (adv_trans _ _ _ _ _ (zstep_adv _ _ _ Hs) A)|]. split; [constructor; assumption|reflexivity].
Qed.

Lemma P_spaces sp : Forall (fun ch => is_sp ch = true) sp -> P sp = [].
Proof. intros F. apply proj_none. apply Forall_forall. intros c Hc. rewrite Forall_forall in F. apply (ck_space CK). exact (F c Hc). Qed.

Lemma lht_match t m : re_match U lht_rx t 0 (length t) = Some m ->
  exists sp, Block.group_n t m 1 = sp /\ firstn (length sp) t = sp /\ P sp = [].
Proof.
  intros H. destruct (re_match_unpack lht_rx t 0 (length t) m eq_refl H) as (z & z' & w & pre & rest & Es & L & I & HM & Hadv & A & B & D).
  destruct pre; [|discriminate]. cbn [app] in Es. unfold lht_rx in HM. cbn [M] in HM.
  destruct HM as (z1 & c1 & (c0 & (n & _ & _ & Hi) & Ec1) & (ch & Hs & Hp & Ec')).
  destruct (iter_spaces_adv _ _ _ _ _ Hi) as (sp & Asp & Fsp & ->). subst c1.
  exists sp. unfold Block.group_n. rewrite Ec'. cbn [cap_get Nat.eqb]. rewrite I. pose proof Asp as (R1 & _ & I1). rewrite I1, I. cbn [Nat.add].
  pose proof (adv_unique _ _ _ _ Hadv (adv_trans _ _ _ _ _ Asp (zstep_adv _ _ _ Hs))) as Ew.
  assert (Et : t = sp ++ [ch] ++ rest) by (rewrite Es, Ew, <- app_assoc; reflexivity).
  split; [|split; [|exact (P_spaces sp Fsp)]].
  - unfold slice. rewrite Nat.sub_0_r. cbn [skipn]. rewrite Et. rewrite firstn_app, firstn_all, Nat.sub_diag. cbn. apply app_nil_r.
  - rewrite Et. rewrite firstn_app, firstn_all, Nat.sub_diag. cbn. apply app_nil_r.
Qed.

Lemma spaces_split : forall t, Forall (fun ch => is_sp ch = true) t \/
  exists sp ch rest, t = sp ++ ch :: rest /\ Forall (fun c => is_sp c = true) sp /\ is_sp ch = false.
Proof.
  induction t as [|a t IH]; [left; constructor|]. destruct (is_sp a) eqn:Ea.
  - destruct IH as [F|(sp & ch & rest & -> & F & Hc)]; [left; constructor; assumption|].
    right. exists (a :: sp), ch, rest. split; [reflexivity|]. split; [constructor; assumption|exact Hc].
  - right. exists [], a, t. split; [reflexivity|]. split; [constructor|exact Ea].
Qed.

Lemma iter_spaces_build : forall sp z c tail, z_rest z = sp ++ tail -> Forall (fun ch => is_sp ch = true) sp ->
  exists z1, iter (M U (RIn false [CCat CatSpace])) (length sp) z c z1 c /\ z_rest z1 = tail.
Proof.
  induction sp as [|a sp IH]; intros z c tail Hr F.
  - exists z. split; [constructor|exact Hr].
  - inversion F as [|? ? Ha Fs]; subst. 
    set (zn := {| z_pre := a :: z_pre z; z_rest := sp ++ tail; z_idx := S (z_idx z) |}).
    assert (Hs : zstep z = Some (a, zn)) by (unfold zstep; rewrite Hr; reflexivity).
    destruct (IH zn c tail eq_refl Fs) as (z1 & Hi & Ht). exists z1. split; [|exact Ht].
    cbn [length]. apply (itS _ _ z c zn c z1 c); [|cbn; lia|exact Hi].
    cbn [M]. exists a. split; [exact Hs|]. split; [rewrite in_class_space; exact Ha|reflexivity].
Qed.

Lemma lht_nomatch t : re_match U lht_rx t 0 (length t) = None -> mu t = 0.
Proof.
  intros H. unfold re_match in H. rewrite Nat.min_id in H. cbn [Nat.ltb Nat.leb] in H.
  destruct (spaces_split t) as [F|(sp & ch & rest & Et & F & Hc)]; [apply mu_P0; exact (P_spaces t F)|]. exfalso.
  set (z := zip_at t 0 (length t)) in *.
  assert (Hr : z_rest z = sp ++ ch :: rest).
  { unfold z, zip_at. rewrite Nat.min_id. cbn [Nat.min z_rest skipn]. rewrite Nat.sub_0_r, firstn_all. exact Et. }
  destruct (iter_spaces_build sp z [] (ch :: rest) Hr F) as (z1 & Hi & Ht).
  set (z2 := {| z_pre := ch :: z_pre z1; z_rest := rest; z_idx := S (z_idx z1) |}).
  assert (Hs : zstep z1 = Some (ch, z2)) by (unfold zstep; rewrite Ht; reflexivity).
  assert (HM : M U lht_rx z [] z2 [(1, (z_idx z, z_idx z1))]).
  { unfold lht_rx. cbn [M]. exists z1, [(1, (z_idx z, z_idx z1))]. split.
    - exists []. split; [|reflexivity]. exists (length sp). split; [lia|]. split; [exact I|exact Hi].
    - exists ch. split; [exact Hs|]. split; [rewrite in_class_nospace, Hc; reflexivity|reflexivity]. }
  destruct (m_spec U lht_rx eq_refl _ z [] (fun z' c' => Some (z_idx z, z_idx z', c'))) as [_ C1].
  unfold match_at in H. specialize (C1 H _ _ HM). discriminate.
Qed.

Lemma P_firstn_nil : forall l n, P l = [] -> P (firstn n l) = [].
Proof.
  induction l as [|a l IH]; intros n Hp; [rewrite firstn_nil; reflexivity|]. destruct n as [|n]; [reflexivity|].
  cbn [firstn]. rewrite proj_cons in *. destruct (memc a keep); [discriminate|]. cbn [app] in *. apply IH. exact Hp.
Qed.

Lemma compile_continue_width_cons text0 lw text cw : compile_continue_width C text0 lw = (text, cw) -> mu text = mu text0.
Proof.
  unfold compile_continue_width. cbv zeta. remember (expand_tab C (expand_leading_tab C text0 3)) as t eqn:Et0.
  assert (Ht : mu t = mu text0) by (rewrite Et0, mu_expand_tab, mu_expand_leading_tab; reflexivity). clear Et0.
  rewrite (ck_lht CK). fold U.
  destruct (re_match U lht_rx t 0 (length t)) as [m2|] eqn:E.
  - destruct (lht_match t m2 E) as (sp & Eg & Ef & Ps).
    assert (Hskip : forall n, n <= length sp -> mu (skipn n t) = mu t).
    { intros n Hn. rewrite <- (firstn_skipn n t) at 2. rewrite mu_app.
      assert (Hz : mu (firstn n t) = 0).
      { apply mu_P0. replace (firstn n t) with (firstn n sp).
        2:{ rewrite <- Ef at 1. rewrite firstn_firstn. f_equal. lia. }
        apply P_firstn_nil. exact Ps. }
      lia. }
    destruct (prefixb [32; 32; 32; 32; 32]%Z t) eqn:Ep; intros Heq; inversion Heq; subst text cw; rewrite mu_app, (mu_single 10%Z (ck_nl CK)).
    + destruct t as [|a t']; [cbn in Ep; discriminate|]. cbn [prefixb] in Ep. apply andb_true_iff in Ep. destruct Ep as [Ea _]. apply Z.eqb_eq in Ea. subst a.
      rewrite <- Ht. change (32%Z :: t') with ([32%Z] ++ t'). rewrite mu_app, (mu_single 32%Z (ck_sp CK)). lia.
    + rewrite Eg. rewrite (Hskip (length sp) (le_n _)). lia.
  - intros Heq. inversion Heq; subst. rewrite mu_nil. rewrite <- Ht. symmetry. exact (lht_nomatch t E).
Qed.

(* ---- _clean_list_item_text ---- *)
Definition musum (l : list str) : nat := fold_right (fun s n => mu s + n) 0 l.

Lemma mu_join_nl : forall l, mu (join [10%Z] l) = musum l.
Proof.
  induction l as [|a l IH]; [reflexivity|]. destruct l as [|b l]; [cbn [join musum fold_right]; lia|].
  change (join [10%Z] (a :: b :: l)) with (a ++ [10%Z] ++ join [10%Z] (b :: l)). rewrite !mu_app, IH, (mu_single 10%Z (ck_nl CK)). cbn [musum fold_right]. lia.
Qed.

Lemma musum_map f l : (forall s, mu (f s) = mu s) -> musum (map f l) = musum l.
Proof. intros Hf. induction l as [|a l IH]; [reflexivity|]. cbn [map musum fold_right]. rewrite Hf. unfold musum in IH. rewrite IH. reflexivity. Qed.

Lemma mu_rev s : mu (rev s) = mu s.
Proof. unfold mu. rewrite P_rev. rewrite count_occ_rev. reflexivity. Qed.

Lemma musum_split : forall s cur, musum (split_char_aux 10%Z cur s) = mu (rev cur) + mu s.
Proof.
  induction s as [|c s IH]; intros cur; cbn [split_char_aux].
  - cbn [musum fold_right]. rewrite mu_nil. lia.
  - destruct (c =? 10)%Z eqn:E.
    + apply Z.eqb_eq in E. subst c. cbn [musum fold_right]. fold (musum (split_char_aux 10%Z [] s)). rewrite IH. cbn [rev]. rewrite mu_nil.
      change (10%Z :: s) with ([10%Z] ++ s). rewrite mu_app, (mu_single 10%Z (ck_nl CK)). lia.
    + rewrite IH. cbn [rev]. rewrite mu_app. change (c :: s) with ([c] ++ s). rewrite (mu_app [c] s). lia.
Qed.

Lemma mu_clean_list_item_text src cw : mu (clean_list_item_text C src cw) = mu src.
Proof.
  unfold clean_list_item_text. cbv zeta. rewrite mu_join_nl, musum_map.
  - unfold split_char. rewrite musum_split. cbn [rev]. rewrite mu_nil. lia.
  - intros line. destruct (prefixb (repeat 32%Z cw) line) eqn:E; [|reflexivity]. rewrite mu_expand_tab.
    pose proof (ReplaceProofs.prefixb_split _ _ E) as Hs. rewrite repeat_length in Hs. rewrite Hs at 2. rewrite mu_app, mu_repeat_sp. lia.
Qed.

(* ---- _transform_tight_list keeps every text ---- *)
Lemma tws_map f l : (forall t, In t l -> tw (f t) = tw t) -> tws (map f l) = tws l.
Proof.
  induction l as [|a l IH]; intros Hf; [reflexivity|]. cbn [map]. rewrite !tws_cons, (Hf a (or_introl eq_refl)), IH; [reflexivity|].
  intros t Ht. apply Hf. right. exact Ht.
Qed.

Lemma tw_tighten_n : forall n t, bsize t <= n -> tw (tighten t) = tw t.
Proof.
  induction n as [|n IH]; intros t Hn; [destruct t; cbn in Hn; lia|].
  destruct t as [| | | | | |ch|items tight b d o s|ch|]; try reflexivity.
  destruct tight; [|reflexivity]. cbn [tighten tw]. fold (tws items).
  change (fold_right (fun t n0 => tw t + n0) 0 ?l) with (tws l). apply tws_map. intros it0 Hin0.
  pose proof (in_size _ _ Hin0) as Sz0. cbn [bsize] in Hn.
  destruct it0 as [| | | | | |?|? ? ? ? ? ?|ch0|]; try reflexivity.
  cbn [tw]. change (fold_right (fun t n0 => tw t + n0) 0 ?l) with (tws l). apply tws_map. intros tk0 Hin1.
  pose proof (in_size _ _ Hin1) as Sz1. cbn [bsize] in Sz0.
  destruct tk0; try reflexivity. apply IH. lia.
Qed.

Lemma tw_tighten t : tw (tighten t) = tw t.
Proof. apply (tw_tighten_n (bsize t)). lia. Qed.

(* ---- the line loop of one list item ---- *)
Definition iend (st2 : bstate) (brk : option (nat * nat)) : nat := match brk with Some (_, e) => e | None => s_cursor st2 end.
Definition next_w (next : option (str * str * str)) : nat := match next with Some (_, _, g3) => mu g3 | None => 0 end.

Definition icons (st : bstate) (rf : refs) (src : str) (x : res item_out) : Prop :=
  forall st2 rf2 src2 next tight brk, x = Ok (st2, rf2, src2, next, tight, brk) ->
    bal (tws (s_tokens st) + mu src) rf (tws (s_tokens st2) + mu src2 + next_w next) rf2 (mu (slice (s_src st) (s_cursor st) (iend st2 brk))).

Lemma icons_stop st rf src tight : icons st rf src (Ok (st, rf, src, None, tight, None)).
Proof.
  intros ? ? ? ? ? ? Heq. inversion Heq; subst. cbn [iend next_w]. apply bal_same. rewrite slice_nil_ge by lia. rewrite mu_nil. lia.
Qed.

Lemma item_match_facts bullet w s z m : zof s z -> match_at U (b_item_rx C bullet w) z = Some m ->
  mu (slice s (Block.mstart m) (Block.mend m)) = mu (Block.group_n s m 3) /\ mu (slice s (Block.mend m) (Block.mend m + 1)) = 0.
Proof.
  intros Hz Hm. destruct (ck_item CK bullet w) as [Hc He]. pose proof (solid_wf _ (bk_item C OK bullet w)) as W.
  destruct (match_at_unpack _ _ _ _ W Hz Hm) as (z' & w0 & E & L & HM & Hadv & A & B).
  pose proof (cov_sound U keep 3 anyb _ W Hc _ _ _ _ _ HM Hadv) as Hcov.
  destruct (covered_text 3 anyb s (rev (z_pre z)) z (snd m) w0 (z_rest z') E L Hcov) as (p & t & q & Ew & Pp & Pq & Eg & _).
  split.
  - rewrite A, B, <- L. rewrite E at 1. rewrite slice_app_mid, Ew, group_n_gtext, Eg. apply mu3; assumption.
  - replace (Block.mend m) with (z_idx z') by (destruct Hadv as (_ & _ & I); lia).
    apply (eol_next s z' (zof_adv _ _ _ _ Hz Hadv)). exact (eol_sound U _ He _ _ _ _ HM).
Qed.

Lemma item_loop_cons h sc cs te : hspec C h -> hnofuel C h -> cspec h -> rules_solid sc ->
  (forall rk r, In (rk, r) sc -> rule_of C rk r) -> (forall r, In (RListItem, r) sc -> exists b w, r = b_item_rx C b w) ->
  forall iters st rf src pb tight pos, pos = s_cursor st -> cursor_max st - s_cursor st < iters ->
  icons st rf src (item_loop C h iters sc cs te st rf src pb tight pos).
Proof.
  intros Hs Hn Hc Hsol Hhf Hitem. induction iters as [|it IH]; intros st rf src pb tight pos Hpos Hi; [lia|]. subst pos. cbn [item_loop].
  destruct (Nat.leb_spec (cursor_max st) (s_cursor st)) as [|Hlt]; [apply icons_stop|].
  destruct (fle_gt C OK st Hlt) as [L1 L2].
  assert (Hrec : forall src' pb' tight', mu src' = mu src + mu (get_text st (find_line_end C st)) ->
            icons st rf src (item_loop C h it sc cs te (set_cursor st (find_line_end C st)) rf src' pb' tight' (find_line_end C st))).
  { intros src' pb' tight' Hmu.
    assert (Hi' : cursor_max (set_cursor st (find_line_end C st)) - s_cursor (set_cursor st (find_line_end C st)) < it) by (unfold cursor_max in *; cbn; lia).
    pose proof (IH (set_cursor st (find_line_end C st)) rf src' pb' tight' _ eq_refl Hi') as F.
    destruct (item_loop_spec C OK h sc cs te Hs Hn Hsol Hhf it (set_cursor st (find_line_end C st)) rf src' pb' tight' _ eq_refl Hi') as [_ F2].
    intros st2 rf2 src2 next tight2 brk Heq. specialize (F _ _ _ _ _ _ Heq). destruct (F2 _ _ _ _ _ _ Heq) as (G1 & G2 & G3 & G4).
    cbn [s_src s_cursor s_tokens set_cursor] in F, G1, G2, G3, G4.
    eapply bal_eq; [exact F|]. rewrite Hmu. unfold get_text.
    assert (Hle : find_line_end C st <= iend st2 brk) by (unfold iend; destruct brk as [[idx e]|]; [specialize (G4 idx e eq_refl); lia|specialize (G2 eq_refl); lia]).
    rewrite (mu_slice_split (s_src st) (s_cursor st) (find_line_end C st) (iend st2 brk)) by lia. lia. }
  destruct (re_match (b_uni C) (b_blank_line C) _ 0 _) as [mb|] eqn:Ebl.
  { apply Hrec. rewrite mu_app, (mu_single 10%Z (ck_nl CK)). rewrite (blank_line_zero st mb ltac:(lia) Ebl). lia. }
  destruct (prefixb cs _).
  { destruct (pb && te && strip_ws_empty C src); [apply icons_stop|]. apply Hrec. rewrite mu_app, mu_expand_leading_tab. reflexivity. }
  assert (Hafter : icons st rf src (if pb then Ok (st, rf, src, None, tight, None)
                      else item_loop C h it sc cs te (set_cursor st (find_line_end C st)) rf (src ++ expand_leading_tab C (get_text st (find_line_end C st)) 4) pb tight (find_line_end C st))).
  { destruct pb; [apply icons_stop|]. apply Hrec. rewrite mu_app, mu_expand_leading_tab. reflexivity. }
  assert (Hp : s_cursor st <= length (s_src st)) by (unfold cursor_max in *; lia).
  destruct (bmatch_rules C sc (s_src st) (s_cursor st)) as [[rk m]|] eqn:Eb; [|exact Hafter].
  destruct (bmatch_rules_spec C _ _ _ _ _ Hsol Hp Eb) as (r & Hin & Hm & A & B & Cc).
  assert (Hmok : mok C rk m st) by (apply (mok_of_bmatch C sc st rk m r Hsol Hp Hin Hm A B Cc); apply (Hhf rk r Hin)).
  assert (Hother : icons st rf src (do (st2, rf2, np) <- h rk m st rf;
                             match Block.truthy np with
                             | Some p => Ok (st2, rf2, src, None, tight, Some (length (s_tokens st), p))
                             | None => (if pb then Ok (st2, rf2, src, None, tight, None)
                                        else item_loop C h it sc cs te (set_cursor st2 (find_line_end C st)) rf2 (src ++ expand_leading_tab C (get_text st (find_line_end C st)) 4) pb tight (find_line_end C st))
                             end)).
  { unfold bind. destruct (h rk m st rf) as [[[st2 rf2] np]| |] eqn:Eh; [|intros ? ? ? ? ? ? Heq; discriminate|intros ? ? ? ? ? ? Heq; discriminate].
    pose proof (Hc _ _ _ _ _ Hmok Eh) as Hcr. unfold cres in Hcr.
    destruct (Block.truthy np) as [p|] eqn:Et.
    - intros ? ? ? ? ? ? Heq. inversion Heq; subst. cbn [iend next_w]. eapply bal_eq; [exact Hcr|]. unfold span. lia.
    - destruct Hcr as [-> ->]. exact Hafter. }
  destruct rk; try exact Hother.
  - (* list: stop *) apply icons_stop.
  - (* list_item: next item *)
    destruct (Hitem r Hin) as (b0 & w0 & ->).
    destruct (item_match_facts b0 w0 (s_src st) _ m (zof_zip_at _ _ Hp) Hm) as [F1 F2]. rewrite A in F1.
    intros ? ? ? ? ? ? Heq. inversion Heq; subst. cbn [iend next_w s_cursor s_tokens set_cursor]. apply bal_same.
    rewrite (mu_slice_split (s_src st) (s_cursor st) (Block.mend m) (Block.mend m + 1)) by lia. lia.
Qed.

Lemma item_loop_next h sc cs te : forall iters st rf src pb tight pos st2 rf2 src2 g tight2 brk,
  item_loop C h iters sc cs te st rf src pb tight pos = Ok (st2, rf2, src2, Some g, tight2, brk) -> brk = None.
Proof.
  induction iters as [|it IH]; intros st rf src pb tight pos st2 rf2 src2 g tight2 brk H; cbn [item_loop] in H.
  - destruct (Nat.leb _ _); [inversion H|discriminate].
  - destruct (Nat.leb _ _); [inversion H|].
    destruct (re_match _ _ _ _ _); [exact (IH _ _ _ _ _ _ _ _ _ _ _ _ H)|].
    destruct (prefixb cs _).
    { destruct (_ && _ && _); [inversion H|exact (IH _ _ _ _ _ _ _ _ _ _ _ _ H)]. }
    destruct (bmatch_rules C sc (s_src st) (s_cursor st)) as [[rk m]|].
    + assert (Hother : (do (st2', rf2', np) <- h rk m st rf;
                        match Block.truthy np with
                        | Some p => Ok (st2', rf2', src, None, tight, Some (length (s_tokens st), p))
                        | None => (if pb then Ok (st2', rf2', src, None, tight, None)
                                   else item_loop C h it sc cs te (set_cursor st2' (find_line_end C st)) rf2' (src ++ expand_leading_tab C (get_text st (find_line_end C st)) 4) pb tight (find_line_end C st))
                        end) = Ok (st2, rf2, src2, Some g, tight2, brk) -> brk = None).
      { unfold bind. destruct (h rk m st rf) as [[[st2' rf2'] np]| |]; try discriminate. destruct (Block.truthy np); [intros Hx; inversion Hx|].
        destruct pb; [intros Hx; inversion Hx|]. intros Hx. exact (IH _ _ _ _ _ _ _ _ _ _ _ _ Hx). }
      destruct rk; try exact (Hother H).
      * inversion H.
      * inversion H. reflexivity.
    + destruct pb; [inversion H|exact (IH _ _ _ _ _ _ _ _ _ _ _ _ H)].
Qed.

(* ---- the item loop of a list ---- *)
Definition lcons (st : bstate) (rf : refs) (items : list btok) (text0 : str)
           (x : res (bstate * refs * list btok * bool * option (nat * nat))) : Prop :=
  forall st2 rf2 items2 tight brk, x = Ok (st2, rf2, items2, tight, brk) ->
    bal (tws (s_tokens st) + tws items + mu text0) rf (tws (s_tokens st2) + tws items2) rf2 (mu (slice (s_src st) (s_cursor st) (iend st2 brk))).

Lemma sc_item bullet w :
  let sc := match b_lb_rules C w with
            | x :: rest => x :: (RListItem, b_item_rx C bullet w) :: rest
            | [] => [(RListItem, b_item_rx C bullet w)]
            end in
  forall r, In (RListItem, r) sc -> exists b w', r = b_item_rx C b w'.
Proof.
  cbv zeta. intros r Hin. destruct (b_lb_rules C w) as [|x0 rest] eqn:El.
  - destruct Hin as [Hin|[]]. inversion Hin. exists bullet, w. reflexivity.
  - destruct Hin as [Hin|[Hin|Hin]].
    + exfalso. apply (ck_lb_noitem CK w r). rewrite El. left. exact Hin.
    + inversion Hin. exists bullet, w. reflexivity.
    + exfalso. apply (ck_lb_noitem CK w r). rewrite El. right. exact Hin.
Qed.

Lemma items_loop_cons h bullet : hspec C h -> hnofuel C h -> cspec h ->
  forall iters groups st rf items tight, cursor_max st - s_cursor st < iters ->
  lcons st rf items (snd groups) (items_loop C h iters bullet groups st rf items tight).
Proof.
  intros Hs Hn Hc. induction iters as [|it IH]; intros [[spaces marker] text0] st rf items tight Hi; [lia|]. cbn [items_loop snd].
  destruct (compile_continue_width C text0 (length spaces + length marker)) as [text cw] eqn:Ecw.
  pose proof (compile_continue_width_cons _ _ _ _ Ecw) as Htext.
  destruct (sc_props C OK bullet (Nat.min (length spaces + length marker) 3)) as [Hsol Hhf]. cbv zeta in Hsol, Hhf.
  pose proof (sc_item bullet (Nat.min (length spaces + length marker) 3)) as Hitem. cbv zeta in Hitem.
  set (sc := match b_lb_rules C (Nat.min (length spaces + length marker) 3) with
             | x :: rest => x :: (RListItem, b_item_rx C bullet (Nat.min (length spaces + length marker) 3)) :: rest
             | [] => [(RListItem, b_item_rx C bullet (Nat.min (length spaces + length marker) 3))]
             end) in *.
  assert (Hi2 : cursor_max st - s_cursor st < S (length (s_src st))) by (unfold cursor_max; lia).
  pose proof (item_loop_cons h sc (repeat 32%Z cw) (match text with [] => true | _ => false end) Hs Hn Hc Hsol Hhf Hitem
              (S (length (s_src st))) st rf [] false tight (s_cursor st) eq_refl Hi2) as FI.
  destruct (item_loop_spec C OK h sc (repeat 32%Z cw) (match text with [] => true | _ => false end) Hs Hn Hsol Hhf
              (S (length (s_src st))) st rf [] false tight (s_cursor st) eq_refl Hi2) as [_ F2].
  unfold bind.
  destruct (item_loop C h (S (length (s_src st))) sc _ _ st rf [] false tight (s_cursor st)) as [[[[[[st2 rf2] src] next] tight2] brk]| |] eqn:Ei;
    [|intros ? ? ? ? ? Heq; discriminate|intros ? ? ? ? ? Heq; discriminate].
  specialize (FI _ _ _ _ _ _ eq_refl). destruct (F2 _ _ _ _ _ _ eq_refl) as (G1 & G2 & G3 & G4). rewrite mu_nil in FI.
  destruct (parse_child C h st2 (strip_end C (text ++ clean_list_item_text C src cw)) rf2) as [[ch rf3]| |] eqn:Ep;
    [|intros ? ? ? ? ? Heq; discriminate|intros ? ? ? ? ? Heq; discriminate].
  pose proof (parse_child_cons h _ _ _ _ _ Hs Hn Hc Ep) as FC. rewrite mu_strip_end, mu_app, mu_clean_list_item_text, Htext in FC.
  assert (FS : bal (tws (s_tokens st) + tws items + mu text0) rf (tws (s_tokens st2) + next_w next + tws items + tws ch) rf3
                   (mu (slice (s_src st) (s_cursor st) (iend st2 brk)) + 0)).
  { eapply bal_trans.
    - eapply (bal_eq _ _ _ _ _ (tws (s_tokens st) + tws items + mu text0) (tws (s_tokens st2) + mu src + next_w next + tws items + mu text0)); [exact FI|lia].
    - eapply bal_eq; [exact FC|lia]. }
  assert (Hitems : tws (items ++ [BListItem ch]) = tws items + tws ch) by (rewrite tws_app, tws_one; reflexivity).
  destruct next as [[[g1 g2] g3]|].
  - pose proof (item_loop_next _ _ _ _ _ _ _ _ _ _ _ _ _ _ _ _ _ Ei) as ->. cbn [iend next_w] in FS.
    destruct (G3 _ eq_refl) as [G3a G3b].
    assert (Hi3 : cursor_max st2 - s_cursor st2 < it) by (unfold cursor_max in *; rewrite G1; lia).
    pose proof (IH (g1, g2, g3) st2 rf3 (items ++ [BListItem ch]) (if tight2 && is_loose ch 0 then false else tight2) Hi3) as K. cbn [snd] in K.
    destruct (items_loop_spec C OK h bullet Hs Hn it (g1, g2, g3) st2 rf3 (items ++ [BListItem ch]) (if tight2 && is_loose ch 0 then false else tight2) Hi3) as [_ K2].
    intros stF rfF itemsF tightF brkF Heq. specialize (K _ _ _ _ _ Heq). destruct (K2 _ _ _ _ _ Heq) as (J1 & J2 & J3).
    rewrite G1 in K.
    assert (K' : bal (tws (s_tokens st2) + mu g3 + tws items + tws ch) rf3 (tws (s_tokens stF) + tws itemsF) rfF (mu (slice (s_src st) (s_cursor st2) (iend stF brkF))))
      by (eapply bal_eq; [exact K|rewrite Hitems; lia]).
    eapply bal_eq; [exact (bal_trans _ _ _ _ _ _ _ _ FS K')|].
    assert (Hle : s_cursor st2 <= iend stF brkF) by (unfold iend; destruct brkF as [[idx e]|]; [specialize (J3 idx e eq_refl); lia|specialize (J2 eq_refl); lia]).
    rewrite (mu_slice_split (s_src st) (s_cursor st) (s_cursor st2) (iend stF brkF)) by lia. lia.
  - intros stF rfF itemsF tightF brkF Heq. inversion Heq; subst. cbn [next_w] in FS. eapply bal_eq; [exact FS|]. rewrite Hitems. lia.
Qed.

Lemma handle_list_cons h m st rf b : hspec C h -> hnofuel C h -> cspec h -> mok C RList m st ->
  handle_list C h m st rf = Ok b -> cres st rf b.
Proof.
  intros Hs Hn Hc Hm H. pose proof Hm as (M1 & M2 & M3 & _). assert (Hcm : s_cursor st < cursor_max st) by lia. unfold handle_list in H. cbv zeta in H.
  destruct (if _ || _ then append_paragraph C st else None) as [[st' pos]|] eqn:Ea.
  - inversion H; subst b. assert (Ha : append_paragraph C st = Some (st', pos)) by (destruct (_ || _); [exact Ea|discriminate]).
    exact (cres_append_paragraph _ _ _ rf Hcm Ha).
  - unfold bind in H.
    pose proof (mok_mu_group 3 RList m st (fun r Hr => proj1 (ck_list CK r Hr)) Hm) as Gg.
    pose proof (mok_eol RList m st (fun r Hr => proj2 (ck_list CK r Hr)) Hm) as Ge. pose proof (mok_span _ _ _ Hm) as Gs.
    assert (Hi : cursor_max (set_cursor st (Block.mend m + 1)) - s_cursor (set_cursor st (Block.mend m + 1)) < S (length (s_src st))) by (unfold cursor_max; cbn; lia).
    pose proof (items_loop_cons h (last (Block.group_n (s_src st) m 2) 0%Z) Hs Hn Hc (S (length (s_src st)))
                (Block.group_n (s_src st) m 1, Block.group_n (s_src st) m 2, Block.group_n (s_src st) m 3)
                (set_cursor st (Block.mend m + 1)) rf [] true Hi) as F.
    destruct (items_loop_spec C OK h (last (Block.group_n (s_src st) m 2) 0%Z) Hs Hn (S (length (s_src st)))
                (Block.group_n (s_src st) m 1, Block.group_n (s_src st) m 2, Block.group_n (s_src st) m 3)
                (set_cursor st (Block.mend m + 1)) rf [] true Hi) as [_ F2].
    destruct (items_loop C h (S (length (s_src st))) _ _ (set_cursor st (Block.mend m + 1)) rf [] true) as [[[[[st2 rf2] items] tight] brk]| |] eqn:El; try discriminate.
    specialize (F _ _ _ _ _ eq_refl). destruct (F2 _ _ _ _ _ eq_refl) as (G1 & G2 & G3). cbn [s_src s_cursor s_tokens set_cursor snd] in F, G1, G2, G3.
    assert (Hle : Block.mend m + 1 <= iend st2 brk) by (unfold iend; destruct brk as [[idx e]|]; [specialize (G3 idx e eq_refl); lia|specialize (G2 eq_refl); lia]).
    assert (Htok : forall tg bb dd oo ss, tw (tighten (BList items tg bb dd oo ss)) = tws items) by (intros; rewrite tw_tighten; reflexivity).
    assert (Hbal : bal (tws (s_tokens st)) rf (tws (s_tokens st2) + tws items) rf2 (span st (iend st2 brk))).
    { eapply bal_eq; [exact F|]. cbn [tws fold_right]. rewrite (span_split st (Block.mend m) (iend st2 brk)) by lia. rewrite Gs, Gg.
      rewrite (mu_slice_split (s_src st) (Block.mend m) (Block.mend m + 1) (iend st2 brk)) by lia. rewrite Ge. lia. }
    match type of H with context [tighten ?t] => remember (tighten t) as tok eqn:Etok end.
    assert (Htw : tw tok = tws items) by (rewrite Etok; apply Htok). clear Etok.
    destruct brk as [[idx e]|]; inversion H; subst b; cbn [iend] in *; unfold cres.
    + destruct e; [lia|]. cbn [Block.truthy s_tokens set_tokens]. rewrite tws_insert_at, Htw. exact Hbal.
    + destruct (s_cursor st2) as [|c2] eqn:Ec2; [lia|]. cbn [Block.truthy]. rewrite tws_append, Htw. exact Hbal.
Qed.

(* ---------- one nesting level, all levels, the whole text ---------- *)
Lemma handle_with_cons h : hspec C h -> hnofuel C h -> cspec h -> cspec (handle_with C h).
Proof.
  intros Hs Hn Hc rk m st rf b Hm H. pose proof Hm as (M1 & M2 & M3 & _). assert (Hcm : s_cursor st < cursor_max st) by lia. unfold cursor_max in *.
  pose proof (mok_span _ _ _ Hm) as Gs.
  unfold handle_with in H. destruct rk.
  - (* fenced *) inversion H; subst b. exact (handle_fenced_cons m st rf _ Hm eq_refl).
  - (* indent *) destruct (append_paragraph C st) as [[st' pos]|] eqn:Ea; [inversion H; subst b; exact (cres_append_paragraph _ _ _ rf Hcm Ea)|].
    inversion H; subst b. apply cres_some; [lia|]. rewrite tws_append. cbn [tw]. rewrite mu_strip_nl, (mu_sub_del _ _ (ck_sub_indent CK)), mu_expand_leading_tab, Gs. lia.
  - (* atx *) inversion H; subst b.
    pose proof (mok_mu_group 2 RAtx m st (fun r Hr => proj1 (ck_atx CK r Hr)) Hm) as Gg. pose proof (mok_eol RAtx m st (fun r Hr => proj2 (ck_atx CK r Hr)) Hm) as Ge.
    apply cres_some; [lia|]. rewrite tws_append. cbn [tw]. rewrite (span_split st (Block.mend m) (Block.mend m + 1)) by lia. rewrite Gs, Gg, Ge.
    assert (Ht : mu (match strip_ws C (Block.group_n (s_src st) m 2) with [] => strip_ws C (Block.group_n (s_src st) m 2) | _ :: _ => sub_del C (b_atx_trim C) (strip_ws C (Block.group_n (s_src st) m 2)) end) = mu (Block.group_n (s_src st) m 2)).
    { destruct (strip_ws C (Block.group_n (s_src st) m 2)) eqn:E; [rewrite <- E; apply mu_strip_ws|]. rewrite (mu_sub_del _ _ (ck_sub_atx CK)), <- E. apply mu_strip_ws. }
    rewrite Ht. lia.
  - (* setex *) pose proof (mok_mu_avoid RSetex m st (fun r Hr => proj1 (ck_setex CK r Hr)) Hm) as Ga. pose proof (mok_eol RSetex m st (fun r Hr => proj2 (ck_setex CK r Hr)) Hm) as Ge.
    destruct (last_is_paragraph st) as [[before t]|] eqn:El.
    + inversion H; subst b. apply cres_some; [lia|]. cbn [s_tokens set_tokens]. rewrite tws_app, tws_one, (last_par_tws _ _ _ El). cbn [tw].
      rewrite (span_split st (Block.mend m) (Block.mend m + 1)) by lia. rewrite Gs, Ga, Ge. lia.
    + set (sub := if Nat.leb (b_max_nested C) (s_depth st) then [RThematic] else [RThematic; RList]) in *.
      destruct (bmatch_rules C (named C sub) (s_src st) (s_cursor st)) as [[rk2 m2]|] eqn:Eb.
      * assert (Hp : s_cursor st <= length (s_src st)) by lia.
        destruct (bmatch_rules_spec C _ _ _ _ _ (named_solid C OK _) Hp Eb) as (r & Hin & Hmm & A & B & Cc).
        assert (Hmok : mok C rk2 m2 st).
        { apply (mok_of_bmatch C (named C sub) st rk2 m2 r (named_solid C OK _) Hp Hin Hmm A B Cc). right; left. exact (named_in C _ _ _ Hin). }
        exact (Hc _ _ _ _ _ Hmok H).
      * inversion H; subst b. apply cres_none.
  - (* thematic *) inversion H; subst b.
    pose proof (mok_mu_avoid RThematic m st (fun r Hr => proj1 (ck_thematic CK r Hr)) Hm) as Ga. pose proof (mok_eol RThematic m st (fun r Hr => proj2 (ck_thematic CK r Hr)) Hm) as Ge.
    apply cres_some; [lia|]. rewrite tws_append. cbn [tw]. rewrite (span_split st (Block.mend m) (Block.mend m + 1)) by lia. rewrite Gs, Ga, Ge. lia.
  - (* quote *) exact (handle_quote_cons h m st rf b Hs Hn Hc Hm H).
  - (* list *) exact (handle_list_cons h m st rf b Hs Hn Hc Hm H).
  - (* ref_link *) exact (handle_ref_link_cons m st rf b Hm H).
  - (* raw_html *) inversion H; subst b. exact (handle_html_cons RRawHtml m st rf _ (or_introl eq_refl) Hm eq_refl).
  - (* blank *) inversion H; subst b. pose proof (mok_mu_avoid RBlankLine m st (ck_blank CK) Hm) as Ga.
    apply cres_some; [lia|]. rewrite tws_append. cbn [tw]. rewrite Gs, Ga. lia.
  - (* block_html *) inversion H; subst b. exact (handle_html_cons RBlockHtml m st rf _ (or_intror eq_refl) Hm eq_refl).
  - (* list_item is never dispatched *) discriminate.
Qed.

Lemma bhandle_cons : forall fuel, cspec (bhandle C fuel).
Proof.
  induction fuel as [|f IH]; cbn [bhandle]; [intros rk m st rf b _ H; discriminate|].
  destruct (bhandle_contract C OK f) as [Hs Hn]. exact (handle_with_cons _ Hs Hn IH).
Qed.

(* the table as the parser returns it, with a pre-image of every destination *)
Theorem block_parse_conserves s toks rf : block_parse C s = Ok (toks, rf) ->
  exists n d, RW rf n /\ tws toks + n + d = mu s /\ (rf = [] -> d = 0).
Proof.
  intros H. unfold block_parse, bind in H.
  destruct (bhandle_contract C OK (length s + 2 * b_max_nested C + 6)) as [Hs Hn].
  destruct (parse_loop C _ (S (length s)) (b_rules C) _ []) as [[st2 rf2]| |] eqn:E; try discriminate. inversion H; subst; clear H.
  pose proof (parse_loop_cons _ Hs Hn (bhandle_cons _) _ _ _ _ _ _ E) as Hb.
  destruct (Hb 0 RW_nil) as (n2 & d & R & Eq & Z). exists n2, d. split; [exact R|]. split.
  - unfold rest_w, cursor_max in Eq. cbn [s_src s_cursor s_tokens tws fold_right] in Eq.
    unfold slice in Eq. rewrite Nat.sub_0_r in Eq. cbn [skipn] in Eq. rewrite firstn_all in Eq. lia.
  - intros Hr. exact (proj1 (Z Hr)).
Qed.
End BC.
