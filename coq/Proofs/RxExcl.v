(* RxExcl.v — exclusive alternatives: a decidable sufficient condition, proved sound against the declarative
   semantics, under which two alternatives can never both make progress from the same position.  Backtracking
   through a repeated alternation multiplies only where two alternatives can both consume from one position;
   the sweep in Props/C07.v applies the check to every alternation under an unbounded or multi-step repeat. *)
From Coq Require Import ZArith List Bool Lia.
From Verif Require Import PyStr Rx RxSpec RxAnalysis.
Import ListNotations.
Local Open Scope nat_scope.

Section Excl.
Variable U : uni.

(* the elements of a small positive class *)
Definition enum_item (it : citem) : option (list Z) :=
  match it with
  | CLit c => Some [c]
  | CRange lo hi => if (hi - lo <? 256)%Z then Some (map (fun i => (lo + Z.of_nat i)%Z) (seq 0 (Z.to_nat (hi - lo + 1)))) else None
  | CCat _ => None
  end.

Fixpoint enum_items (l : list citem) : option (list Z) :=
  match l with
  | [] => Some []
  | it :: l' => match enum_item it, enum_items l' with Some a, Some b => Some (a ++ b) | _, _ => None end
  end.

Definition enum_cset (s : cset) : option (list Z) := if cs_neg s then None else enum_items (cs_items s).

Lemma enum_item_sound it l ch : enum_item it = Some l -> in_item U it ch = true -> In ch l.
Proof.
  destruct it as [c|lo hi|cat]; cbn; intros H Hi.
  - inversion H; subst. apply Z.eqb_eq in Hi. left. symmetry. exact Hi.
  - destruct (hi - lo <? 256)%Z; [|discriminate]. inversion H; subst. apply andb_true_iff in Hi. destruct Hi as [H1 H2].
    apply Z.leb_le in H1. apply Z.leb_le in H2. apply in_map_iff. exists (Z.to_nat (ch - lo)). split; [lia|].
    apply in_seq. lia.
  - discriminate.
Qed.

Lemma enum_items_sound items : forall l ch, enum_items items = Some l -> existsb (fun it => in_item U it ch) items = true -> In ch l.
Proof.
  induction items as [|it items IH]; cbn; intros l ch H He; [discriminate|].
  destruct (enum_item it) as [a|] eqn:Ea; [|discriminate]. destruct (enum_items items) as [b|] eqn:Eb; [|discriminate].
  inversion H; subst. apply in_or_app. apply orb_true_iff in He. destruct He as [He|He].
  - left. eapply enum_item_sound; eassumption.
  - right. apply (IH b ch eq_refl He).
Qed.

Lemma enum_cset_sound s l ch : enum_cset s = Some l -> cs_mem U s ch = true -> In ch l.
Proof.
  unfold enum_cset, cs_mem, in_class. destruct (cs_neg s); [discriminate|]. rewrite xorb_false_l. apply enum_items_sound.
Qed.

Definition disjoint_cs (a b : cset) : bool :=
  match enum_cset a with
  | Some l => forallb (fun ch => negb (cs_mem U b ch)) l
  | None => match enum_cset b with
            | Some l => forallb (fun ch => negb (cs_mem U a ch)) l
            | None => false
            end
  end.

Lemma disjoint_cs_sound a b ch : disjoint_cs a b = true -> cs_mem U a ch = true -> cs_mem U b ch = true -> False.
Proof.
  unfold disjoint_cs. intros H Ha Hb. destruct (enum_cset a) as [l|] eqn:Ea.
  - rewrite forallb_forall in H. specialize (H ch (enum_cset_sound a l ch Ea Ha)). rewrite Hb in H. discriminate.
  - destruct (enum_cset b) as [l|] eqn:Eb; [|discriminate].
    rewrite forallb_forall in H. specialize (H ch (enum_cset_sound b l ch Eb Hb)). rewrite Ha in H. discriminate.
Qed.

Definition firsts_disjoint (ra rb : rx) : bool :=
  forallb (fun sa => forallb (fun sb => disjoint_cs sa sb) (first rb)) (first ra).

(* two alternatives with disjoint first sets never both consume from the same position *)
Theorem alts_exclusive ra rb : firsts_disjoint ra rb = true ->
  forall z c z1 c1 z2 c2, M U ra z c z1 c1 -> z_idx z < z_idx z1 -> M U rb z c z2 c2 -> z_idx z < z_idx z2 -> False.
Proof.
  intros Hd z c z1 c1 z2 c2 Ha La Hb Lb.
  destruct (first_sound U ra _ _ _ _ Ha La) as (ch & Hh & Hfa). destruct (first_sound U rb _ _ _ _ Hb Lb) as (ch' & Hh' & Hfb).
  rewrite Hh in Hh'. inversion Hh'; subst ch'. unfold in_first in Hfa, Hfb.
  apply existsb_exists in Hfa. destruct Hfa as (sa & Ia & Ma). apply existsb_exists in Hfb. destruct Hfb as (sb & Ib & Mb).
  unfold firsts_disjoint in Hd. rewrite forallb_forall in Hd. specialize (Hd sa Ia). rewrite forallb_forall in Hd.
  exact (disjoint_cs_sound sa sb ch (Hd sb Ib) Ma Mb).
Qed.

(* the alternatives of a nested alternation, in order *)
Fixpoint alts (r : rx) : list rx := match r with RAlt a b => alts a ++ alts b | _ => [r] end.

Fixpoint pairwise {A} (f : A -> A -> bool) (l : list A) : bool :=
  match l with [] => true | x :: l' => forallb (f x) l' && pairwise f l' end.

Lemma pairwise_sound {A} (f : A -> A -> bool) l : pairwise f l = true ->
  forall i j a b, i < j -> nth_error l i = Some a -> nth_error l j = Some b -> f a b = true.
Proof.
  induction l as [|x l IH]; cbn; intros H i j a b Hij Hi Hj; [destruct i; discriminate|].
  apply andb_true_iff in H. destruct H as [Hx Hl]. destruct j as [|j]; [lia|]. cbn in Hj. destruct i as [|i]; cbn in Hi.
  - inversion Hi; subst. rewrite forallb_forall in Hx. apply Hx. eapply nth_error_In; eassumption.
  - apply (IH Hl i j a b); [lia|assumption|assumption].
Qed.

Definition multi (hi : option nat) : bool := match hi with None => true | Some h => Nat.ltb 1 h end.

(* every alternation that can be entered more than once by a repeat has pairwise exclusive alternatives *)
Fixpoint excl (inrep : bool) (r : rx) : bool :=
  match r with
  | RSeq a b => excl inrep a && excl inrep b
  | RAlt a b => (negb inrep || pairwise firsts_disjoint (alts r)) && excl inrep a && excl inrep b
  | RRep _ _ hi r1 => excl (inrep || multi hi) r1
  | RGroup _ r1 | RLook _ _ r1 => excl inrep r1
  | _ => true
  end.

(* what [excl] gives for an alternation under a repeat *)
Theorem excl_alt_sound a b : excl true (RAlt a b) = true ->
  forall i j x y, i < j -> nth_error (alts (RAlt a b)) i = Some x -> nth_error (alts (RAlt a b)) j = Some y ->
  forall z c z1 c1 z2 c2, M U x z c z1 c1 -> z_idx z < z_idx z1 -> M U y z c z2 c2 -> z_idx z < z_idx z2 -> False.
Proof.
  intros H i j x y Hij Hi Hj. cbn [excl negb orb] in H. apply andb_true_iff in H. destruct H as [H _].
  apply andb_true_iff in H. destruct H as [H _].
  apply alts_exclusive. exact (pairwise_sound firsts_disjoint _ H i j x y Hij Hi Hj).
Qed.
End Excl.
