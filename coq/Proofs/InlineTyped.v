(* InlineTyped.v — which tokens the inline parser can produce.  Tokens of plugin rules (TExt) arise only in the handler of
   a plugin rule, and a handler is only ever called for a rule of the configured rule list or of the fixed precedence
   lists.  Hence a configuration without plugin rules (the core configuration) produces no plugin token at any depth —
   which is what the text renderers need: they have no method for such tokens. *)
From Coq Require Import ZArith List Bool Lia Arith.
From Verif Require Import PyStr Rx RxSub Inline InlineProofs RstDoc.
Import ListNotations.
Local Open Scope nat_scope.

Section Typed.
Variable C : icfg.
Definition core_rule (r : irule) : bool := match r with IExt _ => false | _ => true end.
Hypothesis rules_core : forallb core_rule (c_rules C) = true.

Notation ok := (forallb tok_ok).

Definition typed (h : handler) : Prop :=
  forall rk m src fl np toks fl', core_rule rk = true -> h rk m src fl = Ok (np, toks, fl') -> ok toks = true.

Lemma ok_rev l : ok (rev l) = ok l.
Proof. induction l as [|x l IH]; [reflexivity|]. cbn [rev]. rewrite forallb_app, IH. cbn. rewrite andb_true_r. apply andb_comm. Qed.

Lemma isearch_core s pos e rk m : isearch C (c_rules C) s pos e = Some (rk, m) -> core_rule rk = true.
Proof. intros H. apply isearch_in in H. rewrite forallb_forall in rules_core. apply rules_core. exact H. Qed.

Lemma finish_typed src p a x : ok a = true ->
  (if Nat.eqb p 0 then Ok (rev (TText src :: a)) else if Nat.ltb p (length src) then Ok (rev (TText (slice src p (length src)) :: a)) else Ok (rev a)) = Ok x -> ok x = true.
Proof.
  intros Hok E. destruct (Nat.eqb p 0); [|destruct (Nat.ltb p (length src))]; injection E as <-; rewrite ?forallb_app, ok_rev, Hok; reflexivity.
Qed.

Lemma parse_loop_typed h : typed h -> forall iters src pos fl acc r, ok acc = true -> parse_loop C h iters src pos fl acc = Ok r -> ok r = true.
Proof.
  intros Hh. induction iters as [|it IH]; intros src pos fl acc r Ha H; cbn [parse_loop] in H.
  - destruct (Nat.leb (length src) pos); [exact (finish_typed _ _ _ _ Ha H)|discriminate].
  - destruct (Nat.leb (length src) pos); [exact (finish_typed _ _ _ _ Ha H)|].
    destruct (isearch C (c_rules C) src pos (length src)) as [[rk m]|] eqn:Es; [|exact (finish_typed _ _ _ _ Ha H)].
    pose proof (isearch_core _ _ _ _ _ Es) as Hc. unfold bind in H.
    destruct (h rk m src fl) as [[[np toks] fl']| |] eqn:Eh; try discriminate.
    pose proof (Hh _ _ _ _ _ _ _ Hc Eh) as Ht.
    set (acc1 := if Nat.ltb pos (mstart m) then TText (slice src pos (mstart m)) :: acc else acc) in *.
    assert (Ha1 : ok acc1 = true) by (unfold acc1; destruct (Nat.ltb pos (mstart m)); cbn [forallb tok_ok]; auto).
    destruct (truthy np) as [p|].
    + refine (IH _ _ _ _ _ _ H). rewrite forallb_app, ok_rev, Ht, Ha1. reflexivity.
    + refine (IH _ _ _ _ _ _ H). cbn [forallb tok_ok]. exact Ha1.
Qed.

Lemma irender_typed h text fl r : typed h -> irender C h text fl = Ok r -> ok r = true.
Proof. intros Hh H. unfold irender in H. exact (parse_loop_typed h Hh _ _ _ _ [] _ eq_refl H). Qed.

Lemma real_rule_core rk : core_rule rk = true -> core_rule (real_rule rk) = true.
Proof. destruct rk; cbn; auto. Qed.

Lemma precedence_scan_typed h m src fl e rules p toks :
  typed h -> forallb core_rule rules = true -> precedence_scan C h m src fl e rules = Ok (Some (p, toks)) -> ok toks = true.
Proof.
  intros Hh Hr H. unfold precedence_scan in H.
  destruct (isearch C rules src (mend m) e) as [[rk m1]|] eqn:Es; [|discriminate].
  assert (Hc : core_rule rk = true) by (apply isearch_in in Es; rewrite forallb_forall in Hr; apply Hr; exact Es).
  destruct (re_match _ _ src (mstart m1) (length src)) as [m2|]; [|discriminate]. unfold bind in H.
  destruct (h (real_rule rk) m2 src fl) as [[[np tk] fl']| |] eqn:Eh; try discriminate.
  pose proof (Hh _ _ _ _ _ _ _ (real_rule_core _ Hc) Eh) as Ht.
  destruct (truthy np) as [q|]; [|discriminate]. destruct (Nat.ltb q e); [discriminate|]. inversion H; subst. cbn. exact Ht.
Qed.

Lemma link_token_typed h img text url title tk ref fl t : typed h -> link_token C h img text url title tk ref fl = Ok t -> tok_ok t = true.
Proof.
  intros Hh H. unfold link_token, bind in H. destruct (irender C h text _) as [ch| |] eqn:E; try discriminate.
  inversion H; subst. cbn [tok_ok]. exact (irender_typed _ _ _ _ Hh E).
Qed.

Lemma link_by_ref_typed h img text fl lab ep np toks fl' : typed h -> link_by_ref C h img text fl lab ep = Ok (np, toks, fl') -> ok toks = true.
Proof.
  intros Hh H. unfold link_by_ref in H. destruct lab as [l|]; [|inversion H; reflexivity].
  destruct (c_refs C); [inversion H; reflexivity|]. destruct (assoc_ref _ _) as [[url title]|]; [|inversion H; reflexivity].
  unfold bind in H. destruct (link_token C h img text url title true _ fl) as [t| |] eqn:E; try discriminate.
  inversion H; subst. cbn. rewrite (link_token_typed _ _ _ _ _ _ _ _ _ Hh E). reflexivity.
Qed.

Lemma link_after_typed h src fl img lab text e np toks fl' : typed h -> link_after C h src fl img lab text e = Ok (np, toks, fl') -> ok toks = true.
Proof.
  intros Hh H. unfold link_after in H. pose proof (fun l p => link_by_ref_typed h img text fl l p np toks fl' Hh) as R.
  destruct (nth_error src e) as [c|]; [|exact (R _ _ H)].
  destruct (c =? 40)%Z.
  - unfold bind in H. destruct (parse_link_dest C src (S e)) as [[[[url title] pos2]|]| |]; try discriminate; [|exact (R _ _ H)].
    destruct (Nat.eqb pos2 0); [exact (R _ _ H)|].
    destruct (link_token C h img text url title _ None fl) as [t| |] eqn:E; try discriminate.
    inversion H; subst. cbn. rewrite (link_token_typed _ _ _ _ _ _ _ _ _ Hh E). reflexivity.
  - destruct (c =? 91)%Z; [|exact (R _ _ H)].
    destruct (parse_link_label C src (S e)) as [[label2 pos2]|]; [|exact (R _ _ H)].
    destruct (Nat.eqb pos2 0); exact (R _ _ H).
Qed.

Lemma link_body_typed h m src fl img lab text e np toks fl' : typed h -> link_body C h m src fl img lab text e = Ok (np, toks, fl') -> ok toks = true.
Proof.
  intros Hh H. unfold link_body in H. destruct (_ && _); [inversion H; reflexivity|]. unfold bind in H.
  destruct (precedence_scan C h m src fl e _) as [[[p tk]|]| |] eqn:E; try discriminate.
  - inversion H; subst. refine (precedence_scan_typed _ _ _ _ _ _ _ _ Hh _ E); reflexivity.
  - exact (link_after_typed _ _ _ _ _ _ _ _ _ _ Hh H).
Qed.

Lemma handle_with_typed h : typed h -> typed (handle_with C h).
Proof.
  intros Hh rk m src fl np toks fl' Hc H. unfold handle_with in H.
  destruct rk; try discriminate Hc.
  - inversion H; reflexivity.
  - destruct (re_match _ _ src (mend m) (length src)) as [m2|]; [|inversion H; reflexivity].
    destruct (group_n src m2 1); [inversion H; reflexivity|discriminate].
  - (* emphasis *)
    destruct (_ || _); [inversion H; reflexivity|].
    destruct (c_emph_end C (group0 src m)) as [er|]; [|discriminate].
    destruct (re_search _ er src (mend m) (length src)) as [m1|]; [|inversion H; reflexivity].
    unfold bind in H.
    destruct (precedence_scan C h m src fl (mend m1) _) as [[[p tk]|]| |] eqn:E; try discriminate.
    + inversion H; subst. refine (precedence_scan_typed _ _ _ _ _ _ _ _ Hh _ E); reflexivity.
    + destruct (Nat.eqb (length (group0 src m)) 1).
      * destruct (irender C h _ _) as [ch| |] eqn:Er; try discriminate. inversion H; subst. cbn. rewrite (irender_typed _ _ _ _ Hh Er). reflexivity.
      * destruct (Nat.eqb (length (group0 src m)) 2).
        -- destruct (irender C h _ _) as [ch| |] eqn:Er; try discriminate. inversion H; subst. cbn. rewrite (irender_typed _ _ _ _ Hh Er). reflexivity.
        -- destruct (irender C h _ _) as [ch| |] eqn:Er; try discriminate. inversion H; subst. cbn. rewrite (irender_typed _ _ _ _ Hh Er). reflexivity.
  - (* link *)
    destruct (_ || _); [inversion H; reflexivity|].
    destruct (parse_link_label C src (mend m)) as [[l e]|]; [exact (link_body_typed _ _ _ _ _ _ _ _ _ _ _ Hh H)|].
    unfold bind in H. destruct (parse_link_text C src (mend m)) as [[[text e]|]| |]; try discriminate; [|inversion H; reflexivity].
    exact (link_body_typed _ _ _ _ _ _ _ _ _ _ _ Hh H).
  - destruct (in_link fl); [inversion H; reflexivity|]. destruct (c_escape_url C _); [inversion H; reflexivity|discriminate].
  - destruct (in_link fl); [inversion H; reflexivity|]. destruct (c_escape_url C _); [inversion H; reflexivity|discriminate].
  - inversion H; reflexivity.
  - inversion H; reflexivity.
  - inversion H; reflexivity.
  - destruct (in_link fl); [inversion H; reflexivity|]. destruct (c_escape_url C _); [inversion H; reflexivity|discriminate].
  - inversion H; reflexivity.
Qed.

Lemma handle_typed : forall fuel, typed (handle C fuel).
Proof.
  induction fuel as [|f IH]; [intros rk m src fl np toks fl' _ H; discriminate H|]. exact (handle_with_typed _ IH).
Qed.

(* no plugin token at any depth *)
Theorem inline_parse_typed s toks : inline_parse C s = Ok toks -> ok toks = true.
Proof. intros H. exact (irender_typed _ _ _ _ (handle_typed _) H). Qed.
End Typed.
