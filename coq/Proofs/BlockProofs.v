(* BlockProofs.v — every loop of the block parser model terminates: the cursor strictly advances in the scanner loop,
   in the lazy-continuation loop of block quotes and in the line and item loops of lists, whatever the handlers of
   nested and interrupting blocks answer.  Hence block_parse never answers Fuel; the only failures of the model are
   exceptions (a lone surrogate in a destination, or the nesting budget = CPython's recursion limit). *)
From Coq Require Import ZArith List Bool Lia Arith.
From Verif Require Import PyStr Rx RxSpec RxAnalysis RxSub RxHead Scanner Inline InlineProofs Block.
Import ListNotations.
Local Open Scope nat_scope.

(* ---- the line-end pattern \n|$ ---- *)
Section LineEnd.
Variable U : uni.
Definition line_end_rx : rx := RAlt (RLit 10%Z) (RAt AtEnd).

Lemma line_end_from : forall rest pre idx fuel, length rest <= fuel ->
  exists m, search_from U line_end_rx fuel {| z_pre := pre; z_rest := rest; z_idx := idx |} = Some m /\
            (rest <> [] -> idx < snd (fst m)) /\ idx <= snd (fst m) /\ snd (fst m) <= idx + length rest.
Proof.
  induction rest as [|ch rest IH]; intros pre idx fuel Hf.
  - exists (idx, idx, []). destruct fuel; cbn; (split; [reflexivity|split; [intros H; contradiction|lia]]).
  - destruct fuel as [|f]; [cbn in Hf; lia|]. cbn [search_from].
    unfold match_at, line_end_rx. cbn [m one zstep z_rest z_pre z_idx].
    destruct (ch =? 10)%Z eqn:E.
    + eexists. split; [reflexivity|]. cbn. split; [intros _; lia|lia].
    + cbn [at_ok z_rest]. destruct rest as [|c2 rest2].
      * rewrite E. cbn [zstep z_rest]. 
        destruct (IH (ch :: pre) (S idx) f ltac:(cbn in *; lia)) as (m0 & Hs & _ & H2 & H3).
        exists m0. split; [exact Hs|]. cbn in *. split; [intros _; lia|lia].
      * cbn [zstep z_rest].
        destruct (IH (ch :: pre) (S idx) f ltac:(cbn in *; lia)) as (m0 & Hs & _ & H2 & H3).
        exists m0. split; [exact Hs|]. cbn in *. split; [intros _; lia|lia].
Qed.

Lemma line_end_search s pos : pos < length s ->
  exists m, re_search U line_end_rx s pos (length s) = Some m /\ pos < snd (fst m) /\ snd (fst m) <= length s.
Proof.
  intros H. unfold re_search. rewrite Nat.min_id. destruct (Nat.ltb_spec (length s) pos); [lia|].
  unfold zip_at. rewrite Nat.min_id. replace (Nat.min pos (length s)) with pos by lia.
  set (rest := firstn (length s - pos) (skipn pos s)).
  assert (Hl : length rest = length s - pos). { unfold rest. rewrite firstn_length, skipn_length. lia. }
  destruct (line_end_from rest (rev (firstn pos s)) pos (length rest) (le_n _)) as (m & Hs & H1 & H2 & H3).
  exists m. cbn [z_rest]. fold rest. split; [exact Hs|]. split; [apply H1; destruct rest; [cbn in Hl; lia|discriminate]|lia].
Qed.
End LineEnd.

(* ---- positions of matches ---- *)
Section Pos.
Variable U : uni.

Lemma match_at_bound r z m : wf r = true -> match_at U r z = Some m -> snd (fst m) <= z_idx z + length (z_rest z).
Proof.
  intros W H. destruct (match_sound U r z m W H) as (z' & c' & HM & ->). cbn.
  destruct (M_adv U r _ _ _ _ HM) as [w Ha]. pose proof (adv_len _ _ _ Ha). destruct Ha as (_ & _ & Ci). lia.
Qed.

Lemma zip_at_rest_len s pos e : length (z_rest (zip_at s pos e)) = Nat.min e (length s) - Nat.min pos (Nat.min e (length s)).
Proof. unfold zip_at. cbn. rewrite firstn_length, skipn_length. lia. Qed.

Lemma re_match_full r s pos m : wf r = true -> pos <= length s -> re_match U r s pos (length s) = Some m ->
  fst (fst m) = pos /\ pos <= snd (fst m) /\ snd (fst m) <= length s /\ (nullable r = false -> pos < snd (fst m)).
Proof.
  intros W Hp H. destruct (re_match_pos U r s pos (length s) m W H) as (A & B & Cn). repeat split; auto.
  unfold re_match in H. destruct (Nat.ltb _ _); [discriminate|]. apply (match_at_bound r _ m W) in H.
  rewrite zip_at_rest_len in H. rewrite zip_at_idx in H by (rewrite Nat.min_id; lia). rewrite Nat.min_id in H. lia.
Qed.

Lemma search_from_bound r : wf r = true -> forall fuel z m, search_from U r fuel z = Some m -> snd (fst m) <= z_idx z + length (z_rest z).
Proof.
  intros W. induction fuel as [|f IH]; intros z m H; cbn [search_from] in H; destruct (match_at U r z) as [x|] eqn:E.
  - inversion H; subst. eapply match_at_bound; eauto.
  - discriminate.
  - inversion H; subst. eapply match_at_bound; eauto.
  - destruct (zstep z) as [[ch z']|] eqn:Es; [|discriminate]. apply IH in H.
    pose proof (zstep_adv _ _ _ Es) as Ha. pose proof (adv_len _ _ _ Ha) as L. destruct Ha as (_ & _ & Ci). cbn in *. lia.
Qed.

Lemma re_search_full r s pos m : wf r = true -> pos <= length s -> re_search U r s pos (length s) = Some m ->
  pos <= fst (fst m) /\ fst (fst m) <= snd (fst m) /\ snd (fst m) <= length s /\ (nullable r = false -> fst (fst m) < snd (fst m)).
Proof.
  intros W Hp H. destruct (re_search_pos U r s pos (length s) m W H) as (A & B & Cn). repeat split; auto.
  unfold re_search in H. destruct (Nat.ltb _ _); [discriminate|]. apply (search_from_bound r W) in H.
  rewrite zip_at_rest_len in H. rewrite zip_at_idx in H by (rewrite Nat.min_id; lia). rewrite Nat.min_id in H. lia.
Qed.

(* a search result that starts where the search started is a match at that position *)
Lemma search_from_here r : wf r = true -> forall fuel z m, search_from U r fuel z = Some m -> fst (fst m) = z_idx z -> match_at U r z = Some m.
Proof.
  intros W fuel z m H Hs. destruct fuel as [|f]; cbn [search_from] in H; destruct (match_at U r z) as [x|] eqn:E; try (inversion H; subst; reflexivity); try discriminate.
  destruct (zstep z) as [[ch z']|] eqn:Es; [|discriminate]. destruct (search_from_pos U r W _ _ _ H) as (A & _ & _).
  destruct (zstep_adv _ _ _ Es) as (_ & _ & Ci). cbn in Ci. lia.
Qed.
End Pos.

(* ---- zippers over a fixed subject ---- *)
Definition zof (s : list Z) (z : zip) : Prop := subject z = s /\ z_idx z = length (z_pre z).

Lemma zof_zip_at s pos : pos <= length s -> zof s (zip_at s pos (length s)).
Proof.
  intros H. unfold zof, subject, zip_at. rewrite Nat.min_id. replace (Nat.min pos (length s)) with pos by lia. cbn.
  rewrite rev_involutive, rev_length, firstn_length. split; [|lia].
  rewrite (firstn_all2 (n := length s - pos)) by (rewrite skipn_length; lia). apply firstn_skipn.
Qed.

Lemma zof_adv s z z' w : zof s z -> adv z z' w -> zof s z'.
Proof.
  intros [Hs Hi] Ha. split; [rewrite (adv_subject _ _ _ Ha); exact Hs|].
  destruct Ha as (_ & B & Ci). rewrite B, Ci, app_length, rev_length. lia.
Qed.

Lemma zof_unique s z1 z2 : zof s z1 -> zof s z2 -> z_idx z1 = z_idx z2 -> z1 = z2.
Proof.
  intros [S1 I1] [S2 I2] E. unfold subject in *. destruct z1 as [p1 r1 i1], z2 as [p2 r2 i2]. cbn in *. subst i2.
  assert (Hl : length (rev p1) = length (rev p2)) by (rewrite !rev_length; lia).
  rewrite <- S2 in S1. 
  assert (Hp : rev p1 = rev p2 /\ r1 = r2).
  { clear - S1 Hl. revert S1 Hl. generalize (rev p1) (rev p2). induction l as [|x l IH]; intros [|y l0] E L; cbn in *; try lia.
    - split; [reflexivity|exact E].
    - inversion E; subst. destruct (IH l0 H1 ltac:(lia)) as [-> ->]. split; reflexivity. }
  destruct Hp as [Hp ->]. f_equal; [|lia]. rewrite <- (rev_involutive p1), <- (rev_involutive p2), Hp. reflexivity.
Qed.

Lemma zof_len s z : zof s z -> z_idx z + length (z_rest z) = length s.
Proof. intros [Hs Hi]. rewrite <- Hs. unfold subject. rewrite app_length, rev_length. lia. Qed.

Section BP.
Variable C : bcfg.
Let U := b_uni C.

Definition SP : list Z := [32%Z].
Definition WS4 : list Z := [32; 9; 11; 12]%Z.

Record bcfg_ok : Prop := {
  bk_line_end : b_line_end C = line_end_rx;
  bk_spec : forall r, solid (b_spec C r) = true;
  bk_strict : solid (b_strict_quote C) = true;
  bk_lb : forall w rk r, In (rk, r) (b_lb_rules C w) -> solid r = true;
  bk_item : forall b w, solid (b_item_rx C b w) = true;
  bk_blank : wf (b_blank_line C) = true;
  bk_blank_hf : hf WS4 10%Z (b_blank_line C) = true;
  bk_html_hf : forall rk, rk = RRawHtml \/ rk = RBlockHtml -> hf SP 60%Z (b_spec C rk) = true;
  bk_lb_hf : forall w rk r, In (rk, r) (b_lb_rules C w) -> rk = RRawHtml \/ rk = RBlockHtml -> hf SP 60%Z r = true;
  bk_bstart : solid (b_bracket_start C) = true;
  bk_bracket : wf (b_bracket C) = true;
  bk_href : solid (b_href_block C) = true;
  bk_title : wf (b_title C) = true;
  bk_btl : wf (b_blank_to_line C) = true
}.
Hypothesis OK : bcfg_ok.

(* ---- find_line_end ---- *)
Lemma fle_gt st : s_cursor st < cursor_max st -> s_cursor st < find_line_end C st /\ find_line_end C st <= cursor_max st.
Proof.
  intros H. unfold find_line_end. rewrite (bk_line_end OK). unfold cursor_max in *.
  destruct (line_end_search (b_uni C) (s_src st) (s_cursor st) H) as (m & Hs & H1 & H2). rewrite Hs. unfold Block.mend. lia.
Qed.

Lemma fle_le st : find_line_end C st <= cursor_max st.
Proof.
  unfold find_line_end, cursor_max. rewrite (bk_line_end OK).
  destruct (re_search (b_uni C) line_end_rx (s_src st) (s_cursor st) (length (s_src st))) as [m|] eqn:E; [|lia].
  assert (Hp : s_cursor st <= length (s_src st)).
  { unfold re_search in E. rewrite Nat.min_id in E. destruct (Nat.ltb_spec (length (s_src st)) (s_cursor st)); [discriminate|lia]. }
  destruct (re_search_full (b_uni C) line_end_rx _ _ _ (eq_refl true) Hp E) as (_ & _ & B & _). exact B.
Qed.

(* ---- state updates keep the source ---- *)
Lemma add_paragraph_src st t : s_src (add_paragraph st t) = s_src st /\ s_cursor (add_paragraph st t) = s_cursor st.
Proof. unfold add_paragraph. destruct (last_is_paragraph st) as [[b x]|]; split; reflexivity. Qed.

Lemma append_paragraph_spec st st' pos : append_paragraph C st = Some (st', pos) ->
  s_src st' = s_src st /\ s_cursor st' = s_cursor st /\ pos = find_line_end C st.
Proof. unfold append_paragraph. destruct (last_is_paragraph st) as [[b x]|]; [|discriminate]. intros [= <- <-]. repeat split. Qed.

(* ---- scanners ---- *)
Definition rules_solid (rules : list (brule * rx)) : Prop := forall rk r, In (rk, r) rules -> solid r = true.

Lemma named_solid rules : rules_solid (named C rules).
Proof. intros rk r Hin. unfold named in Hin. apply in_map_iff in Hin. destruct Hin as (x & [= <- <-] & _). apply (bk_spec OK). Qed.

Lemma bscan_at_spec rules z rk m : rules_solid rules -> bscan_at C rules z = Some (rk, m) ->
  exists r, In (rk, r) rules /\ match_at (b_uni C) r z = Some m /\ fst (fst m) = z_idx z /\ z_idx z < snd (fst m).
Proof.
  intros Hs. induction rules as [|[n r] rs IH]; cbn; [discriminate|].
  destruct (match_at (b_uni C) r z) as [x|] eqn:E.
  - intros [= <- <-]. exists r. split; [left; reflexivity|]. split; [exact E|].
    pose proof (Hs n r (or_introl eq_refl)) as S. destruct (match_at_pos _ _ _ _ (solid_wf _ S) E) as (A & _ & Cn).
    split; [exact A|apply Cn; apply solid_nn; exact S].
  - intros H. destruct (IH (fun rk r Hin => Hs rk r (or_intror Hin)) H) as (r0 & Hin & Hm). exists r0. split; [right; exact Hin|exact Hm].
Qed.

Lemma bscan_from_spec rules s : rules_solid rules -> forall fuel z rk m, zof s z -> bscan_from C rules fuel z = Some (rk, m) ->
  exists r z', In (rk, r) rules /\ zof s z' /\ match_at (b_uni C) r z' = Some m /\ fst (fst m) = z_idx z' /\ z_idx z <= z_idx z' /\ z_idx z' < snd (fst m).
Proof.
  intros Hs. induction fuel as [|f IH]; intros z rk m Hz H; cbn [bscan_from] in H; destruct (bscan_at C rules z) as [[rk' m']|] eqn:E.
  - inversion H; subst. destruct (bscan_at_spec _ _ _ _ Hs E) as (r & Hin & Hm & A & B). exists r, z. repeat split; auto; apply Hz.
  - discriminate.
  - inversion H; subst. destruct (bscan_at_spec _ _ _ _ Hs E) as (r & Hin & Hm & A & B). exists r, z. repeat split; auto; apply Hz.
  - destruct (zstep z) as [[ch z1]|] eqn:Es; [|discriminate]. pose proof (zstep_adv _ _ _ Es) as Ha.
    destruct (IH z1 rk m (zof_adv _ _ _ _ Hz Ha) H) as (r & z' & Hin & Hz' & Hm & A & B & Cc).
    exists r, z'. repeat split; auto; try apply Hz'. destruct Ha as (_ & _ & Ci). cbn in Ci. lia.
Qed.

Lemma match_le_len s z r m : zof s z -> wf r = true -> match_at (b_uni C) r z = Some m -> snd (fst m) <= length s.
Proof. intros Hz W H. pose proof (match_at_bound _ _ _ _ W H). pose proof (zof_len _ _ Hz). lia. Qed.

(* which patterns a rule name can stand for: its specification, or one of the list-item scanner's variants *)
Definition rule_of (rk : brule) (r : rx) : Prop :=
  rk = RListItem \/ r = b_spec C rk \/ exists w, In (rk, r) (b_lb_rules C w).

(* what a handler may assume about the match it is given *)
Definition mok (rk : brule) (m : mresult) (st : bstate) : Prop :=
  Block.mstart m = s_cursor st /\ s_cursor st < Block.mend m /\ Block.mend m <= cursor_max st /\
  exists r z, rule_of rk r /\ wf r = true /\ zof (s_src st) z /\ z_idx z = s_cursor st /\ match_at (b_uni C) r z = Some m.

Lemma rule_of_html rk r : rule_of rk r -> rk = RRawHtml \/ rk = RBlockHtml -> hf SP 60%Z r = true.
Proof.
  intros [H|[->|(w & Hin)]] Hk.
  - destruct Hk; subst; discriminate.
  - apply (bk_html_hf OK). exact Hk.
  - apply (bk_lb_hf OK w rk r Hin Hk).
Qed.

Lemma bsearch_spec rules s pos rk m : pos <= length s -> bsearch C rules s pos = Some (rk, m) ->
  forall st, s_src st = s -> s_cursor st = Block.mstart m -> pos <= Block.mstart m /\ mok rk m st.
Proof.
  intros Hp H st Hsrc Hcur. unfold bsearch in H. destruct (Nat.ltb_spec (length s) pos); [lia|].
  destruct (bscan_from_spec _ s (named_solid rules) _ _ _ _ (zof_zip_at s pos Hp) H) as (r & z' & Hin & Hz' & Hm & A & B & Cc).
  rewrite zip_at_idx in B by (rewrite Nat.min_id; lia).
  pose proof (named_solid rules rk r Hin) as S.
  pose proof (match_le_len s z' r m Hz' (solid_wf _ S) Hm) as Hlen.
  assert (E1 : Block.mstart m = z_idx z') by exact A.
  assert (E2 : z_idx z' < Block.mend m) by exact Cc.
  split; [lia|]. unfold mok, cursor_max. rewrite Hsrc, Hcur. split; [reflexivity|]. split; [lia|]. split; [exact Hlen|].
  exists r, z'. unfold named in Hin. apply in_map_iff in Hin. destruct Hin as (x & Hx & _). inversion Hx; subst x r.
  split; [right; left; reflexivity|]. split; [apply (solid_wf _ S)|]. split; [exact Hz'|]. split; [lia|exact Hm].
Qed.

Lemma bmatch_rules_spec rules s pos rk m : rules_solid rules -> pos <= length s -> bmatch_rules C rules s pos = Some (rk, m) ->
  exists r, In (rk, r) rules /\ match_at (b_uni C) r (zip_at s pos (length s)) = Some m /\ Block.mstart m = pos /\ pos < Block.mend m /\ Block.mend m <= length s.
Proof.
  intros Hs Hp H. unfold bmatch_rules in H. replace (Nat.min pos (length s)) with pos in H by lia.
  destruct (bscan_at_spec _ _ _ _ Hs H) as (r & Hin & Hm & A & B). rewrite zip_at_idx in A, B by (rewrite Nat.min_id; lia).
  exists r. split; [exact Hin|]. split; [exact Hm|]. split; [exact A|]. split; [exact B|].
  exact (match_le_len s _ r m (zof_zip_at s pos Hp) (solid_wf _ (Hs rk r Hin)) Hm).
Qed.

(* ---- handler contracts ---- *)
Definition hspec (h : bhandler) : Prop :=
  forall rk m st rf st2 rf2 np, mok rk m st -> h rk m st rf = Ok (st2, rf2, np) ->
    s_src st2 = s_src st /\ (forall p, Block.truthy np = Some p -> s_cursor st < p) /\ (Block.truthy np = None -> s_cursor st2 = s_cursor st).
Definition hnofuel (h : bhandler) : Prop := forall rk m st rf, mok rk m st -> h rk m st rf <> Fuel.

Lemma btruthy_some np p : Block.truthy np = Some p -> np = Some p /\ 0 < p.
Proof. destruct np as [[|n]|]; cbn; intros H; try discriminate. inversion H; subst. split; [reflexivity|lia]. Qed.

Lemma fle_ge_min st : Nat.min (s_cursor st) (cursor_max st) <= find_line_end C st.
Proof.
  destruct (Nat.lt_ge_cases (s_cursor st) (cursor_max st)) as [H|H].
  - destruct (fle_gt st H). lia.
  - unfold find_line_end, cursor_max in *. rewrite (bk_line_end OK).
    destruct (re_search (b_uni C) line_end_rx (s_src st) (s_cursor st) (length (s_src st))) as [m|] eqn:E; [|lia].
    assert (Hp : s_cursor st <= length (s_src st)).
    { unfold re_search in E. rewrite Nat.min_id in E. destruct (Nat.ltb_spec (length (s_src st)) (s_cursor st)); [discriminate|lia]. }
    destruct (re_search_full (b_uni C) line_end_rx _ _ _ (eq_refl true) Hp E) as (A & B & _ & _). unfold Block.mend. lia.
Qed.

Lemma find_from_ge sub : forall s i j, find_from sub s i = Some j -> i <= j.
Proof.
  induction s as [|c s IH]; intros i j H; cbn in H.
  - destruct sub; [inversion H; lia|discriminate].
  - destruct (prefixb sub (c :: s)); [inversion H; lia|]. apply IH in H. lia.
Qed.

Lemma find_ge s sub start i : find s sub start = Some i -> start <= i.
Proof. unfold find. apply find_from_ge. Qed.

Lemma html_to_end_spec st em sp st' e : s_cursor st < cursor_max st -> s_cursor st < sp -> html_to_end C st em sp = (st', e) ->
  s_src st' = s_src st /\ s_cursor st < e.
Proof.
  intros Hc Hsp H. unfold html_to_end in H. destruct (find (s_src st) em sp) as [mp|] eqn:Ef.
  - inversion H; subst; clear H. split; [reflexivity|]. apply find_ge in Ef.
    pose proof (fle_ge_min (set_cursor st mp)) as L. unfold cursor_max in *. cbn [set_cursor s_cursor s_src] in L. lia.
  - inversion H; subst. split; [reflexivity|exact Hc].
Qed.

(* a line on which an HTML rule matched is not blank: the blank-line search cannot succeed at the cursor *)
Lemma html_to_newline_spec st st' e r z m : s_cursor st < cursor_max st ->
  hf SP 60%Z r = true -> wf r = true -> zof (s_src st) z -> z_idx z = s_cursor st -> match_at (b_uni C) r z = Some m ->
  html_to_newline C st = (st', e) -> s_src st' = s_src st /\ s_cursor st < e.
Proof.
  intros Hc Hh W Hz Hi Hm H. unfold html_to_newline, rsearch in H. unfold cursor_max in *.
  replace (Nat.min (s_cursor st) (length (s_src st))) with (s_cursor st) in H by lia.
  destruct (re_search (b_uni C) (b_blank_line C) (s_src st) (s_cursor st) (length (s_src st))) as [mb|] eqn:E.
  - inversion H; subst; clear H. split; [reflexivity|].
    assert (Hle : s_cursor st <= length (s_src st)) by lia.
    destruct (re_search_full _ _ _ _ _ (bk_blank OK) Hle E) as (A & _ & _ & _).
    destruct (Nat.eq_dec (fst (fst mb)) (s_cursor st)) as [Eq|Ne]; [exfalso|unfold Block.mstart; lia].
    unfold re_search in E. rewrite Nat.min_id in E. destruct (Nat.ltb_spec (length (s_src st)) (s_cursor st)); [lia|].
    assert (Hz2 : zof (s_src st) (zip_at (s_src st) (s_cursor st) (length (s_src st)))) by (apply zof_zip_at; lia).
    assert (Ez : zip_at (s_src st) (s_cursor st) (length (s_src st)) = z).
    { apply (zof_unique (s_src st)); auto. rewrite zip_at_idx by (rewrite Nat.min_id; lia). lia. }
    rewrite Ez in E. apply (search_from_here _ _ (bk_blank OK)) in E; [|lia].
    destruct (match_sound _ _ _ _ (bk_blank OK) E) as (zb & cb & Mb & _).
    destruct (match_sound _ _ _ _ W Hm) as (za & ca & Ma & _).
    exact (never_both (b_uni C) SP WS4 60%Z 10%Z r (b_blank_line C) Hh (bk_blank_hf OK) eq_refl eq_refl ltac:(discriminate) _ _ _ _ _ _ _ Ma Mb).
  - inversion H; subst. split; [reflexivity|exact Hc].
Qed.

Lemma handle_html_spec rk m st rf st2 rf2 np : rk = RRawHtml \/ rk = RBlockHtml -> mok rk m st -> handle_html C m st rf = (st2, rf2, np) ->
  s_src st2 = s_src st /\ (forall p, Block.truthy np = Some p -> s_cursor st < p) /\ (Block.truthy np = None -> s_cursor st2 = s_cursor st).
Proof.
  intros Hk (M1 & M2 & M3 & M4) H. destruct M4 as (r & z & Hro & W & Hz & Hi & Hm). pose proof (rule_of_html rk r Hro Hk) as Hh.
  assert (Hc : s_cursor st < cursor_max st) by lia.
  assert (Hend : forall em st' e, html_to_end C st em (Block.mend m) = (st', e) -> (st', rf, Some e) = (st2, rf2, np) ->
            s_src st2 = s_src st /\ (forall p, Block.truthy np = Some p -> s_cursor st < p) /\ (Block.truthy np = None -> s_cursor st2 = s_cursor st)).
  { intros em st' e He Heq. inversion Heq; subst. destruct (html_to_end_spec _ _ _ _ _ Hc M2 He) as [S1 S2].
    split; [exact S1|]. split; [intros p Hp; apply btruthy_some in Hp; destruct Hp as [Hp _]; inversion Hp; subst; exact S2|].
    intros Hn. destruct e; [lia|discriminate]. }
  assert (Hnl : forall st' e, html_to_newline C st = (st', e) -> (st', rf, Some e) = (st2, rf2, np) ->
            s_src st2 = s_src st /\ (forall p, Block.truthy np = Some p -> s_cursor st < p) /\ (Block.truthy np = None -> s_cursor st2 = s_cursor st)).
  { intros st' e He Heq. inversion Heq; subst. destruct (html_to_newline_spec _ _ _ _ _ _ Hc Hh W Hz Hi Hm He) as [S1 S2].
    split; [exact S1|]. split; [intros p Hp; apply btruthy_some in Hp; destruct Hp as [Hp _]; inversion Hp; subst; exact S2|].
    intros Hn. destruct e; [lia|discriminate]. }
  assert (Hnone : (st, rf, @None nat) = (st2, rf2, np) ->
            s_src st2 = s_src st /\ (forall p, Block.truthy np = Some p -> s_cursor st < p) /\ (Block.truthy np = None -> s_cursor st2 = s_cursor st)).
  { intros Heq. inversion Heq; subst. split; [reflexivity|]. split; [intros p Hp; discriminate|reflexivity]. }
  unfold handle_html in H. cbv zeta in H.
  destruct (str_eqb _ [60; 33; 45; 45]%Z).
  { destruct (html_to_end C st _ _) as [st' e] eqn:He in H. exact (Hend _ _ _ He H). }
  destruct (str_eqb _ [60; 63]%Z).
  { destruct (html_to_end C st _ _) as [st' e] eqn:He in H. exact (Hend _ _ _ He H). }
  destruct (str_eqb _ [60; 33; 91; 67; 68; 65; 84; 65; 91]%Z).
  { destruct (html_to_end C st _ _) as [st' e] eqn:He in H. exact (Hend _ _ _ He H). }
  destruct (prefixb [60; 33]%Z _).
  { destruct (html_to_end C st _ _) as [st' e] eqn:He in H. exact (Hend _ _ _ He H). }
  destruct (_ && mem_str _ (b_block_tags C)).
  { destruct (html_to_newline C st) as [st' e] eqn:He in H. exact (Hnl _ _ He H). }
  destruct (_ && mem_str _ (b_pre_tags C)).
  { destruct (html_to_end C st _ _) as [st' e] eqn:He in H. exact (Hend _ _ _ He H). }
  destruct (_ && mem_str _ (b_block_tags C)).
  { destruct (html_to_newline C st) as [st' e] eqn:He in H. exact (Hnl _ _ He H). }
  destruct (append_paragraph C st) as [[st' pos]|] eqn:Ea.
  { inversion H; subst. destruct (append_paragraph_spec _ _ _ Ea) as (S1 & S2 & Hpos). destruct (fle_gt st Hc) as [L1 L2].
    split; [exact S1|]. split; [intros p Hp; apply btruthy_some in Hp; destruct Hp as [Hp _]; inversion Hp; subst; exact L1|].
    intros Hn. rewrite Hpos in Hn. destruct (find_line_end C st); [lia|discriminate]. }
  destruct (_ && _).
  { destruct (html_to_newline C st) as [st' e] eqn:He in H. exact (Hnl _ _ He H). }
  exact (Hnone H).
Qed.

Lemma rmatch_spec r s pos m : wf r = true -> rmatch C r s pos = Some m ->
  Block.mstart m = Nat.min pos (length s) /\ Nat.min pos (length s) <= Block.mend m /\ Block.mend m <= length s /\
  (nullable r = false -> Nat.min pos (length s) < Block.mend m).
Proof.
  intros W H. unfold rmatch in H. destruct (re_match_full (b_uni C) r s _ m W (Nat.le_min_r pos (length s)) H) as (A & B & Cc & D).
  unfold Block.mstart, Block.mend. repeat split; auto.
Qed.

Lemma rsearch_spec r s pos m : wf r = true -> rsearch C r s pos = Some m ->
  Nat.min pos (length s) <= Block.mstart m /\ Block.mstart m <= Block.mend m /\ Block.mend m <= length s.
Proof.
  intros W H. unfold rsearch in H. destruct (re_search_full (b_uni C) r s _ m W (Nat.le_min_r pos (length s)) H) as (A & B & Cc & D).
  unfold Block.mstart, Block.mend. repeat split; auto.
Qed.

Lemma some_spec (np : option nat) (c p : nat) : c < p ->
  (forall q, Block.truthy (Some p) = Some q -> c < q) /\ (Block.truthy (Some p) = None -> False).
Proof. intros H. split; [intros q Hq; apply btruthy_some in Hq; destruct Hq as [Hq _]; inversion Hq; subst; exact H|destruct p; [lia|discriminate]]. Qed.

Lemma btruthy_none x : Block.truthy (Some x) = None -> x = 0.
Proof. destruct x; [reflexivity|discriminate]. Qed.

Ltac finish_some2 Hlt :=
  split; [let q := fresh "q" in let Hq := fresh "Hq" in
          intros q Hq; apply btruthy_some in Hq; destruct Hq as [Hq _]; inversion Hq; subst; Hlt
         |let Hz := fresh "Hz" in
          intros Hz; exfalso; apply btruthy_none in Hz; Hlt].
Ltac finish_some Hlt := split; [try reflexivity|]; finish_some2 Hlt.

Lemma wf_fence_end c n : wf (fence_end_rx c n) = true.
Proof. reflexivity. Qed.

Lemma handle_fenced_spec rk m st rf st2 rf2 np : mok rk m st -> handle_fenced C m st rf = (st2, rf2, np) ->
  s_src st2 = s_src st /\ (forall p, Block.truthy np = Some p -> s_cursor st < p) /\ (Block.truthy np = None -> s_cursor st2 = s_cursor st).
Proof.
  intros (M1 & M2 & M3 & _) H. unfold handle_fenced in H. cbv zeta in H. unfold cursor_max in *.
  destruct (_ && memc 96%Z _).
  - inversion H; subst. split; [reflexivity|]. split; [intros p Hp; discriminate|reflexivity].
  - destruct (rsearch C (fence_end_rx _ _) (s_src st) (Block.mend m + 1)) as [m2|] eqn:E.
    + apply (rsearch_spec _ _ _ _ (wf_fence_end _ _)) in E. destruct E as (A & B & Cc).
      inversion H; subst. finish_some ltac:(lia).
    + inversion H; subst. finish_some ltac:(lia).
Qed.

Lemma parse_link_href_block_pos src sp h e : parse_link_href_block C src sp = Some (h, e) -> Nat.min sp (length src) <= e.
Proof.
  unfold parse_link_href_block. destruct (rmatch C (b_bracket_start C) src sp) as [m|] eqn:E.
  - pose proof (bk_bstart OK) as S. destruct (rmatch_spec _ _ _ _ (solid_wf _ S) E) as (A & B & Cc & D). specialize (D (solid_nn _ S)).
    destruct (rmatch C (b_bracket C) src (Block.mend m - 1)) as [m2|] eqn:E2; [|discriminate].
    destruct (rmatch_spec _ _ _ _ (bk_bracket OK) E2) as (A2 & B2 & _ & _). intros [= <- <-]. lia.
  - destruct (rmatch C (b_href_block C) src sp) as [m|] eqn:E2; [|discriminate].
    pose proof (bk_href OK) as S. destruct (rmatch_spec _ _ _ _ (solid_wf _ S) E2) as (A & B & Cc & D). specialize (D (solid_nn _ S)).
    destruct (match nth_error src (Block.mend m - 1) with Some a => _ | None => false end); intros [= <- <-]; lia.
Qed.

Lemma parse_link_title_pos_b src sp mx t e : Block.parse_link_title C src sp mx = Some (t, e) -> Nat.min sp (length src) <= e.
Proof.
  unfold Block.parse_link_title. destruct (re_match (b_uni C) (b_title C) src (Nat.min sp (length src)) mx) as [m|] eqn:E; [|discriminate].
  intros [= <- <-]. destruct (re_match_pos _ _ _ _ _ _ (bk_title OK) E) as (A & B & _). unfold Block.mend. exact B.
Qed.

Lemma handle_ref_link_spec rk m st rf st2 rf2 np : mok rk m st -> handle_ref_link C m st rf = Ok (st2, rf2, np) ->
  s_src st2 = s_src st /\ (forall p, Block.truthy np = Some p -> s_cursor st < p) /\ (Block.truthy np = None -> s_cursor st2 = s_cursor st).
Proof.
  intros (M1 & M2 & M3 & _) H. unfold cursor_max in *. assert (Hc : s_cursor st < cursor_max st) by (unfold cursor_max; lia).
  assert (Hnone : forall rf', Ok (st, rf', @None nat) = Ok (st2, rf2, np) ->
            s_src st2 = s_src st /\ (forall p, Block.truthy np = Some p -> s_cursor st < p) /\ (Block.truthy np = None -> s_cursor st2 = s_cursor st)).
  { intros rf' Heq. inversion Heq; subst. split; [reflexivity|]. split; [intros p Hp; discriminate|reflexivity]. }
  unfold handle_ref_link in H.
  destruct (append_paragraph C st) as [[st' pos]|] eqn:Ea.
  { inversion H; subst. destruct (append_paragraph_spec _ _ _ Ea) as (S1 & S2 & Hpos). destruct (fle_gt st Hc) as [L1 L2]. subst pos.
    split; [exact S1|]. finish_some2 ltac:(lia). }
  destruct (b_unikey C _); [exact (Hnone _ H)|].
  destruct (parse_link_href_block C (s_src st) (Block.mend m)) as [[href hp]|] eqn:Eh; [|exact (Hnone _ H)].
  apply parse_link_href_block_pos in Eh. cbv zeta in H.
  set (t := Block.parse_link_title C (s_src st) hp _) in H.
  assert (Ht : forall ti tp, t = Some (ti, tp) -> Nat.min hp (length (s_src st)) <= tp) by (intros ti tp Et; eapply parse_link_title_pos_b; exact Et).
  destruct t as [[ti tp]|].
  - specialize (Ht ti tp eq_refl).
    destruct (rmatch C (b_blank_to_line C) (s_src st) tp) as [m2|] eqn:E2.
    + destruct (rmatch_spec _ _ _ _ (bk_btl OK) E2) as (A2 & B2 & _ & _). cbn [Block.truthy] in H.
      assert (Hgt : s_cursor st < Block.mend m2) by lia.
      destruct (Block.mend m2) as [|e'] eqn:Em2; [lia|]. cbn [Block.truthy] in H.
      destruct (assoc_refs _ rf); [inversion H; subst; finish_some ltac:(lia)|].
      destruct (b_escape_url C _); [|discriminate]. inversion H; subst; finish_some ltac:(lia).
    + cbn [Block.truthy] in H.
      destruct (rmatch C (b_blank_to_line C) (s_src st) hp) as [m3|] eqn:E3; [|exact (Hnone _ H)].
      destruct (rmatch_spec _ _ _ _ (bk_btl OK) E3) as (A3 & B3 & _ & _).
      assert (Hgt : s_cursor st < Block.mend m3) by lia.
      destruct (Block.mend m3) as [|e'] eqn:Em3; [lia|]. cbn [Block.truthy] in H.
      destruct (assoc_refs _ rf); [inversion H; subst; finish_some ltac:(lia)|].
      destruct (b_escape_url C _); [|discriminate]. inversion H; subst; finish_some ltac:(lia).
  - cbn [Block.truthy] in H.
    destruct (rmatch C (b_blank_to_line C) (s_src st) hp) as [m3|] eqn:E3; [|exact (Hnone _ H)].
    destruct (rmatch_spec _ _ _ _ (bk_btl OK) E3) as (A3 & B3 & _ & _).
    assert (Hgt : s_cursor st < Block.mend m3) by lia.
    destruct (Block.mend m3) as [|e'] eqn:Em3; [lia|]. cbn [Block.truthy] in H.
    destruct (assoc_refs _ rf); [inversion H; subst; finish_some ltac:(lia)|].
    destruct (b_escape_url C _); [|discriminate]. inversion H; subst; finish_some ltac:(lia).
Qed.

(* ---- the scanner loop ---- *)
Lemma parse_loop_nofuel h : hspec h -> hnofuel h ->
  forall iters rules st rf, cursor_max st - s_cursor st < iters -> parse_loop C h iters rules st rf <> Fuel.
Proof.
  intros Hs Hn. induction iters as [|it IH]; intros rules st rf Hi; [lia|]. cbn [parse_loop].
  destruct (Nat.leb_spec (cursor_max st) (s_cursor st)); [discriminate|].
  destruct (bsearch C rules (s_src st) (s_cursor st)) as [[rk m]|] eqn:Eb; [|discriminate].
  set (st1 := if Nat.ltb (s_cursor st) (Block.mstart m) then set_cursor (add_paragraph st (get_text st (Block.mstart m))) (Block.mstart m) else st).
  assert (Hp : s_cursor st <= length (s_src st)) by (unfold cursor_max in *; lia).
  assert (Hst1 : s_src st1 = s_src st /\ s_cursor st1 = Block.mstart m /\ s_cursor st <= Block.mstart m).
  { destruct (bsearch_spec _ _ _ _ _ Hp Eb (set_cursor st (Block.mstart m)) eq_refl eq_refl) as [L _].
    unfold st1. destruct (Nat.ltb_spec (s_cursor st) (Block.mstart m)); cbn; [split; [apply add_paragraph_src|split; [reflexivity|lia]]|].
    split; [reflexivity|split; lia]. }
  destruct Hst1 as (S1 & S2 & S3).
  destruct (bsearch_spec _ _ _ _ _ Hp Eb st1 S1 S2) as [_ Hm].
  unfold bind. pose proof (Hn rk m st1 rf Hm) as Hf.
  destruct (h rk m st1 rf) as [[[st2 rf2] np]| |] eqn:Eh; [|discriminate|contradiction].
  destruct (Hs _ _ _ _ _ _ _ Hm Eh) as (T1 & T2 & T3).
  destruct (Block.truthy np) as [p|] eqn:Et.
  - specialize (T2 p eq_refl). apply IH. unfold cursor_max in *. cbn. rewrite T1, S1. lia.
  - specialize (T3 eq_refl). apply IH. destruct Hm as (_ & M2 & M3 & _).
    assert (Hc2 : s_cursor st2 < cursor_max st2) by (unfold cursor_max in *; rewrite T1, T3; lia).
    destruct (fle_gt st2 Hc2) as [L1 L2]. unfold cursor_max in *. cbn. destruct (add_paragraph_src st2 (get_text st2 (find_line_end C st2))) as [A1 A2].
    rewrite A1, T1, S1. rewrite T1 in L2. lia.
Qed.

Lemma parse_child_nofuel h st text rf : hspec h -> hnofuel h -> parse_child C h st text rf <> Fuel.
Proof.
  intros Hs Hn. unfold parse_child, bind.
  assert (Hm : cursor_max (child_state st text) - s_cursor (child_state st text) < S (length text)) by (unfold cursor_max, child_state; cbn; lia).
  pose proof (parse_loop_nofuel h Hs Hn (S (length text)) (nested_rules C st) (child_state st text) rf Hm) as H.
  destruct (parse_loop C h (S (length text)) (nested_rules C st) (child_state st text) rf) as [[c2 rf2]| |]; [discriminate|discriminate|contradiction].
Qed.

(* ---- block quotes ---- *)
Lemma mok_of_bmatch rules st rk m r : rules_solid rules -> s_cursor st <= length (s_src st) ->
  In (rk, r) rules -> match_at (b_uni C) r (zip_at (s_src st) (s_cursor st) (length (s_src st))) = Some m ->
  Block.mstart m = s_cursor st -> s_cursor st < Block.mend m -> Block.mend m <= length (s_src st) ->
  rule_of rk r -> mok rk m st.
Proof.
  intros Hs Hp Hin Hm A B Cc Hro. unfold mok, cursor_max. split; [exact A|]. split; [exact B|]. split; [exact Cc|].
  exists r, (zip_at (s_src st) (s_cursor st) (length (s_src st))).
  split; [exact Hro|]. split; [apply (solid_wf _ (Hs rk r Hin))|]. split; [apply zof_zip_at; exact Hp|].
  split; [apply zip_at_idx; rewrite Nat.min_id; exact Hp|exact Hm].
Qed.

Lemma named_in rules rk r : In (rk, r) (named C rules) -> r = b_spec C rk.
Proof. unfold named. intros H. apply in_map_iff in H. destruct H as (x & Hx & _). inversion Hx; subst. reflexivity. Qed.

Definition qspec (st : bstate) (x : res (bstate * refs * str * option nat)) : Prop :=
  x <> Fuel /\ forall st2 rf2 t2 e, x = Ok (st2, rf2, t2, e) ->
    s_src st2 = s_src st /\ (Block.truthy e = None -> s_cursor st <= s_cursor st2) /\ (forall p, Block.truthy e = Some p -> s_cursor st < p).

Lemma quote_lazy_loop_spec h : hspec h -> hnofuel h ->
  forall iters st rf text pb, cursor_max st - s_cursor st < iters -> qspec st (quote_lazy_loop C h iters st rf text pb).
Proof.
  intros Hs Hn. induction iters as [|it IH]; intros st rf text pb Hi; [lia|]. cbn [quote_lazy_loop].
  destruct (Nat.leb_spec (cursor_max st) (s_cursor st)).
  { split; [discriminate|]. intros st2 rf2 t2 e Heq. inversion Heq; subst. split; [reflexivity|]. split; [intros _; lia|intros p Hp; discriminate]. }
  assert (Hp : s_cursor st <= length (s_src st)) by (unfold cursor_max in *; lia).
  destruct (rmatch C (b_strict_quote C) (s_src st) (s_cursor st)) as [m3|] eqn:E3.
  - pose proof (bk_strict OK) as S. destruct (rmatch_spec _ _ _ _ (solid_wf _ S) E3) as (A & B & Cc & D). specialize (D (solid_nn _ S)).
    assert (Hi' : cursor_max (set_cursor st (Block.mend m3)) - s_cursor (set_cursor st (Block.mend m3)) < it) by (unfold cursor_max in *; cbn; lia).
    destruct (IH (set_cursor st (Block.mend m3)) rf (text ++ quote_piece C (group0 (s_src st) m3))
                 (match strip_ws C (quote_piece C (group0 (s_src st) m3)) with [] => true | _ => match re_search (b_uni C) (b_line_blank_end C) (quote_piece C (group0 (s_src st) m3)) 0 (length (quote_piece C (group0 (s_src st) m3))) with Some _ => true | None => false end end) Hi') as [F1 F2].
    split; [exact F1|]. intros st2 rf2 t2 e Heq. destruct (F2 _ _ _ _ Heq) as (G1 & G2 & G3). cbn in G1, G2, G3.
    split; [exact G1|]. split; [intros Hn0; specialize (G2 Hn0); lia|]. intros p Hp'. specialize (G3 p Hp'). lia.
  - destruct pb.
    { split; [discriminate|]. intros st2 rf2 t2 e Heq. inversion Heq; subst. split; [reflexivity|]. split; [intros _; lia|intros p Hp'; discriminate]. }
    assert (Hlazy : forall st' rf', s_src st' = s_src st -> s_cursor st' = s_cursor st ->
              qspec st (quote_lazy_loop C h it (set_cursor st' (find_line_end C st')) rf' (text ++ expand_leading_tab C (get_text st' (find_line_end C st')) 3) false)).
    { intros st' rf' S1 S2. assert (Hc' : s_cursor st' < cursor_max st') by (unfold cursor_max in *; rewrite S1, S2; lia).
      destruct (fle_gt st' Hc') as [L1 L2].
      assert (Hi' : cursor_max (set_cursor st' (find_line_end C st')) - s_cursor (set_cursor st' (find_line_end C st')) < it) by (unfold cursor_max in *; cbn; rewrite S1 in *; lia).
      destruct (IH _ rf' (text ++ expand_leading_tab C (get_text st' (find_line_end C st')) 3) false Hi') as [F1 F2].
      split; [exact F1|]. intros st2 rf2 t2 e Heq. destruct (F2 _ _ _ _ Heq) as (G1 & G2 & G3). cbn in G1, G2, G3.
      split; [rewrite G1; exact S1|]. split; [intros Hn0; specialize (G2 Hn0); lia|]. intros p Hp'. specialize (G3 p Hp'). lia. }
    destruct (bmatch_rules C (named C QUOTE_BREAKS) (s_src st) (s_cursor st)) as [[rk m4]|] eqn:Eb.
    + destruct (bmatch_rules_spec _ _ _ _ _ (named_solid _) Hp Eb) as (r & Hin & Hm & A & B & Cc).
      assert (Hmok : mok rk m4 st).
      { apply (mok_of_bmatch (named C QUOTE_BREAKS) st rk m4 r (named_solid _) Hp Hin Hm A B Cc).
        right; left. exact (named_in _ _ _ Hin). }
      unfold bind. pose proof (Hn rk m4 st rf Hmok) as Hf.
      destruct (h rk m4 st rf) as [[[st2 rf2] np]| |] eqn:Eh; [|split; [discriminate|intros; discriminate]|contradiction].
      destruct (Hs _ _ _ _ _ _ _ Hmok Eh) as (T1 & T2 & T3).
      destruct (Block.truthy np) as [p|] eqn:Et.
      * split; [discriminate|]. intros st3 rf3 t3 e Heq. inversion Heq; subst. split; [exact T1|].
        specialize (T2 p eq_refl). apply btruthy_some in Et. destruct Et as [_ Hpos].
        split; [intros Hn0; destruct p; [lia|discriminate]|intros q Hq; apply btruthy_some in Hq; destruct Hq as [Hq _]; inversion Hq; subst; exact T2].
      * exact (Hlazy st2 rf2 T1 (T3 eq_refl)).
    + exact (Hlazy st rf eq_refl eq_refl).
Qed.

Lemma extract_block_quote_spec h m st rf : hspec h -> hnofuel h -> s_cursor st < Block.mend m -> Block.mend m <= cursor_max st ->
  extract_block_quote C h m st rf <> Fuel /\
  forall st2 rf2 t2 e, extract_block_quote C h m st rf = Ok (st2, rf2, t2, e) ->
    s_src st2 = s_src st /\ (Block.truthy e = None -> s_cursor st < s_cursor st2) /\ (forall p, Block.truthy e = Some p -> s_cursor st < p).
Proof.
  intros Hs Hn M2 M3. unfold extract_block_quote. cbv zeta. unfold cursor_max in *.
  destruct (match bmatch_rules C (named C [RBlankLine; RIndent; RFenced]) _ 0 with Some _ => true | None => false end).
  - destruct (rmatch C (b_strict_quote C) (s_src st) (s_cursor (set_cursor st (Block.mend m + 1)))) as [m2|] eqn:E2.
    + split; [discriminate|]. intros st2 rf2 t2 e Heq. inversion Heq; subst. cbn.
      pose proof (bk_strict OK) as S. destruct (rmatch_spec _ _ _ _ (solid_wf _ S) E2) as (A & B & Cc & D). cbn in B.
      split; [reflexivity|]. split; [intros _; lia|intros p Hp; discriminate].
    + split; [discriminate|]. intros st2 rf2 t2 e Heq. inversion Heq; subst. cbn.
      split; [reflexivity|]. split; [intros _; lia|intros p Hp; discriminate].
  - unfold bind.
    assert (Hi : cursor_max (set_cursor st (Block.mend m + 1)) - s_cursor (set_cursor st (Block.mend m + 1)) < S (length (s_src st))) by (unfold cursor_max; cbn; lia).
    destruct (quote_lazy_loop_spec h Hs Hn (S (length (s_src st))) (set_cursor st (Block.mend m + 1)) rf
                (sub_del C (b_quote_trim C) (expand_leading_tab C (Block.group_n (s_src st) m 1 ++ [10%Z]) 3)) false Hi) as [F1 F2].
    destruct (quote_lazy_loop C h (S (length (s_src st))) _ rf _ false) as [[[[st2 rf2] t2] e]| |] eqn:El; [|split; [discriminate|intros; discriminate]|contradiction].
    split; [discriminate|]. intros st3 rf3 t3 e3 Heq. inversion Heq; subst.
    destruct (F2 _ _ _ _ eq_refl) as (G1 & G2 & G3). cbn in G1, G2, G3.
    split; [exact G1|]. split; [intros Hn0; specialize (G2 Hn0); lia|intros p Hp; specialize (G3 p Hp); lia].
Qed.

Lemma handle_quote_spec h rk m st rf : hspec h -> hnofuel h -> mok rk m st ->
  handle_quote C h m st rf <> Fuel /\
  forall st2 rf2 np, handle_quote C h m st rf = Ok (st2, rf2, np) ->
    s_src st2 = s_src st /\ (forall p, Block.truthy np = Some p -> s_cursor st < p) /\ (Block.truthy np = None -> s_cursor st2 = s_cursor st).
Proof.
  intros Hs Hn (M1 & M2 & M3 & _). unfold handle_quote, bind.
  destruct (extract_block_quote_spec h m st rf Hs Hn M2 M3) as [F1 F2].
  destruct (extract_block_quote C h m st rf) as [[[[st2 rf2] text] e]| |] eqn:Ee; [|split; [discriminate|intros; discriminate]|contradiction].
  destruct (F2 _ _ _ _ eq_refl) as (G1 & G2 & G3).
  pose proof (parse_child_nofuel h st2 text rf2 Hs Hn) as Hc.
  destruct (parse_child C h st2 text rf2) as [[ch rf3]| |]; [|split; [discriminate|intros; discriminate]|contradiction].
  destruct (Block.truthy e) as [p|] eqn:Et.
  - split; [discriminate|]. intros st3 rf4 np Heq. inversion Heq; subst. split; [exact G1|].
    specialize (G3 p eq_refl). finish_some2 ltac:(lia).
  - split; [discriminate|]. intros st3 rf4 np Heq. inversion Heq; subst. split; [exact G1|].
    specialize (G2 eq_refl). finish_some2 ltac:(lia).
Qed.

(* ---- lists ---- *)
Definition ispec (st : bstate) (x : res item_out) : Prop :=
  x <> Fuel /\ forall st2 rf2 src' next tight brk, x = Ok (st2, rf2, src', next, tight, brk) ->
    s_src st2 = s_src st /\ (brk = None -> s_cursor st <= s_cursor st2) /\ (forall g, next = Some g -> s_cursor st < s_cursor st2 /\ s_cursor st < cursor_max st) /\
    (forall idx e, brk = Some (idx, e) -> s_cursor st < e).

Lemma ispec_ok st st2 rf2 src' tight : s_src st2 = s_src st -> s_cursor st <= s_cursor st2 ->
  ispec st (Ok (st2, rf2, src', None, tight, None)).
Proof.
  intros S1 S2. split; [discriminate|]. intros ? ? ? ? ? ? Heq. inversion Heq; subst.
  split; [exact S1|]. split; [intros _; exact S2|]. split; [intros g Hg; discriminate|intros idx e He; discriminate].
Qed.

Lemma ispec_weaken st st' x : s_src st' = s_src st -> s_cursor st <= s_cursor st' -> ispec st' x -> ispec st x.
Proof.
  intros S1 S2 [F1 F2]. split; [exact F1|]. intros st2 rf2 src' next tight brk Heq. destruct (F2 _ _ _ _ _ _ Heq) as (G1 & G2 & G3 & G4).
  split; [rewrite G1; exact S1|]. split; [intros Hb; specialize (G2 Hb); lia|]. split; [intros g Hg; specialize (G3 g Hg); unfold cursor_max in *; rewrite S1 in G3; lia|].
  intros idx e He. specialize (G4 idx e He). lia.
Qed.

Lemma item_loop_spec h sc cs te : hspec h -> hnofuel h -> rules_solid sc ->
  (forall rk r, In (rk, r) sc -> rule_of rk r) ->
  forall iters st rf src pb tight pos, pos = s_cursor st -> cursor_max st - s_cursor st < iters ->
  ispec st (item_loop C h iters sc cs te st rf src pb tight pos).
Proof.
  intros Hs Hn Hsol Hhf. induction iters as [|it IH]; intros st rf src pb tight pos Hpos Hi; [lia|]. subst pos. cbn [item_loop].
  destruct (Nat.leb_spec (cursor_max st) (s_cursor st)); [apply ispec_ok; [reflexivity|lia]|].
  destruct (fle_gt st H) as [L1 L2].
  assert (Hrec : forall st' rf' src' pb' tight', s_src st' = s_src st -> s_cursor st' = s_cursor st ->
            ispec st (item_loop C h it sc cs te (set_cursor st' (find_line_end C st)) rf' src' pb' tight' (find_line_end C st))).
  { intros st' rf' src' pb' tight' S1 S2.
    apply (ispec_weaken st (set_cursor st' (find_line_end C st))); [cbn; exact S1|cbn; lia|].
    apply IH; [reflexivity|]. unfold cursor_max in *. cbn. rewrite S1. lia. }
  destruct (re_match (b_uni C) (b_blank_line C) _ 0 _); [apply Hrec; reflexivity|].
  destruct (prefixb cs _).
  { destruct (pb && te && strip_ws_empty C src); [apply ispec_ok; [reflexivity|lia]|apply Hrec; reflexivity]. }
  assert (Hafter : forall st' rf', s_src st' = s_src st -> s_cursor st' = s_cursor st ->
            ispec st (if pb then Ok (st', rf', src, None, tight, None)
                      else item_loop C h it sc cs te (set_cursor st' (find_line_end C st)) rf' (src ++ expand_leading_tab C (get_text st (find_line_end C st)) 4) pb tight (find_line_end C st))).
  { intros st' rf' S1 S2. destruct pb; [apply ispec_ok; [exact S1|lia]|apply Hrec; assumption]. }
  assert (Hp : s_cursor st <= length (s_src st)) by (unfold cursor_max in *; lia).
  destruct (bmatch_rules C sc (s_src st) (s_cursor st)) as [[rk m]|] eqn:Eb; [|apply Hafter; reflexivity].
  destruct (bmatch_rules_spec _ _ _ _ _ Hsol Hp Eb) as (r & Hin & Hm & A & B & Cc).
  assert (Hmok : mok rk m st) by (apply (mok_of_bmatch sc st rk m r Hsol Hp Hin Hm A B Cc); apply (Hhf rk r Hin)).
  assert (Hother : ispec st (do (st2, rf2, np) <- h rk m st rf;
                             match Block.truthy np with
                             | Some p => Ok (st2, rf2, src, None, tight, Some (length (s_tokens st), p))
                             | None => (if pb then Ok (st2, rf2, src, None, tight, None)
                                        else item_loop C h it sc cs te (set_cursor st2 (find_line_end C st)) rf2 (src ++ expand_leading_tab C (get_text st (find_line_end C st)) 4) pb tight (find_line_end C st))
                             end)).
  { unfold bind. pose proof (Hn rk m st rf Hmok) as Hf.
    destruct (h rk m st rf) as [[[st2 rf2] np]| |] eqn:Eh; [|split; [discriminate|intros; discriminate]|contradiction].
    destruct (Hs _ _ _ _ _ _ _ Hmok Eh) as (T1 & T2 & T3).
    destruct (Block.truthy np) as [p|] eqn:Et.
    - split; [discriminate|]. intros ? ? ? ? ? ? Heq. inversion Heq; subst. split; [exact T1|].
      split; [intros Hb; discriminate|]. split; [intros g Hg; discriminate|]. intros idx e He. inversion He; subst. apply T2. reflexivity.
    - apply Hafter; [exact T1|apply T3; reflexivity]. }
  destruct rk; try exact Hother.
  - (* list: stop *) apply ispec_ok; [reflexivity|lia].
  - (* list_item: next item *)
    split; [discriminate|]. intros ? ? ? ? ? ? Heq. inversion Heq; subst. cbn.
    split; [reflexivity|]. split; [intros _; lia|]. split; [intros g Hg; split; [lia|exact H]|intros idx e He; discriminate].
Qed.

Definition lspec (st : bstate) (x : res (bstate * refs * list btok * bool * option (nat * nat))) : Prop :=
  x <> Fuel /\ forall st2 rf2 items tight brk, x = Ok (st2, rf2, items, tight, brk) ->
    s_src st2 = s_src st /\ (brk = None -> s_cursor st <= s_cursor st2) /\ (forall idx e, brk = Some (idx, e) -> s_cursor st < e).

Lemma sc_props bullet w :
  let sc := match b_lb_rules C w with
            | x :: rest => x :: (RListItem, b_item_rx C bullet w) :: rest
            | [] => [(RListItem, b_item_rx C bullet w)]
            end in
  rules_solid sc /\ (forall rk r, In (rk, r) sc -> rule_of rk r).
Proof.
  cbv zeta. destruct (b_lb_rules C w) as [|x rest] eqn:El.
  - split.
    + intros rk r [Hin|[]]. inversion Hin; subst. apply (bk_item OK).
    + intros rk r [Hin|[]]. inversion Hin; subst. left. reflexivity.
  - assert (Hlb : forall rk r, In (rk, r) (x :: rest) -> In (rk, r) (b_lb_rules C w)) by (intros; rewrite El; assumption).
    split.
    + intros rk r [Hin|[Hin|Hin]].
      * apply (bk_lb OK w rk r). apply Hlb. left. exact Hin.
      * inversion Hin; subst. apply (bk_item OK).
      * apply (bk_lb OK w rk r). apply Hlb. right. exact Hin.
    + intros rk r [Hin|[Hin|Hin]].
      * right; right. exists w. apply Hlb. left. exact Hin.
      * inversion Hin; subst. left. reflexivity.
      * right; right. exists w. apply Hlb. right. exact Hin.
Qed.

Lemma items_loop_spec h bullet : hspec h -> hnofuel h ->
  forall iters groups st rf items tight, cursor_max st - s_cursor st < iters -> lspec st (items_loop C h iters bullet groups st rf items tight).
Proof.
  intros Hs Hn. induction iters as [|it IH]; intros [[spaces marker] text0] st rf items tight Hi; [lia|]. cbn [items_loop].
  destruct (compile_continue_width C text0 (length spaces + length marker)) as [text cw].
  destruct (sc_props bullet (Nat.min (length spaces + length marker) 3)) as [Hsol Hhf]. cbv zeta in Hsol, Hhf.
  set (sc := match b_lb_rules C (Nat.min (length spaces + length marker) 3) with
             | x :: rest => x :: (RListItem, b_item_rx C bullet (Nat.min (length spaces + length marker) 3)) :: rest
             | [] => [(RListItem, b_item_rx C bullet (Nat.min (length spaces + length marker) 3))]
             end) in *.
  assert (Hi2 : cursor_max st - s_cursor st < S (length (s_src st))) by (unfold cursor_max; lia).
  destruct (item_loop_spec h sc (repeat 32%Z cw) (match text with [] => true | _ => false end) Hs Hn Hsol Hhf
              (S (length (s_src st))) st rf [] false tight (s_cursor st) eq_refl Hi2) as [F1 F2].
  unfold bind.
  destruct (item_loop C h (S (length (s_src st))) sc _ _ st rf [] false tight (s_cursor st)) as [[[[[[st2 rf2] src] next] tight2] brk]| |] eqn:Ei;
    [|split; [discriminate|intros; discriminate]|contradiction].
  destruct (F2 _ _ _ _ _ _ eq_refl) as (G1 & G2 & G3 & G4).
  pose proof (parse_child_nofuel h st2 (strip_end C (text ++ clean_list_item_text C src cw)) rf2 Hs Hn) as Hc.
  destruct (parse_child C h st2 _ rf2) as [[ch rf3]| |]; [|split; [discriminate|intros; discriminate]|contradiction].
  destruct next as [g|].
  - specialize (G3 g eq_refl).
    destruct G3 as [G3 G3']. assert (Hi3 : cursor_max st2 - s_cursor st2 < it) by (unfold cursor_max in *; rewrite G1; lia).
    destruct (IH g st2 rf3 (items ++ [BListItem ch]) (if tight2 && is_loose ch 0 then false else tight2) Hi3) as [K1 K2].
    split; [exact K1|]. intros st3 rf4 items3 tight3 brk3 Heq. destruct (K2 _ _ _ _ _ Heq) as (J1 & J2 & J3).
    split; [rewrite J1; exact G1|]. split; [intros Hb; specialize (J2 Hb); lia|intros idx e He; specialize (J3 idx e He); lia].
  - split; [discriminate|]. intros st3 rf4 items3 tight3 brk3 Heq. inversion Heq; subst.
    split; [exact G1|]. split; [exact G2|exact G4].
Qed.

Lemma handle_list_spec h rk m st rf : hspec h -> hnofuel h -> mok rk m st ->
  handle_list C h m st rf <> Fuel /\
  forall st2 rf2 np, handle_list C h m st rf = Ok (st2, rf2, np) ->
    s_src st2 = s_src st /\ (forall p, Block.truthy np = Some p -> s_cursor st < p) /\ (Block.truthy np = None -> s_cursor st2 = s_cursor st).
Proof.
  intros Hs Hn (M1 & M2 & M3 & _). assert (Hc : s_cursor st < cursor_max st) by lia. unfold handle_list. cbv zeta.
  destruct (if _ || _ then append_paragraph C st else None) as [[st' pos]|] eqn:Ea.
  - split; [discriminate|]. intros st2 rf2 np Heq. inversion Heq; subst.
    assert (Ha : append_paragraph C st = Some (st2, pos)) by (destruct (_ || _); [exact Ea|discriminate]).
    destruct (append_paragraph_spec _ _ _ Ha) as (S1 & S2 & Hpos). destruct (fle_gt st Hc) as [L1 L2]. subst pos.
    split; [exact S1|]. finish_some2 ltac:(lia).
  - unfold bind.
    assert (Hi : cursor_max (set_cursor st (Block.mend m + 1)) - s_cursor (set_cursor st (Block.mend m + 1)) < S (length (s_src st))) by (unfold cursor_max; cbn; lia).
    destruct (items_loop_spec h (last (Block.group_n (s_src st) m 2) 0%Z) Hs Hn (S (length (s_src st)))
                (Block.group_n (s_src st) m 1, Block.group_n (s_src st) m 2, Block.group_n (s_src st) m 3)
                (set_cursor st (Block.mend m + 1)) rf [] true Hi) as [F1 F2].
    destruct (items_loop C h (S (length (s_src st))) _ _ (set_cursor st (Block.mend m + 1)) rf [] true) as [[[[[st2 rf2] items] tight] brk]| |] eqn:El;
      [|split; [discriminate|intros; discriminate]|contradiction].
    destruct (F2 _ _ _ _ _ eq_refl) as (G1 & G2 & G3). cbn in G1, G2, G3.
    destruct brk as [[idx e]|].
    + split; [discriminate|]. intros st3 rf3 np Heq. inversion Heq; subst. split; [exact G1|].
      specialize (G3 idx e eq_refl). finish_some2 ltac:(lia).
    + split; [discriminate|]. intros st3 rf3 np Heq. inversion Heq; subst. split; [exact G1|].
      specialize (G2 eq_refl). finish_some2 ltac:(lia).
Qed.

(* ---- one level of handlers ---- *)
Definition hcontract (x : res bres) (st : bstate) : Prop :=
  x <> Fuel /\ forall st2 rf2 np, x = Ok (st2, rf2, np) ->
    s_src st2 = s_src st /\ (forall p, Block.truthy np = Some p -> s_cursor st < p) /\ (Block.truthy np = None -> s_cursor st2 = s_cursor st).

Lemma contract_pure (b : bres) st :
  (forall st2 rf2 np, b = (st2, rf2, np) ->
     s_src st2 = s_src st /\ (forall p, Block.truthy np = Some p -> s_cursor st < p) /\ (Block.truthy np = None -> s_cursor st2 = s_cursor st)) ->
  hcontract (Ok b) st.
Proof. intros H. split; [discriminate|]. intros st2 rf2 np Heq. inversion Heq; subst. apply (H st2 rf2 np). reflexivity. Qed.

Lemma handle_with_contract h rk m st rf : hspec h -> hnofuel h -> mok rk m st -> hcontract (handle_with C h rk m st rf) st.
Proof.
  intros Hs Hn Hm. pose proof Hm as (M1 & M2 & M3 & M4). assert (Hc : s_cursor st < cursor_max st) by lia. unfold cursor_max in *.
  assert (Hpar : forall st' pos rf', append_paragraph C st = Some (st', pos) -> hcontract (Ok (st', rf', Some pos)) st).
  { intros st' pos rf' Ea. apply contract_pure. intros st2 rf2 np Heq. inversion Heq; subst.
    destruct (append_paragraph_spec _ _ _ Ea) as (S1 & S2 & Hpos). destruct (fle_gt st Hc) as [L1 L2]. subst pos.
    split; [exact S1|]. finish_some2 ltac:(lia). }
  unfold handle_with. destruct rk.
  - (* fenced *) apply contract_pure. intros st2 rf2 np Heq. exact (handle_fenced_spec RFenced m st rf st2 rf2 np Hm Heq).
  - (* indent *) destruct (append_paragraph C st) as [[st' pos]|] eqn:Ea; [exact (Hpar _ _ _ eq_refl)|].
    apply contract_pure. intros st2 rf2 np Heq. inversion Heq; subst. finish_some ltac:(lia).
  - (* atx *) apply contract_pure. intros st2 rf2 np Heq. inversion Heq; subst. finish_some ltac:(lia).
  - (* setex *) destruct (last_is_paragraph st) as [[before t]|].
    + apply contract_pure. intros st2 rf2 np Heq. inversion Heq; subst. finish_some ltac:(lia).
    + set (sub := if Nat.leb (b_max_nested C) (s_depth st) then [RThematic] else [RThematic; RList]) in *.
      destruct (bmatch_rules C (named C sub) (s_src st) (s_cursor st)) as [[rk2 m2]|] eqn:Eb.
      * assert (Hp : s_cursor st <= length (s_src st)) by lia.
        destruct (bmatch_rules_spec _ _ _ _ _ (named_solid _) Hp Eb) as (r & Hin & Hmm & A & B & Cc).
        assert (Hmok : mok rk2 m2 st).
        { apply (mok_of_bmatch (named C sub) st rk2 m2 r (named_solid _) Hp Hin Hmm A B Cc).
          right; left. exact (named_in _ _ _ Hin). }
        split; [apply Hn; exact Hmok|]. intros st2 rf2 np Heq. exact (Hs _ _ _ _ _ _ _ Hmok Heq).
      * apply contract_pure. intros st2 rf2 np Heq. inversion Heq; subst. split; [reflexivity|]. split; [intros p Hp; discriminate|reflexivity].
  - (* thematic *) apply contract_pure. intros st2 rf2 np Heq. inversion Heq; subst. finish_some ltac:(lia).
  - (* quote *) exact (handle_quote_spec h RQuote m st rf Hs Hn Hm).
  - (* list *) exact (handle_list_spec h RList m st rf Hs Hn Hm).
  - (* ref_link *) split.
    + unfold handle_ref_link. destruct (append_paragraph C st) as [[? ?]|]; [discriminate|]. destruct (b_unikey C _); [discriminate|].
      destruct (parse_link_href_block C _ _) as [[? ?]|]; [|discriminate]. cbv zeta.
      repeat match goal with
             | |- context [match ?x with Some _ => _ | None => _ end] => destruct x
             | |- context [let (_, _) := ?x in _] => destruct x
             | |- context [if ?b then _ else _] => destruct b
             end; discriminate.
    + intros st2 rf2 np Heq. exact (handle_ref_link_spec RRefLink m st rf st2 rf2 np Hm Heq).
  - (* raw_html *) apply contract_pure. intros st2 rf2 np Heq. exact (handle_html_spec RRawHtml m st rf st2 rf2 np (or_introl eq_refl) Hm Heq).
  - (* blank *) apply contract_pure. intros st2 rf2 np Heq. inversion Heq; subst. finish_some ltac:(lia).
  - (* block_html *) apply contract_pure. intros st2 rf2 np Heq. exact (handle_html_spec RBlockHtml m st rf st2 rf2 np (or_intror eq_refl) Hm Heq).
  - (* list_item is never dispatched *) split; [discriminate|intros; discriminate].
Qed.

Lemma bhandle_contract : forall fuel, hspec (bhandle C fuel) /\ hnofuel (bhandle C fuel).
Proof.
  induction fuel as [|f [IHs IHn]]; cbn [bhandle].
  - split; [intros rk m st rf st2 rf2 np _ H; discriminate|intros rk m st rf _; discriminate].
  - split.
    + intros rk m st rf st2 rf2 np Hm H. exact (proj2 (handle_with_contract _ rk m st rf IHs IHn Hm) _ _ _ H).
    + intros rk m st rf Hm. exact (proj1 (handle_with_contract _ rk m st rf IHs IHn Hm)).
Qed.

(* every loop of the block parser model terminates, for every text and every nesting budget *)
Theorem block_parse_never_out_of_fuel s : block_parse C s <> Fuel.
Proof.
  unfold block_parse, bind.
  destruct (bhandle_contract (length s + 2 * b_max_nested C + 6)) as [Hs Hn].
  pose proof (parse_loop_nofuel _ Hs Hn (S (length s)) (b_rules C) {| s_src := s; s_cursor := 0; s_tokens := []; s_depth := 0 |} []) as H.
  specialize (H ltac:(unfold cursor_max; cbn; lia)).
  destruct (parse_loop C _ (S (length s)) (b_rules C) _ []) as [[st2 rf]| |]; [discriminate|discriminate|contradiction].
Qed.

(* the cursor of the scanner loop strictly increases with every handler that accepts *)
Theorem block_handlers_advance fuel rk m st rf st2 rf2 np p : mok rk m st ->
  bhandle C fuel rk m st rf = Ok (st2, rf2, np) -> Block.truthy np = Some p -> s_cursor st < p.
Proof. intros Hm H Hp. destruct (bhandle_contract fuel) as [Hs _]. exact (proj1 (proj2 (Hs _ _ _ _ _ _ _ Hm H)) p Hp). Qed.
End BP.

(* ---- the reference table only grows, and only under keys that are not yet defined ---- *)
Section Refs.
Variable C : bcfg.

Lemma handle_ref_link_first_wins m st rf st2 rf2 np : handle_ref_link C m st rf = Ok (st2, rf2, np) ->
  rf2 = rf \/ exists key v, rf2 = rf ++ [(key, v)] /\ assoc_refs key rf = false.
Proof.
  unfold handle_ref_link. destruct (append_paragraph C st) as [[? ?]|]; [intros H; inversion H; left; reflexivity|].
  destruct (b_unikey C _) eqn:Ek; [intros H; inversion H; left; reflexivity|].
  destruct (parse_link_href_block C _ _) as [[href hp]|]; [|intros H; inversion H; left; reflexivity]. cbv zeta.
  repeat match goal with
         | |- context [match ?x with Some _ => _ | None => _ end] => destruct x eqn:?
         | |- context [let (_, _) := ?x in _] => destruct x eqn:?
         end;
  try (intros H; inversion H; left; reflexivity);
  try (destruct (assoc_refs _ rf) eqn:Ea; [intros H; inversion H; left; reflexivity|];
       destruct (b_escape_url C _); [|discriminate]; intros H; inversion H; subst; right; eexists; eexists; split; [reflexivity|exact Ea]).
  all: try (cbn [Block.truthy]; repeat match goal with |- context [match ?x with 0 => _ | S _ => _ end] => destruct x end).
  all: try (intros H; inversion H; left; reflexivity).
  all: try (destruct (assoc_refs _ rf) eqn:Ea; [intros H; inversion H; left; reflexivity|];
       destruct (b_escape_url C _); [|discriminate]; intros H; inversion H; subst; right; eexists; eexists; split; [reflexivity|exact Ea]).
  all: try (destruct (assoc_refs _ rf); intros H; inversion H; left; reflexivity).
Qed.
End Refs.
