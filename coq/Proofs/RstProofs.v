(* RstProofs.v — the RST renderer drops and reorders no word character of a text, code-span, code-block or HTML-block leaf,
   as far as the characters are outside the renderer's in-band hard-break marker.
   [L] projects a string on a set [keep] of characters that contains no line separator, no space, no '|', no backslash and
   none of the characters of "<linebreak>".  Every layout step of the renderer (textwrap.indent, the list renderer's line
   reassembly, the '|' escaping of text, the line-block split of paragraphs, strip_end) inserts or deletes only characters
   outside that set.  The restriction is the known finding rst-linebreak-marker-in-band stated as a hypothesis: the letters
   of the word "linebreak" CAN vanish (Example rst_linebreak_marker_refuted in Props/C06.v).
   Not claimed: inline HTML (dropped by design), alternative texts of images (printed at the end of the document). *)
From Coq Require Import ZArith List Bool Lia Arith.
From Verif Require Import PyStr Rx RxSpec RxAnalysis RxSub RxSubProofs ReplaceProofs Inline Block Doc MdRender MdDoc RstDoc HtmlDocProofs MdProofs.
Import ListNotations.
Local Open Scope nat_scope.

(* the inner loops of the model are the top-level loops *)
Section Eq.
Variable U : uni.
Variable ws : Z -> bool.
Variable strip_end_rx : rx.
Notation rnode := (rst_node U ws strip_end_rx).
Notation rnodes := (rst_nodes U ws strip_end_rx).

Definition rst_child (tight : bool) (c : node) (imgs : list tok) : str * list tok :=
  match c with
  | NList _ _ _ _ _ _ => rnode None (Some tight) c imgs
  | NBlank => ([], imgs)
  | _ => rnode None None c imgs
  end.
Definition rst_children (tight : bool) : list node -> list tok -> str * list tok :=
  fix go (l : list node) (imgs : list tok) {struct l} : str * list tok :=
    match l with
    | [] => ([], imgs)
    | c :: r => let '(a, i1) := rst_child tight c imgs in let '(b, i2) := go r i1 in (a ++ b, i2)
    end.
Definition rst_body (tight : bool) (it : node) (imgs : list tok) : str * list tok :=
  match it with NListItem ch => rst_children tight ch imgs | other => rnode None None other imgs end.

Lemma rst_tok_emph ch imgs : rst_tok (TEmphasis ch) imgs = let '(s, i) := rst_toks ch imgs in ([42%Z] ++ s ++ [42%Z], i).
Proof. reflexivity. Qed.
Lemma rst_tok_strong ch imgs : rst_tok (TStrong ch) imgs = let '(s, i) := rst_toks ch imgs in ([42; 42]%Z ++ s ++ [42; 42]%Z, i).
Proof. reflexivity. Qed.
Lemma rst_tok_link ch url t a b imgs :
  rst_tok (TLink false ch url t a b) imgs = let '(s, i) := rst_toks ch imgs in ([96%Z] ++ s ++ [32; 60]%Z ++ url ++ [62; 96; 95; 95]%Z, i).
Proof. reflexivity. Qed.
Lemma rst_node_quote prev par ch imgs :
  rnode prev par (NQuote ch) imgs =
  let '(inner, i) := rnodes None ch imgs in
  let text := indent3 ws inner in
  (match prev with Some p => if is_ignore_block p then text else [46; 46; 10; 10]%Z ++ text | None => text end, i).
Proof. reflexivity. Qed.
Lemma rst_node_item prev par ch imgs : rnode prev par (NListItem ch) imgs = rnodes None ch imgs.
Proof. reflexivity. Qed.
Lemma rst_node_list prev par items tight bullet d ordered start imgs :
  rnode prev par (NList items tight bullet d ordered start) imgs =
  let '(text, i) := rst_items (rst_body tight) ordered bullet (match start with Some z => z | None => 1%Z end) items imgs in
  (match par with
   | Some true => text
   | Some false => text ++ [10%Z]
   | None => rst_strip_end U strip_end_rx text ++ [10%Z]
   end, i).
Proof. reflexivity. Qed.
End Eq.

Section RstP.
Variable U : uni.
Variable ws : Z -> bool.
Variable strip_end_rx : rx.
Variable keep : list Z.
Definition rst_layout_char (c : Z) : bool :=
  is_linesep c || (c =? 32)%Z || memc c s_linebreak || (c =? 124)%Z || (c =? 92)%Z.
Hypothesis keep_ok : forallb (fun c => negb (rst_layout_char c)) keep = true.
Hypothesis W_strip : wf strip_end_rx = true.
Hypothesis A_strip : avoids U keep strip_end_rx = true.

Notation L := (proj keep).
Notation Ls := (MdProofs.Ls keep).
Notation rnode := (rst_node U ws strip_end_rx).
Notation rnodes := (rst_nodes U ws strip_end_rx).

Lemma nk c : rst_layout_char c = true -> memc c keep = false.
Proof.
  intros H. destruct (memc c keep) eqn:E; [|reflexivity]. apply (MdProofs.memc_In) in E.
  rewrite forallb_forall in keep_ok. specialize (keep_ok c E). rewrite H in keep_ok. discriminate.
Qed.
Lemma keep_no_sep : forallb (fun c => negb (is_linesep c) && negb (c =? 32)%Z && negb (c =? 62)%Z) keep = true.
Proof.
  apply forallb_forall. intros c Hin. rewrite forallb_forall in keep_ok. specialize (keep_ok c Hin).
  apply negb_true_iff in keep_ok. unfold rst_layout_char in keep_ok.
  destruct (is_linesep c); [discriminate|]. destruct (c =? 32)%Z; [discriminate|]. cbn [orb] in keep_ok.
  destruct (c =? 62)%Z eqn:E; [|reflexivity]. apply Z.eqb_eq in E. subst c. discriminate.
Qed.
Lemma L_lit s : forallb rst_layout_char s = true -> L s = [].
Proof.
  intros H. apply proj_none. apply Forall_forall. intros c Hc. rewrite forallb_forall in H. apply nk. apply H. exact Hc.
Qed.
Lemma nokeep_lit s : forallb rst_layout_char s = true -> nokeep keep s.
Proof. intros H. apply Forall_forall. intros c Hc. rewrite forallb_forall in H. apply nk. apply H. exact Hc. Qed.
Lemma L_replace old new s : old <> [] -> forallb rst_layout_char old = true -> forallb rst_layout_char new = true -> L (replace old new s) = L s.
Proof. intros Hne Ho Hn. exact (replace_keeps keep old new s Hne (nokeep_lit _ Ho) (nokeep_lit _ Hn)). Qed.

Lemma subseq_app_r a b q : subseq a b -> subseq a (b ++ q).
Proof. intros H. rewrite <- (app_nil_r a). apply MdProofs.subseq_app; [exact H|apply MdProofs.subseq_nil]. Qed.

Lemma indent_text_L p t : L p = [] -> L (indent_text ws p t) = L t.
Proof.
  intros Hp. unfold indent_text. rewrite (MdProofs.L_flat_map keep).
  rewrite (flat_map_ext _ (fun l => L l)) by (intros l; destruct (forallb ws l); [reflexivity|rewrite proj_app, Hp; reflexivity]).
  unfold lines_lf_keep. rewrite (MdProofs.lines_lf_keep_L keep t []). reflexivity.
Qed.
Lemma indent3_L t : L (indent3 ws t) = L t.
Proof. apply indent_text_L. apply L_lit. reflexivity. Qed.
Lemma strip_end_L s : L (rst_strip_end U strip_end_rx s) = L s.
Proof. unfold rst_strip_end. apply re_sub_keeps; [exact W_strip|exact A_strip|]. cbn. rewrite (nk 10%Z eq_refl). reflexivity. Qed.
Lemma L_nl : L [10%Z] = [].
Proof. apply L_lit. reflexivity. Qed.

(* ---- the leaves the renderer shows in place ---- *)
Fixpoint rleaves (t : tok) : list str :=
  match t with
  | TText raw | TCodespan raw => [raw]
  | TEmphasis ch | TStrong ch => flat_map rleaves ch
  | TLink false ch _ _ _ _ => flat_map rleaves ch
  | _ => []
  end.
Fixpoint nleaves (n : node) : list str :=
  match n with
  | NCode raw _ _ _ | NHtml raw => [raw]
  | NHeading ch _ _ | NParagraph ch | NBlockText ch => flat_map rleaves ch
  | NQuote ch | NListItem ch => flat_map nleaves ch
  | NList items _ _ _ _ _ => flat_map nleaves items
  | _ => []
  end.

Lemma toks_sub_gen : forall l,
  (forall t, In t l -> forall imgs, subseq (Ls (rleaves t)) (L (fst (rst_tok t imgs)))) ->
  forall imgs, subseq (Ls (flat_map rleaves l)) (L (fst (rst_toks l imgs))).
Proof.
  induction l as [|a l IH]; intros H imgs; [apply MdProofs.subseq_nil|].
  cbn [rst_toks flat_map]. pose proof (H a (or_introl eq_refl) imgs) as Ha.
  destruct (rst_tok a imgs) as [x i1]. pose proof (IH (fun t Ht => H t (or_intror Ht)) i1) as Hl.
  destruct (rst_toks l i1) as [y i2]. cbn [fst] in *. rewrite MdProofs.Ls_app, proj_app. apply MdProofs.subseq_app; assumption.
Qed.

Lemma tok_sub_n : forall n t, tsize t <= n -> forall imgs, subseq (Ls (rleaves t)) (L (fst (rst_tok t imgs))).
Proof.
  induction n as [|n IH]; intros t Hn imgs; [destruct t; cbn in Hn; lia|].
  assert (Hch : forall ch, S (list_sum (map tsize ch)) <= S n -> forall imgs, subseq (Ls (flat_map rleaves ch)) (L (fst (rst_toks ch imgs)))).
  { intros ch Hle. apply toks_sub_gen. intros c Hc. apply IH. pose proof (in_tsize _ _ Hc). lia. }
  destruct t as [raw|raw|raw| | |ch|ch|img ch url title a b|name ch]; cbn [rleaves tsize] in *.
  - cbn [rst_tok fst MdProofs.Ls flat_map]. rewrite app_nil_r, L_replace by (try reflexivity; discriminate). apply subseq_refl.
  - cbn [rst_tok fst MdProofs.Ls flat_map]. rewrite app_nil_r, !proj_app. apply MdProofs.subseq_wrap, subseq_refl.
  - apply MdProofs.subseq_nil.
  - apply MdProofs.subseq_nil.
  - apply MdProofs.subseq_nil.
  - rewrite rst_tok_emph. pose proof (Hch ch Hn imgs) as H. destruct (rst_toks ch imgs) as [s i]. cbn [fst] in *.
    rewrite !proj_app. apply MdProofs.subseq_wrap. exact H.
  - rewrite rst_tok_strong. pose proof (Hch ch Hn imgs) as H. destruct (rst_toks ch imgs) as [s i]. cbn [fst] in *.
    rewrite !proj_app. apply MdProofs.subseq_wrap. exact H.
  - destruct img; [apply MdProofs.subseq_nil|].
    rewrite rst_tok_link. pose proof (Hch ch Hn imgs) as H. destruct (rst_toks ch imgs) as [s i]. cbn [fst] in *.
    rewrite !proj_app. apply MdProofs.subseq_wrap. exact H.
  - apply MdProofs.subseq_nil.
Qed.

Lemma toks_sub l imgs : subseq (Ls (flat_map rleaves l)) (L (fst (rst_toks l imgs))).
Proof. apply toks_sub_gen. intros t _. exact (tok_sub_n (tsize t) t (le_n _)). Qed.

Lemma paragraph_plain_sub ch imgs : subseq (Ls (flat_map rleaves ch)) (L (fst (rst_paragraph_plain ch imgs))).
Proof.
  unfold rst_paragraph_plain. pose proof (toks_sub ch imgs) as H. destruct (rst_toks ch imgs) as [text i]. cbn [fst] in *.
  rewrite proj_app. apply subseq_app_r. destruct (find text s_linebreak 0); [|exact H].
  rewrite proj_app, L_replace by (try reflexivity; discriminate). apply subseq_drop. exact H.
Qed.
Lemma paragraph_sub ch imgs : subseq (Ls (flat_map rleaves ch)) (L (fst (rst_paragraph ws ch imgs))).
Proof.
  pose proof (paragraph_plain_sub ch imgs) as P.
  destruct ch as [|t r]; [exact P|]. destruct t; try exact P. destruct image; try exact P. destruct r; try exact P.
  apply MdProofs.subseq_nil.
Qed.

Lemma nodes_sub_gen : forall l,
  (forall n, In n l -> forall prev par imgs, subseq (Ls (nleaves n)) (L (fst (rnode prev par n imgs)))) ->
  forall prev imgs, subseq (Ls (flat_map nleaves l)) (L (fst (rnodes prev l imgs))).
Proof.
  induction l as [|a l IH]; intros H prev imgs; [apply MdProofs.subseq_nil|].
  pose proof (H a (or_introl eq_refl) prev None imgs) as Ha.
  pose proof (IH (fun t Ht => H t (or_intror Ht))) as Hl.
  destruct a; cbn [rst_nodes flat_map];
    try (destruct (rnode prev None _ imgs) as [x i1]; match goal with |- context [rnodes ?p l i1] => pose proof (Hl p i1) as Hl'; destruct (rnodes p l i1) as [y i2] end;
         cbn [fst] in *; rewrite MdProofs.Ls_app, proj_app; apply MdProofs.subseq_app; assumption).
  cbn [nleaves app]. apply Hl.
Qed.

Lemma child_sub tight c :
  (forall prev par imgs, subseq (Ls (nleaves c)) (L (fst (rnode prev par c imgs)))) ->
  forall imgs, subseq (Ls (nleaves c)) (L (fst (rst_child U ws strip_end_rx tight c imgs))).
Proof. intros H imgs. destruct c; cbn [rst_child]; try apply H. apply MdProofs.subseq_nil. Qed.

Lemma children_sub tight : forall l,
  (forall n, In n l -> forall prev par imgs, subseq (Ls (nleaves n)) (L (fst (rnode prev par n imgs)))) ->
  forall imgs, subseq (Ls (flat_map nleaves l)) (L (fst (rst_children U ws strip_end_rx tight l imgs))).
Proof.
  induction l as [|a l IH]; intros H imgs; [apply MdProofs.subseq_nil|].
  cbn [rst_children flat_map]. pose proof (child_sub tight a (H a (or_introl eq_refl)) imgs) as Ha.
  destruct (rst_child U ws strip_end_rx tight a imgs) as [x i1]. pose proof (IH (fun t Ht => H t (or_intror Ht)) i1) as Hl.
  fold (rst_children U ws strip_end_rx tight) in *.
  destruct (rst_children U ws strip_end_rx tight l i1) as [y i2]. cbn [fst] in *. rewrite MdProofs.Ls_app, proj_app. apply MdProofs.subseq_app; assumption.
Qed.

Lemma items_sub body o b : forall items,
  (forall it, In it items -> forall imgs, subseq (Ls (nleaves it)) (L (fst (body it imgs)))) ->
  forall z imgs, subseq (Ls (flat_map nleaves items)) (L (fst (rst_items body o b z items imgs))).
Proof.
  induction items as [|it r IH]; intros H z imgs; [apply MdProofs.subseq_nil|].
  cbn [rst_items flat_map]. pose proof (H it (or_introl eq_refl) imgs) as Ha. destruct (body it imgs) as [x i1].
  pose proof (IH (fun t Ht => H t (or_intror Ht)) (z + 1)%Z i1) as Hl. fold (rst_items body o b) in *.
  destruct (rst_items body o b (z + 1)%Z r i1) as [y i2]. cbn [fst] in *.
  rewrite MdProofs.Ls_app, proj_app. apply MdProofs.subseq_app; [|exact Hl].
  rewrite (MdProofs.item_text_L keep keep_no_sep). apply subseq_drop. exact Ha.
Qed.

Lemma node_sub_n : forall k n, nsize n <= k -> forall prev par imgs, subseq (Ls (nleaves n)) (L (fst (rnode prev par n imgs))).
Proof.
  induction k as [|k IH]; intros n Hk prev par imgs; [destruct n; cbn in Hk; lia|].
  assert (Hin : forall ch, S (list_sum (map nsize ch)) <= S k ->
                forall c, In c ch -> forall prev par imgs, subseq (Ls (nleaves c)) (L (fst (rnode prev par c imgs)))).
  { intros ch Hle c Hc. apply IH. pose proof (in_nsize _ _ Hc). lia. }
  destruct n as [| |raw f mk info|ch lv se|ch|ch|ch|items ti b d o s|ch|raw]; cbn [nleaves nsize] in *.
  - apply MdProofs.subseq_nil.
  - apply MdProofs.subseq_nil.
  - cbn [MdProofs.Ls flat_map]. rewrite app_nil_r. cbn [rst_node fst].
    destruct info as [[|c0 i0]|]; rewrite !proj_app, indent3_L.
    + apply MdProofs.subseq_wrap, subseq_refl.
    + do 3 apply subseq_drop. apply subseq_app_r, subseq_refl.
    + apply MdProofs.subseq_wrap, subseq_refl.
  - cbn [rst_node]. pose proof (toks_sub ch imgs) as H. destruct (rst_toks ch imgs) as [text i]. cbn [fst] in *.
    rewrite proj_app. apply subseq_app_r. exact H.
  - cbn [rst_node]. apply paragraph_sub.
  - cbn [rst_node]. pose proof (toks_sub ch imgs) as H. destruct (rst_toks ch imgs) as [text i]. cbn [fst] in *.
    rewrite proj_app. apply subseq_app_r. exact H.
  - rewrite rst_node_quote. pose proof (nodes_sub_gen ch (Hin ch Hk) None imgs) as H. destruct (rnodes None ch imgs) as [inner i]. cbn [fst] in *.
    destruct prev as [p|]; [destruct (is_ignore_block p)|]; rewrite ?proj_app, indent3_L; try apply subseq_drop; exact H.
  - rewrite rst_node_list.
    assert (Hb : forall it, In it items -> forall imgs, subseq (Ls (nleaves it)) (L (fst (rst_body U ws strip_end_rx ti it imgs)))).
    { intros it Hit imgs0. assert (Hs : nsize it <= k) by (pose proof (in_nsize _ _ Hit); lia).
      destruct it as [| |? ? ? ?|? ? ?|?|?|?|? ? ? ? ? ?|ch0|?]; cbn [rst_body]; try exact (IH _ Hs None None imgs0).
      cbn [nleaves]. apply children_sub. intros c Hc. apply IH. pose proof (in_nsize _ _ Hc). cbn [nsize] in Hs. lia. }
    pose proof (items_sub (rst_body U ws strip_end_rx ti) o b items Hb (match s with Some z => z | None => 1%Z end) imgs) as H.
    destruct (rst_items (rst_body U ws strip_end_rx ti) o b (match s with Some z => z | None => 1%Z end) items imgs) as [text i]. cbn [fst] in *.
    destruct par as [[|]|]; rewrite ?proj_app, ?L_nl, ?app_nil_r, ?strip_end_L; exact H.
  - rewrite rst_node_item. apply nodes_sub_gen. exact (Hin ch Hk).
  - cbn [MdProofs.Ls flat_map rst_node fst]. rewrite app_nil_r, !proj_app, indent3_L. apply subseq_drop. apply subseq_app_r. apply subseq_refl.
Qed.

(* the whole document *)
Theorem rst_doc_keeps_leaves ast out :
  rst_doc U ws strip_end_rx ast = Some out -> subseq (Ls (flat_map nleaves ast)) (L out).
Proof.
  unfold rst_doc. destruct (forallb _ ast); [|discriminate].
  pose proof (nodes_sub_gen ast (fun n _ => node_sub_n (nsize n) n (le_n _)) None []) as H.
  destruct (rnodes None ast []) as [o imgs]. cbn [fst] in H.
  destruct (rst_refs _ _ _) as [refs|]; [|discriminate]. intros E. inversion E; subst out.
  rewrite strip_end_L, proj_app. apply subseq_app_r. exact H.
Qed.
End RstP.
