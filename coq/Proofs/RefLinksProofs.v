(* Proofs about reference resolution (C12). *)
From Coq Require Import ZArith List Bool Lia.
From Verif Require Import PyStr Util RefLinks UtilProofs CliProofs.
Import ListNotations.

Section Proofs.
Variable key_of : str -> str.
Notation tget := RefLinks.tget.
Notation add_def := (add_def key_of).
Notation collect := (collect key_of).
Notation resolve := (resolve key_of).

Lemma tget_app t1 t2 k : tget (t1 ++ t2) k = match tget t1 k with Some d => Some d | None => tget t2 k end.
Proof. induction t1 as [|[k' d] t1 IH]; cbn; [reflexivity|]. destruct (str_eqb k k'); [reflexivity|exact IH]. Qed.

(* adding never changes an existing binding *)
Lemma add_def_keeps t d k v : tget t k = Some v -> tget (add_def t d) k = Some v.
Proof.
  intros H. unfold RefLinks.add_def. destruct (key_of (ld_label d)) as [|c kk] eqn:E; [exact H|].
  destruct (tget t (c :: kk)); [exact H|]. rewrite tget_app, H. reflexivity.
Qed.

Lemma fold_keeps ds : forall t k v, tget t k = Some v -> tget (fold_left add_def ds t) k = Some v.
Proof. induction ds as [|d ds IH]; intros t k v H; cbn; [exact H|]. apply IH, add_def_keeps, H. Qed.

Lemma add_def_new t d : key_of (ld_label d) <> [] -> tget t (key_of (ld_label d)) = None ->
  tget (add_def t d) (key_of (ld_label d)) = Some d.
Proof.
  intros Hne Hn. unfold RefLinks.add_def. destruct (key_of (ld_label d)) as [|c kk] eqn:E; [contradiction|].
  rewrite Hn. rewrite tget_app, Hn. cbn [RefLinks.tget]. rewrite str_eqb_refl. reflexivity.
Qed.

Lemma add_def_other t d k : k <> key_of (ld_label d) -> tget (add_def t d) k = tget t k.
Proof.
  intros Hne. unfold RefLinks.add_def. destruct (key_of (ld_label d)) as [|c kk] eqn:E; [reflexivity|].
  destruct (tget t (c :: kk)); [reflexivity|]. rewrite tget_app. destruct (tget t k); [reflexivity|].
  cbn [RefLinks.tget]. rewrite str_eqb_neq by assumption. reflexivity.
Qed.

(* first definition wins: the binding of a key is the FIRST definition (in document order) with that key *)
Theorem first_definition_wins : forall pre d post,
  key_of (ld_label d) <> [] ->
  Forall (fun d' => key_of (ld_label d') <> key_of (ld_label d)) pre ->
  tget (collect (pre ++ d :: post)) (key_of (ld_label d)) = Some d.
Proof.
  intros pre d post Hne Hpre. unfold RefLinks.collect. rewrite fold_left_app. cbn [fold_left].
  apply fold_keeps. apply add_def_new; [exact Hne|].
  assert (G : forall t, tget t (key_of (ld_label d)) = None ->
              tget (fold_left add_def pre t) (key_of (ld_label d)) = None).
  { induction Hpre as [|d' pre Hd' _ IH]; intros t Ht; cbn; [exact Ht|].
    apply IH. rewrite add_def_other by congruence. exact Ht. }
  apply G. reflexivity.
Qed.

(* a label that no definition has stays unresolved (the inline parser then keeps the text literal) *)
Theorem undefined_stays_unresolved : forall defs label,
  Forall (fun d => key_of (ld_label d) <> key_of label) defs -> resolve (collect defs) label = None.
Proof.
  intros defs label H. unfold RefLinks.resolve, RefLinks.collect.
  assert (G : forall t, tget t (key_of label) = None -> tget (fold_left add_def defs t) (key_of label) = None).
  { induction H as [|d ds Hd _ IH]; intros t Ht; cbn; [exact Ht|]. apply IH. rewrite add_def_other by congruence. exact Ht. }
  apply G. reflexivity.
Qed.

(* resolution depends on the use-site label only through its key *)
Theorem resolve_key_invariant t l1 l2 : key_of l1 = key_of l2 -> resolve t l1 = resolve t l2.
Proof. intros H. unfold RefLinks.resolve. rewrite H. reflexivity. Qed.

(* position independence: where a use occurs relative to the definitions is irrelevant, because every
   use is resolved against the table of ALL definitions *)
Theorem resolve_all_position_independent defs uses1 uses2 :
  resolve_all key_of defs (uses1 ++ uses2) = resolve_all key_of defs uses1 ++ resolve_all key_of defs uses2.
Proof. unfold resolve_all. apply map_app. Qed.

(* definitions with other keys, anywhere, do not disturb a binding *)
Theorem unrelated_definitions_irrelevant : forall pre d post extra1 extra2,
  key_of (ld_label d) <> [] ->
  Forall (fun d' => key_of (ld_label d') <> key_of (ld_label d)) pre ->
  Forall (fun d' => key_of (ld_label d') <> key_of (ld_label d)) extra1 ->
  tget (collect (extra1 ++ pre ++ d :: post ++ extra2)) (key_of (ld_label d)) = Some d.
Proof.
  intros pre d post e1 e2 Hne Hpre He1. rewrite app_assoc.
  replace (d :: post ++ e2) with (d :: (post ++ e2)) by reflexivity.
  apply first_definition_wins; [exact Hne|]. apply Forall_app. split; assumption.
Qed.
End Proofs.
