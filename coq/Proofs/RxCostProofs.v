(* RxCostProofs.v — the counting matcher computes the same results as the matcher of Rx.v *)
From Coq Require Import ZArith List Bool Lia.
From Verif Require Import PyStr Rx RxCost.
Import ListNotations.

Section Agree.
Variable U : uni.

Definition agrees {A} (kc : zip -> caps -> nat -> option A * nat) (k : zip -> caps -> option A) : Prop :=
  forall z c n, fst (kc z c n) = k z c.

Lemma onec_agrees {A} p z c n (kc : zip -> caps -> nat -> option A * nat) k :
  agrees kc k -> fst (onec p z c n kc) = one p z c k.
Proof. intros H. unfold onec, one. destruct (zstep z) as [[ch z']|]; [|reflexivity]. destruct (p ch); [apply H|reflexivity]. Qed.

Lemma litsc_agrees {A} s : forall z c n (kc : zip -> caps -> nat -> option A * nat) k,
  agrees kc k -> fst (litsc s z c n kc) = lits s z c k.
Proof.
  induction s as [|ch s IH]; intros z c n kc k H; cbn [litsc lits]; [apply H|].
  apply onec_agrees. intros z' c' n'. apply IH. exact H.
Qed.

Lemma rep_loopc_agrees {A} mrc mr greedy lo hi (kc : zip -> caps -> nat -> option A * nat) k :
  (forall z c n kc' k', agrees kc' k' -> fst (mrc z c n kc') = mr z c k') ->
  agrees kc k ->
  forall budget i z c n, fst (rep_loopc mrc greedy lo hi kc budget i z c n) = rep_loop mr greedy lo hi k budget i z c.
Proof.
  intros Hm Hk. induction budget as [|b IH]; intros i z c n; cbn [rep_loopc rep_loop].
  - destruct (Nat.leb lo i); [apply Hk|reflexivity].
  - set (can_more := match hi with Some h => Nat.ltb i h | None => true end).
    assert (Hmore : forall n0, fst (if can_more
              then mrc z c n0 (fun z' c' n' => if Nat.ltb (z_idx z) (z_idx z') then rep_loopc mrc greedy lo hi kc b (S i) z' c' n' else (None, n'))
              else (None, n0))
            = (if can_more then mr z c (fun z' c' => if Nat.ltb (z_idx z) (z_idx z') then rep_loop mr greedy lo hi k b (S i) z' c' else None) else None)).
    { intros n0. destruct can_more; [|reflexivity]. apply Hm. intros z' c' n'. destruct (Nat.ltb (z_idx z) (z_idx z')); [apply IH|reflexivity]. }
    assert (Hstop : forall n0, fst (if Nat.leb lo i then kc z c n0 else (None, n0)) = (if Nat.leb lo i then k z c else None)).
    { intros n0. destruct (Nat.leb lo i); [apply Hk|reflexivity]. }
    destruct greedy.
    + specialize (Hmore n). destruct (if can_more then mrc z c n _ else (None, n)) as [[x|] n1] eqn:E; cbn [fst] in Hmore; rewrite <- Hmore.
      * reflexivity.
      * apply Hstop.
    + specialize (Hstop n). destruct (if Nat.leb lo i then kc z c n else (None, n)) as [[x|] n1] eqn:E; cbn [fst] in Hstop; rewrite <- Hstop.
      * reflexivity.
      * apply Hmore.
Qed.

Theorem mc_agrees r : forall A z c n (kc : zip -> caps -> nat -> option A * nat) k,
  agrees kc k -> fst (mc U r z c n kc) = m U r z c k.
Proof.
  induction r as [|ch|ch|ineg items|dotall|ra IHa rb IHb|ra IHa rb IHb| |greedy lo hi r1 IH1|g r1 IH1|g|ahead neg r1 IH1|a];
    intros A z c n kc k H; cbn [mc m]; try (apply onec_agrees; exact H).
  - apply H.
  - apply IHa. intros z' c' n'. apply IHb. exact H.
  - pose proof (IHa A z c n kc k H) as Ha. destruct (mc U ra z c n kc) as [[x|] n1]; cbn [fst] in Ha; rewrite <- Ha; [reflexivity|].
    apply IHb. exact H.
  - reflexivity.
  - apply rep_loopc_agrees; [|exact H]. intros z0 c0 n0 kc' k' H'. apply IH1. exact H'.
  - apply IH1. intros z' c' n'. apply H.
  - destruct (cap_get c g) as [[a0 b0]|]; [|reflexivity]. apply litsc_agrees. exact H.
  - destruct (look_start ahead (width r1) z) as [z0|].
    + pose proof (IH1 caps z0 c n (fun z' c' n' => (look_k ahead z z' c', n')) (look_k ahead z)) as Hl.
      assert (Hag : agrees (fun z' c' n' => (look_k ahead z z' c', n')) (look_k ahead z)) by (intros ? ? ?; reflexivity).
      specialize (Hl Hag). destruct (mc U r1 z0 c n _) as [[c'|] n1]; cbn [fst] in Hl; rewrite <- Hl.
      * destruct neg; [reflexivity|apply H].
      * destruct neg; [apply H|reflexivity].
    + destruct neg; [apply H|reflexivity].
  - destruct (at_ok U a z); [apply H|reflexivity].
Qed.

Corollary match_at_cost_agrees r z n : fst (match_at_cost U r z n) = match_at U r z.
Proof. unfold match_at_cost, match_at. apply mc_agrees. intros ? ? ?; reflexivity. Qed.

Corollary search_cost_agrees r : forall fuel z n, fst (search_from_cost U r fuel z n) = search_from U r fuel z.
Proof.
  induction fuel as [|f IH]; intros z n; cbn [search_from_cost search_from];
    pose proof (match_at_cost_agrees r z n) as Hm; destruct (match_at_cost U r z n) as [[x|] n1]; cbn [fst] in Hm; rewrite <- Hm; try reflexivity.
  destruct (zstep z) as [[ch z']|]; [apply IH|reflexivity].
Qed.
End Agree.
