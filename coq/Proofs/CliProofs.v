(* Proofs about the CLI model (C17). *)
From Coq Require Import ZArith List Bool Lia.
From Verif Require Import PyStr Cli UtilProofs.
Import ListNotations.
Open Scope Z_scope.

Lemma str_eqb_refl s : str_eqb s s = true.
Proof. induction s as [|x s IH]; cbn; [reflexivity|]. rewrite Z.eqb_refl, IH. reflexivity. Qed.

Lemma str_eqb_neq a b : a <> b -> str_eqb a b = false.
Proof. intros H. destruct (str_eqb a b) eqn:E; [apply str_eqb_eq in E; contradiction|reflexivity]. Qed.

Lemma str_eqb_sym a b : str_eqb a b = str_eqb b a.
Proof.
  destruct (str_eqb a b) eqn:E.
  - apply str_eqb_eq in E. subst. symmetry. apply str_eqb_refl.
  - destruct (str_eqb b a) eqn:E2; [apply str_eqb_eq in E2; subst; rewrite str_eqb_refl in E; discriminate|reflexivity].
Qed.

(* namespace algebra *)
Lemma ns_get_set_same n k v : ns_get (ns_set n k v) k = Some v.
Proof. unfold ns_set. cbn. rewrite str_eqb_refl. reflexivity. Qed.

Lemma ns_get_filter n k k' : k <> k' ->
  ns_get (filter (fun p => negb (str_eqb k (fst p))) n) k' = ns_get n k'.
Proof.
  intros Hne. induction n as [|[a v] n IH]; cbn; [reflexivity|].
  destruct (str_eqb k a) eqn:E; cbn.
  - apply str_eqb_eq in E. subst a. rewrite (str_eqb_neq k' k) by congruence. exact IH.
  - destruct (str_eqb k' a); [reflexivity|exact IH].
Qed.

Lemma ns_get_set_other n k v k' : k <> k' -> ns_get (ns_set n k v) k' = ns_get n k'.
Proof.
  intros Hne. unfold ns_set. cbn [ns_get]. rewrite (str_eqb_neq k' k) by congruence.
  apply ns_get_filter. assumption.
Qed.

(* ---- abstract command lines ---- *)
(* one option occurrence: the declaration used, the flag spelling chosen, and its values *)
Inductive item :=
| IStore (d : opt_decl) (flag : str) (v : str)
| ITrue (d : opt_decl) (flag : str)
| IExtend (d : opt_decl) (flag : str) (vs : list str).

Definition item_ok (decls : list opt_decl) (it : item) : Prop :=
  match it with
  | IStore d f v => find_decl decls f = Some d /\ od_action d = AStore /\ is_flag v = false
  | ITrue d f => find_decl decls f = Some d /\ od_action d = AStoreTrue
  | IExtend d f vs => find_decl decls f = Some d /\ od_action d = AExtend /\ vs <> [] /\
                      Forall (fun v => is_flag v = false) vs
  end.

Definition render_item (it : item) : list str :=
  match it with
  | IStore _ f v => [f; v]
  | ITrue _ f => [f]
  | IExtend _ f vs => f :: vs
  end.

Definition apply_item (n : ns) (it : item) : ns :=
  match it with
  | IStore d _ v => ns_set n (od_dest d) (VS v)
  | ITrue d _ => ns_set n (od_dest d) (VB true)
  | IExtend d _ vs =>
    ns_set n (od_dest d) (VL ((match ns_get n (od_dest d) with Some (VL l) => l | _ => [] end) ++ vs))
  end.

Definition item_dest (it : item) : str :=
  match it with IStore d _ _ | ITrue d _ | IExtend d _ _ => od_dest d end.

Lemma take_values_app vs rest :
  Forall (fun v => is_flag v = false) vs ->
  (match rest with [] => True | a :: _ => is_flag a = true end) ->
  take_values (vs ++ rest) = (vs, rest).
Proof.
  induction 1 as [|v vs Hv _ IH]; intros Hr; cbn [app take_values].
  - destruct rest as [|a rest]; [reflexivity|]. cbn [take_values]. rewrite Hr. reflexivity.
  - rewrite Hv, IH by assumption. reflexivity.
Qed.

Lemma render_head_flag decls it : item_ok decls it ->
  match render_item it with [] => True | a :: _ => exists d, find_decl decls a = Some d end.
Proof. destruct it; cbn; intros H; destruct H as [H _]; eauto. Qed.

(* flags are recognised as flags: needed so that an extend option stops at the next option *)
Definition flags_are_flags (decls : list opt_decl) : bool :=
  forallb (fun d => forallb is_flag (od_flags d)) decls.

Lemma find_decl_flag decls a d : flags_are_flags decls = true -> find_decl decls a = Some d -> is_flag a = true.
Proof.
  unfold flags_are_flags, find_decl. intros Hf H. apply find_some in H. destruct H as [Hin Hex].
  rewrite forallb_forall in Hf. specialize (Hf d Hin). rewrite forallb_forall in Hf.
  apply existsb_exists in Hex. destruct Hex as (f & Hfin & Hfe). apply str_eqb_eq in Hfe. subst. apply Hf. assumption.
Qed.

Theorem parse_items decls : flags_are_flags decls = true ->
  forall items n fuel, Forall (item_ok decls) items ->
  (length (flat_map render_item items) < fuel)%nat ->
  parse_args decls fuel (flat_map render_item items) n = POk (fold_left apply_item items n).
Proof.
  intros Hflags. induction items as [|it items IH]; intros n fuel Hok Hfuel.
  - cbn. destruct fuel; [cbn in Hfuel; lia|reflexivity].
  - inversion Hok as [|? ? Hit Hrest]; subst.
    destruct fuel as [|fuel]; [cbn in Hfuel; lia|].
    cbn [flat_map fold_left].
    assert (Hnext : match flat_map render_item items with [] => True | a :: _ => is_flag a = true end).
    { destruct items as [|it2 items2]; [exact I|]. cbn [flat_map].
      inversion Hrest as [|? ? Hit2 _]; subst. pose proof (render_head_flag decls it2 Hit2) as Hh.
      destruct (render_item it2) as [|a r] eqn:Er.
      - destruct it2; discriminate.
      - destruct Hh as [d Hd]. cbn. eapply find_decl_flag; eassumption. }
    destruct it as [d f v|d f|d f vs]; cbn [render_item app apply_item] in *.
    + destruct Hit as (Hd & Ha & Hv). cbn [parse_args]. rewrite Hd, Ha, Hv.
      apply IH; [assumption|cbn in Hfuel; lia].
    + destruct Hit as (Hd & Ha). cbn [parse_args]. rewrite Hd, Ha.
      apply IH; [assumption|cbn in Hfuel; lia].
    + destruct Hit as (Hd & Ha & Hne & Hvs). cbn [parse_args]. rewrite Hd, Ha.
      rewrite take_values_app by assumption.
      destruct vs as [|v0 vs0]; [contradiction|].
      apply IH; [assumption|]. cbn in Hfuel. rewrite app_length in Hfuel. cbn in Hfuel. lia.
Qed.

Corollary parse_argv_items decls items : flags_are_flags decls = true -> Forall (item_ok decls) items ->
  parse_argv decls (flat_map render_item items) = POk (fold_left apply_item items (init_ns decls)).
Proof. intros Hf Hok. unfold parse_argv. apply parse_items; auto. Qed.

(* an option not mentioned keeps its initial value *)
Lemma fold_preserves k : forall items n, Forall (fun it => item_dest it <> k) items ->
  ns_get (fold_left apply_item items n) k = ns_get n k.
Proof.
  induction items as [|it items IH]; intros n H; [reflexivity|].
  inversion H as [|? ? Hit Hrest]; subst. cbn [fold_left]. rewrite IH by assumption.
  destruct it; cbn [apply_item item_dest] in *; apply ns_get_set_other; assumption.
Qed.

(* a store option given once, anywhere: the namespace holds its value *)
Lemma fold_store_once d f v : forall pre post n,
  Forall (fun it => item_dest it <> od_dest d) post ->
  ns_get (fold_left apply_item (pre ++ IStore d f v :: post) n) (od_dest d) = Some (VS v).
Proof.
  intros pre post n Hpost. rewrite fold_left_app. cbn [fold_left apply_item].
  rewrite fold_preserves by assumption. apply ns_get_set_same.
Qed.

Lemma fold_true_once d f : forall pre post n,
  Forall (fun it => item_dest it <> od_dest d) post ->
  ns_get (fold_left apply_item (pre ++ ITrue d f :: post) n) (od_dest d) = Some (VB true).
Proof.
  intros pre post n Hpost. rewrite fold_left_app. cbn [fold_left apply_item].
  rewrite fold_preserves by assumption. apply ns_get_set_same.
Qed.

(* an extend option given once: exactly the given values, appended to the declared default *)
Lemma fold_extend_once d f vs : forall pre post n,
  Forall (fun it => item_dest it <> od_dest d) pre ->
  Forall (fun it => item_dest it <> od_dest d) post ->
  ns_get (fold_left apply_item (pre ++ IExtend d f vs :: post) n) (od_dest d) =
  Some (VL ((match ns_get n (od_dest d) with Some (VL l) => l | _ => [] end) ++ vs)).
Proof.
  intros pre post n Hpre Hpost. rewrite fold_left_app. cbn [fold_left apply_item].
  rewrite fold_preserves by assumption. rewrite ns_get_set_same.
  rewrite (fold_preserves (od_dest d) pre n Hpre). reflexivity.
Qed.

(* ---- cli on a parsed namespace ---- *)
Section CliNs.
Variable lib_text : config -> str -> str.
Variable lib_file : config -> str -> option str.
Variable decls : list opt_decl.
Variable K : cli_consts.

Definition cli_ns (n : ns) (stdin : option str) : outcome :=
  let message0 := get_str n (k_message K) in
  let file := get_str n (k_file K) in
  let message := if negb (truthy message0) && negb (truthy file) then stdin else message0 in
  if truthy message then
    match message with Some m => emit n K (lib_text (md_config K n) m) | None => OUsage end
  else if truthy file then
    match file with
    | Some f => match lib_file (md_config K n) f with Some t => emit n K t | None => OUsage end
    | None => OUsage
    end
  else OErrorExit (k_error_text K).

Lemma cli_is_cli_ns argv n stdin : parse_argv decls argv = POk n ->
  cli lib_text lib_file decls K argv stdin = cli_ns n stdin.
Proof. intros H. unfold cli. rewrite H. reflexivity. Qed.

(* the three input channels *)
Theorem cli_message n stdin m : get_str n (k_message K) = Some m -> m <> [] ->
  cli_ns n stdin = emit n K (lib_text (md_config K n) m).
Proof.
  intros Hm Hne. unfold cli_ns. rewrite Hm. destruct m as [|c m']; [contradiction|]. cbn. reflexivity.
Qed.

Theorem cli_stdin n c : truthy (get_str n (k_message K)) = false -> truthy (get_str n (k_file K)) = false -> c <> [] ->
  cli_ns n (Some c) = emit n K (lib_text (md_config K n) c).
Proof.
  intros Hm Hf Hne. unfold cli_ns. rewrite Hm, Hf. cbn [negb andb].
  destruct c as [|x c']; [contradiction|]. reflexivity.
Qed.

Theorem cli_file n stdin f : truthy (get_str n (k_message K)) = false -> get_str n (k_file K) = Some f -> f <> [] ->
  cli_ns n stdin = match lib_file (md_config K n) f with Some t => emit n K t | None => OUsage end.
Proof.
  intros Hm Hf Hne. unfold cli_ns. rewrite Hf.
  assert (Ht : truthy (Some f) = true) by (destruct f; [contradiction|reflexivity]).
  rewrite Ht. cbn [negb andb]. rewrite Bool.andb_false_r.
  rewrite Hm. reflexivity.
Qed.

Theorem cli_nothing n : truthy (get_str n (k_message K)) = false -> truthy (get_str n (k_file K)) = false ->
  (cli_ns n None = OErrorExit (k_error_text K)) /\ (cli_ns n (Some []) = OErrorExit (k_error_text K)).
Proof. intros Hm Hf. unfold cli_ns. rewrite Hm, Hf. cbn. split; reflexivity. Qed.

(* output channel: stdout gets exactly one newline appended, a file gets the text verbatim *)
Theorem emit_stdout n text : truthy (get_str n (k_output K)) = false -> emit n K text = OStdout (text ++ [10]).
Proof. unfold emit. destruct (get_str n (k_output K)) as [[|c p]|]; cbn; intros H; try reflexivity; discriminate. Qed.

Theorem emit_file n text o : get_str n (k_output K) = Some o -> o <> [] -> emit n K text = OFile o text.
Proof. unfold emit. intros -> Hne. destruct o; [contradiction|reflexivity]. Qed.
End CliNs.

(* ---- namespaces that agree except on one key ---- *)
Definition agree_except (k : str) (n1 n2 : ns) : Prop := forall k', k' <> k -> ns_get n1 k' = ns_get n2 k'.

Lemma agree_set k n v : agree_except k (ns_set n k v) n.
Proof. intros k' H. apply ns_get_set_other. congruence. Qed.

Lemma agree_apply k n1 n2 it : item_dest it <> k -> agree_except k n1 n2 ->
  agree_except k (apply_item n1 it) (apply_item n2 it).
Proof.
  intros Hd H k' Hk'. destruct it as [d f v|d f|d f vs]; cbn [apply_item item_dest] in *.
  - destruct (str_eqb (od_dest d) k') eqn:E.
    + apply str_eqb_eq in E. subst. rewrite !ns_get_set_same. reflexivity.
    + assert (od_dest d <> k') by (intros Heq; rewrite Heq, str_eqb_refl in E; discriminate).
      rewrite !ns_get_set_other by assumption. apply H. assumption.
  - destruct (str_eqb (od_dest d) k') eqn:E.
    + apply str_eqb_eq in E. subst. rewrite !ns_get_set_same. reflexivity.
    + assert (od_dest d <> k') by (intros Heq; rewrite Heq, str_eqb_refl in E; discriminate).
      rewrite !ns_get_set_other by assumption. apply H. assumption.
  - destruct (str_eqb (od_dest d) k') eqn:E.
    + apply str_eqb_eq in E. subst. rewrite !ns_get_set_same. rewrite (H (od_dest d) Hd). reflexivity.
    + assert (od_dest d <> k') by (intros Heq; rewrite Heq, str_eqb_refl in E; discriminate).
      rewrite !ns_get_set_other by assumption. apply H. assumption.
Qed.

Lemma agree_fold k : forall items n1 n2, Forall (fun it => item_dest it <> k) items ->
  agree_except k n1 n2 -> agree_except k (fold_left apply_item items n1) (fold_left apply_item items n2).
Proof.
  induction items as [|it items IH]; intros n1 n2 Hf H; [exact H|].
  inversion Hf; subst. cbn [fold_left]. apply IH; [assumption|]. apply agree_apply; assumption.
Qed.

Lemma md_config_agree K k n1 n2 :
  k <> k_escape K -> k <> k_hardwrap K -> k <> k_renderer K -> k <> k_plugin K ->
  agree_except k n1 n2 -> md_config K n1 = md_config K n2.
Proof.
  intros H1 H2 H3 H4 H. unfold md_config, get_bool, get_str, get_list.
  rewrite (H (k_escape K)), (H (k_hardwrap K)), (H (k_renderer K)), (H (k_plugin K)) by congruence. reflexivity.
Qed.

Lemma emit_agree K k n1 n2 text : k <> k_output K -> agree_except k n1 n2 -> emit n1 K text = emit n2 K text.
Proof. intros H1 H. unfold emit, get_str. rewrite (H (k_output K)) by congruence. reflexivity. Qed.

Lemma nodup_split_dest (items : list item) pre x post :
  items = pre ++ x :: post -> NoDup (map item_dest items) ->
  Forall (fun it => item_dest it <> item_dest x) pre /\ Forall (fun it => item_dest it <> item_dest x) post.
Proof.
  intros -> H. rewrite map_app in H. cbn [map] in H.
  pose proof (NoDup_remove_2 _ _ _ H) as Hn. split; apply Forall_forall; intros it Hit Heq; apply Hn;
    apply in_or_app; [left|right]; apply in_map_iff; exists it; auto.
Qed.
