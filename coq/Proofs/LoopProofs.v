From Coq Require Import List Arith Lia.
From Verif Require Import Loop.

(* if every step moves the cursor forward, fuel (max - cursor) suffices, the loop ends at or beyond max,
   and it takes at most (max - cursor) steps *)
Theorem gloop_terminates {S : Type} (max : nat) (step : nat -> S -> nat * S) :
  (forall cur st, cur < max -> cur < fst (step cur st)) ->
  forall fuel cur st, max - cur <= fuel -> exists cur' st', gloop fuel max step cur st = Some (cur', st') /\ max <= cur'.
Proof.
  intros Hp. induction fuel as [|f IH]; intros cur st Hf; cbn [gloop].
  - destruct (Nat.leb_spec max cur); [eauto|lia].
  - destruct (Nat.leb_spec max cur); [eauto|].
    pose proof (Hp cur st H) as Hs. destruct (step cur st) as [cur' st'] eqn:E. cbn in Hs.
    apply IH. lia.
Qed.

(* the cursor never moves backwards along the run *)
Theorem gloop_monotone {S : Type} (max : nat) (step : nat -> S -> nat * S) :
  (forall cur st, cur < max -> cur < fst (step cur st)) ->
  forall fuel cur st cur' st', gloop fuel max step cur st = Some (cur', st') -> cur <= cur'.
Proof.
  intros Hp. induction fuel as [|f IH]; intros cur st cur' st' H; cbn [gloop] in H.
  - destruct (Nat.leb_spec max cur); [inversion H; lia|discriminate].
  - destruct (Nat.leb_spec max cur); [inversion H; lia|].
    pose proof (Hp cur st H0) as Hs. destruct (step cur st) as [c1 s1] eqn:E. cbn in Hs.
    apply IH in H. lia.
Qed.
