From Coq Require Import List Arith Lia.
From Verif Require Import Loop.

(* if every step moves the cursor forward, fuel (max - cursor) suffices, the loop ends at or beyond max,
   and it takes at most (max - cursor) steps *)
Theorem gloop_terminates {S : Type} (max : nat) (step : nat -> S -> nat * S) :
  (forall cur st, cur < max -> cur < fst (step cur st)) ->
  forall fuel cur st, max - cur <= fuel -> exists cur' st', gloop fuel max step cur st = Some (cur', st') /\ max <= cur'.
Proof.
  intros Hp. induction fuel as [|f IH]; intros cur st Hf; cbn [gloop].
  - destruct (Nat.leb_spec max cur); [eauto|lia].
  - destruct (Nat.leb_spec max cur); [eauto|].
    pose proof (Hp cur st H) as Hs. destruct (step cur st) as [cur' st'] eqn:E. cbn in Hs.
    apply IH. lia.
Qed.

(* the cursor never moves backwards along the run *)
Theorem gloop_monotone {S : Type} (max : nat) (step : nat -> S -> nat * S) :
  (forall cur st, cur < max -> cur < fst (step cur st)) ->
  forall fuel cur st cur' st', gloop fuel max step cur st = Some (cur', st') -> cur <= cur'.
Proof.
  intros Hp. induction fuel as [|f IH]; intros cur st cur' st' H; cbn [gloop] in H.
  - destruct (Nat.leb_spec max cur); [inversion H; lia|discriminate].
  - destruct (Nat.leb_spec max cur); [inversion H; lia|].
    pose proof (Hp cur st H0) as Hs. destruct (step cur st) as [c1 s1] eqn:E. cbn in Hs.
    apply IH in H. lia.
Qed.

(* ---------- partition: the loop neither skips nor repeats source text ---------- *)
(* [tiles a l b]: the spans of l are non-empty, start at a, each begins where the previous one ended, and end at b *)
Fixpoint tiles (a : nat) (l : list (nat * nat)) (b : nat) : Prop :=
  match l with
  | nil => a = b
  | cons (x, y) l' => x = a /\ a < y /\ tiles y l' b
  end.

Lemma tiles_app a l1 m l2 b : tiles a l1 m -> tiles m l2 b -> tiles a (l1 ++ l2) b.
Proof.
  revert a. induction l1 as [|[x y] l1 IH]; cbn; intros a H1 H2.
  - subst. exact H2.
  - destruct H1 as (Hx & Hy & Ht). repeat split; auto.
Qed.

Lemma tiles_le a l b : tiles a l b -> a <= b.
Proof. revert a. induction l as [|[x y] l IH]; cbn; intros a H; [lia|]. destruct H as (_ & Hy & Ht). apply IH in Ht. lia. Qed.

(* if every step appends spans that tile exactly the stretch of source the cursor moved over, the spans recorded
   when the loop ends tile the whole stretch from the start: every position is covered by exactly one span *)
Theorem gloop_partition {S : Type} (max : nat) (step : nat -> S -> nat * S) (spans : S -> list (nat * nat)) :
  (forall cur st, cur < max -> exists new, spans (snd (step cur st)) = spans st ++ new /\ tiles cur new (fst (step cur st))) ->
  forall fuel cur st cur' st' a, tiles a (spans st) cur -> gloop fuel max step cur st = Some (cur', st') ->
  tiles a (spans st') cur'.
Proof.
  intros Hp. induction fuel as [|f IH]; intros cur st cur' st' a Ht H; cbn [gloop] in H.
  - destruct (Nat.leb_spec max cur); [inversion H; subst; exact Ht|discriminate].
  - destruct (Nat.leb_spec max cur); [inversion H; subst; exact Ht|].
    destruct (Hp cur st H0) as (new & Hs & Hn). destruct (step cur st) as [c1 s1] eqn:E. cbn in Hs, Hn.
    apply (IH c1 s1 cur' st' a); [|exact H]. rewrite Hs. eapply tiles_app; eassumption.
Qed.

(* tiling spans reassemble the source slice: nothing lost, nothing twice, order kept *)
Definition cut {A} (s : list A) (a b : nat) : list A := firstn (b - a) (skipn a s).

Lemma firstn_plus {A} n m : forall l : list A, firstn (n + m) l = firstn n l ++ firstn m (skipn n l).
Proof. induction n as [|n IH]; intros l; cbn; [reflexivity|]. destruct l as [|x l]; cbn; [destruct m; reflexivity|]. f_equal. apply IH. Qed.

Lemma skipn_plus {A} n m : forall l : list A, skipn n (skipn m l) = skipn (n + m) l.
Proof. revert n. induction m as [|m IH]; intros n l; cbn. { rewrite Nat.add_0_r. reflexivity. }
  destruct l as [|x l]. { cbn. rewrite !skipn_nil. reflexivity. } rewrite Nat.add_succ_r. cbn. apply IH. Qed.

Lemma cut_app {A} (s : list A) a m b : a <= m -> m <= b -> cut s a m ++ cut s m b = cut s a b.
Proof.
  intros H1 H2. unfold cut. replace (b - a) with ((m - a) + (b - m)) by lia.
  rewrite firstn_plus. f_equal. rewrite skipn_plus. replace (m - a + a) with m by lia. reflexivity.
Qed.

Theorem tiles_concat {A} (s : list A) l : forall a b, tiles a l b ->
  concat (map (fun p => cut s (fst p) (snd p)) l) = cut s a b.
Proof.
  induction l as [|[x y] l IH]; cbn; intros a b H.
  - subst. unfold cut. rewrite Nat.sub_diag. reflexivity.
  - destruct H as (-> & Hy & Ht). rewrite (IH y b Ht). apply cut_app; [lia|]. apply (tiles_le _ _ _ Ht).
Qed.
