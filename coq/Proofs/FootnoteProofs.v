(* Proofs about footnote numbering (C14). *)
From Coq Require Import ZArith List Bool Lia Arith.
From Verif Require Import PyStr Footnote.
Import ListNotations.
Local Open Scope nat_scope.

Lemma NoDup_app_new {A} (l : list A) x : NoDup l -> ~ In x l -> NoDup (l ++ [x]).
Proof.
  induction 1 as [|y l Hy Hl IH]; cbn; intros Hx.
  - constructor; [tauto|constructor].
  - constructor.
    + intros Hin. apply in_app_or in Hin. destruct Hin as [Hin|[Hin|[]]]; [contradiction|]. subst. apply Hx. left; reflexivity.
    + apply IH. intros Hin. apply Hx. right. assumption.
Qed.

Section Proofs.
Variable key : Type.
Variable keqb : key -> key -> bool.
Hypothesis keqb_spec : forall a b, keqb a b = true <-> a = b.
Variable defined : key -> bool.

Notation kmem := (kmem key keqb).
Notation kindex := (kindex key keqb).
Notation run_refs := (run_refs key keqb defined).
Notation ref_step := (ref_step key keqb defined).

Lemma kmem_In k l : kmem k l = true <-> In k l.
Proof.
  induction l as [|x l IH]; cbn; [split; [discriminate|tauto]|].
  rewrite orb_true_iff, IH, keqb_spec. split; intros [H|H]; auto.
Qed.

Lemma keqb_refl k : keqb k k = true.
Proof. apply keqb_spec. reflexivity. Qed.

Lemma kindex_nth k l d : In k l -> nth (kindex k l) l d = k /\ kindex k l < length l.
Proof.
  induction l as [|x l IH]; cbn; [tauto|]. intros H.
  destruct (keqb k x) eqn:E.
  - apply keqb_spec in E. subst. split; [reflexivity|lia].
  - destruct H as [H|H]; [subst; rewrite keqb_refl in E; discriminate|].
    destruct (IH H) as [A B]. split; [exact A|lia].
Qed.

Lemma kindex_app_l k l l2 : In k l -> kindex k (l ++ l2) = kindex k l.
Proof.
  induction l as [|x l IH]; cbn; [tauto|]. intros H.
  destruct (keqb k x) eqn:E; [reflexivity|].
  destruct H as [H|H]; [subst; rewrite keqb_refl in E; discriminate|]. rewrite IH by assumption. reflexivity.
Qed.

Lemma kindex_app_new k l : ~ In k l -> kindex k (l ++ [k]) = length l.
Proof.
  induction l as [|x l IH]; cbn; intros H.
  - rewrite keqb_refl. reflexivity.
  - destruct (keqb k x) eqn:E; [apply keqb_spec in E; subst; tauto|]. rewrite IH by tauto. reflexivity.
Qed.

(* specification: distinct defined keys in order of first occurrence *)
Fixpoint first_occ (seen : list key) (h : list key) : list key :=
  match h with
  | [] => []
  | k :: h' => if defined k && negb (kmem k seen) then k :: first_occ (seen ++ [k]) h' else first_occ seen h'
  end.

(* invariant-carrying characterisation of run_refs *)
Lemma run_refs_notes : forall h notes,
  snd (run_refs notes h) = notes ++ first_occ notes h.
Proof.
  induction h as [|k h IH]; intros notes; cbn [Footnote.run_refs first_occ].
  - rewrite app_nil_r. reflexivity.
  - unfold Footnote.ref_step. destruct (defined k) eqn:Ed; cbn [andb].
    + destruct (kmem k notes) eqn:Em; cbn [negb].
      * specialize (IH notes). destruct (run_refs notes h) as [ts n2]. cbn [snd] in *. exact IH.
      * specialize (IH (notes ++ [k])). destruct (run_refs (notes ++ [k]) h) as [ts n2]. cbn [snd] in *.
        rewrite IH, <- app_assoc. reflexivity.
    + specialize (IH notes). destruct (run_refs notes h) as [ts n2]. cbn [snd] in *. exact IH.
Qed.

Lemma first_occ_fresh : forall h seen k, In k (first_occ seen h) -> ~ In k seen /\ In k h /\ defined k = true.
Proof.
  induction h as [|x h IH]; intros seen k H; cbn in H; [tauto|].
  destruct (defined x) eqn:Ed; cbn [andb] in H.
  - destruct (kmem x seen) eqn:Em; cbn [negb] in H.
    + destruct (IH _ _ H) as (A & B & C). repeat split; auto. right; assumption.
    + destruct H as [H|H].
      * subst. repeat split; [|left; reflexivity|assumption].
        intros Hin. apply kmem_In in Hin. congruence.
      * destruct (IH _ _ H) as (A & B & C). repeat split; [|right; assumption|assumption].
        intros Hin. apply A. apply in_or_app. left. assumption.
  - destruct (IH _ _ H) as (A & B & C). repeat split; auto. right; assumption.
Qed.

Lemma first_occ_nodup : forall h seen, NoDup (first_occ seen h).
Proof.
  induction h as [|x h IH]; intros seen; cbn; [constructor|].
  destruct (defined x && negb (kmem x seen)) eqn:E; [|apply IH].
  constructor; [|apply IH]. intros Hin. apply first_occ_fresh in Hin. destruct Hin as [A _].
  apply A. apply in_or_app. right. left. reflexivity.
Qed.

Lemma first_occ_complete : forall h seen k, In k h -> defined k = true -> ~ In k seen -> In k (first_occ seen h).
Proof.
  induction h as [|x h IH]; intros seen k Hin Hd Hs; cbn; [contradiction|].
  destruct Hin as [->|Hin].
  - rewrite Hd. destruct (kmem k seen) eqn:Em; [apply kmem_In in Em; contradiction|]. left; reflexivity.
  - destruct (defined x && negb (kmem x seen)) eqn:E.
    + destruct (keqb k x) eqn:Ek.
      * apply keqb_spec in Ek. subst. left; reflexivity.
      * right. apply IH; auto. intros Hs2. apply in_app_or in Hs2. destruct Hs2 as [|[->|[]]]; [contradiction|].
        rewrite keqb_refl in Ek. discriminate.
    + apply IH; auto.
Qed.

(* every reference token: defined keys get the (1-based) position of the key in the final notes list,
   undefined keys stay literal *)
Lemma run_refs_tokens : forall h notes, NoDup notes ->
  let (ts, final) := run_refs notes h in
  length ts = length h /\
  forall i k, nth_error h i = Some k ->
    (defined k = false -> nth_error ts i = Some None) /\
    (defined k = true -> exists p, nth_error ts i = Some (Some (S p)) /\ nth_error final p = Some k).
Proof.
  induction h as [|x h IH]; intros notes Hnd; cbn [Footnote.run_refs].
  - split; [reflexivity|]. intros i k H. destruct i; discriminate.
  - unfold Footnote.ref_step.
    destruct (defined x) eqn:Ed.
    + set (notes1 := if kmem x notes then notes else notes ++ [x]).
      assert (Hnd1 : NoDup notes1).
      { unfold notes1. destruct (kmem x notes) eqn:Em; [assumption|].
        apply NoDup_app_new. - assumption. - intros Hin. apply kmem_In in Hin. congruence. }
      assert (Hin1 : In x notes1).
      { unfold notes1. destruct (kmem x notes) eqn:Em; [apply kmem_In; assumption|].
        apply in_or_app. right. left. reflexivity. }
      pose proof (run_refs_notes h notes1) as Hfin.
      specialize (IH notes1 Hnd1). destruct (run_refs notes1 h) as [ts final]. cbn [snd] in Hfin.
      destruct IH as [Hlen IH]. split; [cbn; lia|].
      intros i k Hi. destruct i as [|i].
      * cbn in Hi. inversion Hi; subst k. split; [congruence|]. intros _.
        exists (kindex x notes1). split; [reflexivity|].
        rewrite Hfin. destruct (kindex_nth x notes1 x Hin1) as [A B].
        rewrite nth_error_app1 by assumption. rewrite (nth_error_nth' notes1 x B). rewrite A. reflexivity.
      * cbn in Hi |- *. apply IH. assumption.
    + specialize (IH notes Hnd). destruct (run_refs notes h) as [ts final].
      destruct IH as [Hlen IH]. split; [cbn; lia|].
      intros i k Hi. destruct i as [|i].
      * cbn in Hi. inversion Hi; subst k. split; [reflexivity|congruence].
      * cbn in Hi |- *. apply IH. assumption.
Qed.

Lemma enumerate1_nth : forall l n j k, nth_error l j = Some k -> nth_error (enumerate1 key n l) j = Some (n + j, k).
Proof.
  induction l as [|x l IH]; intros n j k H; destruct j; cbn in *; try discriminate.
  - inversion H. rewrite Nat.add_0_r. reflexivity.
  - rewrite (IH (S n) j k H). f_equal. f_equal. lia.
Qed.

Lemma enumerate1_length l n : length (enumerate1 key n l) = length l.
Proof. revert n. induction l; intros; cbn; auto. Qed.

(* the whole statement, from the empty note list *)
Theorem footnote_bijection (h : list key) :
  let (ts, notes) := run_refs [] h in
  (* 1. notes: the distinct defined referenced keys, in order of first reference *)
  notes = first_occ [] h /\ NoDup notes /\
  (forall k, In k notes <-> In k h /\ defined k = true) /\
  (* 2. one token per reference; undefined stays literal; defined gets the 1-based position of its key *)
  length ts = length h /\
  (forall i k, nth_error h i = Some k -> defined k = false -> nth_error ts i = Some None) /\
  (forall i k, nth_error h i = Some k -> defined k = true ->
     exists p, nth_error ts i = Some (Some (S p)) /\ nth_error notes p = Some k /\
               nth_error (emitted_items key notes) p = Some (S p, k)) /\
  (* 3. every emitted item is referenced by a token carrying its number *)
  (forall p k, nth_error (emitted_items key notes) p = Some (S p, k) ->
     exists i, nth_error h i = Some k /\ nth_error ts i = Some (Some (S p))) /\
  length (emitted_items key notes) = length notes /\
  (* 4. one section iff something was referenced *)
  (sections key notes = 1 <-> notes <> []) /\ sections key notes <= 1.
Proof.
  pose proof (run_refs_notes h []) as Hn. pose proof (run_refs_tokens h [] (NoDup_nil _)) as Ht.
  destruct (run_refs [] h) as [ts notes]. cbn [snd app] in Hn. destruct Ht as [Hlen Ht].
  assert (Hnd : NoDup notes) by (rewrite Hn; apply first_occ_nodup).
  assert (Hmem : forall k, In k notes <-> In k h /\ defined k = true).
  { intros k. rewrite Hn. split.
    - intros H. apply first_occ_fresh in H. tauto.
    - intros [A B]. apply first_occ_complete; auto. }
  assert (P5 : forall i k, nth_error h i = Some k -> defined k = false -> nth_error ts i = Some None).
  { intros i k Hi Hd. apply (proj1 (Ht i k Hi)). assumption. }
  assert (P6 : forall i k, nth_error h i = Some k -> defined k = true ->
     exists p, nth_error ts i = Some (Some (S p)) /\ nth_error notes p = Some k /\
               nth_error (emitted_items key notes) p = Some (S p, k)).
  { intros i k Hi Hd. destruct (proj2 (Ht i k Hi) Hd) as (p & A & B). exists p. repeat split; auto.
    unfold emitted_items. rewrite (enumerate1_nth notes 1 p k B). reflexivity. }
  assert (P7 : forall p k, nth_error (emitted_items key notes) p = Some (S p, k) ->
     exists i, nth_error h i = Some k /\ nth_error ts i = Some (Some (S p))).
  { intros p k Hp.
    assert (Hk : nth_error notes p = Some k).
    { unfold emitted_items in Hp. destruct (nth_error notes p) as [k2|] eqn:E.
      - rewrite (enumerate1_nth notes 1 p k2 E) in Hp. inversion Hp. reflexivity.
      - exfalso. apply nth_error_None in E. pose proof (enumerate1_length notes 1) as L.
        assert (nth_error (enumerate1 key 1 notes) p = None) by (apply nth_error_None; lia). congruence. }
    assert (Hin : In k notes) by (eapply nth_error_In; eassumption).
    apply Hmem in Hin. destruct Hin as [Hh Hd]. apply In_nth_error in Hh. destruct Hh as [i Hi].
    exists i. split; [assumption|]. destruct (proj2 (Ht i k Hi) Hd) as (p2 & A & B).
    assert (p2 = p). { rewrite NoDup_nth_error in Hnd. apply Hnd; [|congruence]. apply nth_error_Some. congruence. }
    subst. assumption. }
  assert (P8 : length (emitted_items key notes) = length notes) by apply enumerate1_length.
  assert (P9 : sections key notes = 1 <-> notes <> []).
  { destruct notes; cbn; split; intros H; try discriminate; try reflexivity; try (exfalso; apply H; reflexivity). }
  assert (P10 : sections key notes <= 1) by (destruct notes; cbn; lia).
  repeat (match goal with |- _ /\ _ => split end); assumption.
Qed.

(* equal keys get equal numbers, different keys different numbers *)
Theorem footnote_numbers_injective (h : list key) :
  let (ts, notes) := run_refs [] h in
  forall i j a b p q, nth_error h i = Some a -> nth_error h j = Some b ->
    nth_error ts i = Some (Some p) -> nth_error ts j = Some (Some q) -> (p = q <-> a = b).
Proof.
  pose proof (footnote_bijection h) as H. destruct (run_refs [] h) as [ts notes].
  destruct H as (_ & Hnd & _ & _ & Hund & Hdef & _).
  intros i j a b p q Hi Hj Hp Hq.
  destruct (defined a) eqn:Da; [|rewrite (Hund i a Hi Da) in Hp; discriminate].
  destruct (defined b) eqn:Db; [|rewrite (Hund j b Hj Db) in Hq; discriminate].
  destruct (Hdef i a Hi Da) as (p1 & A1 & B1 & _). destruct (Hdef j b Hj Db) as (q1 & A2 & B2 & _).
  rewrite A1 in Hp. rewrite A2 in Hq. inversion Hp; inversion Hq; subst.
  split.
  - intros E. inversion E; subst. congruence.
  - intros ->. f_equal. rewrite NoDup_nth_error in Hnd. apply Hnd; [|congruence].
    apply nth_error_Some. congruence.
Qed.
End Proofs.
