(* BlockTyping.v — the block token tree produced by the block parser model obeys the structural grammar: a list's
   children are list items and list items occur nowhere else; the children of quotes and list items are themselves
   well-formed blocks.  Holds for every text and every handler of nested or interrupting blocks (no assumption on the
   patterns at all). *)
From Coq Require Import ZArith List Bool Lia Arith.
From Verif Require Import PyStr Rx RxSub Scanner Inline Block.
Import ListNotations.
Local Open Scope nat_scope.

Fixpoint tok_ok (t : btok) : bool :=
  match t with
  | BQuote ch => forallb tok_ok ch
  | BList items _ _ _ _ _ => forallb (fun it => match it with BListItem ch => forallb tok_ok ch | _ => false end) items
  | BListItem _ => false
  | _ => true
  end.

Definition toks_ok (l : list btok) : bool := forallb tok_ok l.
Definition sinv (st : bstate) : Prop := toks_ok (s_tokens st) = true.

Section Typing.
Variable C : bcfg.

Lemma toks_ok_app a b : toks_ok (a ++ b) = toks_ok a && toks_ok b.
Proof. apply forallb_app. Qed.

Lemma sinv_append st t : sinv st -> tok_ok t = true -> sinv (append_token st t).
Proof. unfold sinv, append_token. cbn. intros H Ht. rewrite toks_ok_app, H. cbn. rewrite Ht. reflexivity. Qed.

Lemma sinv_set_cursor st c : sinv (set_cursor st c) <-> sinv st.
Proof. unfold sinv. reflexivity. Qed.

Lemma toks_ok_rev l : toks_ok (rev l) = toks_ok l.
Proof. unfold toks_ok. induction l as [|x l IH]; [reflexivity|]. cbn. rewrite forallb_app, IH. cbn. rewrite andb_true_r, andb_comm. reflexivity. Qed.

Lemma last_is_paragraph_ok st before t : last_is_paragraph st = Some (before, t) -> sinv st -> toks_ok before = true.
Proof.
  unfold last_is_paragraph, sinv. intros H Hs. destruct (rev (s_tokens st)) as [|x r] eqn:E; [discriminate|].
  destruct x; try discriminate. inversion H; subst. rewrite <- toks_ok_rev in Hs. rewrite E in Hs. cbn in Hs.
  rewrite toks_ok_rev. exact Hs.
Qed.

Lemma sinv_replace_last st before t : toks_ok before = true -> tok_ok t = true -> sinv (set_tokens st (before ++ [t])).
Proof. unfold sinv. cbn. intros H Ht. rewrite toks_ok_app, H. cbn. rewrite Ht. reflexivity. Qed.

Lemma sinv_add_paragraph st text : sinv st -> sinv (add_paragraph st text).
Proof.
  intros H. unfold add_paragraph. destruct (last_is_paragraph st) as [[before t]|] eqn:E.
  - apply sinv_replace_last; [eapply last_is_paragraph_ok; eassumption|reflexivity].
  - apply sinv_append; [exact H|reflexivity].
Qed.

Lemma sinv_append_paragraph st st' pos : append_paragraph C st = Some (st', pos) -> sinv st -> sinv st'.
Proof.
  unfold append_paragraph. destruct (last_is_paragraph st) as [[before t]|] eqn:E; [|discriminate]. intros [= <- _] H.
  apply sinv_replace_last; [eapply last_is_paragraph_ok; eassumption|reflexivity].
Qed.

Lemma toks_ok_insert l i t : toks_ok l = true -> tok_ok t = true -> toks_ok (insert_at l i t) = true.
Proof.
  intros H Ht. unfold insert_at. rewrite toks_ok_app. cbn. rewrite Ht.
  rewrite <- (firstn_skipn i l) in H. rewrite toks_ok_app in H. apply andb_true_iff in H. destruct H as [H1 H2].
  unfold toks_ok in *. rewrite H1, H2. reflexivity.
Qed.


(* handlers keep the invariant *)
Definition tspec (h : bhandler) : Prop := forall rk m st rf st2 rf2 np, h rk m st rf = Ok (st2, rf2, np) -> sinv st -> sinv st2.

Lemma parse_loop_typed h : tspec h -> forall iters rules st rf st2 rf2, parse_loop C h iters rules st rf = Ok (st2, rf2) -> sinv st -> sinv st2.
Proof.
  intros Ht. induction iters as [|it IH]; intros rules st rf st2 rf2 H Hs; cbn [parse_loop] in H.
  - destruct (Nat.leb _ _); [|discriminate]. inversion H; subst. destruct (Nat.ltb _ _); [apply sinv_set_cursor, sinv_add_paragraph; exact Hs|exact Hs].
  - destruct (Nat.leb _ _).
    { inversion H; subst. destruct (Nat.ltb _ _); [apply sinv_set_cursor, sinv_add_paragraph; exact Hs|exact Hs]. }
    destruct (bsearch C rules (s_src st) (s_cursor st)) as [[rk m]|].
    2:{ inversion H; subst. destruct (Nat.ltb _ _); [apply sinv_set_cursor, sinv_add_paragraph; exact Hs|exact Hs]. }
    unfold bind in H.
    match type of H with context [h rk m ?s1 rf] => set (st1 := s1) in H end.
    assert (Hs1 : sinv st1) by (unfold st1; destruct (Nat.ltb _ _); [apply sinv_set_cursor, sinv_add_paragraph; exact Hs|exact Hs]).
    destruct (h rk m st1 rf) as [[[sta rfa] np]| |] eqn:Eh; try discriminate.
    pose proof (Ht _ _ _ _ _ _ _ Eh Hs1) as Hsa.
    destruct (Block.truthy np).
    + apply (IH _ _ _ _ _ H). apply sinv_set_cursor. exact Hsa.
    + apply (IH _ _ _ _ _ H). apply sinv_set_cursor, sinv_add_paragraph. exact Hsa.
Qed.

Lemma parse_child_typed h st text rf ch rf2 : tspec h -> parse_child C h st text rf = Ok (ch, rf2) -> toks_ok ch = true.
Proof.
  intros Ht. unfold parse_child, bind. destruct (parse_loop C h _ _ _ rf) as [[c2 rfx]| |] eqn:E; try discriminate.
  intros [= <- _]. exact (parse_loop_typed h Ht _ _ _ _ _ _ E eq_refl).
Qed.

Lemma quote_lazy_loop_typed h : tspec h -> forall iters st rf text pb st2 rf2 t2 e,
  quote_lazy_loop C h iters st rf text pb = Ok (st2, rf2, t2, e) -> sinv st -> sinv st2.
Proof.
  intros Ht. induction iters as [|it IH]; intros st rf text pb st2 rf2 t2 e H Hs; cbn [quote_lazy_loop] in H.
  - destruct (Nat.leb _ _); [|discriminate]. inversion H; subst. exact Hs.
  - destruct (Nat.leb _ _); [inversion H; subst; exact Hs|].
    destruct (rmatch C (b_strict_quote C) _ _) as [m3|].
    + apply (IH _ _ _ _ _ _ _ _ H). apply sinv_set_cursor. exact Hs.
    + destruct pb; [inversion H; subst; exact Hs|].
      destruct (bmatch_rules C _ _ _) as [[rk m4]|].
      * unfold bind in H. destruct (h rk m4 st rf) as [[[sta rfa] np]| |] eqn:Eh; try discriminate.
        pose proof (Ht _ _ _ _ _ _ _ Eh Hs) as Hsa.
        destruct (Block.truthy np); [inversion H; subst; exact Hsa|].
        apply (IH _ _ _ _ _ _ _ _ H). apply sinv_set_cursor. exact Hsa.
      * apply (IH _ _ _ _ _ _ _ _ H). apply sinv_set_cursor. exact Hs.
Qed.

Lemma handle_quote_typed h m st rf st2 rf2 np : tspec h -> handle_quote C h m st rf = Ok (st2, rf2, np) -> sinv st -> sinv st2.
Proof.
  intros Ht H Hs. unfold handle_quote, bind in H.
  destruct (extract_block_quote C h m st rf) as [[[[sta rfa] text] e]| |] eqn:Ee; try discriminate.
  assert (Hsa : sinv sta).
  { unfold extract_block_quote in Ee. cbv zeta in Ee.
    destruct (match bmatch_rules C _ _ 0 with Some _ => true | None => false end).
    - destruct (rmatch C _ _ _); inversion Ee; subst; apply sinv_set_cursor; exact Hs.
    - unfold bind in Ee. destruct (quote_lazy_loop C h _ _ rf _ false) as [[[[stb rfb] tb] eb]| |] eqn:El; try discriminate.
      inversion Ee; subst. apply (quote_lazy_loop_typed h Ht _ _ _ _ _ _ _ _ _ El). apply sinv_set_cursor. exact Hs. }
  destruct (parse_child C h sta text rfa) as [[ch rf3]| |] eqn:Ec; try discriminate.
  pose proof (parse_child_typed h _ _ _ _ _ Ht Ec) as Hch.
  destruct (Block.truthy e); inversion H; subst.
  - unfold sinv. cbn. apply toks_ok_insert; [exact Hsa|cbn; exact Hch].
  - apply sinv_append; [exact Hsa|cbn; exact Hch].
Qed.

Lemma item_loop_typed h sc cs te : tspec h -> forall iters st rf src pb tight pos st2 rf2 src2 next tight2 brk,
  item_loop C h iters sc cs te st rf src pb tight pos = Ok (st2, rf2, src2, next, tight2, brk) -> sinv st -> sinv st2.
Proof.
  intros Ht. induction iters as [|it IH]; intros st rf src pb tight pos st2 rf2 src2 next tight2 brk H Hs; cbn [item_loop] in H.
  - destruct (Nat.leb _ _); [|discriminate]. inversion H; subst. exact Hs.
  - destruct (Nat.leb _ _); [inversion H; subst; exact Hs|].
    destruct (re_match _ _ _ 0 _).
    { apply (IH _ _ _ _ _ _ _ _ _ _ _ _ H). apply sinv_set_cursor. exact Hs. }
    destruct (prefixb cs _).
    { destruct (_ && _); [inversion H; subst; exact Hs|]. apply (IH _ _ _ _ _ _ _ _ _ _ _ _ H). apply sinv_set_cursor. exact Hs. }
    assert (Hafter : forall sta rfa, sinv sta ->
              (if pb then Ok (sta, rfa, src, None, tight, None)
               else item_loop C h it sc cs te (set_cursor sta (find_line_end C st)) rfa (src ++ expand_leading_tab C (get_text st (find_line_end C st)) 4) pb tight (find_line_end C st))
              = Ok (st2, rf2, src2, next, tight2, brk) -> sinv st2).
    { intros sta rfa Hsa Ha. destruct pb; [inversion Ha; subst; exact Hsa|]. apply (IH _ _ _ _ _ _ _ _ _ _ _ _ Ha). apply sinv_set_cursor. exact Hsa. }
    destruct (bmatch_rules C sc _ _) as [[rk m]|]; [|exact (Hafter st rf Hs H)].
    assert (Hother : (do (sta, rfa, np) <- h rk m st rf;
                      match Block.truthy np with
                      | Some p => Ok (sta, rfa, src, None, tight, Some (length (s_tokens st), p))
                      | None => (if pb then Ok (sta, rfa, src, None, tight, None)
                                 else item_loop C h it sc cs te (set_cursor sta (find_line_end C st)) rfa (src ++ expand_leading_tab C (get_text st (find_line_end C st)) 4) pb tight (find_line_end C st))
                      end) = Ok (st2, rf2, src2, next, tight2, brk) -> sinv st2).
    { unfold bind. destruct (h rk m st rf) as [[[sta rfa] np]| |] eqn:Eh; try discriminate.
      pose proof (Ht _ _ _ _ _ _ _ Eh Hs) as Hsa. destruct (Block.truthy np); [intros Ha; inversion Ha; subst; exact Hsa|exact (Hafter sta rfa Hsa)]. }
    destruct rk; try exact (Hother H).
    + inversion H; subst. exact Hs.
    + inversion H; subst. apply sinv_set_cursor. exact Hs.
Qed.

Definition items_ok (items : list btok) : bool :=
  forallb (fun it => match it with BListItem ch => forallb tok_ok ch | _ => false end) items.

Lemma items_loop_typed h bullet : tspec h -> forall iters groups st rf items tight st2 rf2 items2 tight2 brk,
  items_loop C h iters bullet groups st rf items tight = Ok (st2, rf2, items2, tight2, brk) ->
  sinv st -> items_ok items = true -> sinv st2 /\ items_ok items2 = true.
Proof.
  intros Ht. induction iters as [|it IH]; intros [[spaces marker] text0] st rf items tight st2 rf2 items2 tight2 brk H Hs Hi; cbn [items_loop] in H; [discriminate|].
  destruct (compile_continue_width C text0 _) as [text cw]. unfold bind in H.
  destruct (item_loop C h _ _ _ _ st rf [] false tight (s_cursor st)) as [[[[[[sta rfa] src] next] tighta] brka]| |] eqn:Ei; try discriminate.
  pose proof (item_loop_typed h _ _ _ Ht _ _ _ _ _ _ _ _ _ _ _ _ _ Ei Hs) as Hsa.
  destruct (parse_child C h sta _ rfa) as [[ch rf3]| |] eqn:Ec; try discriminate.
  pose proof (parse_child_typed h _ _ _ _ _ Ht Ec) as Hch.
  assert (Hi2 : items_ok (items ++ [BListItem ch]) = true).
  { unfold items_ok in *. rewrite forallb_app, Hi. cbn. unfold toks_ok in Hch. rewrite Hch. reflexivity. }
  destruct next as [g|].
  - exact (IH _ _ _ _ _ _ _ _ _ _ H Hsa Hi2).
  - inversion H; subst. split; assumption.
Qed.

Fixpoint bsize (t : btok) : nat :=
  match t with
  | BQuote ch => S (list_sum (map bsize ch))
  | BList items _ _ _ _ _ => S (list_sum (map bsize items))
  | BListItem ch => S (list_sum (map bsize ch))
  | _ => 1
  end.

Lemma in_size x l : In x l -> bsize x <= list_sum (map bsize l).
Proof.
  induction l as [|y l IH]; [intros []|]. change (list_sum (map bsize (y :: l))) with (bsize y + list_sum (map bsize l)).
  intros [->|H]; [lia|]. specialize (IH H). lia.
Qed.

Lemma tighten_ok_n : forall n t, bsize t <= n -> tok_ok t = true -> tok_ok (tighten t) = true.
Proof.
  induction n as [|n IH]; intros t Hn; [destruct t; cbn in Hn; lia|].
  destruct t as [| | | | | |ch|items tight b d o s|ch|]; try (intros H; exact H).
  destruct tight; [|intros H; exact H]. cbn [tighten tok_ok]. intros H.
  rewrite forallb_forall in H. apply forallb_forall. intros it Hin. apply in_map_iff in Hin. destruct Hin as (it0 & <- & Hin0).
  specialize (H it0 Hin0). pose proof (in_size _ _ Hin0) as Sz0. cbn [bsize] in Hn.
  destruct it0 as [| | | | | |?|? ? ? ? ? ?|ch0|]; try discriminate.
  rewrite forallb_forall in H. apply forallb_forall. intros tk Hin. apply in_map_iff in Hin. destruct Hin as (tk0 & <- & Hin1).
  specialize (H tk0 Hin1). pose proof (in_size _ _ Hin1) as Sz1. cbn [bsize] in Sz0.
  destruct tk0; try exact H; try reflexivity.
  apply IH; [lia|exact H].
Qed.

Lemma tighten_ok t : tok_ok t = true -> tok_ok (tighten t) = true.
Proof. apply (tighten_ok_n (bsize t)). lia. Qed.

Lemma handle_list_typed h m st rf st2 rf2 np : tspec h -> handle_list C h m st rf = Ok (st2, rf2, np) -> sinv st -> sinv st2.
Proof.
  intros Ht H Hs. unfold handle_list in H. cbv zeta in H.
  destruct (if _ || _ then append_paragraph C st else None) as [[st' pos]|] eqn:Ea.
  - inversion H; subst. destruct (_ || _); [|discriminate]. exact (sinv_append_paragraph _ _ _ Ea Hs).
  - unfold bind in H.
    destruct (items_loop C h _ _ _ (set_cursor st _) rf [] true) as [[[[[sta rfa] items] tight] brk]| |] eqn:El; try discriminate.
    destruct (items_loop_typed h _ Ht _ _ _ _ _ _ _ _ _ _ _ El (proj2 (sinv_set_cursor st _) Hs) eq_refl) as [Hsa Hit].
    assert (Hl : forall tg b d o s, tok_ok (tighten (BList items tg b d o s)) = true) by (intros; apply tighten_ok; cbn; exact Hit).
    destruct brk as [[idx e]|]; inversion H; subst.
    + unfold sinv. cbn. apply toks_ok_insert; [exact Hsa|apply Hl].
    + apply sinv_append; [exact Hsa|apply Hl].
Qed.

Lemma handle_with_typed h : tspec h -> tspec (handle_with C h).
Proof.
  intros Ht rk m st rf st2 rf2 np H Hs. unfold handle_with in H. destruct rk.
  - (* fenced *) inversion H as [Hf]. unfold handle_fenced in Hf. cbv zeta in Hf.
    destruct (_ && memc 96%Z _); [inversion Hf; subst; exact Hs|].
    destruct (rsearch C _ _ _); inversion Hf; subst; apply sinv_append; auto.
  - destruct (append_paragraph C st) as [[st' pos]|] eqn:Ea; inversion H; subst; [exact (sinv_append_paragraph _ _ _ Ea Hs)|apply sinv_append; auto].
  - inversion H; subst. apply sinv_append; auto.
  - destruct (last_is_paragraph st) as [[before t]|] eqn:El.
    + inversion H; subst. apply sinv_replace_last; [eapply last_is_paragraph_ok; eassumption|reflexivity].
    + destruct (bmatch_rules C _ _ _) as [[rk2 m2]|]; [exact (Ht _ _ _ _ _ _ _ H Hs)|inversion H; subst; exact Hs].
  - inversion H; subst. apply sinv_append; auto.
  - exact (handle_quote_typed h _ _ _ _ _ _ Ht H Hs).
  - exact (handle_list_typed h _ _ _ _ _ _ Ht H Hs).
  - (* ref_link: tokens change only through append_paragraph *)
    unfold handle_ref_link in H. destruct (append_paragraph C st) as [[st' pos]|] eqn:Ea; [inversion H; subst; exact (sinv_append_paragraph _ _ _ Ea Hs)|].
    assert (Hst : st2 = st).
    { destruct (b_unikey C _); [inversion H; reflexivity|]. destruct (parse_link_href_block C _ _) as [[? ?]|]; [|inversion H; reflexivity]. cbv zeta in H.
      repeat match type of H with
             | context [match ?x with Some _ => _ | None => _ end] => destruct x
             | context [let (_, _) := ?x in _] => destruct x
             | context [if ?b then _ else _] => destruct b
             | context [match ?x with 0 => _ | S _ => _ end] => destruct x
             end; try discriminate; inversion H; reflexivity. }
    subst. exact Hs.
  - (* raw html *) inversion H as [Hh]. clear H. revert Hh. unfold handle_html. cbv zeta.
    assert (He : forall em sp, sinv (fst (html_to_end C st em sp))).
    { intros em sp. unfold html_to_end. destruct (find _ _ _); cbn; apply sinv_append; auto. }
    assert (Hn : sinv (fst (html_to_newline C st))).
    { unfold html_to_newline. destruct (rsearch C _ _ _); cbn; apply sinv_append; auto. }
    repeat match goal with |- context [if ?b then _ else _] => destruct b end;
      try (intros Hh; inversion Hh; subst; first [apply He|exact Hn]).
    all: destruct (append_paragraph C st) as [[st' pos]|] eqn:Ea; [intros Hh; inversion Hh; subst; exact (sinv_append_paragraph _ _ _ Ea Hs)|].
    all: repeat match goal with |- context [if ?b then _ else _] => destruct b end; intros Hh; inversion Hh; subst; first [exact Hn|exact Hs].
  - inversion H; subst. apply sinv_append; auto.
  - (* block html *) inversion H as [Hh]. clear H. revert Hh. unfold handle_html. cbv zeta.
    assert (He : forall em sp, sinv (fst (html_to_end C st em sp))).
    { intros em sp. unfold html_to_end. destruct (find _ _ _); cbn; apply sinv_append; auto. }
    assert (Hn : sinv (fst (html_to_newline C st))).
    { unfold html_to_newline. destruct (rsearch C _ _ _); cbn; apply sinv_append; auto. }
    repeat match goal with |- context [if ?b then _ else _] => destruct b end;
      try (intros Hh; inversion Hh; subst; first [apply He|exact Hn]).
    all: destruct (append_paragraph C st) as [[st' pos]|] eqn:Ea; [intros Hh; inversion Hh; subst; exact (sinv_append_paragraph _ _ _ Ea Hs)|].
    all: repeat match goal with |- context [if ?b then _ else _] => destruct b end; intros Hh; inversion Hh; subst; first [exact Hn|exact Hs].
  - discriminate.
Qed.

Lemma bhandle_typed : forall fuel, tspec (bhandle C fuel).
Proof.
  induction fuel as [|f IH]; cbn [bhandle]; [intros rk m st rf st2 rf2 np H; discriminate|apply handle_with_typed; exact IH].
Qed.

(* the token list of a whole document is well-formed *)
Theorem block_parse_typed s toks rf : block_parse C s = Ok (toks, rf) -> toks_ok toks = true.
Proof.
  unfold block_parse, bind. destruct (parse_loop C _ _ _ _ []) as [[st2 rf2]| |] eqn:E; try discriminate.
  intros [= <- _]. exact (parse_loop_typed _ (bhandle_typed _) _ _ _ _ _ _ E eq_refl).
Qed.
End Typing.
