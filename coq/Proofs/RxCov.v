(* RxCov.v — "the kept characters of a match lie inside capture group g".
   [cov g r]: every match of r consumes characters of [keep] only inside the (one) capture it records for group g;
   outside that capture - and everywhere, when the match records no capture of g - it consumes none.
   Proved sound against the declarative semantics.  Used for text conservation (C03): a handler that keeps only
   group g of its match keeps every letter of the span it consumed. *)
From Coq Require Import ZArith List Bool Lia Arith.
From Verif Require Import PyStr Rx RxSpec RxAnalysis RxSub RxSubProofs.
Import ListNotations.
Local Open Scope nat_scope.

Section Cov.
Variable U : uni.
Variable keep : list Z.
Variable g : nat.
Variable gp : rx -> bool.     (* a check on the body of group g *)

Local Notation P := (proj keep).

(* group g is mentioned nowhere in r *)
Fixpoint nog (r : rx) : bool :=
  match r with
  | RSeq a b | RAlt a b => nog a && nog b
  | RRep _ _ _ r1 | RLook _ _ r1 => nog r1
  | RGroup g' r1 => negb (Nat.eqb g' g) && nog r1
  | _ => true
  end.

Lemma nog_caps r : wf r = true -> nog r = true -> forall z c z' c', M U r z c z' c' -> cap_get c' g = cap_get c g.
Proof.
  induction r as [|ch|ch|ineg items|dotall|ra IHa rb IHb|ra IHa rb IHb| |greedy lo hi r1 IH1|g' r1 IH1|g'|ahead neg r1 IH1|a];
    cbn [wf nog M]; intros W G z c z' c' H;
    try (destruct H as (ch0 & _ & _ & ->); reflexivity).
  - destruct H as [_ ->]. reflexivity.
  - apply andb_true_iff in W. destruct W as [W1 W2]. apply andb_true_iff in G. destruct G as [G1 G2].
    destruct H as (z1 & c1 & Ha & Hb). rewrite (IHb W2 G2 _ _ _ _ Hb). exact (IHa W1 G1 _ _ _ _ Ha).
  - apply andb_true_iff in W. destruct W as [W1 W2]. apply andb_true_iff in G. destruct G as [G1 G2]. destruct H as [H|H]; eauto.
  - contradiction.
  - destruct H as (n & _ & _ & Hi). induction Hi as [z c|n z c z1 c1 z2 c2 HR Hlt Hit IH]; [reflexivity|].
    rewrite IH. exact (IH1 W G _ _ _ _ HR).
  - apply andb_true_iff in G. destruct G as [Gn Gr]. destruct H as (c1 & Hm & ->). cbn [cap_get].
    apply negb_true_iff in Gn. rewrite Nat.eqb_sym, Gn. exact (IH1 W Gr _ _ _ _ Hm).
  - destruct H as (a0 & b0 & _ & Hl). apply Mlits_adv in Hl. destruct Hl as [_ ->]. reflexivity.
  - apply andb_true_iff in W. destruct W as [Wn Ww]. destruct neg.
    + destruct H as (_ & -> & _). reflexivity.
    + destruct H as (_ & z0 & zl & _ & Hm & _). rewrite (nocap_caps U r1 Wn _ _ _ _ Hm). reflexivity.
  - destruct H as (_ & -> & _). reflexivity.
Qed.

Definition base (r : rx) : bool := avoids U keep r && nog r.

Fixpoint cov (r : rx) : bool :=
  base r ||
  match r with
  | RSeq a b => (cov a && base b) || (base a && cov b)
  | RAlt a b => cov a && cov b
  | RGroup g' r1 => if Nat.eqb g' g then gp r1 else cov r1
  | _ => false
  end.

Lemma adv_unique z z' w1 w2 : adv z z' w1 -> adv z z' w2 -> w1 = w2.
Proof. intros H1 H2. rewrite <- (matched_adv _ _ _ H1). apply matched_adv. exact H2. Qed.

(* what a match leaves: either nothing kept and group g untouched, or the kept characters inside the new capture of g *)
Definition covered (z : zip) (c c' : caps) (w : list Z) : Prop :=
  (P w = [] /\ cap_get c' g = cap_get c g) \/
  (exists p t q, w = p ++ t ++ q /\ P p = [] /\ P q = [] /\
                 cap_get c' g = Some (z_idx z + length p, z_idx z + length p + length t) /\
                 exists r1 zt ct zt' ct', gp r1 = true /\ wf r1 = true /\ M U r1 zt ct zt' ct' /\ adv zt zt' t).

Lemma base_sound r : wf r = true -> base r = true -> forall z c z' c' w, M U r z c z' c' -> adv z z' w ->
  P w = [] /\ cap_get c' g = cap_get c g.
Proof.
  intros W B z c z' c' w HM Hadv. apply andb_true_iff in B. destruct B as [Ba Bn].
  destruct (avoids_sound U keep r Ba _ _ _ _ HM) as (w0 & A0 & F0). rewrite (adv_unique _ _ _ _ Hadv A0).
  split; [apply proj_none; exact F0|]. exact (nog_caps r W Bn _ _ _ _ HM).
Qed.

Theorem cov_sound r : wf r = true -> cov r = true -> forall z c z' c' w, M U r z c z' c' -> adv z z' w -> covered z c c' w.
Proof.
  induction r as [|ch|ch|ineg items|dotall|ra IHa rb IHb|ra IHa rb IHb| |greedy lo hi r1 IH1|g' r1 IH1|g'|ahead neg r1 IH1|a];
    intros W G z c z' c' w HM Hadv; cbn [cov] in G; apply orb_true_iff in G;
    (destruct G as [G|G]; [left; exact (base_sound _ W G _ _ _ _ _ HM Hadv)|]); try discriminate.
  - (* RSeq *)
    cbn [wf] in W. apply andb_true_iff in W. destruct W as [W1 W2]. cbn [M] in HM. destruct HM as (z1 & c1 & Ha & Hb).
    destruct (M_adv U _ _ _ _ _ Ha) as [w1 A1]. destruct (M_adv U _ _ _ _ _ Hb) as [w2 A2].
    pose proof (adv_unique _ _ _ _ Hadv (adv_trans _ _ _ _ _ A1 A2)) as ->.
    apply orb_true_iff in G. destruct G as [G|G]; apply andb_true_iff in G; destruct G as [G1 G2].
    + destruct (base_sound _ W2 G2 _ _ _ _ _ Hb A2) as [P2 C2].
      destruct (IHa W1 G1 _ _ _ _ _ Ha A1) as [[P1 C1]|(p & t & q & E & Pp & Pq & Cg & Hb1)].
      * left. split; [rewrite proj_app, P1, P2; reflexivity|congruence].
      * right. exists p, t, (q ++ w2). split; [rewrite E, <- !app_assoc; reflexivity|]. split; [exact Pp|].
        split; [rewrite proj_app, Pq, P2; reflexivity|]. split; [congruence|exact Hb1].
    + destruct (base_sound _ W1 G1 _ _ _ _ _ Ha A1) as [P1 C1].
      destruct (IHb W2 G2 _ _ _ _ _ Hb A2) as [[P2 C2]|(p & t & q & E & Pp & Pq & Cg & Hb1)].
      * left. split; [rewrite proj_app, P1, P2; reflexivity|congruence].
      * right. exists (w1 ++ p), t, q. split; [rewrite E, <- !app_assoc; reflexivity|]. split; [rewrite proj_app, P1, Pp; reflexivity|].
        split; [exact Pq|]. split; [|exact Hb1]. rewrite Cg. destruct A1 as (_ & _ & I1). rewrite I1, app_length. f_equal. f_equal; lia.
  - (* RAlt *)
    cbn [wf] in W. apply andb_true_iff in W. destruct W as [W1 W2]. apply andb_true_iff in G. destruct G as [G1 G2].
    cbn [M] in HM. destruct HM as [H|H]; eauto.
  - (* RGroup *)
    cbn [wf] in W. cbn [M] in HM. destruct HM as (c1 & Hm & ->).
    revert G. destruct (Nat.eqb_spec g' g) as [E|E]; intros G.
    + subst g'. right. exists [], w, []. rewrite app_nil_r. split; [reflexivity|]. split; [reflexivity|]. split; [reflexivity|].
      split; [|exists r1, z, c, z', c1; split; [exact G|split; [exact W|split; [exact Hm|exact Hadv]]]].
      cbn [cap_get]. rewrite Nat.eqb_refl. pose proof Hadv as (_ & _ & I). cbn [length]. rewrite I, !Nat.add_0_r. reflexivity.
    + assert (Eq : cap_get ((g', (z_idx z, z_idx z')) :: c1) g = cap_get c1 g).
      { cbn [cap_get]. destruct (Nat.eqb_spec g g'); [congruence|reflexivity]. }
      destruct (IH1 W G _ _ _ _ _ Hm Hadv) as [[P1 C1]|(p & t & q & E1 & Pp & Pq & Cg & Hb1)].
      * left. split; [exact P1|congruence].
      * right. exists p, t, q. repeat split; try assumption. congruence.
Qed.

(* ---- bodies whose every match begins / ends with a character outside [keep] ---- *)
Fixpoint fstnk (r : rx) : bool :=
  match r with
  | RLit a => negb (memc a keep)
  | RSeq a _ => fstnk a
  | RAlt a b => fstnk a && fstnk b
  | RGroup _ r1 => fstnk r1
  | _ => false
  end.

Fixpoint lstnk (r : rx) : bool :=
  match r with
  | RLit a => negb (memc a keep)
  | RSeq _ b => lstnk b
  | RAlt a b => lstnk a && lstnk b
  | RGroup _ r1 => lstnk r1
  | _ => false
  end.

Lemma fstnk_sound r : fstnk r = true -> forall z c z' c' w, M U r z c z' c' -> adv z z' w ->
  exists a w', w = a :: w' /\ memc a keep = false.
Proof.
  induction r as [|ch|ch|ineg items|dotall|ra IHa rb IHb|ra IHa rb IHb| |greedy lo hi r1 IH1|g' r1 IH1|g'|ahead neg r1 IH1|a];
    cbn [fstnk M]; intros G z c z' c' w HM Hadv; try discriminate.
  - destruct HM as (ch0 & Hs & Hp & _). apply Z.eqb_eq in Hp. subst ch0.
    rewrite (adv_unique _ _ _ _ Hadv (zstep_adv _ _ _ Hs)). exists ch, []. split; [reflexivity|]. apply negb_true_iff. exact G.
  - destruct HM as (z1 & c1 & Ha & Hb). destruct (M_adv U _ _ _ _ _ Ha) as [w1 A1]. destruct (M_adv U _ _ _ _ _ Hb) as [w2 A2].
    rewrite (adv_unique _ _ _ _ Hadv (adv_trans _ _ _ _ _ A1 A2)).
    destruct (IHa G _ _ _ _ _ Ha A1) as (a & w' & -> & Hk). exists a, (w' ++ w2). split; [reflexivity|exact Hk].
  - apply andb_true_iff in G. destruct G as [G1 G2]. destruct HM as [H|H]; eauto.
  - destruct HM as (c1 & Hm & _). eauto.
Qed.

Lemma lstnk_sound r : lstnk r = true -> forall z c z' c' w, M U r z c z' c' -> adv z z' w ->
  exists w' b, w = w' ++ [b] /\ memc b keep = false.
Proof.
  induction r as [|ch|ch|ineg items|dotall|ra IHa rb IHb|ra IHa rb IHb| |greedy lo hi r1 IH1|g' r1 IH1|g'|ahead neg r1 IH1|a];
    cbn [lstnk M]; intros G z c z' c' w HM Hadv; try discriminate.
  - destruct HM as (ch0 & Hs & Hp & _). apply Z.eqb_eq in Hp. subst ch0.
    rewrite (adv_unique _ _ _ _ Hadv (zstep_adv _ _ _ Hs)). exists [], ch. split; [reflexivity|]. apply negb_true_iff. exact G.
  - destruct HM as (z1 & c1 & Ha & Hb). destruct (M_adv U _ _ _ _ _ Ha) as [w1 A1]. destruct (M_adv U _ _ _ _ _ Hb) as [w2 A2].
    rewrite (adv_unique _ _ _ _ Hadv (adv_trans _ _ _ _ _ A1 A2)).
    destruct (IHb G _ _ _ _ _ Hb A2) as (w' & b & -> & Hk). exists (w1 ++ w'), b. split; [rewrite app_assoc; reflexivity|exact Hk].
  - apply andb_true_iff in G. destruct G as [G1 G2]. destruct HM as [H|H]; eauto.
  - destruct HM as (c1 & Hm & _). eauto.
Qed.

(* a body that is quoted: at least two characters, the first and the last outside [keep] *)
Definition quoted (r : rx) : bool := fstnk r && lstnk r && Nat.leb 2 (minlen r).

Lemma quoted_sound r : quoted r = true -> forall z c z' c' w, M U r z c z' c' -> adv z z' w ->
  2 <= length w /\ P (firstn (length w - 2) (skipn 1 w)) = P w.
Proof.
  unfold quoted. intros Q z c z' c' w HM Hadv. apply andb_true_iff in Q. destruct Q as [Q Q3]. apply andb_true_iff in Q. destruct Q as [Q1 Q2].
  apply Nat.leb_le in Q3. destruct (len_sound U r _ _ _ _ HM) as (A1 & A2 & _).
  pose proof Hadv as (_ & _ & I). assert (Hl : 2 <= length w) by lia. split; [exact Hl|].
  destruct (fstnk_sound r Q1 _ _ _ _ _ HM Hadv) as (a & w' & E1 & Ka).
  destruct (lstnk_sound r Q2 _ _ _ _ _ HM Hadv) as (w'' & b & E2 & Kb).
  subst w. destruct w'' as [|a' mid].
  - cbn in E2. inversion E2; subst. cbn in Hl. lia.
  - cbn in E2. inversion E2; subst a' w'. cbn [skipn length]. rewrite app_length. cbn [length].
    replace (S (length mid + 1) - 2) with (length mid) by lia. rewrite firstn_app, firstn_all, Nat.sub_diag. cbn [firstn]. rewrite app_nil_r.
    rewrite proj_cons, Ka, proj_app. cbn [app]. rewrite (proj_cons keep b), Kb. cbn. rewrite app_nil_r. reflexivity.
Qed.
End Cov.

(* ---- every capture of group g consists of characters outside [keep] ---- *)
Section GAv.
Variable U : uni.
Variable keep : list Z.
Variable g : nat.
Local Notation P := (proj keep).

Fixpoint gav (r : rx) : bool :=
  match r with
  | RSeq a b | RAlt a b => gav a && gav b
  | RRep _ _ _ r1 => gav r1
  | RGroup g' r1 => (negb (Nat.eqb g' g) || avoids U keep r1) && gav r1
  | _ => true
  end.

Definition span_clean (s : list Z) (e : nat * (nat * nat)) : Prop :=
  fst e = g -> P (firstn (snd (snd e) - fst (snd e)) (skipn (fst (snd e)) s)) = [].

Lemma zwf_matched_slice z z' w : zwf z -> adv z z' w -> firstn (z_idx z' - z_idx z) (skipn (z_idx z) (subject z)) = w.
Proof.
  intros Hz (A & _ & I). unfold subject, zwf in *. rewrite A, I.
  rewrite skipn_app, skipn_all2 by (rewrite rev_length; lia). rewrite rev_length. replace (z_idx z - length (z_pre z)) with 0 by lia.
  cbn [skipn app]. replace (z_idx z + length w - z_idx z) with (length w + 0) by lia. rewrite firstn_app_2. cbn. apply app_nil_r.
Qed.

Lemma gav_sound r : wf r = true -> gav r = true -> forall z c z' c', zwf z -> M U r z c z' c' ->
  forall e, In e c' -> In e c \/ span_clean (subject z) e.
Proof.
  induction r as [|ch|ch|ineg items|dotall|ra IHa rb IHb|ra IHa rb IHb| |greedy lo hi r1 IH1|g' r1 IH1|g'|ahead neg r1 IH1|a];
    cbn [wf gav M]; intros W G z c z' c' Hz H e He;
    try (destruct H as (ch0 & _ & _ & ->); left; exact He).
  - destruct H as [_ ->]. left. exact He.
  - apply andb_true_iff in W. destruct W as [W1 W2]. apply andb_true_iff in G. destruct G as [G1 G2].
    destruct H as (z1 & c1 & Ha & Hb). destruct (M_adv U _ _ _ _ _ Ha) as [w1 A1].
    destruct (IHb W2 G2 _ _ _ _ (zwf_adv _ _ _ Hz A1) Hb e He) as [H1|H1].
    + exact (IHa W1 G1 _ _ _ _ Hz Ha e H1).
    + right. rewrite <- (M_subject U _ _ _ _ _ Ha). exact H1.
  - apply andb_true_iff in W. destruct W as [W1 W2]. apply andb_true_iff in G. destruct G as [G1 G2]. destruct H as [H|H]; eauto.
  - contradiction.
  - destruct H as (n & _ & _ & Hi). clear lo hi greedy. revert e He.
    induction Hi as [z c|n z c z1 c1 z2 c2 HR Hlt Hit IH]; intros e He; [left; exact He|].
    destruct (M_adv U _ _ _ _ _ HR) as [w1 A1].
    destruct (IH (zwf_adv _ _ _ Hz A1) e He) as [H1|H1].
    + exact (IH1 W G _ _ _ _ Hz HR e H1).
    + right. rewrite <- (M_subject U _ _ _ _ _ HR). exact H1.
  - apply andb_true_iff in G. destruct G as [Gh Gr]. destruct H as (c1 & Hm & ->). destruct He as [<-|He].
    + right. intros Eg. cbn in Eg. subst g'. rewrite Nat.eqb_refl in Gh. cbn in Gh.
      destruct (avoids_sound U keep r1 Gh _ _ _ _ Hm) as (w & Aw & Fw). cbn [fst snd].
      rewrite (zwf_matched_slice _ _ _ Hz Aw). apply proj_none. exact Fw.
    + eauto.
  - destruct H as (a0 & b0 & _ & Hl). apply Mlits_adv in Hl. destruct Hl as [_ ->]. left. exact He.
  - apply andb_true_iff in W. destruct W as [Wn Ww]. destruct neg.
    + destruct H as (_ & -> & _). left. exact He.
    + destruct H as (_ & z0 & zl & _ & Hm & _). rewrite (nocap_caps U r1 Wn _ _ _ _ Hm) in He. left. exact He.
  - destruct H as (_ & -> & _). left. exact He.
Qed.
End GAv.
