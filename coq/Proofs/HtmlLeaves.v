(* HtmlLeaves.v — the HTML renderer shows every leaf of the AST, escaped, in document order.
   A reflective analysis of the regenerated render templates ([shows]): under escape=True, whatever the other conditions
   of the template evaluate to, the output contains parameter 0 passed through a filter chain of a given form (none for
   rendered children, escape for text and code, strip-then-escape for HTML blocks).  By induction over the token tree the
   output of the whole document then contains the images of all leaves, one after the other ([in_order]).
   The text under an image is not a leaf of this statement: it goes through striptags into the alt attribute. *)
From Coq Require Import ZArith List Bool Lia Arith.
From Verif Require Import PyStr Util Tmpl TmplGen TmplBalance Inline Block Doc HtmlDoc HtmlDocProofs.
Import ListNotations.
Local Open Scope nat_scope.

(* ---- strings that occur one after the other ---- *)
Fixpoint in_order (l : list str) (out : str) : Prop :=
  match l with
  | [] => True
  | x :: l' => exists a b, out = a ++ x ++ b /\ in_order l' b
  end.

Lemma in_order_pre l : forall o a, in_order l o -> in_order l (a ++ o).
Proof.
  destruct l as [|x l]; intros o a H; [exact I|]. destruct H as (a0 & b & -> & H). exists (a ++ a0), b. split; [|exact H].
  rewrite <- app_assoc. reflexivity.
Qed.
Lemma in_order_post : forall l o c, in_order l o -> in_order l (o ++ c).
Proof.
  induction l as [|x l IH]; intros o c H; [exact I|]. destruct H as (a & b & -> & H). exists a, (b ++ c). split; [|exact (IH _ _ H)].
  rewrite <- !app_assoc. reflexivity.
Qed.
Lemma in_order_app : forall l1 l2 o1 o2, in_order l1 o1 -> in_order l2 o2 -> in_order (l1 ++ l2) (o1 ++ o2).
Proof.
  induction l1 as [|x l1 IH]; intros l2 o1 o2 H1 H2; [exact (in_order_pre _ _ _ H2)|].
  destruct H1 as (a & b & -> & H1). exists a, (b ++ o2). split; [rewrite <- !app_assoc; reflexivity|exact (IH _ _ _ H1 H2)].
Qed.
Lemma in_order_flat_map {A} (f : A -> list str) (g : A -> str) l : (forall x, In x l -> in_order (f x) (g x)) -> in_order (flat_map f l) (flat_map g l).
Proof.
  induction l as [|x l IH]; intros H; [exact I|]. cbn [flat_map]. apply in_order_app; [apply H; left; reflexivity|].
  apply IH. intros y Hy. apply H. right. exact Hy.
Qed.
Lemma in_order_one x : in_order [x] x.
Proof. exists [], []. split; [rewrite app_nil_r; reflexivity|exact I]. Qed.
Lemma in_order_wrap l o a b : in_order l o -> in_order l (a ++ o ++ b).
Proof. intros H. apply in_order_pre, in_order_post. exact H. Qed.

(* ---- the analysis of a template ---- *)
Definition is_plain (fs : list filter) : bool := match fs with [] => true | _ => false end.
Definition is_escape (fs : list filter) : bool := match fs with [FEscape] => true | _ => false end.
Definition is_strip_escape (fs : list filter) : bool := match fs with [FStrip; FEscape] => true | _ => false end.

Definition known_of (atoms : list atom) (i : nat) : option bool :=
  match nth_error atoms i with Some AEscapeFlag => Some true | _ => None end.

Fixpoint ins_under (known : nat -> option bool) (e : texp) (p : nat) (P : list filter -> bool) : bool :=
  match e with
  | TLit _ => false
  | TIns p' fs => Nat.eqb p p' && P fs
  | TCat a b => ins_under known a p P || ins_under known b p P
  | TIf i a b => match known i with
                 | Some true => ins_under known a p P
                 | Some false => ins_under known b p P
                 | None => ins_under known a p P && ins_under known b p P
                 end
  end.
Definition shows (t : template) (p : nat) (P : list filter -> bool) : bool := ins_under (known_of (t_atoms t)) (t_body t) p P.

Lemma ins_under_sound known sh p P : (forall i b, known i = Some b -> nth i sh false = b) ->
  forall e, ins_under known e p P = true -> exists fs, P fs = true /\ In (SIns p fs) (eval e sh).
Proof.
  intros Hk. induction e as [s|p' fs|a IHa b IHb|i a IHa b IHb]; cbn [ins_under eval]; intros H.
  - discriminate.
  - apply andb_true_iff in H. destruct H as [H1 H2]. apply Nat.eqb_eq in H1. subst p'. exists fs. split; [exact H2|left; reflexivity].
  - apply orb_true_iff in H. destruct H as [H|H].
    + destruct (IHa H) as (fs & Hp & Hin). exists fs. split; [exact Hp|apply in_or_app; left; exact Hin].
    + destruct (IHb H) as (fs & Hp & Hin). exists fs. split; [exact Hp|apply in_or_app; right; exact Hin].
  - destruct (known i) as [[|]|] eqn:E.
    + rewrite (Hk i true E). exact (IHa H).
    + rewrite (Hk i false E). exact (IHb H).
    + apply andb_true_iff in H. destruct H as [Ha Hb]. destruct (nth i sh false); [exact (IHa Ha)|exact (IHb Hb)].
Qed.

Section Leaves.
Variable E : renv.
Variable ops : list esc_op.
Variable xt : str -> template.
Hypothesis Hesc : r_escape E = true.
Hypothesis xt_shows : forall name, shows (xt name) 0 is_plain = true.

Lemma known_shape atoms vals : forall i b, known_of atoms i = Some b -> nth i (shape_of E ops atoms vals) false = b.
Proof.
  intros i b H. unfold known_of in H. destruct (nth_error atoms i) as [a|] eqn:En; [|discriminate].
  destruct a; try discriminate. inversion H; subst. unfold shape_of.
  rewrite (nth_indep _ false (atom_eval E ops vals AEscapeFlag)) by (rewrite map_length; apply nth_error_Some; congruence).
  rewrite map_nth. rewrite (nth_error_nth _ _ _ En). cbn. exact Hesc.
Qed.

Theorem shows_sound t p P vals : shows t p P = true ->
  exists fs a b, P fs = true /\ render E ops t vals = a ++ apply_filters E ops fs vals (pv_str (nth p vals PNone)) ++ b.
Proof.
  intros H. unfold shows in H.
  destruct (ins_under_sound _ (shape_of E ops (t_atoms t) vals) p P (known_shape _ vals) _ H) as (fs & Hp & Hin).
  destruct (fill_contains E ops _ vals _ Hin) as (a & b & Hf). exists fs, a, b. split; [exact Hp|]. unfold render. rewrite Hf. cbn [fill_seg]. reflexivity.
Qed.

Definition esc (s : str) : str := run_escape ops true s.
Definition strip_esc (s : str) : str := run_escape ops true (strip_p (is_ws (r_tables E)) s).

Lemma shows_plain t x rest : shows t 0 is_plain = true -> exists a b, render E ops t (PStr x :: rest) = a ++ x ++ b.
Proof.
  intros H. destruct (shows_sound t 0 is_plain (PStr x :: rest) H) as (fs & a & b & Hp & Hr). exists a, b. rewrite Hr.
  destruct fs; [reflexivity|discriminate].
Qed.
Lemma shows_escape t x rest : shows t 0 is_escape = true -> exists a b, render E ops t (PStr x :: rest) = a ++ esc x ++ b.
Proof.
  intros H. destruct (shows_sound t 0 is_escape (PStr x :: rest) H) as (fs & a & b & Hp & Hr). exists a, b. rewrite Hr.
  destruct fs as [|[] [|? ?]]; try discriminate. reflexivity.
Qed.
Lemma shows_strip_escape t x rest : shows t 0 is_strip_escape = true -> exists a b, render E ops t (PStr x :: rest) = a ++ strip_esc x ++ b.
Proof.
  intros H. destruct (shows_sound t 0 is_strip_escape (PStr x :: rest) H) as (fs & a & b & Hp & Hr). exists a, b. rewrite Hr.
  destruct fs as [|[] [|[] [|? ?]]]; try discriminate. reflexivity.
Qed.

(* the facts about the regenerated templates of the core renderer *)
Hypothesis T_text : shows tmpl_html_text 0 is_escape = true.
Hypothesis T_codespan : shows tmpl_html_codespan 0 is_escape = true.
Hypothesis T_inline_html : shows tmpl_html_inline_html 0 is_escape = true.
Hypothesis T_emphasis : shows tmpl_html_emphasis 0 is_plain = true.
Hypothesis T_strong : shows tmpl_html_strong 0 is_plain = true.
Hypothesis T_link : shows tmpl_html_link 0 is_plain = true.
Hypothesis T_block_code : shows tmpl_html_block_code 0 is_escape = true.
Hypothesis T_block_html : shows tmpl_html_block_html 0 is_strip_escape = true.
Hypothesis T_heading : shows tmpl_html_heading 0 is_plain = true.
Hypothesis T_paragraph : shows tmpl_html_paragraph 0 is_plain = true.
Hypothesis T_block_text : shows tmpl_html_block_text 0 is_plain = true.
Hypothesis T_block_quote : shows tmpl_html_block_quote 0 is_plain = true.
Hypothesis T_list : shows tmpl_html_list 0 is_plain = true.
Hypothesis T_list_item : shows tmpl_html_list_item 0 is_plain = true.

(* ---- the leaves and their images ---- *)
Fixpoint tok_leaves (t : tok) : list str :=
  match t with
  | TText raw | TCodespan raw | TInlineHtml raw => [esc raw]
  | TEmphasis ch | TStrong ch | TExt _ ch => flat_map tok_leaves ch
  | TLink false ch _ _ _ _ => flat_map tok_leaves ch
  | _ => []
  end.

Fixpoint node_leaves (n : node) : list str :=
  match n with
  | NCode raw _ _ _ => [esc raw]
  | NHtml raw => [strip_esc raw]
  | NHeading ch _ _ | NParagraph ch | NBlockText ch => flat_map tok_leaves ch
  | NQuote ch | NListItem ch => flat_map node_leaves ch
  | NList items _ _ _ _ _ => flat_map node_leaves items
  | _ => []
  end.

Lemma wrap_plain t l x rest : shows t 0 is_plain = true -> in_order l x -> in_order l (render E ops t (PStr x :: rest)).
Proof. intros H Hl. destruct (shows_plain t x rest H) as (a & b & ->). apply in_order_wrap. exact Hl. Qed.
Lemma leaf_escape t x rest : shows t 0 is_escape = true -> in_order [esc x] (render E ops t (PStr x :: rest)).
Proof. intros H. destruct (shows_escape t x rest H) as (a & b & ->). apply in_order_wrap, in_order_one. Qed.

Lemma tok_leaves_n : forall n t, tsize t <= n -> in_order (tok_leaves t) (html_tok E ops xt t).
Proof.
  induction n as [|n IH]; intros t Hn; [destruct t; cbn in Hn; lia|].
  assert (Hch : forall ch, (forall c, In c ch -> tsize c <= n) -> in_order (flat_map tok_leaves ch) (flat_map (html_tok E ops xt) ch)).
  { intros ch Hs. apply in_order_flat_map. intros c Hc. apply IH. exact (Hs c Hc). }
  assert (Hsz : forall ch, S (list_sum (map tsize ch)) <= S n -> forall c, In c ch -> tsize c <= n).
  { intros ch Hle c Hc. pose proof (in_tsize _ _ Hc). lia. }
  rewrite html_tok_unfold. destruct t as [raw|raw|raw| | |ch|ch|img ch url title a b|name ch]; cbn [tok_args fst snd tok_children tok_leaves tsize] in *.
  - exact (leaf_escape _ raw [] T_text).
  - exact (leaf_escape _ raw [] T_codespan).
  - exact (leaf_escape _ raw [] T_inline_html).
  - exact I.
  - exact I.
  - exact (wrap_plain _ _ _ [] T_emphasis (Hch ch (Hsz ch Hn))).
  - exact (wrap_plain _ _ _ [] T_strong (Hch ch (Hsz ch Hn))).
  - destruct img; [exact I|]. exact (wrap_plain _ _ _ _ T_link (Hch ch (Hsz ch Hn))).
  - exact (wrap_plain _ _ _ [] (xt_shows name) (Hch ch (Hsz ch Hn))).
Qed.

Lemma toks_leaves l : in_order (flat_map tok_leaves l) (html_toks E ops xt l).
Proof. unfold html_toks. apply in_order_flat_map. intros t _. exact (tok_leaves_n (tsize t) t (le_n _)). Qed.

Lemma node_leaves_n : forall k n, nsize n <= k -> in_order (node_leaves n) (html_node E ops xt n).
Proof.
  induction k as [|k IH]; intros n Hk; [destruct n; cbn in Hk; lia|].
  assert (Hch : forall ch, (forall c, In c ch -> nsize c <= k) -> in_order (flat_map node_leaves ch) (flat_map (html_node E ops xt) ch)).
  { intros ch Hs. apply in_order_flat_map. intros c Hc. apply IH. exact (Hs c Hc). }
  assert (Hsz : forall ch, S (list_sum (map nsize ch)) <= S k -> forall c, In c ch -> nsize c <= k).
  { intros ch Hle c Hc. pose proof (in_nsize _ _ Hc). lia. }
  rewrite html_node_unfold. destruct n as [| |raw f mk info|ch lv se|ch|ch|ch|items ti b d o s|ch|raw]; cbn [node_args node_inner fst snd node_leaves nsize] in *.
  - exact I.
  - exact I.
  - exact (leaf_escape _ raw _ T_block_code).
  - exact (wrap_plain _ _ _ _ T_heading (toks_leaves ch)).
  - exact (wrap_plain _ _ _ _ T_paragraph (toks_leaves ch)).
  - exact (wrap_plain _ _ _ _ T_block_text (toks_leaves ch)).
  - exact (wrap_plain _ _ _ _ T_block_quote (Hch ch (Hsz ch Hk))).
  - exact (wrap_plain _ _ _ _ T_list (Hch items (Hsz items Hk))).
  - exact (wrap_plain _ _ _ _ T_list_item (Hch ch (Hsz ch Hk))).
  - destruct (shows_strip_escape _ raw [] T_block_html) as (a & b0 & ->). apply in_order_wrap, in_order_one.
Qed.

(* the whole document: every leaf, escaped, one after the other *)
Theorem doc_leaves ns : in_order (flat_map node_leaves ns) (html_doc E ops xt ns).
Proof. unfold html_doc. apply in_order_flat_map. intros n _. exact (node_leaves_n (nsize n) n (le_n _)). Qed.
End Leaves.
