(* TmplBalance.v — finite structural checks on templates (C06): the literal skeleton of every shape is a
   balanced tag sequence around its holes; inline templates spell phrasing elements only; every rendered
   child is inserted exactly once; leaf templates insert their text through escape only. *)
From Coq Require Import ZArith List Bool Lia.
From Verif Require Import PyStr Util Tmpl TmplCheck.
Import ListNotations.
Open Scope Z_scope.

Definition hole : Z := 65532.       (* a rendered child *)
Definition popen : Z := 65533.      (* a rendered child whose closing </p> was cut off (footnote_item) *)

Definition is_cut_p (fs : list filter) : bool :=
  match fs with [FRstrip; FDropLast 4%nat] => true | _ => false end.

Definition skeleton (sig : list pkind) (segs : list seg) : str :=
  flat_map (fun sg => match sg with
                      | SLit s => s
                      | SIns p fs => match nth p sig KRaw with
                                     | KHtml => if is_cut_p fs then [popen] else [hole]
                                     | _ => [120]
                                     end
                      end) segs.

(* tag events of a skeleton *)
Inductive tev := TOpen (name : str) | TClose (name : str) | TVoid (name : str) | THole | TPOpen.

Definition is_name_char (c : Z) : bool :=
  ((97 <=? c) && (c <=? 122)) || ((65 <=? c) && (c <=? 90)) || ((48 <=? c) && (c <=? 57)).

(* after the tag name: skip to '>' honouring double quotes; returns (self_closing, rest) *)
Fixpoint to_gt (inq : bool) (prev : Z) (s : str) : option (bool * str) :=
  match s with
  | [] => None
  | c :: s' =>
    if inq then to_gt (negb (c =? 34)) c s'
    else if c =? 34 then to_gt true c s'
    else if c =? 62 then Some (prev =? 47, s')
    else to_gt false c s'
  end.

Definition void_names : list str :=
  [[104; 114]; [98; 114]; [105; 109; 103]; [105; 110; 112; 117; 116]].   (* hr br img input *)

Fixpoint lex_html (fuel : nat) (s : str) : option (list tev) :=
  match fuel with
  | O => None
  | S f =>
    match s with
    | [] => Some []
    | c :: s' =>
      if c =? hole then option_map (cons THole) (lex_html f s')
      else if c =? popen then option_map (cons TPOpen) (lex_html f s')
      else if c =? 60 then
        match s' with
        | d :: s2 =>
          if d =? 47 then
            let (nm, r) := span is_name_char s2 in
            match r with
            | e :: r' => if e =? 62 then option_map (cons (TClose nm)) (lex_html f r') else None
            | [] => None
            end
          else
            let (nm, r) := span is_name_char s' in
            match nm with
            | [] => None
            | _ => match to_gt false 0 r with
                   | Some (selfc, r') =>
                     option_map (cons (if selfc || existsb (str_eqb nm) void_names then TVoid nm else TOpen nm)) (lex_html f r')
                   | None => None
                   end
            end
        | [] => None
        end
      else if c =? 62 then None
      else lex_html f s'
    end
  end.

Fixpoint balanced (stack : list str) (evs : list tev) : bool :=
  match evs with
  | [] => match stack with [] => true | _ => false end
  | TOpen n :: r => balanced (n :: stack) r
  | TPOpen :: r => balanced ([112] :: stack) r
  | TClose n :: r => match stack with t :: st => str_eqb t n && balanced st r | [] => false end
  | TVoid _ :: r | THole :: r => balanced stack r
  end.

Definition skeleton_balanced (sig : list pkind) (segs : list seg) : bool :=
  let sk := skeleton sig segs in
  match lex_html (S (length sk)) sk with Some evs => balanced [] evs | None => false end.

Definition for_shapes (sig : list pkind) (fixed : list (nat * bool)) (t : template) (P : list seg -> bool) : bool :=
  forallb (fun sh => negb (shape_allowed fixed sh) || negb (feasible (t_atoms t) sh) || P (eval (t_body t) sh))
          (shapes (length (t_atoms t))).

Definition template_balanced (e : template * list pkind * list (nat * bool)) : bool :=
  let '(t, sig, fixed) := e in for_shapes sig fixed t (skeleton_balanced sig).

(* every rendered-children parameter is inserted exactly once *)
Definition count_ins (p : nat) (segs : list seg) : nat :=
  length (List.filter (fun sg => match sg with SIns q _ => Nat.eqb p q | _ => false end) segs).

Definition html_params (sig : list pkind) : list nat :=
  map fst (List.filter (fun pk : nat * pkind => match snd pk with KHtml => true | _ => false end) (combine (seq 0 (length sig)) sig)).

(* never duplicated; dropped only when the template tests the child for emptiness and it is empty *)
Definition children_once (e : template * list pkind * list (nat * bool)) : bool :=
  let '(t, sig, fixed) := e in
  forallb (fun sh => negb (shape_allowed fixed sh) || negb (feasible (t_atoms t) sh) ||
                     forallb (fun p => Nat.eqb (count_ins p (eval (t_body t) sh)) 1 ||
                                       (Nat.eqb (count_ins p (eval (t_body t) sh)) 0 &&
                                        negb (existsb (Nat.eqb p) (truthy_params (t_atoms t) sh)) &&
                                        existsb (fun a => match a with ATruthy q _ => Nat.eqb p q | _ => false end) (t_atoms t)))
                             (html_params sig))
          (shapes (length (t_atoms t))).

(* literal tag names of a template *)
Definition tag_names (sig : list pkind) (segs : list seg) : list str :=
  let sk := skeleton sig segs in
  match lex_html (S (length sk)) sk with
  | Some evs => flat_map (fun e => match e with TOpen n | TClose n | TVoid n => [n] | _ => [] end) evs
  | None => [[63]]
  end.

Definition only_tags (allowed : list str) (e : template * list pkind * list (nat * bool)) : bool :=
  let '(t, sig, fixed) := e in
  for_shapes sig fixed t (fun segs => forallb (fun n => existsb (str_eqb n) allowed) (tag_names sig segs)).

(* the text of a leaf is inserted once, through escaping only (escape, or strip then escape) *)
Definition leaf_escaped (e : template * list pkind * list (nat * bool)) (p : nat) : bool :=
  let '(t, sig, fixed) := e in
  for_shapes sig fixed t (fun segs =>
    Nat.eqb (count_ins p segs) 1 &&
    forallb (fun sg => match sg with
                       | SIns q fs => negb (Nat.eqb p q) ||
                                      match fs with [FEscape] | [FStrip; FEscape] => true | _ => false end
                       | _ => true end) segs).

(* an inserted piece is an infix of the output *)
Lemma fill_contains E ops segs vals sg : In sg segs ->
  exists a b, fill E ops segs vals = a ++ fill_seg E ops vals sg ++ b.
Proof.
  intros H. apply in_split in H. destruct H as (l1 & l2 & ->). unfold fill.
  rewrite flat_map_app. cbn [flat_map]. eauto.
Qed.

(* pieces keep their order *)
Lemma fill_order E ops l1 s1 l2 s2 l3 vals :
  exists a b c, fill E ops (l1 ++ s1 :: l2 ++ s2 :: l3) vals =
                a ++ fill_seg E ops vals s1 ++ b ++ fill_seg E ops vals s2 ++ c.
Proof.
  unfold fill. rewrite flat_map_app. cbn [flat_map]. rewrite flat_map_app. cbn [flat_map]. eauto.
Qed.
