(* BlockRefs.v — throughout a block parse (every handler, every nested and interrupting block) the reference table
   only grows, and only by appending an entry whose key is not yet defined: an entry is never replaced or removed,
   so the definition that reaches the table first is the one every later lookup sees. *)
From Coq Require Import ZArith List Bool Lia Arith.
From Verif Require Import PyStr Rx RxSub Scanner Inline Block BlockProofs.
Import ListNotations.
Local Open Scope nat_scope.

Inductive rext : refs -> refs -> Prop :=
| rext_refl rf : rext rf rf
| rext_step rf rf' k v : rext rf rf' -> assoc_refs k rf' = false -> rext rf (rf' ++ [(k, v)]).

Lemma rext_trans a b c : rext a b -> rext b c -> rext a c.
Proof. intros H1 H2. induction H2 as [|b rf' k v _ IH Hk]; [exact H1|]. apply rext_step; [apply IH; exact H1|exact Hk]. Qed.

Fixpoint ref_lookup (k : str) (l : refs) : option (str * str * option str) :=
  match l with [] => None | (k', v) :: l' => if str_eqb k k' then Some v else ref_lookup k l' end.

Lemma assoc_refs_lookup k l : assoc_refs k l = false -> ref_lookup k l = None.
Proof. induction l as [|[k' v] l IH]; cbn; [reflexivity|]. destruct (str_eqb k k'); cbn; [discriminate|exact IH]. Qed.

Lemma ref_lookup_app k l1 l2 v : ref_lookup k l1 = Some v -> ref_lookup k (l1 ++ l2) = Some v.
Proof. induction l1 as [|[k' v'] l1 IH]; cbn; [discriminate|]. destruct (str_eqb k k'); [intros H; exact H|exact IH]. Qed.

(* a lookup that succeeded keeps its answer for ever *)
Theorem rext_lookup_stable rf rf2 k v : rext rf rf2 -> ref_lookup k rf = Some v -> ref_lookup k rf2 = Some v.
Proof. intros H. induction H as [|rf rf' k' v' _ IH Hk]; [intros Hl; exact Hl|]. intros Hl. apply ref_lookup_app. apply IH. exact Hl. Qed.

Section Refs.
Variable C : bcfg.

Definition rspec (h : bhandler) : Prop := forall rk m st rf st2 rf2 np, h rk m st rf = Ok (st2, rf2, np) -> rext rf rf2.

Lemma parse_loop_refs h : rspec h -> forall iters rules st rf st2 rf2, parse_loop C h iters rules st rf = Ok (st2, rf2) -> rext rf rf2.
Proof.
  intros Hr. induction iters as [|it IH]; intros rules st rf st2 rf2 H; cbn [parse_loop] in H.
  - destruct (Nat.leb _ _); [|discriminate]. inversion H; subst. apply rext_refl.
  - destruct (Nat.leb _ _); [inversion H; subst; apply rext_refl|].
    destruct (bsearch C rules _ _) as [[rk m]|]; [|inversion H; subst; apply rext_refl].
    unfold bind in H. match type of H with context [h rk m ?s1 rf] => destruct (h rk m s1 rf) as [[[sta rfa] np]| |] eqn:Eh end; try discriminate.
    pose proof (Hr _ _ _ _ _ _ _ Eh) as R1.
    destruct (Block.truthy np); apply (rext_trans _ _ _ R1); exact (IH _ _ _ _ _ H).
Qed.

Lemma parse_child_refs h st text rf ch rf2 : rspec h -> parse_child C h st text rf = Ok (ch, rf2) -> rext rf rf2.
Proof.
  intros Hr. unfold parse_child, bind. destruct (parse_loop C h _ _ _ rf) as [[c2 rfx]| |] eqn:E; try discriminate.
  intros [= _ <-]. exact (parse_loop_refs h Hr _ _ _ _ _ _ E).
Qed.

Lemma quote_lazy_loop_refs h : rspec h -> forall iters st rf text pb st2 rf2 t2 e,
  quote_lazy_loop C h iters st rf text pb = Ok (st2, rf2, t2, e) -> rext rf rf2.
Proof.
  intros Hr. induction iters as [|it IH]; intros st rf text pb st2 rf2 t2 e H; cbn [quote_lazy_loop] in H.
  - destruct (Nat.leb _ _); [|discriminate]. inversion H; subst. apply rext_refl.
  - destruct (Nat.leb _ _); [inversion H; subst; apply rext_refl|].
    destruct (rmatch C (b_strict_quote C) _ _) as [m3|]; [exact (IH _ _ _ _ _ _ _ _ H)|].
    destruct pb; [inversion H; subst; apply rext_refl|].
    destruct (bmatch_rules C _ _ _) as [[rk m4]|]; [|exact (IH _ _ _ _ _ _ _ _ H)].
    unfold bind in H. destruct (h rk m4 st rf) as [[[sta rfa] np]| |] eqn:Eh; try discriminate.
    pose proof (Hr _ _ _ _ _ _ _ Eh) as R1.
    destruct (Block.truthy np); [inversion H; subst; exact R1|]. apply (rext_trans _ _ _ R1). exact (IH _ _ _ _ _ _ _ _ H).
Qed.

Lemma handle_quote_refs h m st rf st2 rf2 np : rspec h -> handle_quote C h m st rf = Ok (st2, rf2, np) -> rext rf rf2.
Proof.
  intros Hr H. unfold handle_quote, bind in H.
  destruct (extract_block_quote C h m st rf) as [[[[sta rfa] text] e]| |] eqn:Ee; try discriminate.
  assert (R1 : rext rf rfa).
  { unfold extract_block_quote in Ee. cbv zeta in Ee.
    destruct (match bmatch_rules C _ _ 0 with Some _ => true | None => false end).
    - destruct (rmatch C _ _ _); inversion Ee; subst; apply rext_refl.
    - unfold bind in Ee. destruct (quote_lazy_loop C h _ _ rf _ false) as [[[[stb rfb] tb] eb]| |] eqn:El; try discriminate.
      inversion Ee; subst. exact (quote_lazy_loop_refs h Hr _ _ _ _ _ _ _ _ _ El). }
  destruct (parse_child C h sta text rfa) as [[ch rf3]| |] eqn:Ec; try discriminate.
  pose proof (parse_child_refs h _ _ _ _ _ Hr Ec) as R2.
  destruct (Block.truthy e); inversion H; subst; exact (rext_trans _ _ _ R1 R2).
Qed.

Lemma item_loop_refs h sc cs te : rspec h -> forall iters st rf src pb tight pos st2 rf2 src2 next tight2 brk,
  item_loop C h iters sc cs te st rf src pb tight pos = Ok (st2, rf2, src2, next, tight2, brk) -> rext rf rf2.
Proof.
  intros Hr. induction iters as [|it IH]; intros st rf src pb tight pos st2 rf2 src2 next tight2 brk H; cbn [item_loop] in H.
  - destruct (Nat.leb _ _); [|discriminate]. inversion H; subst. apply rext_refl.
  - destruct (Nat.leb _ _); [inversion H; subst; apply rext_refl|].
    destruct (re_match _ _ _ 0 _); [exact (IH _ _ _ _ _ _ _ _ _ _ _ _ H)|].
    destruct (prefixb cs _).
    { destruct (_ && _); [inversion H; subst; apply rext_refl|exact (IH _ _ _ _ _ _ _ _ _ _ _ _ H)]. }
    assert (Hafter : forall sta rfa,
              (if pb then Ok (sta, rfa, src, None, tight, None)
               else item_loop C h it sc cs te (set_cursor sta (find_line_end C st)) rfa (src ++ expand_leading_tab C (get_text st (find_line_end C st)) 4) pb tight (find_line_end C st))
              = Ok (st2, rf2, src2, next, tight2, brk) -> rext rfa rf2).
    { intros sta rfa Ha. destruct pb; [inversion Ha; subst; apply rext_refl|exact (IH _ _ _ _ _ _ _ _ _ _ _ _ Ha)]. }
    destruct (bmatch_rules C sc _ _) as [[rk m]|]; [|exact (Hafter st rf H)].
    assert (Hother : (do (sta, rfa, np) <- h rk m st rf;
                      match Block.truthy np with
                      | Some p => Ok (sta, rfa, src, None, tight, Some (length (s_tokens st), p))
                      | None => (if pb then Ok (sta, rfa, src, None, tight, None)
                                 else item_loop C h it sc cs te (set_cursor sta (find_line_end C st)) rfa (src ++ expand_leading_tab C (get_text st (find_line_end C st)) 4) pb tight (find_line_end C st))
                      end) = Ok (st2, rf2, src2, next, tight2, brk) -> rext rf rf2).
    { unfold bind. destruct (h rk m st rf) as [[[sta rfa] np]| |] eqn:Eh; try discriminate.
      pose proof (Hr _ _ _ _ _ _ _ Eh) as R1. destruct (Block.truthy np); [intros Ha; inversion Ha; subst; exact R1|].
      intros Ha. exact (rext_trans _ _ _ R1 (Hafter sta rfa Ha)). }
    destruct rk; try exact (Hother H); inversion H; subst; apply rext_refl.
Qed.

Lemma items_loop_refs h bullet : rspec h -> forall iters groups st rf items tight st2 rf2 items2 tight2 brk,
  items_loop C h iters bullet groups st rf items tight = Ok (st2, rf2, items2, tight2, brk) -> rext rf rf2.
Proof.
  intros Hr. induction iters as [|it IH]; intros [[spaces marker] text0] st rf items tight st2 rf2 items2 tight2 brk H; cbn [items_loop] in H; [discriminate|].
  destruct (compile_continue_width C text0 _) as [text cw]. unfold bind in H.
  destruct (item_loop C h _ _ _ _ st rf [] false tight (s_cursor st)) as [[[[[[sta rfa] src] next] tighta] brka]| |] eqn:Ei; try discriminate.
  pose proof (item_loop_refs h _ _ _ Hr _ _ _ _ _ _ _ _ _ _ _ _ _ Ei) as R1.
  destruct (parse_child C h sta _ rfa) as [[ch rf3]| |] eqn:Ec; try discriminate.
  pose proof (parse_child_refs h _ _ _ _ _ Hr Ec) as R2.
  destruct next as [g|].
  - exact (rext_trans _ _ _ (rext_trans _ _ _ R1 R2) (IH _ _ _ _ _ _ _ _ _ _ H)).
  - inversion H; subst. exact (rext_trans _ _ _ R1 R2).
Qed.

Lemma handle_with_refs h : rspec h -> rspec (handle_with C h).
Proof.
  intros Hr rk m st rf st2 rf2 np H. unfold handle_with in H. destruct rk.
  - inversion H as [Hf]. unfold handle_fenced in Hf. cbv zeta in Hf.
    destruct (_ && memc 96%Z _); [inversion Hf; subst; apply rext_refl|]. destruct (rsearch C _ _ _); inversion Hf; subst; apply rext_refl.
  - destruct (append_paragraph C st) as [[? ?]|]; inversion H; subst; apply rext_refl.
  - inversion H; subst. apply rext_refl.
  - destruct (last_is_paragraph st) as [[? ?]|]; [inversion H; subst; apply rext_refl|].
    destruct (bmatch_rules C _ _ _) as [[rk2 m2]|]; [exact (Hr _ _ _ _ _ _ _ H)|inversion H; subst; apply rext_refl].
  - inversion H; subst. apply rext_refl.
  - exact (handle_quote_refs h _ _ _ _ _ _ Hr H).
  - unfold handle_list in H. cbv zeta in H.
    destruct (if _ || _ then append_paragraph C st else None) as [[? ?]|]; [inversion H; subst; apply rext_refl|].
    unfold bind in H. destruct (items_loop C h _ _ _ _ rf [] true) as [[[[[sta rfa] items] tight] brk]| |] eqn:El; try discriminate.
    pose proof (items_loop_refs h _ Hr _ _ _ _ _ _ _ _ _ _ _ El) as R1. destruct brk as [[? ?]|]; inversion H; subst; exact R1.
  - destruct (handle_ref_link_first_wins C m st rf st2 rf2 np H) as [->|(k & v & -> & Hk)]; [apply rext_refl|].
    apply rext_step; [apply rext_refl|exact Hk].
  - inversion H as [Hh]. assert (E : rf2 = rf).
    { revert Hh. unfold handle_html. cbv zeta.
      repeat match goal with |- context [if ?b then _ else _] => destruct b end; try (intros Hh; inversion Hh; reflexivity).
      all: destruct (append_paragraph C st) as [[? ?]|]; [intros Hh; inversion Hh; reflexivity|].
      all: repeat match goal with |- context [if ?b then _ else _] => destruct b end; intros Hh; inversion Hh; reflexivity. }
    subst. apply rext_refl.
  - inversion H; subst. apply rext_refl.
  - inversion H as [Hh]. assert (E : rf2 = rf).
    { revert Hh. unfold handle_html. cbv zeta.
      repeat match goal with |- context [if ?b then _ else _] => destruct b end; try (intros Hh; inversion Hh; reflexivity).
      all: destruct (append_paragraph C st) as [[? ?]|]; [intros Hh; inversion Hh; reflexivity|].
      all: repeat match goal with |- context [if ?b then _ else _] => destruct b end; intros Hh; inversion Hh; reflexivity. }
    subst. apply rext_refl.
  - discriminate.
Qed.

Lemma bhandle_refs : forall fuel, rspec (bhandle C fuel).
Proof. induction fuel as [|f IH]; cbn [bhandle]; [intros rk m st rf st2 rf2 np H; discriminate|apply handle_with_refs; exact IH]. Qed.

(* the final table extends the empty one only by first definitions *)
Theorem block_parse_refs s toks rf : block_parse C s = Ok (toks, rf) -> rext [] rf.
Proof.
  unfold block_parse, bind. destruct (parse_loop C _ _ _ _ []) as [[st2 rf2]| |] eqn:E; try discriminate.
  intros [= _ <-]. exact (parse_loop_refs _ (bhandle_refs _) _ _ _ _ _ _ E).
Qed.

Lemma rext_nil_nodup rf : rext [] rf -> forall k, assoc_refs k rf = true -> exists v, ref_lookup k rf = Some v.
Proof.
  intros _ k. induction rf as [|[k' v'] rf IH]; cbn; [discriminate|]. destruct (str_eqb k k'); cbn; [intros _; eexists; reflexivity|exact IH].
Qed.
End Refs.
