(* MdProofs.v — the Markdown renderer drops and reorders no word character of any leaf.
   [L] projects a string on the letters and digits.  None of the layout operations of the renderer touches them:
   textwrap.indent inserts "> ", the list renderer replaces line boundaries and inserts indentation, _quote_end_re and
   strip_end delete only characters their patterns can match, and no match of those patterns contains a letter or digit
   (RxAnalysis.avoids on the regenerated patterns).  By induction over the AST the letters and digits of all text,
   code and HTML leaves, in document order, are a subsequence of those of the output. *)
From Coq Require Import ZArith List Bool Lia Arith.
From Verif Require Import PyStr Rx RxSpec RxAnalysis RxSub RxSubProofs Inline Block Doc MdRender MdDoc HtmlDocProofs.
Import ListNotations.
Local Open Scope nat_scope.

Section MdP.
Variable U : uni.
Variable quote_end strip_end_rx : rx.
Variable keep : list Z.
Hypothesis keep_no_sep : forallb (fun c => negb (is_linesep c) && negb (c =? 32)%Z && negb (c =? 62)%Z) keep = true.
Hypothesis W_quote : wf quote_end = true.
Hypothesis A_quote : avoids U keep quote_end = true.
Hypothesis W_strip : wf strip_end_rx = true.
Hypothesis A_strip : avoids U keep strip_end_rx = true.

Notation L := (proj keep).

Lemma memc_In c l : memc c l = true -> In c l.
Proof. induction l as [|x l IH]; cbn; [discriminate|]. intros H. apply orb_true_iff in H. destruct H as [H|H]; [left; apply Z.eqb_eq in H; auto|right; auto]. Qed.
Lemma keep_char c : memc c keep = true -> is_linesep c = false /\ (c =? 32)%Z = false /\ (c =? 62)%Z = false.
Proof.
  intros H. rewrite forallb_forall in keep_no_sep. apply memc_In in H. rename H into Hin. specialize (keep_no_sep c Hin). apply andb_true_iff in keep_no_sep. destruct keep_no_sep as [H1 H3].
  apply andb_true_iff in H1. destruct H1 as [H1 H2]. repeat split; apply negb_true_iff; assumption.
Qed.
Lemma L_sep c : is_linesep c = true -> L [c] = [].
Proof. intros H. cbn. destruct (memc c keep) eqn:E; [|reflexivity]. destruct (keep_char c E) as [H1 _]. congruence. Qed.
Lemma L_space : L [32%Z] = [].
Proof. cbn. destruct (memc 32%Z keep) eqn:E; [|reflexivity]. destruct (keep_char _ E) as (_ & H & _). discriminate. Qed.
Lemma L_nl : L [10%Z] = [].
Proof. apply L_sep. reflexivity. Qed.
Lemma L_gt : L [62%Z] = [].
Proof. cbn. destruct (memc 62%Z keep) eqn:E; [|reflexivity]. destruct (keep_char _ E) as (_ & _ & H). discriminate. Qed.
Lemma L_spaces n : L (repeat 32%Z n) = [].
Proof. induction n as [|n IH]; [reflexivity|]. change (repeat 32%Z (S n)) with ([32%Z] ++ repeat 32%Z n). rewrite proj_app, L_space, IH. reflexivity. Qed.
Lemma L_rev_cons c cur : L (rev (c :: cur)) = L (rev cur) ++ L [c].
Proof. cbn [rev]. apply proj_app. Qed.
Lemma L_flat_map {A} (f : A -> str) l : L (flat_map f l) = flat_map (fun x => L (f x)) l.
Proof. induction l as [|x l IH]; [reflexivity|]. cbn [flat_map]. rewrite proj_app, IH. reflexivity. Qed.

(* ---- line splitting keeps the letters ---- *)
Lemma splitlines_keep_L : forall n s cur, length s <= n -> flat_map (fun l => L l) (splitlines_keep_aux s cur) = L (rev cur) ++ L s.
Proof.
  induction n as [|n IH]; intros s cur Hn.
  - destruct s; [|cbn in Hn; lia]. cbn. destruct cur; cbn; rewrite ?app_nil_r; reflexivity.
  - destruct s as [|c r]; [cbn; destruct cur; cbn; rewrite ?app_nil_r; reflexivity|]. cbn [splitlines_keep_aux]. cbn [length] in Hn.
    change (c :: r) with ([c] ++ r). rewrite (proj_app keep [c] r).
    destruct (c =? 13)%Z eqn:E13.
    + destruct r as [|c2 r'].
      * cbn [flat_map]. change (L []) with (@nil Z). rewrite !app_nil_r, L_rev_cons. reflexivity.
      * destruct (c2 =? 10)%Z eqn:E10.
        -- cbn [flat_map]. rewrite (IH r' [] ltac:(cbn in Hn; lia)). change (rev (@nil Z)) with (@nil Z); change (L []) with (@nil Z); cbn [app].
           change (c2 :: r') with ([c2] ++ r'). rewrite (proj_app keep [c2] r').
           replace (rev (c2 :: c :: cur)) with (rev cur ++ [c] ++ [c2]) by (cbn; rewrite <- app_assoc; reflexivity).
           rewrite !proj_app, <- !app_assoc. reflexivity.
        -- cbn [flat_map]. rewrite (IH (c2 :: r') [] ltac:(cbn in *; lia)). change (rev (@nil Z)) with (@nil Z); change (L []) with (@nil Z); cbn [app]. rewrite L_rev_cons, <- app_assoc. reflexivity.
    + destruct (is_linesep c) eqn:Es.
      * cbn [flat_map]. rewrite (IH r [] ltac:(lia)). change (rev (@nil Z)) with (@nil Z); change (L []) with (@nil Z); cbn [app]. rewrite L_rev_cons, <- app_assoc. reflexivity.
      * rewrite (IH r (c :: cur) ltac:(lia)). rewrite L_rev_cons, <- app_assoc. reflexivity.
Qed.

Lemma lines_lf_keep_L : forall s cur, flat_map (fun l => L l) (lines_lf_keep_aux s cur) = L (rev cur) ++ L s.
Proof.
  induction s as [|c r IH]; intros cur.
  - cbn. destruct cur; cbn; rewrite ?app_nil_r; reflexivity.
  - cbn [lines_lf_keep_aux]. change (c :: r) with ([c] ++ r). rewrite (proj_app keep [c] r).
    destruct (c =? 10)%Z eqn:E10.
    + cbn [flat_map]. rewrite (IH []). change (rev (@nil Z)) with (@nil Z); change (L []) with (@nil Z); cbn [app]. rewrite L_rev_cons, <- app_assoc. reflexivity.
    + rewrite (IH (c :: cur)). rewrite L_rev_cons, <- app_assoc. reflexivity.
Qed.

Lemma indent_all_L p t : L p = [] -> L (indent_all p t) = L t.
Proof.
  intros Hp. unfold indent_all. rewrite L_flat_map.
  rewrite (flat_map_ext _ (fun l => L l)) by (intros l; rewrite proj_app, Hp; reflexivity).
  unfold lines_lf_keep. rewrite (lines_lf_keep_L t []). reflexivity.
Qed.

Lemma lines_lf_L : forall s cur, flat_map (fun l => L l) (lines_lf_aux s cur) = L (rev cur) ++ L s.
Proof.
  induction s as [|c r IH]; intros cur.
  - cbn. destruct cur; cbn; rewrite ?app_nil_r; reflexivity.
  - cbn [lines_lf_aux]. change (c :: r) with ([c] ++ r). rewrite (proj_app keep [c] r).
    destruct (c =? 10)%Z eqn:E10.
    + assert (Hc : L [c] = []) by (apply Z.eqb_eq in E10; subst; apply L_nl).
      cbn [flat_map]. rewrite (IH []). change (rev (@nil Z)) with (@nil Z); change (L []) with (@nil Z); cbn [app]. rewrite Hc. reflexivity.
    + rewrite (IH (c :: cur)). rewrite L_rev_cons, <- app_assoc. reflexivity.
Qed.

Lemma item_text_L leading body : L (item_text leading body) = L leading ++ L body.
Proof.
  unfold item_text. pose proof (lines_lf_L body []) as H.
  change (rev (@nil Z)) with (@nil Z) in H. change (L []) with (@nil Z) in H. cbn [app] in H. fold (lines_lf body) in H.
  rewrite <- H. destruct (lines_lf body) as [|l ls]; cbn [tl flat_map].
  - rewrite !proj_app, L_nl. change (L []) with (@nil Z). rewrite !app_nil_r. reflexivity.
  - rewrite !proj_app, L_nl. cbn [app]. f_equal. f_equal. rewrite L_flat_map. apply flat_map_ext. intros line.
    destruct line; [rewrite L_nl; reflexivity|]. rewrite !proj_app, L_spaces, L_nl, app_nil_r. reflexivity.
Qed.

(* ---- deletions by patterns that cannot match a letter ---- *)
Lemma search_from_match r : forall fuel z m, search_from U r fuel z = Some m -> exists z1 w0, adv z z1 w0 /\ match_at U r z1 = Some m.
Proof.
  induction fuel as [|f IH]; intros z m H; cbn [search_from] in H.
  - destruct (match_at U r z) eqn:E; [|discriminate]. inversion H; subst. exists z, []. split; [apply adv_refl|exact E].
  - destruct (match_at U r z) eqn:E; [inversion H; subst; exists z, []; split; [apply adv_refl|exact E]|].
    destruct (zstep z) as [[ch z']|] eqn:Es; [|discriminate]. destruct (IH _ _ H) as (z1 & w0 & Ha & Hm).
    exists z1, ([ch] ++ w0). split; [exact (adv_trans _ _ _ _ _ (zstep_adv _ _ _ Es) Ha)|exact Hm].
Qed.

Lemma match_at_M r z m : wf r = true -> match_at U r z = Some m -> exists z' c', M U r z [] z' c' /\ m = (z_idx z, z_idx z', c').
Proof.
  intros W H. unfold match_at in H. destruct (m_spec U r W _ z [] (fun z' c' => Some (z_idx z, z_idx z', c'))) as [S1 _].
  apply S1 in H. destruct H as (z1 & c1 & HM & Hk). inversion Hk; subst. exists z1, c1. split; [exact HM|reflexivity].
Qed.

Lemma sub_once_del_L r s : wf r = true -> avoids U keep r = true -> L (sub_once_del U r s) = L s.
Proof.
  intros W A. unfold sub_once_del. destruct (re_search U r s 0 (length s)) as [m|] eqn:E; [|reflexivity].
  unfold re_search in E. rewrite Nat.min_id in E. cbn [Nat.ltb Nat.leb] in E.
  destruct (search_from_match r _ _ _ E) as (z1 & w0 & Ha & Hm).
  destruct (match_at_M r z1 m W Hm) as (z' & c' & HM & ->). cbn [fst snd].
  destruct (avoids_sound U keep r A _ _ _ _ HM) as (w & Hadv & Hw).
  pose proof (zip_at_whole s) as Hs. destruct Ha as (A1 & _ & A3). destruct Hadv as (B1 & _ & B3).
  rewrite Hs in A1. assert (I0 : z_idx (zip_at s 0 (length s)) = 0) by (unfold zip_at; rewrite Nat.min_id; reflexivity).
  rewrite I0 in A3. cbn in A3. rewrite B3, A3. rewrite A1, B1.
  rewrite firstn_app, firstn_all, Nat.sub_diag. cbn [firstn]. rewrite app_nil_r.
  rewrite skipn_app. rewrite (skipn_all2 (n := length w0 + length w)) by lia.
  replace (length w0 + length w - length w0) with (length w) by lia. cbn [app].
  rewrite skipn_app, skipn_all, Nat.sub_diag. cbn [skipn app].
  rewrite !proj_app, (proj_none keep w Hw). reflexivity.
Qed.

Lemma strip_end_L s : L (md_strip_end U strip_end_rx s) = L s.
Proof. unfold md_strip_end. apply re_sub_keeps; [exact W_strip|exact A_strip|]. cbn. destruct (memc 10%Z keep) eqn:E; [|reflexivity]. destruct (keep_char _ E) as [H _]. discriminate. Qed.

(* ---- the leaves ---- *)
Fixpoint tok_leaves (t : tok) : list str :=
  match t with
  | TText raw | TCodespan raw | TInlineHtml raw => [raw]
  | TEmphasis ch | TStrong ch | TLink _ ch _ _ _ _ => flat_map tok_leaves ch
  | _ => []
  end.
Fixpoint node_leaves (n : node) : list str :=
  match n with
  | NCode raw _ _ _ | NHtml raw => [raw]
  | NHeading ch _ _ | NParagraph ch | NBlockText ch => flat_map tok_leaves ch
  | NQuote ch | NListItem ch => flat_map node_leaves ch
  | NList items _ _ _ _ _ => flat_map node_leaves items
  | _ => []
  end.
Definition Ls (l : list str) : str := flat_map (fun x => L x) l.

Lemma Ls_app a b : Ls (a ++ b) = Ls a ++ Ls b.
Proof. unfold Ls. apply flat_map_app. Qed.
Lemma Ls_flat_map {A} (f : A -> list str) l : Ls (flat_map f l) = flat_map (fun x => Ls (f x)) l.
Proof. induction l as [|x l IH]; [reflexivity|]. cbn [flat_map]. rewrite Ls_app, IH. reflexivity. Qed.

Lemma subseq_app : forall a b c d, subseq a b -> subseq c d -> subseq (a ++ c) (b ++ d).
Proof. intros a b c d H. induction H; intros Hc; cbn; [exact Hc|apply sub_skip; auto|apply sub_take; auto]. Qed.
Lemma subseq_nil l : subseq [] l.
Proof. induction l; constructor; assumption. Qed.
Lemma subseq_wrap a b p q : subseq a b -> subseq a (p ++ b ++ q).
Proof. intros H. apply subseq_drop. rewrite <- (app_nil_r a). apply subseq_app; [exact H|apply subseq_nil]. Qed.
Lemma subseq_flat_map {A} (f g : A -> str) l : (forall x, In x l -> subseq (f x) (g x)) -> subseq (flat_map f l) (flat_map g l).
Proof.
  induction l as [|x l IH]; intros H; [constructor|]. cbn [flat_map]. apply subseq_app; [apply H; left; reflexivity|].
  apply IH. intros y Hy. apply H. right. exact Hy.
Qed.

Lemma subseq_trans : forall a b c, subseq a b -> subseq b c -> subseq a c.
Proof.
  intros a0 b0 c0 H1 H2. revert a0 H1. induction H2; intros a0 H1.
  - exact H1.
  - apply sub_skip. apply IHsubseq. exact H1.
  - inversion H1; subst; [apply sub_skip; apply IHsubseq; assumption|apply sub_take; apply IHsubseq; assumption].
Qed.

Lemma md_link_sub text url title label : subseq (L text) (L (md_link text url title label)).
Proof.
  unfold md_link. destruct (opt_nonempty label).
  - rewrite <- !app_assoc, !proj_app. apply subseq_wrap. apply subseq_refl.
  - destruct (_ && _).
    + rewrite !proj_app. apply subseq_wrap. apply subseq_refl.
    + rewrite <- !app_assoc, !proj_app. apply subseq_wrap. apply subseq_refl.
Qed.

Lemma tok_sub_n : forall n t, tsize t <= n -> subseq (Ls (tok_leaves t)) (L (md_tok t)).
Proof.
  induction n as [|n IH]; intros t Hn; [destruct t; cbn in Hn; lia|].
  assert (Hch : forall ch, S (list_sum (map tsize ch)) <= S n -> subseq (Ls (flat_map tok_leaves ch)) (L (flat_map md_tok ch))).
  { intros ch Hle. rewrite Ls_flat_map, L_flat_map. apply subseq_flat_map. intros c Hc. apply IH. pose proof (in_tsize _ _ Hc). lia. }
  destruct t as [raw|raw|raw| | |ch|ch|img ch url title a b|name ch]; cbn [tok_leaves md_tok tsize] in *.
  - cbn. rewrite app_nil_r. apply subseq_refl.
  - cbn [Ls flat_map]. rewrite app_nil_r, !proj_app. apply subseq_wrap, subseq_refl.
  - cbn. rewrite app_nil_r. apply subseq_refl.
  - apply subseq_nil.
  - apply subseq_nil.
  - rewrite !proj_app. apply subseq_wrap. exact (Hch ch Hn).
  - rewrite !proj_app. apply subseq_wrap. exact (Hch ch Hn).
  - rewrite proj_app. apply subseq_drop. exact (subseq_trans _ _ _ (Hch ch Hn) (md_link_sub _ _ _ _)).
  - apply subseq_nil.
Qed.

Lemma toks_sub l : subseq (Ls (flat_map tok_leaves l)) (L (md_toks l)).
Proof. unfold md_toks. rewrite Ls_flat_map, L_flat_map. apply subseq_flat_map. intros t _. exact (tok_sub_n (tsize t) t (le_n _)). Qed.

Lemma L_quote_prefix : L [62%Z; 32%Z] = [].
Proof. change [62%Z; 32%Z] with ([62%Z] ++ [32%Z]). rewrite proj_app, L_gt, L_space. reflexivity. Qed.

Lemma node_sub_n : forall k n par, nsize n <= k -> subseq (Ls (node_leaves n)) (L (md_node U quote_end strip_end_rx par n)).
Proof.
  induction k as [|k IH]; intros n par Hk; [destruct n; cbn in Hk; lia|].
  assert (Hch : forall ch, S (list_sum (map nsize ch)) <= S k ->
                subseq (Ls (flat_map node_leaves ch)) (L (flat_map (md_node U quote_end strip_end_rx None) ch))).
  { intros ch Hle. rewrite Ls_flat_map, L_flat_map. apply subseq_flat_map. intros c Hc. apply IH. pose proof (in_nsize _ _ Hc). lia. }
  destruct n as [| |raw f mk info|ch lv se|ch|ch|ch|items ti b d o s|ch|raw]; cbn [node_leaves md_node nsize] in *.
  - apply subseq_nil.
  - apply subseq_nil.
  - cbn [Ls flat_map]. rewrite app_nil_r.
    set (code := if _ && _ then raw ++ [10%Z] else raw).
    assert (Hc : subseq (L raw) (L code)).
    { unfold code. destruct (_ && _); [rewrite proj_app, L_nl, app_nil_r|]; apply subseq_refl. }
    rewrite !proj_app. do 3 apply subseq_drop. rewrite <- (app_nil_r (L raw)). apply subseq_app; [exact Hc|apply subseq_nil].
  - rewrite !proj_app. do 2 apply subseq_drop. rewrite <- (app_nil_r (Ls _)). apply subseq_app; [apply toks_sub|apply subseq_nil].
  - rewrite proj_app. rewrite <- (app_nil_r (Ls _)). apply subseq_app; [apply toks_sub|apply subseq_nil].
  - rewrite proj_app. rewrite <- (app_nil_r (Ls _)). apply subseq_app; [apply toks_sub|apply subseq_nil].
  - rewrite proj_app, (sub_once_del_L quote_end _ W_quote A_quote), (indent_all_L _ _ L_quote_prefix).
    rewrite <- (app_nil_r (Ls _)). apply subseq_app; [exact (Hch ch Hk)|apply subseq_nil].
  - (* list *)
    set (body := fun it : node => match it with
                                  | NListItem ch0 => flat_map (fun c => match c with
                                                                        | NList _ _ _ _ _ _ => md_node U quote_end strip_end_rx (Some ti) c
                                                                        | NBlank => []
                                                                        | _ => md_node U quote_end strip_end_rx None c end) ch0
                                  | other => md_node U quote_end strip_end_rx None other
                                  end).
    assert (Hb : forall it, nsize it <= k -> subseq (Ls (node_leaves it)) (L (body it))).
    { intros it Hit. unfold body. destruct it as [| |? ? ? ?|? ? ?|?|?|?|? ? ? ? ? ?|ch0|?]; try exact (IH _ None Hit).
      cbn [node_leaves]. rewrite Ls_flat_map, L_flat_map. apply subseq_flat_map. intros c Hc.
      assert (Hcs : nsize c <= k) by (pose proof (in_nsize _ _ Hc); cbn [nsize] in Hit; lia).
      destruct c; try exact (IH _ None Hcs); try exact (IH _ (Some ti) Hcs). }
    assert (Ht : forall z, subseq (Ls (flat_map node_leaves items)) (L (md_items body o b z items))).
    { clear Hch. revert Hk. induction items as [|it r IHr]; intros Hk z; [apply subseq_nil|].
      cbn [flat_map md_items]. rewrite Ls_app, proj_app. apply subseq_app.
      - rewrite item_text_L. apply subseq_drop. apply Hb.
        change (list_sum (map nsize (it :: r))) with (nsize it + list_sum (map nsize r)) in Hk. lia.
      - apply IHr. change (list_sum (map nsize (it :: r))) with (nsize it + list_sum (map nsize r)) in Hk. lia. }
    destruct par as [[|]|].
    + apply Ht.
    + rewrite proj_app, L_nl, app_nil_r. apply Ht.
    + rewrite proj_app, L_nl, app_nil_r, strip_end_L. apply Ht.
  - exact (Hch ch Hk).
  - cbn [Ls flat_map]. rewrite app_nil_r, proj_app. rewrite <- (app_nil_r (L raw)) at 1. apply subseq_app; [apply subseq_refl|apply subseq_nil].
Qed.

(* the whole document *)
Theorem md_doc_keeps_leaves ast rf : subseq (Ls (flat_map node_leaves ast)) (L (md_doc U quote_end strip_end_rx ast rf)).
Proof.
  unfold md_doc. rewrite strip_end_L, !proj_app. rewrite <- (app_nil_r (Ls _)). apply subseq_app; [|apply subseq_nil].
  rewrite Ls_flat_map, L_flat_map. apply subseq_flat_map. intros n _. exact (node_sub_n (nsize n) n None (le_n _)).
Qed.
End MdP.
