(* RxSubProofs.v — substitution keeps every character that the pattern cannot consume:
   if no match of r ever contains a character of [keep] (RxAnalysis.avoids) and the replacement text contains
   none either, then the subsequence of [keep]-characters of pattern.sub(rep, s) is that of s - for every s. *)
From Coq Require Import ZArith List Bool Lia.
From Verif Require Import PyStr Rx RxSpec RxAnalysis RxSub.
Import ListNotations.
Local Open Scope nat_scope.

Section Sub.
Variable U : uni.
Variable keep : list Z.

Definition proj (s : list Z) : list Z := List.filter (fun ch => memc ch keep) s.

Lemma proj_app a b : proj (a ++ b) = proj a ++ proj b.
Proof. unfold proj. apply filter_app. Qed.

Lemma proj_cons ch l : proj (ch :: l) = (if memc ch keep then [ch] else []) ++ proj l.
Proof. unfold proj. cbn. destruct (memc ch keep); reflexivity. Qed.

Lemma proj_none w : Forall (fun ch => memc ch keep = false) w -> proj w = [].
Proof. induction 1 as [|x l Hx _ IH]; cbn; [reflexivity|]. rewrite Hx. exact IH. Qed.

Lemma match_zip_sound r must z z' c' : wf r = true -> match_zip U r must z = Some (z', c') -> M U r z [] z' c'.
Proof.
  intros W H. unfold match_zip in H.
  destruct (m_spec U r W _ z [] (fun z' c' => if must && Nat.eqb (z_idx z') (z_idx z) then None else Some (z', c'))) as [S1 _].
  apply S1 in H. destruct H as (z1 & c1 & HM & Hk). destruct (must && Nat.eqb (z_idx z1) (z_idx z)); [discriminate|].
  inversion Hk; subst. exact HM.
Qed.

Lemma matched_adv z z' w : adv z z' w -> matched z z' = w.
Proof.
  intros (A & _ & C). unfold matched. rewrite A, C.
  replace (z_idx z + length w - z_idx z) with (length w + 0) by lia. rewrite firstn_app_2. cbn. apply app_nil_r.
Qed.

(* ---------- captures lie inside the match ---------- *)
Definition within (lo hi : nat) (e : nat * (nat * nat)) : Prop :=
  lo <= fst (snd e) /\ fst (snd e) <= snd (snd e) /\ snd (snd e) <= hi.

Lemma within_widen lo hi lo' hi' e : within lo hi e -> lo' <= lo -> hi <= hi' -> within lo' hi' e.
Proof. unfold within. lia. Qed.

Lemma caps_within r : wf r = true -> forall z c z' c', M U r z c z' c' ->
  forall e, In e c' -> In e c \/ within (z_idx z) (z_idx z') e.
Proof.
  induction r as [|ch|ch|ineg items|dotall|ra IHa rb IHb|ra IHa rb IHb| |greedy lo hi r1 IH1|g r1 IH1|g|ahead neg r1 IH1|a];
    cbn [wf M]; intros W z c z' c' H e He;
    try (destruct H as (ch0 & _ & _ & ->); left; exact He).
  - destruct H as [_ ->]. left. exact He.
  - apply andb_true_iff in W. destruct W as [W1 W2]. destruct H as (z1 & c1 & Ha & Hb).
    pose proof (M_idx_le U _ _ _ _ _ Ha) as L1. pose proof (M_idx_le U _ _ _ _ _ Hb) as L2.
    destruct (IHb W2 _ _ _ _ Hb e He) as [H1|H1]; [|right; eapply within_widen; [exact H1|lia|lia]].
    destruct (IHa W1 _ _ _ _ Ha e H1) as [H2|H2]; [left; exact H2|right; eapply within_widen; [exact H2|lia|lia]].
  - apply andb_true_iff in W. destruct W as [W1 W2]. destruct H as [H|H]; eauto.
  - contradiction.
  - destruct H as (n & _ & _ & Hi). clear lo hi greedy. revert e He.
    induction Hi as [z c|n z c z1 c1 z2 c2 HR Hlt Hit IH]; intros e He; [left; exact He|].
    pose proof (M_idx_le U _ _ _ _ _ HR) as L1.
    assert (L2 : z_idx z1 <= z_idx z2).
    { clear - Hit IH1 W. induction Hit as [|n z c z1 c1 z2 c2 HR Hlt _ IHi]; [lia|]. pose proof (M_idx_le U _ _ _ _ _ HR). lia. }
    destruct (IH e He) as [H1|H1]; [|right; eapply within_widen; [exact H1|lia|lia]].
    destruct (IH1 W _ _ _ _ HR e H1) as [H2|H2]; [left; exact H2|right; eapply within_widen; [exact H2|lia|lia]].
  - destruct H as (c1 & Hm & ->). pose proof (M_idx_le U _ _ _ _ _ Hm) as L. destruct He as [<-|He].
    + right. unfold within. cbn. lia.
    + eauto.
  - destruct H as (a0 & b0 & _ & Hl). apply Mlits_adv in Hl. destruct Hl as [_ ->]. left. exact He.
  - apply andb_true_iff in W. destruct W as [Wn Ww]. destruct neg.
    + destruct H as (_ & -> & _). left. exact He.
    + destruct H as (_ & z0 & zl & _ & Hm & _). rewrite (nocap_caps U r1 Wn _ _ _ _ Hm) in He. left. exact He.
  - destruct H as (_ & -> & _). left. exact He.
Qed.

Lemma cap_get_In c g a b : cap_get c g = Some (a, b) -> In (g, (a, b)) c.
Proof.
  induction c as [|[g' ab] c IH]; cbn; [discriminate|]. destruct (Nat.eqb_spec g g').
  - intros [= ->]. subst. left. reflexivity.
  - intros H. right. apply IH. exact H.
Qed.

(* zipper index = number of characters before the position *)
Definition zwf (z : zip) : Prop := z_idx z = length (z_pre z).

Lemma zwf_adv z z' w : zwf z -> adv z z' w -> zwf z'.
Proof. unfold zwf. intros Hz (_ & B & C). rewrite B, C, app_length, rev_length. lia. Qed.

Lemma zwf_zip_at s : zwf (zip_at s 0 (length s)).
Proof. unfold zwf, zip_at. rewrite Nat.min_id. cbn. reflexivity. Qed.

(* a captured group's text is a stretch of the matched text *)
Lemma group_text_infix r z z' c' w g : wf r = true -> zwf z -> M U r z [] z' c' -> adv z z' w ->
  exists p q, w = p ++ group_text g c' z ++ q.
Proof.
  intros W Hz HM Hadv. unfold group_text. destruct (cap_get c' g) as [[a b]|] eqn:E; [|exists [], w; reflexivity].
  apply cap_get_In in E. destruct (caps_within r W _ _ _ _ HM _ E) as [[]|(L1 & L2 & L3)]. cbn in L1, L2, L3.
  destruct Hadv as (A & _ & C). unfold zslice, subject. rewrite A. unfold zwf in Hz.
  assert (Hl : length (rev (z_pre z)) = z_idx z) by (rewrite rev_length; lia).
  rewrite skipn_app, Hl. rewrite (skipn_all2 (rev (z_pre z))) by lia. cbn [app].
  rewrite skipn_app, firstn_app.
  replace (b - a - length (skipn (a - z_idx z) w)) with 0 by (rewrite skipn_length; lia). cbn [firstn]. rewrite app_nil_r.
  exists (firstn (a - z_idx z) w), (skipn (b - a) (skipn (a - z_idx z) w)).
  rewrite firstn_skipn. rewrite firstn_skipn. reflexivity.
Qed.

Lemma proj_infix w p t q : w = p ++ t ++ q -> Forall (fun ch => memc ch keep = false) w -> proj t = [].
Proof.
  intros -> H. apply Forall_app in H. destruct H as [_ H]. apply Forall_app in H. destruct H as [H _]. apply proj_none. exact H.
Qed.

Lemma proj_spaces n : memc 32%Z keep = false -> proj (repeat 32%Z n) = [].
Proof. intros H. apply proj_none. apply Forall_forall. intros x Hx. apply repeat_spec in Hx. subst. exact H. Qed.

Definition repl_ok (k : repl) : bool :=
  match k with
  | RConst s | RGroupThen _ s => forallb (fun ch => negb (memc ch keep)) s
  | RGroupPad _ _ => negb (memc 32%Z keep)
  end.

Lemma proj_forallb s : forallb (fun ch => negb (memc ch keep)) s = true -> proj s = [].
Proof.
  intros H. apply proj_none. apply Forall_forall. intros x Hx. rewrite forallb_forall in H. apply negb_true_iff. apply H. exact Hx.
Qed.

Lemma rep_of_keeps r k z z' c' w : wf r = true -> repl_ok k = true -> zwf z -> M U r z [] z' c' -> adv z z' w ->
  Forall (fun ch => memc ch keep = false) w -> proj (rep_of k w c' z) = [].
Proof.
  intros W Hk Hz HM Hadv Hw. destruct k as [s|g s|g width]; cbn [rep_of repl_ok] in *.
  - apply proj_forallb. exact Hk.
  - destruct (group_text_infix r z z' c' w g W Hz HM Hadv) as (p & q & E).
    rewrite proj_app, (proj_infix _ _ _ _ E Hw), (proj_forallb _ Hk). reflexivity.
  - destruct (group_text_infix r z z' c' w g W Hz HM Hadv) as (p & q & E).
    rewrite proj_app, (proj_infix _ _ _ _ E Hw). apply proj_spaces. apply negb_true_iff. exact Hk.
Qed.

Theorem sub_keeps r k : wf r = true -> avoids U keep r = true -> repl_ok k = true ->
  forall fuel must z, zwf z -> proj (sub_loop U r (rep_of k) fuel must z) = proj (z_rest z).
Proof.
  intros W Ha Hk. induction fuel as [|f IH]; intros must z Hz; cbn [sub_loop]; [reflexivity|].
  destruct (match_zip U r must z) as [[z' c']|] eqn:E.
  - apply match_zip_sound in E; [|exact W].
    destruct (avoids_sound U keep r Ha _ _ _ _ E) as (w & Hadv & Hw).
    rewrite proj_app, (IH _ _ (zwf_adv _ _ _ Hz Hadv)), (matched_adv _ _ _ Hadv), (rep_of_keeps r k z z' c' w W Hk Hz E Hadv Hw). cbn.
    destruct Hadv as (A & _ & _). rewrite A, proj_app, (proj_none w Hw). reflexivity.
  - destruct (zstep z) as [[ch z1]|] eqn:Es.
    + pose proof (zstep_adv _ _ _ Es) as Hadv. rewrite proj_cons, (IH _ _ (zwf_adv _ _ _ Hz Hadv)).
      destruct Hadv as (A & _ & _). rewrite A. cbn [app]. rewrite proj_cons. reflexivity.
    + unfold zstep in Es. destruct (z_rest z); [reflexivity|discriminate].
Qed.

Lemma zip_at_whole s : z_rest (zip_at s 0 (length s)) = s.
Proof. unfold zip_at. rewrite Nat.min_id. cbn. rewrite Nat.sub_0_r. apply firstn_all. Qed.

(* pattern.sub(repl, s) keeps the [keep]-characters of s, in order, and adds none *)
Corollary re_sub_keeps r k s : wf r = true -> avoids U keep r = true -> repl_ok k = true ->
  proj (re_sub U r (rep_of k) s) = proj s.
Proof. intros W Ha Hk. unfold re_sub. rewrite (sub_keeps r k W Ha Hk _ _ _ (zwf_zip_at s)). rewrite zip_at_whole. reflexivity. Qed.

(* deletion never invents text either: the result is a subsequence of the subject *)
Inductive subseq : list Z -> list Z -> Prop :=
| sub_nil : subseq [] []
| sub_skip x a b : subseq a b -> subseq a (x :: b)
| sub_take x a b : subseq a b -> subseq (x :: a) (x :: b).

Lemma subseq_refl l : subseq l l.
Proof. induction l as [|x l IH]; [constructor|apply sub_take; exact IH]. Qed.

Lemma subseq_drop w : forall a b, subseq a b -> subseq a (w ++ b).
Proof. induction w as [|x w IH]; cbn; intros a b H; [assumption|apply sub_skip; apply IH; exact H]. Qed.

Theorem sub_del_subseq r : wf r = true -> forall fuel must z, subseq (sub_loop U r (fun _ _ _ => []) fuel must z) (z_rest z).
Proof.
  intros W. induction fuel as [|f IH]; intros must z; cbn [sub_loop]; [apply subseq_refl|].
  destruct (match_zip U r must z) as [[z' c']|] eqn:E.
  - apply match_zip_sound in E; [|exact W]. destruct (M_adv U r _ _ _ _ E) as (w & A & _). rewrite A. cbn.
    apply subseq_drop. apply IH.
  - unfold zstep. destruct (z_rest z) as [|ch rest] eqn:Er; [constructor|].
    apply sub_take. specialize (IH false {| z_pre := ch :: z_pre z; z_rest := rest; z_idx := S (z_idx z) |}). exact IH.
Qed.
End Sub.

(* the ASCII letters and digits, and the projection of a string on them *)
Definition alnum : list Z :=
  map Z.of_nat (seq 48 10 ++ seq 65 26 ++ seq 97 26).
Definition letters (s : list Z) : list Z := proj alnum s.
