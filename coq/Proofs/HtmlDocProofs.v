(* HtmlDocProofs.v — the template theorems composed over the token tree: for every AST of the core model, every
   token's render call satisfies the reading property of its template (inserted pieces are read as character data or
   inside a quoted attribute value and contain no < > double-quote) and the output of every subtree is a fragment (the
   reader is back in character data).  The induction over the tree discharges the children_ok hypothesis of the
   per-template theorem. *)
From Coq Require Import ZArith List Bool Lia.
From Verif Require Import PyStr Util UtilGen UtilProofs Tmpl HtmlRender TmplCheck TmplGen Inline Block Doc HtmlDoc.
Import ListNotations.
Open Scope Z_scope.

Lemma digits_aux_free : forall fuel n acc, special_free acc -> special_free (digits_aux fuel n acc).
Proof.
  induction fuel as [|k IH]; intros n acc Ha; cbn [digits_aux]; [exact Ha|].
  assert (Hc : special_free ((48 + n mod 10) :: acc)).
  { constructor; [|exact Ha]. pose proof (Z.mod_pos_bound n 10 ltac:(lia)). lia. }
  destruct (n / 10 =? 0); [exact Hc|apply IH; exact Hc].
Qed.

Lemma str_of_Z_free z : special_free (str_of_Z z).
Proof. unfold str_of_Z. destruct (z <? 0); [constructor; [lia|]|]; apply digits_aux_free; constructor. Qed.

Lemma free_None : special_free [78; 111; 110; 101].
Proof. repeat constructor; lia. Qed.
Lemma free_True : special_free [84; 114; 117; 101].
Proof. repeat constructor; lia. Qed.
Lemma free_False : special_free [70; 97; 108; 115; 101].
Proof. repeat constructor; lia. Qed.

Lemma pv_safe_free v : (match v with PStr _ => False | _ => True end) -> special_free (pv_str v).
Proof. destruct v as [s| |[|]|z]; cbn; intros H; [contradiction|apply free_None|apply free_True|apply free_False|apply str_of_Z_free]. Qed.

Definition tok_children (t : tok) : list tok :=
  match t with TEmphasis ch | TStrong ch | TLink _ ch _ _ _ _ | TExt _ ch => ch | _ => [] end.

Fixpoint tsize (t : tok) : nat :=
  match t with
  | TEmphasis ch | TStrong ch | TLink _ ch _ _ _ _ | TExt _ ch => S (list_sum (map tsize ch))
  | _ => 1%nat
  end.

Lemma in_tsize x l : In x l -> (tsize x <= list_sum (map tsize l))%nat.
Proof.
  induction l as [|y l IH]; [intros []|]. change (list_sum (map tsize (y :: l))) with (tsize y + list_sum (map tsize l))%nat.
  intros [->|H]; [lia|]. specialize (IH H). lia.
Qed.

Definition node_children (n : node) : list node :=
  match n with NQuote ch | NListItem ch => ch | NList items _ _ _ _ _ => items | _ => [] end.
Definition node_toks (n : node) : list tok :=
  match n with NHeading ch _ _ | NParagraph ch | NBlockText ch => ch | _ => [] end.
Fixpoint nsize (n : node) : nat :=
  match n with
  | NQuote ch | NListItem ch => S (list_sum (map nsize ch))
  | NList items _ _ _ _ _ => S (list_sum (map nsize items))
  | _ => 1%nat
  end.

Lemma in_nsize x l : In x l -> (nsize x <= list_sum (map nsize l))%nat.
Proof.
  induction l as [|y l IH]; [intros []|]. change (list_sum (map nsize (y :: l))) with (nsize y + list_sum (map nsize l))%nat.
  intros [->|H]; [lia|]. specialize (IH H). lia.
Qed.


Section DocSafe.
Variable E : renv.
Variable ops : list esc_op.
Variable xt : str -> template.
Hypothesis Hesc : r_escape E = true.
(* plugin render functions take the rendered children as their only argument and insert them unfiltered *)
Hypothesis xt_in : forall name, In (xt name, [KHtml], []) all_templates.
Hypothesis xt_atoms : forall name, t_atoms (xt name) = [].
Hypothesis xt_plain : forall name p fs, In (SIns p fs) (eval (t_body (xt name)) []) -> fs = [].
(* the per-template theorem (instantiated in Props/C02.v from the regenerated templates) *)
Hypothesis template_theorem : forall t sig fixed vals,
  In (t, sig, fixed) all_templates -> vals_ok sig vals ->
  (forall p, In p (digit_params (t_atoms t) (shape_of E ops (t_atoms t) vals)) -> nth p sig KRaw <> KHtml) ->
  shape_allowed fixed (shape_of E ops (t_atoms t) vals) = true ->
  children_ok E ops sig vals (eval (t_body t) (shape_of E ops (t_atoms t) vals)) ->
  fst (run_pieces E ops sig vals Data (eval (t_body t) (shape_of E ops (t_atoms t) vals))) /\
  snd (run_pieces E ops sig vals Data (eval (t_body t) (shape_of E ops (t_atoms t) vals))) = Data.

Definition frag (s : str) : Prop := hrun Data s = Data.

Lemma frag_nil : frag [].
Proof. reflexivity. Qed.

Lemma frag_app a b : frag a -> frag b -> frag (a ++ b).
Proof. unfold frag. intros Ha Hb. rewrite hrun_app, Ha. exact Hb. Qed.

Lemma frag_flat_map {A} (f : A -> str) l : (forall x, In x l -> frag (f x)) -> frag (flat_map f l).
Proof. induction l as [|x l IH]; intros H; [apply frag_nil|]. cbn. apply frag_app; [apply H; left; reflexivity|apply IH; intros y Hy; apply H; right; exact Hy]. Qed.

Lemma run_pieces_hrun sig vals : forall segs st, snd (run_pieces E ops sig vals st segs) = hrun st (fill E ops segs vals).
Proof.
  induction segs as [|sg r IH]; intros st; cbn [run_pieces fill flat_map]; [reflexivity|].
  specialize (IH (hrun st (fill_seg E ops vals sg))). destruct (run_pieces E ops sig vals (hrun st (fill_seg E ops vals sg)) r) as [P fin].
  cbn [snd] in *. rewrite hrun_app. exact IH.
Qed.

(* the reading property of one render call *)
Definition pieces_ok (tv : template * list pv) : Prop :=
  exists sig fixed, In (fst tv, sig, fixed) all_templates /\
    fst (run_pieces E ops sig (snd tv) Data (eval (t_body (fst tv)) (shape_of E ops (t_atoms (fst tv)) (snd tv)))).

Lemma render_call_ok t sig fixed vals :
  In (t, sig, fixed) all_templates -> vals_ok sig vals ->
  (forall p, In p (digit_params (t_atoms t) (shape_of E ops (t_atoms t) vals)) -> nth p sig KRaw <> KHtml) ->
  shape_allowed fixed (shape_of E ops (t_atoms t) vals) = true ->
  children_ok E ops sig vals (eval (t_body t) (shape_of E ops (t_atoms t) vals)) ->
  pieces_ok (t, vals) /\ frag (render E ops t vals).
Proof.
  intros Hin Hv Hd Hs Hc. destruct (template_theorem t sig fixed vals Hin Hv Hd Hs Hc) as [H1 H2]. split.
  - exists sig, fixed. split; [exact Hin|exact H1].
  - unfold frag, render. rewrite <- (run_pieces_hrun sig vals). exact H2.
Qed.

(* children of a template whose KHtml parameter is p0 with value a fragment *)
Lemma children_ok_of sig vals segs : (forall p, nth p sig KRaw = KHtml -> frag (pv_str (nth p vals PNone))) ->
  (forall p fs, In (SIns p fs) segs -> nth p sig KRaw = KHtml -> fs = []) ->
  children_ok E ops sig vals segs.
Proof.
  intros Hf Hfs p fs Hin Hk. rewrite (Hfs p fs Hin Hk). cbn [fill_seg]. unfold apply_filters. cbn [apply_filters_fuel]. apply Hf. exact Hk.
Qed.

Ltac vals_ok_tac :=
  let p := fresh "p" in
  intros p;
  do 4 (destruct p as [|p];
        [cbn; first [exact I | apply str_of_Z_free | apply free_None | apply free_True | apply free_False
                    | match goal with |- special_free (pv_str ?v) => destruct v; cbn; first [apply free_True | apply free_False | apply free_None | apply str_of_Z_free] end]|]);
  cbn; destruct p; exact I.

Definition nodigit (atoms : list atom) : bool := forallb (fun a => match a with AIsDigit _ => false | _ => true end) atoms.
Lemma digit_params_none atoms : nodigit atoms = true -> forall sh, digit_params atoms sh = [].
Proof.
  induction atoms as [|a atoms IH]; intros H sh; [destruct sh; reflexivity|]. cbn in H. apply andb_true_iff in H. destruct H as [Ha Hr].
  destruct sh as [|b sh]; [destruct a; reflexivity|]. destruct a; try discriminate; cbn [digit_params]; apply IH; exact Hr.
Qed.
Ltac no_digits := let p := fresh "p" in let Hp := fresh "Hp" in intros p Hp; rewrite digit_params_none in Hp by reflexivity; contradiction.

(* goals of the form  nth p sig KRaw = KHtml -> _  for a signature without rendered-children parameters *)
Ltac no_html p Hk := do 4 (destruct p as [|p]; [cbn in Hk; try discriminate Hk|]); try (cbn in Hk; destruct p; discriminate Hk).

Ltac in_templates := unfold all_templates; repeat (first [left; reflexivity | right]).

(* ---- inline tokens ---- *)
Inductive tok_safe : tok -> Prop :=
| tok_safe_intro t : (forall c, In c (tok_children t) -> tok_safe c) ->
                     pieces_ok (tok_args xt (flat_map (html_tok E ops xt) (tok_children t)) t) -> tok_safe t.

Lemma html_tok_unfold t : html_tok E ops xt t = render E ops (fst (tok_args xt (flat_map (html_tok E ops xt) (tok_children t)) t)) (snd (tok_args xt (flat_map (html_tok E ops xt) (tok_children t)) t)).
Proof. destruct t; reflexivity. Qed.

Lemma shape_text_allowed vals : shape_allowed [(0%nat, true)] (shape_of E ops [AEscapeFlag] vals) = true.
Proof. cbn. rewrite Hesc. reflexivity. Qed.

Lemma tok_ok_n : forall n t, (tsize t <= n)%nat -> tok_safe t /\ frag (html_tok E ops xt t).
Proof.
  induction n as [|n IH]; intros t Hn; [destruct t; cbn in Hn; lia|].
  assert (Hch : forall c, In c (tok_children t) -> tok_safe c /\ frag (html_tok E ops xt c)).
  { intros c Hin. apply IH. pose proof (in_tsize _ _ Hin) as Hs. destruct t; cbn [tok_children] in *; try contradiction; cbn [tsize] in Hn; lia. }
  assert (Hfrag : frag (flat_map (html_tok E ops xt) (tok_children t))).
  { apply frag_flat_map. intros c Hin. apply Hch. exact Hin. }
  assert (Hcall : pieces_ok (tok_args xt (flat_map (html_tok E ops xt) (tok_children t)) t) /\ frag (html_tok E ops xt t)).
  { rewrite html_tok_unfold. destruct t as [raw|raw|raw| | |ch|ch|img ch url title tk ref|name ch]; cbn [tok_args tok_children fst snd] in *.
    - (* text *) apply (render_call_ok tmpl_html_text sig_html_text [(0%nat, true)]); [in_templates| | |apply shape_text_allowed|].
      + vals_ok_tac.
      + no_digits.
      + apply children_ok_of; [intros p Hk; exfalso; no_html p Hk|intros p fs Hin Hk; exfalso; no_html p Hk].
    - (* codespan *) apply (render_call_ok tmpl_html_codespan sig_html_codespan []); [in_templates| | |reflexivity|].
      + vals_ok_tac.
      + no_digits.
      + apply children_ok_of; [intros p Hk; exfalso; no_html p Hk|intros p fs Hin Hk; exfalso; no_html p Hk].
    - (* inline_html *) apply (render_call_ok tmpl_html_inline_html sig_html_inline_html [(0%nat, true)]); [in_templates| | |apply shape_text_allowed|].
      + vals_ok_tac.
      + no_digits.
      + apply children_ok_of; [intros p Hk; exfalso; no_html p Hk|intros p fs Hin Hk; exfalso; no_html p Hk].
    - (* linebreak *) apply (render_call_ok tmpl_html_linebreak sig_html_linebreak []); [in_templates| | |reflexivity|].
      + vals_ok_tac.
      + no_digits.
      + intros p fs Hin. cbn in Hin. intuition discriminate.
    - (* softbreak *) apply (render_call_ok tmpl_html_softbreak sig_html_softbreak []); [in_templates| | |reflexivity|].
      + vals_ok_tac.
      + no_digits.
      + intros p fs Hin. cbn in Hin. intuition discriminate.
    - (* emphasis *) apply (render_call_ok tmpl_html_emphasis sig_html_emphasis []); [in_templates| | |reflexivity|].
      + vals_ok_tac.
      + no_digits.
      + apply children_ok_of.
        * intros p Hk. destruct p as [|p]; [exact Hfrag|exfalso; no_html p Hk].
        * intros p fs Hin Hk. cbn in Hin. repeat (destruct Hin as [Hin|Hin]; [inversion Hin; subst; try reflexivity; try (cbn in Hk; discriminate)|]). contradiction.
    - (* strong *) apply (render_call_ok tmpl_html_strong sig_html_strong []); [in_templates| | |reflexivity|].
      + vals_ok_tac.
      + no_digits.
      + apply children_ok_of.
        * intros p Hk. destruct p as [|p]; [exact Hfrag|exfalso; no_html p Hk].
        * intros p fs Hin Hk. cbn in Hin. repeat (destruct Hin as [Hin|Hin]; [inversion Hin; subst; try reflexivity; try (cbn in Hk; discriminate)|]). contradiction.
    - (* link / image *) destruct img.
      + apply (render_call_ok tmpl_html_image sig_html_image []); [in_templates| | |reflexivity|].
        * vals_ok_tac.
        * no_digits.
        * intros p fs Hin Hk. exfalso. no_html p Hk.
      + apply (render_call_ok tmpl_html_link sig_html_link []); [in_templates| | |reflexivity|].
        * vals_ok_tac.
        * no_digits.
        * apply children_ok_of.
          -- intros p Hk. destruct p as [|p]; [exact Hfrag|exfalso; no_html p Hk].
          -- intros p fs Hin Hk. destruct p as [|p]; [|exfalso; no_html p Hk].
             cbn in Hin. destruct title as [[|c0 tl]|]; cbn in Hin;
               repeat (destruct Hin as [Hin|Hin]; [inversion Hin; subst; reflexivity|]); contradiction.
    - (* plugin token *) apply (render_call_ok (xt name) [KHtml] []); [apply xt_in|vals_ok_tac| |reflexivity|].
      + intros p Hp. rewrite xt_atoms in Hp. cbn in Hp. contradiction.
      + apply children_ok_of.
        * intros p Hk. destruct p as [|p]; [exact Hfrag|exfalso; no_html p Hk].
        * intros p fs Hin Hk. rewrite xt_atoms in Hin. cbn [shape_of map] in Hin. exact (xt_plain name p fs Hin). }
  split; [|apply Hcall]. constructor; [intros c Hin; apply Hch; exact Hin|apply Hcall].
Qed.

Theorem tok_tree_safe t : tok_safe t /\ frag (html_tok E ops xt t).
Proof. apply (tok_ok_n (tsize t)). lia. Qed.

Lemma toks_frag l : frag (html_toks E ops xt l).
Proof. apply frag_flat_map. intros t _. apply tok_tree_safe. Qed.

(* ---- block nodes ---- *)
Definition node_inner (n : node) : str :=
  match n with
  | NHeading ch _ _ | NParagraph ch | NBlockText ch => html_toks E ops xt ch
  | NQuote ch | NListItem ch => flat_map (html_node E ops xt) ch
  | NList items _ _ _ _ _ => flat_map (html_node E ops xt) items
  | _ => []
  end.

Inductive node_safe : node -> Prop :=
| node_safe_intro n : (forall c, In c (node_children n) -> node_safe c) -> (forall t, In t (node_toks n) -> tok_safe t) ->
                      pieces_ok (node_args (node_inner n) n) -> node_safe n.

Lemma html_node_unfold n : html_node E ops xt n = render E ops (fst (node_args (node_inner n) n)) (snd (node_args (node_inner n) n)).
Proof. destruct n; reflexivity. Qed.

Lemma node_ok_n : forall k n, (nsize n <= k)%nat -> node_safe n /\ frag (html_node E ops xt n).
Proof.
  induction k as [|k IH]; intros n Hk; [destruct n; cbn in Hk; lia|].
  assert (Hch : forall c, In c (node_children n) -> node_safe c /\ frag (html_node E ops xt c)).
  { intros c Hin. apply IH. pose proof (in_nsize _ _ Hin) as Hs. destruct n; cbn [node_children] in *; try contradiction; cbn [nsize] in Hk; lia. }
  assert (Hfrag : frag (node_inner n)).
  { destruct n; cbn [node_inner node_children] in *; try apply frag_nil; try apply toks_frag;
      apply frag_flat_map; intros c Hin; apply Hch; exact Hin. }
  assert (Hcall : pieces_ok (node_args (node_inner n) n) /\ frag (html_node E ops xt n)).
  { rewrite html_node_unfold. set (inner := node_inner n) in *. clearbody inner.
    destruct n as [| |raw fenced marker info|ch level setext|ch|ch|ch|items tight bullet depth ordered start|ch|raw]; cbn [node_args fst snd].
    - apply (render_call_ok tmpl_html_blank_line sig_html_blank_line []); [in_templates|vals_ok_tac|no_digits|reflexivity|].
      intros p fs Hin. cbn in Hin. intuition discriminate.
    - apply (render_call_ok tmpl_html_thematic_break sig_html_thematic_break []); [in_templates|vals_ok_tac|no_digits|reflexivity|].
      intros p fs Hin. cbn in Hin. intuition discriminate.
    - apply (render_call_ok tmpl_html_block_code sig_html_block_code []); [in_templates|vals_ok_tac|no_digits|reflexivity|].
      intros p fs Hin Hk'. exfalso. no_html p Hk'.
    - apply (render_call_ok tmpl_html_heading sig_html_heading []); [in_templates|vals_ok_tac|no_digits|reflexivity|].
      apply children_ok_of.
      + intros p Hk'. destruct p as [|p]; [exact Hfrag|exfalso; no_html p Hk'].
      + intros p fs Hin Hk'. destruct p as [|p]; [|exfalso; no_html p Hk']. cbn in Hin.
        repeat (destruct Hin as [Hin|Hin]; [inversion Hin; subst; reflexivity|]); contradiction.
    - apply (render_call_ok tmpl_html_paragraph sig_html_paragraph []); [in_templates|vals_ok_tac|no_digits|reflexivity|].
      apply children_ok_of.
      + intros p Hk'. destruct p as [|p]; [exact Hfrag|exfalso; no_html p Hk'].
      + intros p fs Hin Hk'. destruct p as [|p]; [|exfalso; no_html p Hk']. cbn in Hin.
        repeat (destruct Hin as [Hin|Hin]; [inversion Hin; subst; reflexivity|]); contradiction.
    - apply (render_call_ok tmpl_html_block_text sig_html_block_text []); [in_templates|vals_ok_tac|no_digits|reflexivity|].
      apply children_ok_of.
      + intros p Hk'. destruct p as [|p]; [exact Hfrag|exfalso; no_html p Hk'].
      + intros p fs Hin Hk'. destruct p as [|p]; [|exfalso; no_html p Hk']. cbn in Hin.
        repeat (destruct Hin as [Hin|Hin]; [inversion Hin; subst; reflexivity|]); contradiction.
    - apply (render_call_ok tmpl_html_block_quote sig_html_block_quote []); [in_templates|vals_ok_tac|no_digits|reflexivity|].
      apply children_ok_of.
      + intros p Hk'. destruct p as [|p]; [exact Hfrag|exfalso; no_html p Hk'].
      + intros p fs Hin Hk'. destruct p as [|p]; [|exfalso; no_html p Hk']. cbn in Hin.
        repeat (destruct Hin as [Hin|Hin]; [inversion Hin; subst; reflexivity|]); contradiction.
    - apply (render_call_ok tmpl_html_list sig_html_list []); [in_templates| |no_digits|reflexivity|].
      { intros [|[|[|p]]]; cbn; [exact I|destruct ordered; [apply free_True|apply free_False]|destruct start; cbn; [apply str_of_Z_free|apply free_None]|destruct p; exact I]. }
      apply children_ok_of.
      + intros p Hk'. destruct p as [|p]; [exact Hfrag|exfalso; no_html p Hk'].
      + intros p fs Hin Hk'. destruct p as [|p]; [|exfalso; no_html p Hk']. cbn in Hin.
        destruct ordered; destruct start; cbn in Hin;
          repeat (destruct Hin as [Hin|Hin]; [inversion Hin; subst; reflexivity|]); contradiction.
    - apply (render_call_ok tmpl_html_list_item sig_html_list_item []); [in_templates|vals_ok_tac|no_digits|reflexivity|].
      apply children_ok_of.
      + intros p Hk'. destruct p as [|p]; [exact Hfrag|exfalso; no_html p Hk'].
      + intros p fs Hin Hk'. destruct p as [|p]; [|exfalso; no_html p Hk']. cbn in Hin.
        repeat (destruct Hin as [Hin|Hin]; [inversion Hin; subst; reflexivity|]); contradiction.
    - apply (render_call_ok tmpl_html_block_html sig_html_block_html [(0%nat, true)]); [in_templates|vals_ok_tac|no_digits|apply shape_text_allowed|].
      intros p fs Hin Hk'. exfalso. no_html p Hk'. }
  split; [|apply Hcall]. constructor; [intros c Hin; apply Hch; exact Hin|intros t _; apply tok_tree_safe|apply Hcall].
Qed.

Theorem node_tree_safe n : node_safe n /\ frag (html_node E ops xt n).
Proof. apply (node_ok_n (nsize n)). lia. Qed.

(* the whole document *)
Theorem doc_safe ns : Forall node_safe ns /\ frag (html_doc E ops xt ns).
Proof.
  split; [apply Forall_forall; intros n _; apply node_tree_safe|].
  apply frag_flat_map. intros n _. apply node_tree_safe.
Qed.
End DocSafe.
