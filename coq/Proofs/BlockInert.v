(* BlockInert.v — a block of text whose lines all begin with a lower-case letter is one paragraph: no block rule can
   match at a line start (first-character analysis) and no block rule can match anywhere else (every block rule is
   anchored at the beginning of a line). *)
From Coq Require Import ZArith List Bool Lia Arith.
From Verif Require Import PyStr Rx RxSpec RxAnalysis RxSub Scanner Inline InlineProofs InlineInert Block BlockProofs.
Import ListNotations.
Local Open Scope nat_scope.

Section Bol.
Variable U : uni.

(* every match of r starts at the beginning of a line *)
Fixpoint bol (r : rx) : bool :=
  match r with
  | RAt AtBeginningLine => true
  | RSeq a _ => bol a
  | RAlt a b => bol a && bol b
  | RGroup _ r1 => bol r1
  | RRep _ lo _ r1 => negb (Nat.eqb lo 0) && bol r1
  | _ => false
  end.

Lemma bol_sound r : bol r = true -> forall z c z' c', M U r z c z' c' -> at_ok U AtBeginningLine z = true.
Proof.
  induction r as [|ch|ch|ineg items|dotall|ra IHa rb IHb|ra IHa rb IHb| |greedy lo hi r1 IH1|g r1 IH1|g|ahead neg r1 IH1|a];
    cbn [bol M]; intros Hb z c z' c' H; try discriminate.
  - destruct H as (z1 & c1 & Ha & _). eauto.
  - apply andb_true_iff in Hb. destruct Hb as [H1 H2]. destruct H as [H|H]; eauto.
  - apply andb_true_iff in Hb. destruct Hb as [Hlo Hr]. destruct H as (n & Hn & _ & Hi).
    destruct n as [|n]; [destruct lo; [discriminate|lia]|]. inversion Hi; subst. eauto.
  - destruct H as (c1 & H & _). eauto.
  - destruct a; try discriminate. destruct H as (-> & _ & H). exact H.
Qed.

Lemma match_at_end_u r z : wf r = true -> nullable r = false -> z_rest z = [] -> match_at U r z = None.
Proof.
  intros W Hn He. destruct (match_at U r z) as [res|] eqn:E; [|reflexivity]. exfalso.
  destruct (match_sound U r z res W E) as (z' & c' & HM & _).
  destruct (M_adv U r _ _ _ _ HM) as [w Ha]. pose proof Ha as (A & _ & Ci). rewrite He in A.
  destruct w; [|discriminate]. cbn in Ci. rewrite Nat.add_0_r in Ci.
  rewrite (nullable_sound U r _ _ _ _ HM Ci) in Hn. discriminate.
Qed.
End Bol.

Section Inert.
Variable C : bcfg.
Variable LOW : list Z.   (* the characters a line may begin with *)

Definition bquiet (r : rx) : bool := solid r && bol r && first_excludes (b_uni C) LOW r.

Hypothesis Hq : forall rk, In rk (b_rules C) -> bquiet (b_spec C rk) = true.

(* every line of s begins with a character of LOW *)
Definition lines_begin (s : list Z) : Prop :=
  forall z, zof s z -> at_ok (b_uni C) AtBeginningLine z = true -> forall ch, hd_error (z_rest z) = Some ch -> memc ch LOW = true.

Lemma bquiet_no_match r s z : bquiet r = true -> lines_begin s -> zof s z -> match_at (b_uni C) r z = None.
Proof.
  unfold bquiet. intros H Hl Hz. apply andb_true_iff in H. destruct H as [H Hf]. apply andb_true_iff in H. destruct H as [Hs Hb].
  pose proof (solid_wf _ Hs) as W. pose proof (solid_nn _ Hs) as Hn.
  destruct (match_at (b_uni C) r z) as [res|] eqn:E; [|reflexivity]. exfalso.
  destruct (match_sound _ _ _ _ W E) as (z' & c' & HM & _).
  pose proof (bol_sound (b_uni C) r Hb _ _ _ _ HM) as Hat.
  destruct (z_rest z) as [|ch rest] eqn:Er.
  - rewrite (match_at_end_u (b_uni C) r z W Hn Er) in E. discriminate.
  - pose proof (Hl z Hz Hat ch ltac:(rewrite Er; reflexivity)) as Hlow.
    rewrite (cannot_start_at (b_uni C) LOW r z ch W Hn Hf ltac:(rewrite Er; reflexivity) Hlow) in E. discriminate.
Qed.

Lemma bscan_at_none rules s z : (forall rk, In rk rules -> bquiet (b_spec C rk) = true) -> lines_begin s -> zof s z ->
  bscan_at C (named C rules) z = None.
Proof.
  intros Hr Hl Hz. induction rules as [|r rs IH]; [reflexivity|]. cbn [named map bscan_at].
  rewrite (bquiet_no_match _ s z (Hr r (or_introl eq_refl)) Hl Hz). apply IH. intros rk Hin. apply Hr. right. exact Hin.
Qed.

Lemma bscan_from_none rules s : (forall rk, In rk rules -> bquiet (b_spec C rk) = true) -> lines_begin s ->
  forall fuel z, zof s z -> bscan_from C (named C rules) fuel z = None.
Proof.
  intros Hr Hl. induction fuel as [|f IH]; intros z Hz; cbn [bscan_from]; rewrite (bscan_at_none rules s z Hr Hl Hz); [reflexivity|].
  destruct (zstep z) as [[ch z']|] eqn:Es; [|reflexivity]. apply IH. exact (zof_adv _ _ _ _ Hz (zstep_adv _ _ _ Es)).
Qed.

(* the whole text becomes one paragraph and the reference table stays empty *)
Theorem lines_of_words_are_one_paragraph s : s <> [] -> lines_begin s -> block_parse C s = Ok ([BParagraph s], []).
Proof.
  intros Hne Hl. unfold block_parse, bind. cbn [parse_loop]. unfold cursor_max. cbn [s_src s_cursor].
  destruct (Nat.leb_spec (length s) 0) as [H0|Hpos]; [destruct s; [contradiction|cbn in H0; lia]|].
  unfold bsearch. destruct (Nat.ltb_spec (length s) 0) as [Hx|_]; [lia|].
  rewrite (bscan_from_none (b_rules C) s Hq Hl _ _ (zof_zip_at s 0 ltac:(lia))).
  cbn [s_cursor s_src]. destruct (Nat.ltb_spec 0 (length s)) as [_|Hx]; [|lia].
  unfold add_paragraph, last_is_paragraph. cbn. unfold slice. cbn. rewrite Nat.sub_0_r, firstn_all. reflexivity.
Qed.
End Inert.

(* ---- a concrete family: newline-terminated lines without inner newlines, each beginning with a character of LOW ---- *)
Section Lines.
Variable U : uni.
Variable LOW : list Z.

Definition good_line (l : list Z) : Prop := (exists c w, l = c :: w /\ memc c LOW = true) /\ ~ In 10%Z l.
Definition flat (ls : list (list Z)) : list Z := flat_map (fun l => l ++ [10%Z]) ls.

Lemma flat_split ls : Forall good_line ls -> forall a b, flat ls = a ++ 10%Z :: b ->
  exists k, b = flat (skipn k ls).
Proof.
  induction ls as [|l ls IH]; intros Hg a b E.
  - destruct a; discriminate.
  - inversion Hg as [|? ? [_ Hn] Hg']; subst. cbn [flat flat_map] in E. fold (flat ls) in E. rewrite <- app_assoc in E. cbn in E.
    assert (Hin : forall l0 a0, ~ In 10%Z l0 -> l0 ++ 10%Z :: flat ls = a0 ++ 10%Z :: b -> exists k, b = flat (skipn k ls)).
    { induction l0 as [|x l0 IHl]; intros a0 Hn0 E0.
      - cbn in E0. destruct a0 as [|y a0]; cbn in E0; inversion E0; subst.
        + exists 0. reflexivity.
        + exact (IH Hg' a0 b H1).
      - destruct a0 as [|y a0]; cbn in E0; inversion E0; subst.
        + exfalso. apply Hn0. left. reflexivity.
        + apply (IHl a0 (fun H => Hn0 (or_intror H)) H1). }
    destruct (Hin l a Hn E) as [k Hk]. exists (S k). exact Hk.
Qed.

Lemma flat_head ls : Forall good_line ls -> forall ch, hd_error (flat ls) = Some ch -> memc ch LOW = true.
Proof.
  intros Hg ch H. destruct ls as [|l ls]; [discriminate|]. inversion Hg as [|? ? [(c & w & -> & Hc) _] _]; subst.
  cbn in H. inversion H; subst. exact Hc.
Qed.

Lemma flat_lines_begin (C : bcfg) ls : Forall good_line ls -> lines_begin C LOW (flat ls).
Proof.
  intros Hg z [Hs Hi] Hat ch Hh. unfold subject in Hs. cbn [at_ok] in Hat.
  destruct (z_pre z) as [|p pre] eqn:Ep.
  - cbn in Hs. rewrite Hs in Hh. exact (flat_head ls Hg ch Hh).
  - apply Z.eqb_eq in Hat. subst p. cbn [rev] in Hs. rewrite <- app_assoc in Hs. cbn in Hs.
    destruct (flat_split ls Hg (rev pre) (z_rest z) (eq_sym Hs)) as [k Hk]. rewrite Hk in Hh.
    apply (flat_head (skipn k ls)); [|exact Hh]. clear - Hg. revert k. induction Hg as [|l ls Hl Hg IH]; intros [|k]; cbn; try constructor; auto.
Qed.
End Lines.
