(* RstTotal.v — when does the RST renderer raise?  [rst_doc] answers None in two places: the guard [node_ok] (a token without
   a render method, a heading level outside HEADING_MARKERS, an info string without a word) and the fuel of the walk over
   the list of inline images, which grows while it is walked.  The second never happens: every image appended during the
   walk is a proper sub-token of the image being printed, so the total size of the images still to print decreases.
   Hence  rst_doc ast = None  <->  the guard fails. *)
From Coq Require Import ZArith List Bool Lia Arith.
From Verif Require Import PyStr Rx RxSub Inline Block Doc MdDoc RstDoc HtmlDocProofs RstProofs.
Import ListNotations.
Local Open Scope nat_scope.

Definition is_img (t : tok) : bool := match t with TLink true _ _ _ _ _ => true | _ => false end.
Definition sizes (l : list tok) : nat := fold_right (fun c a => tok_size c + a) 0 l.

Lemma sizes_app a b : sizes (a ++ b) = sizes a + sizes b.
Proof.
  induction a as [|x a IH]; [reflexivity|]. change (sizes ((x :: a) ++ b)) with (tok_size x + sizes (a ++ b)).
  change (sizes (x :: a)) with (tok_size x + sizes a). rewrite IH. lia.
Qed.
Lemma in_sizes x l : In x l -> tok_size x <= sizes l.
Proof.
  induction l as [|y l IH]; [intros []|]. change (sizes (y :: l)) with (tok_size y + sizes l).
  intros [->|H]; [lia|]. specialize (IH H). lia.
Qed.
Lemma tok_size_pos t : 1 <= tok_size t.
Proof. destruct t; cbn; lia. Qed.

(* what one token adds to the image list *)
Definition adds (t : tok) : Prop :=
  forall imgs, exists extra, snd (rst_tok t imgs) = imgs ++ extra /\ forallb is_img extra = true /\ sizes extra <= tok_size t.
Definition adds_l (l : list tok) : Prop :=
  forall imgs, exists extra, snd (rst_toks l imgs) = imgs ++ extra /\ forallb is_img extra = true /\ sizes extra <= sizes l.

Lemma adds_list : forall l, (forall t, In t l -> adds t) -> adds_l l.
Proof.
  induction l as [|a l IH]; intros H imgs.
  - exists []. cbn. rewrite app_nil_r. repeat split; auto.
  - cbn [rst_toks]. destruct (H a (or_introl eq_refl) imgs) as (e1 & E1 & I1 & S1).
    destruct (rst_tok a imgs) as [x i1]. cbn [snd] in E1. subst i1.
    destruct (IH (fun t Ht => H t (or_intror Ht)) (imgs ++ e1)) as (e2 & E2 & I2 & S2).
    destruct (rst_toks l (imgs ++ e1)) as [y i2]. cbn [snd] in *. subst i2.
    exists (e1 ++ e2). rewrite app_assoc. split; [reflexivity|]. split; [rewrite forallb_app, I1, I2; reflexivity|].
    rewrite sizes_app. cbn [sizes fold_right]. fold (sizes l). lia.
Qed.

Lemma adds_n : forall n t, tok_size t <= n -> adds t.
Proof.
  induction n as [|n IH]; intros t Hn; [pose proof (tok_size_pos t); lia|].
  assert (Hch : forall ch, S (sizes ch) <= S n -> adds_l ch).
  { intros ch Hle. apply adds_list. intros c Hc. apply IH. pose proof (in_sizes _ _ Hc). lia. }
  assert (same : forall (s : str) imgs, exists extra, imgs = imgs ++ extra /\ forallb is_img extra = true /\ sizes extra <= tok_size t).
  { intros _ imgs. exists []. rewrite app_nil_r. repeat split; cbn; lia. }
  intros imgs. destruct t as [raw|raw|raw| | |ch|ch|img ch url title a b|name ch]; try (cbn [rst_tok snd]; apply (same []%Z)).
  - rewrite rst_tok_emph. cbn [tok_size] in Hn. fold (sizes ch) in Hn. destruct (Hch ch Hn imgs) as (e & E & I & S0).
    destruct (rst_toks ch imgs) as [s i]. cbn [snd] in *. exists e. repeat split; auto. cbn [tok_size]. fold (sizes ch). lia.
  - rewrite rst_tok_strong. cbn [tok_size] in Hn. fold (sizes ch) in Hn. destruct (Hch ch Hn imgs) as (e & E & I & S0).
    destruct (rst_toks ch imgs) as [s i]. cbn [snd] in *. exists e. repeat split; auto. cbn [tok_size]. fold (sizes ch). lia.
  - destruct img.
    + cbn [rst_tok snd]. exists [TLink true ch url title a b]. repeat split; auto. cbn. lia.
    + rewrite rst_tok_link. cbn [tok_size] in Hn. fold (sizes ch) in Hn. destruct (Hch ch Hn imgs) as (e & E & I & S0).
      destruct (rst_toks ch imgs) as [s i]. cbn [snd] in *. exists e. repeat split; auto. cbn [tok_size]. fold (sizes ch). lia.
Qed.
Lemma adds_toks l : adds_l l.
Proof. apply adds_list. intros t _. exact (adds_n (tok_size t) t (le_n _)). Qed.

(* the walk over the images never runs out of fuel *)
Lemma sizes_skipn_nth i imgs t : nth_error imgs i = Some t -> sizes (skipn i imgs) = tok_size t + sizes (skipn (S i) imgs).
Proof.
  revert imgs. induction i as [|i IH]; intros imgs H; destruct imgs as [|x r]; cbn in H; try discriminate.
  - inversion H; subst. reflexivity.
  - cbn [skipn]. apply IH. exact H.
Qed.
Lemma nth_error_img i imgs t : forallb is_img imgs = true -> nth_error imgs i = Some t -> is_img t = true.
Proof. intros A H. apply nth_error_In in H. rewrite forallb_forall in A. apply A. exact H. Qed.

Lemma refs_fuel : forall fuel i imgs, forallb is_img imgs = true -> sizes (skipn i imgs) < fuel -> rst_refs fuel i imgs <> None.
Proof.
  induction fuel as [|f IH]; intros i imgs A Hlt; [lia|]. cbn [rst_refs].
  destruct (nth_error imgs i) as [t|] eqn:E; [|discriminate].
  pose proof (nth_error_img _ _ _ A E) as It. destruct t as [raw|raw|raw| | |ch|ch|img ch url title a b|name ch]; try discriminate It.
  destruct img; [|discriminate It].
  destruct (adds_toks ch imgs) as (e & Ee & Ie & Se). destruct (rst_toks ch imgs) as [alt imgs']. cbn [snd] in Ee. subst imgs'.
  assert (Hi : S i <= length imgs) by (apply nth_error_Some; congruence).
  assert (Hnew : rst_refs f (S i) (imgs ++ e) <> None).
  { apply IH; [rewrite forallb_app, A, Ie; reflexivity|].
    rewrite skipn_app, sizes_app. replace (S i - length imgs) with 0 by lia. change (skipn 0 e) with e.
    rewrite (sizes_skipn_nth _ _ _ E) in Hlt. cbn [tok_size] in Hlt. fold (sizes ch) in Hlt. lia. }
  destruct (rst_refs f (S i) (imgs ++ e)); [discriminate|contradiction].
Qed.

Section Total.
Variable U : uni.
Variable ws : Z -> bool.
Variable strip_end_rx : rx.
Notation rnode := (rst_node U ws strip_end_rx).
Notation rnodes := (rst_nodes U ws strip_end_rx).

(* every render function only appends images to the list *)
Definition keeps (f : list tok -> str * list tok) : Prop := forall imgs, forallb is_img imgs = true -> forallb is_img (snd (f imgs)) = true.

Lemma keeps_toks l : keeps (rst_toks l).
Proof. intros imgs A. destruct (adds_toks l imgs) as (e & E & I & _). rewrite E, forallb_app, A, I. reflexivity. Qed.

Lemma keeps_paragraph ch : keeps (rst_paragraph ws ch).
Proof.
  assert (P : keeps (rst_paragraph_plain ch)).
  { intros imgs A. unfold rst_paragraph_plain. pose proof (keeps_toks ch imgs A) as H. destruct (rst_toks ch imgs). exact H. }
  destruct ch as [|t r]; [exact P|]. destruct t; try exact P. destruct image; try exact P. destruct r; try exact P.
  intros imgs A. cbn [rst_paragraph]. pose proof (keeps_toks children imgs A) as H. destruct (rst_toks children imgs). exact H.
Qed.

Lemma keeps_nodes : forall l, (forall n, In n l -> forall prev par, keeps (rnode prev par n)) -> forall prev, keeps (rnodes prev l).
Proof.
  induction l as [|a l IH]; intros H prev imgs A; [exact A|].
  pose proof (H a (or_introl eq_refl) prev None imgs A) as Ha. pose proof (IH (fun t Ht => H t (or_intror Ht))) as Hl.
  destruct a; cbn [rst_nodes];
    try (destruct (rnode prev None _ imgs) as [x i1]; cbn [snd] in Ha;
         match goal with |- context [rnodes ?p l i1] => pose proof (Hl p i1 Ha) as Hl'; destruct (rnodes p l i1) as [y i2] end; exact Hl').
  apply Hl. exact A.
Qed.

Lemma keeps_child tight c : (forall prev par, keeps (rnode prev par c)) -> keeps (rst_child U ws strip_end_rx tight c).
Proof. intros H imgs A. destruct c; cbn [rst_child]; try (apply H; exact A). exact A. Qed.
Lemma keeps_children tight : forall l, (forall n, In n l -> forall prev par, keeps (rnode prev par n)) -> keeps (rst_children U ws strip_end_rx tight l).
Proof.
  induction l as [|a l IH]; intros H imgs A; [exact A|]. cbn [rst_children].
  pose proof (keeps_child tight a (H a (or_introl eq_refl)) imgs A) as Ha. destruct (rst_child U ws strip_end_rx tight a imgs) as [x i1]. cbn [snd] in Ha.
  pose proof (IH (fun t Ht => H t (or_intror Ht)) i1 Ha) as Hl. fold (rst_children U ws strip_end_rx tight) in *.
  destruct (rst_children U ws strip_end_rx tight l i1). exact Hl.
Qed.
Lemma keeps_items body o b : forall items, (forall it, In it items -> keeps (body it)) -> forall z, keeps (rst_items body o b z items).
Proof.
  induction items as [|it r IH]; intros H z imgs A; [exact A|]. cbn [rst_items].
  pose proof (H it (or_introl eq_refl) imgs A) as Ha. destruct (body it imgs) as [x i1]. cbn [snd] in Ha.
  pose proof (IH (fun t Ht => H t (or_intror Ht)) (z + 1)%Z i1 Ha) as Hl. fold (rst_items body o b) in *.
  destruct (rst_items body o b (z + 1)%Z r i1). exact Hl.
Qed.

Lemma keeps_node_n : forall k n, nsize n <= k -> forall prev par, keeps (rnode prev par n).
Proof.
  induction k as [|k IH]; intros n Hk prev par imgs A; [destruct n; cbn in Hk; lia|].
  assert (Hin : forall ch, S (list_sum (map nsize ch)) <= S k -> forall c, In c ch -> forall prev par, keeps (rnode prev par c)).
  { intros ch Hle c Hc. apply IH. pose proof (in_nsize _ _ Hc). lia. }
  destruct n as [| |raw f mk info|ch lv se|ch|ch|ch|items ti b d o s|ch|raw]; cbn [nsize] in *.
  - exact A.
  - exact A.
  - exact A.
  - cbn [rst_node]. pose proof (keeps_toks ch imgs A) as H. destruct (rst_toks ch imgs). exact H.
  - cbn [rst_node]. apply keeps_paragraph. exact A.
  - cbn [rst_node]. pose proof (keeps_toks ch imgs A) as H. destruct (rst_toks ch imgs). exact H.
  - rewrite rst_node_quote. pose proof (keeps_nodes ch (Hin ch Hk) None imgs A) as H. destruct (rnodes None ch imgs). exact H.
  - rewrite rst_node_list.
    assert (Hb : forall it, In it items -> keeps (rst_body U ws strip_end_rx ti it)).
    { intros it Hit. assert (Hs : nsize it <= k) by (pose proof (in_nsize _ _ Hit); lia).
      destruct it as [| |? ? ? ?|? ? ?|?|?|?|? ? ? ? ? ?|ch0|?]; cbn [rst_body]; try exact (IH _ Hs None None).
      apply keeps_children. intros c Hc. apply IH. pose proof (in_nsize _ _ Hc). cbn [nsize] in Hs. lia. }
    pose proof (keeps_items (rst_body U ws strip_end_rx ti) o b items Hb (match s with Some z => z | None => 1%Z end) imgs A) as H.
    destruct (rst_items _ _ _ _ items imgs). exact H.
  - rewrite rst_node_item. apply keeps_nodes; [exact (Hin ch Hk)|exact A].
  - exact A.
Qed.

(* the renderer raises exactly when the guard fails *)
Theorem rst_doc_none_iff ast : rst_doc U ws strip_end_rx ast = None <-> forallb (node_ok ws) ast = false.
Proof.
  unfold rst_doc. destruct (forallb (node_ok ws) ast); [|split; reflexivity].
  split; [|discriminate]. intros H. exfalso.
  pose proof (keeps_nodes ast (fun n _ => keeps_node_n (nsize n) n (le_n _)) None [] eq_refl) as A.
  destruct (rnodes None ast []) as [o imgs]. cbn [snd] in A.
  pose proof (refs_fuel (S (sizes imgs)) 0 imgs A) as R. cbn [skipn] in R. fold (sizes imgs) in H.
  destruct (rst_refs (S (sizes imgs)) 0 imgs); [discriminate|]. apply R; [lia|reflexivity].
Qed.
End Total.
