(* BlockDepth.v — container nesting in the block token tree of the model never exceeds max_nested_level.
   [fits k t]: token t holds at most k levels of containers (a quote or a list is one level; a list item is not a level
   of its own).  The invariant of a parsing state at depth d is that its tokens fit max - d; quote and list handlers run
   only at depths below the maximum: the rule lists handed to nested states have both rules removed at the limit
   (nested_rules), the rule lists of the interrupting scanners are only used by a quote or list handler that itself runs
   below the limit, and the direct call from the setext-heading handler is guarded by the depth (the repair of finding
   C05/setext-underline-opens-list-at-depth-limit; without the guard the statement is false: a staircase of lone '-'
   lines nests without bound).  No fact about the patterns is needed: only WHICH rule fired matters. *)
From Coq Require Import ZArith List Bool Lia Arith.
From Verif Require Import PyStr Rx RxSub Scanner Inline Block BlockTyping.
Import ListNotations.
Local Open Scope nat_scope.

Fixpoint fits (k : nat) (t : btok) {struct t} : bool :=
  match t with
  | BQuote ch => match k with O => false | S k' => forallb (fits k') ch end
  | BList items _ _ _ _ _ => match k with O => false | S k' => forallb (fits k') items end
  | BListItem ch => forallb (fits k) ch
  | _ => true
  end.
Definition all_fit (k : nat) (l : list btok) : bool := forallb (fits k) l.
Arguments all_fit : simpl never.
Lemma fit_one k t : all_fit k [t] = fits k t.
Proof. unfold all_fit. cbn. apply andb_true_r. Qed.
Lemma fit_cons k t l : all_fit k (t :: l) = fits k t && all_fit k l.
Proof. reflexivity. Qed.

Section Depth.
Variable C : bcfg.
Hypothesis Hmax : 1 <= b_max_nested C.
Local Notation mx := (b_max_nested C).

Definition dinv (d : nat) (st : bstate) : Prop := s_depth st = d /\ all_fit (mx - d) (s_tokens st) = true.
Definition dpre (rk : brule) (d : nat) : Prop := (rk = RQuote \/ rk = RList) -> d < mx.
Definition rules_fit (rules : list brule) (d : nat) : Prop := forall rk, In rk rules -> dpre rk d.
Definition dspec_h (h : bhandler) : Prop :=
  forall d rk m st rf st2 rf2 np, dpre rk d -> h rk m st rf = Ok (st2, rf2, np) -> dinv d st -> dinv d st2.

(* ---- which rule a scanner answers ---- *)
Lemma bscan_at_in rules z rk m : bscan_at C rules z = Some (rk, m) -> In rk (map fst rules).
Proof.
  induction rules as [|[n r] rs IH]; cbn; [discriminate|]. destruct (match_at _ r z); [intros [= <- _]; left; reflexivity|].
  intros H. right. exact (IH H).
Qed.
Lemma bscan_from_in rules : forall fuel z rk m, bscan_from C rules fuel z = Some (rk, m) -> In rk (map fst rules).
Proof.
  induction fuel as [|f IH]; intros z rk m H; cbn [bscan_from] in H.
  - destruct (bscan_at C rules z) as [[rk' m']|] eqn:E; [|discriminate]. inversion H; subst. exact (bscan_at_in _ _ _ _ E).
  - destruct (bscan_at C rules z) as [[rk' m']|] eqn:E; [inversion H; subst; exact (bscan_at_in _ _ _ _ E)|].
    destruct (zstep z) as [[c z']|]; [|discriminate]. exact (IH _ _ _ H).
Qed.
Lemma named_fst rules : map fst (named C rules) = rules.
Proof. unfold named. rewrite map_map. cbn. apply map_id. Qed.
Lemma bsearch_in rules s pos rk m : bsearch C rules s pos = Some (rk, m) -> In rk rules.
Proof.
  unfold bsearch. destruct (Nat.ltb _ _); [discriminate|]. intros H. apply bscan_from_in in H. rewrite named_fst in H. exact H.
Qed.
Lemma bmatch_rules_in rules s pos rk m : bmatch_rules C rules s pos = Some (rk, m) -> In rk (map fst rules).
Proof. unfold bmatch_rules. apply bscan_at_in. Qed.

(* ---- the invariant under the state operations ---- *)
Lemma fit_app k a b : all_fit k (a ++ b) = all_fit k a && all_fit k b.
Proof. apply forallb_app. Qed.
Lemma fit_rev k l : all_fit k (rev l) = all_fit k l.
Proof. induction l as [|x l IH]; [reflexivity|]. cbn [rev]. rewrite fit_app, IH, fit_one, fit_cons. apply andb_comm. Qed.
Lemma dinv_set_cursor d st c : dinv d (set_cursor st c) <-> dinv d st.
Proof. unfold dinv. reflexivity. Qed.
Lemma dinv_append d st t : dinv d st -> fits (mx - d) t = true -> dinv d (append_token st t).
Proof. unfold dinv, append_token. cbn. intros [H1 H] Ht. split; [exact H1|]. rewrite fit_app, H, fit_one, Ht. reflexivity. Qed.
Lemma last_par_fit d st before t : last_is_paragraph st = Some (before, t) -> dinv d st -> all_fit (mx - d) before = true.
Proof.
  unfold last_is_paragraph, dinv. intros H [_ Hs]. destruct (rev (s_tokens st)) as [|x r] eqn:E; [discriminate|].
  destruct x; try discriminate. inversion H; subst. rewrite <- fit_rev in Hs. rewrite E in Hs. rewrite fit_cons in Hs. cbn [fits] in Hs. rewrite fit_rev. exact Hs.
Qed.
Lemma dinv_replace_last d st before t : s_depth st = d -> all_fit (mx - d) before = true -> fits (mx - d) t = true -> dinv d (set_tokens st (before ++ [t])).
Proof. unfold dinv. cbn. intros Hd H Ht. split; [exact Hd|]. rewrite fit_app, H, fit_one, Ht. reflexivity. Qed.
Lemma dinv_add_paragraph d st text : dinv d st -> dinv d (add_paragraph st text).
Proof.
  intros H. unfold add_paragraph. destruct (last_is_paragraph st) as [[before t]|] eqn:E.
  - apply dinv_replace_last; [exact (proj1 H)|eapply last_par_fit; eassumption|reflexivity].
  - apply dinv_append; [exact H|reflexivity].
Qed.
Lemma dinv_append_paragraph d st st' pos : append_paragraph C st = Some (st', pos) -> dinv d st -> dinv d st'.
Proof.
  unfold append_paragraph. destruct (last_is_paragraph st) as [[before t]|] eqn:E; [|discriminate]. intros [= <- _] H.
  apply dinv_replace_last; [exact (proj1 H)|eapply last_par_fit; eassumption|reflexivity].
Qed.
Lemma fit_insert k l i t : all_fit k l = true -> fits k t = true -> all_fit k (insert_at l i t) = true.
Proof.
  intros H Ht. unfold insert_at. rewrite fit_app, fit_cons, Ht.
  rewrite <- (firstn_skipn i l) in H. rewrite fit_app in H. apply andb_true_iff in H. destruct H as [H1 H2].
  rewrite H1, H2. reflexivity.
Qed.

(* ---- the loops ---- *)
Lemma parse_loop_depth h : dspec_h h -> forall iters rules st rf st2 rf2 d, rules_fit rules d ->
  parse_loop C h iters rules st rf = Ok (st2, rf2) -> dinv d st -> dinv d st2.
Proof.
  intros Hl. induction iters as [|it IH]; intros rules st rf st2 rf2 d Hr H Hs; cbn [parse_loop] in H.
  - destruct (Nat.leb _ _); [|discriminate]. inversion H; subst. destruct (Nat.ltb _ _); [apply dinv_set_cursor, dinv_add_paragraph; exact Hs|exact Hs].
  - destruct (Nat.leb (cursor_max st) (s_cursor st)).
    { inversion H; subst. destruct (Nat.ltb _ _); [apply dinv_set_cursor, dinv_add_paragraph; exact Hs|exact Hs]. }
    destruct (bsearch C rules (s_src st) (s_cursor st)) as [[rk m]|] eqn:Eb.
    2:{ inversion H; subst. destruct (Nat.ltb _ _); [apply dinv_set_cursor, dinv_add_paragraph; exact Hs|exact Hs]. }
    unfold bind in H.
    set (st1 := if Nat.ltb (s_cursor st) (Block.mstart m) then set_cursor (add_paragraph st (get_text st (Block.mstart m))) (Block.mstart m) else st) in *.
    assert (S3 : dinv d st1).
    { unfold st1. destruct (Nat.ltb _ _); [apply dinv_set_cursor, dinv_add_paragraph; exact Hs|exact Hs]. }
    destruct (h rk m st1 rf) as [[[sta rfa] np]| |] eqn:Eh; try discriminate.
    pose proof (Hl _ _ _ _ _ _ _ _ (Hr rk (bsearch_in _ _ _ _ _ Eb)) Eh S3) as Hsa.
    destruct (Block.truthy np).
    + apply (IH _ _ _ _ _ _ Hr H). apply dinv_set_cursor. exact Hsa.
    + apply (IH _ _ _ _ _ _ Hr H). apply dinv_set_cursor, dinv_add_paragraph. exact Hsa.
Qed.

Lemma nested_rules_fit st d : s_depth st = d -> rules_fit (nested_rules C st) (S d).
Proof.
  intros Hd rk Hin Hrk. unfold nested_rules in Hin. rewrite Hd in Hin.
  destruct (Nat.leb_spec (mx - 1) d) as [Hle|Hgt]; [|lia].
  apply filter_In in Hin. destruct Hin as [_ Hf]. destruct Hrk as [-> | ->]; cbn in Hf; discriminate.
Qed.

Lemma parse_child_depth h st text rf ch rf2 d : dspec_h h -> s_depth st = d ->
  parse_child C h st text rf = Ok (ch, rf2) -> all_fit (mx - S d) ch = true.
Proof.
  intros Hl Hd. unfold parse_child, bind. destruct (parse_loop C h _ _ _ rf) as [[c2 rfx]| |] eqn:E; try discriminate.
  intros [= <- _]. refine (proj2 (parse_loop_depth h Hl _ _ _ _ _ _ (S d) (nested_rules_fit st d Hd) E _)).
  unfold dinv, child_state. cbn. split; [rewrite Hd; reflexivity|reflexivity].
Qed.

Lemma quote_lazy_loop_depth h d : dspec_h h -> d < mx -> forall iters st rf text pb st2 rf2 t2 e,
  quote_lazy_loop C h iters st rf text pb = Ok (st2, rf2, t2, e) -> dinv d st -> dinv d st2.
Proof.
  intros Hl Hd. induction iters as [|it IH]; intros st rf text pb st2 rf2 t2 e H Hs; cbn [quote_lazy_loop] in H.
  - destruct (Nat.leb _ _); [|discriminate]. inversion H; subst. exact Hs.
  - destruct (Nat.leb (cursor_max st) (s_cursor st)); [inversion H; subst; exact Hs|].
    destruct (rmatch C (b_strict_quote C) _ _) as [m3|].
    + apply (IH _ _ _ _ _ _ _ _ H). apply dinv_set_cursor. exact Hs.
    + destruct pb; [inversion H; subst; exact Hs|].
      destruct (bmatch_rules C (named C QUOTE_BREAKS) (s_src st) (s_cursor st)) as [[rk m4]|] eqn:Eb.
      * unfold bind in H. destruct (h rk m4 st rf) as [[[sta rfa] np]| |] eqn:Eh; try discriminate.
        pose proof (Hl d rk _ _ _ _ _ _ (fun _ => Hd) Eh Hs) as Hsa.
        destruct (Block.truthy np); [inversion H; subst; exact Hsa|].
        apply (IH _ _ _ _ _ _ _ _ H). apply dinv_set_cursor. exact Hsa.
      * apply (IH _ _ _ _ _ _ _ _ H). apply dinv_set_cursor. exact Hs.
Qed.

Lemma budget_step d : d < mx -> mx - d = S (mx - S d).
Proof. lia. Qed.

Lemma handle_quote_depth h m st rf st2 rf2 np d : dspec_h h -> d < mx -> handle_quote C h m st rf = Ok (st2, rf2, np) -> dinv d st -> dinv d st2.
Proof.
  intros Hl Hd H Hs. unfold handle_quote, bind in H.
  destruct (extract_block_quote C h m st rf) as [[[[sta rfa] text] e]| |] eqn:Ee; try discriminate.
  assert (Hsa : dinv d sta).
  { unfold extract_block_quote in Ee. cbv zeta in Ee.
    destruct (match bmatch_rules C _ _ 0 with Some _ => true | None => false end).
    - destruct (rmatch C _ _ _); inversion Ee; subst; apply dinv_set_cursor; exact Hs.
    - unfold bind in Ee. destruct (quote_lazy_loop C h _ _ rf _ false) as [[[[stb rfb] tb] eb]| |] eqn:El; try discriminate.
      inversion Ee; subst. apply (quote_lazy_loop_depth h d Hl Hd _ _ _ _ _ _ _ _ _ El). apply dinv_set_cursor. exact Hs. }
  destruct (parse_child C h sta text rfa) as [[ch rf3]| |] eqn:Ec; try discriminate.
  pose proof (parse_child_depth h _ _ _ _ _ d Hl (proj1 Hsa) Ec) as Hch.
  assert (Hq : fits (mx - d) (BQuote ch) = true) by (rewrite (budget_step d Hd); cbn; exact Hch).
  destruct (Block.truthy e); inversion H; subst.
  - unfold dinv. cbn. split; [exact (proj1 Hsa)|]. apply fit_insert; [exact (proj2 Hsa)|exact Hq].
  - apply dinv_append; [exact Hsa|exact Hq].
Qed.

Lemma item_loop_depth h sc cs te d : dspec_h h -> d < mx ->
  forall iters st rf src pb tight pos st2 rf2 src2 next tight2 brk,
  item_loop C h iters sc cs te st rf src pb tight pos = Ok (st2, rf2, src2, next, tight2, brk) -> dinv d st -> dinv d st2.
Proof.
  intros Hl Hd. induction iters as [|it IH]; intros st rf src pb tight pos st2 rf2 src2 next tight2 brk H Hs; cbn [item_loop] in H.
  - destruct (Nat.leb _ _); [|discriminate]. inversion H; subst. exact Hs.
  - destruct (Nat.leb (cursor_max st) pos); [inversion H; subst; exact Hs|].
    destruct (re_match _ _ _ 0 _).
    { apply (IH _ _ _ _ _ _ _ _ _ _ _ _ H). apply dinv_set_cursor. exact Hs. }
    destruct (prefixb cs _).
    { destruct (_ && _); [inversion H; subst; exact Hs|]. apply (IH _ _ _ _ _ _ _ _ _ _ _ _ H). apply dinv_set_cursor. exact Hs. }
    assert (Hafter : forall sta rfa, dinv d sta ->
              (if pb then Ok (sta, rfa, src, None, tight, None)
               else item_loop C h it sc cs te (set_cursor sta (find_line_end C st)) rfa (src ++ expand_leading_tab C (get_text st (find_line_end C st)) 4) pb tight (find_line_end C st))
              = Ok (st2, rf2, src2, next, tight2, brk) -> dinv d st2).
    { intros sta rfa Hsa Ha. destruct pb; [inversion Ha; subst; exact Hsa|]. apply (IH _ _ _ _ _ _ _ _ _ _ _ _ Ha). apply dinv_set_cursor. exact Hsa. }
    destruct (bmatch_rules C sc (s_src st) (s_cursor st)) as [[rk m]|] eqn:Eb; [|exact (Hafter st rf Hs H)].
    assert (Hother : (do (sta, rfa, np) <- h rk m st rf;
                      match Block.truthy np with
                      | Some p => Ok (sta, rfa, src, None, tight, Some (length (s_tokens st), p))
                      | None => (if pb then Ok (sta, rfa, src, None, tight, None)
                                 else item_loop C h it sc cs te (set_cursor sta (find_line_end C st)) rfa (src ++ expand_leading_tab C (get_text st (find_line_end C st)) 4) pb tight (find_line_end C st))
                      end) = Ok (st2, rf2, src2, next, tight2, brk) -> dinv d st2).
    { unfold bind. destruct (h rk m st rf) as [[[sta rfa] np]| |] eqn:Eh; try discriminate.
      pose proof (Hl d rk _ _ _ _ _ _ (fun _ => Hd) Eh Hs) as Hsa. destruct (Block.truthy np); [intros Ha; inversion Ha; subst; exact Hsa|exact (Hafter sta rfa Hsa)]. }
    destruct rk; try exact (Hother H).
    + inversion H; subst. exact Hs.
    + inversion H; subst. apply dinv_set_cursor. exact Hs.
Qed.

Lemma items_loop_depth h bullet d : dspec_h h -> d < mx -> forall iters groups st rf items tight st2 rf2 items2 tight2 brk,
  items_loop C h iters bullet groups st rf items tight = Ok (st2, rf2, items2, tight2, brk) ->
  dinv d st -> all_fit (mx - S d) items = true -> dinv d st2 /\ all_fit (mx - S d) items2 = true.
Proof.
  intros Hl Hd. induction iters as [|it IH]; intros [[spaces marker] text0] st rf items tight st2 rf2 items2 tight2 brk H Hs Hi; cbn [items_loop] in H; [discriminate|].
  destruct (compile_continue_width C text0 _) as [text cw]. unfold bind in H.
  destruct (item_loop C h _ _ _ _ st rf [] false tight (s_cursor st)) as [[[[[[sta rfa] src] next] tighta] brka]| |] eqn:Ei; try discriminate.
  pose proof (item_loop_depth h _ _ _ d Hl Hd _ _ _ _ _ _ _ _ _ _ _ _ _ Ei Hs) as Hsa.
  destruct (parse_child C h sta _ rfa) as [[ch rf3]| |] eqn:Ec; try discriminate.
  pose proof (parse_child_depth h _ _ _ _ _ d Hl (proj1 Hsa) Ec) as Hch.
  assert (Hi2 : all_fit (mx - S d) (items ++ [BListItem ch]) = true).
  { rewrite fit_app, Hi, fit_one. cbn [fits]. exact Hch. }
  destruct next as [g|].
  - exact (IH _ _ _ _ _ _ _ _ _ _ H Hsa Hi2).
  - inversion H; subst. split; assumption.
Qed.

Lemma tighten_fits_n : forall n k t, (bsize t <= n) -> fits k t = true -> fits k (tighten t) = true.
Proof.
  induction n as [|n IH]; intros k t Hn; [destruct t; cbn in Hn; lia|].
  destruct t as [| | | | | |ch|items tight b d o s|ch|]; try (intros H; exact H).
  destruct tight; [|intros H; exact H]. cbn [tighten fits]. destruct k as [|k]; [intros H; exact H|]. intros H.
  rewrite forallb_forall in H. apply forallb_forall. intros it Hin. apply in_map_iff in Hin. destruct Hin as (it0 & <- & Hin0).
  specialize (H it0 Hin0). pose proof (in_size _ _ Hin0) as Sz0. cbn [bsize] in Hn.
  destruct it0 as [| | | | | |?|? ? ? ? ? ?|ch0|]; try exact H.
  cbn [fits] in *. rewrite forallb_forall in H. apply forallb_forall. intros tk Hin. apply in_map_iff in Hin. destruct Hin as (tk0 & <- & Hin1).
  specialize (H tk0 Hin1). pose proof (in_size _ _ Hin1) as Sz1. cbn [bsize] in Sz0.
  destruct tk0; try exact H; try reflexivity.
  apply IH; [lia|exact H].
Qed.

Lemma handle_list_depth h m st rf st2 rf2 np d : dspec_h h -> d < mx -> handle_list C h m st rf = Ok (st2, rf2, np) -> dinv d st -> dinv d st2.
Proof.
  intros Hl Hd H Hs. unfold handle_list in H. cbv zeta in H.
  destruct (if _ || _ then append_paragraph C st else None) as [[st' pos]|] eqn:Ea.
  - inversion H; subst. destruct (_ || _); [|discriminate]. exact (dinv_append_paragraph _ _ _ _ Ea Hs).
  - unfold bind in H.
    destruct (items_loop C h _ _ _ (set_cursor st _) rf [] true) as [[[[[sta rfa] items] tight] brk]| |] eqn:El; try discriminate.
    destruct (items_loop_depth h _ d Hl Hd _ _ _ _ _ _ _ _ _ _ _ El (proj2 (dinv_set_cursor d st _) Hs) eq_refl) as [Hsa Hit].
    assert (Hlist : forall tg b dd o s, fits (mx - d) (tighten (BList items tg b dd o s)) = true).
    { intros. apply (tighten_fits_n (bsize (BList items tg b dd o s))); [lia|]. rewrite (budget_step d Hd). cbn. exact Hit. }
    destruct brk as [[idx e]|]; inversion H; subst.
    + unfold dinv. cbn. split; [exact (proj1 Hsa)|]. apply fit_insert; [exact (proj2 Hsa)|apply Hlist].
    + apply dinv_append; [exact Hsa|apply Hlist].
Qed.

Lemma handle_html_depth m st rf st2 rf2 np d : handle_html C m st rf = (st2, rf2, np) -> dinv d st -> dinv d st2.
Proof.
  intros Hh Hs. revert Hh. unfold handle_html. cbv zeta.
  assert (He : forall em sp, dinv d (fst (html_to_end C st em sp))).
  { intros em sp. unfold html_to_end. destruct (find _ _ _); cbn; apply dinv_append; auto. }
  assert (Hn : dinv d (fst (html_to_newline C st))).
  { unfold html_to_newline. destruct (rsearch C _ _ _); cbn; apply dinv_append; auto. }
  repeat match goal with |- context [if ?b then _ else _] => destruct b end;
    try (intros Hh; inversion Hh; subst; first [apply He|exact Hn]).
  all: destruct (append_paragraph C st) as [[st' pos]|] eqn:Ea; [intros Hh; inversion Hh; subst; exact (dinv_append_paragraph _ _ _ _ Ea Hs)|].
  all: repeat match goal with |- context [if ?b then _ else _] => destruct b end; intros Hh; inversion Hh; subst; first [exact Hn|exact Hs].
Qed.

Lemma handle_with_depth h : dspec_h h -> dspec_h (handle_with C h).
Proof.
  intros Hl d rk m st rf st2 rf2 np Hp H Hs. unfold handle_with in H. destruct rk.
  - inversion H as [Hf]. unfold handle_fenced in Hf. cbv zeta in Hf.
    destruct (_ && memc 96%Z _); [inversion Hf; subst; exact Hs|].
    destruct (rsearch C _ _ _); inversion Hf; subst; apply dinv_append; auto.
  - destruct (append_paragraph C st) as [[st' pos]|] eqn:Ea; inversion H; subst; [exact (dinv_append_paragraph _ _ _ _ Ea Hs)|apply dinv_append; auto].
  - inversion H; subst. apply dinv_append; auto.
  - destruct (last_is_paragraph st) as [[before t]|] eqn:El.
    + inversion H; subst. apply dinv_replace_last; [exact (proj1 Hs)|eapply last_par_fit; eassumption|reflexivity].
    + destruct (bmatch_rules C _ (s_src st) (s_cursor st)) as [[rk2 m2]|] eqn:Eb; [|inversion H; subst; exact Hs].
      apply bmatch_rules_in in Eb. rewrite named_fst in Eb. rewrite (proj1 Hs) in Eb.
      refine (Hl d rk2 _ _ _ _ _ _ _ H Hs). intros Hrk.
      destruct (Nat.leb_spec mx d) as [Hle|Hgt]; [|exact Hgt].
      destruct Eb as [<-|[]]. destruct Hrk; discriminate.
  - inversion H; subst. apply dinv_append; auto.
  - apply (handle_quote_depth h _ _ _ _ _ _ d Hl (Hp (or_introl eq_refl)) H Hs).
  - apply (handle_list_depth h _ _ _ _ _ _ d Hl (Hp (or_intror eq_refl)) H Hs).
  - unfold handle_ref_link in H. destruct (append_paragraph C st) as [[st' pos]|] eqn:Ea; [inversion H; subst; exact (dinv_append_paragraph _ _ _ _ Ea Hs)|].
    assert (Hst : st2 = st).
    { destruct (b_unikey C _); [inversion H; reflexivity|]. destruct (parse_link_href_block C _ _) as [[? ?]|]; [|inversion H; reflexivity]. cbv zeta in H.
      repeat match type of H with
             | context [match ?x with Some _ => _ | None => _ end] => destruct x
             | context [let (_, _) := ?x in _] => destruct x
             | context [if ?b then _ else _] => destruct b
             | context [match ?x with 0 => _ | S _ => _ end] => destruct x
             end; try discriminate; inversion H; reflexivity. }
    subst. exact Hs.
  - inversion H as [Hh]. exact (handle_html_depth _ _ _ _ _ _ d Hh Hs).
  - inversion H; subst. apply dinv_append; auto.
  - inversion H as [Hh]. exact (handle_html_depth _ _ _ _ _ _ d Hh Hs).
  - discriminate.
Qed.

Lemma bhandle_depth : forall fuel, dspec_h (bhandle C fuel).
Proof. induction fuel as [|f IH]; cbn [bhandle]; [intros d rk m st rf st2 rf2 np _ H; discriminate|apply handle_with_depth; exact IH]. Qed.

(* every document: the token tree holds at most max_nested_level levels of containers *)
Theorem block_parse_depth s toks rf : block_parse C s = Ok (toks, rf) -> all_fit mx toks = true.
Proof.
  unfold block_parse, bind. destruct (parse_loop C _ _ _ _ []) as [[st2 rf2]| |] eqn:E; try discriminate.
  intros [= <- _].
  assert (Hr : rules_fit (b_rules C) 0) by (intros rk _ _; exact Hmax).
  pose proof (parse_loop_depth _ (bhandle_depth _) _ _ _ _ _ _ 0 Hr E (conj eq_refl eq_refl)) as [_ H].
  rewrite Nat.sub_0_r in H. exact H.
Qed.
End Depth.
