(* RxGroups.v — two analyses about one capture group g of a pattern, proved sound against the declarative semantics:
   [gb g lo hi r]   every capture of g recorded by a match of r spans between lo and hi characters;
   [mcap g r]       every match of r records a capture of g.
   (Used for attribute bounds that are read off captures: the ATX heading level is the length of group 1.) *)
From Coq Require Import ZArith List Bool Lia Arith.
From Verif Require Import PyStr Rx RxSpec RxAnalysis RxSubProofs.
Import ListNotations.
Local Open Scope nat_scope.

Section Groups.
Variable U : uni.
Variable g lo hi : nat.

Fixpoint gb (r : rx) : bool :=
  match r with
  | RSeq a b | RAlt a b => gb a && gb b
  | RRep _ _ _ r1 => gb r1
  | RGroup g' r1 => (negb (Nat.eqb g' g) || (Nat.leb lo (minlen r1) && match maxlen r1 with Some h => Nat.leb h hi | None => false end)) && gb r1
  | RLook _ _ r1 => nocap r1
  | _ => true
  end.

Definition span_ok (e : nat * (nat * nat)) : Prop := fst e = g -> lo <= snd (snd e) - fst (snd e) <= hi.

Lemma gb_sound r : wf r = true -> gb r = true -> forall z c z' c', M U r z c z' c' ->
  forall e, In e c' -> In e c \/ span_ok e.
Proof.
  induction r as [|ch|ch|ineg items|dotall|ra IHa rb IHb|ra IHa rb IHb| |greedy l0 h0 r1 IH1|g' r1 IH1|g'|ahead neg r1 IH1|a];
    cbn [wf gb M]; intros W G z c z' c' H e He;
    try (destruct H as (ch0 & _ & _ & ->); left; exact He).
  - destruct H as [_ ->]. left. exact He.
  - apply andb_true_iff in W. destruct W as [W1 W2]. apply andb_true_iff in G. destruct G as [G1 G2].
    destruct H as (z1 & c1 & Ha & Hb).
    destruct (IHb W2 G2 _ _ _ _ Hb e He) as [H1|H1]; [|right; exact H1]. exact (IHa W1 G1 _ _ _ _ Ha e H1).
  - apply andb_true_iff in W. destruct W as [W1 W2]. apply andb_true_iff in G. destruct G as [G1 G2]. destruct H as [H|H]; eauto.
  - contradiction.
  - destruct H as (n & _ & _ & Hi). clear l0 h0 greedy. revert e He.
    induction Hi as [z c|n z c z1 c1 z2 c2 HR Hlt Hit IH]; intros e He; [left; exact He|].
    destruct (IH e He) as [H1|H1]; [|right; exact H1]. exact (IH1 W G _ _ _ _ HR e H1).
  - apply andb_true_iff in G. destruct G as [Gh Gr]. destruct H as (c1 & Hm & ->). destruct He as [<-|He].
    + right. intros Eg. cbn in Eg. subst g'. rewrite Nat.eqb_refl in Gh. cbn in Gh. apply andb_true_iff in Gh. destruct Gh as [G1 G2].
      destruct (len_sound U r1 _ _ _ _ Hm) as (A1 & A2 & A3). apply Nat.leb_le in G1.
      destruct (maxlen r1) as [h|]; [|discriminate]. apply Nat.leb_le in G2. cbn. lia.
    + eauto.
  - destruct H as (a0 & b0 & _ & Hl). apply Mlits_adv in Hl. destruct Hl as [_ ->]. left. exact He.
  - apply andb_true_iff in W. destruct W as [Wn Ww]. destruct neg.
    + destruct H as (_ & -> & _). left. exact He.
    + destruct H as (_ & z0 & zl & _ & Hm & _). rewrite (nocap_caps U r1 Wn _ _ _ _ Hm) in He. left. exact He.
  - destruct H as (_ & -> & _). left. exact He.
Qed.

(* every match records group g *)
Fixpoint mcap (r : rx) : bool :=
  match r with
  | RGroup g' r1 => Nat.eqb g' g || mcap r1
  | RSeq a b => mcap a || mcap b
  | RAlt a b => mcap a && mcap b
  | RRep _ l _ r1 => negb (Nat.eqb l 0) && mcap r1
  | _ => false
  end.

Definition has (c : caps) : Prop := cap_get c g <> None.

Lemma has_mono r : wf r = true -> forall z c z' c', M U r z c z' c' -> has c -> has c'.
Proof.
  induction r as [|ch|ch|ineg items|dotall|ra IHa rb IHb|ra IHa rb IHb| |greedy l0 h0 r1 IH1|g' r1 IH1|g'|ahead neg r1 IH1|a];
    cbn [wf M]; intros W z c z' c' H Hc;
    try (destruct H as (ch0 & _ & _ & ->); exact Hc).
  - destruct H as [_ ->]. exact Hc.
  - apply andb_true_iff in W. destruct W as [W1 W2]. destruct H as (z1 & c1 & Ha & Hb). eauto.
  - apply andb_true_iff in W. destruct W as [W1 W2]. destruct H as [H|H]; eauto.
  - contradiction.
  - destruct H as (n & _ & _ & Hi). induction Hi as [z c|n z c z1 c1 z2 c2 HR Hlt Hit IH]; [exact Hc|]. apply IH. eauto.
  - destruct H as (c1 & Hm & ->). unfold has. cbn [cap_get]. destruct (Nat.eqb g g'); [discriminate|]. exact (IH1 W _ _ _ _ Hm Hc).
  - destruct H as (a0 & b0 & _ & Hl). apply Mlits_adv in Hl. destruct Hl as [_ ->]. exact Hc.
  - apply andb_true_iff in W. destruct W as [Wn Ww]. destruct neg.
    + destruct H as (_ & -> & _). exact Hc.
    + destruct H as (_ & z0 & zl & _ & Hm & _). rewrite (nocap_caps U r1 Wn _ _ _ _ Hm). exact Hc.
  - destruct H as (_ & -> & _). exact Hc.
Qed.

Lemma mcap_sound r : wf r = true -> mcap r = true -> forall z c z' c', M U r z c z' c' -> has c'.
Proof.
  induction r as [|ch|ch|ineg items|dotall|ra IHa rb IHb|ra IHa rb IHb| |greedy l0 h0 r1 IH1|g' r1 IH1|g'|ahead neg r1 IH1|a];
    cbn [wf mcap M]; intros W G z c z' c' H; try discriminate.
  - apply andb_true_iff in W. destruct W as [W1 W2]. destruct H as (z1 & c1 & Ha & Hb). apply orb_true_iff in G. destruct G as [G|G].
    + apply (has_mono rb W2 _ _ _ _ Hb). exact (IHa W1 G _ _ _ _ Ha).
    + exact (IHb W2 G _ _ _ _ Hb).
  - apply andb_true_iff in W. destruct W as [W1 W2]. apply andb_true_iff in G. destruct G as [G1 G2]. destruct H as [H|H]; eauto.
  - apply andb_true_iff in G. destruct G as [Gl Gr]. destruct H as (n & Hn & _ & Hi).
    destruct n as [|n]; [destruct l0; [discriminate|lia]|]. inversion Hi as [|n0 z0 c0 z1 c1 z2 c2 HR Hlt Hrest]; subst.
    pose proof (IH1 W Gr _ _ _ _ HR) as H1. clear - Hrest H1 W IH1.
    induction Hrest as [z c|n z c z1 c1 z2 c2 HR _ _ IH]; [exact H1|]. apply IH. exact (has_mono r1 W _ _ _ _ HR H1).
  - destruct H as (c1 & Hm & ->). unfold has. cbn [cap_get]. destruct (Nat.eqb_spec g g') as [E|E]; [discriminate|].
    apply orb_true_iff in G. destruct G as [G|G]; [apply Nat.eqb_eq in G; congruence|]. exact (IH1 W G _ _ _ _ Hm).
Qed.
End Groups.
