(* DocProofs.v — the inline pass keeps the shape of the block tree, and every inline text of a document is parsed with
   one and the same reference table: the table the block pass has completed (whole-document scope of definitions). *)
From Coq Require Import ZArith List Bool Lia Arith.
From Verif Require Import PyStr Rx Inline Block Doc BlockTyping BlockLevels BlockDepth.
Import ListNotations.
Local Open Scope nat_scope.

(* the typed AST: list children are items, items occur only in lists, heading levels are 1..6 *)
Fixpoint node_ok (n : node) : bool :=
  match n with
  | NHeading _ lv _ => Nat.leb 1 lv && Nat.leb lv 6
  | NQuote ch => forallb node_ok ch
  | NList items _ _ _ _ _ => forallb (fun it => match it with NListItem ch => forallb node_ok ch | _ => false end) items
  | NListItem _ => false
  | _ => true
  end.

(* at most k levels of containers (quote or list) *)
Fixpoint nfits (k : nat) (n : node) {struct n} : bool :=
  match n with
  | NQuote ch => match k with O => false | S k' => forallb (nfits k') ch end
  | NList items _ _ _ _ _ => match k with O => false | S k' => forallb (nfits k') items end
  | NListItem ch => forallb (nfits k) ch
  | _ => true
  end.

Section DocP.
Variable C : icfg.

Lemma all_res_ok {A} (l : list (res A)) r : all_res l = Ok r -> length r = length l /\ forall i x, nth_error l i = Some x -> exists a, x = Ok a /\ nth_error r i = Some a.
Proof.
  revert r. induction l as [|x l IH]; intros r H; cbn in H.
  - inversion H; subst. split; [reflexivity|]. intros [|i] y Hy; discriminate.
  - unfold bind in H. destruct x as [a| |]; try discriminate. destruct (all_res l) as [b| |] eqn:E; try discriminate. inversion H; subst.
    destruct (IH b eq_refl) as [L F]. split; [cbn; lia|]. intros [|i] y Hy; cbn in Hy.
    + inversion Hy; subst. exists a. split; reflexivity.
    + exact (F i y Hy).
Qed.

Lemma all_res_forallb {A B} (f : A -> res B) (p : A -> bool) (q : B -> bool) l r :
  (forall x y, In x l -> f x = Ok y -> p x = true -> q y = true) -> all_res (map f l) = Ok r -> forallb p l = true -> forallb q r = true.
Proof.
  revert r. induction l as [|x l IH]; intros r Hf H Hp; cbn in H.
  - inversion H; reflexivity.
  - unfold bind in H. destruct (f x) as [a| |] eqn:Ex; try discriminate. destruct (all_res (map f l)) as [b| |] eqn:E; try discriminate.
    inversion H; subst. cbn in Hp. apply andb_true_iff in Hp. destruct Hp as [P1 P2]. cbn.
    rewrite (Hf x a (or_introl eq_refl) Ex P1). apply (IH b); [intros x0 y Hin; apply Hf; right; exact Hin|reflexivity|exact P2].
Qed.

Definition btok_ok (t : btok) : bool := tok_ok t && lvl_ok t.

Lemma btok_ok_children_q ch : btok_ok (BQuote ch) = true -> forallb btok_ok ch = true.
Proof.
  unfold btok_ok. cbn. intros H. apply andb_true_iff in H. destruct H as [H1 H2]. apply forallb_forall. intros x Hx.
  rewrite forallb_forall in H1, H2. rewrite (H1 x Hx), (H2 x Hx). reflexivity.
Qed.

Definition item_okb (it : btok) : bool := match it with BListItem ch => forallb btok_ok ch | _ => false end.
Definition nitem_okb (it : node) : bool := match it with NListItem ch => forallb node_ok ch | _ => false end.

Lemma btok_ok_items items ti b d o s : btok_ok (BList items ti b d o s) = true -> forallb item_okb items = true.
Proof.
  unfold btok_ok. cbn. intros H. apply andb_true_iff in H. destruct H as [H1 H2]. apply forallb_forall. intros x Hx.
  rewrite forallb_forall in H1, H2. specialize (H1 x Hx). specialize (H2 x Hx). destruct x; try discriminate. cbn in *.
  apply forallb_forall. intros y Hy. rewrite forallb_forall in H1, H2. unfold btok_ok. rewrite (H1 y Hy), (H2 y Hy). reflexivity.
Qed.

Lemma inline_pass_ok_n : forall k t n, bsize t <= k -> inline_pass C t = Ok n ->
  (btok_ok t = true -> node_ok n = true) /\ (item_okb t = true -> nitem_okb n = true).
Proof.
  induction k as [|k IH]; intros t n Hk H; [destruct t; cbn in Hk; lia|].
  destruct t as [| |raw f mk info|text lv se|text|text|ch|items ti b d o s|ch|raw]; cbn [inline_pass] in H; unfold bind in H.
  - inversion H; split; [reflexivity|discriminate].
  - inversion H; split; [reflexivity|discriminate].
  - inversion H; split; [reflexivity|discriminate].
  - destruct (inline_parse C _); inversion H; subst. split; [|discriminate]. unfold btok_ok. cbn. intros Ht. exact Ht.
  - destruct (inline_parse C _); inversion H; split; [reflexivity|discriminate].
  - destruct (inline_parse C _); inversion H; split; [reflexivity|discriminate].
  - destruct (all_res (map (inline_pass C) ch)) as [c| |] eqn:E; inversion H; subst. split; [|discriminate]. intros Ht. cbn [node_ok].
    apply (all_res_forallb (inline_pass C) btok_ok node_ok ch c); [|exact E|apply btok_ok_children_q; exact Ht].
    intros x y Hin Hx Hp. apply (proj1 (IH x y ltac:(pose proof (in_size _ _ Hin); cbn [bsize] in Hk; lia) Hx)). exact Hp.
  - destruct (all_res (map (inline_pass C) items)) as [c| |] eqn:E; inversion H; subst. split; [|discriminate]. intros Ht. cbn [node_ok].
    apply (all_res_forallb (inline_pass C) item_okb nitem_okb items c); [|exact E|exact (btok_ok_items _ _ _ _ _ _ Ht)].
    intros x y Hin Hx Hp. apply (proj2 (IH x y ltac:(pose proof (in_size _ _ Hin); cbn [bsize] in Hk; lia) Hx)). exact Hp.
  - destruct (all_res (map (inline_pass C) ch)) as [c| |] eqn:E; inversion H; subst. split; [unfold btok_ok; cbn; discriminate|]. intros Ht. cbn [nitem_okb].
    apply (all_res_forallb (inline_pass C) btok_ok node_ok ch c); [|exact E|exact Ht].
    intros x y Hin Hx Hp. apply (proj1 (IH x y ltac:(pose proof (in_size _ _ Hin); cbn [bsize] in Hk; lia) Hx)). exact Hp.
  - inversion H; split; [reflexivity|discriminate].
Qed.

Lemma inline_pass_ok t n : inline_pass C t = Ok n -> btok_ok t = true -> node_ok n = true.
Proof. intros H. exact (proj1 (inline_pass_ok_n (bsize t) t n (le_n _) H)). Qed.

Theorem inline_pass_all_ok toks ns : all_res (map (inline_pass C) toks) = Ok ns -> forallb btok_ok toks = true -> forallb node_ok ns = true.
Proof.
  intros H Hp. apply (all_res_forallb (inline_pass C) btok_ok node_ok toks ns); [|exact H|exact Hp].
  intros x y _ Hx. apply inline_pass_ok. exact Hx.
Qed.

Lemma inline_pass_fits_n : forall sz t n j, bsize t <= sz -> inline_pass C t = Ok n -> fits j t = true -> nfits j n = true.
Proof.
  induction sz as [|sz IH]; intros t n j Hk H; [destruct t; cbn in Hk; lia|].
  assert (Hrec : forall l c j', (forall x, In x l -> bsize x <= sz) -> all_res (map (inline_pass C) l) = Ok c ->
                                forallb (fits j') l = true -> forallb (nfits j') c = true).
  { intros l c j' Hsz E Hp. apply (all_res_forallb (inline_pass C) (fits j') (nfits j') l c); [|exact E|exact Hp].
    intros x y Hin Hx. exact (IH x y j' (Hsz x Hin) Hx). }
  destruct t as [| |raw f mk info|text lv se|text|text|ch|items ti b d o s|ch|raw]; cbn [inline_pass] in H; unfold bind in H.
  - inversion H; reflexivity.
  - inversion H; reflexivity.
  - inversion H; reflexivity.
  - destruct (inline_parse C _); inversion H; reflexivity.
  - destruct (inline_parse C _); inversion H; reflexivity.
  - destruct (inline_parse C _); inversion H; reflexivity.
  - destruct (all_res (map (inline_pass C) ch)) as [c| |] eqn:E; inversion H; subst. cbn [fits nfits]. destruct j as [|j]; [intros Ht; exact Ht|].
    apply (Hrec ch c j); [|exact E]. intros x Hin. pose proof (in_size _ _ Hin). cbn [bsize] in Hk. lia.
  - destruct (all_res (map (inline_pass C) items)) as [c| |] eqn:E; inversion H; subst. cbn [fits nfits]. destruct j as [|j]; [intros Ht; exact Ht|].
    apply (Hrec items c j); [|exact E]. intros x Hin. pose proof (in_size _ _ Hin). cbn [bsize] in Hk. lia.
  - destruct (all_res (map (inline_pass C) ch)) as [c| |] eqn:E; inversion H; subst. cbn [fits nfits].
    apply (Hrec ch c j); [|exact E]. intros x Hin. pose proof (in_size _ _ Hin). cbn [bsize] in Hk. lia.
  - inversion H; reflexivity.
Qed.

Theorem inline_pass_all_fit j toks ns : all_res (map (inline_pass C) toks) = Ok ns -> all_fit j toks = true -> forallb (nfits j) ns = true.
Proof.
  intros H Hp. apply (all_res_forallb (inline_pass C) (fits j) (nfits j) toks ns); [|exact H|exact Hp].
  intros x y _ Hx. exact (inline_pass_fits_n (bsize x) x y j (le_n _) Hx).
Qed.
End DocP.
