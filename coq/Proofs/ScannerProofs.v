(* Generic theorems about rule scanning (used by C10, C09, C01). *)
From Coq Require Import ZArith List Bool Lia Arith.
From Verif Require Import PyStr Rx RxSpec RxAnalysis Scanner UtilProofs.
Import ListNotations.
Local Open Scope nat_scope.

Section Scan.
Variable U : uni.

Lemma In_firstn_in {A} (x : A) n l : In x (firstn n l) -> In x l.
Proof. intros H. rewrite <- (firstn_skipn n l). apply in_or_app. left. exact H. Qed.
Lemma In_skipn_in {A} (x : A) n l : In x (skipn n l) -> In x l.
Proof. intros H. rewrite <- (firstn_skipn n l). apply in_or_app. right. exact H. Qed.

(* a rule that cannot match anywhere in the rest of the subject may be removed *)
Definition never_from (r : rx) (z : zip) : Prop :=
  forall w z', adv z z' w -> match_at U r z' = None.

Lemma scan_at_skip l1 n p l2 z : match_at U p z = None ->
  scan_at U (l1 ++ (n, p) :: l2) z = scan_at U (l1 ++ l2) z.
Proof.
  intros H. induction l1 as [|[n1 r1] l1 IH]; cbn [app scan_at]; [rewrite H; reflexivity|].
  destruct (match_at U r1 z); [reflexivity|exact IH].
Qed.

Lemma never_step r z ch z' : never_from r z -> zstep z = Some (ch, z') -> never_from r z'.
Proof.
  intros H Hs w z2 Ha. apply (H ([ch] ++ w) z2). eapply adv_trans; [apply zstep_adv; exact Hs|exact Ha].
Qed.

Theorem scan_from_skip l1 n p l2 : forall fuel z, never_from p z ->
  scan_from U (l1 ++ (n, p) :: l2) fuel z = scan_from U (l1 ++ l2) fuel z.
Proof.
  induction fuel as [|f IH]; intros z H; cbn [scan_from];
    rewrite (scan_at_skip l1 n p l2 z (H [] z (adv_refl z))); [reflexivity|].
  destruct (scan_at U (l1 ++ l2) z); [reflexivity|].
  destruct (zstep z) as [[ch z']|] eqn:E; [|reflexivity]. apply IH. eapply never_step; eassumption.
Qed.

(* from the must-consume analysis: on a subject without trigger characters the rule never matches *)
Theorem mc_never T p z : wf p = true -> mc T p = true -> tfree T (subject z) -> never_from p z.
Proof.
  intros W Hm Hf w z' Ha. unfold match_at. apply (mc_engine U T p); try assumption.
  rewrite (adv_subject _ _ _ Ha). exact Hf.
Qed.

Corollary scan_search_plugin_local T l1 n p l2 s pos endpos :
  wf p = true -> mc T p = true -> tfree T s ->
  scan_search U (l1 ++ (n, p) :: l2) s pos endpos = scan_search U (l1 ++ l2) s pos endpos.
Proof.
  intros W Hm Hf. unfold scan_search. destruct (Nat.ltb _ _); [reflexivity|].
  apply scan_from_skip. apply (mc_never T); try assumption.
  intros ch Hin. apply Hf. unfold subject, zip_at in Hin. cbn in Hin.
  rewrite rev_involutive in Hin. apply in_app_or in Hin. destruct Hin as [Hin|Hin].
  - eapply In_firstn_in; eassumption.
  - apply In_firstn_in in Hin. eapply In_skipn_in; eassumption.
Qed.
End Scan.
