(* DecimalProofs.v — str(int) is injective on the non-negative integers: the decimal rendering of PyStr.str_of_Z
   (used for heading ids "toc_N", footnote numbers "fn-N" / "fnref-N", list start numbers) can be read back.
   The fuel of digits_aux (binary length of the number) is proved sufficient here: the read-back value is the
   number itself, not a truncation. *)
From Coq Require Import ZArith List Bool Lia.
From Verif Require Import PyStr.
Import ListNotations.
Local Open Scope Z_scope.

Definition dec_step (a c : Z) : Z := a * 10 + (c - 48).
Definition dec_value (s : str) : Z := fold_left dec_step s 0.

Lemma digits_aux_value : forall fuel n acc, 0 <= n < 2 ^ Z.of_nat fuel ->
  fold_left dec_step (digits_aux fuel n acc) 0 = fold_left dec_step acc n.
Proof.
  induction fuel as [|k IH]; intros n acc Hn.
  - cbn [digits_aux]. replace n with 0 by (cbn in Hn; lia). reflexivity.
  - cbn [digits_aux].
    rewrite Nat2Z.inj_succ, Z.pow_succ_r in Hn by lia.
    assert (Hp : 0 < 2 ^ Z.of_nat k) by (apply Z.pow_pos_nonneg; lia).
    pose proof (Z.div_mod n 10 ltac:(lia)) as Hdm.
    pose proof (Z.mod_pos_bound n 10 ltac:(lia)) as Hmb.
    assert (Hq : 0 <= n / 10) by (apply Z.div_pos; lia).
    destruct (n / 10 =? 0) eqn:Hz.
    + apply Z.eqb_eq in Hz. cbn [fold_left]. unfold dec_step at 2. f_equal. lia.
    + apply Z.eqb_neq in Hz. rewrite IH by lia.
      cbn [fold_left]. unfold dec_step at 2. f_equal. lia.
Qed.

Lemma digit_fuel_enough z : 0 <= z -> 0 <= z < 2 ^ Z.of_nat (digit_fuel z).
Proof.
  intros Hz. unfold digit_fuel. rewrite Nat2Z.inj_succ, Z2Nat.id by apply Z.log2_nonneg.
  destruct (Z.eq_dec z 0) as [->|Hnz]; [cbn; lia|].
  pose proof (Z.log2_spec z ltac:(lia)). lia.
Qed.

Theorem str_of_Z_value z : 0 <= z -> dec_value (str_of_Z z) = z.
Proof.
  intros Hz. unfold dec_value, str_of_Z.
  destruct (z <? 0) eqn:Hneg; [apply Z.ltb_lt in Hneg; lia|].
  rewrite digits_aux_value by (apply digit_fuel_enough; exact Hz). reflexivity.
Qed.

Theorem str_of_nat_inj n m : str_of_nat n = str_of_nat m -> n = m.
Proof.
  intros H. apply (f_equal dec_value) in H. unfold str_of_nat in H.
  rewrite !str_of_Z_value in H by lia. lia.
Qed.

(* every character of the rendering is a decimal digit: the number cannot run into what follows it *)
Lemma digits_aux_digits : forall fuel n acc, 0 <= n -> forallb is_ascii_digit acc = true ->
  forallb is_ascii_digit (digits_aux fuel n acc) = true.
Proof.
  induction fuel as [|k IH]; intros n acc Hn Hacc; cbn [digits_aux]; [exact Hacc|].
  pose proof (Z.mod_pos_bound n 10 ltac:(lia)) as Hmb.
  assert (Hd : forallb is_ascii_digit ((48 + n mod 10) :: acc) = true).
  { cbn [forallb]. rewrite Hacc, andb_true_r. unfold is_ascii_digit. lia. }
  destruct (n / 10 =? 0); [exact Hd|]. apply IH; [apply Z.div_pos; lia | exact Hd].
Qed.

Theorem str_of_nat_digits n : forallb is_ascii_digit (str_of_nat n) = true.
Proof.
  unfold str_of_nat, str_of_Z. destruct (Z.of_nat n <? 0) eqn:Hneg; [apply Z.ltb_lt in Hneg; lia|].
  apply digits_aux_digits; [lia | reflexivity].
Qed.

Lemma digits_aux_nonempty : forall fuel n acc, acc <> [] -> digits_aux fuel n acc <> [].
Proof.
  induction fuel as [|k IH]; intros n acc Hacc; cbn [digits_aux]; [exact Hacc|].
  destruct (n / 10 =? 0); [discriminate | apply IH; discriminate].
Qed.

Theorem str_of_nat_nonempty n : str_of_nat n <> [].
Proof.
  unfold str_of_nat, str_of_Z. destruct (Z.of_nat n <? 0); [discriminate|].
  unfold digit_fuel. cbn [digits_aux].
  destruct (Z.of_nat n / 10 =? 0); [discriminate | apply digits_aux_nonempty; discriminate].
Qed.
