(* TmplCheck.v — a verified checker for templates: if it accepts the segment list of every shape,
   then for all parameter values every character that comes from a parameter is read by the HTML
   context machine in character data or inside a double-quoted attribute value (tag position only
   for values that are safe by construction) and is none of less-than, greater-than, double quote — so the tags and attributes
   of the output are exactly those spelled by the template's literals. *)
From Coq Require Import ZArith List Bool Lia.
From Verif Require Import PyStr Util UtilProofs Tmpl HtmlRender.
Import ListNotations.
Open Scope Z_scope.

(* ---------- the reader: a three-state HTML context machine ---------- *)
Inductive hctx := Data | Tag | AttrDQ.

Definition hctx_eqb (a b : hctx) : bool :=
  match a, b with Data, Data | Tag, Tag | AttrDQ, AttrDQ => true | _, _ => false end.

Definition hstep (st : hctx) (c : Z) : hctx :=
  match st with
  | Data => if c =? 60 then Tag else Data
  | Tag => if c =? 34 then AttrDQ else if c =? 62 then Data else Tag
  | AttrDQ => if c =? 34 then Tag else AttrDQ
  end.

Definition hrun (st : hctx) (s : str) : hctx := fold_left hstep s st.

Definition special_free (s : str) : Prop := Forall (fun c => c <> 60 /\ c <> 62 /\ c <> 34) s.

Lemma hrun_special_free st s : special_free s -> hrun st s = st.
Proof.
  unfold hrun. induction 1 as [|c s (H1 & H2 & H3) _ IH]; cbn; [reflexivity|].
  assert (E : hstep st c = st).
  { destruct st; cbn; repeat (match goal with |- context [?a =? ?b] => destruct (Z.eqb_spec a b); try contradiction end); reflexivity. }
  rewrite E. exact IH.
Qed.

Lemma hrun_app st a b : hrun st (a ++ b) = hrun (hrun st a) b.
Proof. unfold hrun. apply fold_left_app. Qed.

(* ---------- parameter kinds (the signature of a render function) ---------- *)

Definition is_escaping (f : filter) : bool :=
  match f with FEscape | FSafeEntity | FSafeUrl => true | _ => false end.
(* filters whose output characters all occur in their input *)
Definition is_shrinking (f : filter) : bool :=
  match f with FStrip | FRstrip | FFirstWord | FStriptags | FDropLast _ | FStr => true | _ => false end.

Fixpoint chain_escapes (fs : list filter) (seen : bool) : bool :=
  match fs with
  | [] => seen
  | f :: fs' => if is_escaping f then chain_escapes fs' true
                else if is_shrinking f then chain_escapes fs' seen else false
  end.

Definition uses_safe_url (fs : list filter) : bool := existsb (fun f => match f with FSafeUrl => true | _ => false end) fs.

Definition ins_ok (k : pkind) (fs : list filter) (st : hctx) : bool :=
  match k with
  | KHtml => hctx_eqb st Data                                   (* children only as element content *)
  | KRaw => chain_escapes fs false && negb (hctx_eqb st Tag)
  | KUrl => chain_escapes fs false && uses_safe_url fs && negb (hctx_eqb st Tag)
  | KSafe => forallb (fun f => is_escaping f || is_shrinking f) fs
  end.

(* symbolic run over the segments of one shape: Some final state, or None = rejected *)
(* [digits]: parameters known to consist of ASCII digits under the current shape (x.isdigit() tested true) *)
Definition kind_at (sig : list pkind) (digits : list nat) (p : nat) : pkind :=
  if existsb (Nat.eqb p) digits then KSafe else nth p sig KRaw.

Fixpoint check_segs (sig : list pkind) (digits : list nat) (st : hctx) (segs : list seg) : option hctx :=
  match segs with
  | [] => Some st
  | SLit s :: r => check_segs sig digits (hrun st s) r
  | SIns p fs :: r => if ins_ok (kind_at sig digits p) fs st then check_segs sig digits st r else None
  end.

Definition segs_ok (sig : list pkind) (digits : list nat) (segs : list seg) : bool :=
  match check_segs sig digits Data segs with Some Data => true | _ => false end.

Fixpoint digit_params (atoms : list atom) (sh : shape) : list nat :=
  match atoms, sh with
  | AIsDigit p :: atoms', true :: sh' => p :: digit_params atoms' sh'
  | _ :: atoms', _ :: sh' => digit_params atoms' sh'
  | _, _ => []
  end.

(* parameters whose "is not None" test is false / whose truthiness test is true under a shape *)
Fixpoint none_params (atoms : list atom) (sh : shape) : list nat :=
  match atoms, sh with
  | ANotNone p :: atoms', false :: sh' => p :: none_params atoms' sh'
  | _ :: atoms', _ :: sh' => none_params atoms' sh'
  | _, _ => []
  end.
Fixpoint truthy_params (atoms : list atom) (sh : shape) : list nat :=
  match atoms, sh with
  | ATruthy p _ :: atoms', true :: sh' => p :: truthy_params atoms' sh'
  | _ :: atoms', _ :: sh' => truthy_params atoms' sh'
  | _, _ => []
  end.
(* a shape in which a parameter is None and truthy at once cannot arise *)
Definition feasible (atoms : list atom) (sh : shape) : bool :=
  forallb (fun p => negb (existsb (Nat.eqb p) (truthy_params atoms sh))) (none_params atoms sh).

Fixpoint texp_short (t : texp) : bool :=
  match t with
  | TLit _ => true
  | TIns _ fs => Nat.leb (length fs) 8
  | TCat a b | TIf _ a b => texp_short a && texp_short b
  end.

(* all shapes over n atoms; [fixed] pins some atoms (e.g. the escape flag to true) *)
Fixpoint shapes (n : nat) : list shape :=
  match n with O => [[]] | S k => flat_map (fun sh => [true :: sh; false :: sh]) (shapes k) end.

Definition shape_allowed (fixed : list (nat * bool)) (sh : shape) : bool :=
  forallb (fun p : nat * bool => Bool.eqb (nth (fst p) sh false) (snd p)) fixed.

Definition template_ok (sig : list pkind) (fixed : list (nat * bool)) (t : template) : bool :=
  texp_short (t_body t) &&
  forallb (fun sh => negb (shape_allowed fixed sh) || negb (feasible (t_atoms t) sh) ||
                     segs_ok sig (digit_params (t_atoms t) sh) (eval (t_body t) sh))
          (shapes (length (t_atoms t))).

Lemma shapes_complete : forall (l : list bool), In l (shapes (length l)).
Proof.
  induction l as [|b l IH]; cbn; [left; reflexivity|].
  apply in_flat_map. exists l. split; [exact IH|]. destruct b; cbn; auto.
Qed.

(* ---------- concrete semantics: what the reader meets ---------- *)
Section Sound.
Variable E : renv.
Variable ops : list esc_op.
Variable harmful good : list str.
Hypothesis Esafe : r_safe_url E = safe_url harmful good ops.
(* escape's post-condition (proved for the regenerated chain in Props/C18) *)
Hypothesis escape_ok : forall s, special_free (run_escape ops true s).

Lemma harmful_link_free : special_free harmful_link.
Proof. unfold harmful_link, special_free. repeat constructor; discriminate. Qed.

Lemma safe_url_free u : special_free (safe_url harmful good ops u).
Proof. unfold safe_url. destruct (_ && _); [apply harmful_link_free|apply escape_ok]. Qed.

Definition incl_chars (a b : str) : Prop := forall c, In c a -> In c b.

Lemma free_incl a b : incl_chars a b -> special_free b -> special_free a.
Proof. unfold special_free. intros H Hb. rewrite Forall_forall in *. intros c Hc. apply Hb, H, Hc. Qed.

Lemma lstrip_incl p s : incl_chars (lstrip_p p s) s.
Proof.
  induction s as [|c s IH]; cbn; intros x Hx; [exact Hx|].
  destruct (p c); [right; apply IH; exact Hx|exact Hx].
Qed.

Lemma rstrip_incl p s : incl_chars (rstrip_p p s) s.
Proof. unfold rstrip_p. intros x Hx. apply in_rev in Hx. apply lstrip_incl in Hx. apply in_rev. exact Hx. Qed.

Lemma strip_incl p s : incl_chars (strip_p p s) s.
Proof. unfold strip_p. intros x Hx. apply rstrip_incl in Hx. apply lstrip_incl in Hx. exact Hx. Qed.

Lemma split_aux_incl ws : forall s cur w x, In w (split_ws_aux ws cur s) -> In x w -> In x (cur ++ s).
Proof.
  induction s as [|c s IH]; intros cur w x Hw Hx; cbn in Hw.
  - destruct cur; [contradiction|]. destruct Hw as [<-|[]]. rewrite app_nil_r. exact Hx.
  - destruct (ws c).
    + destruct cur as [|a cur'].
      * specialize (IH [] w x Hw Hx). cbn in IH. right. exact IH.
      * destruct Hw as [<-|Hw]; [apply in_or_app; left; exact Hx|].
        specialize (IH [] w x Hw Hx). apply in_or_app. right. right. exact IH.
    + specialize (IH (cur ++ [c]) w x Hw Hx). rewrite <- app_assoc in IH. exact IH.
Qed.

Lemma first_word_incl T s : incl_chars (first_word T s) s.
Proof.
  unfold first_word, split_ws. intros x Hx. destruct (split_ws_aux (is_ws T) [] s) as [|w l] eqn:Es; [contradiction|].
  apply (split_aux_incl (is_ws T) s [] w x); [rewrite Es; left; reflexivity|exact Hx].
Qed.

Lemma skipn_incl {A} n (l : list A) : forall x, In x (skipn n l) -> In x l.
Proof. intros x H. rewrite <- (firstn_skipn n l). apply in_or_app. right. exact H. Qed.

Lemma striptags_fuel_incl : forall fuel s, incl_chars (striptags_fuel fuel s) s.
Proof.
  induction fuel as [|f IH]; intros s x Hx; [exact Hx|].
  destruct s as [|c s']; [exact Hx|]. cbn [striptags_fuel] in Hx.
  assert (Hplain : In x (match find_from [62] s' 0 with
                         | Some j => striptags_fuel f (skipn (S j) s')
                         | None => c :: striptags_fuel f s' end) -> In x (c :: s')).
  { destruct (find_from [62] s' 0) as [j|]; intros H.
    - right. apply (skipn_incl (S j)). apply IH. exact H.
    - destruct H as [<-|H]; [left; reflexivity|right; apply IH; exact H]. }
  destruct (c =? 60).
  - destruct (prefixb [33; 45; 45] s'); [|apply Hplain; exact Hx].
    destruct (find_from [45; 45; 62] (skipn 3 s') 0) as [i|]; [|apply Hplain; exact Hx].
    destruct (existsb _ _); [apply Hplain; exact Hx|].
    right. apply (skipn_incl (3 + i + 3)). apply IH. exact Hx.
  - destruct Hx as [<-|Hx]; [left; reflexivity|right; apply IH; exact Hx].
Qed.

Lemma striptags_incl s : incl_chars (striptags_model s) s.
Proof. apply striptags_fuel_incl. Qed.

Lemma firstn_incl {A} n (l : list A) : forall x, In x (firstn n l) -> In x l.
Proof. intros x H. rewrite <- (firstn_skipn n l). apply in_or_app. left. exact H. Qed.

(* one filter step *)
Definition filter_step (fu : nat) (vals : list pv) (f : filter) (s : str) : str :=
  match f with
  | FEscape => run_escape ops true s
  | FSafeEntity => safe_entity (r_tables E) ops s
  | FSafeUrl => r_safe_url E s
  | FStriptags => striptags_model s
  | FStrip => strip_p (is_ws (r_tables E)) s
  | FRstrip => rstrip_p (is_ws (r_tables E)) s
  | FFirstWord => first_word (r_tables E) s
  | FStr => s
  | FDropLast n => firstn (length s - n) s
  | FReplace1 old new =>
    replace1 old (flat_map (fun sg => match sg with
                                      | SLit l => l
                                      | SIns p fs2 => apply_filters_fuel E ops fu fs2 vals (pv_str (nth p vals PNone))
                                      end) new) s
  end.

Lemma apply_filters_unfold fu f fs vals s :
  apply_filters_fuel E ops (S fu) (f :: fs) vals s = apply_filters_fuel E ops fu fs vals (filter_step fu vals f s).
Proof. destruct f; reflexivity. Qed.

Lemma escaping_free fu vals f s : is_escaping f = true -> special_free (filter_step fu vals f s).
Proof.
  destruct f; cbn; try discriminate; intros _.
  - apply escape_ok.
  - unfold safe_entity. apply escape_ok.
  - rewrite Esafe. apply safe_url_free.
Qed.

Lemma shrinking_free fu vals f s : is_shrinking f = true -> special_free s -> special_free (filter_step fu vals f s).
Proof.
  destruct f; cbn; try discriminate; intros _ H.
  - eapply free_incl; [apply striptags_incl|exact H].
  - eapply free_incl; [apply strip_incl|exact H].
  - eapply free_incl; [apply rstrip_incl|exact H].
  - eapply free_incl; [apply first_word_incl|exact H].
  - exact H.
  - eapply free_incl; [intros x; apply firstn_incl|exact H].
Qed.

Lemma chain_free : forall fu fs vals s seen, (length fs <= fu)%nat ->
  chain_escapes fs seen = true -> (seen = true -> special_free s) ->
  special_free (apply_filters_fuel E ops fu fs vals s).
Proof.
  induction fu as [|fu IH]; intros fs vals s seen Hlen Hc Hs.
  - destruct fs; [|cbn in Hlen; lia]. cbn in *. apply Hs. exact Hc.
  - destruct fs as [|f fs]; [cbn in *; apply Hs; exact Hc|].
    rewrite apply_filters_unfold. cbn [chain_escapes] in Hc. cbn in Hlen.
    destruct (is_escaping f) eqn:Ee.
    + apply (IH fs vals _ true); [lia|exact Hc|]. intros _. apply escaping_free. exact Ee.
    + destruct (is_shrinking f) eqn:Esh; [|discriminate].
      apply (IH fs vals _ seen); [lia|exact Hc|]. intros Hseen. apply shrinking_free; [exact Esh|apply Hs; exact Hseen].
Qed.

(* values respect the signature *)
Definition val_ok (k : pkind) (v : pv) : Prop :=
  match k with
  | KSafe => special_free (pv_str v)
  | _ => True
  end.

(* what the reader sees: literal pieces and inserted pieces *)
Definition piece_ok (sig : list pkind) (vals : list pv) (st : hctx) (sg : seg) : Prop :=
  match sg with
  | SLit _ => True
  | SIns p fs =>
    match nth p sig KRaw with
    | KHtml => st = Data
    | _ => special_free (fill_seg E ops vals sg) /\ (st = Tag -> special_free (pv_str (nth p vals PNone)))
    end
  end.

(* run the reader over the concrete output, piece by piece; children (KHtml) are fragments that
   return the reader to Data (induction hypothesis over the token tree) *)
Fixpoint run_pieces (sig : list pkind) (vals : list pv) (st : hctx) (segs : list seg) : Prop * hctx :=
  match segs with
  | [] => (True, st)
  | sg :: r =>
    let st' := hrun st (fill_seg E ops vals sg) in
    let (P, fin) := run_pieces sig vals st' r in
    (piece_ok sig vals st sg /\ P, fin)
  end.

Definition children_ok (sig : list pkind) (vals : list pv) (segs : list seg) : Prop :=
  forall p fs, In (SIns p fs) segs -> nth p sig KRaw = KHtml ->
    hrun Data (fill_seg E ops vals (SIns p fs)) = Data.

Definition vals_ok (sig : list pkind) (vals : list pv) : Prop :=
  forall p, val_ok (nth p sig KRaw) (nth p vals PNone).

Lemma safe_chain_free fu : forall fs vals s, (length fs <= fu)%nat ->
  forallb (fun f => is_escaping f || is_shrinking f) fs = true -> special_free s ->
  special_free (apply_filters_fuel E ops fu fs vals s).
Proof.
  induction fu as [|fu IH]; intros fs vals s Hlen Hf Hs.
  - destruct fs; [exact Hs|cbn in Hlen; lia].
  - destruct fs as [|f fs]; [exact Hs|]. rewrite apply_filters_unfold. cbn in Hf, Hlen.
    apply andb_true_iff in Hf. destruct Hf as [Hf1 Hf2]. apply IH; [lia|exact Hf2|].
    apply orb_true_iff in Hf1. destruct Hf1 as [H|H]; [apply escaping_free; exact H|apply shrinking_free; assumption].
Qed.

Definition digits_ok (digits : list nat) (vals : list pv) : Prop :=
  forall p, In p digits -> special_free (pv_str (nth p vals PNone)) /\ (forall sig : list pkind, nth p sig KRaw <> KHtml -> True).

Theorem check_sound sig digits vals : vals_ok sig vals ->
  (forall p, In p digits -> special_free (pv_str (nth p vals PNone))) ->
  (forall p, In p digits -> nth p sig KRaw <> KHtml) ->
  forall segs st fin,
  Forall (fun sg => match sg with SIns _ fs => (length fs <= 8)%nat | _ => True end) segs ->
  check_segs sig digits st segs = Some fin -> children_ok sig vals segs ->
  fst (run_pieces sig vals st segs) /\ snd (run_pieces sig vals st segs) = fin.
Proof.
  intros Hv Hdig Hdk. induction segs as [|sg r IH]; intros st fin Hlen Hc Hch; cbn [run_pieces check_segs] in *.
  - inversion Hc. split; [exact I|reflexivity].
  - inversion Hlen as [|? ? Hl1 Hl2]; subst.
    assert (Hch' : children_ok sig vals r).
    { intros p fs Hin Hk. apply Hch; [right; exact Hin|exact Hk]. }
    destruct sg as [s|p fs].
    + specialize (IH (hrun st s) fin Hl2 Hc Hch'). cbn [fill_seg].
      destruct (run_pieces sig vals (hrun st s) r) as [P f2]. cbn [fst snd] in *. tauto.
    + destruct (ins_ok (kind_at sig digits p) fs st) eqn:Eok; [|discriminate].
      assert (Hst : hrun st (fill_seg E ops vals (SIns p fs)) = st /\ piece_ok sig vals st (SIns p fs)).
      { unfold piece_ok, kind_at in *. destruct (existsb (Nat.eqb p) digits) eqn:Ed.
        - (* known to be digits: safe whatever the declared kind *)
          apply existsb_exists in Ed. destruct Ed as (q & Hq & Hpq). apply Nat.eqb_eq in Hpq. subst q.
          pose proof (Hdig p Hq) as Hfree. pose proof (Hdk p Hq) as Hnk.
          assert (Hf : special_free (fill_seg E ops vals (SIns p fs))).
          { cbn [fill_seg]. unfold apply_filters. cbn [ins_ok] in Eok. apply safe_chain_free; [exact Hl1|exact Eok|exact Hfree]. }
          split; [apply hrun_special_free; exact Hf|].
          destruct (nth p sig KRaw); try contradiction; (split; [exact Hf|intros _; exact Hfree]).
        - unfold ins_ok in Eok. destruct (nth p sig KRaw) eqn:Ek.
          + assert (st = Data) by (destruct st; cbn in Eok; try discriminate; reflexivity). subst st.
            split; [|reflexivity]. apply Hch; [left; reflexivity|exact Ek].
          + apply andb_true_iff in Eok. destruct Eok as [Hce Hnt].
            assert (Hf : special_free (fill_seg E ops vals (SIns p fs))).
            { cbn [fill_seg]. unfold apply_filters. apply (chain_free 8 fs vals _ false Hl1 Hce). discriminate. }
            split; [apply hrun_special_free; exact Hf|]. split; [exact Hf|]. intros ->. cbn in Hnt. discriminate.
          + apply andb_true_iff in Eok. destruct Eok as [Hce Hnt]. apply andb_true_iff in Hce. destruct Hce as [Hce _].
            assert (Hf : special_free (fill_seg E ops vals (SIns p fs))).
            { cbn [fill_seg]. unfold apply_filters. apply (chain_free 8 fs vals _ false Hl1 Hce). discriminate. }
            split; [apply hrun_special_free; exact Hf|]. split; [exact Hf|]. intros ->. cbn in Hnt. discriminate.
          + pose proof (Hv p) as Hvp. rewrite Ek in Hvp. cbn in Hvp.
            assert (Hf : special_free (fill_seg E ops vals (SIns p fs))).
            { cbn [fill_seg]. unfold apply_filters. apply safe_chain_free; [exact Hl1|exact Eok|exact Hvp]. }
            split; [apply hrun_special_free; exact Hf|]. split; [exact Hf|]. intros _. exact Hvp. }
      destruct Hst as [Hst Hp]. rewrite Hst.
      specialize (IH st fin Hl2 Hc Hch').
      destruct (run_pieces sig vals st r) as [P f2]. cbn [fst snd] in *. tauto.
Qed.

Lemma texp_short_sound t : texp_short t = true -> forall sh,
  Forall (fun sg => match sg with SIns _ fs => (length fs <= 8)%nat | _ => True end) (eval t sh).
Proof.
  induction t as [s|p fs|a IHa b IHb|i a IHa b IHb]; cbn; intros H sh.
  - repeat constructor.
  - constructor; [apply Nat.leb_le; exact H|constructor].
  - apply andb_true_iff in H. destruct H. apply Forall_app. split; auto.
  - apply andb_true_iff in H. destruct H. destruct (nth i sh false); auto.
Qed.

Lemma digits_free : forall s, forallb is_ascii_digit s = true -> special_free s.
Proof.
  induction s as [|c s IH]; cbn; intros H; [constructor|]. apply andb_true_iff in H. destruct H as [Hc Hs].
  constructor; [|apply IH; exact Hs]. unfold is_ascii_digit in Hc. apply andb_true_iff in Hc. destruct Hc as [H1 H2].
  apply Z.leb_le in H1. apply Z.leb_le in H2. lia.
Qed.

Lemma digit_params_sound : forall atoms vals p,
  In p (digit_params atoms (shape_of E ops atoms vals)) -> special_free (pv_str (nth p vals PNone)).
Proof.
  induction atoms as [|a atoms IH]; intros vals p H; [contradiction|].
  change (shape_of E ops (a :: atoms) vals) with (atom_eval E ops vals a :: shape_of E ops atoms vals) in H.
  destruct a as [q fs|q| |q fs lit|q]; cbn [digit_params] in H.
  - apply IH. exact H.
  - apply IH. exact H.
  - apply IH. exact H.
  - apply IH. exact H.
  - destruct (atom_eval E ops vals (AIsDigit q)) eqn:Ea; [|apply IH; exact H].
    destruct H as [<-|H]; [|apply IH; exact H].
    cbn [atom_eval] in Ea. destruct (nth q vals PNone) as [[|c s]| | |]; try discriminate.
    cbn [pv_str]. apply digits_free. exact Ea.
Qed.

Lemma none_params_sound : forall atoms vals p,
  In p (none_params atoms (shape_of E ops atoms vals)) -> nth p vals PNone = PNone.
Proof.
  induction atoms as [|a atoms IH]; intros vals p H; [contradiction|].
  change (shape_of E ops (a :: atoms) vals) with (atom_eval E ops vals a :: shape_of E ops atoms vals) in H.
  destruct a as [q fs|q| |q fs lit|q]; cbn [none_params] in H; try (apply IH; exact H).
  destruct (atom_eval E ops vals (ANotNone q)) eqn:Ea; [apply IH; exact H|].
  destruct H as [<-|H]; [|apply IH; exact H].
  cbn [atom_eval] in Ea. destruct (nth q vals PNone); try discriminate. reflexivity.
Qed.

Lemma truthy_params_sound : forall atoms vals p,
  In p (truthy_params atoms (shape_of E ops atoms vals)) -> nth p vals PNone <> PNone.
Proof.
  induction atoms as [|a atoms IH]; intros vals p H; [contradiction|].
  change (shape_of E ops (a :: atoms) vals) with (atom_eval E ops vals a :: shape_of E ops atoms vals) in H.
  destruct a as [q fs|q| |q fs lit|q]; cbn [truthy_params] in H; try (apply IH; exact H).
  destruct (atom_eval E ops vals (ATruthy q fs)) eqn:Ea; [|apply IH; exact H].
  destruct H as [<-|H]; [|apply IH; exact H].
  cbn [atom_eval] in Ea. destruct (nth q vals PNone); try discriminate; cbn in Ea; try discriminate.
Qed.

Lemma shape_feasible atoms vals : feasible atoms (shape_of E ops atoms vals) = true.
Proof.
  unfold feasible. apply forallb_forall. intros p Hp. apply negb_true_iff.
  destruct (existsb (Nat.eqb p) (truthy_params atoms (shape_of E ops atoms vals))) eqn:Ex; [|reflexivity].
  apply existsb_exists in Ex. destruct Ex as (q & Hq & Hpq). apply Nat.eqb_eq in Hpq. subst q.
  exfalso. apply (truthy_params_sound atoms vals p Hq). apply (none_params_sound atoms vals p Hp).
Qed.

(* the template-level theorem *)
Theorem template_sound sig fixed t vals :
  template_ok sig fixed t = true -> vals_ok sig vals ->
  (forall p, In p (digit_params (t_atoms t) (shape_of E ops (t_atoms t) vals)) -> nth p sig KRaw <> KHtml) ->
  let sh := shape_of E ops (t_atoms t) vals in
  shape_allowed fixed sh = true ->
  children_ok sig vals (eval (t_body t) sh) ->
  fst (run_pieces sig vals Data (eval (t_body t) sh)) /\
  snd (run_pieces sig vals Data (eval (t_body t) sh)) = Data.
Proof.
  intros Hok Hv Hdk sh Hallowed Hch. unfold template_ok in Hok.
  apply andb_true_iff in Hok. destruct Hok as [Hshort Hok]. rewrite forallb_forall in Hok.
  assert (Hin : In sh (shapes (length (t_atoms t)))).
  { unfold sh, shape_of. rewrite <- (map_length (atom_eval E ops vals) (t_atoms t)). apply shapes_complete. }
  specialize (Hok sh Hin). rewrite Hallowed in Hok. unfold sh in Hok at 1. rewrite shape_feasible in Hok.
  cbn in Hok. unfold segs_ok in Hok.
  destruct (check_segs sig (digit_params (t_atoms t) sh) Data (eval (t_body t) sh)) as [fin|] eqn:Ec; [|discriminate].
  destruct fin; try discriminate.
  apply (check_sound sig (digit_params (t_atoms t) sh) vals Hv
           (fun p Hp => digit_params_sound (t_atoms t) vals p Hp) Hdk _ Data Data
           (texp_short_sound _ Hshort sh) Ec Hch).
Qed.
End Sound.
