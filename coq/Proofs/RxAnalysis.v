(* RxAnalysis.v — static analyses on regex ASTs, each with a soundness theorem w.r.t. the
   declarative semantics (hence, by RxSpec.m_spec, w.r.t. the engine). They are evaluated by
   vm_compute on the regenerated patterns (reflection). *)
From Coq Require Import ZArith List Bool Lia Arith.
From Verif Require Import PyStr Rx RxSpec UtilProofs.
Import ListNotations.
Local Open Scope nat_scope.

Section Analysis.
Variable U : uni.

Lemma adv_subject z z' w : adv z z' w -> subject z' = subject z.
Proof.
  intros (A & B & _). unfold subject. rewrite B, A, rev_app_distr, rev_involutive, <- app_assoc. reflexivity.
Qed.

Lemma M_subject r z c z' c' : M U r z c z' c' -> subject z' = subject z.
Proof. intros H. apply M_adv in H. destruct H as [w H]. eapply adv_subject; eassumption. Qed.

Lemma zback_subject : forall w z z0, zback w z = Some z0 -> subject z0 = subject z.
Proof.
  induction w as [|w IH]; intros z z0 H; cbn in H; [inversion H; reflexivity|].
  destruct (z_pre z) as [|ch p] eqn:E; [discriminate|]. apply IH in H. rewrite H.
  unfold subject. cbn. rewrite E. cbn. rewrite <- app_assoc. reflexivity.
Qed.

Lemma look_start_subject ahead w z z0 : look_start ahead w z = Some z0 -> subject z0 = subject z.
Proof.
  unfold look_start. destruct ahead; [intros [= <-]; reflexivity|].
  destruct w; [apply zback_subject|discriminate].
Qed.

Lemma zstep_in_subject z ch z' : zstep z = Some (ch, z') -> In ch (subject z).
Proof.
  unfold zstep. destruct (z_rest z) as [|x r] eqn:E; [discriminate|]. intros [= <- _].
  unfold subject. rewrite E. apply in_or_app. right. left. reflexivity.
Qed.

(* ---------- 1. must_consume: every match needs a character of T somewhere in the subject ---------- *)
Variable T : list Z.

Definition item_sub (it : citem) : bool :=
  match it with
  | CLit c => memc c T
  | CRange lo hi => (Z.leb (hi - lo) 64) && forallb (fun k => memc (lo + Z.of_nat k)%Z T) (seq 0 (Z.to_nat (hi - lo + 1)))
  | CCat _ => false
  end.

Fixpoint mc (r : rx) : bool :=
  match r with
  | REps | RNotLit _ | RAny _ | RBackref _ | RAt _ => false
  | RLit c => memc c T
  | RIn neg items => negb neg && forallb item_sub items
  | RSeq a b => mc a || mc b
  | RAlt a b => mc a && mc b
  | RFail => true
  | RRep _ lo _ r1 => negb (Nat.eqb lo 0) && mc r1
  | RGroup _ r1 => mc r1
  | RLook _ neg r1 => negb neg && mc r1
  end.

Definition tfree (s : list Z) : Prop := forall ch, In ch s -> memc ch T = false.

Lemma item_sub_sound it ch : item_sub it = true -> in_item U it ch = true -> memc ch T = true.
Proof.
  destruct it as [c|lo hi|cat]; cbn; intros Hs Hi; [| |discriminate].
  - apply Z.eqb_eq in Hi. subst. exact Hs.
  - apply andb_true_iff in Hs. destruct Hs as [_ Hs]. rewrite forallb_forall in Hs.
    apply andb_true_iff in Hi. destruct Hi as [H1 H2]. apply Z.leb_le in H1. apply Z.leb_le in H2.
    specialize (Hs (Z.to_nat (ch - lo))). replace (lo + Z.of_nat (Z.to_nat (ch - lo)))%Z with ch in Hs by lia.
    apply Hs. apply in_seq. lia.
Qed.

Theorem mc_sound r : mc r = true -> forall z c z' c', tfree (subject z) -> ~ M U r z c z' c'.
Proof.
  induction r as [|ch|ch|ineg items|dotall|ra IHa rb IHb|ra IHa rb IHb| |greedy lo hi r1 IH1|g r1 IH1|g|ahead neg r1 IH1|a];
    cbn [mc M]; intros Hm z c z' c' Hf H; try discriminate.
  - destruct H as (ch0 & Hs & Hp & _). apply Z.eqb_eq in Hp. subst ch0.
    apply zstep_in_subject in Hs. rewrite (Hf _ Hs) in Hm. discriminate.
  - apply andb_true_iff in Hm. destruct Hm as [Hn Hitems]. apply negb_true_iff in Hn. subst ineg.
    destruct H as (ch0 & Hs & Hp & _). unfold in_class in Hp. rewrite xorb_false_l in Hp.
    apply existsb_exists in Hp. destruct Hp as (it & Hin & Hit).
    rewrite forallb_forall in Hitems. pose proof (item_sub_sound it ch0 (Hitems it Hin) Hit) as Ht.
    apply zstep_in_subject in Hs. rewrite (Hf _ Hs) in Ht. discriminate.
  - destruct H as (z1 & c1 & Ha & Hb). apply orb_true_iff in Hm. destruct Hm as [Hm|Hm].
    + exact (IHa Hm _ _ _ _ Hf Ha).
    + refine (IHb Hm _ _ _ _ _ Hb). rewrite (M_subject _ _ _ _ _ Ha). exact Hf.
  - apply andb_true_iff in Hm. destruct Hm as [H1 H2]. destruct H as [H|H]; [exact (IHa H1 _ _ _ _ Hf H)|exact (IHb H2 _ _ _ _ Hf H)].
  - exact H.
  - apply andb_true_iff in Hm. destruct Hm as [Hlo Hm]. destruct H as (n & Hle & _ & Hi).
    destruct Hi as [|n z c z1 c1 z2 c2 HR _ _].
    + apply negb_true_iff, Nat.eqb_neq in Hlo. lia.
    + exact (IH1 Hm _ _ _ _ Hf HR).
  - destruct H as (c1 & H & _). exact (IH1 Hm _ _ _ _ Hf H).
  - apply andb_true_iff in Hm. destruct Hm as [Hn Hm]. apply negb_true_iff in Hn. subst neg.
    destruct H as (_ & z0 & zl & Hs & H & _).
    refine (IH1 Hm _ _ _ _ _ H). rewrite (look_start_subject _ _ _ _ Hs). exact Hf.
Qed.

(* hence the engine fails, whatever the continuation *)
Corollary mc_engine r {A} z c (k : zip -> caps -> option A) :
  wf r = true -> mc r = true -> tfree (subject z) -> m U r z c k = None.
Proof.
  intros W Hm Hf. destruct (m U r z c k) as [x|] eqn:E; [|reflexivity].
  destruct (m_spec U r W A z c k) as [S1 _]. apply S1 in E. destruct E as (z' & c' & HM & _).
  exfalso. exact (mc_sound r Hm _ _ _ _ Hf HM).
Qed.
End Analysis.

(* ---------- 2. first: the first character a non-empty match consumes ---------- *)
Section First.
Variable U : uni.

(* a character predicate given as a regex class *)
Record cset := { cs_neg : bool; cs_items : list citem }.
Definition cs_mem (s : cset) (ch : Z) : bool := in_class U (cs_neg s) (cs_items s) ch.

(* first r = (list of classes whose union over-approximates the first consumed character, nullable) *)
Fixpoint nullable (r : rx) : bool :=
  match r with
  | REps | RAt _ | RLook _ _ _ => true
  | RLit _ | RNotLit _ | RIn _ _ | RAny _ | RFail => false
  | RSeq a b => nullable a && nullable b
  | RAlt a b => nullable a || nullable b
  | RRep _ lo _ r1 => Nat.eqb lo 0 || nullable r1
  | RGroup _ r1 => nullable r1
  | RBackref _ => true
  end.

Definition any_set : cset := {| cs_neg := true; cs_items := [] |}.

Fixpoint first (r : rx) : list cset :=
  match r with
  | REps | RAt _ | RLook _ _ _ | RFail => []
  | RLit c => [{| cs_neg := false; cs_items := [CLit c] |}]
  | RNotLit c => [{| cs_neg := true; cs_items := [CLit c] |}]
  | RIn neg items => [{| cs_neg := neg; cs_items := items |}]
  | RAny dotall => if dotall then [any_set] else [{| cs_neg := true; cs_items := [CLit 10%Z] |}]
  | RSeq a b => if nullable a then first a ++ first b else first a
  | RAlt a b => first a ++ first b
  | RRep _ _ _ r1 | RGroup _ r1 => first r1
  | RBackref _ => [any_set]
  end.

Definition in_first (r : rx) (ch : Z) : bool := existsb (fun s => cs_mem s ch) (first r).

Lemma nullable_sound r z c z' c' : M U r z c z' c' -> z_idx z' = z_idx z -> nullable r = true.
Proof.
  revert z c z' c'.
  induction r as [|ch|ch|ineg items|dotall|ra IHa rb IHb|ra IHa rb IHb| |greedy lo hi r1 IH1|g r1 IH1|g|ahead neg r1 IH1|a];
    cbn [M nullable]; intros z c z' c' H Hi; try reflexivity;
    try (destruct H as (ch0 & Hs & _); apply zstep_adv in Hs; destruct Hs as (_ & _ & C); cbn in C; lia).
  - destruct H as (z1 & c1 & Ha & Hb).
    pose proof (M_idx_le _ _ _ _ _ _ Ha). pose proof (M_idx_le _ _ _ _ _ _ Hb).
    rewrite (IHa _ _ _ _ Ha), (IHb _ _ _ _ Hb) by lia. reflexivity.
  - destruct H as [H|H]; [rewrite (IHa _ _ _ _ H Hi)|rewrite (IHb _ _ _ _ H Hi), orb_true_r]; reflexivity.
  - contradiction.
  - destruct H as (n & Hlo & _ & Hit). destruct Hit as [|n z c z1 c1 z2 c2 HR Hlt Hit].
    + assert (lo = 0) by lia. subst. reflexivity.
    + exfalso. assert (z_idx z1 <= z_idx z2).
      { clear -Hit. induction Hit as [|n z c z1 c1 z2 c2 HR Hlt _ IH]; [lia|].
        pose proof (M_idx_le _ _ _ _ _ _ HR). lia. }
      lia.
  - destruct H as (c1 & H & _). eapply IH1; eassumption.
Qed.

Theorem first_sound r : forall z c z' c', M U r z c z' c' -> z_idx z < z_idx z' ->
  exists ch, hd_error (z_rest z) = Some ch /\ in_first r ch = true.
Proof.
  unfold in_first.
  induction r as [|ch|ch|ineg items|dotall|ra IHa rb IHb|ra IHa rb IHb| |greedy lo hi r1 IH1|g r1 IH1|g|ahead neg r1 IH1|a];
    cbn [M first]; intros z c z' c' H Hlt.
  - destruct H as [-> _]. lia.
  - destruct H as (ch0 & Hs & Hp & _). unfold zstep in Hs. destruct (z_rest z) as [|x rst] eqn:E; [discriminate|].
    inversion Hs; subst. exists ch0. split; [reflexivity|]. cbn. unfold cs_mem, in_class. cbn. rewrite Hp. reflexivity.
  - destruct H as (ch0 & Hs & Hp & _). unfold zstep in Hs. destruct (z_rest z) as [|x rst] eqn:E; [discriminate|].
    inversion Hs; subst. exists ch0. split; [reflexivity|]. cbn. unfold cs_mem, in_class. cbn.
    rewrite orb_false_r. apply negb_true_iff in Hp. rewrite Hp. reflexivity.
  - destruct H as (ch0 & Hs & Hp & _). unfold zstep in Hs. destruct (z_rest z) as [|x rst] eqn:E; [discriminate|].
    inversion Hs; subst. exists ch0. split; [reflexivity|]. cbn. unfold cs_mem. cbn. rewrite Hp. reflexivity.
  - destruct H as (ch0 & Hs & Hp & _). unfold zstep in Hs. destruct (z_rest z) as [|x rst] eqn:E; [discriminate|].
    inversion Hs; subst. exists ch0. split; [reflexivity|]. destruct dotall; cbn; unfold cs_mem, in_class; cbn; [reflexivity|].
    cbn in Hp. rewrite orb_false_r. apply negb_true_iff in Hp. rewrite Hp. reflexivity.
  - destruct H as (z1 & c1 & Ha & Hb).
    destruct (Nat.eq_dec (z_idx z1) (z_idx z)) as [He|Hne].
    + (* a matched empty: the first character is b's *)
      rewrite (nullable_sound _ _ _ _ _ Ha He).
      assert (Hr : z_rest z1 = z_rest z).
      { apply M_adv in Ha. destruct Ha as [w Ha]. pose proof (adv_same_idx _ _ _ Ha He). subst w. destruct Ha as (A & _). exact (eq_sym A). }
      destruct (IHb _ _ _ _ Hb ltac:(lia)) as (ch & Hh & Hin). exists ch. rewrite <- Hr. split; [exact Hh|].
      rewrite existsb_app, Hin, orb_true_r. reflexivity.
    + pose proof (M_idx_le _ _ _ _ _ _ Ha).
      destruct (IHa _ _ _ _ Ha ltac:(lia)) as (ch & Hh & Hin). exists ch. split; [exact Hh|].
      destruct (nullable ra); [rewrite existsb_app, Hin; reflexivity|exact Hin].
  - destruct H as [H|H].
    + destruct (IHa _ _ _ _ H Hlt) as (ch & Hh & Hin). exists ch. split; [exact Hh|]. rewrite existsb_app, Hin. reflexivity.
    + destruct (IHb _ _ _ _ H Hlt) as (ch & Hh & Hin). exists ch. split; [exact Hh|]. rewrite existsb_app, Hin, orb_true_r. reflexivity.
  - contradiction.
  - destruct H as (n & _ & _ & Hit). destruct Hit as [|n z c z1 c1 z2 c2 HR Hl _]; [lia|].
    exact (IH1 _ _ _ _ HR Hl).
  - destruct H as (c1 & H & _). exact (IH1 _ _ _ _ H Hlt).
  - destruct H as (a0 & b0 & _ & H). apply Mlits_adv in H. destruct H as [H _].
    destruct H as (A & _ & C). destruct (zslice z a0 b0) as [|x w]; [cbn in C; lia|].
    exists x. rewrite A. split; [reflexivity|]. cbn. reflexivity.
  - destruct neg; destruct H as [-> _]; lia.
  - destruct H as [-> _]. lia.
Qed.
End First.

(* ---------- 3. avoids: no match ever consumes one of the listed characters ---------- *)
Section Avoids.
Variable U : uni.
Variable bad : list Z.

Definition item_avoids (it : citem) : bool :=
  match it with
  | CLit c => negb (memc c bad)
  | CRange lo hi => forallb (fun b => negb ((lo <=? b)%Z && (b <=? hi)%Z)) bad
  | CCat cat => forallb (fun b => negb (in_cat U cat b)) bad
  end.

Fixpoint avoids (r : rx) : bool :=
  match r with
  | REps | RAt _ | RLook _ _ _ | RFail => true
  | RLit c => negb (memc c bad)
  | RNotLit _ | RAny _ | RBackref _ => false
  | RIn neg items => negb neg && forallb item_avoids items
  | RSeq a b | RAlt a b => avoids a && avoids b
  | RRep _ _ _ r1 | RGroup _ r1 => avoids r1
  end.

Lemma item_avoids_sound it ch : item_avoids it = true -> in_item U it ch = true -> memc ch bad = false.
Proof.
  destruct it as [c|lo hi|cat]; cbn; intros Ha Hi.
  - apply Z.eqb_eq in Hi. subst. apply negb_true_iff. exact Ha.
  - destruct (memc ch bad) eqn:E; [|reflexivity]. apply memc_In in E. rewrite forallb_forall in Ha.
    specialize (Ha ch E). rewrite Hi in Ha. discriminate.
  - destruct (memc ch bad) eqn:E; [|reflexivity]. apply memc_In in E. rewrite forallb_forall in Ha.
    specialize (Ha ch E). rewrite Hi in Ha. discriminate.
Qed.

Theorem avoids_sound r : avoids r = true -> forall z c z' c', M U r z c z' c' ->
  exists w, adv z z' w /\ Forall (fun ch => memc ch bad = false) w.
Proof.
  induction r as [|ch|ch|ineg items|dotall|ra IHa rb IHb|ra IHa rb IHb| |greedy lo hi r1 IH1|g r1 IH1|g|ahead neg r1 IH1|a];
    cbn [avoids M]; intros Ha z c z' c' H; try discriminate.
  - destruct H as [-> _]. exists []. split; [apply adv_refl|constructor].
  - destruct H as (ch0 & Hs & Hp & _). apply Z.eqb_eq in Hp. subst ch0. exists [ch]. split; [apply zstep_adv; exact Hs|].
    constructor; [apply negb_true_iff; exact Ha|constructor].
  - apply andb_true_iff in Ha. destruct Ha as [Hn Hit]. apply negb_true_iff in Hn. subst ineg.
    destruct H as (ch0 & Hs & Hp & _). unfold in_class in Hp. rewrite xorb_false_l in Hp.
    apply existsb_exists in Hp. destruct Hp as (it & Hin & Hi). rewrite forallb_forall in Hit.
    exists [ch0]. split; [apply zstep_adv; exact Hs|]. constructor; [|constructor].
    exact (item_avoids_sound it ch0 (Hit it Hin) Hi).
  - apply andb_true_iff in Ha. destruct Ha as [H1 H2]. destruct H as (z1 & c1 & Hma & Hmb).
    destruct (IHa H1 _ _ _ _ Hma) as (w1 & A1 & F1). destruct (IHb H2 _ _ _ _ Hmb) as (w2 & A2 & F2).
    exists (w1 ++ w2). split; [eapply adv_trans; eassumption|apply Forall_app; split; assumption].
  - apply andb_true_iff in Ha. destruct Ha as [H1 H2]. destruct H as [H|H]; eauto.
  - contradiction.
  - destruct H as (n & _ & _ & Hi). induction Hi as [z c|n z c z1 c1 z2 c2 HR _ _ IH].
    + exists []. split; [apply adv_refl|constructor].
    + destruct (IH1 Ha _ _ _ _ HR) as (w1 & A1 & F1). destruct IH as (w2 & A2 & F2).
      exists (w1 ++ w2). split; [eapply adv_trans; eassumption|apply Forall_app; split; assumption].
  - destruct H as (c1 & H & _). eauto.
  - destruct neg; destruct H as [-> _]; exists []; (split; [apply adv_refl|constructor]).
  - destruct H as [-> _]. exists []. split; [apply adv_refl|constructor].
Qed.
End Avoids.

(* ---------- 4. where a rule can start ---------- *)
Section StartChars.
Variable U : uni.
Variable T : list Z.

Definition first_within (r : rx) : bool :=
  forallb (fun cs => negb (cs_neg cs) && forallb (item_sub T) (cs_items cs)) (first r).

Lemma first_within_sound r ch : first_within r = true -> in_first U r ch = true -> memc ch T = true.
Proof.
  unfold first_within, in_first. intros Hw Hin. apply existsb_exists in Hin. destruct Hin as (cs & Hcs & Hm).
  rewrite forallb_forall in Hw. specialize (Hw cs Hcs). apply andb_true_iff in Hw. destruct Hw as [Hn Hit].
  apply negb_true_iff in Hn. unfold cs_mem, in_class in Hm. rewrite Hn, xorb_false_l in Hm.
  apply existsb_exists in Hm. destruct Hm as (it & Hi & Hit2). rewrite forallb_forall in Hit.
  exact (item_sub_sound U T it ch (Hit it Hi) Hit2).
Qed.

(* a well-formed, non-nullable rule whose first characters lie in T cannot match where another character stands *)
Theorem cannot_start r z : wf r = true -> nullable r = false -> first_within r = true ->
  (forall ch, hd_error (z_rest z) = Some ch -> memc ch T = false) ->
  match_at U r z = None.
Proof.
  intros W Hn Hf Hhd. destruct (match_at U r z) as [res|] eqn:E; [|reflexivity]. exfalso.
  destruct (match_sound U r z res W E) as (z' & c' & HM & _).
  destruct (Nat.eq_dec (z_idx z') (z_idx z)) as [He|Hne].
  - rewrite (nullable_sound U r _ _ _ _ HM He) in Hn. discriminate.
  - pose proof (M_idx_le U r _ _ _ _ HM). destruct (first_sound U r _ _ _ _ HM ltac:(lia)) as (ch & Hh & Hin).
    pose proof (first_within_sound r ch Hf Hin) as Ht. rewrite (Hhd ch Hh) in Ht. discriminate.
Qed.
End StartChars.

(* ---------- 5. length bounds of a match ---------- *)
Section Lengths.
Variable U : uni.

Fixpoint minlen (r : rx) : nat :=
  match r with
  | REps | RAt _ | RLook _ _ _ | RBackref _ => 0
  | RLit _ | RNotLit _ | RIn _ _ | RAny _ => 1
  | RSeq a b => minlen a + minlen b
  | RAlt a b => Nat.min (minlen a) (minlen b)
  | RFail => 0
  | RRep _ lo _ r1 => lo * minlen r1
  | RGroup _ r1 => minlen r1
  end.

(* None = unbounded *)
Fixpoint maxlen (r : rx) : option nat :=
  match r with
  | REps | RAt _ | RLook _ _ _ | RFail => Some 0
  | RLit _ | RNotLit _ | RIn _ _ | RAny _ => Some 1
  | RSeq a b => match maxlen a, maxlen b with Some x, Some y => Some (x + y) | _, _ => None end
  | RAlt a b => match maxlen a, maxlen b with Some x, Some y => Some (Nat.max x y) | _, _ => None end
  | RRep _ _ hi r1 => match hi, maxlen r1 with Some h, Some x => Some (h * x) | _, _ => None end
  | RGroup _ r1 => maxlen r1
  | RBackref _ => None
  end.

Lemma iter_len r1 (IH : forall z c z' c', M U r1 z c z' c' ->
                        minlen r1 <= z_idx z' - z_idx z /\ z_idx z <= z_idx z' /\
                        match maxlen r1 with Some x => z_idx z' - z_idx z <= x | None => True end) :
  forall n z c z' c', iter (M U r1) n z c z' c' ->
    n * minlen r1 <= z_idx z' - z_idx z /\ z_idx z <= z_idx z' /\
    match maxlen r1 with Some x => z_idx z' - z_idx z <= n * x | None => True end.
Proof.
  induction 1 as [z c|n z c z1 c1 z2 c2 HR Hlt _ IHi].
  - cbn. destruct (maxlen r1); repeat split; lia.
  - apply IH in HR. destruct HR as (A1 & A2 & A3). destruct IHi as (B1 & B2 & B3).
    cbn [Nat.mul]. destruct (maxlen r1); repeat split; lia.
Qed.

Theorem len_sound r : forall z c z' c', M U r z c z' c' ->
  minlen r <= z_idx z' - z_idx z /\ z_idx z <= z_idx z' /\
  match maxlen r with Some x => z_idx z' - z_idx z <= x | None => True end.
Proof.
  induction r as [|ch|ch|ineg items|dotall|ra IHa rb IHb|ra IHa rb IHb| |greedy lo hi r1 IH1|g r1 IH1|g|ahead neg r1 IH1|a];
    cbn [M minlen maxlen]; intros z c z' c' H;
    try (destruct H as (ch0 & Hs & _); apply zstep_adv in Hs; destruct Hs as (_ & _ & C); cbn in C; repeat split; lia).
  - destruct H as [-> _]. repeat split; lia.
  - destruct H as (z1 & c1 & Ha & Hb). apply IHa in Ha. apply IHb in Hb.
    destruct Ha as (A1 & A2 & A3). destruct Hb as (B1 & B2 & B3).
    destruct (maxlen ra), (maxlen rb); repeat split; lia.
  - destruct H as [H|H]; [apply IHa in H|apply IHb in H]; destruct H as (A1 & A2 & A3);
      destruct (maxlen ra), (maxlen rb); repeat split; lia.
  - contradiction.
  - destruct H as (n & Hlo & Hhi & Hi). destruct (iter_len r1 IH1 n _ _ _ _ Hi) as (A1 & A2 & A3).
    repeat split; [nia|lia|]. destruct hi as [h|]; [|exact I]. cbn in Hhi. destruct (maxlen r1); [nia|exact I].
  - destruct H as (c1 & H & _). exact (IH1 _ _ _ _ H).
  - destruct H as (a0 & b0 & _ & H). apply Mlits_adv in H. destruct H as [(_ & _ & C) _]. repeat split; lia.
  - destruct neg; destruct H as [-> _]; repeat split; lia.
  - destruct H as [-> _]. repeat split; lia.
Qed.

(* the body of capture group g *)
Fixpoint group_body (g : nat) (r : rx) : option rx :=
  match r with
  | RSeq a b | RAlt a b => match group_body g a with Some x => Some x | None => group_body g b end
  | RRep _ _ _ r1 | RLook _ _ r1 => group_body g r1
  | RGroup g' r1 => if Nat.eqb g g' then Some r1 else group_body g r1
  | _ => None
  end.
End Lengths.

(* ---------- 6. characters at which a rule can NOT start ---------- *)
Section Excludes.
Variable U : uni.
Variable L : list Z.

Definition first_excludes (r : rx) : bool :=
  forallb (fun cs => negb (cs_neg cs) && forallb (item_avoids U L) (cs_items cs)) (first r).

Lemma first_excludes_sound r ch : first_excludes r = true -> in_first U r ch = true -> memc ch L = false.
Proof.
  unfold first_excludes, in_first. intros Hw Hin. apply existsb_exists in Hin. destruct Hin as (cs & Hcs & Hm).
  rewrite forallb_forall in Hw. specialize (Hw cs Hcs). apply andb_true_iff in Hw. destruct Hw as [Hn Hit].
  apply negb_true_iff in Hn. unfold cs_mem, in_class in Hm. rewrite Hn, xorb_false_l in Hm.
  apply existsb_exists in Hm. destruct Hm as (it & Hi & Hit2). rewrite forallb_forall in Hit.
  exact (item_avoids_sound U L it ch (Hit it Hi) Hit2).
Qed.

Theorem cannot_start_at r z ch : wf r = true -> nullable r = false -> first_excludes r = true ->
  hd_error (z_rest z) = Some ch -> memc ch L = true -> match_at U r z = None.
Proof.
  intros W Hn Hf Hh Hl. destruct (match_at U r z) as [res|] eqn:E; [|reflexivity]. exfalso.
  destruct (match_sound U r z res W E) as (z' & c' & HM & _).
  destruct (Nat.eq_dec (z_idx z') (z_idx z)) as [He|Hne].
  - rewrite (nullable_sound U r _ _ _ _ HM He) in Hn. discriminate.
  - pose proof (M_idx_le U r _ _ _ _ HM). destruct (first_sound U r _ _ _ _ HM ltac:(lia)) as (ch2 & Hh2 & Hin).
    rewrite Hh in Hh2. inversion Hh2; subst ch2.
    rewrite (first_excludes_sound r ch Hf Hin) in Hl. discriminate.
Qed.
End Excludes.
