(* RstCore.v — the RST renderer never raises on a document of the core configuration.
   Its guard (RstDoc.node_ok: no plugin token, heading levels inside HEADING_MARKERS, a non-empty info string has a word) holds
   of every AST the core parser model returns: plugin tokens need plugin rules (InlineTyped), heading levels are 1..6
   (BlockLevels), a stored info string is stripped (BlockInfo); RstTotal shows that nothing else makes the renderer raise. *)
From Coq Require Import ZArith List Bool Lia Arith.
From Verif Require Import PyStr Rx Inline Block Doc BlockTyping BlockLevels BlockInfo DocProofs RstDoc.
Import ListNotations.
Local Open Scope nat_scope.

Lemma split_ws_aux_nonempty ws : forall s cur, cur <> [] -> split_ws_aux ws cur s <> [].
Proof.
  induction s as [|c s IH]; intros cur Hc; cbn [split_ws_aux].
  - destruct cur; [contradiction|discriminate].
  - destruct (ws c); [destruct cur; [contradiction|discriminate]|]. apply IH. destruct cur; discriminate.
Qed.
Lemma split_ws_word ws c r : ws c = false -> split_ws ws (c :: r) <> [].
Proof. intros H. unfold split_ws. cbn [split_ws_aux]. rewrite H. apply split_ws_aux_nonempty. discriminate. Qed.

Section Core.
Variable C : icfg.
Variable isw : Z -> bool.
Hypothesis inline_typed : forall s toks, inline_parse C s = Ok toks -> forallb tok_ok toks = true.

Notation rok := (RstDoc.node_ok isw).
Definition bok (t : btok) : bool := BlockInfo.tok_ok isw t && lvl_ok t.
Definition item_bok (it : btok) : bool := match it with BListItem ch => forallb bok ch | _ => false end.
Definition item_rok (it : node) : bool := match it with NListItem ch => forallb rok ch | _ => false end.

Lemma bok_children_q ch : bok (BQuote ch) = true -> forallb bok ch = true.
Proof.
  unfold bok. cbn. intros H. apply andb_true_iff in H. destruct H as [H1 H2]. apply forallb_forall. intros x Hx.
  rewrite forallb_forall in H1, H2. rewrite (H1 x Hx), (H2 x Hx). reflexivity.
Qed.
Lemma bok_items items ti b d o s : bok (BList items ti b d o s) = true -> forallb item_bok items = true.
Proof.
  unfold bok. cbn. intros H. apply andb_true_iff in H. destruct H as [H1 H2]. apply forallb_forall. intros x Hx.
  rewrite forallb_forall in H1, H2. specialize (H1 x Hx). specialize (H2 x Hx). destruct x; try discriminate. cbn in *.
  apply forallb_forall. intros y Hy. rewrite forallb_forall in H1, H2. unfold bok. rewrite (H1 y Hy), (H2 y Hy). reflexivity.
Qed.
Lemma item_rok_rok l : forallb item_rok l = true -> forallb rok l = true.
Proof. intros H. apply forallb_forall. intros x Hx. rewrite forallb_forall in H. specialize (H x Hx). destruct x; try discriminate. exact H. Qed.

Lemma pass_rok_n : forall k t n, bsize t <= k -> inline_pass C t = Ok n ->
  (bok t = true -> rok n = true) /\ (item_bok t = true -> item_rok n = true).
Proof.
  induction k as [|k IH]; intros t n Hk H; [destruct t; cbn in Hk; lia|].
  destruct t as [| |raw f mk info|text lv se|text|text|ch|items ti b d o s|ch|raw]; cbn [inline_pass] in H; unfold bind in H.
  - inversion H; split; [reflexivity|discriminate].
  - inversion H; split; [reflexivity|discriminate].
  - inversion H; subst. split; [|discriminate]. unfold bok. cbn [BlockInfo.tok_ok lvl_ok RstDoc.node_ok]. rewrite andb_true_r.
    destruct info as [[|c r]|]; try reflexivity. unfold info_okb. intros Hc. apply negb_true_iff in Hc.
    pose proof (split_ws_word isw c r Hc) as Hw. destruct (split_ws isw (c :: r)); [contradiction|reflexivity].
  - destruct (inline_parse C _) as [tk| |] eqn:E; inversion H; subst. split; [|discriminate]. unfold bok. cbn [BlockInfo.tok_ok lvl_ok RstDoc.node_ok].
    intros Ht. rewrite (inline_typed _ _ E). cbn [andb] in *. destruct lv as [|[|[|[|[|[|[|?]]]]]]]; cbn in Ht |- *; try discriminate; reflexivity.
  - destruct (inline_parse C _) as [tk| |] eqn:E; inversion H; subst. split; [|discriminate]. intros _. cbn [RstDoc.node_ok]. exact (inline_typed _ _ E).
  - destruct (inline_parse C _) as [tk| |] eqn:E; inversion H; subst. split; [|discriminate]. intros _. cbn [RstDoc.node_ok]. exact (inline_typed _ _ E).
  - destruct (all_res (map (inline_pass C) ch)) as [c| |] eqn:E; inversion H; subst. split; [|discriminate]. intros Ht. cbn [RstDoc.node_ok].
    apply (all_res_forallb (inline_pass C) bok rok ch c); [|exact E|apply bok_children_q; exact Ht].
    intros x y Hin Hx Hp. apply (proj1 (IH x y ltac:(pose proof (in_size _ _ Hin); cbn [bsize] in Hk; lia) Hx)). exact Hp.
  - destruct (all_res (map (inline_pass C) items)) as [c| |] eqn:E; inversion H; subst. split; [|discriminate]. intros Ht. cbn [RstDoc.node_ok].
    apply item_rok_rok.
    apply (all_res_forallb (inline_pass C) item_bok item_rok items c); [|exact E|exact (bok_items _ _ _ _ _ _ Ht)].
    intros x y Hin Hx Hp. apply (proj2 (IH x y ltac:(pose proof (in_size _ _ Hin); cbn [bsize] in Hk; lia) Hx)). exact Hp.
  - destruct (all_res (map (inline_pass C) ch)) as [c| |] eqn:E; inversion H; subst. split; [unfold bok; cbn; discriminate|]. intros Ht. cbn [item_rok].
    apply (all_res_forallb (inline_pass C) bok rok ch c); [|exact E|exact Ht].
    intros x y Hin Hx Hp. apply (proj1 (IH x y ltac:(pose proof (in_size _ _ Hin); cbn [bsize] in Hk; lia) Hx)). exact Hp.
  - inversion H; split; [reflexivity|discriminate].
Qed.

Theorem pass_all_rok toks ns : all_res (map (inline_pass C) toks) = Ok ns -> forallb bok toks = true -> forallb rok ns = true.
Proof.
  intros H Hp. apply (all_res_forallb (inline_pass C) bok rok toks ns); [|exact H|exact Hp].
  intros x y _ Hx. exact (proj1 (pass_rok_n (bsize x) x y (le_n _) Hx)).
Qed.
End Core.
