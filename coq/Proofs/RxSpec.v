(* RxSpec.v — declarative semantics of regular expressions (which (position, captures) pairs are
   matches, ignoring priority) and the theorem that the executable engine of Lib/Rx.v is sound
   and complete for it:  the engine's answer is the continuation's answer on SOME declared match,
   and it fails only if the continuation fails on EVERY declared match. *)
From Coq Require Import ZArith List Bool Lia Arith.
From Verif Require Import PyStr Rx.
Import ListNotations.
Local Open Scope nat_scope.

Section Spec.
Variable U : uni.

(* ---------- zipper facts ---------- *)
(* z' is z advanced over [w] *)
Definition adv (z z' : zip) (w : list Z) : Prop :=
  z_rest z = w ++ z_rest z' /\ z_pre z' = rev w ++ z_pre z /\ z_idx z' = z_idx z + length w.

Lemma adv_refl z : adv z z [].
Proof. unfold adv. cbn. repeat split; lia. Qed.

Lemma adv_trans z1 z2 z3 w1 w2 : adv z1 z2 w1 -> adv z2 z3 w2 -> adv z1 z3 (w1 ++ w2).
Proof.
  unfold adv. intros (A1 & B1 & C1) (A2 & B2 & C2). repeat split.
  - rewrite A1, A2, app_assoc. reflexivity.
  - rewrite B2, B1, rev_app_distr, app_assoc. reflexivity.
  - rewrite app_length. lia.
Qed.

Lemma zstep_adv z ch z' : zstep z = Some (ch, z') -> adv z z' [ch].
Proof.
  unfold zstep. destruct (z_rest z) as [|x r] eqn:E; [discriminate|]. intros [= <- <-].
  unfold adv. cbn. repeat split; auto. lia.
Qed.

Lemma adv_len z z' w : adv z z' w -> length (z_rest z) = length w + length (z_rest z').
Proof. intros (A & _ & _). rewrite A, app_length. reflexivity. Qed.

Lemma adv_same_idx z z' w : adv z z' w -> z_idx z' = z_idx z -> w = [].
Proof. intros (_ & _ & C) H. destruct w; [reflexivity|cbn in C; lia]. Qed.

(* ---------- declarative semantics ---------- *)
Definition Rel := zip -> caps -> zip -> caps -> Prop.

Definition Mone (p : Z -> bool) : Rel :=
  fun z c z' c' => exists ch, zstep z = Some (ch, z') /\ p ch = true /\ c' = c.

Fixpoint Mlits (s : list Z) : Rel :=
  match s with
  | [] => fun z c z' c' => z' = z /\ c' = c
  | ch :: s' => fun z c z' c' => exists z1, zstep z = Some (ch, z1) /\ Mlits s' z1 c z' c'
  end.

Inductive iter (R : Rel) : nat -> Rel :=
| it0 z c : iter R 0 z c z c
| itS n z c z1 c1 z2 c2 : R z c z1 c1 -> z_idx z < z_idx z1 -> iter R n z1 c1 z2 c2 -> iter R (S n) z c z2 c2.

Definition hi_ok (hi : option nat) (n : nat) : Prop := match hi with Some h => n <= h | None => True end.

Fixpoint M (r : rx) : Rel :=
  match r with
  | REps => fun z c z' c' => z' = z /\ c' = c
  | RLit ch => Mone (fun x => (x =? ch)%Z)
  | RNotLit ch => Mone (fun x => negb (x =? ch)%Z)
  | RIn neg items => Mone (in_class U neg items)
  | RAny dotall => Mone (fun x => dotall || negb (x =? 10)%Z)
  | RSeq a b => fun z c z2 c2 => exists z1 c1, M a z c z1 c1 /\ M b z1 c1 z2 c2
  | RAlt a b => fun z c z' c' => M a z c z' c' \/ M b z c z' c'
  | RFail => fun _ _ _ _ => False
  | RRep _ lo hi r1 => fun z c z' c' => exists n, lo <= n /\ hi_ok hi n /\ iter (M r1) n z c z' c'
  | RGroup g r1 => fun z c z' c' => exists c1, M r1 z c z' c1 /\ c' = (g, (z_idx z, z_idx z')) :: c1
  | RBackref g => fun z c z' c' => exists a b, cap_get c g = Some (a, b) /\ Mlits (zslice z a b) z c z' c'
  | RLook ahead false r1 => fun z c z' c' =>
      z' = z /\ exists z0 zl, look_start ahead (width r1) z = Some z0 /\ M r1 z0 c zl c' /\
                              (ahead = false -> z_idx zl = z_idx z)
  | RLook ahead true r1 => fun z c z' c' =>
      z' = z /\ c' = c /\
      (look_start ahead (width r1) z = None \/
       exists z0, look_start ahead (width r1) z = Some z0 /\
                  forall zl cl, M r1 z0 c zl cl -> ahead = false /\ z_idx zl <> z_idx z)
  | RAt a => fun z c z' c' => z' = z /\ c' = c /\ at_ok U a z = true
  end.

(* every match advances the zipper over the characters it consumed *)
Lemma Mlits_adv s : forall z c z' c', Mlits s z c z' c' -> adv z z' s /\ c' = c.
Proof.
  induction s as [|ch s IH]; cbn; intros z c z' c' H.
  - destruct H as [-> ->]. split; [apply adv_refl|reflexivity].
  - destruct H as (z1 & Hs & Hr). apply IH in Hr. destruct Hr as [Hr ->].
    split; [|reflexivity]. apply (adv_trans _ _ _ [ch] s (zstep_adv _ _ _ Hs) Hr).
Qed.

Lemma M_adv r : forall z c z' c', M r z c z' c' -> exists w, adv z z' w.
Proof.
  induction r as [|ch|ch|ineg items|dotall|ra IHa rb IHb|ra IHa rb IHb| |greedy lo hi r1 IH1|g r1 IH1|g|ahead neg r1 IH1|a]; cbn [M]; intros z c z' c' H;
    try (destruct H as (ch0 & Hs & _); exists [ch0]; apply zstep_adv; assumption).
  - destruct H as [-> _]. exists []. apply adv_refl.
  - destruct H as (z1 & c1 & Ha & Hb). apply IHa in Ha. apply IHb in Hb.
    destruct Ha as [w1 Ha]. destruct Hb as [w2 Hb]. exists (w1 ++ w2). eapply adv_trans; eassumption.
  - destruct H as [H|H]; eauto.
  - contradiction.
  - destruct H as (n & _ & _ & Hi). induction Hi as [z c|n z c z1 c1 z2 c2 HR _ _ IH].
    + exists []. apply adv_refl.
    + apply IH1 in HR. destruct HR as [w1 H1]. destruct IH as [w2 H2]. exists (w1 ++ w2). eapply adv_trans; eassumption.
  - destruct H as (c1 & H & _). eauto.
  - destruct H as (a0 & b0 & _ & H). apply Mlits_adv in H. destruct H as [H _]. eauto.
  - destruct neg; destruct H as [-> _]; exists []; apply adv_refl.
  - destruct H as [-> _]. exists []. apply adv_refl.
Qed.

Lemma M_idx_le r z c z' c' : M r z c z' c' -> z_idx z <= z_idx z'.
Proof. intros H. apply M_adv in H. destruct H as [w (_ & _ & C)]. lia. Qed.

Lemma M_progress r z c z' c' : M r z c z' c' -> z_idx z < z_idx z' -> length (z_rest z') < length (z_rest z).
Proof.
  intros H Hlt. apply M_adv in H. destruct H as [w Hw]. pose proof (adv_len _ _ _ Hw) as L.
  destruct Hw as (_ & _ & C). destruct w; cbn in *; lia.
Qed.

(* ---------- well-formedness: look-around bodies do not capture ---------- *)
Fixpoint nocap (r : rx) : bool :=
  match r with
  | RSeq a b | RAlt a b => nocap a && nocap b
  | RRep _ _ _ r1 | RLook _ _ r1 => nocap r1
  | RGroup _ _ => false
  | _ => true
  end.

Fixpoint wf (r : rx) : bool :=
  match r with
  | RSeq a b | RAlt a b => wf a && wf b
  | RRep _ _ _ r1 | RGroup _ r1 => wf r1
  | RLook _ _ r1 => nocap r1 && wf r1
  | _ => true
  end.

Lemma nocap_caps r : nocap r = true -> forall z c z' c', M r z c z' c' -> c' = c.
Proof.
  induction r as [|ch|ch|ineg items|dotall|ra IHa rb IHb|ra IHa rb IHb| |greedy lo hi r1 IH1|g r1 IH1|g|ahead neg r1 IH1|a]; cbn [nocap M]; intros Hn z c z' c' H;
    try (destruct H as (ch0 & _ & _ & ->); reflexivity).
  - destruct H as [_ ->]. reflexivity.
  - apply andb_true_iff in Hn. destruct Hn as [H1 H2]. destruct H as (z1 & c1 & Ha & Hb).
    apply (IHa H1) in Ha. apply (IHb H2) in Hb. congruence.
  - apply andb_true_iff in Hn. destruct Hn as [H1 H2]. destruct H as [H|H]; eauto.
  - contradiction.
  - destruct H as (n & _ & _ & Hi). induction Hi as [|n z c z1 c1 z2 c2 HR _ _ IH]; [reflexivity|].
    apply (IH1 Hn) in HR. congruence.
  - discriminate.
  - destruct H as (a0 & b0 & _ & H). apply Mlits_adv in H. tauto.
  - destruct neg.
    + destruct H as (_ & -> & _). reflexivity.
    + destruct H as (_ & z0 & zl & _ & H & _). eapply IH1; eassumption.
  - destruct H as (_ & -> & _). reflexivity.
Qed.

(* ---------- the engine is sound and complete ---------- *)
Definition spec {A} (mr : zip -> caps -> (zip -> caps -> option A) -> option A) (R : Rel) : Prop :=
  forall z c k,
    (forall x, mr z c k = Some x -> exists z' c', R z c z' c' /\ k z' c' = Some x) /\
    (mr z c k = None -> forall z' c', R z c z' c' -> k z' c' = None).

Lemma one_spec {A} p : @spec A (one p) (Mone p).
Proof.
  intros z c k. unfold one, Mone. destruct (zstep z) as [[ch z1]|]; cbn.
  - destruct (p ch) eqn:Ep.
    + split.
      * intros x H. exists z1, c. split; [exists ch; auto|exact H].
      * intros H z' c' (ch' & E' & _ & ->). inversion E'; subst. exact H.
    + split; [discriminate|]. intros _ z' c' (ch' & E' & P' & _). inversion E'; subst. congruence.
  - split; [discriminate|]. intros _ z' c' (ch' & E' & _). discriminate.
Qed.

Lemma lits_spec {A} s : @spec A (lits s) (Mlits s).
Proof.
  induction s as [|ch s IH]; intros z c k; cbn [lits Mlits].
  - split; [intros x H; exists z, c; auto|intros H z' c' [-> ->]; exact H].
  - destruct (one_spec (A:=A) (fun x => (x =? ch)%Z) z c (fun z' c' => lits s z' c' k)) as [S1 C1]. split.
    + intros x H. apply S1 in H. destruct H as (z1 & c1 & (ch' & Hs & Hp & ->) & Hk).
      apply Z.eqb_eq in Hp. subst ch'.
      destruct (IH z1 c k) as [S2 _]. apply S2 in Hk. destruct Hk as (z' & c' & Hm & Hk).
      exists z', c'. split; [exists z1; auto|exact Hk].
    + intros H z' c' (z1 & Hs & Hm).
      assert (Hone : Mone (fun x => (x =? ch)%Z) z c z1 c) by (exists ch; rewrite Z.eqb_refl; auto).
      specialize (C1 H z1 c Hone). cbn in C1. destruct (IH z1 c k) as [_ C2]. eauto.
Qed.

Lemma rep_spec {A} mr R greedy lo hi (k : zip -> caps -> option A) :
  @spec A mr R ->
  (forall z c z' c', R z c z' c' -> z_idx z < z_idx z' -> length (z_rest z') < length (z_rest z)) ->
  forall budget n z c, length (z_rest z) < budget -> hi_ok hi n ->
    (forall x, rep_loop mr greedy lo hi k budget n z c = Some x ->
       exists j z' c', iter R j z c z' c' /\ lo <= n + j /\ hi_ok hi (n + j) /\ k z' c' = Some x) /\
    (rep_loop mr greedy lo hi k budget n z c = None ->
       forall j z' c', iter R j z c z' c' -> lo <= n + j -> hi_ok hi (n + j) -> k z' c' = None).
Proof.
  intros Hspec Hprog. induction budget as [|b IH]; intros n z c Hb Hn; [lia|].
  cbn [rep_loop].
  set (kk := fun z' c' => if Nat.ltb (z_idx z) (z_idx z') then rep_loop mr greedy lo hi k b (S n) z' c' else None).
  set (can_more := match hi with Some h => Nat.ltb n h | None => true end).
  set (more := if can_more then mr z c kk else None).
  set (stop := if Nat.leb lo n then k z c else None).
  assert (HSn : can_more = true -> hi_ok hi (S n)).
  { unfold can_more, hi_ok. destruct hi as [h|]; [|trivial]. intros H. apply Nat.ltb_lt in H. lia. }
  assert (Smore : forall x, more = Some x ->
            exists j z' c', iter R j z c z' c' /\ lo <= n + j /\ hi_ok hi (n + j) /\ k z' c' = Some x).
  { unfold more. destruct can_more eqn:Ecm; [|discriminate]. intros x H.
    destruct (Hspec z c kk) as [S1 _]. apply S1 in H. destruct H as (z1 & c1 & HR & Hk). unfold kk in Hk.
    destruct (Nat.ltb_spec (z_idx z) (z_idx z1)) as [Hlt|]; [|discriminate].
    pose proof (Hprog _ _ _ _ HR Hlt) as Hlen.
    destruct (IH (S n) z1 c1 ltac:(lia) (HSn eq_refl)) as [S2 _]. apply S2 in Hk.
    destruct Hk as (j & z' & c' & Hi & Hlo & Hhi & Hk).
    exists (S j), z', c'. repeat split; try assumption.
    - econstructor; eassumption.
    - lia.
    - replace (n + S j) with (S n + j) by lia. exact Hhi. }
  assert (Sstop : forall x, stop = Some x ->
            exists j z' c', iter R j z c z' c' /\ lo <= n + j /\ hi_ok hi (n + j) /\ k z' c' = Some x).
  { unfold stop. destruct (Nat.leb_spec lo n) as [Hle|]; [|discriminate]. intros x H.
    exists 0, z, c. rewrite Nat.add_0_r. repeat split; try assumption. constructor. }
  assert (Cboth : more = None -> stop = None ->
            forall j z' c', iter R j z c z' c' -> lo <= n + j -> hi_ok hi (n + j) -> k z' c' = None).
  { intros Hm Hs j z' c' Hi Hlo Hhi. inversion Hi as [|j0 ? ? z1 c1 ? ? HR Hlt Hi2]; subst.
    - rewrite Nat.add_0_r in Hlo. unfold stop in Hs.
      destruct (Nat.leb_spec lo n); [exact Hs|lia].
    - assert (Ecm : can_more = true).
      { unfold can_more. destruct hi as [h|]; [|reflexivity]. cbn in Hhi. apply Nat.ltb_lt. lia. }
      unfold more in Hm. rewrite Ecm in Hm.
      destruct (Hspec z c kk) as [_ C1]. specialize (C1 Hm z1 c1 HR). unfold kk in C1.
      destruct (Nat.ltb_spec (z_idx z) (z_idx z1)); [|lia].
      pose proof (Hprog _ _ _ _ HR Hlt) as Hlen.
      destruct (IH (S n) z1 c1 ltac:(lia) (HSn Ecm)) as [_ C2].
      apply (C2 C1 j0 z' c' Hi2); [lia|]. replace (S n + j0) with (n + S j0) by lia. exact Hhi. }
  fold kk. fold can_more. fold more. fold stop.
  destruct greedy.
  - destruct more as [y|] eqn:Em.
    + split; [|discriminate]. intros x H. inversion H; subst. apply Smore. reflexivity.
    + split; [apply Sstop|]. intros H. apply Cboth; [reflexivity|exact H].
  - destruct stop as [y|] eqn:Es.
    + split; [|discriminate]. intros x H. inversion H; subst. apply Sstop. reflexivity.
    + split; [apply Smore|]. intros H. apply Cboth; [exact H|reflexivity].
Qed.

Theorem m_spec r : wf r = true -> forall A, @spec A (fun z c k => m U r z c k) (M r).
Proof.
  induction r as [|ch|ch|ineg items|dotall|ra IHa rb IHb|ra IHa rb IHb| |greedy lo hi r1 IH1|g r1 IH1|g|ahead neg r1 IH1|a]; cbn [wf]; intros Hwf A0; try (apply one_spec).
  - (* eps *) intros z c k. cbn. split; [intros x H; exists z, c; auto|intros H z' c' [-> ->]; exact H].
  - (* seq *) apply andb_true_iff in Hwf. destruct Hwf as [W1 W2]. intros z c k. cbn [m M].
    destruct (IHa W1 A0 z c (fun z' c' => m U rb z' c' k)) as [S1 C1]. split.
    + intros x H. apply S1 in H. destruct H as (z1 & c1 & Ha & Hb).
      destruct (IHb W2 A0 z1 c1 k) as [S2 _]. apply S2 in Hb. destruct Hb as (z2 & c2 & Hb & Hk).
      exists z2, c2. split; [exists z1, c1; auto|exact Hk].
    + intros H z2 c2 (z1 & c1 & Ha & Hb). specialize (C1 H z1 c1 Ha). cbn in C1.
      destruct (IHb W2 A0 z1 c1 k) as [_ C2]. eauto.
  - (* alt *) apply andb_true_iff in Hwf. destruct Hwf as [W1 W2]. intros z c k. cbn [m M].
    destruct (IHa W1 A0 z c k) as [S1 C1]. destruct (IHb W2 A0 z c k) as [S2 C2].
    destruct (m U ra z c k) eqn:E1.
    + split; [|discriminate]. intros x H. inversion H; subst. destruct (S1 x eq_refl) as (z' & c' & ? & ?). eauto.
    + split.
      * intros x H. destruct (S2 x H) as (z' & c' & ? & ?). eauto.
      * intros H z' c' [Hm|Hm]; eauto.
  - (* fail *) intros z c k. cbn. split; [discriminate|intros _ z' c' []].
  - (* rep *) intros z c k. cbn [m M].
    pose proof (rep_spec (A:=A0) (fun z0 c0 k0 => m U r1 z0 c0 k0) (M r1) greedy lo hi k (IH1 Hwf A0)
                  (fun z c z' c' H => M_progress r1 z c z' c' H)
                  (S (length (z_rest z))) 0 z c ltac:(lia)) as HR.
    assert (H0 : hi_ok hi 0) by (destruct hi; cbn; [lia|exact I]).
    destruct (HR H0) as [S1 C1]. split.
    + intros x H. apply S1 in H. destruct H as (j & z' & c' & Hi & Hlo & Hhi & Hk).
      exists z', c'. split; [exists j; auto|exact Hk].
    + intros H z' c' (j & Hlo & Hhi & Hi). eapply C1; eauto.
  - (* group *) intros z c k. cbn [m M].
    destruct (IH1 Hwf A0 z c (fun z' c' => k z' ((g, (z_idx z, z_idx z')) :: c'))) as [S1 C1]. split.
    + intros x H. apply S1 in H. destruct H as (z' & c1 & Hm & Hk). exists z', ((g, (z_idx z, z_idx z')) :: c1). eauto.
    + intros H z' c' (c1 & Hm & ->). apply (C1 H z' c1 Hm).
  - (* backref *) intros z c k. cbn [m M]. destruct (cap_get c g) as [[a0 b0]|] eqn:E.
    + destruct (lits_spec (A:=A0) (zslice z a0 b0) z c k) as [S1 C1]. split.
      * intros x H. apply S1 in H. destruct H as (z' & c' & Hm & Hk). exists z', c'. split; [exists a0, b0; auto|exact Hk].
      * intros H z' c' (a' & b' & E' & Hm). try rewrite E in E'; inversion E'; subst. eauto.
    + split; [discriminate|]. intros _ z' c' (a' & b' & E' & _). congruence.
  - (* look *) apply andb_true_iff in Hwf. destruct Hwf as [Wn Ww]. intros z c k. cbn [m].
    destruct (look_start ahead (width r1) z) as [z0|] eqn:Es.
    + destruct (IH1 Ww caps z0 c (look_k ahead z)) as [S1 C1].
      destruct (m U r1 z0 c (look_k ahead z)) as [c1|] eqn:Em.
      * destruct (S1 c1 eq_refl) as (zl & cl & Hm & Hk).
        pose proof (nocap_caps r1 Wn _ _ _ _ Hm) as Hc. subst cl.
        assert (Hidx : ahead = false -> z_idx zl = z_idx z /\ c1 = c).
        { intros ->. unfold look_k in Hk. destruct (Nat.eqb_spec (z_idx zl) (z_idx z)); [|discriminate].
          inversion Hk. auto. }
        assert (Hc1 : c1 = c). { unfold look_k in Hk. destruct ahead; [inversion Hk; auto|apply Hidx; reflexivity]. }
        subst c1. destruct neg; cbn [M].
        -- split; [discriminate|]. intros _ z' c' (-> & -> & [Hn|(z0' & Hs' & Hall)]); [congruence|].
           try rewrite Es in Hs'; inversion Hs'; subst z0'. destruct (Hall zl c Hm) as [Ha Hne].
           destruct (Hidx Ha) as [Hi _]. contradiction.
        -- split.
           ++ intros x H. exists z, c. split; [|exact H]. split; [reflexivity|].
              exists z0, zl. repeat split; auto. intros Ha. apply Hidx. exact Ha.
           ++ intros H z' c' (-> & z0' & zl' & Hs' & Hm' & _).
              try rewrite Es in Hs'; inversion Hs'; subst z0'.
              pose proof (nocap_caps r1 Wn _ _ _ _ Hm') as ->. exact H.
      * destruct neg; cbn [M].
        -- split.
           ++ intros x H. exists z, c. split; [|exact H]. repeat split. right. exists z0. split; [first [exact Es|reflexivity]|].
              intros zl cl Hm. specialize (C1 eq_refl zl cl Hm). unfold look_k in C1.
              destruct ahead; [discriminate|]. split; [reflexivity|].
              destruct (Nat.eqb_spec (z_idx zl) (z_idx z)); [discriminate|assumption].
           ++ intros H z' c' (-> & -> & _). exact H.
        -- split; [discriminate|]. intros _ z' c' (-> & z0' & zl & Hs' & Hm & Hi).
           try rewrite Es in Hs'; inversion Hs'; subst z0'. specialize (C1 eq_refl zl c' Hm). unfold look_k in C1.
           destruct ahead; [discriminate|]. rewrite (Hi eq_refl), Nat.eqb_refl in C1. discriminate.
    + destruct neg; cbn [M].
      * split.
        -- intros x H. exists z, c. split; [|exact H]. repeat split. left. first [exact Es|reflexivity].
        -- intros H z' c' (-> & -> & _). exact H.
      * split; [discriminate|]. intros _ z' c' (-> & z0 & zl & Hs' & _). congruence.
  - (* at *) intros z c k. cbn [m M]. destruct (at_ok U a z) eqn:E.
    + split; [intros x H; exists z, c; auto|intros H z' c' (-> & -> & _); exact H].
    + split; [discriminate|]. intros _ z' c' (_ & _ & E'). congruence.
Qed.

(* ---------- consequences used by the analyses ---------- *)
Corollary match_sound r z res : wf r = true -> match_at U r z = Some res ->
  exists z' c', M r z [] z' c' /\ res = (z_idx z, z_idx z', c').
Proof.
  intros W H. unfold match_at in H. destruct (m_spec r W _ z [] (fun z' c' => Some (z_idx z, z_idx z', c'))) as [S1 _].
  apply S1 in H. destruct H as (z' & c' & Hm & Hk). exists z', c'. split; [exact Hm|]. inversion Hk. reflexivity.
Qed.

Corollary match_complete r z : wf r = true -> match_at U r z = None -> forall z' c', ~ M r z [] z' c'.
Proof.
  intros W H z' c' Hm. unfold match_at in H.
  destruct (m_spec r W _ z [] (fun z' c' => Some (z_idx z, z_idx z', c'))) as [_ C1].
  specialize (C1 H z' c' Hm). discriminate.
Qed.
End Spec.
