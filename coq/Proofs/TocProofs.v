(* Proofs about render_toc_ul (C15): for every sequence of levels the emitted tag events
   form a well-nested list in which entry i sits directly under the closest preceding
   entry of strictly smaller level. *)
From Coq Require Import ZArith List Bool Lia Arith.
From Verif Require Import PyStr Toc.
Import ListNotations.
Local Open Scope nat_scope.

(* ---------- specification ---------- *)
(* closest preceding entry with strictly smaller level; [pre] = entries so far, most recent first *)
Definition closest_smaller (pre : list (nat * nat)) (L : nat) : option nat :=
  option_map snd (List.find (fun e => Nat.ltb (fst e) L) pre).

Fixpoint parents_from (pre : list (nat * nat)) (n : nat) (levels : list nat) : list (nat * option nat) :=
  match levels with
  | [] => []
  | L :: ls => (n, closest_smaller pre L) :: parents_from ((L, n) :: pre) (S n) ls
  end.
Definition toc_parents (levels : list nat) : list (nat * option nat) := parents_from [] 0 levels.

(* ---------- the reader of tag events: a stack machine ---------- *)
Inductive frame := FOpen | FLi (it : option nat).
Definition mstate := (list frame * list (nat * option nat))%type.

Definition parent_of (fs : list frame) : option nat :=
  match fs with FLi (Some p) :: _ => Some p | _ => None end.

Definition mstep (st : mstate) (e : ev) : option mstate :=
  let (fs, log) := st in
  match e, fs with
  | UlO, [] => Some ([FOpen], log)
  | UlO, FLi (Some _) :: _ => Some (FOpen :: fs, log)
  | LiO, FOpen :: r => Some (FLi None :: r, log)
  | It n, FLi None :: r => Some (FLi (Some n) :: r, (n, parent_of r) :: log)
  | LiC, FLi (Some _) :: r => Some (FOpen :: r, log)
  | UlC, FOpen :: r => Some (r, log)
  | _, _ => None
  end.

Fixpoint mrun (st : mstate) (es : list ev) : option mstate :=
  match es with
  | [] => Some st
  | e :: es' => match mstep st e with Some st' => mrun st' es' | None => None end
  end.

(* well-formed = the machine accepts and every element is closed; result: (entry, parent) in order *)
Definition read_tree (es : list ev) : option (list (nat * option nat)) :=
  match mrun ([], []) es with
  | Some ([], log) => Some (rev log)
  | _ => None
  end.

Lemma mrun_app st a b : mrun st (a ++ b) = match mrun st a with Some st' => mrun st' b | None => None end.
Proof.
  revert st. induction a as [|e a IH]; intros st; cbn [app mrun]; [reflexivity|].
  destruct (mstep st e); [apply IH|reflexivity].
Qed.

(* ---------- abstract description of one loop iteration ---------- *)
Fixpoint take_ge (L : nat) (gs : list (nat * nat)) : list (nat * nat) :=
  match gs with
  | [] => []
  | e :: gs' => if Nat.leb L (fst e) then e :: take_ge L gs' else []
  end.
Fixpoint drop_ge (L : nat) (gs : list (nat * nat)) : list (nat * nat) :=
  match gs with
  | [] => []
  | e :: gs' => if Nat.leb L (fst e) then drop_ge L gs' else gs
  end.

Lemma take_drop_ge L gs : take_ge L gs ++ drop_ge L gs = gs.
Proof. induction gs as [|e gs IH]; cbn; [reflexivity|]. destruct (Nat.leb L (fst e)); cbn; congruence. Qed.

Fixpoint pops (k : nat) : list ev := match k with O => [] | S k' => LiC :: UlC :: pops k' end.

Definition abs_step_events (gs : list (nat * nat)) (n L : nat) : list ev :=
  match take_ge L gs with
  | [] => [UlO; LiO; It n]
  | _ :: d => pops (length d) ++ [LiC; LiO; It n]
  end.
Definition abs_step_stack (gs : list (nat * nat)) (n L : nat) : list (nat * nat) := (L, n) :: drop_ge L gs.

Fixpoint abs_loop (gs : list (nat * nat)) (n : nat) (levels : list nat) : list ev * list (nat * nat) :=
  match levels with
  | [] => ([], gs)
  | L :: ls =>
    let (es, gs') := abs_loop (abs_step_stack gs n L) (S n) ls in
    (abs_step_events gs n L ++ es, gs')
  end.

(* stack strictly decreasing from top to bottom *)
Fixpoint desc (gs : list (nat * nat)) : Prop :=
  match gs with
  | [] => True
  | a :: gs' => (match gs' with [] => True | b :: _ => fst b < fst a end) /\ desc gs'
  end.

Lemma desc_tail a gs : desc (a :: gs) -> desc gs.
Proof. cbn. tauto. Qed.

Lemma drop_ge_desc L gs : desc gs -> desc (drop_ge L gs).
Proof.
  induction gs as [|e gs IH]; intros H; [exact I|]. cbn [drop_ge].
  destruct (Nat.leb L (fst e)); [apply IH; eapply desc_tail; eassumption|exact H].
Qed.

Lemma drop_ge_head L gs : match drop_ge L gs with [] => True | b :: _ => fst b < L end.
Proof.
  induction gs as [|e gs IH]; cbn; [exact I|].
  destruct (Nat.leb L (fst e)) eqn:E; [exact IH|]. apply Nat.leb_gt in E. exact E.
Qed.

Lemma abs_step_desc gs n L : desc gs -> desc (abs_step_stack gs n L).
Proof.
  intros H. unfold abs_step_stack. cbn [desc]. split; [|apply drop_ge_desc; assumption].
  pose proof (drop_ge_head L gs) as Hh. destruct (drop_ge L gs); [exact I|exact Hh].
Qed.

(* below a strictly decreasing stack top, nothing else is >= the top *)
Lemma take_ge_below a gs : desc (a :: gs) -> take_ge (fst a) gs = [] /\ drop_ge (fst a) gs = gs.
Proof.
  cbn [desc]. intros [H _]. destruct gs as [|b gs]; [split; reflexivity|]. cbn.
  assert (E : Nat.leb (fst a) (fst b) = false) by (apply Nat.leb_gt; exact H). rewrite E. split; reflexivity.
Qed.

(* ---------- the code-mirroring model produces exactly the abstract events ---------- *)
Definition cevents (cs : list chunk) : list ev := flat_map chunk_events cs.

Lemma cevents_app a b : cevents (a ++ b) = cevents a ++ cevents b.
Proof. apply flat_map_app. Qed.

Lemma unwind_abs L : forall (gs : list (nat * nat)) (t : nat * nat),
  desc (t :: gs) -> L < fst t ->
  cevents (fst (unwind L (map fst gs))) = pops (length (take_ge L gs)) ++ [LiC; LiO] /\
  snd (unwind L (map fst gs)) = L :: map fst (drop_ge L gs).
Proof.
  induction gs as [|e gs IH]; intros t Hd Hlt.
  - cbn. split; reflexivity.
  - cbn [map unwind take_ge drop_ge].
    destruct (Nat.eqb L (fst e)) eqn:Eeq.
    + apply Nat.eqb_eq in Eeq. subst L.
      rewrite Nat.leb_refl.
      destruct (take_ge_below e gs (desc_tail _ _ Hd)) as [Ht Hdr]. rewrite Ht, Hdr.
      cbn. split; reflexivity.
    + apply Nat.eqb_neq in Eeq.
      destruct (Nat.ltb (fst e) L) eqn:Elt.
      * apply Nat.ltb_lt in Elt.
        assert (E : Nat.leb L (fst e) = false) by (apply Nat.leb_gt; exact Elt). rewrite E.
        cbn. split; reflexivity.
      * apply Nat.ltb_ge in Elt.
        assert (E : Nat.leb L (fst e) = true) by (apply Nat.leb_le; exact Elt). rewrite E.
        destruct (IH e (desc_tail _ _ Hd) ltac:(lia)) as [IH1 IH2].
        destruct (unwind L (map fst gs)) as [c stk'] eqn:Eu. cbn [fst snd] in *.
        split; [|exact IH2].
        change (cevents (CUpLt :: c)) with ([LiC; UlC] ++ cevents c). rewrite IH1. reflexivity.
Qed.

Lemma toc_step_abs gs n L : gs <> [] -> desc gs ->
  cevents (fst (toc_step (map fst gs) n L)) = abs_step_events gs n L /\
  snd (toc_step (map fst gs) n L) = map fst (abs_step_stack gs n L).
Proof.
  destruct gs as [|t gs]; [contradiction|]. intros _ Hd.
  unfold abs_step_events, abs_step_stack. cbn [map toc_step take_ge drop_ge].
  destruct (Nat.eqb L (fst t)) eqn:Eeq.
  - apply Nat.eqb_eq in Eeq. subst L. rewrite Nat.leb_refl.
    destruct (take_ge_below t gs Hd) as [Ht Hdr]. rewrite Ht, Hdr. cbn. split; reflexivity.
  - apply Nat.eqb_neq in Eeq.
    destruct (Nat.ltb (fst t) L) eqn:Elt.
    + apply Nat.ltb_lt in Elt.
      assert (E : Nat.leb L (fst t) = false) by (apply Nat.leb_gt; exact Elt). rewrite E.
      cbn. split; reflexivity.
    + apply Nat.ltb_ge in Elt.
      assert (E : Nat.leb L (fst t) = true) by (apply Nat.leb_le; exact Elt). rewrite E.
      destruct (unwind_abs L gs t Hd ltac:(lia)) as [U1 U2].
      destruct (unwind L (map fst gs)) as [c stk'] eqn:Eu. cbn [fst snd] in *.
      split; [|exact U2].
      rewrite cevents_app, U1. cbn. rewrite <- app_assoc. reflexivity.
Qed.

Lemma toc_loop_abs : forall levels gs n, gs <> [] -> desc gs ->
  cevents (fst (toc_loop (map fst gs) n levels)) = fst (abs_loop gs n levels) /\
  snd (toc_loop (map fst gs) n levels) = map fst (snd (abs_loop gs n levels)).
Proof.
  induction levels as [|L ls IH]; intros gs n Hne Hd; cbn [toc_loop abs_loop].
  - split; reflexivity.
  - destruct (toc_step_abs gs n L Hne Hd) as [S1 S2].
    destruct (toc_step (map fst gs) n L) as [c1 stk1] eqn:Es. cbn [fst snd] in *.
    rewrite S2.
    destruct (IH (abs_step_stack gs n L) (S n) ltac:(discriminate) (abs_step_desc gs n L Hd)) as [L1 L2].
    destruct (toc_loop (map fst (abs_step_stack gs n L)) (S n) ls) as [c2 stk2] eqn:El.
    destruct (abs_loop (abs_step_stack gs n L) (S n) ls) as [es gs'] eqn:Ea. cbn [fst snd] in *.
    split; [|exact L2]. rewrite cevents_app, S1, L1. reflexivity.
Qed.

(* ---------- the machine reads the abstract events as the specified tree ---------- *)
Definition frames_of (gs : list (nat * nat)) : list frame := map (fun e => FLi (Some (snd e))) gs.

Lemma mrun_pops a rest log :
  mrun (frames_of (a ++ rest), log) (pops (length a)) = Some (frames_of rest, log).
Proof. induction a as [|e a IH]; cbn; [reflexivity|exact IH]. Qed.

(* chain invariant: the stack is the chain of successive strict minima of the entries so far *)
Inductive chain_inv : list (nat * nat) -> list (nat * nat) -> Prop :=
| ci_nil : chain_inv [] []
| ci_cons a stk oth rest :
    Forall (fun e => fst a <= fst e) oth -> chain_inv stk rest ->
    chain_inv (a :: stk) (a :: oth ++ rest).

Lemma find_app_none {A} (f : A -> bool) l1 l2 :
  Forall (fun x => f x = false) l1 -> List.find f (l1 ++ l2) = List.find f l2.
Proof. induction 1 as [|x l1 Hx _ IH]; cbn; [reflexivity|]. rewrite Hx. exact IH. Qed.

Lemma chain_find L stk pre : chain_inv stk pre ->
  List.find (fun e => Nat.ltb (fst e) L) pre = List.find (fun e => Nat.ltb (fst e) L) stk.
Proof.
  induction 1 as [|a stk oth rest Hoth _ IH]; [reflexivity|]. cbn [List.find].
  destruct (Nat.ltb (fst a) L) eqn:E; [reflexivity|].
  apply Nat.ltb_ge in E. rewrite find_app_none; [exact IH|].
  eapply Forall_impl; [|exact Hoth]. cbn. intros e He. apply Nat.ltb_ge. lia.
Qed.

Lemma find_drop_ge L gs :
  List.find (fun e => Nat.ltb (fst e) L) gs = match drop_ge L gs with [] => None | b :: _ => Some b end.
Proof.
  induction gs as [|e gs IH]; cbn [List.find drop_ge]; [reflexivity|].
  destruct (Nat.leb L (fst e)) eqn:E.
  - apply Nat.leb_le in E. assert (E2 : Nat.ltb (fst e) L = false) by (apply Nat.ltb_ge; exact E).
    rewrite E2. exact IH.
  - apply Nat.leb_gt in E. assert (E2 : Nat.ltb (fst e) L = true) by (apply Nat.ltb_lt; exact E).
    rewrite E2. reflexivity.
Qed.

Lemma chain_step L n : forall stk pre, chain_inv stk pre ->
  chain_inv ((L, n) :: drop_ge L stk) ((L, n) :: pre).
Proof.
  intros stk pre H.
  assert (G : exists oth rest, pre = oth ++ rest /\ Forall (fun e => L <= fst e) oth /\ chain_inv (drop_ge L stk) rest).
  { induction H as [|a stk oth rest Hoth Hc IH].
    - exists [], []. repeat split; constructor.
    - cbn [drop_ge]. destruct (Nat.leb L (fst a)) eqn:E.
      + apply Nat.leb_le in E. destruct IH as (o2 & r2 & -> & Ho2 & Hc2).
        exists (a :: oth ++ o2), r2. repeat split.
        * cbn. rewrite <- app_assoc. reflexivity.
        * constructor; [exact E|]. apply Forall_app. split; [|exact Ho2].
          eapply Forall_impl; [|exact Hoth]. cbn. intros; lia.
        * exact Hc2.
      + exists [], (a :: oth ++ rest). repeat split; [constructor|]. constructor; assumption. }
  destruct G as (oth & rest & -> & Ho & Hc). constructor; assumption.
Qed.

Lemma mrun_step gs pre n L log : chain_inv gs pre ->
  mrun (frames_of gs, log) (abs_step_events gs n L) =
  Some (frames_of (abs_step_stack gs n L), (n, closest_smaller pre L) :: log).
Proof.
  intros Hc. unfold abs_step_events, abs_step_stack, closest_smaller.
  rewrite (chain_find L gs pre Hc), find_drop_ge.
  pose proof (take_drop_ge L gs) as Htd.
  destruct (take_ge L gs) as [|t d] eqn:Et.
  - cbn [app] in Htd. rewrite Htd.
    destruct gs as [|b gs2]; cbn; reflexivity.
  - assert (Hne : t :: d <> []) by discriminate.
    destruct (exists_last Hne) as (d2 & z & Hz).
    assert (Hlen : length d = length d2).
    { apply (f_equal (@length _)) in Hz. rewrite app_length in Hz. cbn in Hz. lia. }
    rewrite Hlen. rewrite <- Htd at 1. rewrite Hz, <- app_assoc. cbn [app].
    rewrite mrun_app, mrun_pops. cbn.
    destruct (drop_ge L gs) as [|b r]; reflexivity.
Qed.

Lemma mrun_loop : forall levels gs pre n log, chain_inv gs pre ->
  mrun (frames_of gs, log) (fst (abs_loop gs n levels)) =
  Some (frames_of (snd (abs_loop gs n levels)), rev (parents_from pre n levels) ++ log).
Proof.
  induction levels as [|L ls IH]; intros gs pre n log Hc; cbn [abs_loop parents_from].
  - reflexivity.
  - specialize (IH (abs_step_stack gs n L) ((L, n) :: pre) (S n) ((n, closest_smaller pre L) :: log)
                   (chain_step L n gs pre Hc)).
    destruct (abs_loop (abs_step_stack gs n L) (S n) ls) as [es gs2] eqn:Ea. cbn [fst snd] in *.
    rewrite mrun_app, (mrun_step gs pre n L log Hc), IH.
    cbn [rev]. rewrite <- app_assoc. reflexivity.
Qed.

Lemma abs_loop_nonempty : forall levels gs n, gs <> [] -> snd (abs_loop gs n levels) <> [].
Proof.
  induction levels as [|L ls IH]; intros gs n H; cbn [abs_loop]; [exact H|].
  specialize (IH (abs_step_stack gs n L) (S n) ltac:(discriminate)).
  destruct (abs_loop (abs_step_stack gs n L) (S n) ls). exact IH.
Qed.

(* the closing loop and the tail close every open frame *)
Lemma toc_close_events : forall stk, stk <> [] ->
  cevents (toc_close stk ++ [CTail]) = pops (length stk).
Proof.
  induction stk as [|a stk IH]; intros Hne; [contradiction|].
  destruct stk as [|b stk2]; [reflexivity|].
  change (toc_close (a :: b :: stk2)) with (CFinal :: toc_close (b :: stk2)).
  cbn [app]. change (cevents (CFinal :: toc_close (b :: stk2) ++ [CTail]))
    with ([LiC; UlC] ++ cevents (toc_close (b :: stk2) ++ [CTail])).
  rewrite IH by discriminate. reflexivity.
Qed.

(* ---------- main theorem ---------- *)
Theorem toc_well_formed : forall levels, levels <> [] ->
  read_tree (cevents (toc_chunks levels)) = Some (toc_parents levels).
Proof.
  intros levels Hne. destruct levels as [|L ls]; [contradiction|].
  unfold toc_chunks, toc_parents. cbn [toc_loop toc_step parents_from].
  set (gs1 := [(L, 0)]).
  assert (Hd : desc gs1) by (cbn; tauto).
  destruct (toc_loop_abs ls gs1 1 ltac:(discriminate) Hd) as [L1 L2].
  change (map fst gs1) with [L] in L1, L2.
  destruct (toc_loop [L] 1 ls) as [c2 stk2] eqn:El. cbn [fst snd] in *.
  assert (Hc1 : chain_inv gs1 [(L, 0)]) by (apply (ci_cons (L, 0) [] [] []); constructor).
  pose proof (mrun_loop ls gs1 [(L, 0)] 1 [(0, None)] Hc1) as Hrun.
  pose proof (abs_loop_nonempty ls gs1 1 ltac:(discriminate)) as Hne2.
  destruct (abs_loop gs1 1 ls) as [es gs2] eqn:Ea. cbn [fst snd] in *.
  unfold read_tree.
  change (cevents (CHead :: ([CFirst; CItem 0] ++ c2) ++ toc_close stk2 ++ [CTail]))
    with ([UlO; LiO; It 0] ++ cevents (c2 ++ toc_close stk2 ++ [CTail])).
  rewrite cevents_app, L1.
  rewrite mrun_app. cbn [mrun mstep app parent_of].
  rewrite mrun_app. change ([FLi (Some 0)]) with (frames_of gs1). rewrite Hrun.
  rewrite toc_close_events by (rewrite L2; destruct gs2; [contradiction|discriminate]).
  rewrite L2, map_length.
  rewrite <- (app_nil_r gs2) at 1. rewrite mrun_pops. cbn [frames_of map].
  rewrite rev_app_distr, rev_involutive. reflexivity.
Qed.

(* entries appear in order, each exactly once *)
Lemma parents_from_fst pre n levels : map fst (parents_from pre n levels) = seq n (length levels).
Proof.
  revert pre n. induction levels as [|L ls IH]; intros pre n; cbn; [reflexivity|]. rewrite IH. reflexivity.
Qed.

Theorem toc_items_in_order levels : map fst (toc_parents levels) = seq 0 (length levels).
Proof. apply parents_from_fst. Qed.

(* the chunk sequence contains the anchors in order, each once *)
Fixpoint chunk_items (cs : list chunk) : list nat :=
  match cs with [] => [] | CItem n :: cs' => n :: chunk_items cs' | _ :: cs' => chunk_items cs' end.

Lemma chunk_items_events cs : chunk_items cs = flat_map (fun e => match e with It n => [n] | _ => [] end) (cevents cs).
Proof.
  induction cs as [|c cs IH]; [reflexivity|].
  change (cevents (c :: cs)) with (chunk_events c ++ cevents cs). rewrite flat_map_app, <- IH.
  destruct c; reflexivity.
Qed.

Lemma mrun_items : forall es st st', mrun st es = Some st' ->
  map fst (rev (snd st')) = map fst (rev (snd st)) ++ flat_map (fun e => match e with It n => [n] | _ => [] end) es.
Proof.
  induction es as [|e es IH]; intros st st' H; cbn in *.
  - inversion H. rewrite app_nil_r. reflexivity.
  - destruct (mstep st e) as [st1|] eqn:E; [|discriminate].
    rewrite (IH _ _ H). destruct st as [fs log]. unfold mstep in E.
    destruct e; destruct fs as [|[|[i|]] r]; inversion E; subst; cbn [snd];
      try (cbn; reflexivity).
    cbn [rev map]. rewrite map_app. cbn. rewrite <- app_assoc. reflexivity.
Qed.

Theorem toc_anchor_order levels : levels <> [] -> chunk_items (toc_chunks levels) = seq 0 (length levels).
Proof.
  intros H. pose proof (toc_well_formed levels H) as Hw. unfold read_tree in Hw.
  destruct (mrun ([], []) (cevents (toc_chunks levels))) as [[fs log]|] eqn:E; [|discriminate].
  destruct fs; [|discriminate]. inversion Hw as [Hlog].
  pose proof (mrun_items _ _ _ E) as Hi. cbn [snd rev map app] in Hi.
  rewrite chunk_items_events, <- Hi, Hlog. apply toc_items_in_order.
Qed.

(* ---------- hook / directive items ---------- *)
Lemma enumerate_fst {A} (l : list A) n : map fst (enumerate_from n l) = seq n (length l).
Proof. revert n. induction l as [|x l IH]; intros n; cbn; [reflexivity|]. rewrite IH. reflexivity. Qed.
Lemma enumerate_snd {A} (l : list A) n : map snd (enumerate_from n l) = l.
Proof. revert n. induction l as [|x l IH]; intros n; cbn; [reflexivity|]. rewrite IH. reflexivity. Qed.

Definition heading_positions (range : option (nat * nat)) (tokens : list (option nat)) : list (nat * option nat) :=
  filter (fun p => match snd p with Some l => in_range range l | None => false end) (enumerate_from 0 tokens).

(* ids are 0,1,2,... in document order: unique, and the k-th eligible heading gets the k-th id *)
Theorem hook_ids_in_order range tokens :
  map snd (hook_items range tokens) = seq 0 (length (heading_positions range tokens)).
Proof.
  unfold hook_items. fold (heading_positions range tokens). rewrite map_map. cbn [snd].
  change (fun x : nat * (nat * option nat) => fst x) with (@fst nat (nat * option nat)).
  apply enumerate_fst.
Qed.

(* the items are exactly the eligible top-level headings, in document order, with their levels *)
Lemma enum_restore : forall (hs : list (nat * option nat)) n,
  Forall (fun p : nat * option nat => exists l, snd p = Some l) hs ->
  map (fun q : nat * (nat * option nat) =>
         (fst (snd q), Some (match snd (snd q) with Some l => l | None => O end)))
      (enumerate_from n hs) = hs.
Proof.
  induction hs as [|p hs IH]; intros n H; cbn; [reflexivity|].
  inversion H as [|? ? [l Hl] H2]; subst. rewrite IH by assumption.
  destruct p as [i o]. cbn in *. subst. reflexivity.
Qed.

Theorem hook_items_exact range tokens :
  map (fun it => (fst (fst it), Some (snd (fst it)))) (hook_items range tokens) = heading_positions range tokens.
Proof.
  unfold hook_items. fold (heading_positions range tokens). rewrite map_map. cbn [fst snd].
  apply enum_restore.
  unfold heading_positions. apply Forall_forall. intros p Hp. apply filter_In in Hp.
  destruct Hp as [_ Hp]. destruct (snd p); [eexists; reflexivity|discriminate].
Qed.

Theorem hook_levels_in_range range tokens :
  Forall (fun it => in_range range (snd (fst it)) = true) (hook_items range tokens).
Proof.
  pose proof (hook_items_exact range tokens) as H.
  apply Forall_forall. intros it Hit.
  assert (Hin : In (fst (fst it), Some (snd (fst it))) (heading_positions range tokens)).
  { rewrite <- H. apply in_map_iff. exists it. split; [reflexivity|assumption]. }
  unfold heading_positions in Hin. apply filter_In in Hin. destruct Hin as [_ Hr]. exact Hr.
Qed.

(* a toc section lists exactly the items in its own range, in order *)
Theorem section_items_spec mn mx items it :
  In it (section_items mn mx items) <-> In it items /\ in_range (Some (mn, mx)) (snd (fst it)) = true.
Proof. unfold section_items. apply filter_In. Qed.

Lemma filter_sublist_order {A} (f : A -> bool) l :
  forall a b l1 l2, filter f l = l1 ++ a :: b :: l2 -> exists m1 m2 m3, l = m1 ++ a :: m2 ++ b :: m3.
Proof.
  induction l as [|x l IH]; intros a b l1 l2 H; cbn in H.
  - destruct l1; discriminate.
  - destruct (f x) eqn:E.
    + destruct l1 as [|y l1].
      * inversion H; subst.
        assert (Hb : In b (filter f l)) by (rewrite H2; left; reflexivity).
        apply filter_In in Hb. destruct Hb as [Hb _]. apply in_split in Hb. destruct Hb as (m2 & m3 & ->).
        exists [], m2, m3. reflexivity.
      * inversion H; subst. destruct (IH _ _ _ _ H2) as (m1 & m2 & m3 & ->).
        exists (y :: m1), m2, m3. reflexivity.
    + destruct (IH _ _ _ _ H) as (m1 & m2 & m3 & ->). exists (x :: m1), m2, m3. reflexivity.
Qed.
