(* BlockLevels.v — every heading in the block token tree of the model has a level between 1 and 6: setext headings
   get 1 or 2; an ATX heading gets the length of capture group 1 of a match of an ATX rule (the rule of the
   specification or one of the list-item scanner's variants), and that group always participates and spans 1..6
   characters (RxGroups, on the regenerated patterns).  The invariant is carried through every handler and loop; the
   facts about the matches handed to the handlers come from the scanners (BlockProofs.mok). *)
From Coq Require Import ZArith List Bool Lia Arith.
From Verif Require Import PyStr Rx RxSpec RxAnalysis RxSub RxSubProofs RxHead RxGroups Scanner Inline InlineProofs Block BlockProofs BlockTyping.
Import ListNotations.
Local Open Scope nat_scope.

Fixpoint lvl_ok (t : btok) : bool :=
  match t with
  | BHeading _ lv _ => Nat.leb 1 lv && Nat.leb lv 6
  | BQuote ch | BListItem ch => forallb lvl_ok ch
  | BList items _ _ _ _ _ => forallb lvl_ok items
  | _ => true
  end.
Definition lvls_ok (l : list btok) : bool := forallb lvl_ok l.
Definition linv (st : bstate) : Prop := lvls_ok (s_tokens st) = true.

Section Levels.
Variable C : bcfg.
Hypothesis OK : bcfg_ok C.
Hypothesis atx_groups : forall r, rule_of C RAtx r -> gb 1 1 6 r = true /\ mcap 1 r = true.

Lemma lvls_app a b : lvls_ok (a ++ b) = lvls_ok a && lvls_ok b.
Proof. apply forallb_app. Qed.
Lemma linv_append st t : linv st -> lvl_ok t = true -> linv (append_token st t).
Proof. unfold linv, append_token. cbn. intros H Ht. rewrite lvls_app, H. cbn. rewrite Ht. reflexivity. Qed.
Lemma linv_set_cursor st c : linv (set_cursor st c) <-> linv st.
Proof. unfold linv. reflexivity. Qed.
Lemma lvls_rev l : lvls_ok (rev l) = lvls_ok l.
Proof. unfold lvls_ok. induction l as [|x l IH]; [reflexivity|]. cbn. rewrite forallb_app, IH. cbn. rewrite andb_true_r, andb_comm. reflexivity. Qed.
Lemma last_par_lvls st before t : last_is_paragraph st = Some (before, t) -> linv st -> lvls_ok before = true.
Proof.
  unfold last_is_paragraph, linv. intros H Hs. destruct (rev (s_tokens st)) as [|x r] eqn:E; [discriminate|].
  destruct x; try discriminate. inversion H; subst. rewrite <- lvls_rev in Hs. rewrite E in Hs. cbn in Hs. rewrite lvls_rev. exact Hs.
Qed.
Lemma linv_replace_last st before t : lvls_ok before = true -> lvl_ok t = true -> linv (set_tokens st (before ++ [t])).
Proof. unfold linv. cbn. intros H Ht. rewrite lvls_app, H. cbn. rewrite Ht. reflexivity. Qed.
Lemma linv_add_paragraph st text : linv st -> linv (add_paragraph st text).
Proof.
  intros H. unfold add_paragraph. destruct (last_is_paragraph st) as [[before t]|] eqn:E.
  - apply linv_replace_last; [eapply last_par_lvls; eassumption|reflexivity].
  - apply linv_append; [exact H|reflexivity].
Qed.
Lemma linv_append_paragraph st st' pos : append_paragraph C st = Some (st', pos) -> linv st -> linv st'.
Proof.
  unfold append_paragraph. destruct (last_is_paragraph st) as [[before t]|] eqn:E; [|discriminate]. intros [= <- _] H.
  apply linv_replace_last; [eapply last_par_lvls; eassumption|reflexivity].
Qed.
Lemma lvls_insert l i t : lvls_ok l = true -> lvl_ok t = true -> lvls_ok (insert_at l i t) = true.
Proof.
  intros H Ht. unfold insert_at. rewrite lvls_app. cbn. rewrite Ht.
  rewrite <- (firstn_skipn i l) in H. rewrite lvls_app in H. apply andb_true_iff in H. destruct H as [H1 H2].
  unfold lvls_ok in *. rewrite H1, H2. reflexivity.
Qed.

(* the ATX level *)
Lemma atx_level m st : mok C RAtx m st -> 1 <= length (Block.group_n (s_src st) m 1) <= 6.
Proof.
  intros (M1 & M2 & M3 & r & z & Hro & W & Hz & Hi & Hm). destruct (atx_groups r Hro) as [Hg Hc].
  destruct (match_sound _ _ _ _ W Hm) as (z' & c' & HM & ->). unfold Block.group_n. cbn [snd].
  pose proof (mcap_sound (b_uni C) 1 r W Hc _ _ _ _ HM) as Hhas. unfold has in Hhas.
  destruct (cap_get c' 1) as [[a b]|] eqn:Ec; [|contradiction].
  pose proof (cap_get_In _ _ _ _ Ec) as Hin.
  destruct (gb_sound (b_uni C) 1 1 6 r W Hg _ _ _ _ HM _ Hin) as [[]|Hs]. specialize (Hs eq_refl). cbn in Hs.
  destruct (caps_within (b_uni C) r W _ _ _ _ HM _ Hin) as [[]|(L1 & L2 & L3)]. cbn in L1, L2, L3.
  unfold Block.mend, cursor_max in M3. cbn in M3.
  unfold slice. rewrite firstn_length, skipn_length. lia.
Qed.

Definition lspec_h (h : bhandler) : Prop := forall rk m st rf st2 rf2 np, mok C rk m st -> h rk m st rf = Ok (st2, rf2, np) -> linv st -> linv st2.

Lemma parse_loop_levels h : lspec_h h -> forall iters rules st rf st2 rf2, parse_loop C h iters rules st rf = Ok (st2, rf2) -> linv st -> linv st2.
Proof.
  intros Hl. induction iters as [|it IH]; intros rules st rf st2 rf2 H Hs; cbn [parse_loop] in H.
  - destruct (Nat.leb _ _); [|discriminate]. inversion H; subst. destruct (Nat.ltb _ _); [apply linv_set_cursor, linv_add_paragraph; exact Hs|exact Hs].
  - destruct (Nat.leb_spec (cursor_max st) (s_cursor st)) as [|Hlt].
    { inversion H; subst. destruct (Nat.ltb _ _); [apply linv_set_cursor, linv_add_paragraph; exact Hs|exact Hs]. }
    destruct (bsearch C rules (s_src st) (s_cursor st)) as [[rk m]|] eqn:Eb.
    2:{ inversion H; subst. destruct (Nat.ltb _ _); [apply linv_set_cursor, linv_add_paragraph; exact Hs|exact Hs]. }
    unfold bind in H.
    set (st1 := if Nat.ltb (s_cursor st) (Block.mstart m) then set_cursor (add_paragraph st (get_text st (Block.mstart m))) (Block.mstart m) else st) in *.
    assert (Hp : s_cursor st <= length (s_src st)) by (unfold cursor_max in *; lia).
    assert (Hst1 : s_src st1 = s_src st /\ s_cursor st1 = Block.mstart m /\ linv st1).
    { destruct (bsearch_spec C OK _ _ _ _ _ Hp Eb (set_cursor st (Block.mstart m)) eq_refl eq_refl) as [L _].
      unfold st1. destruct (Nat.ltb_spec (s_cursor st) (Block.mstart m)); cbn.
      - split; [apply add_paragraph_src|]. split; [reflexivity|]. apply linv_set_cursor, linv_add_paragraph. exact Hs.
      - split; [reflexivity|]. split; [lia|exact Hs]. }
    destruct Hst1 as (S1 & S2 & S3). destruct (bsearch_spec C OK _ _ _ _ _ Hp Eb st1 S1 S2) as [_ Hm].
    destruct (h rk m st1 rf) as [[[sta rfa] np]| |] eqn:Eh; try discriminate.
    pose proof (Hl _ _ _ _ _ _ _ Hm Eh S3) as Hsa.
    destruct (Block.truthy np).
    + apply (IH _ _ _ _ _ H). apply linv_set_cursor. exact Hsa.
    + apply (IH _ _ _ _ _ H). apply linv_set_cursor, linv_add_paragraph. exact Hsa.
Qed.

Lemma parse_child_levels h st text rf ch rf2 : lspec_h h -> parse_child C h st text rf = Ok (ch, rf2) -> lvls_ok ch = true.
Proof.
  intros Hl. unfold parse_child, bind. destruct (parse_loop C h _ _ _ rf) as [[c2 rfx]| |] eqn:E; try discriminate.
  intros [= <- _]. exact (parse_loop_levels h Hl _ _ _ _ _ _ E eq_refl).
Qed.

Lemma quote_lazy_loop_levels h : lspec_h h -> forall iters st rf text pb st2 rf2 t2 e,
  quote_lazy_loop C h iters st rf text pb = Ok (st2, rf2, t2, e) -> linv st -> linv st2.
Proof.
  intros Hl. induction iters as [|it IH]; intros st rf text pb st2 rf2 t2 e H Hs; cbn [quote_lazy_loop] in H.
  - destruct (Nat.leb _ _); [|discriminate]. inversion H; subst. exact Hs.
  - destruct (Nat.leb_spec (cursor_max st) (s_cursor st)) as [|Hlt]; [inversion H; subst; exact Hs|].
    destruct (rmatch C (b_strict_quote C) _ _) as [m3|].
    + apply (IH _ _ _ _ _ _ _ _ H). apply linv_set_cursor. exact Hs.
    + destruct pb; [inversion H; subst; exact Hs|].
      assert (Hp : s_cursor st <= length (s_src st)) by (unfold cursor_max in *; lia).
      destruct (bmatch_rules C (named C QUOTE_BREAKS) (s_src st) (s_cursor st)) as [[rk m4]|] eqn:Eb.
      * destruct (bmatch_rules_spec C _ _ _ _ _ (named_solid C OK _) Hp Eb) as (r & Hin & Hm & A & B & Cc).
        assert (Hmok : mok C rk m4 st).
        { apply (mok_of_bmatch C (named C QUOTE_BREAKS) st rk m4 r (named_solid C OK _) Hp Hin Hm A B Cc). right; left. exact (named_in C _ _ _ Hin). }
        unfold bind in H. destruct (h rk m4 st rf) as [[[sta rfa] np]| |] eqn:Eh; try discriminate.
        pose proof (Hl _ _ _ _ _ _ _ Hmok Eh Hs) as Hsa.
        destruct (Block.truthy np); [inversion H; subst; exact Hsa|].
        apply (IH _ _ _ _ _ _ _ _ H). apply linv_set_cursor. exact Hsa.
      * apply (IH _ _ _ _ _ _ _ _ H). apply linv_set_cursor. exact Hs.
Qed.

Lemma handle_quote_levels h m st rf st2 rf2 np : lspec_h h -> handle_quote C h m st rf = Ok (st2, rf2, np) -> linv st -> linv st2.
Proof.
  intros Hl H Hs. unfold handle_quote, bind in H.
  destruct (extract_block_quote C h m st rf) as [[[[sta rfa] text] e]| |] eqn:Ee; try discriminate.
  assert (Hsa : linv sta).
  { unfold extract_block_quote in Ee. cbv zeta in Ee.
    destruct (match bmatch_rules C _ _ 0 with Some _ => true | None => false end).
    - destruct (rmatch C _ _ _); inversion Ee; subst; apply linv_set_cursor; exact Hs.
    - unfold bind in Ee. destruct (quote_lazy_loop C h _ _ rf _ false) as [[[[stb rfb] tb] eb]| |] eqn:El; try discriminate.
      inversion Ee; subst. apply (quote_lazy_loop_levels h Hl _ _ _ _ _ _ _ _ _ El). apply linv_set_cursor. exact Hs. }
  destruct (parse_child C h sta text rfa) as [[ch rf3]| |] eqn:Ec; try discriminate.
  pose proof (parse_child_levels h _ _ _ _ _ Hl Ec) as Hch.
  destruct (Block.truthy e); inversion H; subst.
  - unfold linv. cbn. apply lvls_insert; [exact Hsa|cbn; exact Hch].
  - apply linv_append; [exact Hsa|cbn; exact Hch].
Qed.

Lemma item_loop_levels h sc cs te : lspec_h h -> rules_solid sc -> (forall rk r, In (rk, r) sc -> rule_of C rk r) ->
  forall iters st rf src pb tight pos st2 rf2 src2 next tight2 brk, pos = s_cursor st ->
  item_loop C h iters sc cs te st rf src pb tight pos = Ok (st2, rf2, src2, next, tight2, brk) -> linv st -> linv st2.
Proof.
  intros Hl Hsol Hro. induction iters as [|it IH]; intros st rf src pb tight pos st2 rf2 src2 next tight2 brk Hpos H Hs; subst pos; cbn [item_loop] in H.
  - destruct (Nat.leb _ _); [|discriminate]. inversion H; subst. exact Hs.
  - destruct (Nat.leb_spec (cursor_max st) (s_cursor st)) as [|Hlt]; [inversion H; subst; exact Hs|].
    destruct (re_match _ _ _ 0 _).
    { apply (IH _ _ _ _ _ _ _ _ _ _ _ _ eq_refl H). apply linv_set_cursor. exact Hs. }
    destruct (prefixb cs _).
    { destruct (_ && _); [inversion H; subst; exact Hs|]. apply (IH _ _ _ _ _ _ _ _ _ _ _ _ eq_refl H). apply linv_set_cursor. exact Hs. }
    assert (Hafter : forall sta rfa, linv sta ->
              (if pb then Ok (sta, rfa, src, None, tight, None)
               else item_loop C h it sc cs te (set_cursor sta (find_line_end C st)) rfa (src ++ expand_leading_tab C (get_text st (find_line_end C st)) 4) pb tight (find_line_end C st))
              = Ok (st2, rf2, src2, next, tight2, brk) -> linv st2).
    { intros sta rfa Hsa Ha. destruct pb; [inversion Ha; subst; exact Hsa|]. apply (IH _ _ _ _ _ _ _ _ _ _ _ _ eq_refl Ha). apply linv_set_cursor. exact Hsa. }
    destruct (bmatch_rules C sc (s_src st) (s_cursor st)) as [[rk m]|] eqn:Eb; [|exact (Hafter st rf Hs H)].
    assert (Hp : s_cursor st <= length (s_src st)) by (unfold cursor_max in *; lia).
    destruct (bmatch_rules_spec C _ _ _ _ _ Hsol Hp Eb) as (r & Hin & Hm & A & B & Cc).
    assert (Hmok : mok C rk m st) by (apply (mok_of_bmatch C sc st rk m r Hsol Hp Hin Hm A B Cc); apply (Hro rk r Hin)).
    assert (Hother : (do (sta, rfa, np) <- h rk m st rf;
                      match Block.truthy np with
                      | Some p => Ok (sta, rfa, src, None, tight, Some (length (s_tokens st), p))
                      | None => (if pb then Ok (sta, rfa, src, None, tight, None)
                                 else item_loop C h it sc cs te (set_cursor sta (find_line_end C st)) rfa (src ++ expand_leading_tab C (get_text st (find_line_end C st)) 4) pb tight (find_line_end C st))
                      end) = Ok (st2, rf2, src2, next, tight2, brk) -> linv st2).
    { unfold bind. destruct (h rk m st rf) as [[[sta rfa] np]| |] eqn:Eh; try discriminate.
      pose proof (Hl _ _ _ _ _ _ _ Hmok Eh Hs) as Hsa. destruct (Block.truthy np); [intros Ha; inversion Ha; subst; exact Hsa|exact (Hafter sta rfa Hsa)]. }
    destruct rk; try exact (Hother H).
    + inversion H; subst. exact Hs.
    + inversion H; subst. apply linv_set_cursor. exact Hs.
Qed.

Lemma items_loop_levels h bullet : lspec_h h -> forall iters groups st rf items tight st2 rf2 items2 tight2 brk,
  items_loop C h iters bullet groups st rf items tight = Ok (st2, rf2, items2, tight2, brk) ->
  linv st -> lvls_ok items = true -> linv st2 /\ lvls_ok items2 = true.
Proof.
  intros Hl. induction iters as [|it IH]; intros [[spaces marker] text0] st rf items tight st2 rf2 items2 tight2 brk H Hs Hi; cbn [items_loop] in H; [discriminate|].
  destruct (compile_continue_width C text0 _) as [text cw]. unfold bind in H.
  destruct (sc_props C OK bullet (Nat.min (length spaces + length marker) 3)) as [Hsol Hro]. cbv zeta in Hsol, Hro.
  destruct (item_loop C h _ _ _ _ st rf [] false tight (s_cursor st)) as [[[[[[sta rfa] src] next] tighta] brka]| |] eqn:Ei; try discriminate.
  pose proof (item_loop_levels h _ _ _ Hl Hsol Hro _ _ _ _ _ _ _ _ _ _ _ _ _ eq_refl Ei Hs) as Hsa.
  destruct (parse_child C h sta _ rfa) as [[ch rf3]| |] eqn:Ec; try discriminate.
  pose proof (parse_child_levels h _ _ _ _ _ Hl Ec) as Hch.
  assert (Hi2 : lvls_ok (items ++ [BListItem ch]) = true).
  { rewrite lvls_app, Hi. cbn. unfold lvls_ok in Hch. rewrite Hch. reflexivity. }
  destruct next as [g|].
  - exact (IH _ _ _ _ _ _ _ _ _ _ H Hsa Hi2).
  - inversion H; subst. split; assumption.
Qed.

Lemma tighten_lvl_n : forall n t, (bsize t <= n) -> lvl_ok t = true -> lvl_ok (tighten t) = true.
Proof.
  induction n as [|n IH]; intros t Hn; [destruct t; cbn in Hn; lia|].
  destruct t as [| | | | | |ch|items tight b d o s|ch|]; try (intros H; exact H).
  destruct tight; [|intros H; exact H]. cbn [tighten lvl_ok]. intros H.
  rewrite forallb_forall in H. apply forallb_forall. intros it Hin. apply in_map_iff in Hin. destruct Hin as (it0 & <- & Hin0).
  specialize (H it0 Hin0). pose proof (in_size _ _ Hin0) as Sz0. cbn [bsize] in Hn.
  destruct it0 as [| | | | | |?|? ? ? ? ? ?|ch0|]; try exact H.
  cbn [lvl_ok] in *. rewrite forallb_forall in H. apply forallb_forall. intros tk Hin. apply in_map_iff in Hin. destruct Hin as (tk0 & <- & Hin1).
  specialize (H tk0 Hin1). pose proof (in_size _ _ Hin1) as Sz1. cbn [bsize] in Sz0.
  destruct tk0; try exact H; try reflexivity.
  apply IH; [lia|exact H].
Qed.

Lemma handle_list_levels h m st rf st2 rf2 np : lspec_h h -> handle_list C h m st rf = Ok (st2, rf2, np) -> linv st -> linv st2.
Proof.
  intros Hl H Hs. unfold handle_list in H. cbv zeta in H.
  destruct (if _ || _ then append_paragraph C st else None) as [[st' pos]|] eqn:Ea.
  - inversion H; subst. destruct (_ || _); [|discriminate]. exact (linv_append_paragraph _ _ _ Ea Hs).
  - unfold bind in H.
    destruct (items_loop C h _ _ _ (set_cursor st _) rf [] true) as [[[[[sta rfa] items] tight] brk]| |] eqn:El; try discriminate.
    destruct (items_loop_levels h _ Hl _ _ _ _ _ _ _ _ _ _ _ El (proj2 (linv_set_cursor st _) Hs) eq_refl) as [Hsa Hit].
    assert (Hlist : forall tg b d o s, lvl_ok (tighten (BList items tg b d o s)) = true).
    { intros. apply (tighten_lvl_n (bsize (BList items tg b d o s))); [lia|cbn; exact Hit]. }
    destruct brk as [[idx e]|]; inversion H; subst.
    + unfold linv. cbn. apply lvls_insert; [exact Hsa|apply Hlist].
    + apply linv_append; [exact Hsa|apply Hlist].
Qed.

Lemma handle_with_levels h : lspec_h h -> lspec_h (handle_with C h).
Proof.
  intros Hl rk m st rf st2 rf2 np Hm H Hs. unfold handle_with in H. destruct rk.
  - inversion H as [Hf]. unfold handle_fenced in Hf. cbv zeta in Hf.
    destruct (_ && memc 96%Z _); [inversion Hf; subst; exact Hs|].
    destruct (rsearch C _ _ _); inversion Hf; subst; apply linv_append; auto.
  - destruct (append_paragraph C st) as [[st' pos]|] eqn:Ea; inversion H; subst; [exact (linv_append_paragraph _ _ _ Ea Hs)|apply linv_append; auto].
  - (* atx *) inversion H; subst. apply linv_append; [exact Hs|]. cbn [lvl_ok]. pose proof (atx_level m st Hm) as [L1 L2].
    apply andb_true_iff. split; apply Nat.leb_le; assumption.
  - destruct (last_is_paragraph st) as [[before t]|] eqn:El.
    + inversion H; subst. apply linv_replace_last; [eapply last_par_lvls; eassumption|]. cbn. destruct (str_eqb _ _); reflexivity.
    + set (sub := if Nat.leb (b_max_nested C) (s_depth st) then [RThematic] else [RThematic; RList]) in *.
      destruct (bmatch_rules C (named C sub) (s_src st) (s_cursor st)) as [[rk2 m2]|] eqn:Eb; [|inversion H; subst; exact Hs].
      pose proof Hm as (M1 & M2 & M3 & _). assert (Hp : s_cursor st <= length (s_src st)) by (unfold cursor_max in *; lia).
      destruct (bmatch_rules_spec C _ _ _ _ _ (named_solid C OK _) Hp Eb) as (r & Hin & Hmm & A & B & Cc).
      assert (Hmok : mok C rk2 m2 st).
      { apply (mok_of_bmatch C (named C sub) st rk2 m2 r (named_solid C OK _) Hp Hin Hmm A B Cc). right; left. exact (named_in C _ _ _ Hin). }
      exact (Hl _ _ _ _ _ _ _ Hmok H Hs).
  - inversion H; subst. apply linv_append; auto.
  - exact (handle_quote_levels h _ _ _ _ _ _ Hl H Hs).
  - exact (handle_list_levels h _ _ _ _ _ _ Hl H Hs).
  - unfold handle_ref_link in H. destruct (append_paragraph C st) as [[st' pos]|] eqn:Ea; [inversion H; subst; exact (linv_append_paragraph _ _ _ Ea Hs)|].
    assert (Hst : st2 = st).
    { destruct (b_unikey C _); [inversion H; reflexivity|]. destruct (parse_link_href_block C _ _) as [[? ?]|]; [|inversion H; reflexivity]. cbv zeta in H.
      repeat match type of H with
             | context [match ?x with Some _ => _ | None => _ end] => destruct x
             | context [let (_, _) := ?x in _] => destruct x
             | context [if ?b then _ else _] => destruct b
             | context [match ?x with 0 => _ | S _ => _ end] => destruct x
             end; try discriminate; inversion H; reflexivity. }
    subst. exact Hs.
  - inversion H as [Hh]. clear H. revert Hh. unfold handle_html. cbv zeta.
    assert (He : forall em sp, linv (fst (html_to_end C st em sp))).
    { intros em sp. unfold html_to_end. destruct (find _ _ _); cbn; apply linv_append; auto. }
    assert (Hn : linv (fst (html_to_newline C st))).
    { unfold html_to_newline. destruct (rsearch C _ _ _); cbn; apply linv_append; auto. }
    repeat match goal with |- context [if ?b then _ else _] => destruct b end;
      try (intros Hh; inversion Hh; subst; first [apply He|exact Hn]).
    all: destruct (append_paragraph C st) as [[st' pos]|] eqn:Ea; [intros Hh; inversion Hh; subst; exact (linv_append_paragraph _ _ _ Ea Hs)|].
    all: repeat match goal with |- context [if ?b then _ else _] => destruct b end; intros Hh; inversion Hh; subst; first [exact Hn|exact Hs].
  - inversion H; subst. apply linv_append; auto.
  - inversion H as [Hh]. clear H. revert Hh. unfold handle_html. cbv zeta.
    assert (He : forall em sp, linv (fst (html_to_end C st em sp))).
    { intros em sp. unfold html_to_end. destruct (find _ _ _); cbn; apply linv_append; auto. }
    assert (Hn : linv (fst (html_to_newline C st))).
    { unfold html_to_newline. destruct (rsearch C _ _ _); cbn; apply linv_append; auto. }
    repeat match goal with |- context [if ?b then _ else _] => destruct b end;
      try (intros Hh; inversion Hh; subst; first [apply He|exact Hn]).
    all: destruct (append_paragraph C st) as [[st' pos]|] eqn:Ea; [intros Hh; inversion Hh; subst; exact (linv_append_paragraph _ _ _ Ea Hs)|].
    all: repeat match goal with |- context [if ?b then _ else _] => destruct b end; intros Hh; inversion Hh; subst; first [exact Hn|exact Hs].
  - discriminate.
Qed.

Lemma bhandle_levels : forall fuel, lspec_h (bhandle C fuel).
Proof. induction fuel as [|f IH]; cbn [bhandle]; [intros rk m st rf st2 rf2 np _ H; discriminate|apply handle_with_levels; exact IH]. Qed.

(* every heading of every document has a level between 1 and 6 *)
Theorem block_parse_levels s toks rf : block_parse C s = Ok (toks, rf) -> lvls_ok toks = true.
Proof.
  unfold block_parse, bind. destruct (parse_loop C _ _ _ _ []) as [[st2 rf2]| |] eqn:E; try discriminate.
  intros [= <- _]. exact (parse_loop_levels _ (bhandle_levels _) _ _ _ _ _ _ E eq_refl).
Qed.
End Levels.
