(* InlineProofs.v — the inline parser model terminates and always moves forward:
   (1) positions: every match used by the model starts where it was asked to and ends at or after it;
   (2) progress: whatever position a handler returns is at or beyond the end of the match that triggered it;
   (3) the scanner loop never runs out of iterations; the nesting fuel 2*length+2 always suffices.
   Hence inline_parse never answers Fuel: for every text, every flag setting and every reference table the model
   of InlineParser.parse terminates (C01, inline part). *)
From Coq Require Import ZArith List Bool Lia Arith.
From Verif Require Import PyStr Rx RxSpec RxAnalysis RxSub Scanner Inline.
Import ListNotations.
Local Open Scope nat_scope.

Section Positions.
Variable U : uni.

Lemma zip_at_idx s pos e : pos <= Nat.min e (length s) -> z_idx (zip_at s pos e) = pos.
Proof. intros H. unfold zip_at. cbn. lia. Qed.

Lemma match_at_pos r z m : wf r = true -> match_at U r z = Some m ->
  fst (fst m) = z_idx z /\ z_idx z <= snd (fst m) /\ (nullable r = false -> z_idx z < snd (fst m)).
Proof.
  intros W H. destruct (match_sound U r z m W H) as (z' & c' & HM & ->). cbn.
  pose proof (M_idx_le U r _ _ _ _ HM) as L. repeat split; [exact L|]. intros Hn.
  destruct (Nat.eq_dec (z_idx z') (z_idx z)) as [E|E]; [|lia].
  rewrite (nullable_sound U r _ _ _ _ HM E) in Hn. discriminate.
Qed.

Lemma re_match_pos r s pos e m : wf r = true -> re_match U r s pos e = Some m ->
  fst (fst m) = pos /\ pos <= snd (fst m) /\ (nullable r = false -> pos < snd (fst m)).
Proof.
  intros W H. unfold re_match in H. destruct (Nat.ltb_spec (Nat.min e (length s)) pos) as [|Hle]; [discriminate|].
  pose proof (match_at_pos r _ m W H) as P. rewrite (zip_at_idx s pos e Hle) in P. exact P.
Qed.

Lemma search_from_pos r : wf r = true -> forall fuel z m, search_from U r fuel z = Some m ->
  z_idx z <= fst (fst m) /\ fst (fst m) <= snd (fst m) /\ (nullable r = false -> fst (fst m) < snd (fst m)).
Proof.
  intros W. induction fuel as [|f IH]; intros z m H; cbn [search_from] in H.
  - destruct (match_at U r z) as [x|] eqn:E; [|discriminate]. inversion H; subst x.
    destruct (match_at_pos r z m W E) as (A & B & Cn). rewrite A. repeat split; auto.
  - destruct (match_at U r z) as [x|] eqn:E.
    + inversion H; subst x. destruct (match_at_pos r z m W E) as (A & B & Cn). rewrite A. repeat split; auto.
    + destruct (zstep z) as [[ch z']|] eqn:Es; [|discriminate]. apply IH in H.
      destruct (zstep_adv _ _ _ Es) as (_ & _ & Hi). cbn in Hi. destruct H as (H1 & H2 & H3). repeat split; [lia|exact H2|exact H3].
Qed.

Lemma re_search_pos r s pos e m : wf r = true -> re_search U r s pos e = Some m ->
  pos <= fst (fst m) /\ fst (fst m) <= snd (fst m) /\ (nullable r = false -> fst (fst m) < snd (fst m)).
Proof.
  intros W H. unfold re_search in H. destruct (Nat.ltb_spec (Nat.min e (length s)) pos) as [|Hle]; [discriminate|].
  apply (search_from_pos r W) in H. rewrite (zip_at_idx s pos e Hle) in H. exact H.
Qed.
End Positions.

Section Progress.
Variable C : icfg.
Let U := c_uni C.

Definition solid (r : rx) : bool := wf r && negb (nullable r).

(* what the theorems need from the configuration; evaluated on the regenerated instance in Props/C01.v *)
Record cfg_ok : Prop := {
  ok_spec : forall r, solid (c_spec C r) = true;
  ok_square : solid (c_square C) = true;
  ok_label : solid (c_label C) = true;
  ok_bstart : solid (c_bracket_start C) = true;
  ok_bracket : wf (c_bracket C) = true;
  ok_href : solid (c_href_inline C) = true;
  ok_title : wf (c_title C) = true;
  ok_paren : wf (c_paren_end C) = true;
  ok_emph : forall mk er, c_emph_end C mk = Some er -> wf er = true;
  ok_ext : forall i name er, c_ext C i = Some (XToEnd name er) -> wf er = true
}.

Hypothesis OK : cfg_ok.

Lemma solid_wf r : solid r = true -> wf r = true.
Proof. unfold solid. intros H. apply andb_true_iff in H. tauto. Qed.
Lemma solid_nn r : solid r = true -> nullable r = false.
Proof. unfold solid. intros H. apply andb_true_iff in H. destruct H as [_ H]. apply negb_true_iff in H. exact H. Qed.

Lemma iscan_at_pos rules z rk m : iscan_at C rules z = Some (rk, m) ->
  fst (fst m) = z_idx z /\ z_idx z < snd (fst m).
Proof.
  induction rules as [|r rs IH]; cbn; [discriminate|]. destruct (match_at (c_uni C) (c_spec C r) z) as [x|] eqn:E.
  - intros [= <- <-]. pose proof (ok_spec OK r) as S.
    destruct (match_at_pos (c_uni C) _ z x (solid_wf _ S) E) as (A & _ & Cn). split; [exact A|apply Cn; apply solid_nn; exact S].
  - exact IH.
Qed.

Lemma iscan_from_pos rules : forall fuel z rk m, iscan_from C rules fuel z = Some (rk, m) ->
  z_idx z <= fst (fst m) /\ fst (fst m) < snd (fst m).
Proof.
  induction fuel as [|f IH]; intros z rk m H; cbn [iscan_from] in H.
  - destruct (iscan_at C rules z) as [[rk' m']|] eqn:E; [|discriminate]. inversion H; subst.
    destruct (iscan_at_pos _ _ _ _ E) as [A B]. lia.
  - destruct (iscan_at C rules z) as [[rk' m']|] eqn:E.
    + inversion H; subst. destruct (iscan_at_pos _ _ _ _ E) as [A B]. lia.
    + destruct (zstep z) as [[ch z']|] eqn:Es; [|discriminate]. apply IH in H.
      destruct (zstep_adv _ _ _ Es) as (_ & _ & Hi). cbn in Hi. lia.
Qed.

Lemma isearch_pos rules s pos e rk m : isearch C rules s pos e = Some (rk, m) -> pos <= mstart m /\ mstart m < mend m.
Proof.
  unfold isearch. destruct (Nat.ltb_spec (Nat.min e (length s)) pos) as [|Hle]; [discriminate|]. intros H.
  apply iscan_from_pos in H. rewrite (zip_at_idx s pos e Hle) in H. exact H.
Qed.

(* ---- helpers ---- *)
Lemma parse_link_label_pos src pos l e : parse_link_label C src pos = Some (l, e) -> pos < e /\ length l <= length src - pos.
Proof.
  unfold parse_link_label. destruct (re_match (c_uni C) (c_label C) src pos (length src)) as [m|] eqn:E; [|discriminate].
  intros [= <- <-]. pose proof (ok_label OK) as S.
  destruct (re_match_pos _ _ _ _ _ _ (solid_wf _ S) E) as (A & B & Cn). specialize (Cn (solid_nn _ S)).
  split; [exact Cn|]. rewrite firstn_length. unfold group0, slice, mstart, mend. rewrite A.
  rewrite firstn_length, skipn_length. lia.
Qed.

Lemma link_text_loop_pos : forall fuel src pos level p, link_text_loop C fuel src pos level = Ok (Some p) -> pos < p.
Proof.
  induction fuel as [|f IH]; intros src pos level p H; cbn [link_text_loop] in H; [discriminate|].
  destruct (Nat.leb (length src) pos); [discriminate|].
  destruct (re_search (c_uni C) (c_square C) src pos (length src)) as [m|] eqn:E; [|discriminate].
  pose proof (ok_square OK) as S. destruct (re_search_pos _ _ _ _ _ _ (solid_wf _ S) E) as (A & B & Cn). specialize (Cn (solid_nn _ S)).
  assert (Hm : pos < mend m) by (unfold mend; lia).
  destruct (str_eqb (group0 src m) [93%Z]).
  - destruct (Nat.eqb level 1); [inversion H; subst; exact Hm|]. apply IH in H. lia.
  - apply IH in H. lia.
Qed.

Lemma link_text_loop_fuel : forall fuel src pos level, length src - pos < fuel -> link_text_loop C fuel src pos level <> Fuel.
Proof.
  induction fuel as [|f IH]; intros src pos level Hf; [lia|]. cbn [link_text_loop].
  destruct (Nat.leb_spec (length src) pos); [discriminate|].
  destruct (re_search (c_uni C) (c_square C) src pos (length src)) as [m|] eqn:E; [|discriminate].
  pose proof (ok_square OK) as S. destruct (re_search_pos _ _ _ _ _ _ (solid_wf _ S) E) as (A & B & Cn). specialize (Cn (solid_nn _ S)).
  assert (Hm : pos < mend m) by (unfold mend; lia).
  destruct (str_eqb (group0 src m) [93%Z]).
  - destruct (Nat.eqb level 1); [discriminate|]. apply IH. lia.
  - apply IH. lia.
Qed.

Lemma parse_link_text_pos src pos t e : parse_link_text C src pos = Ok (Some (t, e)) -> pos < e /\ length t <= length src - pos.
Proof.
  unfold parse_link_text, bind. destruct (link_text_loop C (S (length src)) src pos 1) as [[p|]| |] eqn:E; try discriminate.
  intros [= <- <-]. split; [eapply link_text_loop_pos; exact E|]. unfold slice. rewrite firstn_length, skipn_length. lia.
Qed.

Lemma parse_link_text_fuel src pos : parse_link_text C src pos <> Fuel.
Proof.
  unfold parse_link_text, bind. pose proof (link_text_loop_fuel (S (length src)) src pos 1 ltac:(lia)) as H.
  destruct (link_text_loop C (S (length src)) src pos 1) as [[p|]| |]; try discriminate. contradiction.
Qed.

Lemma parse_link_href_pos src sp h e : parse_link_href C src sp = Some (h, e) -> sp <= e.
Proof.
  unfold parse_link_href. destruct (re_match (c_uni C) (c_bracket_start C) src sp (length src)) as [m|] eqn:E.
  - pose proof (ok_bstart OK) as S. destruct (re_match_pos _ _ _ _ _ _ (solid_wf _ S) E) as (A & B & Cn). specialize (Cn (solid_nn _ S)).
    destruct (re_match (c_uni C) (c_bracket C) src (mend m - 1) (length src)) as [m2|] eqn:E2; [|discriminate].
    destruct (group_n src m2 1); [|discriminate]. intros [= <- <-].
    destruct (re_match_pos _ _ _ _ _ _ (ok_bracket OK) E2) as (A2 & B2 & _). unfold mend in *. lia.
  - destruct (re_match (c_uni C) (c_href_inline C) src sp (length src)) as [m|] eqn:E2; [|discriminate].
    destruct (group_n src m 1); [|discriminate]. intros [= <- <-].
    pose proof (ok_href OK) as S. destruct (re_match_pos _ _ _ _ _ _ (solid_wf _ S) E2) as (A & B & Cn). specialize (Cn (solid_nn _ S)).
    unfold mend. lia.
Qed.

Lemma parse_link_title_pos src sp mx t e : parse_link_title C src sp mx = Some (t, e) -> sp <= e.
Proof.
  unfold parse_link_title. destruct (re_match (c_uni C) (c_title C) src sp mx) as [m|] eqn:E; [|discriminate].
  destruct (group_n src m 1); [|discriminate]. intros [= <- <-].
  destruct (re_match_pos _ _ _ _ _ _ (ok_title OK) E) as (A & B & _). exact B.
Qed.

Lemma parse_link_dest_pos src sp url title e : parse_link_dest C src sp = Ok (Some (url, title, e)) -> sp <= e.
Proof.
  unfold parse_link_dest. destruct (parse_link_href C src sp) as [[href hp]|] eqn:Eh; [|discriminate].
  apply parse_link_href_pos in Eh.
  set (t := parse_link_title C src hp (length src)).
  assert (Hn : hp <= match t with Some (_, tp) => if Nat.eqb tp 0 then hp else tp | None => hp end).
  { destruct t as [[ti tp]|] eqn:Et; [|lia]. apply parse_link_title_pos in Et. destruct (Nat.eqb tp 0); lia. }
  destruct (re_match (c_uni C) (c_paren_end C) src _ (length src)) as [m|] eqn:Ep; [|discriminate].
  destruct (c_escape_url C (unescape_char C href)); [|discriminate]. intros [= _ _ <-].
  destruct (re_match_pos _ _ _ _ _ _ (ok_paren OK) Ep) as (A & B & _). unfold mend. lia.
Qed.

(* ---- progress of the handlers ---- *)
Definition progresses (h : handler) : Prop :=
  forall rk m src fl np toks fl', h rk m src fl = Ok (np, toks, fl') -> forall p, truthy np = Some p -> mend m <= p.

Lemma truthy_some n : truthy (Some n) = Some n \/ (n = 0 /\ truthy (Some n) = None).
Proof. destruct n; cbn; auto. Qed.

Lemma truthy_le np p : truthy np = Some p -> np = Some p.
Proof. destruct np as [[|n]|]; cbn; intros H; try discriminate; exact H. Qed.

Lemma wf_lits_rx marker tail : wf tail = true -> wf (fold_right (fun ch r => RSeq (RLit ch) r) tail marker) = true.
Proof. intros H. induction marker as [|c mk IH]; cbn; [exact H|exact IH]. Qed.

Lemma wf_codespan_rx marker : wf (codespan_rx marker) = true.
Proof. unfold codespan_rx. cbn [wf andb nocap]. rewrite (wf_lits_rx marker REps eq_refl). reflexivity. Qed.

Lemma precedence_scan_pos h m src fl end_pos rules p toks :
  precedence_scan C h m src fl end_pos rules = Ok (Some (p, toks)) -> end_pos <= p.
Proof.
  unfold precedence_scan. destruct (isearch C rules src (mend m) end_pos) as [[rk m1]|]; [|discriminate].
  destruct (re_match (c_uni C) (c_spec C (real_rule rk)) src (mstart m1) (length src)) as [m2|]; [|discriminate].
  unfold bind. destruct (h (real_rule rk) m2 src fl) as [[[np tk] fl2]| |]; try discriminate.
  destruct (truthy np) as [q|]; [|discriminate]. destruct (Nat.ltb_spec q end_pos); [discriminate|].
  intros [= <- _]. assumption.
Qed.

Ltac inv_ok H := first [discriminate H | inversion H; subst; clear H].

Lemma link_by_ref_pos h img text fl lab ep p toks r : link_by_ref C h img text fl lab ep = Ok (Some p, toks, r) -> p = ep.
Proof.
  unfold link_by_ref. intros Hb. destruct lab as [l0|]; [|inv_ok Hb].
  destruct (c_refs C); [inv_ok Hb|]. destruct (assoc_ref _ _) as [[u t]|]; [|inv_ok Hb].
  unfold bind in Hb. destruct (link_token C h img text u t true _ fl); inv_ok Hb. reflexivity.
Qed.

Lemma link_after_pos h src fl img lab text e p toks r : link_after C h src fl img lab text e = Ok (Some p, toks, r) -> e <= p.
Proof.
  unfold link_after. cbv zeta.
  assert (Hby : forall lb ep, link_by_ref C h img text fl lb ep = Ok (Some p, toks, r) -> p = ep) by (intros lb ep; apply link_by_ref_pos).
  destruct (nth_error src e) as [c|]; [|intros H; apply Hby in H; lia].
  destruct (c =? 40)%Z.
  - unfold bind. destruct (parse_link_dest C src (S e)) as [[[[u t'] p2]|]| |] eqn:Ed; try discriminate; try (intros H; apply Hby in H; lia).
    apply parse_link_dest_pos in Ed. destruct (Nat.eqb p2 0); [intros H; apply Hby in H; lia|].
    destruct (link_token C h img text u t' _ None fl); intros H; inv_ok H. lia.
  - destruct (c =? 91)%Z; [|intros H; apply Hby in H; lia].
    destruct (parse_link_label C src (S e)) as [[l2 p2]|] eqn:E2; [|intros H; apply Hby in H; lia].
    destruct (parse_link_label_pos _ _ _ _ E2) as [L2 _].
    destruct (Nat.eqb p2 0); intros H; apply Hby in H; lia.
Qed.

Lemma link_body_pos h m src fl img lab text e p toks r : link_body C h m src fl img lab text e = Ok (Some p, toks, r) -> e <= p.
Proof.
  unfold link_body. destruct (_ && _); [discriminate|]. unfold bind.
  destruct (precedence_scan C h m src fl e _) as [[[q tk]|]| |] eqn:Ep; try discriminate.
  - intros H; inv_ok H. apply precedence_scan_pos in Ep. exact Ep.
  - apply link_after_pos.
Qed.

Lemma handle_with_progress h : progresses (handle_with C h).
Proof.
  intros rk m src fl np toks fl' H p Hp. apply truthy_le in Hp. subst np.
  unfold handle_with in H. destruct rk.
  - (* escape *) inv_ok H. lia.
  - (* codespan *)
    destruct (re_match (c_uni C) (codespan_rx (group0 src m)) src (mend m) (length src)) as [m2|] eqn:E.
    + destruct (group_n src m2 1); inv_ok H.
      destruct (re_match_pos _ _ _ _ _ _ (wf_codespan_rx _) E) as (_ & B & _). exact B.
    + inv_ok H. lia.
  - (* emphasis *)
    destruct ((Nat.eqb (length (group0 src m)) 1 && in_emphasis fl) || (Nat.eqb (length (group0 src m)) 2 && in_strong fl)); [inv_ok H; lia|].
    destruct (c_emph_end C (group0 src m)) as [er|] eqn:Ee; [|discriminate].
    destruct (re_search (c_uni C) er src (mend m) (length src)) as [m1|] eqn:Es; [|inv_ok H; lia].
    destruct (re_search_pos _ _ _ _ _ _ (ok_emph OK _ _ Ee) Es) as (A & B & _).
    assert (Hend : mend m <= mend m1) by (unfold mend in *; lia).
    unfold bind in H.
    destruct (precedence_scan C h m src fl (mend m1) _) as [[[q tk]|]| |] eqn:Ep; try discriminate.
    + inv_ok H. apply precedence_scan_pos in Ep. lia.
    + destruct (Nat.eqb (length (group0 src m)) 1); [|destruct (Nat.eqb (length (group0 src m)) 2)];
        match type of H with context [irender ?a ?b ?c ?d] => destruct (irender a b c d) end; inv_ok H; exact Hend.
  - (* link *)
    destruct ((prefixb [33%Z] (group0 src m) && in_image fl) || (negb (prefixb [33%Z] (group0 src m)) && in_link fl)); [inv_ok H; lia|].
    destruct (parse_link_label C src (mend m)) as [[l e]|] eqn:El.
    + destruct (parse_link_label_pos _ _ _ _ El) as [Le _]. apply link_body_pos in H. lia.
    + unfold bind in H. destruct (parse_link_text C src (mend m)) as [[[t e]|]| |] eqn:Et; try discriminate.
      destruct (parse_link_text_pos _ _ _ _ Et) as [Le _]. apply link_body_pos in H. lia.
  - (* auto_link *) destruct (in_link fl); [inv_ok H; lia|]. destruct (c_escape_url C _); inv_ok H. lia.
  - (* auto_email *) destruct (in_link fl); [inv_ok H; lia|]. destruct (c_escape_url C _); inv_ok H. lia.
  - (* inline_html *) inv_ok H. lia.
  - inv_ok H. lia.
  - inv_ok H. lia.
  - (* prec_auto_link *) destruct (in_link fl); [inv_ok H; lia|]. destruct (c_escape_url C _); inv_ok H. lia.
  - inv_ok H. lia.
  - (* plugin rule *)
    destruct (c_ext C i) as [[name er|name|]|] eqn:Ex; [| | |discriminate].
    + destruct (re_search (c_uni C) er src (mend m) (length src)) as [m1|] eqn:Es; [|inv_ok H].
      destruct (re_search_pos _ _ _ _ _ _ (ok_ext OK _ _ _ Ex) Es) as (A & B & _). unfold bind in H.
      destruct (irender C h _ fl); inv_ok H. unfold mend in *. lia.
    + unfold bind in H. destruct (irender C h _ fl); inv_ok H. lia.
    + destruct (in_link fl); [inv_ok H; lia|]. destruct (c_escape_url C _); inv_ok H. lia.
Qed.

(* ---- no loop of the model runs out of fuel ---- *)
Lemma iscan_at_in rules z rk m : iscan_at C rules z = Some (rk, m) -> In rk rules.
Proof.
  induction rules as [|r rs IH]; cbn; [discriminate|]. destruct (match_at (c_uni C) (c_spec C r) z).
  - intros [= <- _]. left. reflexivity.
  - intros H. right. apply IH. exact H.
Qed.

Lemma iscan_from_in rules : forall fuel z rk m, iscan_from C rules fuel z = Some (rk, m) -> In rk rules.
Proof.
  induction fuel as [|f IH]; intros z rk m H; cbn [iscan_from] in H; destruct (iscan_at C rules z) as [[rk' m']|] eqn:E.
  - inversion H; subst. eapply iscan_at_in; exact E.
  - discriminate.
  - inversion H; subst. eapply iscan_at_in; exact E.
  - destruct (zstep z) as [[ch z']|]; [|discriminate]. eapply IH; exact H.
Qed.

Lemma isearch_in rules s pos e rk m : isearch C rules s pos e = Some (rk, m) -> In rk rules.
Proof. unfold isearch. destruct (Nat.ltb _ _); [discriminate|]. apply iscan_from_in. Qed.

Definition nofuel_on (h : handler) (src : str) : Prop :=
  forall rk m fl, mstart m < mend m -> h rk m src fl <> Fuel.

Lemma parse_loop_nofuel h src : progresses h -> nofuel_on h src ->
  forall iters pos fl acc, length src - pos < iters -> parse_loop C h iters src pos fl acc <> Fuel.
Proof.
  intros Hp Hn. induction iters as [|it IH]; intros pos fl acc Hi; [lia|]. cbn [parse_loop].
  destruct (Nat.leb_spec (length src) pos).
  - destruct (Nat.eqb pos 0); [discriminate|]. destruct (Nat.ltb pos (length src)); discriminate.
  - destruct (isearch C (c_rules C) src pos (length src)) as [[rk m]|] eqn:Es.
    + destruct (isearch_pos _ _ _ _ _ _ Es) as [L1 L2]. unfold bind.
      pose proof (Hn rk m fl L2) as Hf. destruct (h rk m src fl) as [[[np toks] fl']| |] eqn:Eh; [|discriminate|contradiction].
      destruct (truthy np) as [p|] eqn:Et.
      * pose proof (Hp _ _ _ _ _ _ _ Eh p Et) as Lp. apply IH. lia.
      * apply IH. lia.
    + destruct (Nat.eqb pos 0); [discriminate|]. destruct (Nat.ltb pos (length src)); discriminate.
Qed.

Lemma irender_nofuel h text fl : progresses h -> nofuel_on h text -> irender C h text fl <> Fuel.
Proof. intros Hp Hn. unfold irender. apply parse_loop_nofuel; auto. lia. Qed.

Lemma precedence_scan_nofuel h m src fl e rules :
  (forall rk, In rk rules -> forall m2 fl', mstart m2 < mend m2 -> h (real_rule rk) m2 src fl' <> Fuel) ->
  precedence_scan C h m src fl e rules <> Fuel.
Proof.
  intros Hh. unfold precedence_scan. destruct (isearch C rules src (mend m) e) as [[rk m1]|] eqn:Es; [|discriminate].
  apply isearch_in in Es.
  destruct (re_match (c_uni C) (c_spec C (real_rule rk)) src (mstart m1) (length src)) as [m2|] eqn:Em; [|discriminate].
  pose proof (ok_spec OK (real_rule rk)) as S. destruct (re_match_pos _ _ _ _ _ _ (solid_wf _ S) Em) as (A & _ & Cn).
  specialize (Cn (solid_nn _ S)). assert (L : mstart m2 < mend m2) by (unfold mstart, mend; lia).
  unfold bind. pose proof (Hh rk Es m2 fl L) as Hf. destruct (h (real_rule rk) m2 src fl) as [[[np tk] fl2]| |]; [|discriminate|contradiction].
  destruct (truthy np); [|discriminate]. destruct (Nat.ltb _ _); discriminate.
Qed.

Lemma link_token_nofuel h img text url title tk ref fl : (forall fl', irender C h text fl' <> Fuel) -> link_token C h img text url title tk ref fl <> Fuel.
Proof.
  unfold link_token, bind. intros H.
  match goal with |- context [irender ?a ?b ?c ?d] => pose proof (H d) as Hx; destruct (irender a b c d) end; [discriminate|discriminate|contradiction].
Qed.

Lemma link_by_ref_nofuel h img text fl lab ep : (forall fl', irender C h text fl' <> Fuel) -> link_by_ref C h img text fl lab ep <> Fuel.
Proof.
  intros Hr. unfold link_by_ref. destruct lab; [|discriminate]. destruct (c_refs C); [discriminate|].
  destruct (assoc_ref _ _) as [[u t]|]; [|discriminate]. unfold bind.
  pose proof (link_token_nofuel h img text u t true (Some (c_unikey C s, s)) fl Hr) as Hl.
  destruct (link_token C h img text u t true _ fl); [discriminate|discriminate|contradiction].
Qed.

Lemma link_after_nofuel h src fl img lab text e : (forall fl', irender C h text fl' <> Fuel) -> link_after C h src fl img lab text e <> Fuel.
Proof.
  intros Hir. unfold link_after. cbv zeta.
  assert (Hby : forall l ep, link_by_ref C h img text fl l ep <> Fuel) by (intros; apply link_by_ref_nofuel; exact Hir).
  destruct (nth_error src e) as [c|]; [|apply Hby].
  destruct (c =? 40)%Z.
  - unfold bind. destruct (parse_link_dest C src (S e)) as [[[[u t] p2]|]| |] eqn:Ed; [| apply Hby | discriminate |].
    + destruct (Nat.eqb p2 0); [apply Hby|].
      pose proof (link_token_nofuel h img text u t (match t with Some _ => true | None => false end) None fl Hir) as Hl.
      destruct (link_token C h img text u t _ None fl); [discriminate|discriminate|contradiction].
    + exfalso. unfold parse_link_dest in Ed. destruct (parse_link_href C src (S e)) as [[hh hp]|]; [|discriminate].
      destruct (re_match _ _ _ _ _); [|discriminate]. destruct (c_escape_url C _); discriminate.
  - destruct (c =? 91)%Z; [|apply Hby]. destruct (parse_link_label C src (S e)) as [[l2 p2]|]; [|apply Hby].
    destruct (Nat.eqb p2 0); apply Hby.
Qed.

Definition deps (rk : irule) : list irule :=
  match rk with
  | IEmphasis => [ICodespan; ILink; IAutoLink; IInlineHtml]
  | ILink => [ICodespan; IAutoLink; IInlineHtml]
  | _ => []
  end.

Lemma slice_len (s : str) a b : length (slice s a b) <= length s - a.
Proof. unfold slice. rewrite firstn_length, skipn_length. lia. Qed.

Lemma irender_nil0 h fl : irender C h [] fl = Ok [TText []].
Proof. reflexivity. Qed.

Lemma slice_len0 (s : str) a b : length (slice s a b) <= length s - a.
Proof. unfold slice. rewrite firstn_length, skipn_length. lia. Qed.

Lemma replace_bs_len : forall s skip, length (replace_aux [92; 32]%Z [32%Z] skip s) <= length s.
Proof.
  induction s as [|c s IH]; intros skip; [cbn; lia|]. cbn [replace_aux]. destruct skip as [|k]; [|specialize (IH k); cbn; lia].
  destruct (prefixb [92; 32]%Z (c :: s)); cbn [app length]; [specialize (IH 1)|specialize (IH 0)]; cbn in *; lia.
Qed.

Lemma handle_with_nofuel h rk m src fl : mstart m < mend m ->
  (forall text fl', length text < length src -> irender C h text fl' <> Fuel) ->
  (forall rule, In rule (deps rk) -> forall m2 fl', mstart m2 < mend m2 -> h rule m2 src fl' <> Fuel) ->
  handle_with C h rk m src fl <> Fuel.
Proof.
  intros Lm Hr0 Hd. assert (Lp : 1 <= mend m) by lia.
  assert (Hr : forall text fl', length text <= length src - mend m -> irender C h text fl' <> Fuel).
  { intros text fl' Ht. destruct text as [|c0 t0]; [rewrite irender_nil0; discriminate|]. apply Hr0. cbn [length] in *. lia. }
  unfold handle_with. destruct rk; try discriminate.
  - (* codespan *) destruct (re_match _ _ _ _ _); [destruct (group_n _ _ _)|]; discriminate.
  - (* emphasis *)
    destruct (_ || _); [discriminate|]. destruct (c_emph_end C _) as [er|] eqn:Ee; [|discriminate].
    destruct (re_search (c_uni C) er src (mend m) (length src)) as [m1|] eqn:Es; [|discriminate].
    destruct (re_search_pos _ _ _ _ _ _ (ok_emph OK _ _ Ee) Es) as (A & B & _).
    unfold bind.
    assert (Hps : precedence_scan C h m src fl (mend m1) [ICodespan; ILink; IPrecAutoLink; IPrecInlineHtml] <> Fuel).
    { apply precedence_scan_nofuel. intros rk Hin. apply Hd. cbn [deps]. cbn in Hin.
      destruct Hin as [<-|[<-|[<-|[<-|[]]]]]; cbn; tauto. }
    destruct (precedence_scan C h m src fl (mend m1) _) as [[[q tk]|]| |]; [discriminate| |discriminate|contradiction].
    assert (Ht : forall fl', irender C h (slice src (mend m) (mend m1 - length (group0 src m))) fl' <> Fuel).
    { intros fl'. apply Hr. apply slice_len. }
    destruct (Nat.eqb _ 1); [|destruct (Nat.eqb _ 2)];
      match goal with |- context [irender ?a ?b ?c ?d] => pose proof (Ht d) as Hx; destruct (irender a b c d) end;
      first [discriminate|contradiction].
  - (* link *)
    destruct (_ || _); [discriminate|].
    assert (Hbody : forall lab text e, length text <= length src - mend m -> link_body C h m src fl (prefixb [33%Z] (group0 src m)) lab text e <> Fuel).
    { intros lab text e Ht.
      assert (Hir : forall fl', irender C h text fl' <> Fuel) by (intros fl'; apply Hr; exact Ht).
      unfold link_body. destruct (_ && _); [discriminate|]. unfold bind.
      assert (Hps : precedence_scan C h m src fl e [ICodespan; IPrecAutoLink; IPrecInlineHtml] <> Fuel).
      { apply precedence_scan_nofuel. intros rk Hin. apply Hd. cbn [deps]. cbn in Hin.
        destruct Hin as [<-|[<-|[<-|[]]]]; cbn; tauto. }
      destruct (precedence_scan C h m src fl e _) as [[[q tk]|]| |]; [discriminate| |discriminate|contradiction].
      apply link_after_nofuel. exact Hir. }
    destruct (parse_link_label C src (mend m)) as [[l e]|] eqn:El.
    + destruct (parse_link_label_pos _ _ _ _ El) as [_ Ll]. apply Hbody. exact Ll.
    + unfold bind. pose proof (parse_link_text_fuel src (mend m)) as Hf.
      destruct (parse_link_text C src (mend m)) as [[[t e]|]| |] eqn:Et; [|discriminate|discriminate|contradiction].
      destruct (parse_link_text_pos _ _ _ _ Et) as [_ Lt]. apply Hbody. exact Lt.
  - (* auto_link *) destruct (in_link fl); [discriminate|]. destruct (c_escape_url C _); discriminate.
  - destruct (in_link fl); [discriminate|]. destruct (c_escape_url C _); discriminate.
  - destruct (in_link fl); [discriminate|]. destruct (c_escape_url C _); discriminate.
  - (* plugin rule *)
    destruct (c_ext C i) as [[name er|name|]|] eqn:Ex; [| | |discriminate].
    + destruct (re_search (c_uni C) er src (mend m) (length src)) as [m1|] eqn:Es; [|discriminate]. unfold bind.
      pose proof (Hr (slice src (mend m) (mend m1 - 2)) fl (slice_len0 src (mend m) (mend m1 - 2))) as Hx.
      destruct (irender C h _ fl); [discriminate|discriminate|contradiction].
    + unfold bind.
      assert (Hx : irender C h (replace [92; 32]%Z [32%Z] (slice (group0 src m) 1 (length (group0 src m) - 1))) fl <> Fuel).
      { set (mk := group0 src m). set (tx := replace [92; 32]%Z [32%Z] (slice mk 1 (length mk - 1))).
        destruct tx as [|c0 t0] eqn:Et; [rewrite irender_nil0; discriminate|]. apply Hr0.
        assert (L1 : length tx <= length (slice mk 1 (length mk - 1))) by (unfold tx, replace; apply replace_bs_len).
        assert (L2 : length (slice mk 1 (length mk - 1)) <= length mk - 1) by (pose proof (slice_len0 mk 1 (length mk - 1)); lia).
        assert (L3 : length mk <= length src) by (unfold mk, group0; pose proof (slice_len0 src (mstart m) (mend m)); lia).
        rewrite Et in L1. cbn [length] in *. lia. }
      destruct (irender C h _ fl); [discriminate|discriminate|contradiction].
    + destruct (in_link fl); [discriminate|]. destruct (c_escape_url C _); discriminate.
Qed.

Lemma handle_progresses fuel : progresses (handle C fuel).
Proof.
  destruct fuel as [|f]; cbn [handle].
  - intros rk m src fl np toks fl' H. discriminate.
  - apply handle_with_progress.
Qed.

Definition is_leaf (rk : irule) : bool := match rk with IEmphasis | ILink | IExt _ => false | _ => true end.

Lemma leaf_nofuel h rk m src fl : is_leaf rk = true -> handle_with C h rk m src fl <> Fuel.
Proof.
  intros N1. unfold handle_with. destruct rk; try discriminate N1; try discriminate.
  - destruct (re_match _ _ _ _ _); [destruct (group_n _ _ _)|]; discriminate.
  - destruct (in_link fl); [discriminate|]. destruct (c_escape_url C _); discriminate.
  - destruct (in_link fl); [discriminate|]. destruct (c_escape_url C _); discriminate.
  - destruct (in_link fl); [discriminate|]. destruct (c_escape_url C _); discriminate.
Qed.

Lemma irender_nil h fl : irender C h [] fl = Ok [TText []].
Proof. reflexivity. Qed.

(* fuel 2*L+3 is enough for every text of length at most L *)
Theorem handle_nofuel : forall L fuel src, length src <= L -> 2 * L + 3 <= fuel -> nofuel_on (handle C fuel) src.
Proof.
  induction L as [|L' IH]; intros fuel src Hlen Hfuel rk m fl Lm.
  - (* empty text: nothing shorter exists *)
    destruct fuel as [|f]; [lia|]. cbn [handle].
    assert (Hleaf : forall g rule m2 fl', 1 <= g -> is_leaf rule = true -> handle C g rule m2 src fl' <> Fuel).
    { intros g rule m2 fl' Hg N1. destruct g; [lia|]. cbn [handle]. apply leaf_nofuel; assumption. }
    assert (Hlink : forall g m2 fl', 1 <= g -> mstart m2 < mend m2 -> handle C (S g) ILink m2 src fl' <> Fuel).
    { intros g m2 fl' Hg L2. cbn [handle]. apply handle_with_nofuel; [exact L2| |].
      - intros text fl2 Ht. lia.
      - intros rule Hin m3 fl3 L3. apply Hleaf; [exact Hg|]; cbn in Hin; destruct Hin as [<-|[<-|[<-|[]]]]; reflexivity. }
    apply handle_with_nofuel; [exact Lm|intros text fl' Ht; lia|].
    intros rule Hin m2 fl2 L2. destruct rk; cbn in Hin; try contradiction.
    + destruct Hin as [<-|[<-|[<-|[<-|[]]]]]; try (apply Hleaf; [lia|reflexivity]).
      destruct f as [|g]; [lia|]. apply Hlink; [lia|exact L2].
    + destruct Hin as [<-|[<-|[<-|[]]]]; apply Hleaf; try lia; reflexivity.
  - assert (Htext : forall g text fl', 2 * L' + 3 <= g -> length text < length src -> irender C (handle C g) text fl' <> Fuel).
    { intros g text fl' Hg Ht. apply irender_nofuel; [apply handle_progresses|]. apply (IH g text); [lia|exact Hg]. }
    destruct fuel as [|f]; [lia|]. cbn [handle].
    assert (Hleaf : forall g rule m2 fl', 1 <= g -> is_leaf rule = true -> handle C g rule m2 src fl' <> Fuel).
    { intros g rule m2 fl' Hg N1. destruct g; [lia|]. cbn [handle]. apply leaf_nofuel; assumption. }
    assert (Hlink : forall g m2 fl', 2 * L' + 3 <= g -> mstart m2 < mend m2 -> handle C (S g) ILink m2 src fl' <> Fuel).
    { intros g m2 fl' Hg L2. cbn [handle]. apply handle_with_nofuel; [exact L2| |].
      - intros text fl2 Ht. apply Htext; assumption.
      - intros rule Hin m3 fl3 L3. apply Hleaf; [lia|]; cbn in Hin; destruct Hin as [<-|[<-|[<-|[]]]]; reflexivity. }
    apply handle_with_nofuel; [exact Lm| |].
    + intros text fl' Ht. apply Htext; [lia|exact Ht].
    + intros rule Hin m2 fl2 L2. destruct rk; cbn in Hin; try contradiction.
      * destruct Hin as [<-|[<-|[<-|[<-|[]]]]]; try (apply Hleaf; [lia|reflexivity]).
        destruct f as [|g]; [lia|]. apply Hlink; [lia|exact L2].
      * destruct Hin as [<-|[<-|[<-|[]]]]; apply Hleaf; try lia; reflexivity.
Qed.

(* the model of InlineParser.__call__ terminates: for every text, flag setting and reference table *)
Theorem inline_parse_terminates s : inline_parse C s <> Fuel.
Proof.
  unfold inline_parse. apply irender_nofuel; [apply handle_progresses|].
  apply (handle_nofuel (length s)); lia.
Qed.

(* and every step of its scanner loop moves forward (the cursor is strictly monotone): restated for the loop body *)
Theorem inline_step_advances fuel rk m src fl np toks fl' p :
  handle C fuel rk m src fl = Ok (np, toks, fl') -> truthy np = Some p -> mend m <= p.
Proof. intros H Hp. exact (handle_progresses fuel _ _ _ _ _ _ _ H p Hp). Qed.
End Progress.
