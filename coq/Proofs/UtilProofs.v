(* Proofs about the util model (C18; reused by C02, C11, C12). *)
From Coq Require Import ZArith List Bool Lia.
From Verif Require Import PyStr Util.
Import ListNotations.
Open Scope Z_scope.

(* ================================================================ escape *)

Lemma replace_single_gen c w s :
  replace [c] w s = flat_map (fun x => if x =? c then w else [x]) s.
Proof.
  unfold replace. induction s as [|x s IH]; cbn [replace_aux flat_map]; [reflexivity|].
  cbn [prefixb length]. rewrite andb_true_r. simpl Nat.sub. rewrite (Z.eqb_sym c x).
  destruct (x =? c) eqn:E; cbn [app]; rewrite IH; reflexivity.
Qed.

(* a chain of single-character replacements *)
Fixpoint run_chain (l : list (Z * str)) (s : str) : str :=
  match l with
  | [] => s
  | (c, w) :: l' => run_chain l' (replace [c] w s)
  end.

Definition subst (l : list (Z * str)) (x : Z) : str :=
  match assoc_z x l with Some w => w | None => [x] end.

Definition is_key (l : list (Z * str)) (x : Z) : bool :=
  match assoc_z x l with Some _ => true | None => false end.

(* later sources are distinct from earlier ones and do not occur in earlier replacements *)
Fixpoint chain_ok (l : list (Z * str)) : bool :=
  match l with
  | [] => true
  | (c, w) :: l' =>
    forallb (fun p : Z * str => negb (fst p =? c) && negb (memc (fst p) w)) l' && chain_ok l'
  end.

Lemma memc_In c l : memc c l = true <-> In c l.
Proof.
  induction l as [|x l IH]; cbn; [split; [discriminate|tauto]|].
  rewrite orb_true_iff, IH, Z.eqb_eq. split; intros [H|H]; auto.
Qed.

Lemma memc_false_notIn c l : memc c l = false <-> ~ In c l.
Proof. rewrite <- memc_In. destruct (memc c l); split; congruence. Qed.

Lemma assoc_z_none_of_forallb (l : list (Z * str)) (P : Z * str -> bool) y :
  forallb P l = true -> (forall p, P p = true -> fst p <> y) -> assoc_z y l = None.
Proof.
  induction l as [|[k v] l IH]; cbn; intros H HP; [reflexivity|].
  apply andb_true_iff in H. destruct H as [H1 H2].
  destruct (y =? k) eqn:E.
  - apply Z.eqb_eq in E. exfalso. apply (HP _ H1). cbn. congruence.
  - apply IH; assumption.
Qed.

Lemma flat_map_flat_map {A B C} (f : A -> list B) (g : B -> list C) l :
  flat_map g (flat_map f l) = flat_map (fun x => flat_map g (f x)) l.
Proof.
  induction l as [|x l IH]; cbn; [reflexivity|]. rewrite flat_map_app, IH. reflexivity.
Qed.

Lemma flat_map_id_on (g : Z -> str) w :
  (forall y, In y w -> g y = [y]) -> flat_map g w = w.
Proof.
  induction w as [|y w IH]; cbn; intros H; [reflexivity|].
  rewrite H by (left; reflexivity). cbn. rewrite IH; [reflexivity|]. intros; apply H; right; assumption.
Qed.

Theorem chain_spec l : chain_ok l = true -> forall s, run_chain l s = flat_map (subst l) s.
Proof.
  induction l as [|[c w] l IH]; cbn [chain_ok run_chain]; intros Hok s.
  - unfold subst. cbn. induction s; cbn; congruence.
  - apply andb_true_iff in Hok. destruct Hok as [Hf Hok].
    rewrite IH by assumption. rewrite replace_single_gen, flat_map_flat_map.
    apply flat_map_ext. intros x. unfold subst at 2. cbn [assoc_z].
    destruct (x =? c) eqn:E.
    + apply flat_map_id_on. intros y Hy. unfold subst.
      rewrite (assoc_z_none_of_forallb l _ y Hf); [reflexivity|].
      intros p Hp Heq. apply andb_true_iff in Hp. destruct Hp as [_ Hp].
      apply negb_true_iff in Hp. apply memc_false_notIn in Hp. subst. contradiction.
    + cbn. rewrite app_nil_r. reflexivity.
Qed.

(* the active single-character ops of an escape chain *)
Fixpoint active (ops : list esc_op) (quote : bool) : option (list (Z * str)) :=
  match ops with
  | [] => Some []
  | (old, new, q) :: ops' =>
    match active ops' quote with
    | None => None
    | Some l =>
      if q && negb quote then Some l
      else match old with [c] => Some ((c, new) :: l) | _ => None end
    end
  end.

Lemma run_escape_chain ops quote : forall l s,
  active ops quote = Some l -> run_escape ops quote s = run_chain l s.
Proof.
  unfold run_escape. induction ops as [|[[old new] q] ops IH]; cbn [active fold_left]; intros l s H.
  - inversion H. reflexivity.
  - destruct (active ops quote) as [l'|] eqn:Ea; [|discriminate].
    destruct (q && negb quote) eqn:Eq.
    + inversion H; subst. apply IH. reflexivity.
    + destruct old as [|c [|? ?]]; try discriminate. inversion H; subst.
      cbn [run_chain]. apply IH. reflexivity.
Qed.

Theorem escape_spec ops quote l s :
  active ops quote = Some l -> chain_ok l = true ->
  run_escape ops quote s = flat_map (subst l) s.
Proof. intros Ha Hc. rewrite (run_escape_chain _ _ l s Ha). apply chain_spec. assumption. Qed.

(* --- no raw special characters in the output --- *)
Definition no_bad_ok (l : list (Z * str)) (bad : list Z) : bool :=
  forallb (fun p : Z * str => forallb (fun y => negb (memc y bad)) (snd p)) l &&
  forallb (is_key l) bad.

Lemma assoc_z_In (l : list (Z * str)) x w : assoc_z x l = Some w -> In (x, w) l.
Proof.
  induction l as [|[k v] l IH]; cbn; [discriminate|].
  destruct (x =? k) eqn:E; intros H.
  - apply Z.eqb_eq in E. inversion H; subst. left; reflexivity.
  - right. apply IH. assumption.
Qed.

Theorem subst_no_bad l bad s :
  no_bad_ok l bad = true -> Forall (fun c => ~ In c bad) (flat_map (subst l) s).
Proof.
  unfold no_bad_ok. intros H. apply andb_true_iff in H. destruct H as [Hw Hk].
  rewrite forallb_forall in Hw, Hk.
  induction s as [|x s IH]; cbn; [constructor|].
  apply Forall_app. split; [|exact IH].
  unfold subst. destruct (assoc_z x l) as [w|] eqn:E.
  - apply assoc_z_In in E. specialize (Hw _ E). cbn in Hw. rewrite forallb_forall in Hw.
    apply Forall_forall. intros y Hy. specialize (Hw y Hy).
    apply negb_true_iff in Hw. apply memc_false_notIn. assumption.
  - constructor; [|constructor]. intros Hin. specialize (Hk x Hin). unfold is_key in Hk.
    rewrite E in Hk. discriminate.
Qed.

(* ================================================================ unescape *)

Lemma span_name_semicolon name rest :
  forallb name_char name = true -> span name_char (name ++ 59 :: rest) = (name, 59 :: rest).
Proof.
  induction name as [|c name IH]; cbn [forallb app span]; intros H.
  - reflexivity.
  - apply andb_true_iff in H. destruct H as [Hc H]. rewrite Hc, IH by assumption. reflexivity.
Qed.

Lemma unescape_aux_skip T b a rest :
  unescape_aux T b (length a) (a ++ rest) = unescape_aux T b 0 rest.
Proof. induction a as [|x a IH]; cbn; [reflexivity|exact IH]. Qed.

(* a replacement that html.unescape reads back as the single character c, in any context *)
Definition entity_ok (T : tables) (c : Z) (w : str) : bool :=
  match w with
  | a :: g =>
    (a =? 38) &&
    match rev g with
    | z :: rname =>
      let name := rev rname in
      (z =? 59) && forallb name_char name && negb (Nat.eqb (length name) 0) && Nat.leb (length name) 32 &&
      match name with n0 :: _ => negb (n0 =? 35) | [] => false end &&
      str_eqb (replace_charref T g) [c]
    | [] => false
    end
  | [] => false
  end.

Definition roundtrip_ok (T : tables) (l : list (Z * str)) : bool :=
  forallb (fun p : Z * str => entity_ok T (fst p) (snd p)) l && is_key l 38.

Lemma str_eqb_eq a b : str_eqb a b = true -> a = b.
Proof.
  revert b. induction a as [|x a IH]; destruct b as [|y b]; cbn; try discriminate; [reflexivity|].
  intros H. apply andb_true_iff in H. destruct H as [H1 H2]. apply Z.eqb_eq in H1. f_equal; auto.
Qed.

Lemma unescape_entity T c w rest :
  entity_ok T c w = true ->
  unescape_aux T false 0 (w ++ rest) = c :: unescape_aux T false 0 rest.
Proof.
  unfold entity_ok. destruct w as [|a g]; [discriminate|].
  intros H. apply andb_true_iff in H. destruct H as [Ha H]. apply Z.eqb_eq in Ha. subst a.
  destruct (rev g) as [|z rname] eqn:Er; [discriminate|].
  assert (Hg : g = rev rname ++ [z]).
  { rewrite <- (rev_involutive g), Er. reflexivity. }
  set (name := rev rname) in *.
  repeat (apply andb_true_iff in H; destruct H as [H ?]).
  match goal with Hz : (z =? 59) = true |- _ => apply Z.eqb_eq in Hz; subst z end.
  match goal with Hs : str_eqb _ _ = true |- _ => apply str_eqb_eq in Hs; rename Hs into Hrep end.
  match goal with Hn : forallb name_char name = true |- _ => rename Hn into Hname end.
  match goal with Hn : Nat.leb (length name) 32 = true |- _ => rename Hn into Hlen end.
  destruct name as [|n0 name'] eqn:En; [discriminate|].
  match goal with Hn : negb (n0 =? 35) = true |- _ => apply negb_true_iff in Hn; rename Hn into Hn0 end.
  subst g. cbn [app unescape_aux]. change (38 =? 38) with true. cbn iota.
  assert (Hm : match_charref false (((n0 :: name') ++ [59]) ++ rest) = Some ((n0 :: name') ++ [59])).
  { cbn [app match_charref]. rewrite Hn0. unfold match_named.
    replace (n0 :: (name' ++ [59]) ++ rest) with ((n0 :: name') ++ 59 :: rest)
      by (cbn; rewrite <- app_assoc; reflexivity).
    rewrite span_name_semicolon by assumption.
    rewrite Hlen. unfold semi_opt. cbn [starts_semicolon]. change (59 =? 59) with true. reflexivity. }
  cbn [app] in Hm, Hrep |- *. rewrite Hm. rewrite Hrep. cbn [app].
  f_equal.
  change (n0 :: (name' ++ [59]) ++ rest) with ((n0 :: name' ++ [59]) ++ rest).
  apply unescape_aux_skip.
Qed.

Theorem unescape_subst T l s :
  roundtrip_ok T l = true -> html_unescape T (flat_map (subst l) s) = s.
Proof.
  unfold roundtrip_ok, html_unescape. intros H. apply andb_true_iff in H. destruct H as [He Hamp].
  rewrite forallb_forall in He.
  induction s as [|x s IH]; cbn [flat_map]; [reflexivity|].
  unfold subst at 1. destruct (assoc_z x l) as [w|] eqn:E.
  - apply assoc_z_In in E. specialize (He _ E). cbn in He.
    rewrite (unescape_entity T x w _ He). rewrite IH. reflexivity.
  - cbn [app unescape_aux]. destruct (x =? 38) eqn:Ex.
    + apply Z.eqb_eq in Ex. subst x. unfold is_key in Hamp. rewrite E in Hamp. discriminate.
    + rewrite IH. reflexivity.
Qed.

(* ================================================================ quote / escape_url *)
From Coq Require Import ZifyBool.
Ltac Zify.zify_post_hook ::= Z.to_euclidean_division_equations.

(* characters that may appear in quote's output *)
Definition out_ok (safe : str) (c : Z) : bool :=
  (0 <=? c) && (c <? 128) && (always_safe c || memc c safe || (c =? 37)).
(* characters quote keeps as they are *)
Definition keep_ok (safe : str) (c : Z) : bool :=
  (0 <=? c) && (c <? 128) && (always_safe c || memc c safe).

Lemma Some_inj_str (a b : list Z) : Some a = Some b -> a = b.
Proof. congruence. Qed.

Lemma utf8_bytes c bs : utf8 c = Some bs -> Forall (fun b => 0 <= b < 256) bs.
Proof.
  unfold utf8.
  destruct (c <? 0) eqn:E0; [discriminate|].
  destruct (c <? 128) eqn:E1;
    [intros H; apply Some_inj_str in H; rewrite <- H; repeat (apply Forall_cons; [lia|]); apply Forall_nil|].
  destruct (c <? 2048) eqn:E2;
    [intros H; apply Some_inj_str in H; rewrite <- H; repeat (apply Forall_cons; [lia|]); apply Forall_nil|].
  destruct (c <? 65536) eqn:E3.
  - destruct ((55296 <=? c) && (c <=? 57343)); [discriminate|].
    intros H; apply Some_inj_str in H; rewrite <- H; repeat (apply Forall_cons; [lia|]); apply Forall_nil.
  - destruct (c <? 1114112) eqn:E4; [|discriminate].
    intros H; apply Some_inj_str in H; rewrite <- H; repeat (apply Forall_cons; [lia|]); apply Forall_nil.
Qed.

Lemma hexdig_ok n : 0 <= n < 16 -> always_safe (hexdig n) = true /\ 0 <= hexdig n < 128.
Proof.
  intros H. unfold hexdig, always_safe, is_alnum_ascii, is_digit.
  destruct (n <? 10) eqn:E; split; lia.
Qed.

Lemma pct_ok safe b : 0 <= b < 256 -> Forall (fun c => out_ok safe c = true) (pct b).
Proof.
  intros H. unfold pct.
  assert (H1 : 0 <= b / 16 < 16) by lia. assert (H2 : 0 <= b mod 16 < 16) by lia.
  destruct (hexdig_ok _ H1) as [A1 B1]. destruct (hexdig_ok _ H2) as [A2 B2].
  repeat constructor; unfold out_ok.
  - change (37 =? 37) with true. rewrite orb_true_r. reflexivity.
  - rewrite A1. cbn [orb]. lia.
  - rewrite A2. cbn [orb]. lia.
Qed.

Lemma quote_char_out safe c a : quote_char safe c = Some a -> Forall (fun x => out_ok safe x = true) a.
Proof.
  unfold quote_char. destruct (utf8 c) as [bs|] eqn:Eu; [|discriminate].
  destruct ((c <? 128) && (always_safe c || memc c safe)) eqn:Ek.
  - intros H; inversion H; subst. constructor; [|constructor]. unfold out_ok.
    assert (0 <= c). { unfold utf8 in Eu. destruct (c <? 0) eqn:E0; [discriminate|lia]. }
    apply andb_true_iff in Ek. destruct Ek as [K1 K2]. rewrite K1, K2. cbn [orb andb]. lia.
  - intros H; inversion H; subst. pose proof (utf8_bytes _ _ Eu) as Hb.
    clear Eu H. induction Hb as [|b bs Hb _ IH]; cbn [flat_map]; [constructor|].
    apply Forall_app. split; [apply pct_ok; assumption|exact IH].
Qed.

Theorem quote_out_ok safe : forall s t, quote safe s = Some t -> Forall (fun c => out_ok safe c = true) t.
Proof.
  induction s as [|c s IH]; cbn [quote]; intros t H.
  - inversion H; constructor.
  - destruct (quote_char safe c) as [a|] eqn:Ec; [|discriminate].
    destruct (quote safe s) as [b|] eqn:Es; [|discriminate].
    inversion H; subst. apply Forall_app. split; [eapply quote_char_out; eassumption|apply IH; reflexivity].
Qed.

Theorem quote_id safe : forall t, Forall (fun c => keep_ok safe c = true) t -> quote safe t = Some t.
Proof.
  induction 1 as [|c t Hc _ IH]; cbn [quote]; [reflexivity|].
  rewrite IH. unfold quote_char, keep_ok in *.
  apply andb_true_iff in Hc. destruct Hc as [Hc1 Hc2]. apply andb_true_iff in Hc1. destruct Hc1 as [Hc0 Hc1].
  assert (Hu : utf8 c = Some [c]).
  { unfold utf8. destruct (c <? 0) eqn:E0; [lia|]. rewrite Hc1. reflexivity. }
  rewrite Hu, Hc1, Hc2. reflexivity.
Qed.

(* '%' in the safe set: the output alphabet is the kept alphabet, so quote is idempotent
   and percent-encoded octets are left alone *)
Lemma out_keep safe c : memc 37 safe = true -> out_ok safe c = true -> keep_ok safe c = true.
Proof.
  unfold out_ok, keep_ok. intros Hp H.
  apply andb_true_iff in H. destruct H as [H1 H2]. rewrite H1. cbn [andb].
  apply orb_true_iff in H2. destruct H2 as [H2|H2]; [exact H2|].
  apply Z.eqb_eq in H2. subst c. rewrite Hp. apply orb_true_r.
Qed.

Theorem quote_idempotent safe s t :
  memc 37 safe = true -> quote safe s = Some t -> quote safe t = Some t.
Proof.
  intros Hp H. apply quote_id. eapply Forall_impl; [|eapply quote_out_ok; eassumption].
  intros c. apply out_keep. assumption.
Qed.

(* the safe set contains only printable ASCII other than double quote, less-than,
   greater-than and space *)
Definition safe_set_ok (safe : str) : bool :=
  forallb (fun c => (32 <? c) && (c <? 127) && negb (memc c [34; 60; 62])) safe && memc 37 safe.

Theorem out_ok_attr_safe safe c :
  safe_set_ok safe = true -> out_ok safe c = true ->
  32 < c < 127 /\ c <> 34 /\ c <> 60 /\ c <> 62.
Proof.
  unfold safe_set_ok, out_ok. intros Hs H. apply andb_true_iff in Hs. destruct Hs as [Hs _].
  rewrite forallb_forall in Hs.
  apply andb_true_iff in H. destruct H as [H1 H2].
  apply orb_true_iff in H2. destruct H2 as [H2|H2]; [apply orb_true_iff in H2; destruct H2 as [H2|H2]|].
  - unfold always_safe, is_alnum_ascii, is_digit in H2. cbn [memc] in H2. lia.
  - apply memc_In in H2. specialize (Hs _ H2). cbn [memc] in Hs. lia.
  - lia.
Qed.

(* ================================================================ unikey *)

Section Unikey.
Variable ws : Z -> bool.

Definition nonws (w : str) : Prop := Forall (fun c => ws c = false) w.
Definition word_ok (w : str) : Prop := w <> [] /\ nonws w.
Definition words_ok (l : list str) : Prop := Forall word_ok l.

Lemma split_aux_app cur w rest :
  nonws w -> split_ws_aux ws cur (w ++ rest) = split_ws_aux ws (cur ++ w) rest.
Proof.
  intros H. revert cur. induction H as [|c w Hc _ IH]; intros cur; cbn [app split_ws_aux].
  - rewrite app_nil_r. reflexivity.
  - rewrite Hc. rewrite IH. rewrite <- app_assoc. reflexivity.
Qed.

Lemma split_aux_words_ok : forall s cur, nonws cur -> words_ok (split_ws_aux ws cur s).
Proof.
  induction s as [|c s IH]; intros cur Hcur; cbn [split_ws_aux].
  - destruct cur; [constructor|]. constructor; [|constructor]. split; [discriminate|assumption].
  - destruct (ws c) eqn:E.
    + destruct cur as [|x cur'].
      * apply IH. constructor.
      * constructor; [split; [discriminate|assumption]|]. apply IH. constructor.
    + apply IH. apply Forall_app. split; [assumption|]. constructor; [assumption|constructor].
Qed.

Lemma split_words_ok s : words_ok (split_ws ws s).
Proof. apply split_aux_words_ok. constructor. Qed.

Lemma split_join l : ws 32 = true -> words_ok l -> split_ws ws (join [32] l) = l.
Proof.
  intros H32 Hl. unfold split_ws. induction Hl as [|w l [Hne Hw] Hl IH]; [reflexivity|].
  destruct l as [|w2 l2].
  - cbn [join]. rewrite <- (app_nil_r w) at 1. rewrite split_aux_app by assumption. cbn.
    destruct w; [contradiction|reflexivity].
  - change (join [32] (w :: w2 :: l2)) with (w ++ [32] ++ join [32] (w2 :: l2)).
    rewrite split_aux_app by assumption. cbn [app split_ws_aux]. rewrite H32.
    destruct w as [|x w']; [contradiction|]. cbn [app]. f_equal. exact IH.
Qed.

(* a per-character rewriting that keeps the word structure *)
Variable g : Z -> str.
Hypothesis g_ws : forall c, ws c = true -> g c = [c].
Hypothesis g_nonws : forall c, ws c = false -> g c <> [] /\ nonws (g c).

Lemma g_word w : nonws w -> nonws (flat_map g w).
Proof.
  induction 1 as [|c w Hc _ IH]; cbn; [constructor|].
  apply Forall_app. split; [apply g_nonws; assumption|assumption].
Qed.

Lemma g_word_ne w : nonws w -> w <> [] -> flat_map g w <> [].
Proof.
  destruct w as [|c w]; [contradiction|]. intros H _. inversion H; subst.
  cbn. destruct (g_nonws c H2) as [Hne _]. destruct (g c); [contradiction|discriminate].
Qed.

Lemma split_aux_flat_map : forall s cur, nonws cur ->
  split_ws_aux ws (flat_map g cur) (flat_map g s) = map (flat_map g) (split_ws_aux ws cur s).
Proof.
  induction s as [|c s IH]; intros cur Hcur; cbn [flat_map split_ws_aux].
  - destruct cur as [|x cur']; [reflexivity|].
    destruct (flat_map g (x :: cur')) eqn:E; [|rewrite <- E; reflexivity].
    exfalso. eapply g_word_ne; [exact Hcur|discriminate|exact E].
  - destruct (ws c) eqn:E.
    + rewrite (g_ws c E). cbn [app split_ws_aux]. rewrite E.
      destruct cur as [|x cur'].
      * cbn [flat_map]. apply (IH [] (Forall_nil _)).
      * destruct (flat_map g (x :: cur')) eqn:E2.
        { exfalso. eapply g_word_ne; [exact Hcur|discriminate|exact E2]. }
        rewrite <- E2. cbn [map]. f_equal. apply (IH [] (Forall_nil _)).
    + destruct (g_nonws c E) as [_ Hgc]. rewrite split_aux_app by assumption.
      replace (flat_map g cur ++ g c) with (flat_map g (cur ++ [c]))
        by (rewrite flat_map_app; cbn; rewrite app_nil_r; reflexivity).
      apply IH. apply Forall_app. split; [assumption|]. constructor; [assumption|constructor].
Qed.

Lemma split_flat_map s : split_ws ws (flat_map g s) = map (flat_map g) (split_ws ws s).
Proof. apply (split_aux_flat_map s [] (Forall_nil _)). Qed.

Lemma flat_map_join l : ws 32 = true ->
  flat_map g (join [32] l) = join [32] (map (flat_map g) l).
Proof.
  intros H32. induction l as [|w l IH]; [reflexivity|].
  destruct l as [|w2 l2]; [reflexivity|].
  change (join [32] (w :: w2 :: l2)) with (w ++ [32] ++ join [32] (w2 :: l2)).
  rewrite !flat_map_app, IH. cbn [flat_map map]. rewrite (g_ws 32 H32). cbn [app]. reflexivity.
Qed.

Lemma words_ok_map l : words_ok l -> words_ok (map (flat_map g) l).
Proof.
  induction 1 as [|w l [Hne Hw] _ IH]; cbn; constructor; [|assumption].
  split; [apply g_word_ne; assumption|apply g_word; assumption].
Qed.
End Unikey.

(* strip is the identity on a joined list of words *)
Lemma join_last ws l : words_ok ws l -> l <> [] ->
  exists a z, join [32] l = a ++ [z] /\ ws z = false.
Proof.
  induction 1 as [|w l [Hne Hw] Hl IH]; intros Hn; [contradiction|].
  destruct l as [|w2 l2].
  - cbn [join]. destruct (exists_last Hne) as (a & z & ->).
    exists a, z. split; [reflexivity|]. apply Forall_app in Hw. destruct Hw as [_ Hz].
    inversion Hz; assumption.
  - destruct IH as (a & z & Ha & Hz); [discriminate|].
    change (join [32] (w :: w2 :: l2)) with (w ++ [32] ++ join [32] (w2 :: l2)).
    rewrite Ha. exists (w ++ [32] ++ a), z. split; [|assumption].
    rewrite <- !app_assoc. reflexivity.
Qed.

Lemma strip_join ws l : words_ok ws l -> strip_p ws (join [32] l) = join [32] l.
Proof.
  intros Hl. destruct l as [|w l]; [reflexivity|].
  destruct (join_last ws (w :: l) Hl) as (a & z & Ha & Hz); [discriminate|].
  unfold strip_p, rstrip_p.
  assert (Hfirst : lstrip_p ws (join [32] (w :: l)) = join [32] (w :: l)).
  { inversion Hl as [|? ? [Hne Hw] _]; subst. destruct w as [|c w']; [contradiction|].
    inversion Hw; subst.
    destruct l as [|w2 l2]; cbn [join app lstrip_p];
      match goal with H : ws c = false |- _ => rewrite H end; reflexivity. }
  rewrite Hfirst, Ha, rev_app_distr. cbn [rev app lstrip_p]. rewrite Hz.
  change (z :: rev a) with (rev [z] ++ rev a). rewrite <- rev_app_distr. apply rev_involutive.
Qed.

(* ---- the unikey theorems, for tables satisfying a finite check ---- *)

(* every cf entry: key is not white space, image non-empty, free of white space, and stable *)
Definition cf_ok (T : tables) : bool :=
  forallb (fun p : Z * str =>
    let (c, w) := p in
    negb (is_ws T c) && negb (Nat.eqb (length w) 0) && forallb (fun y => negb (is_ws T y)) w &&
    str_eqb (casefold T w) w) (t_cf T)
  && is_ws T 32.

Lemma cf_ws T c : cf_ok T = true -> is_ws T c = true -> cf T c = [c].
Proof.
  unfold cf_ok. intros H Hc. apply andb_true_iff in H. destruct H as [H _].
  rewrite forallb_forall in H. unfold cf.
  destruct (assoc_z c (t_cf T)) as [w|] eqn:E; [|reflexivity].
  apply assoc_z_In in E. specialize (H _ E). cbn in H.
  rewrite Hc in H. discriminate.
Qed.

Lemma cf_nonws T c : cf_ok T = true -> is_ws T c = false ->
  cf T c <> [] /\ nonws (is_ws T) (cf T c).
Proof.
  unfold cf_ok. intros H Hc. apply andb_true_iff in H. destruct H as [H _].
  rewrite forallb_forall in H. unfold cf.
  destruct (assoc_z c (t_cf T)) as [w|] eqn:E.
  - apply assoc_z_In in E. specialize (H _ E). cbn in H.
    repeat (apply andb_true_iff in H; destruct H as [H ?]).
    split.
    + destruct w; [discriminate|discriminate].
    + apply Forall_forall. intros y Hy.
      match goal with Hf : forallb _ _ = true |- _ =>
        pose proof (proj1 (forallb_forall _ _) Hf y Hy) as Hfy end.
      apply negb_true_iff. exact Hfy.
  - split; [discriminate|]. constructor; [assumption|constructor].
Qed.

Lemma casefold_idem T s : cf_ok T = true -> casefold T (casefold T s) = casefold T s.
Proof.
  intros H. unfold casefold. rewrite flat_map_flat_map. apply flat_map_ext. intros c.
  unfold cf_ok in H. apply andb_true_iff in H. destruct H as [H _]. rewrite forallb_forall in H.
  destruct (assoc_z c (t_cf T)) as [w|] eqn:E.
  - assert (Hcf : cf T c = w) by (unfold cf; rewrite E; reflexivity). rewrite Hcf.
    apply assoc_z_In in E. specialize (H _ E). cbv beta iota in H.
    repeat (apply andb_true_iff in H; destruct H as [H ?]).
    match goal with Hs : str_eqb _ _ = true |- _ => apply str_eqb_eq in Hs; exact Hs end.
  - assert (Hcf : cf T c = [c]) by (unfold cf; rewrite E; reflexivity). rewrite Hcf.
    cbn [flat_map]. rewrite app_nil_r. exact Hcf.
Qed.

Definition unikey (T : tables) (s : str) : str := run_unikey T canonical_uk_ops s.
Definition wsnorm (T : tables) (s : str) : str := join [32] (split_ws (is_ws T) s).

Lemma unikey_unfold T s : unikey T s = casefold T (strip_p (is_ws T) (wsnorm T s)).
Proof. reflexivity. Qed.

Lemma unikey_alt T s : cf_ok T = true -> unikey T s = casefold T (wsnorm T s).
Proof.
  intros H. rewrite unikey_unfold. unfold wsnorm. rewrite strip_join; [reflexivity|].
  apply split_words_ok.
Qed.

Lemma is_ws_32 T : cf_ok T = true -> is_ws T 32 = true.
Proof. unfold cf_ok. intros H. apply andb_true_iff in H. tauto. Qed.

(* white-space normalisation commutes with case folding *)
Lemma wsnorm_casefold T s : cf_ok T = true -> wsnorm T (casefold T s) = casefold T (wsnorm T s).
Proof.
  intros H. unfold wsnorm, casefold.
  rewrite (split_flat_map (is_ws T) (cf T) (fun c => cf_ws T c H) (fun c => cf_nonws T c H)).
  rewrite (flat_map_join (is_ws T) (cf T) (fun c => cf_ws T c H)); [reflexivity|apply is_ws_32; assumption].
Qed.

Lemma wsnorm_idem T s : cf_ok T = true -> wsnorm T (wsnorm T s) = wsnorm T s.
Proof.
  intros H. unfold wsnorm. rewrite split_join; [reflexivity|apply is_ws_32; assumption|apply split_words_ok].
Qed.

Theorem unikey_idempotent T s : cf_ok T = true -> unikey T (unikey T s) = unikey T s.
Proof.
  intros H. rewrite !unikey_alt by assumption.
  rewrite (wsnorm_casefold T (wsnorm T s)) by assumption.
  rewrite wsnorm_idem by assumption.
  rewrite casefold_idem by assumption. reflexivity.
Qed.

(* white-space variation: the key depends on the text only through its list of words *)
Theorem unikey_ws_invariant T s s' :
  split_ws (is_ws T) s = split_ws (is_ws T) s' -> unikey T s = unikey T s'.
Proof. intros H. rewrite !unikey_unfold. unfold wsnorm. rewrite H. reflexivity. Qed.

(* any non-empty white-space run may replace any other, anywhere (also leading/trailing) *)
Lemma split_aux_ws_run ws r rest : forall cur,
  r <> [] -> Forall (fun c => ws c = true) r ->
  split_ws_aux ws cur (r ++ rest) =
  match cur with [] => split_ws_aux ws [] rest | _ => cur :: split_ws_aux ws [] rest end.
Proof.
  induction r as [|c r IH]; intros cur Hne Hr; [contradiction|].
  inversion Hr as [|? ? Hc Hr']; subst. cbn [app split_ws_aux]. rewrite Hc.
  destruct r as [|c2 r2].
  - cbn [app]. destruct cur; reflexivity.
  - destruct cur as [|x cur'].
    + rewrite (IH [] ltac:(discriminate) Hr'). reflexivity.
    + rewrite (IH [] ltac:(discriminate) Hr'). reflexivity.
Qed.

Theorem split_ws_run_irrelevant ws a r1 r2 b :
  r1 <> [] -> r2 <> [] -> Forall (fun c => ws c = true) r1 -> Forall (fun c => ws c = true) r2 ->
  split_ws ws (a ++ r1 ++ b) = split_ws ws (a ++ r2 ++ b).
Proof.
  intros N1 N2 H1 H2. unfold split_ws. generalize (@nil Z) as cur.
  induction a as [|c a IH]; intros cur; cbn [app].
  - rewrite !split_aux_ws_run by assumption. reflexivity.
  - cbn [split_ws_aux]. destruct (ws c); [destruct cur|]; rewrite ?IH; try reflexivity.
Qed.

Theorem split_ws_edges ws r a :
  Forall (fun c => ws c = true) r -> split_ws ws (r ++ a) = split_ws ws a /\ split_ws ws (a ++ r) = split_ws ws a.
Proof.
  intros Hr. split.
  - destruct r as [|c r]; [reflexivity|]. unfold split_ws. rewrite split_aux_ws_run by (try discriminate; assumption). reflexivity.
  - unfold split_ws. generalize (@nil Z) as cur. induction a as [|c a IH]; intros cur; cbn [app].
    + destruct r as [|c r]; [reflexivity|].
      rewrite <- (app_nil_r (c :: r)). rewrite split_aux_ws_run by (try discriminate; assumption).
      destruct cur; reflexivity.
    + cbn [split_ws_aux]. destruct (ws c); [destruct cur|]; rewrite ?IH; reflexivity.
Qed.

(* letter-case variation *)
Definition case_tables_ok (T : tables) : bool :=
  forallb (fun p : Z * str => str_eqb (casefold T (snd p)) (cf T (fst p))) (t_upper T) &&
  forallb (fun p : Z * str => str_eqb (casefold T (snd p)) (cf T (fst p))) (t_lower T).

Inductive case_var (T : tables) : str -> str -> Prop :=
| cv_nil : case_var T [] []
| cv_keep c s s' : case_var T s s' -> case_var T (c :: s) (c :: s')
| cv_upper c u s s' : In (c, u) (t_upper T) -> case_var T s s' -> case_var T (c :: s) (u ++ s')
| cv_lower c l s s' : In (c, l) (t_lower T) -> case_var T s s' -> case_var T (c :: s) (l ++ s').

Lemma casefold_case_var T s s' :
  case_tables_ok T = true -> case_var T s s' -> casefold T s' = casefold T s.
Proof.
  unfold case_tables_ok. intros H. apply andb_true_iff in H. destruct H as [Hu Hl].
  rewrite forallb_forall in Hu, Hl.
  induction 1 as [|c s s' _ IH|c u s s' Hin _ IH|c l s s' Hin _ IH]; unfold casefold in *; cbn [flat_map].
  - reflexivity.
  - rewrite IH. reflexivity.
  - rewrite flat_map_app, IH. f_equal. specialize (Hu _ Hin). apply str_eqb_eq in Hu. exact Hu.
  - rewrite flat_map_app, IH. f_equal. specialize (Hl _ Hin). apply str_eqb_eq in Hl. exact Hl.
Qed.

Theorem unikey_case_invariant T s s' :
  cf_ok T = true -> case_tables_ok T = true -> case_var T s s' -> unikey T s' = unikey T s.
Proof.
  intros H1 H2 Hv. rewrite !unikey_alt by assumption.
  rewrite <- !wsnorm_casefold by assumption.
  rewrite (casefold_case_var T s s' H2 Hv). reflexivity.
Qed.

Lemma unescape_no_amp T b s : Forall (fun c => c <> 38) s -> unescape_aux T b 0 s = s.
Proof.
  induction 1 as [|c s Hc _ IH]; cbn [unescape_aux]; [reflexivity|].
  destruct (c =? 38) eqn:E; [apply Z.eqb_eq in E; contradiction|]. rewrite IH. reflexivity.
Qed.
