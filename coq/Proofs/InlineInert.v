(* InlineInert.v — on a text made only of characters at which no rule can begin (and without the characters some rule
   must contain), the inline parser model returns exactly one text token holding the whole text. *)
From Coq Require Import ZArith List Bool Lia Arith.
From Verif Require Import PyStr Rx RxSpec RxAnalysis Scanner Inline InlineProofs.
Import ListNotations.
Local Open Scope nat_scope.

Section Inert.
Variable C : icfg.
Variable L : list Z.   (* the characters of the text *)
Variable T : list Z.   (* characters the text does not contain *)
Let U := c_uni C.

Definition quiet (r : rx) : bool := wf r && ((negb (nullable r) && first_excludes U L r) || mc T r).

Hypothesis Hquiet : forall rk, In rk (c_rules C) -> quiet (c_spec C rk) = true.

Definition plain (s : list Z) : Prop := forall ch, In ch s -> memc ch L = true /\ memc ch T = false.

Lemma match_at_end r z : wf r = true -> nullable r = false -> z_rest z = [] -> match_at U r z = None.
Proof.
  intros W Hn He. destruct (match_at U r z) as [res|] eqn:E; [|reflexivity]. exfalso.
  destruct (match_sound U r z res W E) as (z' & c' & HM & _).
  destruct (M_adv U r _ _ _ _ HM) as [w Ha]. pose proof Ha as (A & _ & Ci). rewrite He in A.
  destruct w; [|discriminate]. cbn in Ci. rewrite Nat.add_0_r in Ci.
  rewrite (nullable_sound U r _ _ _ _ HM Ci) in Hn. discriminate.
Qed.

Lemma quiet_no_match r z : quiet r = true -> plain (subject z) -> match_at U r z = None.
Proof.
  unfold quiet. intros H Hp. apply andb_true_iff in H. destruct H as [W H]. apply orb_true_iff in H. destruct H as [H|H].
  - apply andb_true_iff in H. destruct H as [Hn Hf]. apply negb_true_iff in Hn.
    destruct (z_rest z) as [|ch rest] eqn:Er; [apply match_at_end; assumption|].
    apply (cannot_start_at U L r z ch W Hn Hf); [rewrite Er; reflexivity|].
    apply Hp. unfold subject. rewrite Er. apply in_or_app. right. left. reflexivity.
  - unfold match_at. apply (mc_engine U T r); [exact W|exact H|]. intros ch Hin. apply Hp. exact Hin.
Qed.

Lemma iscan_at_none rules z : (forall rk, In rk rules -> quiet (c_spec C rk) = true) -> plain (subject z) -> iscan_at C rules z = None.
Proof.
  intros Hq Hp. induction rules as [|r rs IH]; [reflexivity|]. cbn [iscan_at].
  fold U. rewrite (quiet_no_match _ z (Hq r (or_introl eq_refl)) Hp). apply IH. intros rk Hin. apply Hq. right. exact Hin.
Qed.

Lemma iscan_from_none rules : (forall rk, In rk rules -> quiet (c_spec C rk) = true) ->
  forall fuel z, plain (subject z) -> iscan_from C rules fuel z = None.
Proof.
  intros Hq. induction fuel as [|f IH]; intros z Hp; cbn [iscan_from]; rewrite (iscan_at_none rules z Hq Hp); [reflexivity|].
  destruct (zstep z) as [[ch z']|] eqn:Es; [|reflexivity]. apply IH.
  rewrite (adv_subject _ _ _ (zstep_adv _ _ _ Es)). exact Hp.
Qed.

Lemma subject_zip_at s : subject (zip_at s 0 (length s)) = s.
Proof. unfold subject, zip_at. rewrite Nat.min_id. cbn. rewrite Nat.sub_0_r. apply firstn_all. Qed.

(* the whole text comes back as one text token, whatever the handlers are *)
Theorem plain_text_is_one_token s : plain s -> inline_parse C s = Ok [TText s].
Proof.
  intros Hp. unfold inline_parse, irender. cbn [parse_loop].
  destruct (Nat.leb_spec (length s) 0) as [H0|Hpos].
  - destruct s; [reflexivity|cbn in H0; lia].
  - unfold isearch. destruct (Nat.ltb_spec (Nat.min (length s) (length s)) 0) as [Hx|_]; [lia|].
    rewrite (iscan_from_none (c_rules C) Hquiet); [reflexivity|]. rewrite subject_zip_at. exact Hp.
Qed.
End Inert.
