(* TableProofs.v — every row of a table token has as many cells as the header, each with its column's alignment;
   header cells are marked head, body cells are not.  For every text and every configuration of the model. *)
From Coq Require Import ZArith List Bool Lia Arith.
From Verif Require Import PyStr Rx RxSub Table.
Import ListNotations.
Local Open Scope nat_scope.

Section TableP.
Variable C : tcfg.

Definition row_ok (head : bool) (aligns : list align) (row : list cell) : Prop :=
  map c_align row = aligns /\ Forall (fun c => c_head c = head) row.

Lemma map_snd_combine_eq {A B} : forall (l : list A) (l' : list B), length l = length l' -> map snd (combine l l') = l'.
Proof.
  induction l as [|x l IH]; intros [|y l'] H; cbn in *; try discriminate; [reflexivity|]. f_equal. apply IH. lia.
Qed.

Lemma cells_of_ok head texts aligns : length texts = length aligns -> row_ok head aligns (cells_of C head texts aligns).
Proof.
  intros H. unfold row_ok, cells_of. split.
  - rewrite map_map. cbn. exact (map_snd_combine_eq texts aligns H).
  - apply Forall_forall. intros c Hc. apply in_map_iff in Hc. destruct Hc as (ta & <- & _). reflexivity.
Qed.

Lemma process_row_ok text aligns row : process_row C text aligns = Some row -> row_ok false aligns row.
Proof.
  unfold process_row. destruct (Nat.eqb_spec (length (re_split (t_uni C) (t_cell_split C) text)) (length aligns)) as [E|]; [|discriminate].
  cbn. intros [= <-]. apply cells_of_ok. exact E.
Qed.

Lemma process_thead_ok header al thead aligns : process_thead C header al = Some (thead, aligns) -> row_ok true aligns thead.
Proof.
  unfold process_thead.
  destruct (Nat.eqb_spec (length (re_split (t_uni C) (t_cell_split C) header)) (length (re_split (t_uni C) (t_cell_split C) al))) as [E|]; [|discriminate].
  cbn. intros [= <- <-]. apply cells_of_ok. rewrite map_length. exact E.
Qed.

Lemma all_rows_ok (f : str -> option (list cell)) (P : list cell -> Prop) : (forall l row, f l = Some row -> P row) ->
  forall lines rows, all_rows f lines = Some rows -> Forall P rows.
Proof.
  intros Hf. induction lines as [|l ls IH]; intros rows H; cbn in H.
  - inversion H. constructor.
  - destruct (f l) as [row|] eqn:E; [|discriminate]. destruct (all_rows f ls) as [rs|]; [|discriminate]. inversion H; subst.
    constructor; [exact (Hf l row E)|exact (IH rs eq_refl)].
Qed.

Definition table_ok (thead : list cell) (rows : list (list cell)) : Prop :=
  Forall (fun c => c_head c = true) thead /\
  Forall (fun row => length row = length thead /\ map c_align row = map c_align thead /\ Forall (fun c => c_head c = false) row) rows.

Lemma rows_ok_table thead aligns rows : row_ok true aligns thead -> Forall (row_ok false aligns) rows -> table_ok thead rows.
Proof.
  intros [Ha Hh] Hr. split; [exact Hh|]. apply Forall_forall. intros row Hin. rewrite Forall_forall in Hr. destruct (Hr row Hin) as [Ra Rh].
  split; [|split; [rewrite Ra, Ha; reflexivity|exact Rh]].
  rewrite <- (map_length c_align row), <- (map_length c_align thead), Ra, Ha. reflexivity.
Qed.

Theorem parse_table_ok src m thead rows pos : parse_table C src m = Some (thead, rows, pos) -> table_ok thead rows.
Proof.
  unfold parse_table. destruct (process_thead C _ _) as [[th aligns]|] eqn:Et; [|discriminate].
  destruct (all_rows _ _) as [rs|] eqn:Er; [|discriminate]. intros [= <- <- _].
  apply (rows_ok_table th aligns rs (process_thead_ok _ _ _ _ Et)).
  refine (all_rows_ok _ (row_ok false aligns) _ _ _ Er). intros l row H. cbv beta in H.
  destruct (tmatch C (t_table_cell C) l); [|discriminate H]. exact (process_row_ok _ _ _ H).
Qed.

Theorem parse_nptable_ok src m thead rows pos : parse_nptable C src m = Some (thead, rows, pos) -> table_ok thead rows.
Proof.
  unfold parse_nptable. destruct (process_thead C _ _) as [[th aligns]|] eqn:Et; [|discriminate].
  destruct (all_rows _ _) as [rs|] eqn:Er; [|discriminate]. intros [= <- <- _].
  apply (rows_ok_table th aligns rs (process_thead_ok _ _ _ _ Et)).
  apply (all_rows_ok _ _ (fun l row H => process_row_ok _ _ _ H) _ _ Er).
Qed.

Theorem table_at_ok np src thead rows pos : table_at C np src = Some (Some (thead, rows, pos)) -> table_ok thead rows.
Proof.
  unfold table_at. destruct (tmatch C _ src) as [m|]; [|discriminate]. destruct np; intros [= H].
  - exact (parse_nptable_ok _ _ _ _ _ H).
  - exact (parse_table_ok _ _ _ _ _ H).
Qed.
End TableP.
