(* C10 — a plugin only affects documents that use its syntax.
   Scanner-level theorem: a rule whose every match must contain a character c can be inserted
   at any priority into any rule list without changing any scan of a c-free text. The
   "must contain" fact is decided by the verified must-consume analysis on the patterns
   regenerated from the plugins' registrations. *)
From Coq Require Import ZArith List Bool Lia.
From Verif Require Import PyStr Rx RxSpec RxAnalysis Scanner ScannerProofs UnicodeGen PluginGen.
Import ListNotations.

Definition rule_ok (e : str * str * rx * str) : bool :=
  let '(_, _, r, ess) := e in
  wf r && negb (Nat.eqb (length ess) 0) && forallb (fun c => mc [c] r) ess.

(* TIE + reflection: every rule registered by a built-in plugin needs each of its specified characters *)
Theorem C10_rules_need_their_triggers : forallb rule_ok plugin_rule_table = true.
Proof. vm_compute. reflexivity. Qed.

Theorem C10_rule_table_nonempty : (10 <=? length plugin_rule_table)%nat = true.
Proof. vm_compute. reflexivity. Qed.

(* Full scanner-level statement: any plugin rule, any of its trigger characters c, any surrounding rule
   list (other plugins included), any text without c, any window: scanning is unchanged. *)
Theorem C10_plugin_rule_is_local : forall plugin key r ess c l1 n l2 s pos endpos,
  In (plugin, key, r, ess) plugin_rule_table -> In c ess ->
  (forall ch, In ch s -> ch <> c) ->
  scan_search U (l1 ++ (n, r) :: l2) s pos endpos = scan_search U (l1 ++ l2) s pos endpos.
Proof.
  intros plugin key r ess c l1 n l2 s pos endpos Hin Hc Hfree.
  pose proof C10_rules_need_their_triggers as Hall. rewrite forallb_forall in Hall.
  specialize (Hall _ Hin). cbn in Hall.
  apply andb_true_iff in Hall. destruct Hall as [Hall Hmc]. apply andb_true_iff in Hall. destruct Hall as [Hwf _].
  rewrite forallb_forall in Hmc. specialize (Hmc c Hc).
  apply (scan_search_plugin_local U [c]); try assumption.
  intros ch Hch. cbn. specialize (Hfree ch Hch).
  destruct (ch =? c)%Z eqn:E; [apply Z.eqb_eq in E; contradiction|reflexivity].
Qed.

(* the same at a fixed position (Pattern.match), used by the container break scanners *)
Theorem C10_plugin_rule_is_local_at : forall plugin key r ess c l1 n l2 s pos endpos,
  In (plugin, key, r, ess) plugin_rule_table -> In c ess ->
  (forall ch, In ch s -> ch <> c) ->
  scan_match U (l1 ++ (n, r) :: l2) s pos endpos = scan_match U (l1 ++ l2) s pos endpos.
Proof.
  intros plugin key r ess c l1 n l2 s pos endpos Hin Hc Hfree.
  pose proof C10_rules_need_their_triggers as Hall. rewrite forallb_forall in Hall.
  specialize (Hall _ Hin). cbn in Hall.
  apply andb_true_iff in Hall. destruct Hall as [Hall Hmc]. apply andb_true_iff in Hall. destruct Hall as [Hwf _].
  rewrite forallb_forall in Hmc. specialize (Hmc c Hc).
  unfold scan_match. destruct (Nat.ltb _ _); [reflexivity|].
  apply scan_at_skip.
  assert (Hf : tfree [c] (subject (zip_at s pos endpos))).
  { intros ch Hch. cbn. assert (In ch s).
    { unfold subject, zip_at in Hch. cbn in Hch. rewrite rev_involutive in Hch. apply in_app_or in Hch.
      destruct Hch as [Hch|Hch]; [eapply In_firstn_in; eassumption|apply In_firstn_in in Hch; eapply In_skipn_in; eassumption]. }
    specialize (Hfree ch H). destruct (ch =? c)%Z eqn:E; [apply Z.eqb_eq in E; contradiction|reflexivity]. }
  exact (mc_never U [c] r (zip_at s pos endpos) Hwf Hmc Hf [] _ (adv_refl _)).
Qed.

Print Assumptions C10_plugin_rule_is_local.
Print Assumptions C10_plugin_rule_is_local_at.
