(* C16 — line-ending style does not matter.
   Only statements, each closed by a lemma from Proofs/, with Print Assumptions. *)
From Coq Require Import ZArith List Bool.
From Verif Require Import PyStr Normalize NormalizeGen NormalizeProofs Inline Block Doc Entry UnicodeGen RxGen MdDoc.
Import ListNotations.
Open Scope Z_scope.

(* TIE: the op list regenerated from src/mistune/markdown.py is the one the theorems are about *)
Theorem C16_tie_ops : parse_norm_ops = canonical_ops.
Proof. reflexivity. Qed.
Theorem C16_tie_none : call_none_value = [cLF].
Proof. reflexivity. Qed.

(* what Markdown.parse hands to everything downstream *)
Definition parse_src (s : str) : str := run_ops parse_norm_ops s.
(* any downstream computation G : str -> result; convert = G ∘ parse_src *)
Section C16.
Variable result : Type.
Variable G : str -> result.
Definition convert (s : option str) : result := G (parse_src (call_input call_none_value s)).

(* Full statement: for every document given as lines with arbitrary (mixed) endings,
   provided no CR-terminated line is directly followed by an empty LF-terminated line
   (which *is* a CRLF), conversion equals conversion of the LF form. *)
Theorem C16_ending_invariance : forall d,
  lines_ok d -> unambiguous d -> d <> [] ->
  convert (Some (show d)) = convert (Some (show (to_LF d))).
Proof.
  intros d H1 H2 H3. unfold convert, parse_src. rewrite C16_tie_ops. cbn [call_input].
  f_equal. exact (norm_ending_invariant d H1 H2 H3).
Qed.

Theorem C16_lf_form : forall d,
  lines_ok d -> unambiguous d -> d <> [] -> parse_src (show d) = show (to_LF d).
Proof. intros d H1 H2 H3. unfold parse_src. rewrite C16_tie_ops. exact (norm_complete_doc d H1 H2 H3). Qed.

Theorem C16_missing_final_newline : forall d l c,
  lines_ok d -> unambiguous d -> line_ok (l ++ [c]) ->
  convert (Some (show d ++ l ++ [c])) = convert (Some (show d ++ l ++ [c] ++ [cLF])).
Proof.
  intros d l c H1 H2 H3. unfold convert, parse_src. rewrite C16_tie_ops. cbn [call_input].
  f_equal. exact (proj2 (norm_missing_final_newline d l c H1 H2 H3)).
Qed.

Theorem C16_none_is_empty : convert None = convert (Some []).
Proof. unfold convert, parse_src. rewrite C16_tie_ops, C16_tie_none. reflexivity. Qed.
End C16.

(* uniform CRLF / CR documents always satisfy the side condition *)
Definition with_ending (e : ending) (ls : list str) : doc := map (fun l => (l, e)) ls.
Theorem C16_uniform_unambiguous : forall e ls, e <> CR -> unambiguous (with_ending e ls).
Proof.
  intros e ls He. induction ls as [|l ls IH]; cbn; [exact I|]. split; [intros; contradiction|exact IH].
Qed.
Theorem C16_uniform_CR_unambiguous : forall ls, unambiguous (with_ending CR ls).
Proof.
  induction ls as [|l ls IH]; cbn; [exact I|]. split; [|exact IH].
  intros _. destruct ls as [|l2 ls2]; cbn; [exact I|]. destruct l2; exact I.
Qed.

(* instance: the executable model of the whole core conversion (block pass, reference table, inline pass; Model/Doc.v,
   tied to create_markdown(renderer=None) by the AST correspondence run) is of the form G o parse_src, so the AST it
   produces does not depend on the line-ending style *)
Definition core_G (px hw : bool) (t : str) : res (list node) :=
  match block_cfg, inline_cfg_x px hw [] with
  | Some CB, Some d => doc_parse CB (fun rf => inline_cfg_or px hw rf d) (fun x => x) t
  | _, _ => Exn
  end.

Lemma core_doc_parse_is_G : forall px hw s, doc_parse_x px hw s = core_G px hw (parse_src s).
Proof. intros px hw s. unfold doc_parse_x, core_G, parse_src. destruct block_cfg; [|reflexivity]. destruct (inline_cfg_x px hw []); reflexivity. Qed.

Theorem C16_core_ast_ending_invariant : forall px hw d,
  lines_ok d -> unambiguous d -> d <> [] -> doc_parse_x px hw (show d) = doc_parse_x px hw (show (to_LF d)).
Proof.
  intros px hw d H1 H2 H3. rewrite !core_doc_parse_is_G.
  exact (C16_ending_invariance (res (list node)) (core_G px hw) d H1 H2 H3).
Qed.

(* the same for the complete conversions of the models: HTML output (core, or core + the six inline plugins; escape on or
   off) and the output of the Markdown renderer *)
Theorem C16_html_output_ending_invariant : forall px esc hw d,
  lines_ok d -> unambiguous d -> d <> [] -> html_x px esc hw (show d) = html_x px esc hw (show (to_LF d)).
Proof. intros px esc hw d H1 H2 H3. unfold html_x. rewrite (C16_core_ast_ending_invariant px hw d H1 H2 H3). reflexivity. Qed.

Definition md_G (hw : bool) (t : str) : res str :=
  match block_cfg, inline_cfg_x false hw [] with
  | Some CB, Some dflt =>
    match doc_parse_rf CB (fun rf => inline_cfg_or false hw rf dflt) (fun x => x) t with
    | Ok (ast, rf) => Ok (MdDoc.md_doc U rx_renderers_markdown__quote_end_re rx_util__strip_end_re ast rf)
    | Exn => Exn | Fuel => Fuel
    end
  | _, _ => Exn
  end.
Lemma md_x_is_G : forall hw s, md_x hw s = md_G hw (parse_src s).
Proof.
  intros hw s. unfold md_x, md_G, parse_src. destruct block_cfg as [CB|]; [|reflexivity]. destruct (inline_cfg_x false hw []) as [dflt|]; [|reflexivity].
  destruct (doc_parse_rf _ _ _ s) as [[ast rf]| |] eqn:E; unfold bind;
    change (doc_parse_rf CB (fun rf => inline_cfg_or false hw rf dflt) (fun x => x) (run_ops parse_norm_ops s))
      with (doc_parse_rf CB (fun rf => inline_cfg_or false hw rf dflt) (run_ops parse_norm_ops) s); rewrite E; reflexivity.
Qed.
Theorem C16_markdown_output_ending_invariant : forall hw d,
  lines_ok d -> unambiguous d -> d <> [] -> md_x hw (show d) = md_x hw (show (to_LF d)).
Proof. intros hw d H1 H2 H3. rewrite !md_x_is_G. exact (C16_ending_invariance (res str) (md_G hw) d H1 H2 H3). Qed.

Print Assumptions C16_ending_invariance.
Print Assumptions C16_html_output_ending_invariant.
Print Assumptions C16_markdown_output_ending_invariant.
Print Assumptions C16_lf_form.
Print Assumptions C16_missing_final_newline.
Print Assumptions C16_none_is_empty.
Print Assumptions C16_uniform_unambiguous.
Print Assumptions C16_uniform_CR_unambiguous.
Print Assumptions C16_core_ast_ending_invariant.
