(* C09 — the speedup plugin never changes the output.
   Proved here (scanner level, unbounded): with every plugin loaded, no inline rule other than the
   fast text rule can match at a position whose character is not a stop character, so skipping
   over runs of such characters loses no match (H1); text rendering under escaping is a monoid
   morphism, so the different segmentation of text tokens is invisible in HTML (H2).
   Not proved (see DESIGN.md): the block-side fast paragraph (H3) - refuted by known findings. *)
From Coq Require Import ZArith List Bool Lia.
From Verif Require Import PyStr Util UtilGen UtilProofs Rx RxSpec RxAnalysis UnicodeGen SpeedupGen C18.
Import ListNotations.
Open Scope Z_scope.

Definition n_url_link : str := [117; 114; 108; 95; 108; 105; 110; 107].
Definition n_linebreak : str := [108; 105; 110; 101; 98; 114; 101; 97; 107].
Definition n_softbreak : str := [115; 111; 102; 116; 98; 114; 101; 97; 107].

(* where a rule may start: a stop character; url_link also at 'h' (the text rule looks ahead for http:/https:),
   the two break rules also at space / newline / backslash (handled by the text rule's own break logic) *)
Definition start_set (name : str) : list Z :=
  speedup_stop_chars ++
  (if str_eqb name n_url_link then [104] else []) ++
  (if str_eqb name n_linebreak || str_eqb name n_softbreak then [32; 10] else []).

Definition rule_ok (e : str * rx) : bool :=
  let (n, r) := e in wf r && negb (nullable r) && first_within (start_set n) r.

Theorem C09_rules_start_only_at_stop_chars :
  forallb rule_ok speedup_inline_rules = true /\ forallb rule_ok speedup_inline_rules_hw = true.
Proof. split; vm_compute; reflexivity. Qed.

Theorem C09_rule_tables_nonempty :
  (15 <=? length speedup_inline_rules)%nat = true /\ (12 <=? length speedup_stop_chars)%nat = true.
Proof. split; vm_compute; reflexivity. Qed.

(* H1: inside a run of ordinary characters no other rule matches *)
Theorem C09_H1_no_rule_matches_inside_text : forall n r z,
  In (n, r) speedup_inline_rules \/ In (n, r) speedup_inline_rules_hw ->
  (forall ch, hd_error (z_rest z) = Some ch -> memc ch (start_set n) = false) ->
  match_at U r z = None.
Proof.
  intros n r z Hin Hch.
  assert (Hok : rule_ok (n, r) = true).
  { destruct C09_rules_start_only_at_stop_chars as [H1 H2]. rewrite forallb_forall in H1, H2.
    destruct Hin as [Hin|Hin]; [apply H1|apply H2]; exact Hin. }
  cbn in Hok. apply andb_true_iff in Hok. destruct Hok as [Hok Hf]. apply andb_true_iff in Hok. destruct Hok as [Hw Hn].
  apply negb_true_iff in Hn. apply (cannot_start U (start_set n)); assumption.
Qed.

(* H2: escaped text rendering is a morphism: how the text is cut into text tokens does not matter *)
Theorem C09_H2_text_rendering_is_a_morphism : forall a b,
  run_escape escape_ops true (a ++ b) = run_escape escape_ops true a ++ run_escape escape_ops true b.
Proof.
  intros a b. rewrite !(escape_spec _ _ _ _ esc_q_active esc_q_chain). apply flat_map_app.
Qed.

(* ... and it is NOT one with escaping off (known finding C09/noescape-entity-split): witness *)
Example C09_refuted_noescape_morphism :
  let a := [38; 97; 109; 112] in let b := [61; 98; 59] in     (* "&amp" ++ "=b;" *)
  safe_entity T escape_ops (a ++ b) <> safe_entity T escape_ops a ++ safe_entity T escape_ops b.
Proof. vm_compute. discriminate. Qed.

Print Assumptions C09_H1_no_rule_matches_inside_text.
Print Assumptions C09_H2_text_rendering_is_a_morphism.
