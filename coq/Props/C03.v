(* C03 — parsing neither loses nor duplicates document text.  PARTIAL (see DESIGN.md).
   Proved here, for every subject string:
   (1) every pattern.sub and str.replace call site of the parse path (enumerated from the current source by the
       translator, coq/Gen/SubSitesGen.v) keeps the sequence of ASCII letters and digits of its argument: it can
       remove or insert only punctuation and white space, so no word is lost, duplicated or reordered by the
       container projections (quote prefix removal, indentation trimming, tab expansion, ATX closing sequence,
       trailing blank removal, definition-list markers, spoiler markers, back-slash unescaping);
   (2) a captured group is always a stretch of the text its match consumed (no handler can obtain text from outside
       the span it reports as consumed through a group);
   (3) the scanner loop: if every step records spans tiling exactly the stretch the cursor moved over, the spans
       recorded at the end tile the source, and their slices concatenate to it (each character in exactly one span).
   NOT proved: that each handler's step records such spans (needs the parser model); the oracle decides it. *)
From Coq Require Import ZArith List Bool Lia Arith.
From Verif Require Import PyStr Rx RxSpec RxAnalysis RxSub RxSubProofs ReplaceProofs Loop LoopProofs UnicodeGen RxGen SubSitesGen RxCov Inline Block BlockProofs BlockCons BlockGen Entry C01.
Import ListNotations.
Local Open Scope nat_scope.

(* 0-9 A-Z a-z *)
(* [alnum], [letters]: Proofs/RxSubProofs.v *)

Fixpoint rx_lookup (k : str) (t : list (str * rx)) : option rx :=
  match t with [] => None | (k', v) :: t' => if str_eqb k k' then Some v else rx_lookup k t' end.


(* the translator's sample of the dynamic pattern has this shape *)
Theorem C03_indent_trim_shape : indent_trim_3 = indent_trim 3.
Proof. reflexivity. Qed.

Definition pattern_of (p : pat_ref) (r : rx) : Prop :=
  match p with
  | PNamed n => rx_lookup n rx_table = Some r
  | PIndentTrim => exists n, r = indent_trim n
  end.

Definition sub_site_ok (site : str * pat_ref * repl) : bool :=
  let '(_, p, k) := site in
  repl_ok alnum k &&
  match p with
  | PNamed n => match rx_lookup n rx_table with Some r => wf r && avoids U alnum r | None => false end
  | PIndentTrim => true
  end.

Theorem C03_sites_translated : subsites_ok = true /\ sub_sites <> [] /\ replace_sites <> [].
Proof. repeat split; discriminate. Qed.

Theorem C03_all_sub_sites_checked : forallb sub_site_ok sub_sites = true.
Proof. vm_compute. reflexivity. Qed.

(* (1a) every pattern.sub site keeps the letters and digits of every subject *)
Theorem C03_sub_sites_keep_words : forall w p k r s,
  In (w, p, k) sub_sites -> pattern_of p r -> letters (re_sub U r (rep_of k) s) = letters s.
Proof.
  intros w p k r s Hin Hp. pose proof C03_all_sub_sites_checked as H. rewrite forallb_forall in H.
  specialize (H _ Hin). cbn [sub_site_ok] in H. apply andb_true_iff in H. destruct H as [Hk Hr].
  destruct p as [n|]; cbn [pattern_of] in Hp.
  - rewrite Hp in Hr. apply andb_true_iff in Hr. destruct Hr as [W A]. apply re_sub_keeps; assumption.
  - destruct Hp as [n ->]. apply re_sub_keeps; [reflexivity|reflexivity|exact Hk].
Qed.

Definition replace_site_ok (site : str * old_ref * str * bool) : bool :=
  let '(_, o, new, _) := site in
  forallb (fun ch => negb (memc ch alnum)) new &&
  match o with OLit old => negb (match old with [] => true | _ => false end) && forallb (fun ch => negb (memc ch alnum)) old | OSpaces => true end.

Theorem C03_all_replace_sites_checked : forallb replace_site_ok replace_sites = true.
Proof. vm_compute. reflexivity. Qed.

Definition old_of (o : old_ref) (old : str) : Prop :=
  match o with OLit x => old = x | OSpaces => exists n, old = repeat 32%Z (S n) end.

(* (1b) every str.replace site keeps the letters and digits of every subject *)
Theorem C03_replace_sites_keep_words : forall w o new once old s,
  In (w, o, new, once) replace_sites -> old_of o old ->
  letters (if once then replace1 old new s else replace old new s) = letters s.
Proof.
  intros w o new once old s Hin Ho. pose proof C03_all_replace_sites_checked as H. rewrite forallb_forall in H.
  specialize (H _ Hin). cbn [replace_site_ok] in H. apply andb_true_iff in H. destruct H as [Hn Hold].
  assert (Hne : old <> [] /\ nokeep alnum old).
  { destruct o as [x|]; cbn [old_of] in Ho.
    - subst x. apply andb_true_iff in Hold. destruct Hold as [H1 H2]. split; [destruct old; [discriminate|discriminate]|].
      apply nokeep_forallb. exact H2.
    - destruct Ho as [n ->]. split; [discriminate|]. apply Forall_forall. intros x Hx. apply repeat_spec in Hx. subst. reflexivity. }
  destruct Hne as [Hne Hk]. apply nokeep_forallb in Hn.
  destruct once; [apply replace1_keeps|apply replace_keeps]; assumption.
Qed.

(* non-vacuity: the quote-prefix pattern is one of the sites, and the statement computes on a concrete input *)
Example C03_quote_prefix_example :
  re_sub U rx_block_parser__BLOCK_QUOTE_LEADING (rep_of (RConst [])) [32; 62; 32; 97; 10; 62; 98]%Z = [32; 97; 10; 98]%Z.
Proof. vm_compute. reflexivity. Qed.

(* (2) a captured group lies inside the span its match consumed *)
Theorem C03_group_inside_match : forall r z z' c' g a b,
  wf r = true -> M U r z [] z' c' -> cap_get c' g = Some (a, b) -> z_idx z <= a /\ a <= b /\ b <= z_idx z'.
Proof.
  intros r z z' c' g a b W HM Hc. apply cap_get_In in Hc.
  destruct (caps_within U r W _ _ _ _ HM _ Hc) as [[]|H]. exact H.
Qed.

(* (3) the loop-level partition argument *)
Theorem C03_loop_partition : forall (S : Type) (A : Type) (src : list A) (max : nat) (step : nat -> S -> nat * S) (spans : S -> list (nat * nat)),
  (forall cur st, cur < max -> exists new, spans (snd (step cur st)) = spans st ++ new /\ tiles cur new (fst (step cur st))) ->
  forall fuel st0 cur' st', spans st0 = [] -> gloop fuel max step 0 st0 = Some (cur', st') ->
  concat (map (fun p => cut src (fst p) (snd p)) (spans st')) = firstn cur' src.
Proof.
  intros S A src max step spans Hstep fuel st0 cur' st' H0 Hrun.
  assert (Ht : tiles 0 (spans st') cur').
  { eapply gloop_partition; [exact Hstep| |exact Hrun]. rewrite H0. reflexivity. }
  rewrite (tiles_concat src _ 0 cur' Ht). unfold cut. rewrite Nat.sub_0_r. reflexivity.
Qed.

Print Assumptions C03_sub_sites_keep_words.
Print Assumptions C03_replace_sites_keep_words.
Print Assumptions C03_group_inside_match.
Print Assumptions C03_loop_partition.

(* ===== (4) the block parser model conserves text (Model/Block.v, Proofs/BlockCons.v) =====
   For every text s and every ASCII letter x: the number of x in s equals the number of x in the text fields of the
   block token tree (paragraph / heading text, code and its info string, HTML blocks, at every depth)
   + the number of x in the reference table (label, title, and a pre-image of the destination under escape_url)
   + the number of x in what was discarded, and a discard happens only when a link reference definition repeats a
   label that is already defined (then the table is not empty).
   Hence nothing is emitted twice, and when the text defines no reference nothing is lost: the two multisets of letters
   are equal.  (Digits are excluded: ordered list markers hold digits that become the integer `start`.) *)
Definition ascii_letters : list Z := map Z.of_nat (seq 65 26 ++ seq 97 26).

Lemma memc_In_local c l : memc c l = true -> In c l.
Proof. induction l as [|a l IH]; cbn; [discriminate|]. intros H. apply orb_true_iff in H. destruct H as [H|H]; [left; symmetry; apply Z.eqb_eq; exact H|right; exact (IH H)]. Qed.

Lemma keep_complement (p : Z -> bool) : forallb (fun k => negb (p k)) ascii_letters = true -> forall c, p c = true -> memc c ascii_letters = false.
Proof.
  intros H c Hc. destruct (memc c ascii_letters) eqn:E; [|reflexivity]. apply memc_In_local in E. rewrite forallb_forall in H. specialize (H c E). rewrite Hc in H. discriminate.
Qed.

Ltac lb_cases Hin :=
  cbn [b_lb_rules] in Hin; unfold lb_rules_of in Hin;
  match type of Hin with In _ (lb_named (match ?w with _ => _ end)) => destruct w as [|[|[|w]]] end;
  match type of Hin with In _ (lb_named ?l) => let v := eval vm_compute in (lb_named l) in change (lb_named l) with v in Hin end;
  cbn [In] in Hin; repeat (destruct Hin as [Hin|Hin]; [inversion Hin; subst; first [split; vm_compute; reflexivity|vm_compute; reflexivity|discriminate]|]); try contradiction.

Lemma block_cfg_cons : forall C, block_cfg = Some C -> bcfg_cons C ascii_letters.
Proof.
  intros C H. unfold block_cfg in H.
  match type of H with context [opt_all ?l] => let v := eval vm_compute in (opt_all l) in change (opt_all l) with v in H end.
  inversion H; subst C; clear H.
  constructor; cbn [b_uni b_spec b_is_ws b_item_rx b_bracket_start b_bracket b_href_block b_title b_blank_to_line b_quote_trim b_quote_leading
                     b_expand_tab b_strip_end b_escape_char b_indent_code_trim b_atx_trim b_blank_line b_line_has_text].
  - reflexivity.
  - reflexivity.
  - apply keep_complement. vm_compute. reflexivity.
  - reflexivity.
  - reflexivity.
  - intros r [Hk|[->|(w & Hin)]]; [discriminate|vm_compute; reflexivity|lb_cases Hin].
  - intros r [Hk|[->|(w & Hin)]]; [discriminate|split; vm_compute; reflexivity|lb_cases Hin].
  - intros r [Hk|[->|(w & Hin)]]; [discriminate|split; vm_compute; reflexivity|lb_cases Hin].
  - intros r [Hk|[->|(w & Hin)]]; [discriminate|split; vm_compute; reflexivity|lb_cases Hin].
  - intros r [Hk|[->|(w & Hin)]]; [discriminate|split; vm_compute; reflexivity|lb_cases Hin].
  - intros r [Hk|[->|(w & Hin)]]; [discriminate|vm_compute; reflexivity|lb_cases Hin].
  - split; vm_compute; reflexivity.
  - vm_compute. reflexivity.
  - apply keep_complement. vm_compute. reflexivity.
  - intros w r Hin. lb_cases Hin.
  - intros r [Hk|[->|(w & Hin)]]; [discriminate|split; vm_compute; reflexivity|lb_cases Hin].
  - intros r [Hk|[->|(w & Hin)]]; [discriminate|split; vm_compute; reflexivity|lb_cases Hin].
  - intros b w. unfold item_rx_of.
    repeat match goal with |- context [if ?c then _ else _] => destruct c end; destruct w as [|[|[|w]]]; split; vm_compute; reflexivity.
  - intros r [Hk|[->|(w & Hin)]]; [discriminate|vm_compute; reflexivity|lb_cases Hin].
  - vm_compute. reflexivity.
  - vm_compute. reflexivity.
  - vm_compute. reflexivity.
  - vm_compute. reflexivity.
  - vm_compute. reflexivity.
  - split; vm_compute; reflexivity.
  - split; vm_compute; reflexivity.
  - split; vm_compute; reflexivity.
  - split; vm_compute; reflexivity.
  - split; vm_compute; reflexivity.
  - split; vm_compute; reflexivity.
  - split; vm_compute; reflexivity.
Qed.

Theorem C03_block_parse_conserves_letters : forall C s toks rf x, block_cfg = Some C -> block_parse C s = Ok (toks, rf) ->
  exists n d, RW C ascii_letters x rf n /\ tws ascii_letters x toks + n + d = mu ascii_letters x s /\ (rf = [] -> d = 0).
Proof. intros C s toks rf x HC. exact (block_parse_conserves C ascii_letters x (block_cfg_ok C HC) (block_cfg_cons C HC) s toks rf). Qed.

(* nothing is emitted twice: tree and table together never hold more of a letter than the source *)
Corollary C03_block_parse_never_duplicates : forall C s toks rf x, block_cfg = Some C -> block_parse C s = Ok (toks, rf) ->
  exists n, RW C ascii_letters x rf n /\ tws ascii_letters x toks + n <= mu ascii_letters x s.
Proof.
  intros C s toks rf x HC H. destruct (C03_block_parse_conserves_letters C s toks rf x HC H) as (n & d & R & E & _). exists n. split; [exact R|lia].
Qed.

(* nothing is lost: a text that defines no reference keeps every letter, exactly as often, in its token tree *)
Corollary C03_block_parse_loses_nothing : forall C s toks x, block_cfg = Some C -> block_parse C s = Ok (toks, []) ->
  tws ascii_letters x toks = mu ascii_letters x s.
Proof.
  intros C s toks x HC H. destruct (C03_block_parse_conserves_letters C s toks [] x HC H) as (n & d & R & E & Z).
  rewrite (Z eq_refl) in E. inversion R as [|rf0 n0 ? ? ? ? ? ? ? Hx]; [lia|]. destruct rf0; discriminate.
Qed.

(* non-vacuity: a quote that is interrupted by a list, a fenced block with an info string, a setext heading and a
   reference definition with a title - the model parses it, and the letter a (97) occurs 13 times: 10 in the tree, 3 in the table entry (label, destination, title) *)
(* "> alpha a\nlazy a\n- item a\n  more\n\n```lang a\ncode a\n```\nTitle a\n===\n\n[lab]: /a 'ta'\n" *)
Definition c03_sample : str :=
  [62; 32; 97; 108; 112; 104; 97; 32; 97; 10; 108; 97; 122; 121; 32; 97; 10; 45; 32; 105; 116; 101; 109; 32; 97; 10; 32; 32; 109; 111; 114; 101; 10; 10; 96; 96; 96; 108; 97; 110; 103; 32; 97; 10; 99; 111; 100; 101; 32; 97; 10; 96; 96; 96; 10; 84; 105; 116; 108; 101; 32; 97; 10; 61; 61; 61; 10; 10; 91; 108; 97; 98; 93; 58; 32; 47; 97; 32; 39; 116; 97; 39; 10]%Z.
Example C03_conservation_example :
  match block_cfg with
  | Some C => match block_parse C c03_sample with
              | Ok (toks, rf) => (tws ascii_letters 97%Z toks, List.length rf, mu ascii_letters 97%Z c03_sample) = (10, 1, 13)
              | _ => False
              end
  | None => False
  end.
Proof. vm_compute. reflexivity. Qed.

Print Assumptions C03_block_parse_conserves_letters.
Print Assumptions C03_block_parse_never_duplicates.
Print Assumptions C03_block_parse_loses_nothing.
