(* C03 — parsing neither loses nor duplicates document text.  PARTIAL (see DESIGN.md).
   Proved here, for every subject string:
   (1) every pattern.sub and str.replace call site of the parse path (enumerated from the current source by the
       translator, coq/Gen/SubSitesGen.v) keeps the sequence of ASCII letters and digits of its argument: it can
       remove or insert only punctuation and white space, so no word is lost, duplicated or reordered by the
       container projections (quote prefix removal, indentation trimming, tab expansion, ATX closing sequence,
       trailing blank removal, definition-list markers, spoiler markers, back-slash unescaping);
   (2) a captured group is always a stretch of the text its match consumed (no handler can obtain text from outside
       the span it reports as consumed through a group);
   (3) the scanner loop: if every step records spans tiling exactly the stretch the cursor moved over, the spans
       recorded at the end tile the source, and their slices concatenate to it (each character in exactly one span).
   NOT proved: that each handler's step records such spans (needs the parser model); the oracle decides it. *)
From Coq Require Import ZArith List Bool Lia Arith.
From Verif Require Import PyStr Rx RxSpec RxAnalysis RxSub RxSubProofs ReplaceProofs Loop LoopProofs UnicodeGen RxGen SubSitesGen.
Import ListNotations.
Local Open Scope nat_scope.

(* 0-9 A-Z a-z *)
(* [alnum], [letters]: Proofs/RxSubProofs.v *)

Fixpoint rx_lookup (k : str) (t : list (str * rx)) : option rx :=
  match t with [] => None | (k', v) :: t' => if str_eqb k k' then Some v else rx_lookup k t' end.


(* the translator's sample of the dynamic pattern has this shape *)
Theorem C03_indent_trim_shape : indent_trim_3 = indent_trim 3.
Proof. reflexivity. Qed.

Definition pattern_of (p : pat_ref) (r : rx) : Prop :=
  match p with
  | PNamed n => rx_lookup n rx_table = Some r
  | PIndentTrim => exists n, r = indent_trim n
  end.

Definition sub_site_ok (site : str * pat_ref * repl) : bool :=
  let '(_, p, k) := site in
  repl_ok alnum k &&
  match p with
  | PNamed n => match rx_lookup n rx_table with Some r => wf r && avoids U alnum r | None => false end
  | PIndentTrim => true
  end.

Theorem C03_sites_translated : subsites_ok = true /\ sub_sites <> [] /\ replace_sites <> [].
Proof. repeat split; discriminate. Qed.

Theorem C03_all_sub_sites_checked : forallb sub_site_ok sub_sites = true.
Proof. vm_compute. reflexivity. Qed.

(* (1a) every pattern.sub site keeps the letters and digits of every subject *)
Theorem C03_sub_sites_keep_words : forall w p k r s,
  In (w, p, k) sub_sites -> pattern_of p r -> letters (re_sub U r (rep_of k) s) = letters s.
Proof.
  intros w p k r s Hin Hp. pose proof C03_all_sub_sites_checked as H. rewrite forallb_forall in H.
  specialize (H _ Hin). cbn [sub_site_ok] in H. apply andb_true_iff in H. destruct H as [Hk Hr].
  destruct p as [n|]; cbn [pattern_of] in Hp.
  - rewrite Hp in Hr. apply andb_true_iff in Hr. destruct Hr as [W A]. apply re_sub_keeps; assumption.
  - destruct Hp as [n ->]. apply re_sub_keeps; [reflexivity|reflexivity|exact Hk].
Qed.

Definition replace_site_ok (site : str * old_ref * str * bool) : bool :=
  let '(_, o, new, _) := site in
  forallb (fun ch => negb (memc ch alnum)) new &&
  match o with OLit old => negb (match old with [] => true | _ => false end) && forallb (fun ch => negb (memc ch alnum)) old | OSpaces => true end.

Theorem C03_all_replace_sites_checked : forallb replace_site_ok replace_sites = true.
Proof. vm_compute. reflexivity. Qed.

Definition old_of (o : old_ref) (old : str) : Prop :=
  match o with OLit x => old = x | OSpaces => exists n, old = repeat 32%Z (S n) end.

(* (1b) every str.replace site keeps the letters and digits of every subject *)
Theorem C03_replace_sites_keep_words : forall w o new once old s,
  In (w, o, new, once) replace_sites -> old_of o old ->
  letters (if once then replace1 old new s else replace old new s) = letters s.
Proof.
  intros w o new once old s Hin Ho. pose proof C03_all_replace_sites_checked as H. rewrite forallb_forall in H.
  specialize (H _ Hin). cbn [replace_site_ok] in H. apply andb_true_iff in H. destruct H as [Hn Hold].
  assert (Hne : old <> [] /\ nokeep alnum old).
  { destruct o as [x|]; cbn [old_of] in Ho.
    - subst x. apply andb_true_iff in Hold. destruct Hold as [H1 H2]. split; [destruct old; [discriminate|discriminate]|].
      apply nokeep_forallb. exact H2.
    - destruct Ho as [n ->]. split; [discriminate|]. apply Forall_forall. intros x Hx. apply repeat_spec in Hx. subst. reflexivity. }
  destruct Hne as [Hne Hk]. apply nokeep_forallb in Hn.
  destruct once; [apply replace1_keeps|apply replace_keeps]; assumption.
Qed.

(* non-vacuity: the quote-prefix pattern is one of the sites, and the statement computes on a concrete input *)
Example C03_quote_prefix_example :
  re_sub U rx_block_parser__BLOCK_QUOTE_LEADING (rep_of (RConst [])) [32; 62; 32; 97; 10; 62; 98]%Z = [32; 97; 10; 98]%Z.
Proof. vm_compute. reflexivity. Qed.

(* (2) a captured group lies inside the span its match consumed *)
Theorem C03_group_inside_match : forall r z z' c' g a b,
  wf r = true -> M U r z [] z' c' -> cap_get c' g = Some (a, b) -> z_idx z <= a /\ a <= b /\ b <= z_idx z'.
Proof.
  intros r z z' c' g a b W HM Hc. apply cap_get_In in Hc.
  destruct (caps_within U r W _ _ _ _ HM _ Hc) as [[]|H]. exact H.
Qed.

(* (3) the loop-level partition argument *)
Theorem C03_loop_partition : forall (S : Type) (A : Type) (src : list A) (max : nat) (step : nat -> S -> nat * S) (spans : S -> list (nat * nat)),
  (forall cur st, cur < max -> exists new, spans (snd (step cur st)) = spans st ++ new /\ tiles cur new (fst (step cur st))) ->
  forall fuel st0 cur' st', spans st0 = [] -> gloop fuel max step 0 st0 = Some (cur', st') ->
  concat (map (fun p => cut src (fst p) (snd p)) (spans st')) = firstn cur' src.
Proof.
  intros S A src max step spans Hstep fuel st0 cur' st' H0 Hrun.
  assert (Ht : tiles 0 (spans st') cur').
  { eapply gloop_partition; [exact Hstep| |exact Hrun]. rewrite H0. reflexivity. }
  rewrite (tiles_concat src _ 0 cur' Ht). unfold cut. rewrite Nat.sub_0_r. reflexivity.
Qed.

Print Assumptions C03_sub_sites_keep_words.
Print Assumptions C03_replace_sites_keep_words.
Print Assumptions C03_group_inside_match.
Print Assumptions C03_loop_partition.
