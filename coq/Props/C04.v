(* C04 — parsing recovers the structure of canonically written documents.  PARTIAL: word text is inert. *)
From Coq Require Import ZArith List Bool Lia.
From Verif Require Import PyStr Rx RxSpec RxAnalysis UnicodeGen RxGen.
Import ListNotations.
Open Scope Z_scope.

Definition letters : list Z := map Z.of_nat (seq 97 26).     (* a..z *)

Definition core_inline : list rx :=
  [rx_inline__escape; rx_inline__codespan; rx_inline__emphasis; rx_inline__link; rx_inline__auto_link;
   rx_inline__auto_email; rx_inline__inline_html; rx_inline__linebreak; rx_inline__HARD_LINEBREAK].
Definition core_block : list rx :=
  [rx_block__fenced_code; rx_block__indent_code; rx_block__atx_heading; rx_block__setex_heading; rx_block__thematic_break;
   rx_block__block_quote; rx_block__list; rx_block__ref_link; rx_block__raw_html; rx_block__blank_line;
   rx_block__block_html].

Definition inert (r : rx) : bool := wf r && negb (nullable r) && first_excludes U letters r.

Theorem C04_no_core_rule_starts_at_a_letter :
  forallb inert core_inline = true /\ forallb inert core_block = true.
Proof. split; vm_compute; reflexivity. Qed.

(* at a lower-case letter no core inline rule and no core block rule matches: word text is only ever
   produced by the fallbacks (text token / paragraph) *)
Theorem C04_letters_are_inert : forall r z ch,
  In r core_inline \/ In r core_block -> hd_error (z_rest z) = Some ch -> memc ch letters = true -> match_at U r z = None.
Proof.
  intros r z ch Hin Hh Hl. destruct C04_no_core_rule_starts_at_a_letter as [H1 H2]. rewrite forallb_forall in H1, H2.
  assert (H : inert r = true) by (destruct Hin as [Hin|Hin]; [apply H1|apply H2]; exact Hin).
  unfold inert in H. apply andb_true_iff in H. destruct H as [H Hf]. apply andb_true_iff in H. destruct H as [Hw Hn].
  apply negb_true_iff in Hn. exact (cannot_start_at U letters r z ch Hw Hn Hf Hh Hl).
Qed.

Example C04_letters_example : memc 113 letters = true /\ length core_inline = 9%nat /\ length core_block = 11%nat.
Proof. vm_compute. repeat split; reflexivity. Qed.

Print Assumptions C04_letters_are_inert.
