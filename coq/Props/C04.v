(* C04 — parsing recovers the structure of canonically written documents.  PARTIAL: word text is inert. *)
From Coq Require Import ZArith List Bool Lia.
From Verif Require Import PyStr Rx RxSpec RxAnalysis UnicodeGen RxGen Inline InlineProofs InlineInert Block BlockProofs BlockInert Entry.
Import ListNotations.
Open Scope Z_scope.

Definition letters : list Z := map Z.of_nat (seq 97 26).     (* a..z *)

Definition core_inline : list rx :=
  [rx_inline__escape; rx_inline__codespan; rx_inline__emphasis; rx_inline__link; rx_inline__auto_link;
   rx_inline__auto_email; rx_inline__inline_html; rx_inline__linebreak; rx_inline__HARD_LINEBREAK].
Definition core_block : list rx :=
  [rx_block__fenced_code; rx_block__indent_code; rx_block__atx_heading; rx_block__setex_heading; rx_block__thematic_break;
   rx_block__block_quote; rx_block__list; rx_block__ref_link; rx_block__raw_html; rx_block__blank_line;
   rx_block__block_html].

Definition inert (r : rx) : bool := wf r && negb (nullable r) && first_excludes U letters r.

Theorem C04_no_core_rule_starts_at_a_letter :
  forallb inert core_inline = true /\ forallb inert core_block = true.
Proof. split; vm_compute; reflexivity. Qed.

(* at a lower-case letter no core inline rule and no core block rule matches: word text is only ever
   produced by the fallbacks (text token / paragraph) *)
Theorem C04_letters_are_inert : forall r z ch,
  In r core_inline \/ In r core_block -> hd_error (z_rest z) = Some ch -> memc ch letters = true -> match_at U r z = None.
Proof.
  intros r z ch Hin Hh Hl. destruct C04_no_core_rule_starts_at_a_letter as [H1 H2]. rewrite forallb_forall in H1, H2.
  assert (H : inert r = true) by (destruct Hin as [Hin|Hin]; [apply H1|apply H2]; exact Hin).
  unfold inert in H. apply andb_true_iff in H. destruct H as [H Hf]. apply andb_true_iff in H. destruct H as [Hw Hn].
  apply negb_true_iff in Hn. exact (cannot_start_at U letters r z ch Hw Hn Hf Hh Hl).
Qed.

Example C04_letters_example : memc 113 letters = true /\ length core_inline = 9%nat /\ length core_block = 11%nat.
Proof. vm_compute. repeat split; reflexivity. Qed.

(* ---- in terms of the inline parser model: a run of words is one text token ---- *)
(* lower-case and upper-case letters, digits and the space; the text contains no newline *)
Definition word_chars : list Z := map Z.of_nat (seq 97 26 ++ seq 65 26 ++ seq 48 10) ++ [32].

Lemma inline_rules_quiet : forall hw refs C, inline_cfg hw refs = Some C ->
  forall rk, In rk (c_rules C) -> quiet C word_chars [10] (c_spec C rk) = true.
Proof.
  intros hw refs C H. unfold inline_cfg, inline_cfg_x in H. destruct hw; cbv beta in H;
    match type of H with context [opt_all ?l] => let v := eval vm_compute in (opt_all l) in change (opt_all l) with v in H end;
    inversion H; subst C; clear H; cbn [c_rules c_spec c_uni];
    intros rk Hin; cbn in Hin; repeat (destruct Hin as [<-|Hin]; [vm_compute; reflexivity|]); contradiction.
Qed.

(* for every text of letters, digits and single or multiple spaces (no newline): the model of InlineParser returns
   exactly [text(raw = the whole text)], with or without hard_wrap, for every reference table *)
Theorem C04_words_parse_to_one_text_token : forall hw refs C s, inline_cfg hw refs = Some C ->
  (forall ch, In ch s -> memc ch word_chars = true) -> inline_parse C s = Ok [TText s].
Proof.
  intros hw refs C s HC Hs. apply (plain_text_is_one_token C word_chars [10]).
  - exact (inline_rules_quiet hw refs C HC).
  - intros ch Hin. split; [apply Hs; exact Hin|]. specialize (Hs ch Hin).
    destruct (Z.eq_dec ch 10) as [->|N]; [vm_compute in Hs; discriminate|].
    cbn. destruct (Z.eqb_spec ch 10); [contradiction|reflexivity].
Qed.

(* ---- in terms of the block parser model: lines of words are one paragraph ---- *)
Lemma block_rules_quiet : forall C, block_cfg = Some C -> forall rk, In rk (b_rules C) -> bquiet C letters (b_spec C rk) = true.
Proof.
  intros C H. unfold block_cfg in H.
  match type of H with context [opt_all ?l] => let v := eval vm_compute in (opt_all l) in change (opt_all l) with v in H end.
  inversion H; subst C; clear H. cbn [b_rules b_spec b_uni].
  intros rk Hin. cbn in Hin. repeat (destruct Hin as [<-|Hin]; [vm_compute; reflexivity|]). contradiction.
Qed.

(* for every non-empty list of lines without inner newlines that each begin with a lower-case letter (whatever else
   they contain: digits, punctuation, markup characters in the middle of a line are not block syntax), the block
   parser model returns exactly one paragraph holding the whole text, and no reference definition *)
Theorem C04_lines_of_text_are_one_paragraph : forall C ls, block_cfg = Some C -> ls <> [] -> Forall (good_line letters) ls ->
  block_parse C (flat ls) = Ok ([BParagraph (flat ls)], []).
Proof.
  intros C ls HC Hne Hg. apply (lines_of_words_are_one_paragraph C letters (block_rules_quiet C HC)).
  - destruct ls as [|l ls]; [contradiction|]. cbn. destruct l; discriminate.
  - apply flat_lines_begin. exact Hg.
Qed.

Example C04_good_line_example : good_line letters [102; 111; 111; 32; 42; 98; 97; 114; 42]%Z.
Proof. split; [exists 102%Z, [111; 111; 32; 42; 98; 97; 114; 42]%Z; split; reflexivity|cbn; intuition discriminate]. Qed.

(* ---- known findings as theorems about the faithful model (the same inputs are replayed on the implementation by the
   check; the correspondence run ties model and code) ---- *)
(* KNOWN FINDING escaped-star-closes-emphasis, reproduced by the model: the canonical text  *a \\*b c*  (emphasis around 'a *b c') parses with the emphasis closed at the escaped star: <p><em>a \\</em>b c*</p> *)
Example C04_escaped_star_closes_emphasis_refuted :
  core_html true false [42; 97; 32; 92; 42; 98; 32; 99; 42; 10]%Z
  = Ok [60; 112; 62; 60; 101; 109; 62; 97; 32; 92; 60; 47; 101; 109; 62; 98; 32; 99; 42; 60; 47; 112; 62; 10]%Z.
Proof. vm_compute. reflexivity. Qed.

(* KNOWN FINDING codespan-delimiter-inside-emphasis: *a `x*y` b* loses its emphasis *)
Example C04_codespan_delimiter_inside_emphasis_refuted :
  core_html true false [42; 97; 32; 96; 120; 42; 121; 96; 32; 98; 42; 10]%Z
  = Ok [60; 112; 62; 42; 97; 32; 60; 99; 111; 100; 101; 62; 120; 42; 121; 60; 47; 99; 111; 100; 101; 62; 32; 98; 42; 60; 47; 112; 62; 10]%Z.
Proof. vm_compute. reflexivity. Qed.

(* KNOWN FINDING escaped-backtick-opens-codespan-in-link-text: the link is lost and a code span opens at the escaped backtick *)
Example C04_escaped_backtick_opens_codespan_refuted :
  core_html true false [91; 92; 96; 93; 40; 47; 117; 41; 32; 96; 99; 96; 10]%Z
  = Ok [60; 112; 62; 91; 92; 60; 99; 111; 100; 101; 62; 93; 40; 47; 117; 41; 32; 60; 47; 99; 111; 100; 101; 62; 99; 96; 60; 47; 112; 62; 10]%Z.
Proof. vm_compute. reflexivity. Qed.

(* KNOWN FINDING blank-after-nested-list-keeps-item-tight: 'para' after a blank line is not a paragraph *)
Example C04_blank_after_nested_list_refuted :
  core_html true false [45; 32; 45; 32; 97; 10; 10; 32; 32; 112; 97; 114; 97; 10]%Z
  = Ok [60; 117; 108; 62; 10; 60; 108; 105; 62; 60; 117; 108; 62; 10; 60; 108; 105; 62; 97; 60; 47; 108; 105; 62; 10; 60; 47; 117; 108; 62; 10; 112; 97; 114; 97; 60; 47; 108; 105; 62; 10; 60; 47; 117; 108; 62; 10]%Z.
Proof. vm_compute. reflexivity. Qed.

(* KNOWN FINDING escaped-backslash-before-closing-bracket: the link stays literal *)
Example C04_escaped_backslash_before_bracket_refuted :
  core_html true false [91; 120; 92; 10; 92; 92; 93; 40; 47; 117; 41; 32; 121; 10]%Z
  = Ok [60; 112; 62; 91; 120; 60; 98; 114; 32; 47; 62; 10; 92; 93; 40; 47; 117; 41; 32; 121; 60; 47; 112; 62; 10]%Z.
Proof. vm_compute. reflexivity. Qed.

Print Assumptions C04_letters_are_inert.
Print Assumptions C04_words_parse_to_one_text_token.
Print Assumptions C04_lines_of_text_are_one_paragraph.
