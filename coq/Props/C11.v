(* C11 — code is reproduced verbatim.  Proved: (a) the HTML of a code block / code span is the template's
   fixed frame around escape(raw), and unescaping it gives raw back; (b) the code-span post-processing is the
   documented rule.  Fence/indent extraction in containers needs the parser model: decided by the oracle. *)
From Coq Require Import ZArith List Bool Lia.
From Verif Require Import PyStr Util UtilGen UtilProofs Tmpl HtmlRender TmplCheck TmplGen C18 CodeSpan NormalizeProofs CodeGen Rx RxSub Inline Block Entry.
Import ListNotations.
Open Scope Z_scope.

Theorem C11_tie_skeletons : code_skeletons_ok = true.
Proof. reflexivity. Qed.

Definition su (u : str) : str := safe_url harmful_protocols good_data_protocols escape_ops u.
Definition E (esc : bool) : renv := {| r_escape := esc; r_safe_url := su; r_tables := T |}.

(* (a) for every shape (info present or not, escape on or off) the block_code template ends with
       <escape(code)> </code></pre>\n  and the code parameter occurs nowhere else *)
Definition code_tail : list seg := [SIns 0%nat [FEscape]; SLit [60; 47; 99; 111; 100; 101; 62; 60; 47; 112; 114; 101; 62; 10]].
Definition ends_with_code (segs : list seg) : bool :=
  match rev segs with
  | SLit t :: SIns 0%nat [FEscape] :: SLit pre :: rest =>
      str_eqb t [60; 47; 99; 111; 100; 101; 62; 60; 47; 112; 114; 101; 62; 10] && endswith pre [62] &&
      forallb (fun sg => match sg with SIns 0%nat _ => false | _ => true end) rest
  | _ => false
  end.

Theorem C11_block_code_frame :
  forallb (fun sh => ends_with_code (eval (t_body tmpl_html_block_code) sh)) (shapes (length (t_atoms tmpl_html_block_code))) = true.
Proof. vm_compute. reflexivity. Qed.

Theorem C11_codespan_frame : forall sh,
  eval (t_body tmpl_html_codespan) sh = [SLit [60; 99; 111; 100; 101; 62]; SIns 0%nat [FEscape]; SLit [60; 47; 99; 111; 100; 101; 62]].
Proof. intros sh. reflexivity. Qed.

(* the inserted piece is escape(raw), and a browser reads raw back from it *)
Theorem C11_code_piece_unescapes_to_raw : forall esc vals raw,
  nth 0 vals PNone = PStr raw ->
  html_unescape T (fill_seg (E esc) escape_ops vals (SIns 0%nat [FEscape])) = raw.
Proof.
  intros esc vals raw H. cbn [fill_seg]. rewrite H. cbn [pv_str]. unfold apply_filters. cbn [apply_filters_fuel].
  exact (C18_escape_roundtrip raw true).
Qed.

(* ... and contains no markup of its own *)
Theorem C11_code_piece_has_no_markup : forall esc vals raw,
  nth 0 vals PNone = PStr raw ->
  Forall (fun c => c <> 60 /\ c <> 62 /\ c <> 34) (fill_seg (E esc) escape_ops vals (SIns 0%nat [FEscape])).
Proof.
  intros esc vals raw H. cbn [fill_seg]. rewrite H. cbn [pv_str]. unfold apply_filters. cbn [apply_filters_fuel].
  exact (proj1 (C18_escape_no_special raw)).
Qed.

(* (b) code spans: newlines become spaces; one space is trimmed from both ends when both are there and the
       content is not all white space; nothing else changes *)
Definition nl2sp (c : Z) : Z := if c =? 10 then 32 else c.

Theorem C11_codespan_rule : forall c,
  let c1 := map nl2sp c in
  codespan_text T c =
  match strip_p (is_ws T) c1 with
  | [] => c1
  | _ => if startswith c1 [32] && endswith c1 [32] then slice c1 1 (length c1 - 1) else c1
  end.
Proof.
  intros c. unfold codespan_text. rewrite replace_single. reflexivity.
Qed.

Example C11_codespan_examples :
  codespan_text T [32; 97; 32] = [97] /\ codespan_text T [32; 32] = [32; 32] /\ codespan_text T [97; 10; 98] = [97; 32; 98] /\
  codespan_text T [32; 96; 96; 32; 32] = [96; 96; 32] /\ codespan_text T [32; 97] = [32; 97].
Proof. vm_compute. repeat split; reflexivity. Qed.

(* ---- extraction, on the block parser model (Model/Block.v): the raw text of a fenced code block whose opening fence
   is not indented is a contiguous stretch of the source, untouched; with an indented fence it is that stretch with at
   most that many leading spaces removed per line (Pattern.sub with ^ {0,n}, which keeps every non-space character:
   C03_sub_sites_keep_words) ---- *)
Theorem C11_fenced_raw_is_a_source_slice : forall C m st rf st2 rf2 e,
  handle_fenced C m st rf = (st2, rf2, Some e) ->
  exists a b marker info,
    s_tokens st2 = s_tokens st ++
      [BCode (let body := slice (s_src st) a b in
              if negb (Nat.eqb (List.length (Block.group_n (s_src st) m 1)) 0) && negb (Nat.eqb (List.length body) 0)
              then re_sub (b_uni C) (indent_trim (List.length (Block.group_n (s_src st) m 1))) (rep_of (RConst [])) body else body)
             true marker info].
Proof.
  intros C m st rf st2 rf2 e H. unfold handle_fenced in H. cbv zeta in H.
  destruct (_ && memc 96 _); [discriminate|].
  destruct (rsearch C _ (s_src st) _) as [m2|]; inversion H; subst; cbn; do 4 eexists; reflexivity.
Qed.

(* ---- known findings as theorems about the faithful model (the same inputs are replayed on the implementation by the
   check; the correspondence run ties model and code) ---- *)
(* KNOWN FINDING leading-tab-in-container, reproduced by the model: the tab that starts a code line inside a list item comes out as two spaces *)
Example C11_leading_tab_in_container_refuted :
  core_html true false [45; 32; 96; 96; 96; 10; 32; 32; 9; 84; 97; 98; 10; 32; 32; 96; 96; 96; 10]%Z
  = Ok [60; 117; 108; 62; 10; 60; 108; 105; 62; 60; 112; 114; 101; 62; 60; 99; 111; 100; 101; 62; 32; 32; 84; 97; 98; 10; 60; 47; 99; 111; 100; 101; 62; 60; 47; 112; 114; 101; 62; 10; 60; 47; 108; 105; 62; 10; 60; 47; 117; 108; 62; 10]%Z.
Proof. vm_compute. reflexivity. Qed.

(* KNOWN FINDING whitespace-only-line-in-item-code, reproduced by the model: the line of six spaces inside the fenced code of the
   item ('- ```' / '  a' / '      ' / '  b' / '  ```') comes out empty instead of keeping the four spaces beyond the item indentation *)
Example C11_whitespace_only_line_in_item_code_refuted :
  core_html true false [45; 32; 96; 96; 96; 10; 32; 32; 97; 10; 32; 32; 32; 32; 32; 32; 10; 32; 32; 98; 10; 32; 32; 96; 96; 96; 10]%Z
  = Ok [60; 117; 108; 62; 10; 60; 108; 105; 62; 60; 112; 114; 101; 62; 60; 99; 111; 100; 101; 62; 97; 10; 10; 98; 10; 60; 47; 99; 111; 100; 101; 62; 60; 47; 112; 114; 101; 62; 10; 60; 47; 108; 105; 62; 10; 60; 47; 117; 108; 62; 10]%Z.
Proof. vm_compute. reflexivity. Qed.

Print Assumptions C11_code_piece_unescapes_to_raw.
Print Assumptions C11_codespan_rule.
Print Assumptions C11_fenced_raw_is_a_source_slice.
