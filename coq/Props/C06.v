(* C06 — renderers produce a faithful, well-formed image of the token tree.  PARTIAL (see DESIGN.md):
   finite structural theorems about every HTML render template (all feasible shapes, escape on), and the
   embedding lemmas; the induction over the token tree and the Markdown/RST renderers are covered by the
   oracle only. *)
From Coq Require Import ZArith List Bool Lia.
From Verif Require Import PyStr Util UtilGen UtilProofs Tmpl HtmlRender TmplCheck TmplBalance TmplGen C18 Inline Block Doc HtmlDoc HtmlDocProofs HtmlWellNested HtmlLeaves Entry Rx RxAnalysis RxSub RxSubProofs RxGen MdRender MdDoc MdProofs RstDoc RstProofs MdRenderGen Normalize NormalizeGen UnicodeGen.
Import ListNotations.
Open Scope Z_scope.

(* 1. well-formedness: the literal tags of every template, for every shape, are balanced around the holes
      of its rendered children (a child whose closing </p> is cut off counts as an open <p>) *)
Theorem C06_templates_balanced : forallb template_balanced all_templates = true.
Proof. vm_compute. reflexivity. Qed.

(* 2. every rendered child is inserted exactly once *)
Theorem C06_children_inserted_once : forallb children_once all_templates = true.
Proof. vm_compute. reflexivity. Qed.

(* 3. templates of inline tokens spell phrasing elements only: no block element can appear inside <p>, <hN>, <td> *)
Definition S (s : list Z) : str := s.
Definition phrasing : list str :=
  [S [101; 109]; S [115; 116; 114; 111; 110; 103]; S [97]; S [105; 109; 103]; S [99; 111; 100; 101]; S [98; 114]; S [100; 101; 108];
   S [109; 97; 114; 107]; S [105; 110; 115]; S [115; 117; 112]; S [115; 117; 98]; S [115; 112; 97; 110]; S [97; 98; 98; 114];
   S [114; 117; 98; 121]; S [114; 116]].
Definition inline_names : list str :=
  map (fun s => [104; 116; 109; 108; 46] ++ s)
      [S [116; 101; 120; 116]; S [101; 109; 112; 104; 97; 115; 105; 115]; S [115; 116; 114; 111; 110; 103]; S [108; 105; 110; 107];
       S [105; 109; 97; 103; 101]; S [99; 111; 100; 101; 115; 112; 97; 110]; S [108; 105; 110; 101; 98; 114; 101; 97; 107];
       S [115; 111; 102; 116; 98; 114; 101; 97; 107]; S [105; 110; 108; 105; 110; 101; 95; 104; 116; 109; 108]].
Definition is_inline_template (t : template) : bool :=
  existsb (str_eqb (t_name t)) inline_names ||
  existsb (fun suffix => endswith (t_name t) suffix)
    [S [114; 101; 110; 100; 101; 114; 95; 115; 116; 114; 105; 107; 101; 116; 104; 114; 111; 117; 103; 104];
     S [114; 101; 110; 100; 101; 114; 95; 109; 97; 114; 107]; S [114; 101; 110; 100; 101; 114; 95; 105; 110; 115; 101; 114; 116];
     S [114; 101; 110; 100; 101; 114; 95; 115; 117; 112; 101; 114; 115; 99; 114; 105; 112; 116];
     S [114; 101; 110; 100; 101; 114; 95; 115; 117; 98; 115; 99; 114; 105; 112; 116];
     S [114; 101; 110; 100; 101; 114; 95; 102; 111; 111; 116; 110; 111; 116; 101; 95; 114; 101; 102];
     S [114; 101; 110; 100; 101; 114; 95; 97; 98; 98; 114]; S [114; 101; 110; 100; 101; 114; 95; 105; 110; 108; 105; 110; 101; 95; 109; 97; 116; 104];
     S [114; 101; 110; 100; 101; 114; 95; 114; 117; 98; 121]; S [114; 101; 110; 100; 101; 114; 95; 105; 110; 108; 105; 110; 101; 95; 115; 112; 111; 105; 108; 101; 114]].

Theorem C06_inline_templates_are_phrasing :
  forallb (fun e : template * list pkind * list (nat * bool) =>
             negb (is_inline_template (fst (fst e))) || only_tags phrasing e) all_templates = true.
Proof. vm_compute. reflexivity. Qed.

Theorem C06_inline_template_count :
  (19 <=? length (List.filter (fun e : template * list pkind * list (nat * bool) => is_inline_template (fst (fst e))) all_templates))%nat = true.
Proof. vm_compute. reflexivity. Qed.

(* 4. leaves: text, code spans, inline and block raw HTML, code blocks insert their text once, through escape only *)
Definition leaf_names : list str :=
  map (fun s => [104; 116; 109; 108; 46] ++ s)
      [S [116; 101; 120; 116]; S [99; 111; 100; 101; 115; 112; 97; 110]; S [105; 110; 108; 105; 110; 101; 95; 104; 116; 109; 108];
       S [98; 108; 111; 99; 107; 95; 99; 111; 100; 101]; S [98; 108; 111; 99; 107; 95; 104; 116; 109; 108]].
Theorem C06_leaves_escaped_once :
  forallb (fun e : template * list pkind * list (nat * bool) =>
             negb (existsb (str_eqb (t_name (fst (fst e)))) leaf_names) || leaf_escaped e 0%nat) all_templates = true
  /\ length (List.filter (fun e : template * list pkind * list (nat * bool) => existsb (str_eqb (t_name (fst (fst e)))) leaf_names) all_templates) = 5%nat.
Proof. split; vm_compute; reflexivity. Qed.

(* 5. what "inserted" means for the output string: an inserted piece is an infix, and pieces keep their order *)
Theorem C06_inserted_piece_is_in_the_output : forall E ops segs vals sg, In sg segs ->
  exists a b, fill E ops segs vals = a ++ fill_seg E ops vals sg ++ b.
Proof. exact fill_contains. Qed.

Theorem C06_pieces_keep_their_order : forall E ops l1 s1 l2 s2 l3 vals,
  exists a b c, fill E ops (l1 ++ s1 :: l2 ++ s2 :: l3) vals = a ++ fill_seg E ops vals s1 ++ b ++ fill_seg E ops vals s2 ++ c.
Proof. exact fill_order. Qed.

(* ---- the induction over the token tree, on the model of the whole core conversion (Model/Doc.v + HtmlDoc.v; tied to
   create_markdown(escape=True) by the HTML correspondence run of this check) ---- *)
(* For EVERY document the HTML output is a string of the balanced-tag grammar [html false]: text without < > and
   double-quote; elements <name attrs> body </name> with body again in the grammar; void elements <name attrs />;
   attribute values free of the three characters; and p, h1..h6, pre, a, em, strong, code contain phrasing elements only
   (no block element inside a paragraph, heading or link). *)
Lemma C06_escape_free : forall s, special_free (run_escape escape_ops true s).
Proof. intros s. exact (proj1 (C18_escape_no_special s)). Qed.

Lemma ext_template_cases6 : forall name (P : template -> Prop),
  P tmpl_formatting_render_strikethrough -> P tmpl_formatting_render_mark -> P tmpl_formatting_render_insert ->
  P tmpl_formatting_render_superscript -> P tmpl_formatting_render_subscript -> P tmpl_html_emphasis -> P (ext_template name).
Proof. intros name P H1 H2 H3 H4 H5 H6. unfold ext_template. repeat (destruct (is_name name _); [assumption|]). assumption. Qed.

Lemma ext_render : forall name ch, exists tag, In tag ext_tags /\
  render (html_env true) escape_ops (ext_template name) [PStr ch] = [60] ++ tag ++ [62] ++ ch ++ [60; 47] ++ tag ++ [62].
Proof.
  intros name ch.
  apply (ext_template_cases6 name (fun t => exists tag, In tag ext_tags /\ render (html_env true) escape_ops t [PStr ch] = [60] ++ tag ++ [62] ++ ch ++ [60; 47] ++ tag ++ [62])).
  - exists s_del. split; [cbn; tauto|cbn; rewrite ?app_nil_r; reflexivity].
  - exists s_mark. split; [cbn; tauto|cbn; rewrite ?app_nil_r; reflexivity].
  - exists s_ins. split; [cbn; tauto|cbn; rewrite ?app_nil_r; reflexivity].
  - exists s_sup. split; [cbn; tauto|cbn; rewrite ?app_nil_r; reflexivity].
  - exists s_sub. split; [cbn; tauto|cbn; rewrite ?app_nil_r; reflexivity].
  - exists s_em. split; [cbn; tauto|cbn; rewrite ?app_nil_r; reflexivity].
Qed.

(* px: with the six inline plugins of the model *)
Theorem C06_whole_document_is_well_nested : forall px hw s out, html_x px true hw s = Ok out -> html false out.
Proof.
  intros px hw s out H. unfold html_x, bind in H. destruct (doc_parse_x px hw s) as [ast| |]; try discriminate.
  inversion H; subst out.
  apply (doc_html (html_env true) escape_ops ext_template eq_refl ext_render C06_escape_free).
  - intros u. exact (safe_url_free escape_ops harmful_protocols good_data_protocols C06_escape_free u).
  - intros t. exact (C18_safe_entity_no_special t).
Qed.

(* the grammar is not trivially inhabited: a lone angle bracket is not in it, nor a tag with an unterminated attribute value *)
Example C06_grammar_rejects : ~ html false [60] /\ ~ html false [60; 97; 32; 98; 61; 34; 62].
Proof. split; [apply grammar_rejects_lt|apply grammar_rejects_open_attr]. Qed.

(* and every string of the grammar is read back to character data by the context reader of C02 *)
Theorem C06_well_nested_output_is_a_fragment : forall px hw s out, html_x px true hw s = Ok out -> hrun Data out = Data.
Proof. intros px hw s out H. exact (html_returns_to_data false out (C06_whole_document_is_well_nested px hw s out H)). Qed.

(* ---- every leaf is shown: for EVERY document, the escaped HTML output contains the image of every text, code-span,
   inline-HTML, code-block and HTML-block leaf of the AST, one after the other in document order; the image of a leaf is
   escape(raw) (escape(raw.strip()) for an HTML block), and HTML-unescaping it gives the raw text back (C18).  Text
   under an image is not a leaf of this statement (it goes through striptags into the alt attribute; the oracle covers
   it).  The per-template facts are decided on the regenerated templates. ---- *)
Lemma ext_shows : forall name, shows (ext_template name) 0 is_plain = true.
Proof. intros name. apply (ext_template_cases6 name (fun t => shows t 0 is_plain = true)); vm_compute; reflexivity. Qed.

Definition leaves_of (ast : list node) : list str := flat_map (HtmlLeaves.node_leaves (html_env true) escape_ops) ast.

Theorem C06_whole_document_shows_every_leaf_in_order : forall px hw s ast out,
  doc_parse_x px hw s = Ok ast -> html_x px true hw s = Ok out -> in_order (leaves_of ast) out.
Proof.
  intros px hw s ast out Ha H. unfold html_x, bind in H. rewrite Ha in H. inversion H; subst.
  apply (doc_leaves (html_env true) escape_ops ext_template eq_refl ext_shows); vm_compute; reflexivity.
Qed.

(* the document a<b *c* `d&` *)
Example C06_leaves_not_vacuous :
  match doc_parse_x false false [97; 60; 98; 32; 42; 99; 42; 32; 96; 100; 38; 96] with
  | Ok ast => leaves_of ast = [[97; 38; 108; 116; 59; 98; 32]; [99]; [32]; [100; 38; 97; 109; 112; 59]]
  | _ => False
  end.
Proof. vm_compute. reflexivity. Qed.

(* ---- the Markdown renderer (model coq/Model/MdDoc.v of renderers/markdown.py and _list.py over the core AST; tied by
   skeletons, regenerated patterns and the Markdown correspondence run of this check): for EVERY document the letters and
   digits of all text, code-span, inline-HTML, code-block and HTML-block leaves of the AST, in document order, are a
   subsequence of the letters and digits of the output: quoting, list indentation, the removal of trailing quote lines and
   strip_end never drop or reorder a word character of a leaf. ---- *)
Definition md_ast (hw : bool) (s : str) : res (list node * refs) :=
  match block_cfg, inline_cfg_x false hw [] with
  | Some CB, Some d => doc_parse_rf CB (fun rf => inline_cfg_or false hw rf d) (run_ops parse_norm_ops) s
  | _, _ => Exn
  end.

Theorem C06_markdown_output_keeps_every_leaf : forall hw s out, md_x hw s = Ok out ->
  exists ast rf, md_ast hw s = Ok (ast, rf) /\
                 subseq (flat_map (fun x => letters x) (flat_map MdProofs.node_leaves ast)) (letters out).
Proof.
  intros hw s out H. unfold md_x in H. unfold md_ast. destruct block_cfg as [CB|]; [|discriminate].
  destruct (inline_cfg_x false hw []) as [d|]; [|discriminate]. unfold bind in H.
  destruct (doc_parse_rf CB _ _ s) as [[ast rf]| |]; try discriminate. inversion H; subst out. exists ast, rf. split; [reflexivity|].
  apply (md_doc_keeps_leaves U rx_renderers_markdown__quote_end_re rx_util__strip_end_re alnum); vm_compute; reflexivity.
Qed.

(* the document "> a1 *b2*" followed by a list item "- `c3`": leaves a1, b2, c3 *)
Example C06_markdown_not_vacuous :
  match md_ast false [62; 32; 97; 49; 32; 42; 98; 50; 42; 10; 10; 45; 32; 96; 99; 51; 96; 10] with
  | Ok (ast, _) => flat_map (fun x => letters x) (flat_map MdProofs.node_leaves ast) = [97; 49; 98; 50; 99; 51]
  | _ => False
  end.
Proof. vm_compute. reflexivity. Qed.

(* ---- the RST renderer (model coq/Model/RstDoc.v of renderers/rst.py and _list.py over the core AST; tied by skeletons
   with constants, the regenerated marker table and image prefix, and the RST correspondence run of this check): for EVERY
   document on which the renderer does not raise, the word characters of all text, code-span, code-block and HTML-block
   leaves of the AST, in document order, are a subsequence of those of the output.  PARTIAL in two respects, both stated:
   (1) "word characters" are the letters and digits that do not occur in the word "linebreak": the renderer marks hard
   breaks in band with the text "<linebreak>" and splits paragraphs on it, so those letters can vanish (known finding
   rst-linebreak-marker-in-band, refuted for the full alphabet just below); (2) inline HTML is dropped by design and the
   alternative text of an image is printed in a substitution definition at the end of the document, so neither is a leaf
   of this statement. ---- *)
Definition rst_keep : list Z := List.filter (fun c => negb (memc c s_linebreak)) alnum.
Definition rst_letters (s : list Z) : list Z := proj rst_keep s.

Theorem C06_rst_output_keeps_every_leaf_partial : forall hw s out, rst_x hw s = Ok out ->
  exists ast, doc_parse_x false hw s = Ok ast /\
              subseq (flat_map (fun x => rst_letters x) (flat_map RstProofs.nleaves ast)) (rst_letters out).
Proof.
  intros hw s out H. unfold rst_x, bind in H. destruct (doc_parse_x false hw s) as [ast| |]; try discriminate.
  exists ast. split; [reflexivity|].
  destruct (rst_doc U (is_ws T) rx_util__strip_end_re ast) as [o|] eqn:E; [|discriminate]. inversion H; subst out.
  apply (rst_doc_keeps_leaves U (is_ws T) rx_util__strip_end_re rst_keep); try exact E; vm_compute; reflexivity.
Qed.

(* the document "> a1 *c2*" followed by "- `f3` ![g4](u)" : leaves a1, c2, f3 (g4 is an alternative text) *)
Example C06_rst_not_vacuous :
  match doc_parse_x false false [62; 32; 97; 49; 32; 42; 99; 50; 42; 10; 10; 45; 32; 96; 102; 51; 96; 32; 33; 91; 103; 52; 93; 40; 117; 41; 10] with
  | Ok ast => flat_map (fun x => rst_letters x) (flat_map RstProofs.nleaves ast) = [49; 99; 50; 102; 51]
              /\ exists out, rst_x false [62; 32; 97; 49; 32; 42; 99; 50; 42; 10; 10; 45; 32; 96; 102; 51; 96; 32; 33; 91; 103; 52; 93; 40; 117; 41; 10] = Ok out
  | _ => False
  end.
Proof. vm_compute. split; [reflexivity|eexists; reflexivity]. Qed.

(* the same statement for ALL letters and digits is false of the faithful model (and of the code: known finding
   rst-linebreak-marker-in-band, replayed on the implementation by every run): "a \<linebreak> b" has the text leaves
   "a ", "<", "linebreak> b" and the output "a  b" *)
Lemma subseq_length a b : subseq a b -> (length a <= length b)%nat.
Proof. induction 1; cbn; lia. Qed.
Example C06_rst_all_letters_refuted :
  exists s ast out, doc_parse_x false false s = Ok ast /\ rst_x false s = Ok out /\
                    ~ subseq (flat_map (fun x => letters x) (flat_map RstProofs.nleaves ast)) (letters out).
Proof.
  exists [97; 32; 92; 60; 108; 105; 110; 101; 98; 114; 101; 97; 107; 62; 32; 98; 10].
  eexists. eexists. split; [vm_compute; reflexivity|]. split; [vm_compute; reflexivity|].
  intros H. apply subseq_length in H. vm_compute in H. lia.
Qed.

(* the constants of the model are the class attributes HEADING_MARKERS and INLINE_IMAGE_PREFIX of the code *)
Example C06_rst_constants_tied :
  map (fun p => heading_marker (fst p)) rst_heading_markers = map (fun p => Some (snd p)) rst_heading_markers
  /\ map fst rst_heading_markers = [1; 2; 3; 4; 5; 6]%nat /\ rst_image_prefix = s_img.
Proof. vm_compute. repeat split. Qed.

Print Assumptions C06_templates_balanced.
Print Assumptions C06_markdown_output_keeps_every_leaf.
Print Assumptions C06_whole_document_shows_every_leaf_in_order.
Print Assumptions C06_leaves_escaped_once.
Print Assumptions C06_whole_document_is_well_nested.
Print Assumptions C06_rst_output_keeps_every_leaf_partial.
Print Assumptions C06_rst_all_letters_refuted.
