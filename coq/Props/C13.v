(* C13 — reformatting with the Markdown renderer preserves the document.  PARTIAL: mechanism lemmas. *)
From Coq Require Import ZArith List Bool Lia Arith.
From Verif Require Import PyStr MdRender MdRenderGen Rx RxAnalysis RxSub RxSubProofs RxGen UnicodeGen Inline Block Doc MdDoc MdProofs Normalize NormalizeGen Entry.
Import ListNotations.
Local Open Scope nat_scope.

(* TIE: control skeletons of the Markdown renderer and of the shared list renderer are the reviewed ones *)
Theorem C13_tie_skeletons : mdrender_skeletons_ok = true.
Proof. reflexivity. Qed.

Lemma fold_max_ge l x : In x l -> x <= fold_right Nat.max 0 l.
Proof. induction l as [|y l IH]; cbn; [tauto|]. intros [->|H]; [lia|]. specialize (IH H). lia. Qed.

(* the fence the renderer chooses for a code block that had no fence of its own (indented code) cannot be
   closed by any run of fence characters that starts a line of the code: such a run either uses the other
   character or is shorter than the chosen fence *)
Theorem C13_chosen_fence_is_not_closed_inside : forall found run,
  In run found ->
  let (tick, n) := fenced_marker found in
  fst run <> tick \/ snd run < n.
Proof.
  intros found [rt rn] Hin. unfold fenced_marker.
  destruct found as [|f0 fr] eqn:Ef; [contradiction|]. rewrite <- Ef in *. clear Ef f0 fr.
  destruct (map snd (filter (fun x => fst x) found)) as [|t ts] eqn:Et.
  - (* no backtick runs at all: every run is a tilde run *)
    left. cbn. destruct rt; [|discriminate].
    exfalso. assert (In rn (map snd (filter (fun x => fst x) found))).
    { apply in_map_iff. exists (true, rn). split; [reflexivity|]. apply filter_In. split; [exact Hin|reflexivity]. }
    rewrite Et in H. exact H.
  - destruct (map snd (filter (fun x => negb (fst x)) found)) as [|w ws] eqn:Ew.
    + (* no tilde runs: fence with tildes *)
      left. cbn. destruct rt; [discriminate|].
      exfalso. assert (In rn (map snd (filter (fun x => negb (fst x)) found))).
      { apply in_map_iff. exists (false, rn). split; [reflexivity|]. apply filter_In. split; [exact Hin|reflexivity]. }
      rewrite Ew in H. exact H.
    + cbn [fst snd]. destruct rt; [right|left; discriminate].
      assert (In rn (t :: ts)).
      { rewrite <- Et. apply in_map_iff. exists (true, rn). split; [reflexivity|]. apply filter_In. split; [exact Hin|reflexivity]. }
      pose proof (fold_max_ge (t :: ts) rn H). lia.
Qed.

Example C13_fence_example : fenced_marker [(true, 3); (false, 4); (true, 5)] = (true, 6) /\ fenced_marker [(false, 3)] = (true, 3).
Proof. split; reflexivity. Qed.

(* ---- the reformatter on the model of the whole conversion (coq/Model/MdDoc.v: every method of MarkdownRenderer and the
   shared list renderer over the core AST; tied by skeletons with constants, regenerated patterns and the Markdown
   correspondence run of this check).  For EVERY document: reformatting drops and reorders no word character - the
   letters and digits of all text, code and HTML leaves of the parsed document, in order, are a subsequence of the letters
   and digits of the reformatted text (quoting, list indentation, the trimming patterns never touch them). ---- *)
Definition parsed (hw : bool) (s : str) : res (list node * refs) :=
  match block_cfg, inline_cfg_x false hw [] with
  | Some CB, Some d => doc_parse_rf CB (fun rf => inline_cfg_or false hw rf d) (run_ops parse_norm_ops) s
  | _, _ => Exn
  end.
Definition words_of (ast : list node) : str := flat_map (fun x => letters x) (flat_map node_leaves ast).

Theorem C13_reformatting_keeps_every_word : forall hw s out, md_x hw s = Ok out ->
  exists ast rf, parsed hw s = Ok (ast, rf) /\ subseq (words_of ast) (letters out).
Proof.
  intros hw s out H. unfold md_x in H. unfold parsed. destruct block_cfg as [CB|]; [|discriminate].
  destruct (inline_cfg_x false hw []) as [d|]; [|discriminate]. unfold bind in H.
  destruct (doc_parse_rf CB _ _ s) as [[ast rf]| |]; try discriminate. inversion H; subst out. exists ast, rf. split; [reflexivity|].
  apply (md_doc_keeps_leaves U rx_renderers_markdown__quote_end_re rx_util__strip_end_re alnum); vm_compute; reflexivity.
Qed.

(* "> a1 *b2*" and "- `c3`" *)
Example C13_words_not_vacuous :
  match parsed false [62; 32; 97; 49; 32; 42; 98; 50; 42; 10; 10; 45; 32; 96; 99; 51; 96; 10]%Z with
  | Ok (ast, _) => words_of ast = [97; 49; 98; 50; 99; 51]%Z
  | _ => False
  end.
Proof. vm_compute. reflexivity. Qed.

(* KNOWN FINDING indented-code-gains-newline as a theorem about the model: parsing "    code", reformatting, and parsing
   again gives a code block with one more trailing newline *)
Definition code_raws (ast : list node) : list str := flat_map (fun n => match n with NCode raw _ _ _ => [raw] | _ => [] end) ast.
Example C13_indented_code_gains_newline_refuted :
  match parsed false [32; 32; 32; 32; 99; 111; 100; 101; 10]%Z, md_x false [32; 32; 32; 32; 99; 111; 100; 101; 10]%Z with
  | Ok (a, _), Ok out => match parsed false out with
                         | Ok (a', _) => code_raws a = [[99; 111; 100; 101]%Z] /\ code_raws a' = [[99; 111; 100; 101; 10]%Z]
                         | _ => False end
  | _, _ => False
  end.
Proof. vm_compute. split; reflexivity. Qed.

Print Assumptions C13_chosen_fence_is_not_closed_inside.
Print Assumptions C13_reformatting_keeps_every_word.
