(* C13 — reformatting with the Markdown renderer preserves the document.  PARTIAL: mechanism lemmas. *)
From Coq Require Import ZArith List Bool Lia Arith.
From Verif Require Import PyStr MdRender MdRenderGen.
Import ListNotations.
Local Open Scope nat_scope.

(* TIE: control skeletons of the Markdown renderer and of the shared list renderer are the reviewed ones *)
Theorem C13_tie_skeletons : mdrender_skeletons_ok = true.
Proof. reflexivity. Qed.

Lemma fold_max_ge l x : In x l -> x <= fold_right Nat.max 0 l.
Proof. induction l as [|y l IH]; cbn; [tauto|]. intros [->|H]; [lia|]. specialize (IH H). lia. Qed.

(* the fence the renderer chooses for a code block that had no fence of its own (indented code) cannot be
   closed by any run of fence characters that starts a line of the code: such a run either uses the other
   character or is shorter than the chosen fence *)
Theorem C13_chosen_fence_is_not_closed_inside : forall found run,
  In run found ->
  let (tick, n) := fenced_marker found in
  fst run <> tick \/ snd run < n.
Proof.
  intros found [rt rn] Hin. unfold fenced_marker.
  destruct found as [|f0 fr] eqn:Ef; [contradiction|]. rewrite <- Ef in *. clear Ef f0 fr.
  destruct (map snd (filter (fun x => fst x) found)) as [|t ts] eqn:Et.
  - (* no backtick runs at all: every run is a tilde run *)
    left. cbn. destruct rt; [|discriminate].
    exfalso. assert (In rn (map snd (filter (fun x => fst x) found))).
    { apply in_map_iff. exists (true, rn). split; [reflexivity|]. apply filter_In. split; [exact Hin|reflexivity]. }
    rewrite Et in H. exact H.
  - destruct (map snd (filter (fun x => negb (fst x)) found)) as [|w ws] eqn:Ew.
    + (* no tilde runs: fence with tildes *)
      left. cbn. destruct rt; [discriminate|].
      exfalso. assert (In rn (map snd (filter (fun x => negb (fst x)) found))).
      { apply in_map_iff. exists (false, rn). split; [reflexivity|]. apply filter_In. split; [exact Hin|reflexivity]. }
      rewrite Ew in H. exact H.
    + cbn [fst snd]. destruct rt; [right|left; discriminate].
      assert (In rn (t :: ts)).
      { rewrite <- Et. apply in_map_iff. exists (true, rn). split; [reflexivity|]. apply filter_In. split; [exact Hin|reflexivity]. }
      pose proof (fold_max_ge (t :: ts) rn H). lia.
Qed.

Example C13_fence_example : fenced_marker [(true, 3); (false, 4); (true, 5)] = (true, 6) /\ fenced_marker [(false, 3)] = (true, 3).
Proof. split; reflexivity. Qed.

Print Assumptions C13_chosen_fence_is_not_closed_inside.
