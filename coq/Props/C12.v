(* C12 — link references resolve independently of position, case and spacing. *)
From Coq Require Import ZArith List Bool Lia.
From Verif Require Import PyStr Util UtilGen UtilProofs RefLinks RefLinksGen RefLinksProofs C18 Inline Block BlockProofs BlockRefs Doc Normalize NormalizeGen Entry.
Import ListNotations.

Theorem C12_tie_skeletons : reflinks_skeletons_ok = true.
Proof. reflexivity. Qed.

Definition key (s : str) : str := run_unikey T unikey_ops s.
Definition table_of (defs : list linkdef) : table := collect key defs.
Definition lookup (defs : list linkdef) (label : str) : option linkdef := resolve key (table_of defs) label.

(* 1. whole-document scope: every use is resolved against the table of all definitions, wherever the
      definitions and the use are written (the model of the two passes makes the table a function of the
      document-ordered list of definitions only) *)
Theorem C12_scope_is_the_whole_document : forall defs uses1 uses2,
  resolve_all key defs (uses1 ++ uses2) = resolve_all key defs uses1 ++ resolve_all key defs uses2.
Proof. intros. apply resolve_all_position_independent. Qed.

(* 2. first definition wins (document order), other definitions anywhere do not matter *)
Theorem C12_first_definition_wins : forall pre d post,
  key (ld_label d) <> [] ->
  Forall (fun d' => key (ld_label d') <> key (ld_label d)) pre ->
  lookup (pre ++ d :: post) (ld_label d) = Some d.
Proof. intros. unfold lookup, table_of, resolve. apply first_definition_wins; assumption. Qed.

(* 3. labels match case-insensitively, white-space runs collapsed (via C18) *)
Theorem C12_case_insensitive : forall defs l l', case_var T l l' -> lookup defs l' = lookup defs l.
Proof.
  intros defs l l' H. unfold lookup. apply resolve_key_invariant. unfold key.
  exact (C18_unikey_case_invariant l l' H).
Qed.

Theorem C12_whitespace_insensitive : forall defs a r1 r2 b,
  r1 <> [] -> r2 <> [] ->
  Forall (fun c => is_ws T c = true) r1 -> Forall (fun c => is_ws T c = true) r2 ->
  lookup defs (a ++ r1 ++ b) = lookup defs (a ++ r2 ++ b).
Proof.
  intros defs a r1 r2 b N1 N2 H1 H2. unfold lookup. apply resolve_key_invariant. unfold key.
  exact (C18_unikey_whitespace_invariant a r1 r2 b N1 N2 H1 H2).
Qed.

(* the same for the definition side: a definition written with another spelling of the label binds the same key *)
Theorem C12_definition_label_spelling : forall pre d d' post use,
  key (ld_label d') = key (ld_label d) -> key (ld_label d) <> [] ->
  Forall (fun x => key (ld_label x) <> key (ld_label d)) pre ->
  key use = key (ld_label d) ->
  lookup (pre ++ d :: post) use = Some d /\ lookup (pre ++ d :: d' :: post) use = Some d.
Proof.
  intros pre d d' post use Hk Hne Hpre Hu. unfold lookup, table_of, resolve. rewrite Hu.
  split; apply first_definition_wins; assumption.
Qed.

(* 4. undefined labels stay unresolved (the caller then leaves the text literal) *)
Theorem C12_undefined_stays_literal : forall defs label,
  Forall (fun d => key (ld_label d) <> key label) defs -> lookup defs label = None.
Proof. intros. unfold lookup, table_of. apply undefined_stays_unresolved. assumption. Qed.

Example C12_example :
  let d1 := {| ld_label := [70; 111; 111]; ld_url := [47; 97]; ld_title := None |} in         (* [Foo]: /a *)
  let d2 := {| ld_label := [102; 79; 79]; ld_url := [47; 98]; ld_title := None |} in          (* [fOO]: /b *)
  lookup [d1; d2] [32; 102; 111; 111; 10] = Some d1 /\ lookup [d1; d2] [98; 97; 114] = None.
Proof. vm_compute. split; reflexivity. Qed.

(* in the block parser model (Model/Block.v, tied to parse_ref_link by skeleton + correspondence) a definition is
   either ignored or appended under a key that is not yet in the table: an entry, once made, is never replaced *)
Theorem C12_block_model_definitions_never_overwrite : forall C m st rf st2 rf2 np,
  handle_ref_link C m st rf = Ok (st2, rf2, np) ->
  rf2 = rf \/ exists k v, rf2 = rf ++ [(k, v)] /\ assoc_refs k rf = false.
Proof. exact handle_ref_link_first_wins. Qed.

(* and this holds through the whole block pass: whatever handler runs, at whatever nesting depth, inside quotes, list
   items or interrupting blocks, a key that is defined keeps its definition - the first definition the parser meets
   is the one all lookups of the inline pass see *)
Theorem C12_block_model_first_definition_is_kept : forall C fuel rk m st rf st2 rf2 np k v,
  bhandle C fuel rk m st rf = Ok (st2, rf2, np) -> ref_lookup k rf = Some v -> ref_lookup k rf2 = Some v.
Proof. intros C fuel rk m st rf st2 rf2 np k v H. apply rext_lookup_stable. exact (bhandle_refs C fuel _ _ _ _ _ _ _ H). Qed.

Theorem C12_block_model_table_grows_by_first_definitions : forall C s toks rf, block_parse C s = Ok (toks, rf) -> rext [] rf.
Proof. exact block_parse_refs. Qed.

(* whole-document scope in the model of the complete conversion: the inline pass runs after the block pass has finished,
   and every inline text of the document - wherever it stands - is parsed with one and the same reference table, the
   final one, which consists of first definitions only *)
Theorem C12_document_scope : forall px hw s ast, doc_parse_x px hw s = Ok ast ->
  exists CB d toks rf,
    block_cfg = Some CB /\ block_parse CB (run_ops parse_norm_ops s) = Ok (toks, rf) /\ rext [] rf /\
    all_res (map (inline_pass (inline_cfg_or px hw (inline_refs rf) d)) toks) = Ok ast.
Proof.
  intros px hw s ast H. unfold doc_parse_x in H. destruct block_cfg as [CB|] eqn:EB; [|discriminate].
  destruct (inline_cfg_x px hw []) as [d|]; [|discriminate]. unfold doc_parse, bind in H.
  destruct (block_parse CB _) as [[toks rf]| |] eqn:Eb; try discriminate.
  exists CB, d, toks, rf. split; [reflexivity|]. split; [exact Eb|]. split; [exact (block_parse_refs CB _ toks rf Eb)|exact H].
Qed.

(* ---- known findings as theorems about the faithful model (the same inputs are replayed on the implementation by the
   check; the correspondence run ties model and code) ---- *)
(* KNOWN FINDING list-item-then-quote, reproduced by the whole-document model: the FIRST definition (/u1, in the last item of a list) loses against the one in the quote that follows *)
Example C12_list_item_then_quote_refuted :
  core_html true false [49; 46; 32; 91; 102; 111; 111; 93; 58; 32; 47; 117; 49; 10; 10; 62; 32; 91; 102; 111; 111; 93; 58; 32; 47; 117; 48; 10; 10; 91; 102; 111; 111; 93; 10]%Z
  = Ok [60; 111; 108; 62; 10; 60; 108; 105; 62; 60; 47; 108; 105; 62; 10; 60; 47; 111; 108; 62; 10; 60; 98; 108; 111; 99; 107; 113; 117; 111; 116; 101; 62; 10; 60; 47; 98; 108; 111; 99; 107; 113; 117; 111; 116; 101; 62; 10; 60; 112; 62; 60; 97; 32; 104; 114; 101; 102; 61; 34; 47; 117; 48; 34; 62; 102; 111; 111; 60; 47; 97; 62; 60; 47; 112; 62; 10]%Z.
Proof. vm_compute. reflexivity. Qed.

Print Assumptions C12_first_definition_wins.
Print Assumptions C12_case_insensitive.
Print Assumptions C12_whitespace_insensitive.
Print Assumptions C12_undefined_stays_literal.
Print Assumptions C12_block_model_definitions_never_overwrite.
Print Assumptions C12_block_model_first_definition_is_kept.
Print Assumptions C12_document_scope.
