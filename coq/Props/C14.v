(* C14 — footnote references and notes stay in bijection. *)
From Coq Require Import ZArith List Bool Lia.
From Verif Require Import PyStr Footnote FootnoteGen FootnoteProofs UtilProofs DecimalProofs.
Import ListNotations.
Local Open Scope nat_scope.

(* keys are normalised labels (strings) *)
Lemma str_eqb_spec a b : str_eqb a b = true <-> a = b.
Proof.
  split; [apply str_eqb_eq|]. intros ->. induction b as [|x b IH]; cbn; [reflexivity|].
  rewrite Z.eqb_refl, IH. reflexivity.
Qed.

(* TIE: id / href prefixes of the templates: a reference links to the id of the item with its
   number and the item's back link targets the id of the references with that number *)
Theorem C14_tie_targets :
  fs_ref_href fn_S = (35 :: fs_item_id fn_S)%Z /\ fs_item_back fn_S = (35 :: fs_ref_id fn_S)%Z /\
  fs_ref_id fn_S <> fs_item_id fn_S.
Proof. repeat split; try reflexivity. discriminate. Qed.

(* The id STRINGS: "fn-N" and "fnref-N" with N = str(number). Different numbers give different ids, and an item id never
   equals a reference id - str(int) can be read back (DecimalProofs) and is all digits, so the two families
   ("fn-" then a digit, "fn" then "r") cannot meet. Together with C14_bijection: every href in the output names exactly one id. *)
Theorem C14_id_strings_distinct : forall p q,
  ((fs_item_id fn_S ++ str_of_nat p = fs_item_id fn_S ++ str_of_nat q)%list -> p = q) /\
  ((fs_ref_id fn_S ++ str_of_nat p = fs_ref_id fn_S ++ str_of_nat q)%list -> p = q) /\
  (fs_item_id fn_S ++ str_of_nat p <> fs_ref_id fn_S ++ str_of_nat q)%list.
Proof.
  intros p q. split; [|split].
  - intros H. apply app_inv_head in H. apply str_of_nat_inj. exact H.
  - intros H. apply app_inv_head in H. apply str_of_nat_inj. exact H.
  - intros H.
    assert (Hd : forallb is_ascii_digit (str_of_nat p) = true) by apply str_of_nat_digits.
    change (fs_item_id fn_S) with [102; 110; 45]%Z in H.
    change (fs_ref_id fn_S) with [102; 110; 114; 101; 102; 45]%Z in H.
    cbn [app] in H. injection H as H. discriminate H.
Qed.
Print Assumptions C14_id_strings_distinct.

Section C14.
Variable defined : str -> bool.          (* which keys the block rule collected *)
Definition number (h : list str) := run_refs str str_eqb defined [] h.

(* Full statement, for every history of inline references (normalised keys, traversal order). *)
Theorem C14_bijection : forall h,
  let (ts, notes) := number h in
  notes = first_occ str str_eqb defined [] h /\ NoDup notes /\
  (forall k, In k notes <-> In k h /\ defined k = true) /\
  length ts = length h /\
  (forall i k, nth_error h i = Some k -> defined k = false -> nth_error ts i = Some None) /\
  (forall i k, nth_error h i = Some k -> defined k = true ->
     exists p, nth_error ts i = Some (Some (S p)) /\ nth_error notes p = Some k /\
               nth_error (emitted_items str notes) p = Some (S p, k)) /\
  (forall p k, nth_error (emitted_items str notes) p = Some (S p, k) ->
     exists i, nth_error h i = Some k /\ nth_error ts i = Some (Some (S p))) /\
  length (emitted_items str notes) = length notes /\
  (sections str notes = 1 <-> notes <> []) /\ sections str notes <= 1.
Proof. intros h. exact (footnote_bijection str str_eqb str_eqb_spec defined h). Qed.

Theorem C14_numbers_injective : forall h,
  let (ts, notes) := number h in
  forall i j a b p q, nth_error h i = Some a -> nth_error h j = Some b ->
    nth_error ts i = Some (Some p) -> nth_error ts j = Some (Some q) -> (p = q <-> a = b).
Proof. intros h. exact (footnote_numbers_injective str str_eqb str_eqb_spec defined h). Qed.
End C14.

Example C14_example :
  let d := fun k : str => negb (str_eqb k [120]%Z) in   (* everything but "x" is defined *)
  number d [[98]; [97]; [120]; [98]; [99]; [97]]%Z =
  ([Some 1; Some 2; None; Some 1; Some 3; Some 2], [[98]; [97]; [99]]%Z).
Proof. vm_compute. reflexivity. Qed.

Print Assumptions C14_bijection.
Print Assumptions C14_numbers_injective.
Print Assumptions C14_tie_targets.
