(* C02 — escaped HTML output carries no input-controlled markup or script URLs. *)
From Coq Require Import ZArith List Bool Lia.
From Verif Require Import PyStr Util UtilGen UtilProofs Tmpl HtmlRender TmplCheck TmplGen C18
     Rx RxSpec RxAnalysis UnicodeGen RxGen Inline Block Doc HtmlDoc HtmlDocProofs Entry.
Import ListNotations.
Open Scope Z_scope.

(* the renderer under escape=True, default allow_harmful_protocols *)
Definition su (u : str) : str := safe_url harmful_protocols good_data_protocols escape_ops u.
Definition E : renv := {| r_escape := true; r_safe_url := su; r_tables := T |}.

Lemma escape_free : forall s, special_free (run_escape escape_ops true s).
Proof. intros s. exact (proj1 (C18_escape_no_special s)). Qed.

(* ---- reflection: every render function, every shape with the escape flag on, is accepted ---- *)
Theorem C02_all_templates_checked :
  forallb (fun e : template * list pkind * list (nat * bool) =>
             let '(t, sig, fixed) := e in template_ok sig fixed t) all_templates = true.
Proof. vm_compute. reflexivity. Qed.

Theorem C02_template_count : (50 <=? length all_templates)%nat = true.
Proof. vm_compute. reflexivity. Qed.

(* ---- (a) no input-controlled markup: for every render function, all argument values ---- *)
(* vals: the arguments; children_ok: rendered children are fragments that bring the reader back to Data
   (the induction hypothesis over the token tree); conclusion: every inserted piece is read in character
   data / a quoted attribute value (tag position only for safe-by-construction values), contains none of
   <  >  double-quote, and the reader ends in Data: tags and attributes are exactly the template's literals. *)
Theorem C02_no_injected_markup : forall t sig fixed vals,
  In (t, sig, fixed) all_templates ->
  vals_ok sig vals ->
  (forall p, In p (digit_params (t_atoms t) (shape_of E escape_ops (t_atoms t) vals)) -> nth p sig KRaw <> KHtml) ->
  let sh := shape_of E escape_ops (t_atoms t) vals in
  shape_allowed fixed sh = true ->
  children_ok E escape_ops sig vals (eval (t_body t) sh) ->
  fst (run_pieces E escape_ops sig vals Data (eval (t_body t) sh)) /\
  snd (run_pieces E escape_ops sig vals Data (eval (t_body t) sh)) = Data.
Proof.
  intros t sig fixed vals Hin Hv Hd sh Hall Hch.
  pose proof C02_all_templates_checked as H. rewrite forallb_forall in H. specialize (H _ Hin). cbn in H.
  apply (template_sound E escape_ops harmful_protocols good_data_protocols eq_refl escape_free sig fixed t vals H Hv Hd Hall Hch).
Qed.

(* ---- (a') the same for whole documents: the induction over the token tree ---- *)
(* For the executable model of the whole core conversion (Model/Doc.v + Model/HtmlDoc.v, tied to
   create_markdown(escape=True) by the HTML correspondence run of this check): for EVERY document, every token of the
   AST - at every depth - is rendered by a call that satisfies the reading property above (node_safe / tok_safe carry it
   down the tree; the children_ok hypothesis is discharged by the induction), and the complete output brings the reader
   back to character data. *)
Lemma ext_template_cases : forall name (P : template -> Prop),
  P tmpl_formatting_render_strikethrough -> P tmpl_formatting_render_mark -> P tmpl_formatting_render_insert ->
  P tmpl_formatting_render_superscript -> P tmpl_formatting_render_subscript -> P tmpl_html_emphasis -> P (ext_template name).
Proof. intros name P H1 H2 H3 H4 H5 H6. unfold ext_template. repeat (destruct (is_name name _); [assumption|]). assumption. Qed.

Lemma ext_in : forall name, In (ext_template name, [KHtml], []) all_templates.
Proof. intros name. apply (ext_template_cases name (fun t => In (t, [KHtml], []) all_templates)); unfold all_templates; repeat (first [left; reflexivity | right]). Qed.
Lemma ext_atoms : forall name, t_atoms (ext_template name) = [].
Proof. intros name. apply (ext_template_cases name (fun t => t_atoms t = [])); reflexivity. Qed.
Lemma ext_plain : forall name p fs, In (SIns p fs) (eval (t_body (ext_template name)) []) -> fs = [].
Proof.
  intros name. apply (ext_template_cases name (fun t => forall p fs, In (SIns p fs) (eval (t_body t) []) -> fs = []));
    intros p fs Hin; cbn in Hin; repeat (destruct Hin as [Hin|Hin]; [inversion Hin; subst; reflexivity|]); contradiction.
Qed.

(* px: with the six inline plugins of the model (strikethrough, mark, insert, superscript, subscript, url) *)
Theorem C02_whole_document_no_injected_markup : forall px hw s out,
  html_x px true hw s = Ok out ->
  exists ast, doc_parse_x px hw s = Ok ast /\ out = html_doc E escape_ops ext_template ast /\
              Forall (node_safe E escape_ops ext_template) ast /\ hrun Data out = Data.
Proof.
  intros px hw s out H. unfold html_x, bind in H. destruct (doc_parse_x px hw s) as [ast| |] eqn:Ea; try discriminate.
  inversion H; subst out. exists ast. split; [reflexivity|]. split; [reflexivity|].
  exact (doc_safe E escape_ops ext_template eq_refl ext_in ext_atoms ext_plain
           (fun t sig fixed vals Hin Hv Hd Hs Hc => C02_no_injected_markup t sig fixed vals Hin Hv Hd Hs Hc) ast).
Qed.

Example C02_whole_document_example :
  core_html true false [60; 98; 62; 32; 91; 120; 93; 40; 106; 97; 118; 97; 115; 99; 114; 105; 112; 116; 58; 97; 41; 10] =
  Ok [60; 112; 62; 38; 108; 116; 59; 98; 38; 103; 116; 59; 32; 60; 97; 32; 104; 114; 101; 102; 61; 34; 35; 104; 97; 114; 109; 102; 117; 108; 45; 108; 105; 110; 107; 34; 62; 120; 60; 47; 97; 62; 60; 47; 112; 62; 10].
Proof. vm_compute. reflexivity. Qed.

(* ---- (b) script URLs: what the browser reads back from an href/src produced by safe_url ---- *)
Definition harmful (u : str) : bool :=
  let l := map ascii_lower u in has_prefix_in harmful_protocols l && negb (has_prefix_in good_data_protocols l).

Theorem C02_no_script_url : forall u,
  html_unescape T (su u) = (if harmful u then harmful_link else u).
Proof.
  intros u. unfold su, safe_url, harmful. destruct (_ && _).
  - vm_compute. reflexivity.
  - apply (C18_escape_roundtrip u true).
Qed.

Corollary C02_emitted_url_is_not_harmful : forall u,
  harmful (html_unescape T (su u)) = false.
Proof.
  intros u. rewrite C02_no_script_url. destruct (harmful u) eqn:E; [vm_compute; reflexivity|exact E].
Qed.

(* the protocol lists are the expected ones: a list that omitted javascript: would make (b) vacuous *)
Theorem C02_tie_protocols :
  harmful [106; 97; 118; 97; 115; 99; 114; 105; 112; 116; 58; 120] = true /\      (* javascript:x *)
  harmful [86; 66; 83; 99; 114; 105; 112; 116; 58] = true /\                        (* VBScript: *)
  harmful [102; 105; 108; 101; 58; 47] = true /\                                    (* file:/ *)
  harmful [100; 97; 116; 97; 58; 116; 101; 120; 116; 47; 104; 116; 109; 108] = true /\   (* data:text/html *)
  harmful [100; 97; 116; 97; 58; 105; 109; 97; 103; 101; 47; 112; 110; 103; 59] = false. (* data:image/png; *)
Proof. vm_compute. repeat split; reflexivity. Qed.

(* ---- safe-by-construction parameters justified by their regular expressions ---- *)
(* ruby: base text and reading come out of RUBY_PATTERN, which never consumes < > double-quote & *)
Theorem C02_ruby_text_is_safe : avoids U [60; 62; 34; 38] rx_plugins_ruby__RUBY_PATTERN = true.
Proof. vm_compute. reflexivity. Qed.

(* enumerated parameters: the values the directive parsers may hand to the 'align' parameter of images and figures and to
   the 'name' parameter of admonitions come from fixed lists (regenerated; the validating code is tied by control skeletons
   with constants - SafeGen), and every word of those lists consists of lower-case ASCII letters *)
From Verif Require Import SafeGen.
Theorem C02_tie_safe_producers : safe_skeletons_ok = true.
Proof. reflexivity. Qed.

Definition lower_word (s : str) : bool :=
  match s with [] => false | _ => forallb (fun c => (97 <=? c) && (c <=? 122)) s end.
Theorem C02_enumerated_values_are_safe :
  forallb lower_word image_allowed_aligns = true /\ forallb lower_word admonition_names = true /\
  image_allowed_aligns <> [] /\ admonition_names <> [].
Proof. repeat split; try (vm_compute; reflexivity); discriminate. Qed.

Print Assumptions C02_no_injected_markup.
Print Assumptions C02_enumerated_values_are_safe.
Print Assumptions C02_no_script_url.
Print Assumptions C02_ruby_text_is_safe.
Print Assumptions C02_whole_document_no_injected_markup.
