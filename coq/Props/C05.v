(* C05 — the token tree obeys the documented grammar.  PARTIAL: attribute bounds that follow from the
   regenerated patterns.  The inductive proof over the parser model is not claimed (DESIGN.md). *)
From Coq Require Import ZArith List Bool Lia.
From Verif Require Import PyStr Rx RxSpec RxAnalysis RxGroups UnicodeGen RxGen Inline Block BlockProofs BlockTyping BlockLevels BlockDepth BlockGen Table TableProofs TableGen Doc DocProofs Entry C01.
Import ListNotations.
Local Open Scope nat_scope.

(* heading level = len(m.group('atx_1')): the body of that group only matches 1..6 characters, all '#' *)
Definition atx_marker : option rx := group_body 1 rx_block__atx_heading.
Theorem C05_atx_marker_shape :
  match atx_marker with
  | Some r => minlen r = 1 /\ maxlen r = Some 6 /\ avoids U [] r = true /\ first_within [35%Z] r = true
  | None => False
  end.
Proof. vm_compute. repeat split; reflexivity. Qed.

Theorem C05_atx_level_in_1_6 : forall r z c z' c',
  atx_marker = Some r -> M U r z c z' c' -> 1 <= z_idx z' - z_idx z <= 6.
Proof.
  intros r z c z' c' Hr HM. pose proof C05_atx_marker_shape as S. rewrite Hr in S. destruct S as (S1 & S2 & _).
  destruct (len_sound U r _ _ _ _ HM) as (A1 & A2 & A3). rewrite S1 in A1. rewrite S2 in A3. lia.
Qed.

(* ordered list start = int(marker[:-1]) with marker = group 'list_2' = bullet | \d{1,9}[.)] : at most 10 characters *)
Definition list_marker : option rx := group_body 2 rx_block_parser__LIST_PATTERN.
Theorem C05_list_marker_bounded :
  match list_marker with Some r => minlen r = 1 /\ maxlen r = Some 10 | None => False end.
Proof. vm_compute. split; reflexivity. Qed.

(* the well-formedness side condition of the engine theorem holds for every regenerated pattern *)
Theorem C05_all_patterns_wf : forallb (fun e : str * rx => wf (snd e)) rx_table = true.
Proof. vm_compute. reflexivity. Qed.

(* ---- structural grammar of the block tree, on the block parser model (Model/Block.v; tied by skeletons with
   constants, BlockGen and the token-tree correspondence run of this check) ---- *)
Theorem C05_tie_block_skeletons : block_skeletons_ok = true.
Proof. reflexivity. Qed.

(* for every text and every configuration of the model: the children of a list are list items, list items occur only
   there, and the children of quotes and list items are again well-formed block tokens (at every depth) *)
Theorem C05_block_tree_is_well_typed : forall C s toks rf, block_parse C s = Ok (toks, rf) -> toks_ok toks = true.
Proof. exact block_parse_typed. Qed.

(* heading levels: for every text, every heading anywhere in the block tree has a level between 1 and 6 *)
Lemma atx_groups_ok : forall C, block_cfg = Some C -> forall r, rule_of C RAtx r -> gb 1 1 6 r = true /\ mcap 1 r = true.
Proof.
  intros C H. unfold block_cfg in H.
  match type of H with context [opt_all ?l] => let v := eval vm_compute in (opt_all l) in change (opt_all l) with v in H end.
  inversion H; subst C; clear H. intros r [Hk|[->|(w & Hin)]]; [discriminate| |].
  - cbn [b_spec block_spec]. split; vm_compute; reflexivity.
  - cbn [b_lb_rules] in Hin. unfold lb_rules_of in Hin.
    destruct w as [|[|[|w]]];
      match type of Hin with In _ (lb_named ?l) => let v := eval vm_compute in (lb_named l) in change (lb_named l) with v in Hin end;
      cbn [In] in Hin; repeat (destruct Hin as [Hin|Hin]; [inversion Hin; subst; first [split; vm_compute; reflexivity|discriminate]|]); contradiction.
Qed.

Theorem C05_heading_levels_are_1_to_6 : forall C s toks rf, block_cfg = Some C -> block_parse C s = Ok (toks, rf) -> lvls_ok toks = true.
Proof. intros C s toks rf HC. exact (block_parse_levels C (block_cfg_ok C HC) (atx_groups_ok C HC) s toks rf). Qed.

(* the whole AST (block pass + inline pass, core configuration with or without the six inline plugins of the model): list
   children are items, items occur only in lists, the children of quotes and items are well-formed, heading levels are 1..6;
   that leaves carry text and containers carry children is the type of [node] itself *)
Theorem C05_document_ast_is_well_typed : forall px hw s ast, doc_parse_x px hw s = Ok ast -> forallb node_ok ast = true.
Proof.
  intros px hw s ast H. unfold doc_parse_x in H. destruct block_cfg as [CB|] eqn:EB; [|discriminate].
  destruct (inline_cfg_x px hw []) as [d|]; [|discriminate]. unfold doc_parse, bind in H.
  destruct (block_parse CB _) as [[toks rf]| |] eqn:Eb; try discriminate.
  apply (inline_pass_all_ok _ toks ast H). apply forallb_forall. intros t Ht.
  pose proof (C05_block_tree_is_well_typed CB _ toks rf Eb) as H1. pose proof (C05_heading_levels_are_1_to_6 CB _ toks rf EB Eb) as H2.
  unfold toks_ok, lvls_ok in H1, H2. rewrite forallb_forall in H1, H2. unfold btok_ok. rewrite (H1 t Ht), (H2 t Ht). reflexivity.
Qed.

(* nesting: for every text, the block tree holds at most max_nested_level (regenerated: 6) levels of quotes and lists,
   and so does the AST of the whole-document model.  Before the repair of finding setext-underline-opens-list-at-depth-limit
   this statement was false of the model and of the code alike (a staircase of lone '-' lines nested without bound). *)
Lemma block_cfg_max : forall C, block_cfg = Some C -> b_max_nested C = block_max_nested.
Proof. intros C H. unfold block_cfg in H. destruct (opt_all _); [|discriminate]. inversion H; subst. reflexivity. Qed.

Theorem C05_nesting_never_exceeds_the_maximum : forall C s toks rf, block_cfg = Some C -> block_parse C s = Ok (toks, rf) ->
  all_fit block_max_nested toks = true.
Proof.
  intros C s toks rf HC H. rewrite <- (block_cfg_max C HC). apply (block_parse_depth C) with (s := s) (rf := rf); [|exact H].
  rewrite (block_cfg_max C HC). vm_compute. lia.
Qed.

Theorem C05_document_nesting_never_exceeds_the_maximum : forall px hw s ast, doc_parse_x px hw s = Ok ast ->
  forallb (nfits block_max_nested) ast = true.
Proof.
  intros px hw s ast H. unfold doc_parse_x in H. destruct block_cfg as [CB|] eqn:EB; [|discriminate].
  destruct (inline_cfg_x px hw []) as [d|]; [|discriminate]. unfold doc_parse, bind in H.
  destruct (block_parse CB _) as [[toks rf]| |] eqn:Eb; try discriminate.
  exact (inline_pass_all_fit _ _ toks ast H (C05_nesting_never_exceeds_the_maximum CB _ toks rf EB Eb)).
Qed.

Example C05_nesting_not_vacuous :
  fits 2 (BQuote [BList [BListItem [BParagraph [97%Z]]] true 45%Z 1 false None]) = true /\
  fits 2 (BQuote [BList [BListItem [BQuote []]] true 45%Z 1 false None]) = false /\ block_max_nested = 6.
Proof. repeat split. Qed.

(* tables (plugins/table.py on the regenerated patterns; tied by skeletons with constants - TableGen - and the
   function-level correspondence run of this check): for every text, when either table rule accepts, every body row has
   as many cells as the header, each cell carries its column's alignment, header cells are marked head and body cells
   are not *)
Theorem C05_tie_table_skeletons : table_skeletons_ok = true.
Proof. reflexivity. Qed.

Theorem C05_table_rows_match_the_header : forall np s thead rows pos,
  table_at table_cfg np s = Some (Some (thead, rows, pos)) ->
  Forall (fun c => c_head c = true) thead /\
  Forall (fun row => length row = length thead /\ map c_align row = map c_align thead /\ Forall (fun c => c_head c = false) row) rows.
Proof. intros np s thead rows pos H. exact (table_at_ok table_cfg np s thead rows pos H). Qed.

(* |a|b| / |-|:-:| / |1|2| : one body row, alignments none and center *)
Example C05_table_not_vacuous :
  match table_at table_cfg false [124; 97; 124; 98; 124; 10; 124; 45; 124; 58; 45; 58; 124; 10; 124; 49; 124; 50; 124; 10]%Z with
  | Some (Some (h, [r], _)) => map c_align h = [ANoAlign; ACenter] /\ map c_text r = [[49%Z]; [50%Z]]
  | _ => False
  end.
Proof. vm_compute. split; reflexivity. Qed.

Example C05_levels_not_vacuous : lvl_ok (BQuote [BHeading [] 7 false]) = false /\ lvl_ok (BList [BListItem [BHeading [] 6 false]] true 45%Z 0 false None) = true.
Proof. split; reflexivity. Qed.

Example C05_typing_is_not_vacuous :
  tok_ok (BList [BListItem [BBlockText [97%Z]; BQuote [BParagraph [98%Z]]]] true 45%Z 0 false None) = true /\
  tok_ok (BQuote [BListItem []]) = false /\ tok_ok (BList [BParagraph []] true 45%Z 0 false None) = false.
Proof. repeat split. Qed.

Print Assumptions C05_atx_level_in_1_6.
Print Assumptions C05_list_marker_bounded.
Print Assumptions C05_block_tree_is_well_typed.
Print Assumptions C05_heading_levels_are_1_to_6.
Print Assumptions C05_document_ast_is_well_typed.
Print Assumptions C05_nesting_never_exceeds_the_maximum.
Print Assumptions C05_table_rows_match_the_header.
Print Assumptions C05_document_nesting_never_exceeds_the_maximum.
