(* C01 — conversion is total and terminating.  PARTIAL (see DESIGN.md): the generic loop theorems and the
   facts about the regenerated patterns; per-handler progress and nesting bounds need the parser model. *)
From Coq Require Import ZArith List Bool Lia Arith.
From Verif Require Import PyStr Rx RxSpec RxAnalysis Loop LoopProofs UnicodeGen RxGen.
Import ListNotations.
Local Open Scope nat_scope.

(* the scanner loop terminates whenever its step function advances the cursor *)
Theorem C01_loop_terminates : forall (S : Type) (max : nat) (step : nat -> S -> nat * S),
  (forall cur st, cur < max -> cur < fst (step cur st)) ->
  forall cur st, exists cur' st', gloop (max - cur) max step cur st = Some (cur', st') /\ max <= cur'.
Proof. intros S max step Hp cur st. apply (gloop_terminates max step Hp). lia. Qed.

(* every regex match of the model lies inside the subject and never moves backwards: a handler that
   returns m.end() of a non-empty match, m.end()+1, or the end of the current line always advances *)
Theorem C01_match_end_not_before_start : forall r z res,
  wf r = true -> match_at U r z = Some res -> fst (fst res) = z_idx z /\ z_idx z <= snd (fst res).
Proof.
  intros r z res W H. destruct (match_sound U r z res W H) as (z' & c' & HM & ->). cbn.
  split; [reflexivity|]. exact (M_idx_le U r _ _ _ _ HM).
Qed.

(* non-nullable rules consume at least one character: their handlers' m.end() is beyond the cursor *)
Theorem C01_nonnullable_rule_advances : forall r z res,
  wf r = true -> nullable r = false -> match_at U r z = Some res -> z_idx z < snd (fst res).
Proof.
  intros r z res W Hn H. destruct (match_sound U r z res W H) as (z' & c' & HM & ->). cbn.
  pose proof (M_idx_le U r _ _ _ _ HM). destruct (Nat.eq_dec (z_idx z') (z_idx z)) as [E|E]; [|lia].
  rewrite (nullable_sound U r _ _ _ _ HM E) in Hn. discriminate.
Qed.

(* which regenerated rule patterns are non-nullable (all inline rules and all block rules) *)
Definition is_rule_name (n : str) : bool :=
  prefixb [98; 108; 111; 99; 107; 95; 95]%Z n (* block__ *) || prefixb [105; 110; 108; 105; 110; 101; 95; 95]%Z n (* inline__ *)
  || prefixb [98; 108; 111; 99; 107; 115; 112; 101; 99; 95; 95]%Z n || prefixb [105; 110; 108; 105; 110; 101; 115; 112; 101; 99]%Z n.

Theorem C01_all_rules_wf_and_nonnullable :
  forallb (fun e : str * rx => negb (is_rule_name (fst e)) || (wf (snd e) && negb (nullable (snd e)))) rx_table = true.
Proof. vm_compute. reflexivity. Qed.

Print Assumptions C01_loop_terminates.
Print Assumptions C01_nonnullable_rule_advances.
