(* C01 — conversion is total and terminating.  PARTIAL (see DESIGN.md): the generic loop theorems and the
   facts about the regenerated patterns; per-handler progress and nesting bounds need the parser model. *)
From Coq Require Import ZArith List Bool Lia Arith.
From Verif Require Import PyStr Rx RxSpec RxAnalysis Loop LoopProofs UnicodeGen RxGen Inline InlineProofs InlineGen Block BlockProofs BlockGen RxHead Entry.
Import ListNotations.
Local Open Scope nat_scope.

(* the scanner loop terminates whenever its step function advances the cursor *)
Theorem C01_loop_terminates : forall (S : Type) (max : nat) (step : nat -> S -> nat * S),
  (forall cur st, cur < max -> cur < fst (step cur st)) ->
  forall cur st, exists cur' st', gloop (max - cur) max step cur st = Some (cur', st') /\ max <= cur'.
Proof. intros S max step Hp cur st. apply (gloop_terminates max step Hp). lia. Qed.

(* every regex match of the model lies inside the subject and never moves backwards: a handler that
   returns m.end() of a non-empty match, m.end()+1, or the end of the current line always advances *)
Theorem C01_match_end_not_before_start : forall r z res,
  wf r = true -> match_at U r z = Some res -> fst (fst res) = z_idx z /\ z_idx z <= snd (fst res).
Proof.
  intros r z res W H. destruct (match_sound U r z res W H) as (z' & c' & HM & ->). cbn.
  split; [reflexivity|]. exact (M_idx_le U r _ _ _ _ HM).
Qed.

(* non-nullable rules consume at least one character: their handlers' m.end() is beyond the cursor *)
Theorem C01_nonnullable_rule_advances : forall r z res,
  wf r = true -> nullable r = false -> match_at U r z = Some res -> z_idx z < snd (fst res).
Proof.
  intros r z res W Hn H. destruct (match_sound U r z res W H) as (z' & c' & HM & ->). cbn.
  pose proof (M_idx_le U r _ _ _ _ HM). destruct (Nat.eq_dec (z_idx z') (z_idx z)) as [E|E]; [|lia].
  rewrite (nullable_sound U r _ _ _ _ HM E) in Hn. discriminate.
Qed.

(* which regenerated rule patterns are non-nullable (all inline rules and all block rules) *)
Definition is_rule_name (n : str) : bool :=
  prefixb [98; 108; 111; 99; 107; 95; 95]%Z n (* block__ *) || prefixb [105; 110; 108; 105; 110; 101; 95; 95]%Z n (* inline__ *)
  || prefixb [98; 108; 111; 99; 107; 115; 112; 101; 99; 95; 95]%Z n || prefixb [105; 110; 108; 105; 110; 101; 115; 112; 101; 99]%Z n.

Theorem C01_all_rules_wf_and_nonnullable :
  forallb (fun e : str * rx => negb (is_rule_name (fst e)) || (wf (snd e) && negb (nullable (snd e)))) rx_table = true.
Proof. vm_compute. reflexivity. Qed.

(* ---- the inline parser (model Model/Inline.v, tied by skeletons + correspondence) ---- *)
Theorem C01_tie_inline_skeletons : inline_skeletons_ok = true.
Proof. reflexivity. Qed.

(* the regenerated patterns satisfy what the termination proof needs: rule patterns and the helper patterns whose
   matches move a cursor are well-formed and cannot match the empty string *)
Lemma inline_cfg_ok : forall px hw refs C, inline_cfg_x px hw refs = Some C -> cfg_ok C.
Proof.
  intros px hw refs C H. unfold inline_cfg_x in H. destruct (opt_all _) as [rules|]; [|discriminate]. inversion H; subst C; clear H.
  constructor; cbn [c_spec c_square c_label c_bracket_start c_bracket c_href_inline c_title c_paren_end c_emph_end c_ext].
  - intros r. destruct hw; destruct r as [| | | | | | | | | | |i]; try (vm_compute; reflexivity);
      (do 7 (destruct i as [|i]; [vm_compute; reflexivity|])); vm_compute; reflexivity.
  - vm_compute; reflexivity.
  - vm_compute; reflexivity.
  - vm_compute; reflexivity.
  - vm_compute; reflexivity.
  - vm_compute; reflexivity.
  - vm_compute; reflexivity.
  - vm_compute; reflexivity.
  - intros mk er He. unfold emph_end in He.
    repeat (match type of He with (if ?b then _ else _) = _ => destruct b end; [inversion He; subst er; vm_compute; reflexivity|]).
    discriminate.
  - intros i name er He. unfold ext_kind in He.
    do 7 (destruct i as [|i]; [cbn in He; inversion He; subst; vm_compute; reflexivity || discriminate|]). destruct i; discriminate.
Qed.

Example C01_inline_cfg_exists : forall px hw refs, match inline_cfg_x px hw refs with Some C => List.length (c_rules C) = ((if px then 6 else 0) + (if hw then 8 else 9)) | None => False end.
Proof. intros px hw refs. destruct px; destruct hw; unfold inline_cfg_x; cbv beta; match goal with |- context [opt_all ?l] => let v := eval vm_compute in (opt_all l) in change (opt_all l) with v end; reflexivity. Qed.

(* InlineParser.parse terminates for every text, both hard_wrap settings, with or without the six inline plugins of the
   model (strikethrough, mark, insert, superscript, subscript, url), and every reference table *)
Theorem C01_inline_parser_terminates : forall px hw refs C s, inline_cfg_x px hw refs = Some C -> inline_parse C s <> Fuel.
Proof. intros px hw refs C s H. apply inline_parse_terminates. exact (inline_cfg_ok px hw refs C H). Qed.

(* every handler that reports a position reports one at or beyond the end of the match that triggered it, so the
   cursor of the scanner loop strictly increases *)
Theorem C01_inline_cursor_advances : forall px hw refs C fuel rk m src fl np toks fl' p, inline_cfg_x px hw refs = Some C ->
  handle C fuel rk m src fl = Ok (np, toks, fl') -> truthy np = Some p -> mend m <= p.
Proof. intros px hw refs C fuel rk m src fl np toks fl' p H. apply inline_step_advances. exact (inline_cfg_ok px hw refs C H). Qed.

Example C01_inline_example :
  match inline_cfg false [] with
  | Some C => inline_parse C [42; 97; 42; 32; 91; 98; 93; 40; 47; 117; 41]%Z =
              Ok [TEmphasis [TText [97%Z]]; TText [32%Z]; TLink false [TText [98%Z]] [47; 117]%Z None false None]
  | None => False
  end.
Proof. vm_compute. reflexivity. Qed.

(* ---- the block parser (model Model/Block.v: scanner loop, eleven handlers, quotes with lazy continuation, lists) ---- *)
Theorem C01_tie_block_skeletons : block_skeletons_ok = true.
Proof. reflexivity. Qed.

Lemma block_cfg_ok : forall C, block_cfg = Some C -> bcfg_ok C.
Proof.
  intros C H. unfold block_cfg in H.
  match type of H with context [opt_all ?l] => let v := eval vm_compute in (opt_all l) in change (opt_all l) with v in H end.
  inversion H; subst C; clear H.
  constructor; cbn [b_line_end b_spec b_strict_quote b_lb_rules b_item_rx b_blank_line b_bracket_start b_bracket b_href_block b_title b_blank_to_line].
  - reflexivity.
  - intros r. destruct r; vm_compute; reflexivity.
  - vm_compute; reflexivity.
  - intros w rk r Hin. unfold lb_rules_of in Hin.
    destruct w as [|[|[|w]]];
      match type of Hin with In _ (lb_named ?l) => let v := eval vm_compute in (lb_named l) in change (lb_named l) with v in Hin end;
      cbn [In] in Hin; repeat (destruct Hin as [Hin|Hin]; [inversion Hin; subst; vm_compute; reflexivity|]); contradiction.
  - intros b w. unfold item_rx_of.
    repeat match goal with |- context [if ?c then _ else _] => destruct c end; destruct w as [|[|[|w]]]; vm_compute; reflexivity.
  - vm_compute; reflexivity.
  - vm_compute; reflexivity.
  - intros rk [->| ->]; vm_compute; reflexivity.
  - intros w rk r Hin Hk. unfold lb_rules_of in Hin.
    destruct w as [|[|[|w]]];
      match type of Hin with In _ (lb_named ?l) => let v := eval vm_compute in (lb_named l) in change (lb_named l) with v in Hin end;
      cbn [In] in Hin; repeat (destruct Hin as [Hin|Hin]; [inversion Hin; subst; first [vm_compute; reflexivity|destruct Hk; discriminate]|]); contradiction.
  - vm_compute; reflexivity.
  - vm_compute; reflexivity.
  - vm_compute; reflexivity.
  - vm_compute; reflexivity.
  - vm_compute; reflexivity.
Qed.

Example C01_block_cfg_exists : match block_cfg with Some C => List.length (b_rules C) = 10 /\ b_max_nested C = 6 | None => False end.
Proof. vm_compute. split; reflexivity. Qed.

(* every loop of BlockParser.parse - the scanner loop, the lazy-continuation loop of block quotes, the line and item loops
   of lists - terminates for every text: the model never runs out of loop budget.  What remains is the nesting budget,
   the model's rendering of CPython's recursion limit (answer Exn): the implementation recurses once per nested or
   interrupting block (known finding alternating-container-lines-recursion). *)
Theorem C01_block_parser_loops_terminate : forall C s, block_cfg = Some C -> block_parse C s <> Fuel.
Proof. intros C s H. apply block_parse_never_out_of_fuel. exact (block_cfg_ok C H). Qed.

(* every block handler that accepts returns a position beyond the cursor *)
Theorem C01_block_cursor_advances : forall C fuel rk m st rf st2 rf2 np p, block_cfg = Some C -> mok C rk m st ->
  bhandle C fuel rk m st rf = Ok (st2, rf2, np) -> Block.truthy np = Some p -> s_cursor st < p.
Proof. intros C fuel rk m st rf st2 rf2 np p H. apply block_handlers_advance. exact (block_cfg_ok C H). Qed.

Example C01_block_example :
  match block_cfg with
  | Some C => block_parse C [35; 32; 104; 10; 62; 32; 45; 32; 97; 10; 62; 32; 32; 32; 98; 10]%Z =
              Ok ([BHeading [104%Z] 1 false; BQuote [BList [BListItem [BBlockText [97; 10; 98; 10]%Z]] true 45%Z 1 false None]], [])
  | None => False
  end.
Proof. vm_compute. reflexivity. Qed.

Print Assumptions C01_loop_terminates.
Print Assumptions C01_nonnullable_rule_advances.
Print Assumptions C01_inline_parser_terminates.
Print Assumptions C01_inline_cursor_advances.
Print Assumptions C01_block_parser_loops_terminate.
Print Assumptions C01_block_cursor_advances.
