(* C07 — conversion work grows at most quadratically.  PARTIAL (see DESIGN.md): time is a property of the running
   interpreter; what is proved here is the logical skeleton of the bound, for every input:
   (1) the scanner loops run at most (length - cursor) iterations (one pattern search/match each);
   (2) the step-counting matcher used to measure backtracking computes exactly the results of the verified engine;
   (3) every alternation that a repeat can enter more than once has pairwise exclusive alternatives (from no
       position can two of them both consume), in every regenerated pattern except the four listed overlaps - the
       condition whose failure is the classic source of exponential backtracking.
   The growth rate itself (pumped inputs, CPU time of the real converter, step counts of the model) is decided by
   the oracle. *)
From Coq Require Import ZArith List Bool Lia Arith.
From Verif Require Import PyStr Rx RxSpec RxAnalysis RxExcl RxCost RxCostProofs Loop LoopProofs UnicodeGen RxGen.
Import ListNotations.
Local Open Scope nat_scope.

(* (1) at most one iteration per remaining character *)
Theorem C07_scanner_iterations_linear : forall (S : Type) (max : nat) (step : nat -> S -> nat * S),
  (forall cur st, cur < max -> cur < fst (step cur st)) ->
  forall cur st, exists cur' st', gloop (max - cur) max step cur st = Some (cur', st') /\ max <= cur'.
Proof. intros S max step Hp cur st. apply (gloop_terminates max step Hp). lia. Qed.

(* (2) the counted engine is the engine *)
Theorem C07_cost_engine_is_the_engine : forall r s pos,
  fst (re_search_cost U r s pos) = (let z := zip_at s pos (length s) in search_from U r (length (z_rest z)) z).
Proof. intros r s pos. unfold re_search_cost. apply search_cost_agrees. Qed.

(* (3) exclusive alternatives under repeats *)
Theorem C07_exclusive_alternatives : forall a b, excl U true (RAlt a b) = true ->
  forall i j x y, i < j -> nth_error (alts (RAlt a b)) i = Some x -> nth_error (alts (RAlt a b)) j = Some y ->
  forall z c z1 c1 z2 c2, M U x z c z1 c1 -> z_idx z < z_idx z1 -> M U y z c z2 c2 -> z_idx z < z_idx z2 -> False.
Proof. exact (excl_alt_sound U). Qed.

(* the patterns whose repeated alternations overlap on the first character; each is pumped by the oracle on every run:
   - helpers__LINK_TITLE_RE: escape vs literal back-slash, separated by a look-ahead on the second character
   - plugins_formatting__SUBSCRIPT_PATTERN / SUPERSCRIPT_PATTERN: \S overlaps the escape alternatives; any later
     delimiter closes the lazy repeat
   - block__indent_code: the repeat is the last item of the rule, its continuation never fails *)
Definition known_overlaps : list str :=
  [ [104; 101; 108; 112; 101; 114; 115; 95; 95; 76; 73; 78; 75; 95; 84; 73; 84; 76; 69; 95; 82; 69]%Z;
    [112; 108; 117; 103; 105; 110; 115; 95; 102; 111; 114; 109; 97; 116; 116; 105; 110; 103; 95; 95; 83; 85; 66; 83; 67; 82; 73; 80; 84; 95; 80; 65; 84; 84; 69; 82; 78]%Z;
    [112; 108; 117; 103; 105; 110; 115; 95; 102; 111; 114; 109; 97; 116; 116; 105; 110; 103; 95; 95; 83; 85; 80; 69; 82; 83; 67; 82; 73; 80; 84; 95; 80; 65; 84; 84; 69; 82; 78]%Z;
    [98; 108; 111; 99; 107; 95; 95; 105; 110; 100; 101; 110; 116; 95; 99; 111; 100; 101]%Z ].

Theorem C07_all_patterns_exclusive_or_listed :
  rx_table <> [] /\
  forallb (fun e : str * rx => wf (snd e) && (excl U false (snd e) || existsb (str_eqb (fst e)) known_overlaps)) rx_table = true.
Proof. split; [discriminate|vm_compute; reflexivity]. Qed.

(* non-vacuity: the label pattern has a repeated alternation and passes *)
Example C07_label_is_checked :
  excl U false rx_helpers__INLINE_LINK_LABEL_RE = true /\
  excl U false (RRep true 0 None (RAlt (RLit 92%Z) (RIn true [CLit 91%Z]))) = false.
Proof. split; vm_compute; reflexivity. Qed.

Print Assumptions C07_scanner_iterations_linear.
Print Assumptions C07_cost_engine_is_the_engine.
Print Assumptions C07_exclusive_alternatives.
Print Assumptions C07_all_patterns_exclusive_or_listed.
