(* C07 — conversion work grows at most quadratically.  PARTIAL (see DESIGN.md): time is a property of the running
   interpreter; what is proved here is the logical skeleton of the bound, for every input:
   (1) the scanner loops run at most (length - cursor) iterations (one pattern search/match each);
   (2) the step-counting matcher used to measure backtracking computes exactly the results of the verified engine;
   (3) every alternation that a repeat can enter more than once has pairwise exclusive alternatives (from no
       position can two of them both consume), in every regenerated pattern except the four listed overlaps - the
       condition whose failure is the classic source of exponential backtracking.
   (4) no repeat that can iterate more than once has a body that can end in an unbounded repeat of a class and begin with a
       character of the same class - the shape (x+)+ - in every regenerated pattern except the seven listed ones.
   The growth rate itself (pumped inputs, CPU time of the real converter, step counts of the model) is decided by
   the oracle. *)
From Coq Require Import ZArith List Bool Lia Arith.
From Verif Require Import PyStr Rx RxSpec RxAnalysis RxExcl RxNest RxCost RxCostProofs Loop LoopProofs UnicodeGen RxGen.
Import ListNotations.
Local Open Scope nat_scope.

(* (1) at most one iteration per remaining character *)
Theorem C07_scanner_iterations_linear : forall (S : Type) (max : nat) (step : nat -> S -> nat * S),
  (forall cur st, cur < max -> cur < fst (step cur st)) ->
  forall cur st, exists cur' st', gloop (max - cur) max step cur st = Some (cur', st') /\ max <= cur'.
Proof. intros S max step Hp cur st. apply (gloop_terminates max step Hp). lia. Qed.

(* (2) the counted engine is the engine *)
Theorem C07_cost_engine_is_the_engine : forall r s pos,
  fst (re_search_cost U r s pos) = (let z := zip_at s pos (length s) in search_from U r (length (z_rest z)) z).
Proof. intros r s pos. unfold re_search_cost. apply search_cost_agrees. Qed.

(* (3) exclusive alternatives under repeats *)
Theorem C07_exclusive_alternatives : forall a b, excl U true (RAlt a b) = true ->
  forall i j x y, i < j -> nth_error (alts (RAlt a b)) i = Some x -> nth_error (alts (RAlt a b)) j = Some y ->
  forall z c z1 c1 z2 c2, M U x z c z1 c1 -> z_idx z < z_idx z1 -> M U y z c z2 c2 -> z_idx z < z_idx z2 -> False.
Proof. exact (excl_alt_sound U). Qed.

(* the patterns whose repeated alternations overlap on the first character; each is pumped by the oracle on every run:
   - helpers__LINK_TITLE_RE: escape vs literal back-slash, separated by a look-ahead on the second character
   - plugins_formatting__SUBSCRIPT_PATTERN / SUPERSCRIPT_PATTERN: \S overlaps the escape alternatives; any later
     delimiter closes the lazy repeat
   - block__indent_code: the repeat is the last item of the rule, its continuation never fails *)
Definition known_overlaps : list str :=
  [ [104; 101; 108; 112; 101; 114; 115; 95; 95; 76; 73; 78; 75; 95; 84; 73; 84; 76; 69; 95; 82; 69]%Z;
    [112; 108; 117; 103; 105; 110; 115; 95; 102; 111; 114; 109; 97; 116; 116; 105; 110; 103; 95; 95; 83; 85; 66; 83; 67; 82; 73; 80; 84; 95; 80; 65; 84; 84; 69; 82; 78]%Z;
    [112; 108; 117; 103; 105; 110; 115; 95; 102; 111; 114; 109; 97; 116; 116; 105; 110; 103; 95; 95; 83; 85; 80; 69; 82; 83; 67; 82; 73; 80; 84; 95; 80; 65; 84; 84; 69; 82; 78]%Z;
    [98; 108; 111; 99; 107; 95; 95; 105; 110; 100; 101; 110; 116; 95; 99; 111; 100; 101]%Z ].

Theorem C07_all_patterns_exclusive_or_listed :
  rx_table <> [] /\
  forallb (fun e : str * rx => wf (snd e) && (excl U false (snd e) || existsb (str_eqb (fst e)) known_overlaps)) rx_table = true.
Proof. split; [discriminate|vm_compute; reflexivity]. Qed.

(* non-vacuity: the label pattern has a repeated alternation and passes *)
Example C07_label_is_checked :
  excl U false rx_helpers__INLINE_LINK_LABEL_RE = true /\
  excl U false (RRep true 0 None (RAlt (RLit 92%Z) (RIn true [CLit 91%Z]))) = false.
Proof. split; vm_compute; reflexivity. Qed.

(* (4) repeats that end where they begin *)
Theorem C07_character_classes_disjoint : forall a b ch, disjoint2 U a b = true -> cs_mem U a ch = true -> cs_mem U b ch = true -> False.
Proof. exact (disjoint2_sound U). Qed.

Theorem C07_iterations_have_one_boundary : forall g lo hi r1, nest U (RRep g lo hi r1) = true -> multi hi = true ->
  forall fs ch, In fs (ends_open r1) -> existsb (fun s => cs_mem U s ch) fs = true -> in_first U r1 ch = true -> False.
Proof. exact (nest_rep_sound U). Qed.

(* the patterns in which an iteration can end in an open repeat that the next iteration could continue; each is pumped by the
   oracle on every run (every repeat of every pattern is):
   - block_parser__STRICT_BLOCK_QUOTE: the iteration ends in (?:\n|$): behind [^\n]* only the end anchor lets it end without a line feed, and nothing follows the end
   - plugins_table__NP_TABLE_PATTERN: as above: .*(?:\n|$)
   - plugins_table__TABLE_PATTERN: as above: [ \t]*(?:\n|$)
   - directives__fenced__directive_re: (?:[^\n]*\n+)* is the last item of the rule, its continuation never fails
   - plugins_def_list__DEF_PATTERN: blank-line runs inside and behind the continuation lines; last item of the rule
   - plugins_footnotes__REF_FOOTNOTE: the continuation lines begin with a back-reference (first set unknown) and end in \n+; last item of the rule
   - block__indent_code: the repeat is the last item of the rule, its continuation never fails (also listed above) *)
Definition known_nested : list str :=
  [ [98; 108; 111; 99; 107; 95; 112; 97; 114; 115; 101; 114; 95; 95; 83; 84; 82; 73; 67; 84; 95; 66; 76; 79; 67; 75; 95; 81; 85; 79; 84; 69]%Z;
    [112; 108; 117; 103; 105; 110; 115; 95; 116; 97; 98; 108; 101; 95; 95; 78; 80; 95; 84; 65; 66; 76; 69; 95; 80; 65; 84; 84; 69; 82; 78]%Z;
    [112; 108; 117; 103; 105; 110; 115; 95; 116; 97; 98; 108; 101; 95; 95; 84; 65; 66; 76; 69; 95; 80; 65; 84; 84; 69; 82; 78]%Z;
    [100; 105; 114; 101; 99; 116; 105; 118; 101; 115; 95; 95; 102; 101; 110; 99; 101; 100; 95; 95; 100; 105; 114; 101; 99; 116; 105; 118; 101; 95; 114; 101]%Z;
    [112; 108; 117; 103; 105; 110; 115; 95; 100; 101; 102; 95; 108; 105; 115; 116; 95; 95; 68; 69; 70; 95; 80; 65; 84; 84; 69; 82; 78]%Z;
    [112; 108; 117; 103; 105; 110; 115; 95; 102; 111; 111; 116; 110; 111; 116; 101; 115; 95; 95; 82; 69; 70; 95; 70; 79; 79; 84; 78; 79; 84; 69]%Z;
    [98; 108; 111; 99; 107; 95; 95; 105; 110; 100; 101; 110; 116; 95; 99; 111; 100; 101]%Z ].

Theorem C07_no_repeat_ends_where_it_begins_or_listed :
  forallb (fun e : str * rx => nest U (snd e) || existsb (str_eqb (fst e)) known_nested) rx_table = true.
Proof. vm_compute; reflexivity. Qed.

(* non-vacuity: (x+)+ and a URL body with a repeated alternative that is itself a run fail; the label pattern passes *)
Example C07_nested_is_checked :
  nest U (RRep true 1 None (RRep true 1 None (RLit 120%Z))) = false /\
  nest U (RRep true 1 None (RAlt (RRep true 1 None (RIn true [CLit 40%Z; CLit 41%Z])) (RSeq (RLit 40%Z) (RLit 41%Z)))) = false /\
  nest U rx_helpers__INLINE_LINK_LABEL_RE = true /\
  length (filter (fun e : str * rx => negb (nest U (snd e))) rx_table) = 7.
Proof. repeat split; vm_compute; reflexivity. Qed.

Print Assumptions C07_scanner_iterations_linear.
Print Assumptions C07_cost_engine_is_the_engine.
Print Assumptions C07_exclusive_alternatives.
Print Assumptions C07_all_patterns_exclusive_or_listed.
Print Assumptions C07_character_classes_disjoint.
Print Assumptions C07_iterations_have_one_boundary.
Print Assumptions C07_no_repeat_ends_where_it_begins_or_listed.
