(* C15 — tables of contents mirror the document's headings. *)
From Coq Require Import ZArith List Bool Lia FinFun.
From Verif Require Import PyStr Toc TocGen TocProofs DecimalProofs.
Import ListNotations.
Local Open Scope nat_scope.

(* ---- TIE: the literal pieces regenerated from render_toc_ul lex to the tag events the proof uses ---- *)
Definition piece_table : list (chunk * str) :=
  [(CFirst, p_first toc_P); (CSame, p_same toc_P); (CDeeper, p_deeper toc_P); (CUpEq, p_up_eq toc_P);
   (CUpGt, p_up_gt toc_P); (CUpLt, p_up_lt toc_P); (CUpEnd, p_up_end toc_P); (CFinal, p_final toc_P);
   (CHead, p_head toc_P); (CTail, p_tail toc_P)].

Theorem C15_tie_pieces :
  forallb (fun p : chunk * str =>
    match lex (snd p) with
    | Some es => Nat.eqb (length es) (length (chunk_events (fst p))) &&
                 forallb (fun q : ev * ev => match q with
                            | (UlO, UlO) | (UlC, UlC) | (LiO, LiO) | (LiC, LiC) => true | _ => false end)
                         (combine es (chunk_events (fst p)))
    | None => false
    end) piece_table = true.
Proof. vm_compute. reflexivity. Qed.

(* the anchor is  <a href="#ID">TEXT</a> : phrasing content, the id inside a quoted href *)
Theorem C15_tie_item :
  p_item_a toc_P = [60; 97; 32; 104; 114; 101; 102; 61; 34; 35]%Z /\
  p_item_b toc_P = [34; 62]%Z /\ p_item_c toc_P = [60; 47; 97; 62]%Z.
Proof. repeat split; reflexivity. Qed.

Theorem C15_tie_id_prefix : toc_id_prefix = [116; 111; 99; 95]%Z.
Proof. reflexivity. Qed.

(* ---- the rendered list, for every sequence of levels (any length, any jumps) ---- *)
(* render_toc_ul's output is the concatenation of these chunks ... *)
Theorem C15_render_is_chunks : forall toc,
  render_toc_ul toc_P toc =
  flat_map (show_chunk toc_P (map (fun t => (snd (fst t), snd t)) toc)) (toc_chunks (map (fun t => fst (fst t)) toc)).
Proof. reflexivity. Qed.

(* ... whose tag events are a well-nested list forest in which entry i is nested directly under the
   closest preceding entry with a strictly smaller level (None = top level) *)
Theorem C15_toc_well_formed_and_nested : forall levels, levels <> [] ->
  read_tree (flat_map chunk_events (toc_chunks levels)) = Some (toc_parents levels).
Proof. exact toc_well_formed. Qed.

(* every entry's anchor occurs exactly once, in input order *)
Theorem C15_toc_entries_in_order : forall levels, levels <> [] ->
  chunk_items (toc_chunks levels) = seq 0 (length levels).
Proof. exact toc_anchor_order. Qed.

Theorem C15_empty_toc : toc_chunks [] = [].
Proof. reflexivity. Qed.

(* ---- hook and directive: ids and listed items ---- *)
(* tokens: the top-level token stream, Some level for a heading *)
Theorem C15_ids_unique_in_document_order : forall range tokens,
  map snd (hook_items range tokens) = seq 0 (length (heading_positions range tokens)).
Proof. exact hook_ids_in_order. Qed.

(* ... and the id STRINGS ("toc_1", "toc_2", ...) are pairwise different too: str(int) can be read back
   (DecimalProofs.str_of_Z_value, which also shows the fuel of the decimal rendering is never exhausted) *)
Theorem C15_id_strings_injective : forall prefix i j, toc_id prefix i = toc_id prefix j -> i = j.
Proof.
  intros prefix i j H. unfold toc_id in H. apply app_inv_head in H. apply str_of_nat_inj in H. lia.
Qed.
Print Assumptions C15_id_strings_injective.

Theorem C15_id_strings_unique : forall prefix range tokens,
  NoDup (map (fun it => toc_id prefix (snd it)) (hook_items range tokens)).
Proof.
  intros prefix range tokens. rewrite <- (map_map snd (toc_id prefix)), C15_ids_unique_in_document_order.
  apply Injective_map_NoDup; [intros i j; apply C15_id_strings_injective | apply seq_NoDup].
Qed.
Print Assumptions C15_id_strings_unique.

(* an id is the prefix followed by a non-empty run of decimal digits, nothing else *)
Theorem C15_id_shape : forall prefix i, exists d : str, toc_id prefix i = (prefix ++ d)%list /\ d <> (@nil Z) /\
  forallb is_ascii_digit d = true.
Proof.
  intros prefix i. exists (str_of_nat (S i)). split; [reflexivity|]. split; [apply str_of_nat_nonempty | apply str_of_nat_digits].
Qed.
Print Assumptions C15_id_shape.

Theorem C15_items_are_the_eligible_headings : forall range tokens,
  map (fun it => (fst (fst it), Some (snd (fst it)))) (hook_items range tokens) = heading_positions range tokens.
Proof. exact hook_items_exact. Qed.

Theorem C15_section_lists_its_range : forall mn mx items it,
  In it (section_items mn mx items) <-> In it items /\ in_range (Some (mn, mx)) (snd (fst it)) = true.
Proof. exact section_items_spec. Qed.

Example C15_example :
  read_tree (flat_map chunk_events (toc_chunks [2; 1; 3; 2; 2; 6; 1]%nat)) =
  Some [(0, None); (1, None); (2, Some 1); (3, Some 1); (4, Some 1); (5, Some 4); (6, None)]%nat.
Proof. vm_compute. reflexivity. Qed.

Print Assumptions C15_toc_well_formed_and_nested.
Print Assumptions C15_toc_entries_in_order.
Print Assumptions C15_ids_unique_in_document_order.
Print Assumptions C15_items_are_the_eligible_headings.
Print Assumptions C15_section_lists_its_range.
Print Assumptions C15_tie_pieces.
