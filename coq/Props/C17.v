(* C17 — the command-line tool is a faithful front end to the library.
   lib_text / lib_file stand for the library (create_markdown(cfg)(text), .read(path)[0]). *)
From Coq Require Import ZArith List Bool Lia.
From Verif Require Import PyStr Cli CliGen CliProofs UtilProofs.
Import ListNotations.
Open Scope Z_scope.

(* ---- TIE: facts about the regenerated argparse declarations and constants ---- *)
Definition decl_of (flag : str) : option opt_decl := find_decl cli_decls flag.
Definition F (s : list Z) : str := s.
Definition f_m := F [45; 109].            Definition f_message := F [45; 45; 109; 101; 115; 115; 97; 103; 101].
Definition f_f := F [45; 102].            Definition f_file := F [45; 45; 102; 105; 108; 101].
Definition f_p := F [45; 112].            Definition f_plugin := F [45; 45; 112; 108; 117; 103; 105; 110].
Definition f_o := F [45; 111].            Definition f_output := F [45; 45; 111; 117; 116; 112; 117; 116].
Definition f_r := F [45; 114].            Definition f_renderer := F [45; 45; 114; 101; 110; 100; 101; 114; 101; 114].
Definition f_escape := F [45; 45; 101; 115; 99; 97; 112; 101].
Definition f_hardwrap := F [45; 45; 104; 97; 114; 100; 119; 114; 97; 112].

Definition has (flag : str) (dest : str) (a : action) (dflt : option aval) : bool :=
  match decl_of flag with
  | Some d => str_eqb (od_dest d) dest &&
              match od_action d, a with AStore, AStore | AStoreTrue, AStoreTrue | AExtend, AExtend => true | _, _ => false end &&
              match od_default d, dflt with
              | None, None => true
              | Some (VS x), Some (VS y) => str_eqb x y
              | _, _ => false
              end
  | None => false
  end.

Theorem C17_tie_decls :
  flags_are_flags cli_decls = true /\
  has f_m (k_message cli_K) AStore None = true /\ has f_message (k_message cli_K) AStore None = true /\
  has f_f (k_file cli_K) AStore None = true /\ has f_file (k_file cli_K) AStore None = true /\
  has f_p (k_plugin cli_K) AExtend None = true /\ has f_plugin (k_plugin cli_K) AExtend None = true /\
  has f_o (k_output cli_K) AStore None = true /\ has f_output (k_output cli_K) AStore None = true /\
  has f_r (k_renderer cli_K) AStore (Some (VS [104; 116; 109; 108])) = true /\
  has f_renderer (k_renderer cli_K) AStore (Some (VS [104; 116; 109; 108])) = true /\
  has f_escape (k_escape cli_K) AStoreTrue None = true /\ has f_hardwrap (k_hardwrap cli_K) AStoreTrue None = true /\
  NoDup [k_message cli_K; k_file cli_K; k_plugin cli_K; k_escape cli_K; k_hardwrap cli_K; k_output cli_K; k_renderer cli_K].
Proof.
  repeat (split; [vm_compute; reflexivity|]).
  repeat constructor; cbn; intros H; repeat (destruct H as [H|H]; [discriminate H|]); exact H.
Qed.

(* the initial namespace: no message, no file, no plugins, flags off, renderer html, no output *)
Theorem C17_tie_init :
  init_ns cli_decls = [(k_escape cli_K, VB false); (k_hardwrap cli_K, VB false); (k_renderer cli_K, VS [104; 116; 109; 108])].
Proof. vm_compute. reflexivity. Qed.

Section C17.
Variable lib_text : config -> str -> str.
Variable lib_file : config -> str -> option str.
Notation run := (cli lib_text lib_file cli_decls cli_K).

(* a command line = any sequence of well-formed option occurrences (any order, any flag spelling) *)
Definition cmdline (items : list item) : list str := flat_map render_item items.
Definition wf (items : list item) : Prop := Forall (item_ok cli_decls) items.
Definition namespace (items : list item) : ns := fold_left apply_item items (init_ns cli_decls).
Definition no_opt (k : str) (items : list item) : Prop := Forall (fun it => item_dest it <> k) items.

Lemma run_is_ns items stdin : wf items -> run (cmdline items) stdin = cli_ns lib_text lib_file cli_K (namespace items) stdin.
Proof.
  intros H. apply cli_is_cli_ns. apply parse_argv_items; [apply C17_tie_decls|exact H].
Qed.

(* -- 1. flag -> configuration mapping -- *)
Theorem C17_plugins_explicit : forall items d f vs,
  wf items -> NoDup (map item_dest items) -> In (IExtend d f vs) items -> od_dest d = k_plugin cli_K -> vs <> [] ->
  c_plugins (md_config cli_K (namespace items)) = vs.
Proof.
  intros items d f vs Hwf Hnd Hin Hd Hne. apply in_split in Hin. destruct Hin as (pre & post & ->).
  destruct (nodup_split_dest _ pre (IExtend d f vs) post eq_refl Hnd) as [Hpre Hpost].
  unfold md_config, get_list, namespace. cbn [item_dest] in *. rewrite <- Hd.
  rewrite (fold_extend_once d f vs pre post _ Hpre Hpost). rewrite Hd. rewrite C17_tie_init.
  cbn [ns_get]. change (str_eqb (k_plugin cli_K) (k_escape cli_K)) with false.
  change (str_eqb (k_plugin cli_K) (k_hardwrap cli_K)) with false.
  change (str_eqb (k_plugin cli_K) (k_renderer cli_K)) with false. cbn [app].
  destruct vs; [contradiction|reflexivity].
Qed.

Theorem C17_plugins_default : forall items,
  no_opt (k_plugin cli_K) items -> c_plugins (md_config cli_K (namespace items)) = k_default_plugins cli_K.
Proof.
  intros items H. unfold md_config, get_list, namespace. rewrite (fold_preserves _ items _ H).
  rewrite C17_tie_init. reflexivity.
Qed.

Theorem C17_bool_flags : forall items,
  (no_opt (k_escape cli_K) items -> c_escape (md_config cli_K (namespace items)) = false) /\
  (no_opt (k_hardwrap cli_K) items -> c_hardwrap (md_config cli_K (namespace items)) = false) /\
  (forall d f, NoDup (map item_dest items) -> In (ITrue d f) items -> od_dest d = k_escape cli_K ->
     c_escape (md_config cli_K (namespace items)) = true) /\
  (forall d f, NoDup (map item_dest items) -> In (ITrue d f) items -> od_dest d = k_hardwrap cli_K ->
     c_hardwrap (md_config cli_K (namespace items)) = true).
Proof.
  intros items. unfold md_config, get_bool, namespace. cbn [c_escape c_hardwrap]. repeat split.
  - intros H. rewrite (fold_preserves _ items _ H), C17_tie_init. reflexivity.
  - intros H. rewrite (fold_preserves _ items _ H), C17_tie_init. reflexivity.
  - intros d f Hnd Hin Hd. apply in_split in Hin. destruct Hin as (pre & post & ->).
    destruct (nodup_split_dest _ pre (ITrue d f) post eq_refl Hnd) as [_ Hpost].
    rewrite <- Hd. rewrite (fold_true_once d f pre post _ Hpost). reflexivity.
  - intros d f Hnd Hin Hd. apply in_split in Hin. destruct Hin as (pre & post & ->).
    destruct (nodup_split_dest _ pre (ITrue d f) post eq_refl Hnd) as [_ Hpost].
    rewrite <- Hd. rewrite (fold_true_once d f pre post _ Hpost). reflexivity.
Qed.

Theorem C17_renderer : forall items,
  (no_opt (k_renderer cli_K) items -> c_renderer (md_config cli_K (namespace items)) = [104; 116; 109; 108]) /\
  (forall d f v, NoDup (map item_dest items) -> In (IStore d f v) items -> od_dest d = k_renderer cli_K ->
     c_renderer (md_config cli_K (namespace items)) = v).
Proof.
  intros items. unfold md_config, get_str, namespace. cbn [c_renderer]. split.
  - intros H. rewrite (fold_preserves _ items _ H), C17_tie_init. reflexivity.
  - intros d f v Hnd Hin Hd. apply in_split in Hin. destruct Hin as (pre & post & ->).
    destruct (nodup_split_dest _ pre (IStore d f v) post eq_refl Hnd) as [_ Hpost].
    rewrite <- Hd. rewrite (fold_store_once d f v pre post _ Hpost). reflexivity.
Qed.

(* -- 2. the three input channels give the same outcome -- *)
Theorem C17_channels_agree : forall items dm fm df ff content path stdin_a stdin_b,
  wf items -> no_opt (k_message cli_K) items -> no_opt (k_file cli_K) items ->
  item_ok cli_decls (IStore dm fm content) -> od_dest dm = k_message cli_K ->
  item_ok cli_decls (IStore df ff path) -> od_dest df = k_file cli_K ->
  content <> [] -> path <> [] ->
  (* the file holds [content]: reading it gives what converting the text gives *)
  (forall cfg, lib_file cfg path = Some (lib_text cfg content)) ->
  let cfg := md_config cli_K (namespace items) in
  let expected := emit (namespace items) cli_K (lib_text cfg content) in
  run (cmdline (IStore dm fm content :: items)) stdin_a = expected /\
  run (cmdline (IStore df ff path :: items)) stdin_b = expected /\
  run (cmdline items) (Some content) = expected.
Proof.
  intros items dm fm df ff content path sa sb Hwf Hnm Hnf Hokm Hdm Hokf Hdf Hc Hp Hfile cfg expected.
  destruct C17_tie_decls as (_ & _ & _ & _ & _ & _ & _ & _ & _ & _ & _ & _ & _ & Hkeys).
  assert (Kne : forall a b, a <> b -> In a [k_message cli_K; k_file cli_K] ->
                In b [k_plugin cli_K; k_escape cli_K; k_hardwrap cli_K; k_output cli_K; k_renderer cli_K] -> a <> b) by auto.
  assert (Hinit_m : ns_get (init_ns cli_decls) (k_message cli_K) = None) by (rewrite C17_tie_init; reflexivity).
  assert (Hinit_f : ns_get (init_ns cli_decls) (k_file cli_K) = None) by (rewrite C17_tie_init; reflexivity).
  assert (Hmf : k_message cli_K <> k_file cli_K) by (vm_compute; discriminate).
  repeat split.
  - (* -m *)
    rewrite run_is_ns by (constructor; assumption).
    unfold namespace at 1. cbn [fold_left apply_item]. rewrite Hdm.
    set (n1 := fold_left apply_item items (ns_set (init_ns cli_decls) (k_message cli_K) (VS content))).
    assert (Hag : agree_except (k_message cli_K) n1 (namespace items)).
    { apply agree_fold; [assumption|apply agree_set]. }
    assert (Hget : get_str n1 (k_message cli_K) = Some content).
    { unfold get_str, n1. rewrite (fold_preserves _ items _ Hnm), ns_get_set_same. reflexivity. }
    rewrite (cli_message lib_text lib_file cli_K n1 sa content Hget Hc).
    rewrite (md_config_agree cli_K (k_message cli_K) n1 (namespace items)); try (vm_compute; discriminate); [|exact Hag].
    apply (emit_agree cli_K (k_message cli_K)); [vm_compute; discriminate|exact Hag].
  - (* -f *)
    rewrite run_is_ns by (constructor; assumption).
    unfold namespace at 1. cbn [fold_left apply_item]. rewrite Hdf.
    set (n1 := fold_left apply_item items (ns_set (init_ns cli_decls) (k_file cli_K) (VS path))).
    assert (Hag : agree_except (k_file cli_K) n1 (namespace items)).
    { apply agree_fold; [assumption|apply agree_set]. }
    assert (Hgetf : get_str n1 (k_file cli_K) = Some path).
    { unfold get_str, n1. rewrite (fold_preserves _ items _ Hnf), ns_get_set_same. reflexivity. }
    assert (Hgetm : truthy (get_str n1 (k_message cli_K)) = false).
    { unfold get_str, n1. rewrite (fold_preserves _ items _ Hnm).
      rewrite ns_get_set_other by congruence. rewrite Hinit_m. reflexivity. }
    rewrite (cli_file lib_text lib_file cli_K n1 sb path Hgetm Hgetf Hp). rewrite Hfile.
    rewrite (md_config_agree cli_K (k_file cli_K) n1 (namespace items)); try (vm_compute; discriminate); [|exact Hag].
    apply (emit_agree cli_K (k_file cli_K)); [vm_compute; discriminate|exact Hag].
  - (* stdin *)
    rewrite run_is_ns by assumption.
    apply cli_stdin; [| |assumption]; unfold get_str, namespace.
    + rewrite (fold_preserves _ items _ Hnm), Hinit_m. reflexivity.
    + rewrite (fold_preserves _ items _ Hnf), Hinit_f. reflexivity.
Qed.

(* -- 3. output channel -- *)
Theorem C17_stdout_adds_one_newline : forall items text,
  no_opt (k_output cli_K) items -> emit (namespace items) cli_K text = OStdout (text ++ [10]).
Proof.
  intros items text H. apply emit_stdout. unfold get_str, namespace.
  rewrite (fold_preserves _ items _ H), C17_tie_init. reflexivity.
Qed.

Theorem C17_output_file_verbatim : forall items d f o text,
  NoDup (map item_dest items) -> In (IStore d f o) items -> od_dest d = k_output cli_K -> o <> [] ->
  emit (namespace items) cli_K text = OFile o text.
Proof.
  intros items d f o text Hnd Hin Hd Ho. apply emit_file; [|assumption]. unfold get_str, namespace.
  apply in_split in Hin. destruct Hin as (pre & post & ->).
  destruct (nodup_split_dest _ pre (IStore d f o) post eq_refl Hnd) as [_ Hpost].
  rewrite <- Hd. rewrite (fold_store_once d f o pre post _ Hpost). reflexivity.
Qed.

(* -- 4. nothing to convert -- *)
Theorem C17_no_input_is_an_error : forall items,
  wf items -> no_opt (k_message cli_K) items -> no_opt (k_file cli_K) items ->
  run (cmdline items) None = OErrorExit (k_error_text cli_K) /\ run (cmdline items) (Some []) = OErrorExit (k_error_text cli_K).
Proof.
  intros items Hwf Hnm Hnf. rewrite !run_is_ns by assumption.
  apply cli_nothing; unfold get_str, namespace.
  - rewrite (fold_preserves _ items _ Hnm), C17_tie_init. reflexivity.
  - rewrite (fold_preserves _ items _ Hnf), C17_tie_init. reflexivity.
Qed.
End C17.

(* non-vacuity: a concrete command line  -p table url --escape -m hi  *)
Example C17_example :
  let t := [116; 97; 98; 108; 101] in let u := [117; 114; 108] in
  match decl_of f_p, decl_of f_escape, decl_of f_m with
  | Some dp, Some de, Some dm =>
    let items := [IExtend dp f_p [t; u]; ITrue de f_escape; IStore dm f_m [104; 105]] in
    parse_argv cli_decls (flat_map render_item items) = POk (fold_left apply_item items (init_ns cli_decls)) /\
    c_plugins (md_config cli_K (fold_left apply_item items (init_ns cli_decls))) = [t; u] /\
    c_escape (md_config cli_K (fold_left apply_item items (init_ns cli_decls))) = true
  | _, _, _ => False
  end.
Proof. vm_compute. repeat split; reflexivity. Qed.

Print Assumptions C17_plugins_explicit.
Print Assumptions C17_plugins_default.
Print Assumptions C17_bool_flags.
Print Assumptions C17_renderer.
Print Assumptions C17_channels_agree.
Print Assumptions C17_stdout_adds_one_newline.
Print Assumptions C17_output_file_verbatim.
Print Assumptions C17_no_input_is_an_error.
