(* C18 — escaping and key utilities are safe and stable.
   Statements only; every proof is an instance of a lemma of Proofs/UtilProofs.v whose
   side condition is a finite check on the data regenerated from the source
   (Gen/UtilGen.v), evaluated by vm_compute inside the kernel. *)
From Coq Require Import ZArith List Bool Lia.
From Verif Require Import PyStr Util UtilGen UtilProofs.
Import ListNotations.
Open Scope Z_scope.

(* ---- TIE: regenerated programs are the modelled ones ---- *)
Theorem C18_tie_unikey : unikey_ops = canonical_uk_ops.
Proof. reflexivity. Qed.
(* &(#[0-9]{1,7};|#[xX][0-9a-fA-F]+;|[^\t\n\f <&#;]{1,32};)  — the pattern match_charref true models *)
Definition expected_charref_pattern : str :=
  [38; 40; 35; 91; 48; 45; 57; 93; 123; 49; 44; 55; 125; 59; 124; 35; 91; 120; 88; 93; 91; 48; 45; 57; 97; 45;
   102; 65; 45; 70; 93; 43; 59; 124; 91; 94; 92; 116; 92; 110; 92; 102; 32; 60; 38; 35; 59; 93; 123; 49; 44;
   51; 50; 125; 59; 41].
Theorem C18_tie_charref : charref_pattern = expected_charref_pattern.
Proof. reflexivity. Qed.

(* ---- reflective side conditions on the regenerated data ---- *)
Definition esc_q : list (Z * str) := match active escape_ops true with Some l => l | None => [] end.
Definition esc_nq : list (Z * str) := match active escape_ops false with Some l => l | None => [] end.

Lemma esc_q_active : active escape_ops true = Some esc_q.          Proof. vm_compute. reflexivity. Qed.
Lemma esc_nq_active : active escape_ops false = Some esc_nq.       Proof. vm_compute. reflexivity. Qed.
Lemma esc_q_chain : chain_ok esc_q = true.                         Proof. vm_compute. reflexivity. Qed.
Lemma esc_nq_chain : chain_ok esc_nq = true.                       Proof. vm_compute. reflexivity. Qed.
Lemma esc_q_no_bad : no_bad_ok esc_q [60; 62; 34] = true.          Proof. vm_compute. reflexivity. Qed.
Lemma esc_nq_no_bad : no_bad_ok esc_nq [60; 62] = true.            Proof. vm_compute. reflexivity. Qed.
Lemma esc_q_roundtrip : roundtrip_ok T esc_q = true.               Proof. vm_compute. reflexivity. Qed.
Lemma esc_nq_roundtrip : roundtrip_ok T esc_nq = true.             Proof. vm_compute. reflexivity. Qed.
Lemma safe_ok : safe_set_ok escape_url_safe = true.                Proof. vm_compute. reflexivity. Qed.
Lemma cf_table_ok : cf_ok T = true.                                Proof. vm_compute. reflexivity. Qed.
Lemma case_ok : case_tables_ok T = true.                           Proof. vm_compute. reflexivity. Qed.

Definition escape (s : str) (quote : bool) : str := run_escape escape_ops quote s.
Definition escape_url_m (s : str) : option str := escape_url T escape_url_safe s.
Definition safe_entity_m (s : str) : str := safe_entity T escape_ops s.
Definition unikey_m (s : str) : str := run_unikey T unikey_ops s.

(* ---- escape ---- *)
Theorem C18_escape_no_special : forall s,
  Forall (fun c => c <> 60 /\ c <> 62 /\ c <> 34) (escape s true) /\
  Forall (fun c => c <> 60 /\ c <> 62) (escape s false).
Proof.
  intros s. unfold escape. split.
  - rewrite (escape_spec _ _ _ s esc_q_active esc_q_chain).
    eapply Forall_impl; [|apply (subst_no_bad esc_q [60; 62; 34] s esc_q_no_bad)].
    cbn. intros c H. repeat split; intros ->; apply H; tauto.
  - rewrite (escape_spec _ _ _ s esc_nq_active esc_nq_chain).
    eapply Forall_impl; [|apply (subst_no_bad esc_nq [60; 62] s esc_nq_no_bad)].
    cbn. intros c H. repeat split; intros ->; apply H; tauto.
Qed.

Theorem C18_escape_roundtrip : forall s q, html_unescape T (escape s q) = s.
Proof.
  intros s [|]; unfold escape.
  - rewrite (escape_spec _ _ _ s esc_q_active esc_q_chain). apply unescape_subst, esc_q_roundtrip.
  - rewrite (escape_spec _ _ _ s esc_nq_active esc_nq_chain). apply unescape_subst, esc_nq_roundtrip.
Qed.

(* ---- escape_url (None = CPython raises UnicodeEncodeError on a lone surrogate) ---- *)
Theorem C18_escape_url_attr_safe : forall s t, escape_url_m s = Some t ->
  Forall (fun c => 32 < c < 127 /\ c <> 34 /\ c <> 60 /\ c <> 62) t.
Proof.
  intros s t H. unfold escape_url_m, escape_url in H.
  eapply Forall_impl; [|eapply quote_out_ok; exact H].
  intros c. apply out_ok_attr_safe, safe_ok.
Qed.

Theorem C18_escape_url_keeps_encoded : forall t,
  Forall (fun c => keep_ok escape_url_safe c = true /\ c <> 38) t -> escape_url_m t = Some t.
Proof.
  intros t H. unfold escape_url_m, escape_url, unescape.
  rewrite unescape_no_amp by (eapply Forall_impl; [|exact H]; intros a [_ Ha]; exact Ha).
  apply quote_id. eapply Forall_impl; [|exact H]. intros a [Ha _]; exact Ha.
Qed.

Theorem C18_escape_url_idempotent : forall s t,
  escape_url_m s = Some t -> unescape T t = t -> escape_url_m t = Some t.
Proof.
  intros s t H Hu. unfold escape_url_m, escape_url in *. rewrite Hu.
  eapply quote_idempotent; [|exact H]. vm_compute. reflexivity.
Qed.

Example C18_percent_octet_example :
  keep_ok escape_url_safe 37 = true /\ escape_url_m [47; 37; 101; 52; 37; 52; 49] = Some [47; 37; 101; 52; 37; 52; 49]
  /\ escape_url_m [97; 32; 98; 34; 233] = Some [97; 37; 50; 48; 98; 37; 50; 50; 37; 67; 51; 37; 65; 57].
Proof. vm_compute. repeat split; reflexivity. Qed.

(* ---- safe_entity ---- *)
Theorem C18_safe_entity_no_special : forall s,
  Forall (fun c => c <> 60 /\ c <> 62 /\ c <> 34) (safe_entity_m s).
Proof. intros s. unfold safe_entity_m, safe_entity. apply (proj1 (C18_escape_no_special _)). Qed.

(* ---- unikey ---- *)
Theorem C18_unikey_idempotent : forall s, unikey_m (unikey_m s) = unikey_m s.
Proof. intros s. unfold unikey_m. rewrite C18_tie_unikey. apply unikey_idempotent, cf_table_ok. Qed.

Theorem C18_unikey_whitespace_invariant : forall a r1 r2 b,
  r1 <> [] -> r2 <> [] ->
  Forall (fun c => is_ws T c = true) r1 -> Forall (fun c => is_ws T c = true) r2 ->
  unikey_m (a ++ r1 ++ b) = unikey_m (a ++ r2 ++ b).
Proof.
  intros a r1 r2 b N1 N2 H1 H2. unfold unikey_m. rewrite C18_tie_unikey.
  apply unikey_ws_invariant, split_ws_run_irrelevant; assumption.
Qed.

Theorem C18_unikey_edge_whitespace_invariant : forall r a,
  Forall (fun c => is_ws T c = true) r -> unikey_m (r ++ a) = unikey_m a /\ unikey_m (a ++ r) = unikey_m a.
Proof.
  intros r a H. unfold unikey_m. rewrite C18_tie_unikey.
  destruct (split_ws_edges (is_ws T) r a H) as [E1 E2].
  split; apply unikey_ws_invariant; assumption.
Qed.

(* s' is obtained from s by replacing characters by their str.upper() / str.lower() images *)
Theorem C18_unikey_case_invariant : forall s s', case_var T s s' -> unikey_m s' = unikey_m s.
Proof.
  intros s s' H. unfold unikey_m. rewrite C18_tie_unikey.
  apply unikey_case_invariant; [apply cf_table_ok|apply case_ok|exact H].
Qed.

Example C18_unikey_example :
  unikey_m [32; 70; 111; 111; 9; 10; 223; 32] = [70; 79; 79; 32; 83; 83] /\
  assoc_z 223 (t_upper T) = Some [83; 83] /\ is_ws T 8195 = true.
Proof. vm_compute. repeat split; reflexivity. Qed.

Print Assumptions C18_escape_no_special.
Print Assumptions C18_escape_roundtrip.
Print Assumptions C18_escape_url_attr_safe.
Print Assumptions C18_escape_url_keeps_encoded.
Print Assumptions C18_escape_url_idempotent.
Print Assumptions C18_safe_entity_no_special.
Print Assumptions C18_unikey_idempotent.
Print Assumptions C18_unikey_whitespace_invariant.
Print Assumptions C18_unikey_edge_whitespace_invariant.
Print Assumptions C18_unikey_case_invariant.
