(* C01 (continued) — the RST renderer on documents of the core configuration (property clause "the RST and Markdown
   renderers on core syntax").  Model coq/Model/RstDoc.v, tied by skeletons with constants and the RST correspondence run.
   The renderer raises exactly when its guard fails (RstTotal: the walk over the growing list of inline images cannot run
   out of fuel), and the guard holds of every AST of the core configuration: no plugin tokens without plugin rules
   (InlineTyped), heading levels 1..6 (BlockLevels), stored info strings are stripped (BlockInfo).  Hence converting with
   the RST renderer raises only if parsing itself raises (known finding lone-surrogate-in-destination) and no loop of the
   whole conversion runs out of fuel. *)
From Coq Require Import ZArith List Bool Lia Arith.
From Verif Require Import PyStr Rx UnicodeGen RxGen Inline InlineProofs InlineGen Block BlockProofs BlockGen Entry Doc BlockTyping BlockLevels BlockInfo
     InlineTyped RstDoc RstTotal RstCore Util UtilGen C01 C05.
Import ListNotations.
Local Open Scope nat_scope.

Lemma core_rules_core hw refs c : inline_cfg_x false hw refs = Some c -> forallb core_rule (c_rules c) = true.
Proof.
  unfold inline_cfg_x. destruct hw.
  - destruct (opt_all (map irule_of_name inline_rules_hw)) as [rules|] eqn:E; [|discriminate]. intros [= <-]. cbn [c_rules].
    vm_compute in E. inversion E; subst. reflexivity.
  - destruct (opt_all (map irule_of_name inline_rules_std)) as [rules|] eqn:E; [|discriminate]. intros [= <-]. cbn [c_rules].
    vm_compute in E. inversion E; subst. reflexivity.
Qed.

Lemma block_cfg_is_ws CB : block_cfg = Some CB -> b_is_ws CB = is_ws T.
Proof. unfold block_cfg. destruct (opt_all (map brule_of_name block_rules)); [|discriminate]. intros [= <-]. reflexivity. Qed.

Theorem C01_rst_guard_holds_on_core_documents : forall hw s ast,
  doc_parse_x false hw s = Ok ast -> forallb (RstDoc.node_ok (is_ws T)) ast = true.
Proof.
  intros hw s ast H. unfold doc_parse_x in H. destruct block_cfg as [CB|] eqn:EB; [|discriminate].
  destruct (inline_cfg_x false hw []) as [d|] eqn:Ed; [|discriminate]. unfold doc_parse, bind in H.
  destruct (block_parse CB _) as [[toks rf]| |] eqn:Eb; try discriminate.
  apply (pass_all_rok (inline_cfg_or false hw (inline_refs rf) d) (is_ws T)) with (toks := toks); [|exact H|].
  - intros s0 tk. apply inline_parse_typed. unfold inline_cfg_or.
    destruct (inline_cfg_x false hw (inline_refs rf)) as [c|] eqn:Ec; [exact (core_rules_core _ _ _ Ec)|exact (core_rules_core _ _ _ Ed)].
  - pose proof (BlockInfo.block_parse_typed CB _ toks rf Eb) as H1. unfold BlockInfo.toks_ok in H1. rewrite (block_cfg_is_ws CB EB) in H1.
    pose proof (C05_heading_levels_are_1_to_6 CB _ toks rf EB Eb) as H2.
    apply forallb_forall. intros t Ht. unfold lvls_ok in H2. rewrite forallb_forall in H1, H2.
    unfold bok. rewrite (H1 t Ht), (H2 t Ht). reflexivity.
Qed.

Theorem C01_rst_renderer_raises_only_if_parsing_raises : forall hw s ast,
  doc_parse_x false hw s = Ok ast -> exists out, rst_x hw s = Ok out.
Proof.
  intros hw s ast E. unfold rst_x, bind. rewrite E.
  pose proof (C01_rst_guard_holds_on_core_documents hw s ast E) as G.
  destruct (rst_doc U (is_ws T) rx_util__strip_end_re ast) as [o|] eqn:R; [exists o; reflexivity|].
  apply (proj1 (rst_doc_none_iff U (is_ws T) rx_util__strip_end_re ast)) in R. congruence.
Qed.

(* the guard is not vacuous: an AST with a heading of level 7 is rejected, and a core document with every kind of block passes *)
Example C01_rst_guard_example :
  rst_doc U (is_ws T) rx_util__strip_end_re [NHeading [TText [97%Z]] 7 false] = None /\
  match rst_x false [35; 32; 97; 10; 10; 62; 32; 33; 91; 98; 93; 40; 117; 41; 10; 10; 96; 96; 96; 32; 112; 121; 10; 99; 10; 96; 96; 96; 10]%Z with Ok (_ :: _) => True | _ => False end.
Proof. vm_compute. split; [reflexivity|exact I]. Qed.

Print Assumptions C01_rst_guard_holds_on_core_documents.
Print Assumptions C01_rst_renderer_raises_only_if_parsing_raises.
