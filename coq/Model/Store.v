(* Store.v — what outlives a conversion: the memo caches (compiled scanners per rule-list
   key, plugin modules, converters).  A conversion reads a cache entry or, on a miss,
   computes it from the configuration and stores it; everything else it touches is
   created per call.  Configuration changes (Parser.register) clear the cache. *)
From Coq Require Import List Bool Arith Lia.
Import ListNotations.

Section Store.
Variables key cfg doc out value : Type.
Variable keqb : key -> key -> bool.
Variable compile : cfg -> key -> value.          (* what a cache entry must hold: a pure function of config and key *)
(* the conversion proper: it sees the caches only through a lookup function *)
Variable convert : cfg -> (key -> value) -> doc -> out.
Variable keys_used : cfg -> doc -> list key.     (* the keys a conversion consults, in order *)

Definition cache := list (key * value).

Fixpoint lookup (k : key) (c : cache) : option value :=
  match c with [] => None | (k', v) :: c' => if keqb k k' then Some v else lookup k c' end.

(* one atomic cache access: get, or compute-and-put *)
Definition access (g : cfg) (c : cache) (k : key) : cache :=
  match lookup k c with Some _ => c | None => (k, compile g k) :: c end.

Definition view (g : cfg) (c : cache) (k : key) : value :=
  match lookup k c with Some v => v | None => compile g k end.

(* one conversion on a shared converter *)
Definition call (g : cfg) (c : cache) (d : doc) : out * cache :=
  let c' := fold_left (access g) (keys_used g d) c in
  (convert g (view g c') d, c').

(* the same conversion on a fresh converter *)
Definition fresh (g : cfg) (d : doc) : out := fst (call g [] d).

(* a sequence of conversions on one converter *)
Fixpoint history (g : cfg) (c : cache) (ds : list doc) : list out * cache :=
  match ds with
  | [] => ([], c)
  | d :: ds' => let (o, c1) := call g c d in let (os, c2) := history g c1 ds' in (o :: os, c2)
  end.

(* Parser.register: the configuration changes, the compiled scanners are dropped *)
Definition register (update : cfg -> cfg) (g : cfg) (c : cache) : cfg * cache := (update g, []).
(* the behaviour before fix 0f04d7d: the cache survived a configuration change *)
Definition register_stale (update : cfg -> cfg) (g : cfg) (c : cache) : cfg * cache := (update g, c).

(* ---- threads: each thread performs one conversion; its cache accesses are atomic steps that
   interleave arbitrarily with the other threads' ---- *)
Record thread := { t_doc : doc; t_todo : list key }.
Definition spawn (g : cfg) (d : doc) : thread := {| t_doc := d; t_todo := keys_used g d |}.

(* a schedule picks, at each step, the index of the thread that moves *)
Fixpoint nth_update {A} (n : nat) (f : A -> A) (l : list A) : list A :=
  match l, n with
  | [], _ => []
  | x :: l', O => f x :: l'
  | x :: l', S n' => x :: nth_update n' f l'
  end.

Definition step (g : cfg) (c : cache) (ts : list thread) (i : nat) : cache * list thread :=
  match nth_error ts i with
  | Some t =>
    match t_todo t with
    | k :: rest => (access g c k, nth_update i (fun t => {| t_doc := t_doc t; t_todo := rest |}) ts)
    | [] => (c, ts)
    end
  | None => (c, ts)
  end.

Fixpoint run_schedule (g : cfg) (c : cache) (ts : list thread) (sched : list nat) : cache * list thread :=
  match sched with
  | [] => (c, ts)
  | i :: s' => let (c1, ts1) := step g c ts i in run_schedule g c1 ts1 s'
  end.

(* a thread that has finished its accesses produces its output from the cache as it is then *)
Definition output (g : cfg) (c : cache) (t : thread) : out := convert g (view g c) (t_doc t).
End Store.
