(* Entry.v — single extracted entry point [run]: request = VList [VStr name; arg].
   All marshalling is done here in Gallina so that ocaml/driver.ml stays generic. *)
From Coq Require Import ZArith List Bool String Ascii.
From Verif Require Import PyStr Normalize NormalizeGen Util UtilGen Toc TocGen Footnote FootnoteGen Cli CliGen StoreGen Rx UnicodeGen RxGen Scanner RefLinks Tmpl HtmlRender TmplGen CodeSpan RxSub RxCost Inline InlineGen Block BlockGen Doc HtmlDoc Table MdRender MdDoc RstDoc.
Import ListNotations.
Open Scope Z_scope.

Definition z_of_string (s : string) : str :=
  map (fun a => Z.of_N (N_of_ascii a)) (list_ascii_of_string s).

Definition is_name (n : str) (s : string) : bool := str_eqb n (z_of_string s).

Definition vstrs (l : list str) : pval := VList (map VStr l).

Definition VErr (s : string) : pval := VList [VStr (z_of_string "error"); VStr (z_of_string s)].

Definition toc_entry (v : pval) : option (nat * str * str) :=
  match v with VList [VInt l; VStr i; VStr t] => Some (Z.to_nat l, i, t) | _ => None end.

Fixpoint opt_all {A} (l : list (option A)) : option (list A) :=
  match l with
  | [] => Some []
  | Some x :: l' => match opt_all l' with Some r => Some (x :: r) | None => None end
  | None :: _ => None
  end.

Definition vnat (n : nat) : pval := VInt (Z.of_nat n).

(* the library is abstract in the CLI model: these instances just record the call *)
Definition enc_cfg (c : config) : str :=
  [(if c_escape c then 49 else 48); (if c_hardwrap c then 49 else 48)] ++ c_renderer c ++ [0] ++ join [1] (c_plugins c) ++ [0].
Definition rec_text (c : config) (m : str) : str := [84] ++ enc_cfg c ++ m.
Definition rec_file (c : config) (f : str) : option str := Some ([70] ++ enc_cfg c ++ f).

Fixpoint assoc_rx (k : str) (t : list (str * rx)) : option rx :=
  match t with [] => None | (k', v) :: t' => if str_eqb k k' then Some v else assoc_rx k t' end.

Definition enc_match (r : option mresult) : pval :=
  match r with
  | None => VNone
  | Some (a, b, c) => VList [vnat a; vnat b; VList (map (fun e : nat * (nat * nat) => VList [vnat (fst e); vnat (fst (snd e)); vnat (snd (snd e))]) c)]
  end.

Fixpoint find_template (nm : str) (l : list (template * list pkind * list (nat * bool))) : option template :=
  match l with
  | [] => None
  | (t, _, _) :: l' => if str_eqb nm (t_name t) then Some t else find_template nm l'
  end.

(* ---- inline parser instance ---- *)
Definition irule_of_name (n : str) : option irule :=
  if is_name n "escape" then Some IEscape else if is_name n "codespan" then Some ICodespan
  else if is_name n "emphasis" then Some IEmphasis else if is_name n "link" then Some ILink
  else if is_name n "auto_link" then Some IAutoLink else if is_name n "auto_email" then Some IAutoEmail
  else if is_name n "inline_html" then Some IInlineHtml else if is_name n "linebreak" then Some ILinebreak
  else if is_name n "softbreak" then Some ISoftbreak
  else if is_name n "strikethrough" then Some (IExt 0) else if is_name n "mark" then Some (IExt 1)
  else if is_name n "insert" then Some (IExt 2) else if is_name n "superscript" then Some (IExt 3)
  else if is_name n "subscript" then Some (IExt 4) else if is_name n "url_link" then Some (IExt 5) else None.

(* the inline plugins of the model: formatting (strikethrough, mark, insert, superscript, subscript) and url *)
Definition ext_kind (i : nat) : option ext :=
  nth_error [XToEnd (z_of_string "strikethrough") rx_plugins_formatting__STRIKE_END;
             XToEnd (z_of_string "mark") rx_plugins_formatting__MARK_END;
             XToEnd (z_of_string "insert") rx_plugins_formatting__INSERT_END;
             XScript (z_of_string "superscript"); XScript (z_of_string "subscript"); XUrl] i.
Definition ext_spec (i : nat) : rx :=
  nth i [rx_inlinespec__strikethrough; rx_inlinespec__mark; rx_inlinespec__insert;
         rx_plugins_formatting__SUPERSCRIPT_PATTERN; rx_plugins_formatting__SUBSCRIPT_PATTERN; rx_plugins_url__URL_LINK_PATTERN] RFail.
Definition ext_template (name : str) : template :=
  if is_name name "strikethrough" then tmpl_formatting_render_strikethrough
  else if is_name name "mark" then tmpl_formatting_render_mark
  else if is_name name "insert" then tmpl_formatting_render_insert
  else if is_name name "superscript" then tmpl_formatting_render_superscript
  else if is_name name "subscript" then tmpl_formatting_render_subscript
  else tmpl_html_emphasis.

Definition inline_spec (hard : bool) (r : irule) : rx :=
  match r with
  | IEscape => rx_inline__escape | ICodespan => rx_inline__codespan | IEmphasis => rx_inline__emphasis
  | ILink => rx_inline__link | IAutoLink => rx_inline__auto_link | IAutoEmail => rx_inline__auto_email
  | IInlineHtml => rx_inline__inline_html
  | ILinebreak => if hard then rx_inline__HARD_LINEBREAK else rx_inline__linebreak
  | ISoftbreak => rx_inline__softbreak
  | IPrecAutoLink => rx_inline__prec_auto_link | IPrecInlineHtml => rx_inline__prec_inline_html
  | IExt i => ext_spec i
  end.

Definition emph_end (marker : str) : option rx :=
  if is_name marker "*" then Some rx_inline_parser__EMPHASIS_END_RE_s
  else if is_name marker "_" then Some rx_inline_parser__EMPHASIS_END_RE_u
  else if is_name marker "**" then Some rx_inline_parser__EMPHASIS_END_RE_ss
  else if is_name marker "__" then Some rx_inline_parser__EMPHASIS_END_RE_uu
  else if is_name marker "***" then Some rx_inline_parser__EMPHASIS_END_RE_sss
  else if is_name marker "___" then Some rx_inline_parser__EMPHASIS_END_RE_uuu
  else None.

(* px: with the six inline plugins of the model registered (in the order create_markdown registers them) *)
Definition inline_cfg_x (px hard_wrap : bool) (refs : list (str * (str * option str))) : option icfg :=
  let names := if px then (if hard_wrap then inline_rules_px_hw else inline_rules_px_std)
               else (if hard_wrap then inline_rules_hw else inline_rules_std) in
  match opt_all (map irule_of_name names) with
  | None => None
  | Some rules =>
    Some {| c_uni := U;
            c_spec := inline_spec (if hard_wrap then inline_linebreak_is_hard_hw else inline_linebreak_is_hard_std);
            c_rules := rules; c_ext := ext_kind;
            c_square := rx_helpers__INLINE_SQUARE_BRACKET_RE; c_label := rx_helpers__INLINE_LINK_LABEL_RE;
            c_bracket_start := rx_helpers__LINK_BRACKET_START; c_bracket := rx_helpers__LINK_BRACKET_RE;
            c_href_inline := rx_helpers__LINK_HREF_INLINE_RE; c_title := rx_helpers__LINK_TITLE_RE;
            c_paren_end := rx_helpers__PAREN_END_RE; c_escape_char := rx_helpers__ESCAPE_CHAR_RE;
            c_emph_end := emph_end;
            c_escape_url := escape_url T escape_url_safe;
            c_unikey := run_unikey T unikey_ops;
            c_codespan_text := codespan_text T;
            c_refs := refs |}
  end.
Definition inline_cfg (hard_wrap : bool) (refs : list (str * (str * option str))) : option icfg := inline_cfg_x false hard_wrap refs.

Fixpoint enc_tok (t : tok) : pval :=
  match t with
  | TText r => VList [VStr (z_of_string "text"); VStr r]
  | TCodespan r => VList [VStr (z_of_string "codespan"); VStr r]
  | TInlineHtml r => VList [VStr (z_of_string "inline_html"); VStr r]
  | TLinebreak => VList [VStr (z_of_string "linebreak")]
  | TSoftbreak => VList [VStr (z_of_string "softbreak")]
  | TEmphasis ch => VList [VStr (z_of_string "emphasis"); VList (map enc_tok ch)]
  | TStrong ch => VList [VStr (z_of_string "strong"); VList (map enc_tok ch)]
  | TLink img ch url title tk ref =>
    VList [VStr (z_of_string (if img then "image" else "link")); VList (map enc_tok ch); VStr url;
           match title with Some t => VStr t | None => VNone end; VBool tk;
           match ref with Some (k, l) => VList [VStr k; VStr l] | None => VNone end]
  | TExt name ch => VList [VStr name; VList (map enc_tok ch)]
  end.

(* ---- block parser instance ---- *)
Definition brule_of_name (n : str) : option brule :=
  if is_name n "fenced_code" then Some RFenced else if is_name n "indent_code" then Some RIndent
  else if is_name n "atx_heading" then Some RAtx else if is_name n "setex_heading" then Some RSetex
  else if is_name n "thematic_break" then Some RThematic else if is_name n "block_quote" then Some RQuote
  else if is_name n "list" then Some RList else if is_name n "ref_link" then Some RRefLink
  else if is_name n "raw_html" then Some RRawHtml else if is_name n "blank_line" then Some RBlankLine
  else if is_name n "block_html" then Some RBlockHtml else None.

Definition block_spec (r : brule) : rx :=
  match r with
  | RFenced => rx_block__fenced_code | RIndent => rx_block__indent_code | RAtx => rx_block__atx_heading
  | RSetex => rx_block__setex_heading | RThematic => rx_block__thematic_break | RQuote => rx_block__block_quote
  | RList => rx_block__list | RRefLink => rx_block__ref_link | RRawHtml => rx_block__raw_html
  | RBlankLine => rx_block__blank_line | RBlockHtml => rx_block__block_html | RListItem => RFail
  end.

Definition lb_named (l : list (str * rx)) : list (brule * rx) :=
  flat_map (fun e : str * rx => match brule_of_name (fst e) with Some r => [(r, snd e)] | None => [] end) l.

Definition lb_rules_of (w : nat) : list (brule * rx) :=
  lb_named (match w with 0 => lb_rules_0 | 1 => lb_rules_1 | 2 => lb_rules_2 | _ => lb_rules_3 end)%nat.

Definition item_rx_of (bullet : Z) (w : nat) : rx :=
  if (bullet =? 46)%Z then (match w with 0 => item_rx_46_0 | 1 => item_rx_46_1 | 2 => item_rx_46_2 | _ => item_rx_46_3 end)%nat
  else if (bullet =? 41)%Z then (match w with 0 => item_rx_41_0 | 1 => item_rx_41_1 | 2 => item_rx_41_2 | _ => item_rx_41_3 end)%nat
  else if (bullet =? 42)%Z then (match w with 0 => item_rx_42_0 | 1 => item_rx_42_1 | 2 => item_rx_42_2 | _ => item_rx_42_3 end)%nat
  else if (bullet =? 43)%Z then (match w with 0 => item_rx_43_0 | 1 => item_rx_43_1 | 2 => item_rx_43_2 | _ => item_rx_43_3 end)%nat
  else (match w with 0 => item_rx_45_0 | 1 => item_rx_45_1 | 2 => item_rx_45_2 | _ => item_rx_45_3 end)%nat.

Definition ascii_lower (c : Z) : Z := if (65 <=? c)%Z && (c <=? 90)%Z then (c + 32)%Z else c.

Definition block_cfg : option bcfg :=
  match opt_all (map brule_of_name block_rules) with
  | None => None
  | Some rules =>
    Some {| b_uni := U; b_spec := block_spec; b_rules := rules; b_max_nested := block_max_nested;
            b_blank_line := rx_block__BLANK_LINE; b_line_end := rx_core__LINE_END; b_strict_quote := rx_block_parser__STRICT_BLOCK_QUOTE;
            b_quote_leading := rx_block_parser__BLOCK_QUOTE_LEADING; b_quote_trim := rx_block_parser__BLOCK_QUOTE_TRIM;
            b_line_blank_end := rx_block_parser__LINE_BLANK_END; b_blank_to_line := rx_block_parser__BLANK_TO_LINE;
            b_open_tag_end := rx_block_parser__OPEN_TAG_END; b_close_tag_end := rx_block_parser__CLOSE_TAG_END;
            b_indent_code_trim := rx_block_parser__INDENT_CODE_TRIM; b_atx_trim := rx_block_parser__ATX_HEADING_TRIM;
            b_line_has_text := rx_list_parser__LINE_HAS_TEXT; b_expand_tab := rx_util__expand_tab_re; b_strip_end := rx_util__strip_end_re;
            b_escape_char := rx_helpers__ESCAPE_CHAR_RE; b_bracket_start := rx_helpers__LINK_BRACKET_START;
            b_bracket := rx_helpers__LINK_BRACKET_RE; b_href_block := rx_helpers__LINK_HREF_BLOCK_RE; b_title := rx_helpers__LINK_TITLE_RE;
            b_lb_rules := lb_rules_of; b_item_rx := item_rx_of; b_block_tags := block_tags; b_pre_tags := pre_tags;
            b_is_ws := is_ws T; b_lower := ascii_lower; b_unikey := run_unikey T unikey_ops; b_escape_url := escape_url T escape_url_safe |}
  end.

Definition vopt_str (o : option str) : pval := match o with Some s => VStr s | None => VNone end.

Fixpoint enc_btok (t : btok) : pval :=
  match t with
  | BBlank => VList [VStr (z_of_string "blank_line")]
  | BThematic => VList [VStr (z_of_string "thematic_break")]
  | BCode raw fenced marker info => VList [VStr (z_of_string "block_code"); VStr raw; VBool fenced; VStr marker; vopt_str info]
  | BHeading text level setext => VList [VStr (z_of_string "heading"); VStr text; vnat level; VBool setext]
  | BParagraph text => VList [VStr (z_of_string "paragraph"); VStr text]
  | BBlockText text => VList [VStr (z_of_string "block_text"); VStr text]
  | BQuote ch => VList [VStr (z_of_string "block_quote"); VList (map enc_btok ch)]
  | BList items tight bullet depth ordered start =>
    VList [VStr (z_of_string "list"); VList (map enc_btok items); VBool tight; VStr [bullet]; vnat depth; VBool ordered;
           match start with Some z => VInt z | None => VNone end]
  | BListItem ch => VList [VStr (z_of_string "list_item"); VList (map enc_btok ch)]
  | BHtml raw => VList [VStr (z_of_string "block_html"); VStr raw]
  end.

Fixpoint enc_node (n : node) : pval :=
  match n with
  | NBlank => VList [VStr (z_of_string "blank_line")]
  | NThematic => VList [VStr (z_of_string "thematic_break")]
  | NCode raw fenced marker info => VList [VStr (z_of_string "block_code"); VStr raw; VBool fenced; VStr marker; vopt_str info]
  | NHeading ch level setext => VList [VStr (z_of_string "heading"); VList (map enc_tok ch); vnat level; VBool setext]
  | NParagraph ch => VList [VStr (z_of_string "paragraph"); VList (map enc_tok ch)]
  | NBlockText ch => VList [VStr (z_of_string "block_text"); VList (map enc_tok ch)]
  | NQuote ch => VList [VStr (z_of_string "block_quote"); VList (map enc_node ch)]
  | NList items tight bullet depth ordered start =>
    VList [VStr (z_of_string "list"); VList (map enc_node items); VBool tight; VStr [bullet]; vnat depth; VBool ordered;
           match start with Some z => VInt z | None => VNone end]
  | NListItem ch => VList [VStr (z_of_string "list_item"); VList (map enc_node ch)]
  | NHtml raw => VList [VStr (z_of_string "block_html"); VStr raw]
  end.

(* the inline configuration is total once the rule names are known *)
Definition inline_cfg_or (px hw : bool) (refs : list (str * (str * option str))) (dflt : icfg) : icfg :=
  match inline_cfg_x px hw refs with Some c => c | None => dflt end.

(* create_markdown(renderer=None, hard_wrap=hw, plugins=[the six inline plugins] if px else [])(s) *)
Definition doc_parse_x (px hw : bool) (s : str) : res (list node) :=
  match block_cfg, inline_cfg_x px hw [] with
  | Some CB, Some d => doc_parse CB (fun rf => inline_cfg_or px hw rf d) (run_ops parse_norm_ops) s
  | _, _ => Exn
  end.
Definition core_doc_parse (hw : bool) (s : str) : res (list node) := doc_parse_x false hw s.

(* create_markdown(escape=..., hard_wrap=...)(s): the core configuration with the HTML renderer *)
Definition html_env (esc : bool) : renv :=
  {| r_escape := esc; r_safe_url := safe_url harmful_protocols good_data_protocols escape_ops; r_tables := T |}.
Definition html_x (px esc hw : bool) (s : str) : res str :=
  do ast <- doc_parse_x px hw s; Ok (html_doc (html_env esc) escape_ops ext_template ast).
Definition core_html (esc hw : bool) (s : str) : res str := html_x false esc hw s.

(* create_markdown(renderer='markdown', hard_wrap=hw)(s): the core configuration with the Markdown renderer *)
Definition md_x (hw : bool) (s : str) : res str :=
  match block_cfg, inline_cfg_x false hw [] with
  | Some CB, Some d =>
    do (ast, rf) <- doc_parse_rf CB (fun rf => inline_cfg_or false hw rf d) (run_ops parse_norm_ops) s;
    Ok (md_doc U rx_renderers_markdown__quote_end_re rx_util__strip_end_re ast rf)
  | _, _ => Exn
  end.

(* create_markdown(renderer='rst', hard_wrap=hw)(s): the core configuration with the RST renderer *)
Definition rst_x (hw : bool) (s : str) : res str :=
  do ast <- doc_parse_x false hw s;
  match rst_doc U (is_ws T) rx_util__strip_end_re ast with Some out => Ok out | None => Exn end.

(* the table plugin on the regenerated patterns *)
Definition table_cfg : tcfg :=
  {| t_uni := U; t_table := rx_plugins_table__TABLE_PATTERN; t_nptable := rx_plugins_table__NP_TABLE_PATTERN;
     t_table_cell := rx_plugins_table__TABLE_CELL; t_cell_split := rx_plugins_table__CELL_SPLIT;
     t_center := rx_plugins_table__ALIGN_CENTER; t_left := rx_plugins_table__ALIGN_LEFT; t_right := rx_plugins_table__ALIGN_RIGHT;
     t_is_ws := is_ws T |}.
Definition enc_align (a : align) : pval :=
  match a with ACenter => VStr (z_of_string "center") | ALeft => VStr (z_of_string "left") | ARight => VStr (z_of_string "right") | ANoAlign => VNone end.
Definition enc_cell (c : cell) : pval := VList [VStr (c_text c); enc_align (c_align c); VBool (c_head c)].

Definition run_named (name : str) (arg : pval) : pval :=
  if is_name name "table" then
    match arg with
    | VList [VStr s; VBool np] =>
      match table_at table_cfg np s with
      | None => VNone
      | Some None => VStr (z_of_string "reject")
      | Some (Some (h, rows, pos)) => VList [VList (map enc_cell h); VList (map (fun r => VList (map enc_cell r)) rows); vnat pos]
      end
    | _ => VErr "arg" end
  else
  if is_name name "norm" then
    match arg with VStr s => VStr (run_ops parse_norm_ops s) | _ => VErr "arg" end
  else if is_name name "call_none" then VStr (run_ops parse_norm_ops (call_input call_none_value None))
  else if is_name name "escape" then
    match arg with VList [VStr s; VBool q] => VStr (run_escape escape_ops q s) | _ => VErr "arg" end
  else if is_name name "unescape" then
    match arg with VStr s => VStr (unescape T s) | _ => VErr "arg" end
  else if is_name name "html_unescape" then
    match arg with VStr s => VStr (html_unescape T s) | _ => VErr "arg" end
  else if is_name name "escape_url" then
    match arg with
    | VStr s => match escape_url T escape_url_safe s with Some t => VStr t | None => VNone end
    | _ => VErr "arg" end
  else if is_name name "safe_entity" then
    match arg with VStr s => VStr (safe_entity T escape_ops s) | _ => VErr "arg" end
  else if is_name name "unikey" then
    match arg with VStr s => VStr (run_unikey T unikey_ops s) | _ => VErr "arg" end
  else if is_name name "toc_render" then
    match arg with
    | VList l => match opt_all (map toc_entry l) with
                 | Some toc => VStr (render_toc_ul toc_P toc) | None => VErr "arg" end
    | _ => VErr "arg" end
  else if is_name name "toc_hook_items" then
    match arg with
    | VList [r; VList toks] =>
      let range := match r with VList [VInt a; VInt b] => Some (Z.to_nat a, Z.to_nat b) | _ => None end in
      let tokens := map (fun t => match t with VInt l => Some (Z.to_nat l) | _ => None end) toks in
      VList (map (fun it : nat * nat * nat =>
                    VList [vnat (fst (fst it)); vnat (snd (fst it)); VStr (toc_id toc_id_prefix (snd it))])
                 (hook_items range tokens))
    | _ => VErr "arg" end
  else if is_name name "fn_number" then
    match arg with
    | VList [VList defs; VList hist] =>
      let strs := fun l => flat_map (fun v => match v with VStr s => [s] | _ => [] end) l in
      let d := strs defs in
      let '(ts, notes) := run_refs str str_eqb (fun k => existsb (str_eqb k) d) [] (strs hist) in
      VList [VList (map (fun t => match t with Some n => vnat n | None => VNone end) ts); vstrs notes;
             VList [VStr (fs_ref_id fn_S); VStr (fs_ref_href fn_S); VStr (fs_item_id fn_S); VStr (fs_item_back fn_S)]]
    | _ => VErr "arg" end
  else if is_name name "cli" then
    match arg with
    | VList [VList argv; stdin] =>
      let strs := flat_map (fun v => match v with VStr s => [s] | _ => [] end) argv in
      let sin := match stdin with VStr s => Some s | _ => None end in
      match cli rec_text rec_file cli_decls cli_K strs sin with
      | OStdout t => VList [VStr (z_of_string "stdout"); VStr t]
      | OFile p t => VList [VStr (z_of_string "file"); VStr p; VStr t]
      | OErrorExit t => VList [VStr (z_of_string "error"); VStr t]
      | OVersion => VList [VStr (z_of_string "version")]
      | OUsage => VList [VStr (z_of_string "usage")]
      end
    | _ => VErr "arg" end
  else if is_name name "sc_pattern" then
    match arg with
    | VList [VList rules; VList spec; key] =>
      let strs := fun l => flat_map (fun v => match v with VStr s => [s] | _ => [] end) l in
      let sp := flat_map (fun v => match v with VList [VStr k; VStr p] => [(k, p)] | _ => [] end) spec in
      let rl := match key with VList r => strs r | _ => strs rules end in
      let fix get (s : list (str * str)) (k : str) : str :=
          match s with [] => [] | (k', v) :: s' => if str_eqb k k' then v else get s' k end in
      VStr (join sc_sep (map (fun r => sc_group_open ++ r ++ sc_group_mid ++ get sp r ++ sc_group_close) rl))
    | _ => VErr "arg" end
  else if is_name name "rx" then
    match arg with
    | VList [VStr pname; VInt mode; VStr s; VInt pos; VInt endpos] =>
      match assoc_rx pname rx_table with
      | None => VErr "no such pattern"
      | Some r =>
        let p := Z.to_nat pos in let e := Z.to_nat endpos in
        enc_match (if (mode =? 0)%Z then re_match U r s p e
                   else if (mode =? 1)%Z then re_search U r s p e
                   else re_fullmatch U r s p e)
      end
    | _ => VErr "arg" end
  else if is_name name "scan" then
    match arg with
    | VList [VList names; VInt mode; VStr s; VInt pos; VInt endpos] =>
      let rules := flat_map (fun v => match v with
                                      | VStr nm => match assoc_rx nm rx_table with Some r => [(nm, r)] | None => [] end
                                      | _ => [] end) names in
      if negb (Nat.eqb (List.length rules) (List.length names)) then VErr "unknown rule"
      else
        let res := if (mode =? 0)%Z then scan_match U rules s (Z.to_nat pos) (Z.to_nat endpos)
                   else scan_search U rules s (Z.to_nat pos) (Z.to_nat endpos) in
        match res with
        | Some (nm, r) => VList [VStr nm; enc_match (Some r)]
        | None => VNone
        end
    | _ => VErr "arg" end
  else if is_name name "ref_resolve" then
    match arg with
    | VList [VList defs; VList uses] =>
      let ds := flat_map (fun v => match v with
                                   | VList [VStr l; VStr u; VStr t] => [{| ld_label := l; ld_url := u; ld_title := Some t |}]
                                   | VList [VStr l; VStr u; VNone] => [{| ld_label := l; ld_url := u; ld_title := None |}]
                                   | _ => [] end) defs in
      let us := flat_map (fun v => match v with VStr s => [s] | _ => [] end) uses in
      VList (map (fun o => match o with
                           | Some d => VList [VStr (ld_url d); match ld_title d with Some t => VStr t | None => VNone end]
                           | None => VNone end)
                 (resolve_all (run_unikey T unikey_ops) ds us))
    | _ => VErr "arg" end
  else if is_name name "render" then
    match arg with
    | VList [VStr nm; VBool esc; VList vals] =>
      match find_template nm all_templates with
      | None => VErr "no such template"
      | Some t =>
        let pvs := map (fun v => match v with VStr s => PStr s | VBool b => PBool b | VInt z => PInt z | _ => PNone end) vals in
        let E := {| r_escape := esc; r_safe_url := safe_url harmful_protocols good_data_protocols escape_ops; r_tables := T |} in
        VStr (render E escape_ops t pvs)
      end
    | _ => VErr "arg" end
  else if is_name name "safe_url" then
    match arg with VStr u => VStr (safe_url harmful_protocols good_data_protocols escape_ops u) | _ => VErr "arg" end
  else if is_name name "codespan_text" then
    match arg with VStr s => VStr (codespan_text T s) | _ => VErr "arg" end
  else if is_name name "sub" then
    match arg with
    | VList [pat; VList [VInt kind; VInt g; VStr lit; VInt width]; VStr s] =>
      let r := match pat with
               | VStr pname => assoc_rx pname rx_table
               | VInt n => Some (indent_trim (Z.to_nat n))
               | _ => None end in
      let k := if (kind =? 0)%Z then RConst lit
               else if (kind =? 1)%Z then RGroupThen (Z.to_nat g) lit
               else RGroupPad (Z.to_nat g) (Z.to_nat width) in
      match r with Some r => VStr (re_sub U r (rep_of k) s) | None => VErr "no such pattern" end
    | _ => VErr "arg" end
  else if is_name name "rx_cost" then
    match arg with
    | VList [VStr pname; VStr s; VInt pos] =>
      match assoc_rx pname rx_table with
      | None => VErr "no such pattern"
      | Some r => let res := re_search_cost U r s (Z.to_nat pos) in VList [enc_match (fst res); vnat (snd res)]
      end
    | _ => VErr "arg" end
  else if is_name name "inline" then
    match arg with
    | VList [VStr s; VBool hw; VList refs; VBool px] =>
      let rl := flat_map (fun v => match v with
                                   | VList [VStr k; VStr u; VStr t] => [(k, (u, Some t))]
                                   | VList [VStr k; VStr u; VNone] => [(k, (u, None))]
                                   | _ => [] end) refs in
      match inline_cfg_x px hw rl with
      | None => VErr "unknown inline rule"
      | Some C => match inline_parse C s with
                  | Ok toks => VList (map enc_tok toks)
                  | Exn => VErr "exception"
                  | Fuel => VErr "fuel"
                  end
      end
    | _ => VErr "arg" end
  else if is_name name "block" then
    match arg with
    | VStr s =>
      match block_cfg with
      | None => VErr "unknown block rule"
      | Some C => match block_parse C s with
                  | Ok (toks, rf) =>
                    VList [VList (map enc_btok toks);
                           VList (map (fun e : str * (str * str * option str) =>
                                         VList [VStr (fst e); VStr (fst (fst (snd e))); VStr (snd (fst (snd e))); vopt_str (snd (snd e))]) rf)]
                  | Exn => VErr "exception"
                  | Fuel => VErr "fuel"
                  end
      end
    | _ => VErr "arg" end
  else if is_name name "doc" then
    match arg with
    | VList [VStr s; VBool hw; VBool px] =>
      match doc_parse_x px hw s with
      | Ok ns => VList (map enc_node ns)
      | Exn => VErr "exception"
      | Fuel => VErr "fuel"
      end
    | _ => VErr "arg" end
  else if is_name name "md" then
    match arg with
    | VList [VStr s; VBool hw] =>
      match md_x hw s with
      | Ok out => VStr out
      | Exn => VErr "exception"
      | Fuel => VErr "fuel"
      end
    | _ => VErr "arg" end
  else if is_name name "rst" then
    match arg with
    | VList [VStr s; VBool hw] =>
      match rst_x hw s with
      | Ok out => VStr out
      | Exn => VErr "exception"
      | Fuel => VErr "fuel"
      end
    | _ => VErr "arg" end
  else if is_name name "html" then
    match arg with
    | VList [VStr s; VBool esc; VBool hw; VBool px] =>
      match html_x px esc hw s with
      | Ok out => VStr out
      | Exn => VErr "exception"
      | Fuel => VErr "fuel"
      end
    | _ => VErr "arg" end
  else if is_name name "replace" then
    match arg with
    | VList [VStr old; VStr new; VBool once; VStr s] => VStr (if once then replace1 old new s else replace old new s)
    | _ => VErr "arg" end
  else VErr "unknown function".

Definition run (req : pval) : pval :=
  match req with
  | VList [VStr name; arg] => run_named name arg
  | _ => VErr "bad request"
  end.
