(* Tmpl.v — the render functions of the HTML renderer and of the plugins/directives as
   first-order templates.  A template is translated from the Python source (tools/tmplgen.py)
   into an expression over its parameters; evaluating it for a *shape* (the truth values of
   the conditions it tests) yields a list of segments: literal text and insertions of a
   parameter through a chain of filters.  [fill] then produces the string. *)
From Coq Require Import ZArith List Bool Lia.
From Verif Require Import PyStr Util.
Import ListNotations.
Open Scope Z_scope.

(* filters applied to an inserted value, innermost first *)
Inductive filter :=
| FEscape          (* util.escape(x) *)
| FSafeEntity      (* util.safe_entity(x) *)
| FSafeUrl         (* HTMLRenderer.safe_url(x) *)
| FStriptags       (* util.striptags(x) *)
| FStrip           (* x.strip() *)
| FRstrip          (* x.rstrip() *)
| FFirstWord       (* x.split(None, 1)[0] *)
| FStr             (* str(x) *)
| FDropLast (n : nat)                 (* x[:-n] *)
| FReplace1 (old : str) (new : list seg_)   (* x.replace(old, old' , 1): new is a segment list *)
with seg_ :=
| SLit (s : str)
| SIns (param : nat) (fs : list filter).

Definition seg := seg_.

(* conditions a template may test; each distinct one is an atom with an index into the shape *)
Inductive texp :=
| TLit (s : str)
| TIns (param : nat) (fs : list filter)
| TCat (a b : texp)
| TIf (atom : nat) (a b : texp).        (* shape[atom] ? a : b *)

Definition shape := list bool.

Fixpoint eval (t : texp) (sh : shape) : list seg :=
  match t with
  | TLit s => [SLit s]
  | TIns p fs => [SIns p fs]
  | TCat a b => eval a sh ++ eval b sh
  | TIf i a b => if nth i sh false then eval a sh else eval b sh
  end.

(* atoms: what a condition looks at *)
Inductive atom :=
| ATruthy (param : nat) (fs : list filter)     (* if x: *)
| ANotNone (param : nat)                       (* if x is not None: *)
| AEscapeFlag                                  (* if self._escape: *)
| AStartswith (param : nat) (fs : list filter) (lit : str)
| AIsDigit (param : nat).

(* parameter kinds: the signature of a render function (tools/spec/render_sigs.json) *)
Inductive pkind :=
| KHtml     (* already rendered children *)
| KRaw      (* arbitrary text taken from the input *)
| KUrl      (* a destination: must go through safe_url *)
| KSafe.    (* safe by construction: integers, booleans, enumerations, generated identifiers, text restricted by its regex *)

(* parameter values *)
Inductive pv := PStr (s : str) | PNone | PBool (b : bool) | PInt (z : Z).

Record renv := { r_escape : bool;
                 r_safe_url : str -> str;     (* HTMLRenderer.safe_url of this renderer *)
                 r_tables : tables }.

Definition pv_str (v : pv) : str :=
  match v with PStr s => s | PNone => [78; 111; 110; 101] | PBool true => [84; 114; 117; 101]
             | PBool false => [70; 97; 108; 115; 101] | PInt z => str_of_Z z end.

Definition first_word (T : tables) (s : str) : str :=
  match split_ws (is_ws T) s with w :: _ => w | [] => [] end.

(* util.striptags: removes <!--...--> and <...> (regex (<!--.*?-->|<[^>]*>), no DOTALL) *)
Fixpoint striptags_fuel (fuel : nat) (s : str) : str :=
  match fuel with
  | O => s
  | S f =>
    match s with
    | [] => []
    | c :: s' =>
      if (c =? 60) then
        let plain := match find_from [62] s' 0 with
                     | Some j => striptags_fuel f (skipn (S j) s')
                     | None => c :: striptags_fuel f s'
                     end in
        if prefixb [33; 45; 45] s' then
          match find_from [45; 45; 62] (skipn 3 s') 0 with
          | Some i => if existsb (fun x => x =? 10) (firstn i (skipn 3 s')) then plain
                      else striptags_fuel f (skipn (3 + i + 3) s')
          | None => plain
          end
        else plain
      else c :: striptags_fuel f s'
    end
  end.
Definition striptags_model (s : str) : str := striptags_fuel (S (length s)) s.

Section Fill.
Variable E : renv.
Variable esc_ops : list esc_op.

Fixpoint apply_filters_fuel (fuel : nat) (fs : list filter) (vals : list pv) (s : str) : str :=
  match fuel with
  | O => s
  | S fu =>
    match fs with
    | [] => s
    | f :: fs' =>
      let s1 :=
        match f with
        | FEscape => run_escape esc_ops true s
        | FSafeEntity => safe_entity (r_tables E) esc_ops s
        | FSafeUrl => r_safe_url E s
        | FStriptags => striptags_model s
        | FStrip => strip_p (is_ws (r_tables E)) s
        | FRstrip => rstrip_p (is_ws (r_tables E)) s
        | FFirstWord => first_word (r_tables E) s
        | FStr => s
        | FDropLast n => firstn (length s - n) s
        | FReplace1 old new =>
          replace1 old (flat_map (fun sg => match sg with
                                            | SLit l => l
                                            | SIns p fs2 => apply_filters_fuel fu fs2 vals (pv_str (nth p vals PNone))
                                            end) new) s
        end in
      apply_filters_fuel fu fs' vals s1
    end
  end.

Definition apply_filters (fs : list filter) (vals : list pv) (s : str) : str :=
  apply_filters_fuel 8 fs vals s.

Definition fill_seg (vals : list pv) (sg : seg) : str :=
  match sg with
  | SLit s => s
  | SIns p fs => apply_filters fs vals (pv_str (nth p vals PNone))
  end.

Definition fill (segs : list seg) (vals : list pv) : str := flat_map (fill_seg vals) segs.

Definition pv_truthy (v : pv) : bool :=
  match v with PStr [] => false | PStr _ => true | PNone => false | PBool b => b | PInt z => negb (z =? 0) end.

Definition atom_eval (vals : list pv) (a : atom) : bool :=
  match a with
  | ATruthy p fs => match nth p vals PNone with
                    | PStr s => match apply_filters fs vals s with [] => false | _ => true end
                    | v => pv_truthy v end
  | ANotNone p => match nth p vals PNone with PNone => false | _ => true end
  | AEscapeFlag => r_escape E
  | AStartswith p fs lit => startswith (apply_filters fs vals (pv_str (nth p vals PNone))) lit
  | AIsDigit p => match nth p vals PNone with
                  | PStr (c :: s) => forallb is_ascii_digit (c :: s)
                  | _ => false end
  end.

Definition shape_of (atoms : list atom) (vals : list pv) : shape := map (atom_eval vals) atoms.

Record template := { t_name : str; t_atoms : list atom; t_body : texp }.

Definition render (t : template) (vals : list pv) : str :=
  fill (eval (t_body t) (shape_of (t_atoms t) vals)) vals.
End Fill.
