(* Doc.v — the whole core conversion to an AST: Markdown.parse = normalise line endings, block pass (collecting every
   reference definition), then the inline pass over every token that carries text, with the complete reference table
   (Markdown._iter_render).  create_markdown(renderer=None)(s) for the core configuration. *)
From Coq Require Import ZArith List Bool Lia.
From Verif Require Import PyStr Rx Inline Block Normalize.
Import ListNotations.
Local Open Scope nat_scope.

Inductive node :=
| NBlank
| NThematic
| NCode (raw : str) (fenced : bool) (marker : str) (info : option str)
| NHeading (children : list tok) (level : nat) (setext : bool)
| NParagraph (children : list tok)
| NBlockText (children : list tok)
| NQuote (children : list node)
| NList (items : list node) (tight : bool) (bullet : Z) (depth : nat) (ordered : bool) (start : option Z)
| NListItem (children : list node)
| NHtml (raw : str).

Section Doc.
Variable CB : bcfg.
Variable CI : list (str * (str * option str)) -> icfg.   (* the inline configuration for a reference table *)

Definition inline_refs (rf : refs) : list (str * (str * option str)) :=
  map (fun e : str * (str * str * option str) => (fst e, (fst (fst (snd e)), snd (snd e)))) rf.

Definition strip_inline (t : str) : str := strip_chars [32; 13; 10; 9; 12]%Z t.

Fixpoint all_res {A} (l : list (res A)) : res (list A) :=
  match l with
  | [] => Ok []
  | x :: r => do a <- x; do b <- all_res r; Ok (a :: b)
  end.

Section Render.
Variable C : icfg.
Fixpoint inline_pass (t : btok) : res node :=
  match t with
  | BBlank => Ok NBlank
  | BThematic => Ok NThematic
  | BCode raw f mk info => Ok (NCode raw f mk info)
  | BHeading text lv se => do ch <- inline_parse C (strip_inline text); Ok (NHeading ch lv se)
  | BParagraph text => do ch <- inline_parse C (strip_inline text); Ok (NParagraph ch)
  | BBlockText text => do ch <- inline_parse C (strip_inline text); Ok (NBlockText ch)
  | BQuote ch => do c <- all_res (map inline_pass ch); Ok (NQuote c)
  | BList items ti b d o s => do c <- all_res (map inline_pass items); Ok (NList c ti b d o s)
  | BListItem ch => do c <- all_res (map inline_pass ch); Ok (NListItem c)
  | BHtml raw => Ok (NHtml raw)
  end.
End Render.

(* Markdown.__call__ with renderer=None; [norm] is the line-ending normalisation of Markdown.parse *)
Definition doc_parse (norm : str -> str) (s : str) : res (list node) :=
  do (toks, rf) <- block_parse CB (norm s);
  all_res (map (inline_pass (CI (inline_refs rf))) toks).

(* the same with the reference table the block pass collected (state.env['ref_links'], for renderers that print it) *)
Definition doc_parse_rf (norm : str -> str) (s : str) : res (list node * refs) :=
  do (toks, rf) <- block_parse CB (norm s);
  do ast <- all_res (map (inline_pass (CI (inline_refs rf))) toks);
  Ok (ast, rf).
End Doc.
