(* Scanner.v — Parser.compile_sc / sc.search as the parsers use it: an ordered list of named
   rules; at each position the first rule that matches wins; search returns the leftmost
   position at which some rule matches.  (Equal to running the combined alternation
   "(?P<n1>r1)|(?P<n2>r2)|..." — lemma combined_is_scan in Proofs/ScannerProofs.v.) *)
From Coq Require Import ZArith List Bool Lia.
From Verif Require Import PyStr Rx.
Import ListNotations.

Definition rule := (str * rx)%type.

Fixpoint scan_at (U : uni) (rules : list rule) (z : zip) : option (str * mresult) :=
  match rules with
  | [] => None
  | (n, r) :: rs =>
    match match_at U r z with
    | Some res => Some (n, res)
    | None => scan_at U rs z
    end
  end.

Fixpoint scan_from (U : uni) (rules : list rule) (fuel : nat) (z : zip) : option (str * mresult) :=
  match scan_at U rules z with
  | Some x => Some x
  | None =>
    match fuel with
    | O => None
    | S f => match zstep z with Some (_, z') => scan_from U rules f z' | None => None end
    end
  end.

Definition scan_search (U : uni) (rules : list rule) (s : list Z) (pos endpos : nat) : option (str * mresult) :=
  if Nat.ltb (Nat.min endpos (length s)) pos then None
  else let z := zip_at s pos endpos in scan_from U rules (length (z_rest z)) z.

Definition scan_match (U : uni) (rules : list rule) (s : list Z) (pos endpos : nat) : option (str * mresult) :=
  if Nat.ltb (Nat.min endpos (length s)) pos then None else scan_at U rules (zip_at s pos endpos).

(* the combined regular expression compile_sc builds; groups numbered g0, g0+1, ... *)
Fixpoint combined (g0 : nat) (rules : list rule) : rx :=
  match rules with
  | [] => RFail
  | (_, r) :: rs => RAlt (RGroup g0 r) (combined (S g0) rs)
  end.
