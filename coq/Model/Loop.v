(* Loop.v — the scanner loop shared by BlockParser.parse and InlineParser.parse:
     while cursor < max:  (cursor, state) := step(cursor, state)
   with explicit fuel; None = fuel exhausted (the model's rendering of "does not terminate"). *)
From Coq Require Import List Arith Lia.

Fixpoint gloop {S : Type} (fuel : nat) (max : nat) (step : nat -> S -> nat * S) (cur : nat) (st : S) : option (nat * S) :=
  if Nat.leb max cur then Some (cur, st)
  else match fuel with
       | O => None
       | S f => let (cur', st') := step cur st in gloop f max step cur' st'
       end.
