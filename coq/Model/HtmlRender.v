(* HtmlRender.v — HTMLRenderer.safe_url (default configuration: allow_harmful_protocols=None). *)
From Coq Require Import ZArith List Bool Lia.
From Verif Require Import PyStr Util.
Import ListNotations.
Open Scope Z_scope.

Definition ascii_lower (c : Z) : Z := if (65 <=? c) && (c <=? 90) then c + 32 else c.

Definition has_prefix_in (ps : list str) (s : str) : bool := existsb (fun p => prefixb p s) ps.

Definition harmful_link : str := [35; 104; 97; 114; 109; 102; 117; 108; 45; 108; 105; 110; 107].

Definition safe_url (harmful good : list str) (esc_ops : list esc_op) (u : str) : str :=
  let l := map ascii_lower u in
  if has_prefix_in harmful l && negb (has_prefix_in good l) then harmful_link
  else run_escape esc_ops true u.
