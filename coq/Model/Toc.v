(* Toc.v — model of src/mistune/toc.py: render_toc_ul (the level stack) and the id /
   item extraction of add_toc_hook and of the TableOfContents directive.
   The literal string pieces come from Gen/TocGen.v (regenerated from the source);
   the control flow below mirrors the Python statement by statement. *)
From Coq Require Import ZArith List Bool Lia.
From Verif Require Import PyStr.
Import ListNotations.

(* the string literals of render_toc_ul, in source order *)
Record toc_pieces := {
  p_first : str;      (* "<li>"                          : first item *)
  p_same : str;       (* "</li>\n<li>"                   : level == levels[-1] *)
  p_deeper : str;     (* "\n<ul>\n<li>"                  : level > levels[-1] *)
  p_up_eq : str;      (* "</li>\n</ul>\n</li>\n<li>"     : unwinding, level == last_level *)
  p_up_gt : str;      (* "</li>\n<li>"                   : unwinding, level > last_level *)
  p_up_lt : str;      (* "</li>\n</ul>\n"                : unwinding, level < last_level *)
  p_up_end : str;     (* "</li>\n<li>"                   : while-else (stack exhausted) *)
  p_final : str;      (* "</li>\n</ul>\n"                : closing loop *)
  p_head : str;       (* "<ul>\n" *)
  p_tail : str;       (* "</li>\n</ul>\n" *)
  p_item_a : str;     (* anchor start, up to and including the hash sign of href *)
  p_item_b : str;     (* end of the href attribute and of the start tag *)
  p_item_c : str      (* anchor end tag *)
}.

Inductive chunk : Type :=
| CFirst | CSame | CDeeper | CUpEq | CUpGt | CUpLt | CUpEnd | CFinal | CHead | CTail
| CItem (n : nat).   (* the n-th entry's anchor *)

(* inner while loop; [stk] is the stack after the initial pop, top first *)
Fixpoint unwind (L : nat) (stk : list nat) : list chunk * list nat :=
  match stk with
  | [] => ([CUpEnd], [L])
  | last :: rest =>
    if Nat.eqb L last then ([CUpEq], L :: rest)
    else if Nat.ltb last L then ([CUpGt], L :: last :: rest)
    else let (c, stk') := unwind L rest in (CUpLt :: c, stk')
  end.

(* one iteration of the for loop: stack (top first), entry index n, level L *)
Definition toc_step (stk : list nat) (n L : nat) : list chunk * list nat :=
  match stk with
  | [] => ([CFirst; CItem n], [L])
  | top :: rest =>
    if Nat.eqb L top then ([CSame; CItem n], stk)
    else if Nat.ltb top L then ([CDeeper; CItem n], L :: stk)
    else let (c, stk') := unwind L rest in (c ++ [CItem n], stk')
  end.

Fixpoint toc_loop (stk : list nat) (n : nat) (levels : list nat) : list chunk * list nat :=
  match levels with
  | [] => ([], stk)
  | L :: ls =>
    let (c1, stk1) := toc_step stk n L in
    let (c2, stk2) := toc_loop stk1 (S n) ls in
    (c1 ++ c2, stk2)
  end.

(* while len(levels) > 1: s += p_final; levels.pop() *)
Fixpoint toc_close (stk : list nat) : list chunk :=
  match stk with
  | _ :: ((_ :: _) as rest) => CFinal :: toc_close rest
  | _ => []
  end.

Definition toc_chunks (levels : list nat) : list chunk :=
  match levels with
  | [] => []
  | _ =>
    let (c, stk) := toc_loop [] 0 levels in
    CHead :: c ++ toc_close stk ++ [CTail]
  end.

Definition show_chunk (P : toc_pieces) (items : list (str * str)) (c : chunk) : str :=
  match c with
  | CFirst => p_first P | CSame => p_same P | CDeeper => p_deeper P | CUpEq => p_up_eq P
  | CUpGt => p_up_gt P | CUpLt => p_up_lt P | CUpEnd => p_up_end P | CFinal => p_final P
  | CHead => p_head P | CTail => p_tail P
  | CItem n => let it := nth n items ([], []) in p_item_a P ++ fst it ++ p_item_b P ++ snd it ++ p_item_c P
  end.

(* render_toc_ul(toc) for toc = [(level, id, text)] *)
Definition render_toc_ul (P : toc_pieces) (toc : list (nat * str * str)) : str :=
  flat_map (show_chunk P (map (fun t => (snd (fst t), snd t)) toc)) (toc_chunks (map (fun t => fst (fst t)) toc)).

(* ---------- tag events of a piece: a tiny lexer for <ul> </ul> <li> </li> and newlines ---------- *)
Inductive ev : Type := UlO | UlC | LiO | LiC | It (n : nat).

Definition s_ulo : str := [60; 117; 108; 62]%Z.
Definition s_ulc : str := [60; 47; 117; 108; 62]%Z.
Definition s_lio : str := [60; 108; 105; 62]%Z.
Definition s_lic : str := [60; 47; 108; 105; 62]%Z.

Fixpoint lex_tags (fuel : nat) (s : str) : option (list ev) :=
  match fuel with
  | O => None
  | S k =>
    match s with
    | [] => Some []
    | c :: s' =>
      if (c =? 10)%Z then lex_tags k s'
      else if prefixb s_ulo s then option_map (cons UlO) (lex_tags k (skipn 4 s))
      else if prefixb s_ulc s then option_map (cons UlC) (lex_tags k (skipn 5 s))
      else if prefixb s_lio s then option_map (cons LiO) (lex_tags k (skipn 4 s))
      else if prefixb s_lic s then option_map (cons LiC) (lex_tags k (skipn 5 s))
      else None
    end
  end.
Definition lex (s : str) : option (list ev) := lex_tags (S (length s)) s.

Definition chunk_events (c : chunk) : list ev :=
  match c with
  | CFirst => [LiO] | CSame => [LiC; LiO] | CDeeper => [UlO; LiO]
  | CUpEq => [LiC; UlC; LiC; LiO] | CUpGt => [LiC; LiO] | CUpLt => [LiC; UlC] | CUpEnd => [LiC; LiO]
  | CFinal => [LiC; UlC] | CHead => [UlO] | CTail => [LiC; UlC]
  | CItem n => [It n]
  end.

(* ---------- hook / directive: ids and items ---------- *)
(* a top-level token as the hooks see it: Some level for a heading, None otherwise *)
Definition toc_id (prefix : str) (index : nat) : str := (prefix ++ str_of_nat (S index))%list.

Fixpoint enumerate_from {A} (n : nat) (l : list A) : list (nat * A) :=
  match l with [] => [] | x :: l' => (n, x) :: enumerate_from (S n) l' end.

(* add_toc_hook: headings within [min,max] (range = Some (min,max)) numbered in order;
   TableOfContents directive: every top-level heading (range = None).
   Result: (position in the document, level, id index). *)
Definition in_range (range : option (nat * nat)) (l : nat) : bool :=
  match range with Some (mn, mx) => Nat.leb mn l && Nat.leb l mx | None => true end.

Definition hook_items (range : option (nat * nat)) (tokens : list (option nat)) : list (nat * nat * nat) :=
  let hs := filter (fun p => match snd p with Some l => in_range range l | None => false end)
                   (enumerate_from 0 tokens) in
  map (fun q => (fst (snd q), match snd (snd q) with Some l => l | None => O end, fst q)) (enumerate_from 0 hs).

(* a toc section lists the items within its own range *)
Definition section_items (mn mx : nat) (items : list (nat * nat * nat)) : list (nat * nat * nat) :=
  filter (fun it => in_range (Some (mn, mx)) (snd (fst it))) items.
