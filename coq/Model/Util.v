(* Util.v — model of src/mistune/util.py (escape, unescape, escape_url, safe_entity,
   unikey) together with the CPython functions they are specified against
   (html.unescape, urllib.parse.quote).  Tables (html5 entities, Unicode classes, case
   maps) are parameters: the instances are regenerated into Gen/UtilGen.v on every run. *)
From Coq Require Import ZArith List Bool Lia.
From Verif Require Import PyStr.
Import ListNotations.
Open Scope Z_scope.

Record tables := {
  t_html5 : list (str * str);            (* html.entities.html5 *)
  t_invalid_charrefs : list (Z * str);   (* html._invalid_charrefs *)
  t_invalid_codepoints : list Z;         (* html._invalid_codepoints *)
  t_ws : list Z;                         (* code points with str.isspace() *)
  t_cf : list (Z * str);                 (* chr(c).lower().upper() where it differs from chr(c) *)
  t_upper : list (Z * str);              (* chr(c).upper() where it differs *)
  t_lower : list (Z * str)               (* chr(c).lower() where it differs *)
}.

Fixpoint assoc_str {A} (k : str) (t : list (str * A)) : option A :=
  match t with
  | [] => None
  | (k', v) :: t' => if str_eqb k k' then Some v else assoc_str k t'
  end.

Fixpoint assoc_z {A} (k : Z) (t : list (Z * A)) : option A :=
  match t with
  | [] => None
  | (k', v) :: t' => if k =? k' then Some v else assoc_z k t'
  end.

(* ------------------------------------------------------------------ escape *)

(* one step of the replace chain: (old, new, only_when_quote) *)
Definition esc_op := (str * str * bool)%type.

Definition run_escape (ops : list esc_op) (quote : bool) (s : str) : str :=
  fold_left (fun acc (o : esc_op) =>
               let '(old, new, q) := o in
               if q && negb quote then acc else replace old new acc) ops s.

(* ------------------------------------------------------- character references *)

Definition is_digit (c : Z) : bool := (48 <=? c) && (c <=? 57).
Definition is_hex (c : Z) : bool :=
  is_digit c || ((65 <=? c) && (c <=? 70)) || ((97 <=? c) && (c <=? 102)).
(* [^\t\n\f <&#;] *)
Definition name_char (c : Z) : bool := negb (memc c [9; 10; 12; 32; 60; 38; 35; 59]).

Fixpoint span (p : Z -> bool) (s : str) : str * str :=
  match s with
  | [] => ([], [])
  | c :: s' => if p c then let (a, b) := span p s' in (c :: a, b) else ([], s)
  end.

Definition starts_semicolon (s : str) : bool := match s with c :: _ => c =? 59 | [] => false end.

Definition semi_opt (r : str) : str := if starts_semicolon r then [59] else [].

(* named branch: [^\t\n\f <&#;]{1,32};   /   {1,32};? *)
Definition match_named (strict : bool) (s : str) : option str :=
  let (ns, r) := span name_char s in
  match ns with
  | [] => None
  | _ =>
    if strict then
      if (Nat.leb (length ns) 32) && starts_semicolon r then Some (ns ++ [59]) else None
    else
      if Nat.leb (length ns) 32 then Some (ns ++ semi_opt r)
      else Some (firstn 32 ns)
  end.

(* numeric branches, input = text after "&#" *)
Definition match_numeric (strict : bool) (s1 : str) : option str :=
  let (ds, r) := span is_digit s1 in
  match ds with
  | _ :: _ =>
    if strict then
      if (Nat.leb (length ds) 7) && starts_semicolon r then Some (35 :: ds ++ [59]) else None
    else Some (35 :: ds ++ semi_opt r)
  | [] =>
    match s1 with
    | x :: s2 =>
      if (x =? 120) || (x =? 88) then
        let (hs, r2) := span is_hex s2 in
        match hs with
        | _ :: _ =>
          if strict then (if starts_semicolon r2 then Some (35 :: x :: hs ++ [59]) else None)
          else Some (35 :: x :: hs ++ semi_opt r2)
        | [] => None
        end
      else None
    | [] => None
    end
  end.

(* [strict = true]: mistune.util._charref_re (semicolon required, at most 7 decimal digits);
   [strict = false]: html._charref (CPython).  Input: the text after '&'.
   Output: group(1) of the match. *)
Definition match_charref (strict : bool) (s : str) : option str :=
  match s with
  | c :: s1 => if c =? 35 then match_numeric strict s1 else match_named strict s
  | [] => None
  end.

Fixpoint dec_val (acc : Z) (s : str) : Z :=
  match s with [] => acc | c :: s' => if is_digit c then dec_val (acc * 10 + (c - 48)) s' else acc end.

Definition hex_digit_val (c : Z) : Z :=
  if is_digit c then c - 48 else if (65 <=? c) && (c <=? 70) then c - 55 else c - 87.
Fixpoint hex_val (acc : Z) (s : str) : Z :=
  match s with [] => acc | c :: s' => if is_hex c then hex_val (acc * 16 + hex_digit_val c) s' else acc end.

(* for x in range(len(s)-1, 1, -1): if s[:x] in html5: return html5[s[:x]] + s[x:] *)
Fixpoint prefix_lookup (T : tables) (s : str) (x : nat) : option str :=
  match x with
  | O | S O => None
  | S x' =>
    match assoc_str (firstn x s) (t_html5 T) with
    | Some v => Some (v ++ skipn x s)
    | None => prefix_lookup T s x'
    end
  end.

(* html._replace_charref on group(1) *)
Definition replace_numeric (T : tables) (rest : str) : str :=
  let num := match rest with
             | x :: r2 => if (x =? 120) || (x =? 88) then hex_val 0 r2 else dec_val 0 rest
             | [] => 0
             end in
  match assoc_z num (t_invalid_charrefs T) with
  | Some v => v
  | None =>
    if ((55296 <=? num) && (num <=? 57343)) || (1114111 <? num) then [65533]
    else if memc num (t_invalid_codepoints T) then []
    else [num]
  end.

Definition replace_named (T : tables) (g : str) : str :=
  match assoc_str g (t_html5 T) with
  | Some v => v
  | None =>
    match prefix_lookup T g (length g - 1) with
    | Some v => v
    | None => 38 :: g
    end
  end.

Definition replace_charref (T : tables) (g : str) : str :=
  match g with
  | c :: rest => if c =? 35 then replace_numeric T rest else replace_named T g
  | [] => [38]
  end.

(* re.sub(charref, _replace_charref, s): [skip] = characters of a match still to drop *)
Fixpoint unescape_aux (T : tables) (strict : bool) (skip : nat) (s : str) : str :=
  match s with
  | [] => []
  | c :: s' =>
    match skip with
    | S k => unescape_aux T strict k s'
    | O =>
      if c =? 38 then
        match match_charref strict s' with
        | Some g => replace_charref T g ++ unescape_aux T strict (length g) s'
        | None => c :: unescape_aux T strict 0 s'
        end
      else c :: unescape_aux T strict 0 s'
    end
  end.

(* mistune.util.unescape *)
Definition unescape (T : tables) (s : str) : str := unescape_aux T true 0 s.
(* html.unescape — the reading a browser gives to character data / attribute values *)
Definition html_unescape (T : tables) (s : str) : str := unescape_aux T false 0 s.

(* ------------------------------------------------------------ urllib.parse.quote *)

Definition utf8 (c : Z) : option (list Z) :=
  if c <? 0 then None
  else if c <? 128 then Some [c]
  else if c <? 2048 then Some [192 + c / 64; 128 + c mod 64]
  else if c <? 65536 then
    if (55296 <=? c) && (c <=? 57343) then None
    else Some [224 + c / 4096; 128 + (c / 64) mod 64; 128 + c mod 64]
  else if c <? 1114112 then
    Some [240 + c / 262144; 128 + (c / 4096) mod 64; 128 + (c / 64) mod 64; 128 + c mod 64]
  else None.

Definition hexdig (n : Z) : Z := if n <? 10 then 48 + n else 55 + n.
Definition pct (b : Z) : str := [37; hexdig (b / 16); hexdig (b mod 16)].

Definition is_alnum_ascii (c : Z) : bool :=
  is_digit c || ((65 <=? c) && (c <=? 90)) || ((97 <=? c) && (c <=? 122)).
(* urllib.parse._ALWAYS_SAFE *)
Definition always_safe (c : Z) : bool := is_alnum_ascii c || memc c [95; 46; 45; 126].

Definition quote_char (safe : str) (c : Z) : option str :=
  match utf8 c with
  | None => None     (* CPython raises UnicodeEncodeError (lone surrogate) *)
  | Some bs =>
    if (c <? 128) && (always_safe c || memc c safe) then Some [c]
    else Some (flat_map pct bs)
  end.

Fixpoint quote (safe : str) (s : str) : option str :=
  match s with
  | [] => Some []
  | c :: s' =>
    match quote_char safe c, quote safe s' with
    | Some a, Some b => Some (a ++ b)
    | _, _ => None
    end
  end.

Definition escape_url (T : tables) (safe : str) (s : str) : option str := quote safe (unescape T s).

Definition safe_entity (T : tables) (ops : list esc_op) (s : str) : str :=
  run_escape ops true (unescape T s).

(* ------------------------------------------------------------------ unikey *)

Definition is_ws (T : tables) (c : Z) : bool := memc c (t_ws T).

Definition cf (T : tables) (c : Z) : str :=
  match assoc_z c (t_cf T) with Some w => w | None => [c] end.
Definition casefold (T : tables) (s : str) : str := flat_map (cf T) s.

Inductive uk_op : Type :=
| UJoinSplit (sep : str)   (* sep.join(s.split()) *)
| UStrip                   (* s.strip() *)
| ULowerUpper.             (* s.lower().upper() *)

Definition run_uk_op (T : tables) (o : uk_op) (s : str) : str :=
  match o with
  | UJoinSplit sep => join sep (split_ws (is_ws T) s)
  | UStrip => strip_p (is_ws T) s
  | ULowerUpper => casefold T s
  end.

Definition run_unikey (T : tables) (ops : list uk_op) (s : str) : str :=
  fold_left (fun acc o => run_uk_op T o acc) ops s.

Definition canonical_uk_ops : list uk_op := [UJoinSplit [32]; UStrip; ULowerUpper].
