(* Inline.v — executable model of the core InlineParser (src/mistune/inline_parser.py + the link helpers of
   helpers.py): the scanner loop, the nine rule handlers, precedence_scan and the recursive rendering of
   emphasis / link text.  The rule patterns, their order and the helper patterns are parameters (instantiated from
   the regenerated data in Model/Entry.v).  Recursion: [handle] on explicit fuel (depth of nested rendering),
   the loops on the length of the text.  None = fuel exhausted or an exception of the implementation. *)
From Coq Require Import ZArith List Bool Lia.
From Verif Require Import PyStr Rx RxSub Scanner.
Import ListNotations.
Local Open Scope nat_scope.

Inductive tok :=
| TText (raw : str)
| TCodespan (raw : str)
| TInlineHtml (raw : str)
| TLinebreak
| TSoftbreak
| TEmphasis (children : list tok)
| TStrong (children : list tok)
| TLink (image : bool) (children : list tok) (url : str) (title : option str) (has_title_key : bool) (ref : option (str * str))
| TExt (name : str) (children : list tok).   (* a token of an inline plugin: strikethrough, mark, insert, superscript, subscript *)

(* in_link_text: inside the text of a Markdown link (a raw </a> does not end that; InlineState.in_link_text) *)
Record flags := { in_image : bool; in_link : bool; in_emphasis : bool; in_strong : bool; in_link_text : bool }.
Definition flags0 : flags := {| in_image := false; in_link := false; in_emphasis := false; in_strong := false; in_link_text := false |}.

Inductive irule := IEscape | ICodespan | IEmphasis | ILink | IAutoLink | IAutoEmail | IInlineHtml | ILinebreak | ISoftbreak
                 | IPrecAutoLink | IPrecInlineHtml
                 | IExt (i : nat).    (* the i-th rule registered by a plugin *)

(* what the handler of a plugin rule does *)
Inductive ext :=
| XToEnd (name : str) (end_rx : rx)   (* formatting._parse_to_end: children = render(src[m.end() : end - 2]) *)
| XScript (name : str)                (* formatting._parse_script: children = render(m.group(0)[1:-1].replace("\\ ", " ")) *)
| XUrl.                               (* url.parse_url_link *)

Definition irule_eqb (a b : irule) : bool :=
  match a, b with
  | IEscape, IEscape | ICodespan, ICodespan | IEmphasis, IEmphasis | ILink, ILink | IAutoLink, IAutoLink
  | IAutoEmail, IAutoEmail | IInlineHtml, IInlineHtml | ILinebreak, ILinebreak | ISoftbreak, ISoftbreak
  | IPrecAutoLink, IPrecAutoLink | IPrecInlineHtml, IPrecInlineHtml => true
  | IExt a, IExt b => Nat.eqb a b
  | _, _ => false
  end.

(* everything the parser reads from its environment *)
Record icfg := {
  c_uni : uni;
  c_spec : irule -> rx;                 (* InlineParser.specification (with hard_wrap applied) *)
  c_rules : list irule;                 (* InlineParser.rules *)
  c_ext : nat -> option ext;            (* the handlers of the plugin rules *)
  c_square : rx;                        (* _INLINE_SQUARE_BRACKET_RE *)
  c_label : rx;                         (* _INLINE_LINK_LABEL_RE *)
  c_bracket_start : rx;                 (* LINK_BRACKET_START *)
  c_bracket : rx;                       (* LINK_BRACKET_RE *)
  c_href_inline : rx;                   (* LINK_HREF_INLINE_RE *)
  c_title : rx;                         (* LINK_TITLE_RE *)
  c_paren_end : rx;                     (* PAREN_END_RE *)
  c_escape_char : rx;                   (* _ESCAPE_CHAR_RE *)
  c_emph_end : str -> option rx;        (* EMPHASIS_END_RE[marker] *)
  c_escape_url : str -> option str;     (* util.escape_url (None: UnicodeEncodeError) *)
  c_unikey : str -> str;                (* util.unikey *)
  c_codespan_text : str -> str;         (* the post-processing of parse_codespan (Model/CodeSpan.v) *)
  c_refs : list (str * (str * option str))   (* env['ref_links']: key -> url, title *)
}.

(* results: a value, an exception of the implementation (UnicodeEncodeError from urllib), or fuel exhausted *)
Inductive res (A : Type) := Ok (a : A) | Exn | Fuel.
Arguments Ok {A} a.
Arguments Exn {A}.
Arguments Fuel {A}.

Definition bind {A B} (x : res A) (f : A -> res B) : res B :=
  match x with Ok a => f a | Exn => Exn | Fuel => Fuel end.
Notation "'do' x <- e ; k" := (bind e (fun x => k)) (at level 200, x pattern, e at level 100, k at level 200).

Section Inline.
Variable C : icfg.
Let U := c_uni C.

(* the scanner over a list of rule names: the name of the rule that matched (lastgroup) and the match *)
Fixpoint iscan_at (rules : list irule) (z : zip) : option (irule * mresult) :=
  match rules with
  | [] => None
  | r :: rs => match match_at U (c_spec C r) z with Some res => Some (r, res) | None => iscan_at rs z end
  end.

Fixpoint iscan_from (rules : list irule) (fuel : nat) (z : zip) : option (irule * mresult) :=
  match iscan_at rules z with
  | Some x => Some x
  | None => match fuel with
            | O => None
            | S f => match zstep z with Some (_, z') => iscan_from rules f z' | None => None end
            end
  end.

Definition isearch (rules : list irule) (s : str) (pos endpos : nat) : option (irule * mresult) :=
  if Nat.ltb (Nat.min endpos (length s)) pos then None
  else let z := zip_at s pos endpos in iscan_from rules (length (z_rest z)) z.

Definition mstart (m : mresult) : nat := fst (fst m).
Definition mend (m : mresult) : nat := snd (fst m).
Definition group0 (s : str) (m : mresult) : str := slice s (mstart m) (mend m).
Definition group_n (s : str) (m : mresult) (g : nat) : option str :=
  match cap_get (snd m) g with Some (a, b) => Some (slice s a b) | None => None end.

Definition unescape_char (t : str) : str := re_sub U (c_escape_char C) (rep_of (RGroupThen 1 [])) t.

(* ---- helpers.py ---- *)
Definition parse_link_label (src : str) (pos : nat) : option (str * nat) :=
  match re_match U (c_label C) src pos (length src) with
  | Some m => let g := group0 src m in Some (firstn (length g - 1) g, mend m)
  | None => None
  end.

Fixpoint link_text_loop (fuel : nat) (src : str) (pos level : nat) : res (option nat) :=
  match fuel with
  | O => Fuel
  | S f =>
    if Nat.leb (length src) pos then Ok None
    else match re_search U (c_square C) src pos (length src) with
         | None => Ok None
         | Some m =>
           let pos' := mend m in
           if str_eqb (group0 src m) [93%Z]
           then (if Nat.eqb level 1 then Ok (Some pos') else link_text_loop f src pos' (level - 1))
           else link_text_loop f src pos' (S level)
         end
  end.

Definition parse_link_text (src : str) (pos : nat) : res (option (str * nat)) :=
  do r <- link_text_loop (S (length src)) src pos 1;
  Ok (match r with Some p => Some (slice src pos (p - 1), p) | None => None end).

Definition parse_link_href (src : str) (start_pos : nat) : option (str * nat) :=
  match re_match U (c_bracket_start C) src start_pos (length src) with
  | Some m =>
    let sp := mend m - 1 in
    match re_match U (c_bracket C) src sp (length src) with
    | Some m2 => match group_n src m2 1 with Some g => Some (g, mend m2) | None => None end
    | None => None
    end
  | None =>
    match re_match U (c_href_inline C) src start_pos (length src) with
    | Some m => match group_n src m 1 with Some g => Some (g, mend m - 1) | None => None end
    | None => None
    end
  end.

Definition parse_link_title (src : str) (start_pos max_pos : nat) : option (str * nat) :=
  match re_match U (c_title C) src start_pos max_pos with
  | Some m => match group_n src m 1 with
              | Some g => Some (unescape_char (slice g 1 (length g - 1)), mend m)
              | None => None
              end
  | None => None
  end.

(* helpers.parse_link: Ok (Some (url, title option, pos)) ; Ok None = no link ; Exn = exception *)
Definition parse_link_dest (src : str) (pos : nat) : res (option (str * option str * nat)) :=
  match parse_link_href src pos with
  | None => Ok None
  | Some (href, href_pos) =>
    let t := parse_link_title src href_pos (length src) in
    let next_pos := match t with Some (_, tp) => if Nat.eqb tp 0 then href_pos else tp | None => href_pos end in
    match re_match U (c_paren_end C) src next_pos (length src) with
    | None => Ok None
    | Some m =>
      match c_escape_url C (unescape_char href) with
      | None => Exn
      | Some url =>
        let title := match t with Some (ti, _) => match ti with [] => None | _ => Some ti end | None => None end in
        Ok (Some (url, title, mend m))
      end
    end
  end.

Fixpoint assoc_ref (k : str) (l : list (str * (str * option str))) : option (str * option str) :=
  match l with [] => None | (k', v) :: l' => if str_eqb k k' then Some v else assoc_ref k l' end.

(* ---- handlers ---- *)
(* result of a handler: new position (None = the handler declined), tokens appended in order, flags afterwards *)
Definition hres := (option nat * list tok * flags)%type.
Definition handler := irule -> mresult -> str -> flags -> res hres.

Definition truthy (p : option nat) : option nat := match p with Some 0 => None | x => x end.

(* InlineParser.parse on a state whose flags are [fl]; [acc] holds the tokens in reverse order *)
Fixpoint parse_loop (h : handler) (iters : nat) (src : str) (pos : nat) (fl : flags) (acc : list tok) : res (list tok) :=
  let finish (pos : nat) (acc : list tok) :=
      if Nat.eqb pos 0 then Ok (rev (TText src :: acc))
      else if Nat.ltb pos (length src) then Ok (rev (TText (slice src pos (length src)) :: acc))
      else Ok (rev acc) in
  if Nat.leb (length src) pos then finish pos acc
  else
    match iters with
    | O => Fuel
    | S it =>
      match isearch (c_rules C) src pos (length src) with
      | None => finish pos acc
      | Some (rk, m) =>
        let end_pos := mstart m in
        let acc1 := if Nat.ltb pos end_pos then TText (slice src pos end_pos) :: acc else acc in
        do (np, toks, fl') <- h rk m src fl;
        match truthy np with
        | None => parse_loop h it src (S end_pos) fl (TText (slice src end_pos (S end_pos)) :: acc1)
        | Some p => parse_loop h it src p fl' (rev toks ++ acc1)
        end
      end
    end.

Definition irender (h : handler) (text : str) (fl : flags) : res (list tok) :=
  parse_loop h (S (length text)) text 0 fl [].

Definition real_rule (r : irule) : irule :=
  match r with IPrecAutoLink => IAutoLink | IPrecInlineHtml => IInlineHtml | x => x end.

(* precedence_scan: Ok None = nothing takes precedence; Ok (Some (pos, tokens)) *)
Definition precedence_scan (h : handler) (m : mresult) (src : str) (fl : flags) (end_pos : nat) (rules : list irule)
  : res (option (nat * list tok)) :=
  match isearch rules src (mend m) end_pos with
  | None => Ok None
  | Some (rk, m1) =>
    let rule := real_rule rk in
    match re_match U (c_spec C rule) src (mstart m1) (length src) with
    | None => Ok None
    | Some m2 =>
      do (np, toks, _) <- h rule m2 src fl;
      match truthy np with
      | None => Ok None
      | Some p => if Nat.ltb p end_pos then Ok None
                  else Ok (Some (p, TText (slice src (mstart m) (mstart m2)) :: toks))
      end
    end
  end.

Definition startswith_any (s : str) (ps : list str) : bool := existsb (fun p => prefixb p s) ps.

Definition link_token (h : handler) (is_image : bool) (text : str) (url : str) (title : option str) (tk : bool)
           (ref : option (str * str)) (fl : flags) : res tok :=
  let fl' := if is_image then {| in_image := true; in_link := in_link fl; in_emphasis := in_emphasis fl; in_strong := in_strong fl; in_link_text := in_link_text fl |}
             else {| in_image := in_image fl; in_link := true; in_emphasis := in_emphasis fl; in_strong := in_strong fl; in_link_text := true |} in
  do ch <- irender h text fl'; Ok (TLink is_image ch url title tk ref).

Definition codespan_rx (marker : str) : rx :=
  RSeq (RGroup 1 (RSeq (RRep false 0 None (RAny true)) (RIn true [CLit 96%Z])))
       (RSeq (fold_right (fun ch r => RSeq (RLit ch) r) REps marker) (RLook true true (RLit 96%Z))).

(* the reference-link branch of parse_link *)
Definition link_by_ref (h : handler) (is_image : bool) (text : str) (fl : flags) (label : option str) (end_pos : nat) : res hres :=
  match label with
  | None => Ok (None, [], fl)
  | Some l =>
    match c_refs C with
    | [] => Ok (None, [], fl)
    | _ =>
      let key := c_unikey C l in
      match assoc_ref key (c_refs C) with
      | None => Ok (None, [], fl)
      | Some (url, title) =>
        do t <- link_token h is_image text url title true (Some (key, l)) fl;
        Ok (Some end_pos, [t], fl)
      end
    end
  end.

(* parse_link after the text and the position behind it are known: inline destination, reference label, or shortcut *)
Definition link_after (h : handler) (src : str) (fl : flags) (is_image : bool) (label0 : option str) (text : str) (end_pos : nat) : res hres :=
  let by_ref := link_by_ref h is_image text fl in
  match nth_error src end_pos with
  | None => by_ref label0 end_pos
  | Some c =>
    if (c =? 40)%Z then
      do d <- parse_link_dest src (S end_pos);
      match d with
      | Some (url, title, pos2) =>
        if Nat.eqb pos2 0 then by_ref label0 end_pos
        else do t <- link_token h is_image text url title (match title with Some _ => true | None => false end) None fl;
             Ok (Some pos2, [t], fl)
      | None => by_ref label0 end_pos
      end
    else if (c =? 91)%Z then
      match parse_link_label src (S end_pos) with
      | Some (label2, pos2) =>
        if Nat.eqb pos2 0 then by_ref label0 end_pos
        else by_ref (match label2 with [] => label0 | _ => Some label2 end) pos2
      | None => by_ref label0 end_pos
      end
    else by_ref label0 end_pos
  end.

Definition link_body (h : handler) (m : mresult) (src : str) (fl : flags) (is_image : bool) (label0 : option str) (text : str) (end_pos : nat) : res hres :=
  if Nat.leb (length src) end_pos && (match label0 with None => true | _ => false end) then Ok (None, [], fl)
  else
    do pr <- precedence_scan h m src fl end_pos [ICodespan; IPrecAutoLink; IPrecInlineHtml];
    match pr with
    | Some (p, toks) => Ok (Some p, toks, fl)
    | None => link_after h src fl is_image label0 text end_pos
    end.

(* one level of handlers, given the handlers of the level below (for nested rendering and precedence) *)
Definition set_link (fl : flags) (b : bool) : flags :=
  {| in_image := in_image fl; in_link := b; in_emphasis := in_emphasis fl; in_strong := in_strong fl; in_link_text := in_link_text fl |}.

Definition handle_with (h : handler) (rk : irule) (m : mresult) (src : str) (fl : flags) : res hres :=
  let pos := mend m in
  let marker := group0 src m in
  match rk with
  | IEscape => Ok (Some pos, [TText (unescape_char marker)], fl)
  | ILinebreak => Ok (Some pos, [TLinebreak], fl)
  | ISoftbreak => Ok (Some pos, [TSoftbreak], fl)
  | IInlineHtml | IPrecInlineHtml =>
    let fl' := if startswith_any marker [[60; 97; 32]; [60; 97; 62]; [60; 65; 32]; [60; 65; 62]]%Z then set_link fl true
               else if startswith_any marker [[60; 47; 97; 32]; [60; 47; 97; 62]; [60; 47; 65; 32]; [60; 47; 65; 62]]%Z then set_link fl (in_link_text fl)
               else fl in
    Ok (Some pos, [TInlineHtml marker], fl')
  | IAutoLink | IPrecAutoLink =>
    if in_link fl then Ok (Some pos, [TText marker], fl)
    else let text := slice marker 1 (length marker - 1) in
         match c_escape_url C text with
         | Some url => Ok (Some pos, [TLink false [TText text] url None false None], fl)
         | None => Exn
         end
  | IAutoEmail =>
    if in_link fl then Ok (Some pos, [TText marker], fl)
    else let text := slice marker 1 (length marker - 1) in
         match c_escape_url C ([109; 97; 105; 108; 116; 111; 58]%Z ++ text) with
         | Some url => Ok (Some pos, [TLink false [TText text] url None false None], fl)
         | None => Exn
         end
  | ICodespan =>
    match re_match U (codespan_rx marker) src pos (length src) with
    | Some m2 => match group_n src m2 1 with
                 | Some code => Ok (Some (mend m2), [TCodespan (c_codespan_text C code)], fl)
                 | None => Exn
                 end
    | None => Ok (Some pos, [TText marker], fl)
    end
  | IEmphasis =>
    let mlen := length marker in
    if (Nat.eqb mlen 1 && in_emphasis fl) || (Nat.eqb mlen 2 && in_strong fl) then Ok (Some pos, [TText marker], fl)
    else
      match c_emph_end C marker with
      | None => Exn
      | Some er =>
        match re_search U er src pos (length src) with
        | None => Ok (Some pos, [TText marker], fl)
        | Some m1 =>
          let end_pos := mend m1 in
          let text := slice src pos (end_pos - mlen) in
          do pr <- precedence_scan h m src fl end_pos [ICodespan; ILink; IPrecAutoLink; IPrecInlineHtml];
          match pr with
          | Some (p, toks) => Ok (Some p, toks, fl)
          | None =>
            if Nat.eqb mlen 1 then
              do ch <- irender h text {| in_image := in_image fl; in_link := in_link fl; in_emphasis := true; in_strong := in_strong fl; in_link_text := in_link_text fl |};
              Ok (Some end_pos, [TEmphasis ch], fl)
            else if Nat.eqb mlen 2 then
              do ch <- irender h text {| in_image := in_image fl; in_link := in_link fl; in_emphasis := in_emphasis fl; in_strong := true; in_link_text := in_link_text fl |};
              Ok (Some end_pos, [TStrong ch], fl)
            else
              do ch <- irender h text {| in_image := in_image fl; in_link := in_link fl; in_emphasis := true; in_strong := true; in_link_text := in_link_text fl |};
              Ok (Some end_pos, [TEmphasis [TStrong ch]], fl)
          end
        end
      end
  | IExt i =>
    match c_ext C i with
    | None => Exn
    | Some (XToEnd name end_rx) =>
      match re_search U end_rx src pos (length src) with
      | None => Ok (None, [], fl)
      | Some m1 =>
        let end_pos := mend m1 in
        do ch <- irender h (slice src pos (end_pos - 2)) fl;
        Ok (Some end_pos, [TExt name ch], fl)
      end
    | Some (XScript name) =>
      do ch <- irender h (replace [92; 32]%Z [32%Z] (slice marker 1 (length marker - 1))) fl;
      Ok (Some pos, [TExt name ch], fl)
    | Some XUrl =>
      if in_link fl then Ok (Some pos, [TText marker], fl)
      else match c_escape_url C marker with
           | Some url => Ok (Some pos, [TLink false [TText marker] url None false None], fl)
           | None => Exn
           end
    end
  | ILink =>
    let is_image := prefixb [33%Z] marker in
    if (is_image && in_image fl) || (negb is_image && in_link fl) then Ok (Some pos, [TText marker], fl)
    else
      match parse_link_label src pos with
      | Some (l, e) => link_body h m src fl is_image (Some l) l e
      | None =>
        do tx <- parse_link_text src pos;
        match tx with
        | None => Ok (None, [], fl)
        | Some (text, end_pos) => link_body h m src fl is_image None text end_pos
        end
      end
  end.

Fixpoint handle (fuel : nat) : handler :=
  match fuel with
  | O => fun _ _ _ _ => Fuel
  | S f => handle_with (handle f)
  end.

(* InlineParser.__call__(s, env) *)
Definition inline_parse (s : str) : res (list tok) :=
  irender (handle (3 * length s + 6)) s flags0.
End Inline.
