(* Block.v — executable model of the core BlockParser (src/mistune/block_parser.py, list_parser.py, the BlockState
   methods of core.py and the block half of helpers.py): the scanner loop, the eleven rule handlers, block quotes with
   lazy continuation, lists with their per-item break scanner, HTML blocks, link reference definitions.
   The patterns, rule order, tag lists and the width-dependent list patterns are parameters (instantiated from the
   regenerated data in Model/Entry.v).  Nested parsing (quote / list item content) recurses on explicit fuel; the loops run
   on the length of the text.  Fuel = fuel exhausted, Exn = an exception of the implementation. *)
From Coq Require Import ZArith List Bool Lia.
From Verif Require Import PyStr Rx RxSub Scanner Inline.
Import ListNotations.
Local Open Scope nat_scope.

Inductive btok :=
| BBlank
| BThematic
| BCode (raw : str) (fenced : bool) (marker : str) (info : option str)
| BHeading (text : str) (level : nat) (setext : bool)
| BParagraph (text : str)
| BBlockText (text : str)
| BQuote (children : list btok)
| BList (items : list btok) (tight : bool) (bullet : Z) (depth : nat) (ordered : bool) (start : option Z)
| BListItem (children : list btok)
| BHtml (raw : str).

Inductive brule := RFenced | RIndent | RAtx | RSetex | RThematic | RQuote | RList | RRefLink | RRawHtml | RBlankLine | RBlockHtml | RListItem.

Definition brule_eqb (a b : brule) : bool :=
  match a, b with
  | RFenced, RFenced | RIndent, RIndent | RAtx, RAtx | RSetex, RSetex | RThematic, RThematic | RQuote, RQuote | RList, RList
  | RRefLink, RRefLink | RRawHtml, RRawHtml | RBlankLine, RBlankLine | RBlockHtml, RBlockHtml | RListItem, RListItem => true
  | _, _ => false
  end.

Definition refs := list (str * (str * str * option str)).   (* key -> url, label, title *)

Record bcfg := {
  b_uni : uni;
  b_spec : brule -> rx;
  b_rules : list brule;
  b_max_nested : nat;
  b_blank_line : rx; b_line_end : rx; b_strict_quote : rx; b_quote_leading : rx; b_quote_trim : rx;
  b_line_blank_end : rx; b_blank_to_line : rx; b_open_tag_end : rx; b_close_tag_end : rx; b_indent_code_trim : rx;
  b_atx_trim : rx; b_line_has_text : rx; b_expand_tab : rx; b_strip_end : rx; b_escape_char : rx;
  b_bracket_start : rx; b_bracket : rx; b_href_block : rx; b_title : rx;
  b_lb_rules : nat -> list (brule * rx);      (* list-item break rules for a leading width, each already (?<=\n)... *)
  b_item_rx : Z -> nat -> rx;                 (* (?<=\n) list_item pattern for a bullet character and a leading width *)
  b_block_tags : list str; b_pre_tags : list str;
  b_is_ws : Z -> bool;
  b_lower : Z -> Z;
  b_unikey : str -> str;
  b_escape_url : str -> option str
}.

Record bstate := { s_src : str; s_cursor : nat; s_tokens : list btok; s_depth : nat }.

Section Block.
Variable C : bcfg.
Let U := b_uni C.

Definition set_cursor (st : bstate) (c : nat) : bstate :=
  {| s_src := s_src st; s_cursor := c; s_tokens := s_tokens st; s_depth := s_depth st |}.
Definition set_tokens (st : bstate) (t : list btok) : bstate :=
  {| s_src := s_src st; s_cursor := s_cursor st; s_tokens := t; s_depth := s_depth st |}.
Definition append_token (st : bstate) (t : btok) : bstate := set_tokens st (s_tokens st ++ [t]).
Definition cursor_max (st : bstate) : nat := length (s_src st).

Definition mstart (m : mresult) : nat := fst (fst m).
Definition mend (m : mresult) : nat := snd (fst m).
Definition group0 (s : str) (m : mresult) : str := slice s (mstart m) (mend m).
Definition group_n (s : str) (m : mresult) (g : nat) : str :=
  match cap_get (snd m) g with Some (a, b) => slice s a b | None => [] end.

Definition strip_ws (s : str) : str := strip_p (b_is_ws C) s.
Definition sub_del (r : rx) (s : str) : str := re_sub U r (rep_of (RConst [])) s.
Definition expand_leading_tab (s : str) (width : nat) : str := re_sub U (b_expand_tab C) (rep_of (RGroupPad 1 width)) s.
Definition expand_tab (s : str) : str := re_sub U (b_expand_tab C) (rep_of (RGroupThen 1 [32; 32; 32; 32]%Z)) s.
Definition strip_end (s : str) : str := re_sub U (b_strip_end C) (rep_of (RConst [10%Z])) s.
Definition unescape_char (s : str) : str := re_sub U (b_escape_char C) (rep_of (RGroupThen 1 [])) s.

(* BlockState.find_line_end: _LINE_END = \n|$ always matches at or after the cursor *)
Definition find_line_end (st : bstate) : nat :=
  match re_search U (b_line_end C) (s_src st) (s_cursor st) (cursor_max st) with
  | Some m => mend m
  | None => cursor_max st
  end.
Definition get_text (st : bstate) (e : nat) : str := slice (s_src st) (s_cursor st) e.

Definition last_is_paragraph (st : bstate) : option (list btok * str) :=
  match rev (s_tokens st) with
  | BParagraph t :: r => Some (rev r, t)
  | _ => None
  end.

Definition add_paragraph (st : bstate) (text : str) : bstate :=
  match last_is_paragraph st with
  | Some (before, t) => set_tokens st (before ++ [BParagraph (t ++ text)])
  | None => append_token st (BParagraph text)
  end.

Definition append_paragraph (st : bstate) : option (bstate * nat) :=
  match last_is_paragraph st with
  | Some (before, t) => let pos := find_line_end st in Some (set_tokens st (before ++ [BParagraph (t ++ get_text st pos)]), pos)
  | None => None
  end.

(* scanners over rule lists *)
Fixpoint bscan_at (rules : list (brule * rx)) (z : zip) : option (brule * mresult) :=
  match rules with
  | [] => None
  | (n, r) :: rs => match match_at U r z with Some res => Some (n, res) | None => bscan_at rs z end
  end.
Fixpoint bscan_from (rules : list (brule * rx)) (fuel : nat) (z : zip) : option (brule * mresult) :=
  match bscan_at rules z with
  | Some x => Some x
  | None => match fuel with
            | O => None
            | S f => match zstep z with Some (_, z') => bscan_from rules f z' | None => None end
            end
  end.
Definition named (rules : list brule) : list (brule * rx) := map (fun r => (r, b_spec C r)) rules.
Definition bsearch (rules : list brule) (s : str) (pos : nat) : option (brule * mresult) :=
  if Nat.ltb (length s) pos then None
  else let z := zip_at s pos (length s) in bscan_from (named rules) (length (z_rest z)) z.
(* Pattern.match(s, pos): pos beyond the end is clamped by CPython *)
Definition bmatch_rules (rules : list (brule * rx)) (s : str) (pos : nat) : option (brule * mresult) :=
  bscan_at rules (zip_at s (Nat.min pos (length s)) (length s)).
Definition rmatch (r : rx) (s : str) (pos : nat) : option mresult := re_match U r s (Nat.min pos (length s)) (length s).
Definition rsearch (r : rx) (s : str) (pos : nat) : option mresult := re_search U r s (Nat.min pos (length s)) (length s).

(* ---- link reference definitions (helpers.parse_link_href block=True, parse_link_title) ---- *)
Definition parse_link_href_block (src : str) (start_pos : nat) : option (str * nat) :=
  match rmatch (b_bracket_start C) src start_pos with
  | Some m =>
    match rmatch (b_bracket C) src (mend m - 1) with
    | Some m2 => Some (group_n src m2 1, mend m2)
    | None => None
    end
  | None =>
    match rmatch (b_href_block C) src start_pos with
    | Some m =>
      let href := group_n src m 1 in
      let e := mend m in
      if (match nth_error src (e - 1), last href 0%Z with Some a, b => (a =? b)%Z | None, _ => false end) then Some (href, e) else Some (href, e - 1)
    | None => None
    end
  end.

Definition parse_link_title (src : str) (start_pos max_pos : nat) : option (str * nat) :=
  match re_match U (b_title C) src (Nat.min start_pos (length src)) max_pos with
  | Some m => let g := group_n src m 1 in Some (unescape_char (slice g 1 (length g - 1)), mend m)
  | None => None
  end.

Fixpoint assoc_refs (k : str) (l : refs) : bool :=
  match l with [] => false | (k', _) :: l' => str_eqb k k' || assoc_refs k l' end.

(* ---- handler results ---- *)
Definition bres := (bstate * refs * option nat)%type.
Definition bhandler := brule -> mresult -> bstate -> refs -> res bres.
Definition truthy (p : option nat) : option nat := match p with Some 0 => None | x => x end.

(* BlockParser.parse(state, rules) *)
Fixpoint parse_loop (h : bhandler) (iters : nat) (rules : list brule) (st : bstate) (rf : refs) : res (bstate * refs) :=
  let finish (st : bstate) :=
      if Nat.ltb (s_cursor st) (cursor_max st)
      then set_cursor (add_paragraph st (slice (s_src st) (s_cursor st) (cursor_max st))) (cursor_max st) else st in
  if Nat.leb (cursor_max st) (s_cursor st) then Ok (finish st, rf)
  else
    match iters with
    | O => Fuel
    | S it =>
      match bsearch rules (s_src st) (s_cursor st) with
      | None => Ok (finish st, rf)
      | Some (rk, m) =>
        let e := mstart m in
        let st1 := if Nat.ltb (s_cursor st) e then set_cursor (add_paragraph st (get_text st e)) e else st in
        do (st2, rf2, np) <- h rk m st1 rf;
        match truthy np with
        | Some p => parse_loop h it rules (set_cursor st2 p) rf2
        | None =>
          let e3 := find_line_end st2 in
          parse_loop h it rules (set_cursor (add_paragraph st2 (get_text st2 e3)) e3) rf2
        end
      end
    end.

Definition child_state (st : bstate) (text : str) : bstate :=
  {| s_src := text; s_cursor := 0; s_tokens := []; s_depth := S (s_depth st) |}.

Definition nested_rules (st : bstate) : list brule :=
  if Nat.leb (b_max_nested C - 1) (s_depth st)
  then List.filter (fun r => negb (brule_eqb r RQuote || brule_eqb r RList)) (b_rules C)
  else b_rules C.

Definition parse_child (h : bhandler) (st : bstate) (text : str) (rf : refs) : res (list btok * refs) :=
  let child := child_state st text in
  do (c2, rf2) <- parse_loop h (S (length text)) (nested_rules st) child rf;
  Ok (s_tokens c2, rf2).

(* ---- fenced code ---- *)
Definition fence_end_rx (c : Z) (n : nat) : rx :=
  RSeq (RAt AtBeginningLine)
       (RSeq (RRep true 0 (Some 3) (RLit 32%Z))
             (RSeq (RRep true n None (RLit c))
                   (RSeq (RRep true 0 None (RIn false [CLit 32%Z; CLit 9%Z])) (RAlt (RLit 10%Z) (RAt AtEndLine))))).

Definition handle_fenced (m : mresult) (st : bstate) (rf : refs) : bres :=
  let src := s_src st in
  let spaces := group_n src m 1 in
  let marker := group_n src m 2 in
  let info := group_n src m 3 in
  let c := hd 0%Z marker in
  if negb (Nat.eqb (length info) 0) && (c =? 96)%Z && memc 96%Z info then (st, rf, None)
  else
    let cursor_start := mend m + 1 in
    let '(code, end_pos) :=
        match rsearch (fence_end_rx c (length marker)) src cursor_start with
        | Some m2 => (slice src cursor_start (mstart m2), mend m2)
        | None => (slice src cursor_start (length src), cursor_max st)
        end in
    let code := if negb (Nat.eqb (length spaces) 0) && negb (Nat.eqb (length code) 0)
                then sub_del (indent_trim (length spaces)) code else code in
    let inf := match info with [] => None | _ => Some (strip_ws (unescape_char info)) end in
    (append_token st (BCode code true marker inf), rf, Some end_pos).

(* ---- HTML blocks ---- *)
Definition lower_str (s : str) : str := map (b_lower C) s.
Definition mem_str (s : str) (l : list str) : bool := existsb (str_eqb s) l.

Definition html_to_end (st : bstate) (end_marker : str) (start_pos : nat) : bstate * nat :=
  match find (s_src st) end_marker start_pos with
  | None => (append_token st (BHtml (slice (s_src st) (s_cursor st) (cursor_max st))), cursor_max st)
  | Some mp =>
    let text := get_text st mp in
    let st' := set_cursor st mp in
    let e := find_line_end st' in
    (append_token st' (BHtml (text ++ get_text st' e)), e)
  end.

Definition html_to_newline (st : bstate) : bstate * nat :=
  match rsearch (b_blank_line C) (s_src st) (s_cursor st) with
  | Some m => (append_token st (BHtml (get_text st (mstart m))), mstart m)
  | None => (append_token st (BHtml (slice (s_src st) (s_cursor st) (cursor_max st))), cursor_max st)
  end.

Definition handle_html (m : mresult) (st : bstate) (rf : refs) : bres :=
  let src := s_src st in
  let marker := strip_ws (group0 src m) in
  let ret (p : bstate * nat) : bres := (fst p, rf, Some (snd p)) in
  if str_eqb marker [60; 33; 45; 45]%Z then ret (html_to_end st [45; 45; 62]%Z (mend m))
  else if str_eqb marker [60; 63]%Z then ret (html_to_end st [63; 62]%Z (mend m))
  else if str_eqb marker [60; 33; 91; 67; 68; 65; 84; 65; 91]%Z then ret (html_to_end st [93; 93; 62]%Z (mend m))
  else if prefixb [60; 33]%Z marker then ret (html_to_end st [62]%Z (mend m))
  else
    let is_close := prefixb [60; 47]%Z marker in
    let tag := lower_str (if is_close then skipn 2 marker else skipn 1 marker) in
    if is_close && mem_str tag (b_block_tags C) then ret (html_to_newline st)
    else if negb is_close && mem_str tag (b_pre_tags C) then ret (html_to_end st ([60; 47]%Z ++ tag ++ [62]%Z) (mend m))
    else if negb is_close && mem_str tag (b_block_tags C) then ret (html_to_newline st)
    else
      match append_paragraph st with
      | Some (st', pos) => (st', rf, Some pos)
      | None =>
        let start_pos := mend m in
        let end_pos := find_line_end st in
        let tag_nonempty := negb (Nat.eqb (length tag) 0) in
        let r := if is_close then b_close_tag_end C else b_open_tag_end C in
        if tag_nonempty && (match re_match U r src (Nat.min start_pos (length src)) end_pos with Some _ => true | None => false end)
        then ret (html_to_newline st) else (st, rf, None)
      end.

(* ---- reference definitions ---- *)
Definition handle_ref_link (m : mresult) (st : bstate) (rf : refs) : res bres :=
  match append_paragraph st with
  | Some (st', pos) => Ok (st', rf, Some pos)
  | None =>
    let src := s_src st in
    let label := group_n src m 1 in
    let key := b_unikey C label in
    match key with
    | [] => Ok (st, rf, None)
    | _ =>
      match parse_link_href_block src (mend m) with
      | None => Ok (st, rf, None)
      | Some (href, href_pos) =>
        let max_pos := match rsearch (b_blank_line C) src href_pos with Some b => mstart b | None => cursor_max st end in
        let t := parse_link_title src href_pos max_pos in
        let '(title, title_pos) :=
            match t with
            | Some (ti, tp) =>
              match rmatch (b_blank_to_line C) src tp with
              | Some m2 => (Some ti, Some (mend m2))
              | None => (None, None)
              end
            | None => (None, None)
            end in
        let href_end := match title_pos with
                        | Some _ => Some href_pos
                        | None => match rmatch (b_blank_to_line C) src href_pos with Some m3 => Some (mend m3) | None => None end
                        end in
        let end_pos := match truthy title_pos with Some p => Some p | None => href_end end in
        match truthy end_pos with
        | None => Ok (st, rf, None)
        | Some e =>
          if assoc_refs key rf then Ok (st, rf, Some e)
          else match b_escape_url C (unescape_char href) with
               | None => Exn
               | Some url =>
                 let ti := match title with Some ((_ :: _) as x) => Some x | _ => None end in
                 Ok (st, rf ++ [(key, (url, label, ti))], Some e)
               end
        end
      end
    end
  end.

(* ---- block quotes ---- *)
Definition quote_piece (q : str) : str :=
  sub_del (b_quote_trim C) (expand_leading_tab (sub_del (b_quote_leading C) q) 3).

Definition QUOTE_BREAKS : list brule := [RBlankLine; RThematic; RFenced; RList; RBlockHtml].

(* the lazy loop of extract_block_quote: returns state, refs, text, end_pos *)
Fixpoint quote_lazy_loop (h : bhandler) (iters : nat) (st : bstate) (rf : refs) (text : str) (prev_blank : bool)
  : res (bstate * refs * str * option nat) :=
  if Nat.leb (cursor_max st) (s_cursor st) then Ok (st, rf, text, None)
  else
    match iters with
    | O => Fuel
    | S it =>
      match rmatch (b_strict_quote C) (s_src st) (s_cursor st) with
      | Some m3 =>
        let quote := quote_piece (group0 (s_src st) m3) in
        let pb := match strip_ws quote with
                  | [] => true
                  | _ => match re_search U (b_line_blank_end C) quote 0 (length quote) with Some _ => true | None => false end
                  end in
        quote_lazy_loop h it (set_cursor st (mend m3)) rf (text ++ quote) pb
      | None =>
        if prev_blank then Ok (st, rf, text, None)
        else
          let lazy (st : bstate) (rf : refs) :=
              let pos := find_line_end st in
              let line := expand_leading_tab (get_text st pos) 3 in
              quote_lazy_loop h it (set_cursor st pos) rf (text ++ line) prev_blank in
          match bmatch_rules (named QUOTE_BREAKS) (s_src st) (s_cursor st) with
          | Some (rk, m4) =>
            do (st2, rf2, np) <- h rk m4 st rf;
            match truthy np with
            | Some p => Ok (st2, rf2, text, Some p)
            | None => lazy st2 rf2
            end
          | None => lazy st rf
          end
      end
    end.

Definition extract_block_quote (h : bhandler) (m : mresult) (st : bstate) (rf : refs) : res (bstate * refs * str * option nat) :=
  let src := s_src st in
  let text := sub_del (b_quote_trim C) (expand_leading_tab (group_n src m 1 ++ [10%Z]) 3) in
  let require_marker := match bmatch_rules (named [RBlankLine; RIndent; RFenced]) text 0 with Some _ => true | None => false end in
  let st1 := set_cursor st (mend m + 1) in
  if require_marker then
    match rmatch (b_strict_quote C) src (s_cursor st1) with
    | Some m2 => Ok (set_cursor st1 (mend m2), rf, expand_tab (text ++ quote_piece (group0 src m2)), None)
    | None => Ok (st1, rf, expand_tab text, None)
    end
  else
    do (st2, rf2, t2, e) <- quote_lazy_loop h (S (length src)) st1 rf text false;
    Ok (st2, rf2, expand_tab t2, e).

Definition insert_at (l : list btok) (i : nat) (t : btok) : list btok := firstn i l ++ t :: skipn i l.

(* the quote is put in front of everything the interrupting block appended while the quote was extracted *)
Definition handle_quote (h : bhandler) (m : mresult) (st : bstate) (rf : refs) : res bres :=
  let idx := length (s_tokens st) in
  do (st2, rf2, text, e) <- extract_block_quote h m st rf;
  do (ch, rf3) <- parse_child h st2 text rf2;
  let tok := BQuote ch in
  match truthy e with
  | Some p => Ok (set_tokens st2 (insert_at (s_tokens st2) idx tok), rf3, Some p)
  | None => Ok (append_token st2 tok, rf3, Some (s_cursor st2))
  end.

(* ---- lists ---- *)
Fixpoint Z_of_digits (acc : Z) (s : str) : Z :=
  match s with [] => acc | c :: s' => Z_of_digits (acc * 10 + (c - 48))%Z s' end.

Definition compile_continue_width (text : str) (leading_width : nat) : str * nat :=
  let t := expand_tab (expand_leading_tab text 3) in
  match re_match U (b_line_has_text C) t 0 (length t) with
  | Some m2 =>
    let sw := if prefixb [32; 32; 32; 32; 32]%Z t then 1 else length (group_n t m2 1) in
    (skipn sw t ++ [10%Z], leading_width + sw)
  | None => ([], leading_width + 1)
  end.

Definition clean_list_item_text (src : str) (cw : nat) : str :=
  let trim := repeat 32%Z cw in
  join [10%Z] (map (fun line => if prefixb trim line then expand_tab (skipn cw line) else line) (split_char 10%Z src)).

Fixpoint is_loose (toks : list btok) (paragraphs : nat) : bool :=
  match toks with
  | [] => false
  | BBlank :: _ => true
  | BParagraph _ :: r => if Nat.leb 1 paragraphs then true else is_loose r (S paragraphs)
  | _ :: r => is_loose r paragraphs
  end.

(* _transform_tight_list *)
Fixpoint tighten (t : btok) : btok :=
  match t with
  | BList items true b d o s =>
    BList (map (fun it => match it with
                          | BListItem ch => BListItem (map (fun tk => match tk with
                                                                     | BParagraph x => BBlockText x
                                                                     | BList _ _ _ _ _ _ => tighten tk
                                                                     | other => other end) ch)
                          | other => other end) items) true b d o s
  | other => other
  end.

Definition strip_ws_empty (s : str) : bool := match strip_ws s with [] => true | _ => false end.

(* the line-collecting loop of _parse_list_item.
   result: state, refs, collected src, next group, tight flag, interrupting block (token index, end position) *)
Definition item_out := (bstate * refs * str * option (str * str * str) * bool * option (nat * nat))%type.

Fixpoint item_loop (h : bhandler) (iters : nat) (sc : list (brule * rx)) (continue_space : str) (text_empty : bool)
         (st : bstate) (rf : refs) (src : str) (prev_blank : bool) (tight : bool) (pos : nat) : res item_out :=
  if Nat.leb (cursor_max st) pos then Ok (st, rf, src, None, tight, None)
  else
    match iters with
    | O => Fuel
    | S it =>
      let pos := find_line_end st in
      let line := get_text st pos in
      match re_match U (b_blank_line C) line 0 (length line) with
      | Some _ => item_loop h it sc continue_space text_empty (set_cursor st pos) rf (src ++ [10%Z]) true tight pos
      | None =>
        let line := expand_leading_tab line 4 in
        if prefixb continue_space line then
          if prev_blank && text_empty && strip_ws_empty src then Ok (st, rf, src, None, tight, None)
          else item_loop h it sc continue_space text_empty (set_cursor st pos) rf (src ++ line) false tight pos
        else
          let after (st : bstate) (rf : refs) : res item_out :=
              if prev_blank then Ok (st, rf, src, None, tight, None)
              else item_loop h it sc continue_space text_empty (set_cursor st pos) rf (src ++ line) prev_blank tight pos in
          match bmatch_rules sc (s_src st) (s_cursor st) with
          | Some (RListItem, m) =>
            let s0 := s_src st in
            Ok (set_cursor st (mend m + 1), rf, src, Some (group_n s0 m 1, group_n s0 m 2, group_n s0 m 3), (if prev_blank then false else tight), None)
          | Some (RList, _) => Ok (st, rf, src, None, tight, None)
          | Some (rk, m) =>
            let idx := length (s_tokens st) in
            do (st2, rf2, np) <- h rk m st rf;
            match truthy np with
            | Some p => Ok (st2, rf2, src, None, tight, Some (idx, p))
            | None => after st2 rf2
            end
          | None => after st rf
          end
      end
    end.

(* the while-groups loop of parse_list *)
Fixpoint items_loop (h : bhandler) (iters : nat) (bullet : Z) (groups : str * str * str) (st : bstate) (rf : refs)
         (items : list btok) (tight : bool) : res (bstate * refs * list btok * bool * option (nat * nat)) :=
  match iters with
  | O => Fuel
  | S it =>
    let '(spaces, marker, text0) := groups in
    let leading_width := length spaces + length marker in
    let '(text, cw) := compile_continue_width text0 leading_width in
    let w := Nat.min leading_width 3 in
    let sc := match b_lb_rules C w with
              | x :: rest => x :: (RListItem, b_item_rx C bullet w) :: rest
              | [] => [(RListItem, b_item_rx C bullet w)]
              end in
    do (st2, rf2, src, next, tight2, brk) <-
       item_loop h (S (length (s_src st))) sc (repeat 32%Z cw) (match text with [] => true | _ => false end) st rf [] false tight (s_cursor st);
    let body := strip_end (text ++ clean_list_item_text src cw) in
    do (ch, rf3) <- parse_child h st2 body rf2;
    let tight3 := if tight2 && is_loose ch 0 then false else tight2 in
    let items' := items ++ [BListItem ch] in
    match next with
    | Some g => items_loop h it bullet g st2 rf3 items' tight3
    | None => Ok (st2, rf3, items', tight3, brk)
    end
  end.

Definition handle_list (h : bhandler) (m : mresult) (st : bstate) (rf : refs) : res bres :=
  let src := s_src st in
  let text := group_n src m 3 in
  let marker := group_n src m 2 in
  let ordered := Nat.ltb 1 (length marker) in
  let start := Z_of_digits 0 (removelast marker) in
  let interrupts := strip_ws_empty text || (ordered && negb (start =? 1)%Z) in
  match (if interrupts then append_paragraph st else None) with
  | Some (st', pos) => Ok (st', rf, Some pos)
  | None =>
    let depth := s_depth st in
    let bullet := last marker 0%Z in
    let st1 := set_cursor st (mend m + 1) in
    do (st2, rf2, items, tight, brk) <- items_loop h (S (length src)) bullet (group_n src m 1, marker, text) st1 rf [] true;
    let tok := tighten (BList items tight bullet depth ordered (if ordered && negb (start =? 1)%Z then Some start else None)) in
    match brk with
    | Some (idx, e) => Ok (set_tokens st2 (insert_at (s_tokens st2) idx tok), rf2, Some e)
    | None => Ok (append_token st2 tok, rf2, Some (s_cursor st2))
    end
  end.

(* ---- the handlers of one nesting level ---- *)
Definition handle_with (h : bhandler) (rk : brule) (m : mresult) (st : bstate) (rf : refs) : res bres :=
  let src := s_src st in
  match rk with
  | RBlankLine => Ok (append_token st BBlank, rf, Some (mend m))
  | RThematic => Ok (append_token st BThematic, rf, Some (mend m + 1))
  | RIndent =>
    match append_paragraph st with
    | Some (st', pos) => Ok (st', rf, Some pos)
    | None =>
      let code := strip_chars [10%Z] (sub_del (b_indent_code_trim C) (expand_leading_tab (group0 src m) 4)) in
      Ok (append_token st (BCode code false [] None), rf, Some (mend m))
    end
  | RFenced => Ok (handle_fenced m st rf)
  | RAtx =>
    let level := length (group_n src m 1) in
    let text := strip_ws (group_n src m 2) in
    let text := match text with [] => text | _ => sub_del (b_atx_trim C) text end in
    Ok (append_token st (BHeading text level false), rf, Some (mend m + 1))
  | RSetex =>
    match last_is_paragraph st with
    | Some (before, t) =>
      let level := if str_eqb (group_n src m 1) [61%Z] then 1 else 2 in
      Ok (set_tokens st (before ++ [BHeading t level true]), rf, Some (mend m + 1))
    | None =>
      (* at the nesting limit the list rule is not tried (lists were removed from the rules there) *)
      match bmatch_rules (named (if Nat.leb (b_max_nested C) (s_depth st) then [RThematic] else [RThematic; RList])) src (s_cursor st) with
      | Some (rk2, m2) => h rk2 m2 st rf
      | None => Ok (st, rf, None)
      end
    end
  | RRefLink => handle_ref_link m st rf
  | RQuote => handle_quote h m st rf
  | RList => handle_list h m st rf
  | RRawHtml | RBlockHtml => Ok (handle_html m st rf)
  | RListItem => Exn
  end.

(* the nesting budget: when it is used up the model answers Exn, the counterpart of CPython's RecursionError
   (the implementation really recurses once per nested or interrupting block: known finding C01) *)
Fixpoint bhandle (fuel : nat) : bhandler :=
  match fuel with
  | O => fun _ _ _ _ => Exn
  | S f => handle_with (bhandle f)
  end.

(* BlockParser.parse(state) on a fresh top-level state *)
Definition block_parse (s : str) : res (list btok * refs) :=
  let st := {| s_src := s; s_cursor := 0; s_tokens := []; s_depth := 0 |} in
  do (st2, rf) <- parse_loop (bhandle (length s + 2 * b_max_nested C + 6)) (S (length s)) (b_rules C) st [];
  Ok (s_tokens st2, rf).
End Block.
