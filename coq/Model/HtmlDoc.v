(* HtmlDoc.v — HTMLRenderer applied to the core AST (BaseRenderer.render_tokens / HTMLRenderer.render_token):
   every token is rendered by the template regenerated from its render method, with the token's raw text or its rendered
   children as first argument and its attrs as keyword arguments. *)
From Coq Require Import ZArith List Bool Lia.
From Verif Require Import PyStr Util Tmpl TmplGen Inline Block Doc.
Import ListNotations.
Open Scope Z_scope.

Section Html.
Variable E : renv.
Variable ops : list esc_op.
Variable xt : str -> template.     (* the render function a plugin registered for its token type *)

Definition rt (t : template) (vals : list pv) : str := render E ops t vals.
Definition popt (o : option str) : pv := match o with Some s => PStr s | None => PNone end.

(* the arguments a token hands to its render method *)
Definition tok_args (children : str) (t : tok) : template * list pv :=
  match t with
  | TText raw => (tmpl_html_text, [PStr raw])
  | TCodespan raw => (tmpl_html_codespan, [PStr raw])
  | TInlineHtml raw => (tmpl_html_inline_html, [PStr raw])
  | TLinebreak => (tmpl_html_linebreak, [])
  | TSoftbreak => (tmpl_html_softbreak, [])
  | TEmphasis _ => (tmpl_html_emphasis, [PStr children])
  | TStrong _ => (tmpl_html_strong, [PStr children])
  | TLink img _ url title _ _ => ((if img then tmpl_html_image else tmpl_html_link), [PStr children; PStr url; popt title])
  | TExt name _ => (xt name, [PStr children])
  end.

Fixpoint html_tok (t : tok) : str :=
  let children := match t with
                  | TEmphasis ch | TStrong ch | TLink _ ch _ _ _ _ | TExt _ ch => flat_map html_tok ch
                  | _ => []
                  end in
  let '(tm, vals) := tok_args children t in rt tm vals.

Definition html_toks (l : list tok) : str := flat_map html_tok l.

Definition node_args (children : str) (n : node) : template * list pv :=
  match n with
  | NBlank => (tmpl_html_blank_line, [])
  | NThematic => (tmpl_html_thematic_break, [])
  | NCode raw _ _ info => (tmpl_html_block_code, [PStr raw; popt info])
  | NHeading _ level _ => (tmpl_html_heading, [PStr children; PInt (Z.of_nat level); PNone])
  | NParagraph _ => (tmpl_html_paragraph, [PStr children])
  | NBlockText _ => (tmpl_html_block_text, [PStr children])
  | NQuote _ => (tmpl_html_block_quote, [PStr children])
  | NList _ _ _ _ ordered start => (tmpl_html_list, [PStr children; PBool ordered; match start with Some z => PInt z | None => PNone end])
  | NListItem _ => (tmpl_html_list_item, [PStr children])
  | NHtml raw => (tmpl_html_block_html, [PStr raw])
  end.

Fixpoint html_node (n : node) : str :=
  let children := match n with
                  | NHeading ch _ _ | NParagraph ch | NBlockText ch => html_toks ch
                  | NQuote ch | NListItem ch => flat_map html_node ch
                  | NList items _ _ _ _ _ => flat_map html_node items
                  | _ => []
                  end in
  let '(tm, vals) := node_args children n in rt tm vals.

Definition html_doc (ns : list node) : str := flat_map html_node ns.
End Html.
