(* RefLinks.v — the reference-definition table: BlockParser.parse_ref_link's store
   ("if key not in state.env['ref_links']"), the lookup in InlineParser.parse_link, and the
   two-pass structure of Markdown.parse (whole block pass, then inline pass with the final env). *)
From Coq Require Import ZArith List Bool Lia.
From Verif Require Import PyStr Util.
Import ListNotations.

Record linkdef := { ld_label : str; ld_url : str; ld_title : option str }.
Definition table := list (str * linkdef).     (* key -> data, in insertion order *)

Section Ref.
Variable key_of : str -> str.                 (* unikey *)

Fixpoint tget (t : table) (k : str) : option linkdef :=
  match t with [] => None | (k', d) :: t' => if str_eqb k k' then Some d else tget t' k end.

(* parse_ref_link: key = unikey(label); empty key is not a definition; first definition wins *)
Definition add_def (t : table) (d : linkdef) : table :=
  let k := key_of (ld_label d) in
  match k with
  | [] => t
  | _ => match tget t k with Some _ => t | None => t ++ [(k, d)] end
  end.

(* the block pass meets the definitions in document order, wherever they are nested (child states share env) *)
Definition collect (defs : list linkdef) : table := fold_left add_def defs [].

(* parse_link's lookup: ref_links.get(unikey(label)) *)
Definition resolve (t : table) (label : str) : option linkdef := tget t (key_of label).

(* Markdown.parse: block pass over the whole document first, then every inline run is parsed with
   the final table.  [uses] are the labels met by the inline pass, in any order/place. *)
Definition resolve_all (defs : list linkdef) (uses : list str) : list (option linkdef) :=
  map (resolve (collect defs)) uses.
End Ref.
