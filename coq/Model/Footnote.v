(* Footnote.v — model of the numbering mechanism of src/mistune/plugins/footnotes.py.
   [h] is the history of inline footnote references in traversal order (normalised keys),
   [defined] tells which keys were collected by the block rule.  Mirrors
   parse_inline_footnote (numbering) and md_footnotes_hook (emission). *)
From Coq Require Import ZArith List Bool Lia.
From Verif Require Import PyStr.
Import ListNotations.

Section Footnotes.
Variable key : Type.
Variable keqb : key -> key -> bool.

Fixpoint kmem (k : key) (l : list key) : bool :=
  match l with [] => false | x :: l' => keqb k x || kmem k l' end.

(* notes.index(key), 0-based *)
Fixpoint kindex (k : key) (l : list key) : nat :=
  match l with [] => O | x :: l' => if keqb k x then O else S (kindex k l') end.

(* one reference: returns (token, notes') ; token = Some index for a footnote_ref, None for literal text *)
Definition ref_step (defined : key -> bool) (notes : list key) (k : key) : option nat * list key :=
  if defined k then
    let notes' := if kmem k notes then notes else notes ++ [k] in
    (Some (S (kindex k notes')), notes')
  else (None, notes).

Fixpoint run_refs (defined : key -> bool) (notes : list key) (h : list key) : list (option nat) * list key :=
  match h with
  | [] => ([], notes)
  | k :: h' =>
    let (t, notes1) := ref_step defined notes k in
    let (ts, notes2) := run_refs defined notes1 h' in
    (t :: ts, notes2)
  end.

(* md_footnotes_hook: one section iff notes is non-empty; items = enumerate(notes, 1) *)
Fixpoint enumerate1 (n : nat) (l : list key) : list (nat * key) :=
  match l with [] => [] | x :: l' => (n, x) :: enumerate1 (S n) l' end.

Definition emitted_items (notes : list key) : list (nat * key) := enumerate1 1 notes.
Definition sections (notes : list key) : nat := match notes with [] => 0 | _ => 1 end.
End Footnotes.

(* ids and link targets: literal prefixes regenerated from the render functions *)
Record fn_strings := {
  fs_ref_id : str;     (* fnref-   : id of the <sup> *)
  fs_ref_href : str;   (* #fn-     : href of the reference *)
  fs_item_id : str;    (* fn-      : id of the <li> *)
  fs_item_back : str   (* #fnref-  : href of the back link *)
}.
