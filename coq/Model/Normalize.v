(* Normalize.v — the prefix of Markdown.parse that canonicalises line endings,
   and Markdown.__call__'s treatment of None.  The op list actually used comes from
   Gen/NormalizeGen.v (regenerated from /repo/src/mistune/markdown.py on every run). *)
From Coq Require Import ZArith List Bool Lia.
From Verif Require Import PyStr.
Import ListNotations.
Open Scope Z_scope.

Inductive norm_op : Type :=
| NReplace (old new : str)      (* s = s.replace(old, new) *)
| NEnsureSuffix (suffix : str). (* if not s.endswith(suffix): s += suffix *)

Definition run_op (o : norm_op) (s : str) : str :=
  match o with
  | NReplace old new => replace old new s
  | NEnsureSuffix suf => if endswith s suf then s else s ++ suf
  end.

Definition run_ops (ops : list norm_op) (s : str) : str :=
  fold_left (fun acc o => run_op o acc) ops s.

(* what the pinned source does *)
Definition canonical_ops : list norm_op :=
  [NReplace [cCR; cLF] [cLF]; NReplace [cCR] [cLF]; NEnsureSuffix [cLF]].

Definition norm (s : str) : str := run_ops canonical_ops s.

(* Markdown.__call__: None is replaced by [none_value] before parse *)
Definition call_input (none_value : str) (s : option str) : str :=
  match s with None => none_value | Some x => x end.
