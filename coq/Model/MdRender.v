(* MdRender.v — pieces of the Markdown renderer (renderers/markdown.py). *)
From Coq Require Import ZArith List Bool Lia.
From Verif Require Import PyStr.
Import ListNotations.
Local Open Scope nat_scope.

(* _get_fenced_marker: [found] = the runs matched by ^[`~]+ in the code, as (is_backtick, length) *)
Definition fenced_marker (found : list (bool * nat)) : bool * nat :=
  let ticks := map snd (List.filter (fun x => fst x) found) in
  let waves := map snd (List.filter (fun x => negb (fst x)) found) in
  match found with
  | [] => (true, 3)
  | _ =>
    match ticks with
    | [] => (true, 3)
    | _ => match waves with
           | [] => (false, 3)
           | _ => (true, S (fold_right Nat.max 0 ticks))
           end
    end
  end.
