(* CodeSpan.v — InlineParser.parse_codespan's post-processing of the matched content. *)
From Coq Require Import ZArith List Bool Lia.
From Verif Require Import PyStr Util.
Import ListNotations.
Open Scope Z_scope.

(* code = code.replace("\n", " "); if len(code.strip()): if code.startswith(" ") and code.endswith(" "): code = code[1:-1] *)
Definition codespan_text (T : tables) (c : str) : str :=
  let c1 := replace [10] [32] c in
  match strip_p (is_ws T) c1 with
  | [] => c1
  | _ => if startswith c1 [32] && endswith c1 [32] then slice c1 1 (length c1 - 1) else c1
  end.
