(* MdDoc.v — MarkdownRenderer applied to the core AST (renderers/markdown.py and renderers/_list.py): every render
   method as a function of the token, the list renderer with its per-item line reassembly, the line-by-line prefix for quotes,
   the reference definitions appended by __call__.  The control skeletons with constants of all these functions are
   compared on every run (MdRenderGen); the patterns are regenerated (RxGen).  Definitions only. *)
From Coq Require Import ZArith List Bool Lia.
From Verif Require Import PyStr Rx RxSub Inline Block Doc MdRender.
Import ListNotations.
Open Scope Z_scope.

(* str.splitlines(keepends=True) *)
Fixpoint splitlines_keep_aux (s : str) (cur : str) : list str :=
  match s with
  | [] => match cur with [] => [] | _ => [rev cur] end
  | c :: r =>
    if (c =? 13)%Z then
      match r with
      | c2 :: r' => if (c2 =? 10)%Z then rev (c2 :: c :: cur) :: splitlines_keep_aux r' [] else rev (c :: cur) :: splitlines_keep_aux r []
      | [] => [rev (c :: cur)]
      end
    else if is_linesep c then rev (c :: cur) :: splitlines_keep_aux r [] else splitlines_keep_aux r (c :: cur)
  end.
Definition splitlines_keep (s : str) : list str := splitlines_keep_aux s [].

(* text.split("\n") without the empty piece behind a final line feed (_render_list_item): only a line feed ends a line *)
Fixpoint lines_lf_aux (s : str) (cur : str) : list str :=
  match s with
  | [] => match cur with [] => [] | _ => [rev cur] end
  | c :: r => if (c =? 10)%Z then rev cur :: lines_lf_aux r [] else lines_lf_aux r (c :: cur)
  end.
Definition lines_lf (s : str) : list str := lines_lf_aux s [].

(* _line_re.findall(text), _line_re = [^\n]*\n|[^\n]+ : the lines with their line feeds *)
Fixpoint lines_lf_keep_aux (s : str) (cur : str) : list str :=
  match s with
  | [] => match cur with [] => [] | _ => [rev cur] end
  | c :: r => if (c =? 10)%Z then rev (c :: cur) :: lines_lf_keep_aux r [] else lines_lf_keep_aux r (c :: cur)
  end.
Definition lines_lf_keep (s : str) : list str := lines_lf_keep_aux s [].

(* "".join("> " + line for line in _line_re.findall(text)) *)
Definition indent_all (prefix text : str) : str := flat_map (fun line => prefix ++ line) (lines_lf_keep text).

Section Md.
Variable U : uni.
Variable quote_end : rx.      (* renderers.markdown._quote_end_re *)
Variable strip_end_rx : rx.   (* util._strip_end_re *)

Definition md_strip_end (s : str) : str := re_sub U strip_end_rx (rep_of (RConst [10])) s.

(* pattern.sub('', s, 1): the leftmost match only *)
Definition sub_once_del (r : rx) (s : str) : str :=
  match re_search U r s 0 (length s) with
  | Some m => firstn (fst (fst m)) s ++ skipn (snd (fst m)) s
  | None => s
  end.

Definition nonempty (s : str) : bool := match s with [] => false | _ => true end.
Definition opt_nonempty (o : option str) : bool := match o with Some (_ :: _) => true | _ => false end.
Definition s_mailto : str := [109; 97; 105; 108; 116; 111; 58].

(* MarkdownRenderer.link on the rendered children *)
Definition md_link (text url : str) (title : option str) (label : option str) : str :=
  let out := [91] ++ text ++ [93] in
  if opt_nonempty label then out ++ [91] ++ (match label with Some l => l | None => [] end) ++ [93]
  else if (str_eqb text url || str_eqb (s_mailto ++ text) url) && negb (opt_nonempty title) then [60] ++ text ++ [62]
  else
    out ++ [40] ++ (if memc 40 url || memc 41 url then [60] ++ url ++ [62] else url)
        ++ (match title with Some ((_ :: _) as t) => [32; 34] ++ t ++ [34] | _ => [] end) ++ [41].

Fixpoint md_tok (t : tok) : str :=
  match t with
  | TText raw | TInlineHtml raw => raw
  | TCodespan raw => [96] ++ raw ++ [96]
  | TLinebreak => [32; 32; 10]
  | TSoftbreak => [10]
  | TEmphasis ch => [42] ++ flat_map md_tok ch ++ [42]
  | TStrong ch => [42; 42] ++ flat_map md_tok ch ++ [42; 42]
  | TLink img ch url title _ ref =>
    (if img then [33] else []) ++ md_link (flat_map md_tok ch) url title (match ref with Some (_, l) => Some l | None => None end)
  | TExt _ _ => []     (* no method for plugin tokens: the model is used for the core configuration only *)
  end.
Definition md_toks (l : list tok) : str := flat_map md_tok l.

(* _get_fenced_marker *)
Fixpoint fence_prefix (s : str) : str :=
  match s with c :: r => if (c =? 96) || (c =? 126) then c :: fence_prefix r else [] | [] => [] end.
Definition found_runs (code : str) : list (bool * nat) :=
  flat_map (fun line => match fence_prefix line with [] => [] | c :: r => [((c =? 96), S (length r))] end) (split_char 10 code).
Definition get_fenced_marker (code : str) : str :=
  let '(tick, n) := fenced_marker (found_runs code) in repeat (if tick then 96 else 126) n.

(* _render_list_item: the rendered children of an item, reassembled line by line behind the marker *)
Definition item_text (leading text : str) : str :=
  let lines := lines_lf text in
  let first := match lines with l :: _ => l | [] => [] end in
  let prefix := repeat 32 (length leading) in
  leading ++ first ++ [10] ++ flat_map (fun line => match line with [] => [10] | _ => prefix ++ line ++ [10] end) (tl lines).

(* _render_ordered_list / _render_unordered_list *)
Definition md_items (body : node -> str) (ordered : bool) (bullet : Z) : Z -> list node -> str :=
  fix go (k : Z) (its : list node) {struct its} : str :=
    match its with
    | [] => []
    | it :: r => item_text ((if ordered then str_of_Z k ++ [bullet] else [bullet]) ++ [32]) (body it) ++ go (k + 1) r
    end.

Fixpoint md_node (par : option bool) (n : node) : str :=
  match n with
  | NBlank => []
  | NThematic => [42; 42; 42; 10; 10]
  | NCode raw fenced marker info =>
    let code := if nonempty raw && negb (last raw 0 =? 10) then raw ++ [10] else raw in
    let mk := if nonempty marker then marker else get_fenced_marker code in
    mk ++ (match info with Some i => i | None => [] end) ++ [10] ++ code ++ mk ++ [10; 10]
  | NHeading ch level _ => repeat 35 level ++ [32] ++ md_toks ch ++ [10; 10]
  | NParagraph ch => md_toks ch ++ [10; 10]
  | NBlockText ch => md_toks ch ++ [10]
  | NQuote ch => sub_once_del quote_end (indent_all [62; 32] (flat_map (md_node None) ch)) ++ [10; 10]
  | NHtml raw => raw ++ [10; 10]
  | NListItem ch => flat_map (md_node None) ch      (* items are rendered by their list *)
  | NList items tight bullet _ ordered start =>
    let body (it : node) : str :=
        match it with
        | NListItem ch => flat_map (fun c => match c with
                                             | NList _ _ _ _ _ _ => md_node (Some tight) c
                                             | NBlank => []
                                             | _ => md_node None c end) ch
        | other => md_node None other
        end in
    let text := md_items body ordered bullet (match start with Some z => z | None => 1 end) items in
    match par with
    | Some true => text
    | Some false => text ++ [10]
    | None => md_strip_end text ++ [10]
    end
  end.

Definition ref_line (e : str * (str * str * option str)) : str :=
  let '(_, (url, label, title)) := e in
  [91] ++ label ++ [93; 58; 32] ++ url ++ (match title with Some ((_ :: _) as t) => [32; 34] ++ t ++ [34] | _ => [] end).

(* MarkdownRenderer.__call__ *)
Definition md_doc (ast : list node) (rf : refs) : str :=
  md_strip_end (flat_map (md_node None) ast ++ join [10; 10] (map ref_line rf) ++ [10]).
End Md.
