(* RstDoc.v — RSTRenderer applied to the core AST (renderers/rst.py and renderers/_list.py): every render method as a
   function of the token, the list of inline images collected in state.env['inline_images'] and printed as substitution
   definitions by __call__, the `prev` token that iter_tokens hands to block_quote, the module's indent with its
   predicate, the in-band hard-break marker that paragraph splits on.  The control skeletons with constants of all these
   functions are compared on every run (RstRenderGen); the pattern of strip_end is regenerated (RxGen).  Definitions only. *)
From Coq Require Import ZArith List Bool Lia.
From Verif Require Import PyStr Rx RxSub Inline Block Doc MdDoc.
Import ListNotations.
Open Scope Z_scope.

(* renderers.rst.indent(text, prefix): the prefix goes before every line (ended by a line feed only) that is not white space only *)
Definition indent_text (ws : Z -> bool) (prefix text : str) : str :=
  flat_map (fun line => if forallb ws line then line else prefix ++ line) (lines_lf_keep text).

Definition s_linebreak : str := [60; 108; 105; 110; 101; 98; 114; 101; 97; 107; 62].     (* "<linebreak>" *)
Definition s_img : str := [105; 109; 103; 45].                                            (* INLINE_IMAGE_PREFIX "img-" *)
Definition s3 : str := [32; 32; 32].

(* HEADING_MARKERS *)
Definition heading_marker (level : nat) : option Z :=
  match level with
  | 1%nat => Some 61 | 2%nat => Some 45 | 3%nat => Some 126 | 4%nat => Some 94 | 5%nat => Some 34 | 6%nat => Some 39
  | _ => None
  end.

Section Rst.
Variable U : uni.
Variable ws : Z -> bool.      (* str.isspace *)
Variable strip_end_rx : rx.   (* util._strip_end_re *)

Definition rst_strip_end (s : str) : str := re_sub U strip_end_rx (rep_of (RConst [10])) s.
Definition indent3 (text : str) : str := indent_text ws s3 text.

(* the inline render methods; [imgs] is state.env['inline_images'] *)
Fixpoint rst_tok (t : tok) (imgs : list tok) {struct t} : str * list tok :=
  let toks := fix go (l : list tok) (imgs : list tok) {struct l} : str * list tok :=
                match l with
                | [] => ([], imgs)
                | x :: r => let '(a, i1) := rst_tok x imgs in let '(b, i2) := go r i1 in (a ++ b, i2)
                end in
  match t with
  | TText raw => (replace [124] [92; 124] raw, imgs)
  | TInlineHtml _ => ([], imgs)
  | TCodespan raw => ([96; 96] ++ raw ++ [96; 96], imgs)
  | TLinebreak => (s_linebreak, imgs)
  | TSoftbreak => ([32], imgs)
  | TEmphasis ch => let '(s, i) := toks ch imgs in ([42] ++ s ++ [42], i)
  | TStrong ch => let '(s, i) := toks ch imgs in ([42; 42] ++ s ++ [42; 42], i)
  | TLink false ch url _ _ _ => let '(s, i) := toks ch imgs in ([96] ++ s ++ [32; 60] ++ url ++ [62; 96; 95; 95], i)
  | TLink true _ _ _ _ _ => ([124] ++ s_img ++ str_of_nat (length imgs) ++ [124], imgs ++ [t])
  | TExt _ _ => ([], imgs)     (* no method for plugin tokens: excluded by rst_ok *)
  end.
Fixpoint rst_toks (l : list tok) (imgs : list tok) : str * list tok :=
  match l with
  | [] => ([], imgs)
  | x :: r => let '(a, i1) := rst_tok x imgs in let '(b, i2) := rst_toks r i1 in (a ++ b, i2)
  end.

(* RSTRenderer.paragraph, the branch for anything but a single image *)
Definition rst_paragraph_plain (ch : list tok) (imgs : list tok) : str * list tok :=
  let '(text, i) := rst_toks ch imgs in
  ((match find text s_linebreak 0 with
    | Some _ => [124; 32] ++ replace s_linebreak [10; 124; 32] text      (* "\n".join("| " + line for line in text.split(marker)) *)
    | None => text
    end) ++ [10; 10], i).

(* RSTRenderer.paragraph *)
Definition rst_paragraph (ch : list tok) (imgs : list tok) : str * list tok :=
  match ch with
  | [TLink true alt_ch url title _ _] =>
    let '(alt, i) := rst_toks alt_ch imgs in
    ([46; 46; 32; 102; 105; 103; 117; 114; 101; 58; 58; 32] ++ url
       ++ (match title with Some ((_ :: _) as t) => [10; 32; 32; 32; 58; 97; 108; 116; 58; 32] ++ t | _ => [] end)
       ++ [10; 10] ++ indent3 alt ++ [10; 10], i)
  | _ => rst_paragraph_plain ch imgs
  end.

Definition is_ignore_block (n : node) : bool :=
  match n with NParagraph _ | NThematic | NHeading _ _ _ => true | _ => false end.

(* one item of _render_ordered_list / _render_unordered_list, threading the image list *)
Definition rst_items (body : node -> list tok -> str * list tok) (ordered : bool) (bullet : Z)
  : Z -> list node -> list tok -> str * list tok :=
  fix go (k : Z) (its : list node) (imgs : list tok) {struct its} : str * list tok :=
    match its with
    | [] => ([], imgs)
    | it :: r =>
      let '(b, i1) := body it imgs in
      let '(rest, i2) := go (k + 1) r i1 in
      (item_text ((if ordered then str_of_Z k ++ [bullet] else [bullet]) ++ [32]) b ++ rest, i2)
    end.

(* render_token on a block token.  [prev] is token.get('prev'): set by iter_tokens (top level and quote children only);
   [par] is token.get('parent') of a list directly inside a list item *)
Fixpoint rst_node (prev : option node) (par : option bool) (n : node) (imgs : list tok) {struct n} : str * list tok :=
  let seq := fix go (prev : option node) (l : list node) (imgs : list tok) {struct l} : str * list tok :=   (* iter_tokens *)
               match l with
               | [] => ([], imgs)
               | NBlank :: r => go prev r imgs
               | x :: r => let '(a, i1) := rst_node prev None x imgs in let '(b, i2) := go (Some x) r i1 in (a ++ b, i2)
               end in
  match n with
  | NBlank => ([], imgs)
  | NThematic => (repeat 45 14 ++ [10; 10], imgs)
  | NCode raw _ _ info =>
    let code := indent3 raw in
    (match info with
     | Some ((_ :: _) as i) =>
       [46; 46; 32; 99; 111; 100; 101; 58; 58; 32] ++ (match split_ws ws i with w :: _ => w | [] => [] end) ++ [10; 10] ++ code ++ [10]
     | _ => [58; 58; 10; 10] ++ code ++ [10; 10]
     end, imgs)
  | NHeading ch level _ =>
    let '(text, i) := rst_toks ch imgs in
    (text ++ [10] ++ repeat (match heading_marker level with Some m => m | None => 0 end) (length text) ++ [10; 10], i)
  | NParagraph ch => rst_paragraph ch imgs
  | NBlockText ch => let '(text, i) := rst_toks ch imgs in (text ++ [10], i)
  | NQuote ch =>
    let '(inner, i) := seq None ch imgs in
    let text := indent3 inner in
    (match prev with
     | Some p => if is_ignore_block p then text else [46; 46; 10; 10] ++ text
     | None => text
     end, i)
  | NHtml raw => ([46; 46; 32; 114; 97; 119; 58; 58; 32; 104; 116; 109; 108; 10; 10] ++ indent3 raw ++ [10; 10], imgs)
  | NListItem ch => seq None ch imgs      (* items are rendered by their list *)
  | NList items tight bullet _ ordered start =>
    let body (it : node) (imgs : list tok) : str * list tok :=
        match it with
        | NListItem ch =>
          (fix go (l : list node) (imgs : list tok) {struct l} : str * list tok :=
             match l with
             | [] => ([], imgs)
             | c :: r =>
               let '(a, i1) := match c with
                               | NList _ _ _ _ _ _ => rst_node None (Some tight) c imgs
                               | NBlank => ([], imgs)
                               | _ => rst_node None None c imgs
                               end in
               let '(b, i2) := go r i1 in (a ++ b, i2)
             end) ch imgs
        | other => rst_node None None other imgs
        end in
    let '(text, i) := rst_items body ordered bullet (match start with Some z => z | None => 1 end) items imgs in
    (match par with
     | Some true => text
     | Some false => text ++ [10]
     | None => rst_strip_end text ++ [10]
     end, i)
  end.

(* RSTRenderer.iter_tokens over a list of block tokens *)
Fixpoint rst_nodes (prev : option node) (l : list node) (imgs : list tok) : str * list tok :=
  match l with
  | [] => ([], imgs)
  | NBlank :: r => rst_nodes prev r imgs
  | x :: r => let '(a, i1) := rst_node prev None x imgs in let '(b, i2) := rst_nodes (Some x) r i1 in (a ++ b, i2)
  end.

(* render_referrences: the list may grow while it is walked (an image inside the alternative text of an image) *)
Fixpoint rst_refs (fuel : nat) (index : nat) (imgs : list tok) : option (list str) :=
  match fuel with
  | O => None
  | S f =>
    match nth_error imgs index with
    | None => Some []
    | Some (TLink _ ch url _ _ _) =>
      let '(alt, imgs') := rst_toks ch imgs in
      match rst_refs f (S index) imgs' with
      | Some rest =>
        Some (([46; 46; 32; 124] ++ s_img ++ str_of_nat index ++ [124; 32; 105; 109; 97; 103; 101; 58; 58; 32] ++ url
                ++ [10; 32; 32; 32; 58; 97; 108; 116; 58; 32] ++ alt) :: rest)
      | None => None
      end
    | Some _ => None
    end
  end.

(* what makes the renderer raise: a token without a render method (plugin tokens), a heading level outside HEADING_MARKERS,
   an info string of white space only (info.split()[0]) *)
Fixpoint tok_ok (t : tok) : bool :=
  match t with
  | TEmphasis ch | TStrong ch | TLink _ ch _ _ _ _ => forallb tok_ok ch
  | TExt _ _ => false
  | _ => true
  end.
Fixpoint node_ok (n : node) : bool :=
  match n with
  | NHeading ch level _ => forallb tok_ok ch && (match heading_marker level with Some _ => true | None => false end)
  | NParagraph ch | NBlockText ch => forallb tok_ok ch
  | NCode _ _ _ (Some ((_ :: _) as i)) => match split_ws ws i with [] => false | _ => true end
  | NQuote ch | NListItem ch => forallb node_ok ch
  | NList items _ _ _ _ _ => forallb node_ok items
  | _ => true
  end.

Fixpoint tok_size (t : tok) : nat :=
  match t with
  | TEmphasis ch | TStrong ch | TLink _ ch _ _ _ _ | TExt _ ch => S (fold_right (fun c a => (tok_size c + a)%nat) O ch)
  | _ => 1%nat
  end.

(* RSTRenderer.__call__ ; None = the renderer raises *)
Definition rst_doc (ast : list node) : option str :=
  if forallb node_ok ast then
    let '(out, imgs) := rst_nodes None ast [] in
    match rst_refs (S (fold_right (fun c a => (tok_size c + a)%nat) O imgs)) 0 imgs with
    | Some refs => Some (rst_strip_end (out ++ join [10; 10] refs ++ [10]))
    | None => None
    end
  else None.
End Rst.
