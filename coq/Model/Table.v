(* Table.v — the table plugin (plugins/table.py): parse_table, parse_nptable, _process_thead, _process_row as functions
   of the text a table pattern matched.  The patterns are regenerated (RxGen); the control skeletons with constants of
   the four functions are compared on every run (TableGen).  Definitions only. *)
From Coq Require Import ZArith List Bool Lia.
From Verif Require Import PyStr Rx RxSub.
Import ListNotations.
Local Open Scope nat_scope.

Inductive align := ACenter | ALeft | ARight | ANoAlign.
Record cell := { c_text : str; c_align : align; c_head : bool }.

Record tcfg := {
  t_uni : uni;
  t_table : rx; t_nptable : rx;           (* TABLE_PATTERN, NP_TABLE_PATTERN: groups 1 head, 2 align, 3 body *)
  t_table_cell : rx; t_cell_split : rx;
  t_center : rx; t_left : rx; t_right : rx;
  t_is_ws : Z -> bool                      (* str.strip() *)
}.

Section Table.
Variable C : tcfg.
Let U := t_uni C.

Definition tmatch (r : rx) (s : str) : option mresult := re_match U r s 0 (length s).
Definition tgroup (s : str) (m : mresult) (g : nat) : str :=
  match cap_get (snd m) g with Some (a, b) => slice s a b | None => [] end.
Definition matches (r : rx) (s : str) : bool := match tmatch r s with Some _ => true | None => false end.

Definition align_of (v : str) : align :=
  if matches (t_center C) v then ACenter
  else if matches (t_left C) v then ALeft
  else if matches (t_right C) v then ARight
  else ANoAlign.

Definition cells_of (head : bool) (texts : list str) (aligns : list align) : list cell :=
  map (fun ta : str * align => {| c_text := strip_p (t_is_ws C) (fst ta); c_align := snd ta; c_head := head |}) (combine texts aligns).

(* _process_thead *)
Definition process_thead (header align_s : str) : option (list cell * list align) :=
  let headers := re_split U (t_cell_split C) header in
  let als := re_split U (t_cell_split C) align_s in
  if negb (Nat.eqb (length headers) (length als)) then None
  else let aligns := map align_of als in Some (cells_of true headers aligns, aligns).

(* _process_row *)
Definition process_row (text : str) (aligns : list align) : option (list cell) :=
  let cells := re_split U (t_cell_split C) text in
  if negb (Nat.eqb (length cells) (length aligns)) then None else Some (cells_of false cells aligns).

Fixpoint all_rows (f : str -> option (list cell)) (lines : list str) : option (list (list cell)) :=
  match lines with
  | [] => Some []
  | l :: ls => match f l with
               | None => None
               | Some row => match all_rows f ls with Some rows => Some (row :: rows) | None => None end
               end
  end.

(* the token a handler appends, and the position it returns; None: the handler returns None (no table here) *)
Definition table_result := option (list cell * list (list cell) * nat).

(* parse_table(block, m, state) for m = TABLE_PATTERN.match(src) *)
Definition parse_table (src : str) (m : mresult) : table_result :=
  match process_thead (tgroup src m 1) (tgroup src m 2) with
  | None => None
  | Some (thead, aligns) =>
    let row_of (text : str) :=
        match tmatch (t_table_cell C) text with
        | None => None
        | Some m2 => process_row (tgroup text m2 1) aligns
        end in
    match all_rows row_of (splitlines (tgroup src m 3)) with
    | None => None
    | Some rows => Some (thead, rows, snd (fst m))
    end
  end.

(* parse_nptable *)
Definition parse_nptable (src : str) (m : mresult) : table_result :=
  match process_thead (tgroup src m 1) (tgroup src m 2) with
  | None => None
  | Some (thead, aligns) =>
    match all_rows (fun text => process_row text aligns) (splitlines (tgroup src m 3)) with
    | None => None
    | Some rows => Some (thead, rows, snd (fst m))
    end
  end.

(* the two rules on a text that starts at a table candidate *)
Definition table_at (np : bool) (src : str) : option table_result :=
  match tmatch (if np then t_nptable C else t_table C) src with
  | None => None
  | Some m => Some ((if np then parse_nptable else parse_table) src m)
  end.
End Table.
