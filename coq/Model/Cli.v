(* Cli.v — model of src/mistune/__main__.py: the argparse declarations (regenerated), the
   subset of argparse semantics they use, the option -> create_markdown mapping and the
   input / output channel selection.  The library itself is a parameter. *)
From Coq Require Import ZArith List Bool Lia.
From Verif Require Import PyStr.
Import ListNotations.
Open Scope Z_scope.

Inductive action := AStore | AStoreTrue | AExtend | AVersion.

(* parsed namespace: dest -> value *)
Inductive aval := VS (s : str) | VB (b : bool) | VL (l : list str).

Record opt_decl := {
  od_flags : list str;          (* the option strings, short and long *)
  od_dest : str;
  od_action : action;
  od_default : option aval      (* None = no default given *)
}.
Definition ns := list (str * aval).

Fixpoint ns_get (n : ns) (k : str) : option aval :=
  match n with [] => None | (k', v) :: n' => if str_eqb k k' then Some v else ns_get n' k end.
Definition ns_set (n : ns) (k : str) (v : aval) : ns :=
  (k, v) :: filter (fun p => negb (str_eqb k (fst p))) n.

Definition find_decl (decls : list opt_decl) (flag : str) : option opt_decl :=
  List.find (fun d => existsb (str_eqb flag) (od_flags d)) decls.

Definition is_flag (s : str) : bool := match s with 45 :: _ :: _ => true | _ => false end.

(* values of an nargs='+' option: following arguments up to the next flag *)
Fixpoint take_values (argv : list str) : list str * list str :=
  match argv with
  | [] => ([], [])
  | a :: rest => if is_flag a then ([], argv) else let (vs, r) := take_values rest in (a :: vs, r)
  end.

Inductive parse_result := POk (n : ns) | PVersion | PError.

Fixpoint parse_args (decls : list opt_decl) (fuel : nat) (argv : list str) (n : ns) : parse_result :=
  match fuel with
  | O => PError
  | S fuel' =>
    match argv with
    | [] => POk n
    | a :: rest =>
      match find_decl decls a with
      | None => PError
      | Some d =>
        match od_action d with
        | AStoreTrue => parse_args decls fuel' rest (ns_set n (od_dest d) (VB true))
        | AVersion => PVersion
        | AStore =>
          match rest with
          | v :: rest' => if is_flag v then PError else parse_args decls fuel' rest' (ns_set n (od_dest d) (VS v))
          | [] => PError
          end
        | AExtend =>
          let (vs, rest') := take_values rest in
          match vs with
          | [] => PError
          | _ =>
            let old := match ns_get n (od_dest d) with Some (VL l) => l | _ => [] end in
            parse_args decls fuel' rest' (ns_set n (od_dest d) (VL (old ++ vs)))
          end
        end
      end
    end
  end.

(* initial namespace: defaults (store_true defaults to False; None otherwise) *)
Definition init_ns (decls : list opt_decl) : ns :=
  flat_map (fun d => match od_action d, od_default d with
                     | AStoreTrue, _ => [(od_dest d, VB false)]
                     | AVersion, _ => []
                     | _, Some v => [(od_dest d, v)]
                     | _, None => []
                     end) decls.

Definition parse_argv (decls : list opt_decl) (argv : list str) : parse_result :=
  parse_args decls (S (length argv)) argv (init_ns decls).

(* ---- _md(args) ---- *)
Record config := { c_escape : bool; c_hardwrap : bool; c_renderer : str; c_plugins : list str }.

Definition get_str (n : ns) (k : str) : option str := match ns_get n k with Some (VS s) => Some s | _ => None end.
Definition get_bool (n : ns) (k : str) : bool := match ns_get n k with Some (VB b) => b | _ => false end.
Definition get_list (n : ns) (k : str) : list str := match ns_get n k with Some (VL l) => l | _ => [] end.

Record cli_consts := {
  k_message : str; k_file : str; k_plugin : str; k_escape : str; k_hardwrap : str; k_output : str; k_renderer : str;
  k_default_plugins : list str;
  k_error_text : str
}.

Definition md_config (K : cli_consts) (n : ns) : config :=
  {| c_escape := get_bool n (k_escape K);
     c_hardwrap := get_bool n (k_hardwrap K);
     c_renderer := match get_str n (k_renderer K) with Some r => r | None => [] end;
     c_plugins := match get_list n (k_plugin K) with [] => k_default_plugins K | l => l end |}.

(* ---- cli() ---- *)
Definition truthy (s : option str) : bool := match s with Some (_ :: _) => true | _ => false end.

Inductive outcome :=
| OStdout (text : str)              (* print(text): text followed by a newline *)
| OFile (path : str) (text : str)   (* written verbatim *)
| OErrorExit (text : str)           (* message printed, exit status 1 *)
| OVersion | OUsage.

Section Cli.
Variable result : Type.
Variable lib_text : config -> str -> str.          (* create_markdown(cfg)(text) *)
Variable lib_file : config -> str -> option str.   (* create_markdown(cfg).read(path)[0]; None = cannot be read *)

Definition emit (n : ns) (K : cli_consts) (text : str) : outcome :=
  match get_str n (k_output K) with
  | Some (c :: p) => OFile (c :: p) text
  | _ => OStdout (text ++ [10])
  end.

(* [stdin] = Some text when stdin is a pipe, None when it is a tty *)
Definition cli (decls : list opt_decl) (K : cli_consts) (argv : list str) (stdin : option str) : outcome :=
  match parse_argv decls argv with
  | PError => OUsage
  | PVersion => OVersion
  | POk n =>
    let message0 := get_str n (k_message K) in
    let file := get_str n (k_file K) in
    let message := if negb (truthy message0) && negb (truthy file) then stdin else message0 in
    if truthy message then
      match message with Some m => emit n K (lib_text (md_config K n) m) | None => OUsage end
    else if truthy file then
      match file with
      | Some f => match lib_file (md_config K n) f with Some t => emit n K t | None => OUsage end
      | None => OUsage
      end
    else OErrorExit (k_error_text K)
  end.
End Cli.
