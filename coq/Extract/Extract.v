From Coq Require Import Extraction ExtrOcamlBasic.
From Verif Require Import Entry.
Extraction Language OCaml.
Extraction "model.ml" run.
