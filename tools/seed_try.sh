#!/bin/bash
# seed_try.sh <srcdir> <name> : confirm a candidate (tools/seed.sh confirm), then run the quick check of its property against it
# in an isolated copy (tools/seed_iso.sh) and remove the copy.  Prints the verdict line.
cd /verif
src="$1"; name="$2"
tools/seed.sh confirm "$src" "$name" | tail -2
[ -d seeded/$name ] || exit 1
SEED_ISO=/root/st_$name tools/seed_iso.sh quick "$name" 2>&1 | tail -1
cp /root/st_$name/seedrun_$name.log /root/logs/seedrun_$name.log 2>/dev/null
cp /root/st_$name/verif/replays/*.json /root/logs/ 2>/dev/null
rm -rf /root/st_$name
