"""Structure-directed pump generation: for every repeat node of a regular expression (as CPython's own parser sees it)
build prefix / unit / suffix strings such that prefix + unit*n drives the matcher into that repeat n times and the suffix
makes the continuation fail (or succeed).  Used by C07 to look for super-quadratic backtracking deterministically on the
step-counting model, and to derive documents that are then timed on the real converter."""
import re
import re._constants as C
import re._parser as P

SAFE = "a"


def _in_sample(av, avoid=()):
    neg = False
    lits, ranges, cats = [], [], []
    for o, a in av:
        if o is C.NEGATE:
            neg = True
        elif o is C.LITERAL:
            lits.append(a)
        elif o is C.RANGE:
            ranges.append(a)
        elif o is C.CATEGORY:
            cats.append(a)

    def member(ch):
        c = ord(ch)
        r = c in lits or any(lo <= c <= hi for lo, hi in ranges)
        for cat in cats:
            if cat is C.CATEGORY_SPACE:
                r = r or ch.isspace()
            elif cat is C.CATEGORY_NOT_SPACE:
                r = r or not ch.isspace()
            elif cat is C.CATEGORY_DIGIT:
                r = r or ch.isdigit()
            elif cat is C.CATEGORY_NOT_DIGIT:
                r = r or not ch.isdigit()
            elif cat is C.CATEGORY_WORD:
                r = r or ch.isalnum() or ch == "_"
            elif cat is C.CATEGORY_NOT_WORD:
                r = r or not (ch.isalnum() or ch == "_")
        return r != neg
    cands = [chr(c) for c in lits] + [chr(lo) for lo, _ in ranges] + list("a 1\n\\!-x_\t:|~^*[]()<>\"'`#=+.@/{}$&;")
    out = [ch for ch in cands if member(ch) and ch not in avoid]
    return out


def samples(sub, k=2):
    """up to k short strings matched by the sub-pattern (not exhaustive)"""
    outs = [""]
    for op, av in sub:
        if op is C.LITERAL:
            part = [chr(av)]
        elif op is C.NOT_LITERAL:
            part = [ch for ch in "a \\" if ord(ch) != av][:k]
        elif op is C.ANY:
            part = ["a", "\\", " "][:k]
        elif op is C.IN:
            part = _in_sample(av)[:max(k, 3)] or ["a"]
        elif op is C.BRANCH:
            part = []
            for b in av[1]:
                part += samples(b, 1)
            part = part[:6] or [""]
        elif op in (C.MAX_REPEAT, C.MIN_REPEAT):
            lo, hi, s = av
            body = samples(s, k)
            part = []
            for b in body[:k]:
                part.append(b * max(lo, 0))
                if hi > lo:
                    part.append(b * (lo + 1))
            part = list(dict.fromkeys(part))[:k + 1] or [""]
        elif op is C.SUBPATTERN:
            part = samples(av[3], k)
        elif op in (C.ASSERT, C.ASSERT_NOT, C.AT):
            part = [""]
        elif op is C.GROUPREF:
            part = [" "]
        else:
            part = [""]
        outs = [o + p for o in outs for p in part][:k * 3]
    return list(dict.fromkeys(outs))


def alphabet(sub, out=None):
    """every character the pattern names literally (in a literal, a class or a look-around): the characters on which some item of
    the pattern behaves differently from its neighbours"""
    out = [] if out is None else out
    for op, av in sub:
        if op in (C.LITERAL, C.NOT_LITERAL):
            out.append(chr(av))
        elif op is C.IN:
            for o, a in av:
                if o is C.LITERAL:
                    out.append(chr(a))
                elif o is C.RANGE:
                    out.append(chr(a[0]))
        elif op in (C.MAX_REPEAT, C.MIN_REPEAT):
            alphabet(av[2], out)
        elif op is C.SUBPATTERN:
            alphabet(av[3], out)
        elif op is C.BRANCH:
            for b in av[1]:
                alphabet(b, out)
        elif op in (C.ASSERT, C.ASSERT_NOT):
            alphabet(av[1], out)
    return out


def _accepts(body):
    try:
        import re._compiler as K
        rx = K.compile(body)
        return lambda u: rx.fullmatch(u) is not None
    except Exception:  # noqa
        return lambda u: False


def repeat_sites(sub, prefix_samples=("",), alpha=None):
    """yield (prefixes, units) for every repeat node with hi > 1 reachable in the sequence structure"""
    pre = list(prefix_samples)
    if alpha is None:
        alpha = list(dict.fromkeys(alphabet(sub)))[:24]
    for op, av in sub:
        if op in (C.MAX_REPEAT, C.MIN_REPEAT):
            lo, hi, s = av
            if hi > 1:
                units = samples(s, 3)
                # alternations inside the body: every alternative and every ordered pair of alternatives
                alts = []
                for o2, a2 in s:
                    if o2 is C.BRANCH:
                        for b in a2[1]:
                            alts += samples(b, 1)
                    if o2 is C.SUBPATTERN:
                        for o3, a3 in a2[3]:
                            if o3 is C.BRANCH:
                                for b in a3[1]:
                                    alts += samples(b, 1)
                alts = [a for a in dict.fromkeys(alts) if a]
                units += alts + [a + b for a in alts for b in alts if a != b][:12]
                units = [u for u in dict.fromkeys(units) if u][:16]
                # one iteration on each character the rest of the pattern treats specially (a look-around or a class after the
                # repeat may reject exactly these)
                acc = _accepts(s)
                units += [c for c in alpha if c not in units and acc(c)][:10]
                if units:
                    yield pre[:4], units
            yield from repeat_sites(s, pre[:3], alpha)
        elif op is C.SUBPATTERN:
            yield from repeat_sites(av[3], pre[:3], alpha)
        elif op is C.BRANCH:
            for b in av[1]:
                yield from repeat_sites(b, pre[:3], alpha)
        elif op in (C.ASSERT, C.ASSERT_NOT):
            yield from repeat_sites(av[1], pre[:3], alpha)
        # extend the prefixes by a sample of this node
        ext = samples([(op, av)], 2)
        pre = list(dict.fromkeys(p + e for p in pre for e in ext))[:6]


SUFFIXES = ["", "\x01", "a", "\n", " ", "!"]


def pumps_for(pattern, flags=0):
    """[(prefix, unit, suffix)] for one pattern"""
    try:
        tree = P.parse(pattern, flags)
    except Exception:  # noqa
        return []
    out = []
    for pres, units in repeat_sites(tree):
        for p in pres:
            for u in units:
                for s in SUFFIXES:
                    out.append((p, u, s))
    # adjacent-repeat shapes: unit = sample of a repeat body, but placed where the *next* item also accepts it
    return list(dict.fromkeys(out))


if __name__ == "__main__":
    import sys
    for t in pumps_for(sys.argv[1])[:80]:
        print(repr(t))
