"""Correspondence of the whole-document model (coq/Model/Doc.v: normalise, block pass, inline pass) with
create_markdown(renderer=None) of the implementation: AST against AST."""
import json

import corr_block
import corr_inline
from common import run_model


def conv(tokens):
    out = []
    for t in tokens:
        ty = t["type"]
        a = t.get("attrs") or {}
        if ty in ("blank_line", "thematic_break"):
            out.append([ty])
        elif ty == "block_code":
            out.append([ty, t["raw"], t.get("style") == "fenced", t.get("marker", ""), a.get("info")])
        elif ty == "heading":
            out.append([ty, corr_inline.conv(t["children"]), a["level"], t.get("style") == "setext"])
        elif ty in ("paragraph", "block_text"):
            out.append([ty, corr_inline.conv(t["children"])])
        elif ty in ("block_quote", "list_item"):
            out.append([ty, conv(t["children"])])
        elif ty == "list":
            out.append([ty, conv(t["children"]), t["tight"], t["bullet"], a["depth"], a["ordered"], a.get("start")])
        elif ty == "block_html":
            out.append([ty, t["raw"]])
        else:
            out.append(["?", ty])
    return out


def run(ctx, n):
    m = ctx.mistune
    r = ctx.rng("doc-corr")
    PX = ["strikethrough", "mark", "insert", "superscript", "subscript", "url"]
    mds = {(px, hw): m.create_markdown(renderer=None, hard_wrap=hw, plugins=(PX if px else [])) for px in (False, True) for hw in (False, True)}
    cases, want = [], []
    for i in range(n):
        text = corr_block.gen_text(r)
        if any(0xD800 <= ord(c) <= 0xDFFF for c in text):
            continue
        if r.random() < 0.15:
            text = text.replace("\n", r.choice(["\r\n", "\r"]))
        hw = r.random() < 0.2
        px = r.random() < 0.4
        if px and r.random() < 0.6:
            text = text + r.choice(["a ~~b~~ ==c== ^^d^^ e^f^ g~h~ https://x.y/z.\n", "> ~~q *r*~~ and http://a.b\n", "- ==m [n](/u)== ^s\\ t^\n"])
        try:
            got = conv(mds[(px, hw)](text))
        except RecursionError:
            continue
        except Exception:  # noqa
            got = ["error", "exception"]
        cases.append(("doc", [text, hw, px]))
        want.append(got)
    res = run_model(cases)
    dis = [{"input": c[1][0], "hard_wrap": c[1][1], "plugins": c[1][2], "model": mv, "impl": iv} for c, mv, iv in zip(cases, res, want) if mv != iv]
    return {"evaluations": len(cases), "disagreements": dis[:20], "samples": [json.dumps(cases[0][1][0])[:200]]}


if __name__ == "__main__":
    import sys
    sys.path.insert(0, "/verif/tools")
    import check
    ctx = check.Ctx("TD", "quick")
    out = run(ctx, int(sys.argv[1]) if len(sys.argv) > 1 else 500)
    print(out["evaluations"], len(out["disagreements"]))
    for d in out["disagreements"][:6]:
        print(json.dumps(d)[:1500])
