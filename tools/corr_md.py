"""Correspondence of the core conversion with the Markdown renderer (coq/Model/MdDoc.v over Doc.v) with
create_markdown(renderer='markdown', hard_wrap=)."""
import json

import corr_block
from common import run_model


def run(ctx, n):
    m = ctx.mistune
    r = ctx.rng("md-corr")
    from mistune.renderers.markdown import MarkdownRenderer
    mds = {hw: m.create_markdown(renderer=MarkdownRenderer(), hard_wrap=hw) for hw in (False, True)}
    cases, want = [], []
    for i in range(n):
        text = corr_block.gen_text(r)
        if any(0xD800 <= ord(c) <= 0xDFFF for c in text):
            continue
        hw = r.random() < 0.2
        try:
            got = mds[hw](text)
        except RecursionError:
            continue
        except Exception:  # noqa
            got = ["error", "exception"]
        cases.append(("md", [text, hw]))
        want.append(got)
    res = run_model(cases)
    dis = [{"input": c[1][0], "hard_wrap": c[1][1], "model": mv, "impl": iv} for c, mv, iv in zip(cases, res, want) if mv != iv]
    return {"evaluations": len(cases), "disagreements": dis[:20], "samples": [json.dumps(cases[0][1][0])[:200]]}


if __name__ == "__main__":
    import sys
    import check
    ctx = check.Ctx("TM", "quick")
    out = run(ctx, int(sys.argv[1]) if len(sys.argv) > 1 else 500)
    print(out["evaluations"], len(out["disagreements"]))
    for d in out["disagreements"][:8]:
        print(json.dumps(d)[:1500])
