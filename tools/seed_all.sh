#!/bin/bash
# run every seeded change against the check of its property (and extra checks named in meta.json "also") and
# write seeded/RESULTS.md.  /repo must be clean; takes about an hour.
cd /verif
tier="${1:-quick}"
out=seeded/RESULTS.md
echo "# Seeded changes vs checks ($tier tier, $(date -u +%F))" > $out
echo >> $out
echo "| seed | property | exit | verdict line |" >> $out
echo "|------|----------|------|--------------|" >> $out
for d in seeded/C*_m*; do
  name=$(basename $d)
  line=$(tools/seed.sh run $name $tier 2>&1 | tail -1)
  rc=$(echo "$line" | sed -n 's/.*rc=\([0-9]*\).*/\1/p')
  v=$(echo "$line" | sed 's/|/\//g' | cut -c1-230)
  pid=$(/venv/bin/python -c "import json;print(json.load(open('seeded/$name/meta.json'))['property'])")
  echo "| $name | $pid | $rc | $v |" >> $out
  echo "$line"
done
rm -f replays/*.json
