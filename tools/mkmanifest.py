#!/venv/bin/python
"""Writes MANIFEST.json from the property modules (single source of truth)."""
import importlib
import json
import os
import sys

HERE = os.path.dirname(os.path.abspath(__file__))
sys.path.insert(0, HERE)
VERIF = os.path.dirname(HERE)

ALL = ["C%02d" % i for i in range(1, 19)]
NOT_APPLICABLE = {}


def main():
    checks, na = [], []
    for pid in ALL:
        path = os.path.join(HERE, "props", pid + ".py")
        if not os.path.exists(path):
            na.append({"property_id": pid, "reason": NOT_APPLICABLE.get(pid, "not yet claimed: no check built for it in this round")})
            continue
        mod = importlib.import_module("props." + pid)
        if getattr(mod, "NOT_APPLICABLE", None):
            na.append({"property_id": pid, "reason": mod.NOT_APPLICABLE})
            continue
        checks.append({
            "property_id": pid,
            "quick_cmd": "./check %s quick" % pid,
            "thorough_cmd": "./check %s thorough" % pid,
            "evidence_file": "evidence/%s.json" % pid,
            "replay_cmd_template": "./check %s --replay {path}" % pid,
            "engine": "coq-model",
            "level_claimed": {"category": mod.LEVEL, "text": mod.EXPLANATION, "design_ref": getattr(mod, "DESIGN_REF", "DESIGN.md §4 " + pid)},
            "level_note": "; ".join(getattr(mod, "ASSUMPTIONS", []) + getattr(mod, "TRUSTED", [])),
            "technique": getattr(mod, "TECHNIQUE", "Coq theorem about a model tied to the source by regenerated data (translator) and a model-vs-implementation correspondence run"),
        })
    man = {
        "version": 1,
        "setup_cmd": "/venv/bin/python tools/build.py",
        "hooks": {
            "guard": "MISTUNE_VERIF",
            "enable": "export MISTUNE_VERIF=1 (no hook is currently compiled into the repository; all observables are reachable through the public API)",
            "baseline_off_cmd": "cd /repo && env -u MISTUNE_VERIF /venv/bin/python -m pytest -ra -q -p no:cacheprovider --timeout=900 --continue-on-collection-errors",
            "source_commits": [],
            "add_only": True,
        },
        "engines": [{"name": "coq-model", "path": "coq/", "serves_properties": [c["property_id"] for c in checks],
                     "kind_free_text": "Coq 8.16 development (Lib/Model/Proofs/Props) + data regenerated from /repo by tools/translate.py + extracted OCaml runner for the correspondence"}],
        "checks": checks,
        "not_applicable": na,
        "notes": "See DESIGN.md. Every check regenerates coq/Gen from /repo's working tree, rebuilds the Coq cone of Props/<ID>.v, runs the model-vs-implementation correspondence and an implementation-level oracle search.",
    }
    with open(os.path.join(VERIF, "MANIFEST.json"), "w") as f:
        json.dump(man, f, indent=1)
    print("checks:", [c["property_id"] for c in checks], "n/a:", [x["property_id"] for x in na])


if __name__ == "__main__":
    main()
