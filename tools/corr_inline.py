"""Correspondence of the inline parser model (coq/Model/Inline.v) with InlineParser of the implementation:
same text, same reference table, token trees compared."""
import json

import gen_docs
from common import run_model


def conv(tokens):
    out = []
    for t in tokens:
        ty = t["type"]
        if ty in ("text", "codespan", "inline_html"):
            out.append([ty, t["raw"]])
        elif ty in ("linebreak", "softbreak"):
            out.append([ty])
        elif ty in ("emphasis", "strong", "strikethrough", "mark", "insert", "superscript", "subscript"):
            out.append([ty, conv(t["children"])])
        elif ty in ("link", "image"):
            a = t.get("attrs") or {}
            ref = [t["ref"], t["label"]] if "ref" in t else None
            out.append([ty, conv(t["children"]), a.get("url"), a.get("title"), "title" in a, ref])
        else:
            out.append(["?", ty])
    return out


INLINE_ALPHABET = list("ab1 \n*_`[]()<>!\\\"'&;.@/:-#~=^") + ["~~", "==", "^^", "\\ ", "\\~", "http://a.b/c", "https://x.y", "https://x.y.", "  \n", "\\\n", "**", "__", "***", "``", "](", "](/u)", "[r]", "][", "<a>", "</a>", "<http://x.y>", "<m@x.y>",
                                                           "![", "<!--", "-->", "&amp;", "\\*", "\\[", "\\]", "\\`", " \"t\")", " 't')", "(<", ">)", "[R]", "[ r ]", "\\\\", "<b c='d'>"]


def gen_text(r):
    k = r.random()
    if k < 0.45:
        return gen_docs.inline(r, 0, ()) if r.random() < 0.7 else gen_docs.line(r)
    if k < 0.9:
        return "".join(r.choice(INLINE_ALPHABET) for _ in range(r.randint(1, 14)))
    return gen_docs.noise(r, 1, 20)


REFS = [["R", "/ref", "Ref Title"], ["FOO", "/foo", None], ["A B", "/ab", ""], ["X", "", None]]


def run(ctx, n):
    m = ctx.mistune
    r = ctx.rng("inline-corr")
    PX = ["strikethrough", "mark", "insert", "superscript", "subscript", "url"]
    parsers = {(px, hw): m.create_markdown(renderer=None, hard_wrap=hw, plugins=(PX if px else [])).inline for px in (False, True) for hw in (False, True)}
    cases, want = [], []
    for i in range(n):
        text = gen_text(r)
        if any(0xD800 <= ord(c) <= 0xDFFF for c in text):
            continue
        hw = r.random() < 0.2
        px = r.random() < 0.5
        refs = [] if r.random() < 0.3 else r.sample(REFS, r.randint(1, len(REFS)))
        env = {"ref_links": {k: ({"url": u, "title": t} if t is not None else {"url": u}) for k, u, t in refs}}
        if r.random() < 0.5:
            env = {"ref_links": {k: {"url": u, "title": t} for k, u, t in refs}}
        try:
            toks = conv(parsers[(px, hw)](text, env))
        except Exception as e:  # noqa
            toks = ["error", "exception"]
        cases.append(("inline", [text, hw, [[k, u, t] for k, u, t in refs], px]))
        want.append(toks)
    res = run_model(cases)
    dis = []
    for c, mv, iv in zip(cases, res, want):
        if mv != iv:
            dis.append({"input": c[1][0], "hard_wrap": c[1][1], "refs": c[1][2], "plugins": c[1][3], "model": mv, "impl": iv})
    return {"evaluations": len(cases), "disagreements": dis[:20], "samples": [json.dumps(cases[0][1][0])]}


if __name__ == "__main__":
    import sys
    sys.path.insert(0, "/verif/tools")
    import check
    ctx = check.Ctx("TI", "quick")
    out = run(ctx, int(sys.argv[1]) if len(sys.argv) > 1 else 500)
    print(out["evaluations"], len(out["disagreements"]))
    for d in out["disagreements"][:8]:
        print(json.dumps(d))
