"""Engine conformance: the Gallina regex engine (extracted) vs CPython's re, on the regenerated
patterns.  Strings come from each pattern's own alphabet (its literals, one representative per
class and a few neutral characters): exhaustive up to a small length + random longer ones;
modes match/search, with pos/endpos windows; compared: span, every group span, lastindex."""
import itertools
import re
import re._constants as C
import re._parser as P
import sys

from common import run_model

NEUTRAL = ["a", "Z", "0", " ", "\n", "\t", "_", "-", ".", "é", " ", "<", "\\"]


def alphabet(pattern, flags):
    lits = set()

    def walk(sp):
        for op, av in sp:
            if op in (C.LITERAL, C.NOT_LITERAL):
                lits.add(chr(av))
            elif op is C.IN:
                for o, a in av:
                    if o is C.LITERAL:
                        lits.add(chr(a))
                    elif o is C.RANGE:
                        lits.add(chr(a[0]))
                        lits.add(chr(a[1]))
            elif op is C.BRANCH:
                for b in av[1]:
                    walk(b)
            elif op in (C.MAX_REPEAT, C.MIN_REPEAT):
                walk(av[2])
            elif op is C.SUBPATTERN:
                walk(av[3])
            elif op in (C.ASSERT, C.ASSERT_NOT):
                walk(av[1])
    walk(P.parse(pattern, flags))
    return lits


def strings_for(pattern, flags, r, n_exh, n_rand):
    lits = sorted(alphabet(pattern, flags))
    if len(lits) > 14:
        lits = r.sample(lits, 14)
    alpha = list(dict.fromkeys(lits + NEUTRAL[:max(4, 12 - len(lits))]))
    out = [""]
    L = 1
    while True:
        cnt = len(alpha) ** L
        if len(out) + cnt > n_exh:
            break
        out += ["".join(t) for t in itertools.product(alpha, repeat=L)]
        L += 1
    big = list(dict.fromkeys(lits + NEUTRAL))
    frags = lits + NEUTRAL + ["ab", "  ", "\n\n", "```", "***", "- ", "> ", "1. ", "[a]", "](", "<a>", "&amp;", "::", "| a |"]
    for _ in range(n_rand):
        k = r.random()
        if k < 0.5:
            out.append("".join(r.choice(big) for _ in range(r.randint(L, 14))))
        else:
            out.append("".join(r.choice(frags) for _ in range(r.randint(2, 12))))
    return list(dict.fromkeys(out)), L - 1


def impl_result(cp, mode, s, pos, endpos):
    f = cp.match if mode == 0 else cp.search if mode == 1 else cp.fullmatch
    m = f(s, pos, endpos)
    if m is None:
        return None
    return [m.start(), m.end(), [list(m.span(g)) for g in range(1, cp.groups + 1)], m.lastindex]


def model_result(v, ngroups):
    if v is None:
        return None
    a, b, caps = v
    spans = [[-1, -1] for _ in range(ngroups)]
    seen = set()
    for g, s, e in caps:
        if g not in seen and 1 <= g <= ngroups:
            seen.add(g)
            spans[g - 1] = [s, e]
    return [a, b, spans, caps[0][0] if caps else None]


def conformance(ctx, patterns, n_exh, n_rand, tag="rx"):
    """patterns: list of (name, pattern, flags). Returns (evaluations, disagreements, stats)"""
    r = ctx.rng(tag)
    reqs, meta = [], []
    stats = {"patterns": len(patterns), "max_exhaustive_length": {}}
    for name, pat, flags in patterns:
        cp = re.compile(pat, flags)
        strs, L = strings_for(pat, flags, r, n_exh, n_rand)
        stats["max_exhaustive_length"][name] = L
        for s in strs:
            for mode in (0, 1):
                reqs.append(("rx", [name, mode, s, 0, len(s)]))
                meta.append((name, cp, mode, s, 0, len(s)))
            if len(s) >= 3 and r.random() < 0.3:
                pos = r.randint(0, len(s))
                endpos = r.randint(pos, len(s))
                mode = r.choice([0, 1, 2])
                reqs.append(("rx", [name, mode, s, pos, endpos]))
                meta.append((name, cp, mode, s, pos, endpos))
    res = run_model(reqs, timeout=3000)
    dis = []
    for (name, cp, mode, s, pos, endpos), mv in zip(meta, res):
        iv = impl_result(cp, mode, s, pos, endpos)
        mm = model_result(mv, cp.groups) if not (isinstance(mv, list) and mv and mv[0] == "error") else mv
        if iv != mm:
            dis.append({"input": s, "pattern": name, "mode": ["match", "search", "fullmatch"][mode], "pos": pos, "endpos": endpos,
                        "model": mm, "impl": iv})
            if len(dis) >= 30:
                break
    return len(reqs), dis, stats


if __name__ == "__main__":
    import os
    sys.path.insert(0, os.path.dirname(os.path.abspath(__file__)))
    import translate

    class Ctx:
        def rng(self, tag):
            import common
            return common.rng(tag)
    pats = translate.all_patterns()
    only = sys.argv[1:]
    if only:
        pats = [p for p in pats if any(o in p[0] for o in only)]
    n, dis, st = conformance(Ctx(), pats, int(os.environ.get("NEXH", "600")), int(os.environ.get("NRAND", "150")))
    print(n, "evaluations;", len(dis), "disagreements")
    for d in dis[:30]:
        print(d)
