"""Correspondence of the table plugin model (coq/Model/Table.v) with plugins/table.py: the same text is given to
TABLE_PATTERN / NP_TABLE_PATTERN (compiled the way the block parser compiles them) and, on a match, to parse_table /
parse_nptable with a real BlockParser and BlockState; the token appended and the position returned are compared with the
model's answer."""
import json
import re

from common import run_model

CELL = ["a", "b c", "x1", "*e*", "a\\|b", "é", ":-", "--", "1", "a  b", "-", ":", "\\|", "w\\\\"] * 3 + ["", " ", "`c|d`", "\\\\|", "\t", "|", "\\"]
ALIGN = ["-", "--", ":-", "-:", ":-:", ":--", "--:", ":---:", " - ", " :-: ", "---", ":-", "-:"]
BAD_ALIGN = [":", "", "-:-", "- -", ":-:-", "x", "::"]
SEPS = ["\n"] * 24 + ["\r", "\x0b", "\x0c", " ", "\x85", "\x1c", "\r\n", "\u2028"]


def gen(r):
    np = r.random() < 0.45
    ncol = r.randint(2 if np else 1, 4)

    def row(n, pipes):
        cells = [r.choice(CELL) for _ in range(n)]
        body = r.choice([" | ", "|", " |", "| ", "  |  "]).join(cells)
        if pipes:
            body = r.choice(["", "", "", " ", "   ", "    "]) + "|" + body + "|" + r.choice(["", " ", "\t"])
        return body

    def arow(n, pipes):
        cells = [r.choice(ALIGN) if r.random() < 0.96 else r.choice(BAD_ALIGN) for _ in range(n)]
        if not pipes and r.random() < 0.9:
            cells[0] = cells[0].lstrip(" ")
        body = r.choice(["|", " | ", "| "]).join(cells)
        if pipes:
            body = r.choice(["", "  "]) + "|" + body + "|" + r.choice(["", " "])
        return body

    k = r.random()
    head = row(ncol if k > 0.15 else r.randint(1, 4), not np)
    al = arow(ncol if k > 0.1 else r.randint(1, 4), not np)
    rows = []
    for _ in range(r.randint(0, 5)):
        rows.append(row(ncol if r.random() > 0.06 else r.randint(1, 5), not np if r.random() > 0.05 else np))
    text = head + "\n" + al + "\n"
    for x in rows:
        text += x + r.choice(SEPS)
    if rows and r.random() < 0.3:
        text = text.rstrip("\n")
    text += r.choice(["", "", "\n", "\n\n", "tail\n", "\ntail | x\n"])
    if r.random() < 0.08:
        # noise
        text = "".join(r.choice(list("|-: ab\n\t\\")) for _ in range(r.randint(0, 30)))
    return [text, np]


def impl(m, text, np):
    from mistune.plugins import table as T
    from mistune.block_parser import BlockParser
    from mistune.core import BlockState
    pat = re.compile(T.NP_TABLE_PATTERN if np else T.TABLE_PATTERN, re.M)
    mm = pat.match(text)
    if not mm:
        return None
    st = BlockState()
    st.process(text)
    res = (T.parse_nptable if np else T.parse_table)(BlockParser(), mm, st)
    if res is None:
        if st.tokens:
            return "TOKEN-WITHOUT-POSITION"
        return "reject"
    if len(st.tokens) != 1 or st.tokens[0]["type"] != "table":
        return "UNEXPECTED %r" % (st.tokens,)
    thead, tbody = st.tokens[0]["children"]

    def cells(row):
        return [[c["text"], c["attrs"]["align"], c["attrs"]["head"]] for c in row["children"]]
    return [cells(thead), [cells(rw) for rw in tbody["children"]], res]


def run(ctx, n):
    m = ctx.mistune
    r = ctx.rng("corr-table")
    cases = [gen(r) for _ in range(n)]
    res = run_model([("table", c) for c in cases])
    dis = []
    hist = {"no-match": 0, "reject": 0, "table": 0, "rows": 0}
    for c, mv in zip(cases, res):
        try:
            iv = impl(m, c[0], c[1])
        except Exception as e:  # noqa
            iv = "EXC:%s" % type(e).__name__
        if iv is None:
            hist["no-match"] += 1
        elif iv == "reject":
            hist["reject"] += 1
        elif isinstance(iv, list):
            hist["table"] += 1
            hist["rows"] += len(iv[1])
        if iv != mv:
            dis.append({"input": c, "model": mv, "impl": iv})
            if len(dis) > 20:
                break
    return {"evaluations": len(cases), "disagreements": dis, "histogram": hist, "samples": [json.dumps(cases[0])]}
