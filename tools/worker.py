"""Conversion worker: a separate process so that a crash, a hang or runaway recursion in the
library under test cannot take the check down.  One JSON task per line on stdin:
  {"cfg": {...}, "doc": "...", "want": "html|ast|time"}  ->  {"ok": bool, "type": ..., "exc": ..., "cpu": seconds, "out": ...}"""
import json
import os
import sys
import time

sys.path.insert(0, os.path.dirname(os.path.abspath(__file__)))
import common  # noqa: E402

_cache = {}


def build(m, cfg):
    key = json.dumps(cfg, sort_keys=True)
    if key in _cache:
        return _cache[key]
    from mistune.directives import Admonition, Figure, FencedDirective, Image, Include, RSTDirective, TableOfContents
    from mistune.renderers.markdown import MarkdownRenderer
    from mistune.renderers.rst import RSTRenderer
    plugins = list(cfg.get("plugins") or [])
    d = cfg.get("directives")
    dl = lambda: [Admonition(), TableOfContents(), Image(), Figure(), Include()]  # noqa
    if d == "fenced":
        plugins.append(FencedDirective(dl()))
    elif d == "colon":
        plugins.append(FencedDirective(dl(), ":"))
    elif d == "rst":
        plugins.append(RSTDirective(dl()))
    elif d and d.startswith("marker:"):
        plugins.append(FencedDirective(dl(), d[7:]))      # any fence characters the caller chooses
    elif d == "colon+rst":
        plugins.append(FencedDirective(dl(), ":"))
        plugins.append(RSTDirective(dl()))
    elif d == "fenced+rst":
        plugins.append(FencedDirective(dl()))
        plugins.append(RSTDirective(dl()))
    r = cfg.get("renderer", "html")
    renderer = {"html": "html", "ast": None, "rst": RSTRenderer(), "markdown": MarkdownRenderer()}[r]
    if cfg.get("api") == "html":
        md = m.html
    else:
        md = m.create_markdown(escape=cfg.get("escape", True), hard_wrap=cfg.get("hard_wrap", False), renderer=renderer, plugins=plugins)
        if cfg.get("toc_hook"):
            from mistune.toc import add_toc_hook
            add_toc_hook(md, 1, 6)
    _cache[key] = md
    return md


_fixtures = None


def fixtures():
    """a directory of files for documents that are converted with a file context (Markdown.read): include targets"""
    global _fixtures
    if _fixtures is None:
        import atexit
        import shutil
        import tempfile
        d = tempfile.mkdtemp(prefix="mv_fc_")
        atexit.register(shutil.rmtree, d, True)
        os.mkdir(os.path.join(d, "sub"))
        files = {"data.txt": b"plain <x9 y9=1> text &amp; \"q\"\n", "part.md": b"# part <x9>\n\n[a](javascript:x) *em*\n\n```{include} data.txt\n```\n",
                 "frag.html": b"<div onclick=x9()>frag</div>\n", "latin1.txt": b"caf\xe9 <x9>\n", "empty.txt": b"", "bom.md": b"\xef\xbb\xbf# bom\n",
                 "utf16.txt": "text <x9>".encode("utf-16"), os.path.join("sub", "inner.md"): b".. include:: ../data.txt\n\n```{include} ../part.md\n```\n",
                 # containers at the nesting limit, lists, definitions and footnotes of their own, other line endings, mutual inclusion
                 "deep.md": b"> > > > > > deep\n\n- a\n  - b\n    1. c\n\n[inc]: /from-include\n",
                 "crlf.md": b"# T\r\n\r\nhello\r\nworld\r\n\r\n- a\r\n- b\r\n\r\n```\r\ncode\r\n```\r\n", "cr.md": b"# T\r\rhello\r- a\r",
                 "nav.md": b"- [Home][home]\n- > [Up][home] *x*\n\n# Nav [home]\n\ntext[^n] HTML\n\n[^n]: note [home]\n",
                 "heads.md": b"## Inc two\n\npara\n\n### Inc three\n",
                 "cyc_a.md": b"a\n\n.. include:: cyc_b.md\n\n```{include} cyc_b.md\n```\n", "cyc_b.md": b"b\n\n.. include:: cyc_a.md\n\n```{include} cyc_a.md\n```\n"}
        # long acyclic chains of Markdown files, each including the next: fenced spelling, RST spelling, the two in turn
        for i in range(300):
            nxt = "" if i == 299 else "%03d.md" % (i + 1)
            files["chain_f_%03d.md" % i] = ("para %d\n\n" % i + ("```{include} chain_f_%s\n```\n" % nxt if nxt else "")).encode()
            files["chain_r_%03d.md" % i] = ("para %d\n\n" % i + (".. include:: chain_r_%s\n" % nxt if nxt else "")).encode()
            files["chain_m_%03d.md" % i] = ("- item %d\n\n" % i + ((".. include:: chain_m_%s\n" if i % 2 else "```{include} chain_m_%s\n```\n") % nxt if nxt else "")).encode()
        for name, data in files.items():
            with open(os.path.join(d, name), "wb") as f:
                f.write(data)
        _fixtures = d
    return _fixtures


def convert_file(md, doc):
    path = os.path.join(fixtures(), "main.md")
    with open(path, "wb") as f:
        f.write(doc.encode("utf-8", "surrogatepass"))
    return md.read(path)[0]


def main():
    m = common.import_impl()
    sys.setrecursionlimit(1000)
    out = sys.stdout
    for line in sys.stdin:
        t = json.loads(line)
        res = {"ok": True}
        try:
            md = build(m, t["cfg"])
            t0 = time.process_time()
            if t["cfg"].get("api") == "markdown()":
                v = m.markdown(t["doc"], escape=t["cfg"].get("escape", True), plugins=t["cfg"].get("plugins"))
            elif t["cfg"].get("filectx"):
                v = convert_file(md, t["doc"])
            else:
                v = md(t["doc"])
            res["cpu"] = time.process_time() - t0
            res["type"] = type(v).__name__
            if t.get("want") == "out":
                res["out"] = v if isinstance(v, str) else json.dumps(v)
            elif isinstance(v, list):
                json.dumps(v)
        except BaseException as e:  # noqa
            res = {"ok": False, "exc": type(e).__name__, "msg": str(e)[:200]}
            if isinstance(e, (KeyboardInterrupt, SystemExit)):
                raise
        out.write(json.dumps(res) + "\n")
        out.flush()


if __name__ == "__main__":
    main()
