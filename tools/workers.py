"""Pool of conversion workers with per-task wall-clock limits."""
import json
import os
import select
import subprocess
import time

from common import PY, impl_env

HERE = os.path.dirname(os.path.abspath(__file__))


class Worker:
    def __init__(self):
        self.start()

    def start(self):
        self.p = subprocess.Popen([PY, os.path.join(HERE, "worker.py")], stdin=subprocess.PIPE, stdout=subprocess.PIPE,
                                  stderr=subprocess.DEVNULL, env=impl_env(), text=True, encoding="utf-8", errors="surrogatepass", bufsize=1)

    def run(self, task, timeout):
        try:
            self.p.stdin.write(json.dumps(task) + "\n")
            self.p.stdin.flush()
        except (BrokenPipeError, OSError):
            self.restart()
            return {"ok": False, "exc": "WorkerDied", "msg": "before task"}
        t0 = time.time()
        r, _, _ = select.select([self.p.stdout], [], [], timeout)
        if not r:
            self.restart()
            return {"ok": False, "exc": "Timeout", "msg": "no result within %ss" % timeout, "cpu": time.time() - t0}
        line = self.p.stdout.readline()
        if not line:
            code = self.p.poll()
            self.restart()
            return {"ok": False, "exc": "WorkerDied", "msg": "exit code %r (stack overflow / fatal error)" % code}
        return json.loads(line)

    def restart(self):
        try:
            self.p.kill()
            self.p.wait(timeout=5)
        except Exception:  # noqa
            pass
        self.start()

    def close(self):
        try:
            self.p.stdin.close()
            self.p.wait(timeout=5)
        except Exception:  # noqa
            self.p.kill()
